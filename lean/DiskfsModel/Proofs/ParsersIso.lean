/-
  C18 parsers — iso9660 path table, system use area, directory records.
-/
import DiskfsModel.Proofs.ParsersBase
namespace Diskfs.Parsers.Iso
open Diskfs.Parsers

/-! ### parsePathTable -/

/-- one iteration of the checked path table loop: it either ends the table or appends one record and
    advances by the record size, having evaluated only in-range slices and indices -/
theorem pathLoop_step (b : GS) (hwf : b.wf) (fuel i : Nat) (acc : List PathEnt) (hi : i < b.len) :
    ((b.buf.getD i 0).toNat = 0 ∨ i + 8 + (b.buf.getD i 0).toNat > b.len) ∧
        pathLoop true b (fuel + 1) i acc = .ok acc ∨
    ((b.buf.getD i 0).toNat ≠ 0 ∧ i + 8 + (b.buf.getD i 0).toNat ≤ b.len ∧
      ∃ e, pathLoop true b (fuel + 1) i acc =
        pathLoop true b fuel
          (i + (8 + (b.buf.getD i 0).toNat + (if (b.buf.getD i 0).toNat % 2 ≠ 0 then 1 else 0))) (acc ++ [e])) := by
  unfold GS.wf at hwf
  rw [pathLoop]
  simp only [hi, not_true_eq_false, if_false]
  rw [idx_ok b i hi]
  simp only [bind_ok]
  by_cases h0 : (b.buf.getD i 0).toNat = 0
  · left; refine ⟨Or.inl h0, ?_⟩; simp only [h0, if_true]
  · simp only [h0, if_false, Bool.true_and, decide_eq_true_eq]
    by_cases hfit : i + 8 + (b.buf.getD i 0).toNat > b.len
    · left; refine ⟨Or.inr hfit, ?_⟩; simp only [hfit, if_true]
    · right
      simp only [hfit, if_false]
      rw [idx_ok b (i + 1) (by omega)]
      simp only [bind_ok]
      rw [le_ok b (i + 2) 4 (by omega)]
      simp only [bind_ok]
      rw [le_ok b (i + 6) 2 (by omega)]
      simp only [bind_ok]
      rw [slc_ok b (i + 8) _ (by omega) (by omega)]
      simp only [bind_ok]
      exact ⟨h0, by omega, _, rfl⟩

theorem pathLoop_no_panic (b : GS) (hwf : b.wf) :
    ∀ fuel i acc, pathLoop true b fuel i acc ≠ .panic := by
  intro fuel
  induction fuel with
  | zero => intro i acc; simp [pathLoop]
  | succ n ih =>
    intro i acc
    by_cases hi : i < b.len
    · rcases pathLoop_step b hwf n i acc hi with ⟨_, h⟩ | ⟨_, _, e, h⟩
      · rw [h]; simp
      · rw [h]; exact ih _ _
    · rw [pathLoop]; simp [hi]

/-- every record is at least 10 bytes long (8 + a non-empty name, padded to even length) -/
theorem pathLoop_terminates (b : GS) (hwf : b.wf) :
    ∀ fuel i acc, 0 < fuel → b.len + 10 ≤ i + 10 * fuel → pathLoop true b fuel i acc ≠ .fuel := by
  intro fuel
  induction fuel with
  | zero => intro i acc h; omega
  | succ n ih =>
    intro i acc _ h
    by_cases hi : i < b.len
    · rcases pathLoop_step b hwf n i acc hi with ⟨_, h'⟩ | ⟨h0, hfit, e, h'⟩
      · rw [h']; simp
      · rw [h']
        apply ih
        · omega
        · split <;> omega
    · rw [pathLoop]; simp [hi]

/-- number of records returned: each lies inside the table and takes at least 9 of its bytes -/
theorem pathLoop_count (b : GS) (hwf : b.wf) :
    ∀ fuel i acc l, pathLoop true b fuel i acc = .ok l →
      9 * (l.length - acc.length) ≤ b.len - i ∧ acc.length ≤ l.length := by
  intro fuel
  induction fuel with
  | zero => intro i acc l h; simp [pathLoop] at h
  | succ n ih =>
    intro i acc l h
    by_cases hi : i < b.len
    · rcases pathLoop_step b hwf n i acc hi with ⟨_, h'⟩ | ⟨h0, hfit, e, h'⟩
      · rw [h'] at h; injection h with h; subst h; omega
      · rw [h'] at h
        have := ih _ _ _ h
        simp only [List.length_append, List.length_cons, List.length_nil] at this
        split at this <;> omega
    · rw [pathLoop] at h
      simp only [hi, not_false_eq_true, if_true] at h
      injection h with h; subst h; omega

/-! ### system use area -/

theorem suspEntry_ne_fuel (cfg : Cfg) (sig : Bytes) (sb : GS) : suspEntry cfg sig sb ≠ .fuel := by
  unfold suspEntry
  repeat' (first
    | (refine bind_ne_fuel (idx_ne_fuel _ _) (fun _ _ => ?_))
    | (refine bind_ne_fuel (le_ne_fuel _ _ _) (fun _ _ => ?_))
    | (refine bind_ne_fuel (be_ne_fuel _ _ _) (fun _ _ => ?_))
    | (refine bind_ne_fuel (slc_ne_fuel _ _ _) (fun _ _ => ?_))
    | split
    | (simp; done))

/-- with the ER length check in place no system use entry parser panics -/
theorem suspEntry_no_panic (cfg : Cfg) (her : cfg.er = true) (sig : Bytes) (sb : GS) (hwf : sb.wf)
    (h4 : 4 ≤ sb.len) : suspEntry cfg sig sb ≠ .panic := by
  unfold GS.wf at hwf
  unfold suspEntry
  simp only [her, Bool.true_and, decide_eq_true_eq]
  repeat' (first
    | (refine bind_ne_panic (idx_ne_panic _ _ (by omega)) (fun _ _ => ?_))
    | (refine bind_ne_panic (le_ne_panic _ _ _ (by omega)) (fun _ _ => ?_))
    | (refine bind_ne_panic (be_ne_panic _ _ _ (by omega)) (fun _ _ => ?_))
    | (refine bind_ne_panic (slc_ne_panic _ _ _ (by omega) (by omega)) (fun _ _ => ?_))
    | split
    | (simp; done))

/-- one iteration of the system use area walk -/
theorem suspLoop_step (cfg : Cfg) (b : GS) (hwf : b.wf) (fuel i : Nat) (acc : List Susp) (hi : i + 3 < b.len) :
    ((b.buf.getD (i + 2) 0).toNat < 4 ∧ suspLoop cfg b (fuel + 1) i acc = .ok acc) ∨
    (4 ≤ (b.buf.getD (i + 2) 0).toNat ∧ i + (b.buf.getD (i + 2) 0).toNat > b.len ∧
      suspLoop cfg b (fuel + 1) i acc = .err) ∨
    (4 ≤ (b.buf.getD (i + 2) 0).toNat ∧ i + (b.buf.getD (i + 2) 0).toNat ≤ b.len ∧
      suspLoop cfg b (fuel + 1) i acc =
        (suspEntry cfg (GS.bytes ⟨b.buf.drop i, 2⟩) ⟨b.buf.drop i, (b.buf.getD (i + 2) 0).toNat⟩ >>= fun e =>
          suspLoop cfg b fuel (i + (b.buf.getD (i + 2) 0).toNat) (acc ++ [e]))) := by
  unfold GS.wf at hwf
  rw [suspLoop]
  simp only [hi, not_true_eq_false, if_false]
  rw [slc_ok b i (i + 2) (by omega) (by omega)]
  simp only [bind_ok, Nat.add_sub_cancel_left]
  rw [idx_ok b (i + 2) (by omega)]
  simp only [bind_ok]
  by_cases h4 : (b.buf.getD (i + 2) 0).toNat < 4
  · left; exact ⟨h4, by simp only [h4, if_true]⟩
  · simp only [h4, if_false]
    by_cases hfit : i + (b.buf.getD (i + 2) 0).toNat > b.len
    · right; left; exact ⟨by omega, hfit, by simp only [hfit, if_true]⟩
    · right; right
      simp only [hfit, if_false]
      rw [slc_ok b i _ (by omega) (by omega)]
      simp only [bind_ok, Nat.add_sub_cancel_left]
      exact ⟨by omega, by omega, trivial⟩

theorem suspLoop_no_panic (cfg : Cfg) (her : cfg.er = true) (b : GS) (hwf : b.wf) :
    ∀ fuel i acc, suspLoop cfg b fuel i acc ≠ .panic := by
  intro fuel
  induction fuel with
  | zero => intro i acc; simp [suspLoop]
  | succ n ih =>
    intro i acc
    by_cases hi : i + 3 < b.len
    · rcases suspLoop_step cfg b hwf n i acc hi with ⟨_, h⟩ | ⟨_, _, h⟩ | ⟨h4, hfit, h⟩
      · rw [h]; simp
      · rw [h]; simp
      · rw [h]
        refine bind_ne_panic (suspEntry_no_panic cfg her _ _ ?_ h4) (fun e _ => ih _ _)
        unfold GS.wf at hwf ⊢
        simp only [List.length_drop]
        omega
    · rw [suspLoop]; simp [hi]

/-- every system use entry is at least 4 bytes long -/
theorem suspLoop_terminates (cfg : Cfg) (b : GS) (hwf : b.wf) :
    ∀ fuel i acc, 0 < fuel → b.len + 4 ≤ i + 4 * fuel → suspLoop cfg b fuel i acc ≠ .fuel := by
  intro fuel
  induction fuel with
  | zero => intro i acc h; omega
  | succ n ih =>
    intro i acc _ h
    by_cases hi : i + 3 < b.len
    · rcases suspLoop_step cfg b hwf n i acc hi with ⟨_, h'⟩ | ⟨_, _, h'⟩ | ⟨h4, hfit, h'⟩
      · rw [h']; simp
      · rw [h']; simp
      · rw [h']
        refine bind_ne_fuel (suspEntry_ne_fuel _ _ _) (fun e _ => ih _ _ ?_ ?_)
        · omega
        · omega
    · rw [suspLoop]; simp [hi]

/-! ### directory records -/

theorem dirEntryFromBytes_no_panic (cfg : Cfg) (her : cfg.er = true) (joliet : Bool) (b : GS) (hwf : b.wf)
    (fuel : Nat) : dirEntryFromBytes cfg joliet b fuel ≠ .panic := by
  unfold GS.wf at hwf
  unfold dirEntryFromBytes parseSusp
  cases joliet <;> simp only [Bool.not_true, Bool.not_false, Bool.true_and, Bool.false_and, decide_eq_true_eq]
  all_goals
    repeat' (first
      | exact ok_ne_panic _
      | exact pure_ne_panic _
      | exact err_ne_panic
      | (refine bind_ne_panic (idx_ne_panic _ _ (by first | omega | (dsimp only; omega))) (fun _ _ => ?_))
      | (refine bind_ne_panic (le_ne_panic _ _ _ (by omega)) (fun _ _ => ?_))
      | (refine bind_ne_panic (slc_ne_panic _ _ _ (by omega) (by omega)) (fun t ht => ?_);
         obtain ⟨rfl, _, _⟩ := slc_eq_ok _ _ _ _ ht)
      | exact idx_ne_panic _ _ (by first | omega | (dsimp only; omega))
      | (refine suspLoop_no_panic cfg her _ ?_ _ _ _; unfold GS.wf; simp only [List.length_drop]; omega)
      | (refine bind_ne_panic ?_ (fun _ _ => ?_))
      | split)

theorem dirEntryFromBytes_ne_fuel (cfg : Cfg) (joliet : Bool) (b : GS) (hwf : b.wf) (fuel : Nat)
    (hf : b.len ≤ 4 * fuel) (hf0 : 0 < fuel) : dirEntryFromBytes cfg joliet b fuel ≠ .fuel := by
  unfold GS.wf at hwf
  unfold dirEntryFromBytes parseSusp
  cases joliet <;> simp only [Bool.not_true, Bool.not_false, Bool.true_and, Bool.false_and, decide_eq_true_eq]
  all_goals
    repeat' (first
      | exact ok_ne_fuel _
      | exact pure_ne_fuel _
      | exact err_ne_fuel
      | (refine bind_ne_fuel (idx_ne_fuel _ _) (fun _ _ => ?_))
      | (refine bind_ne_fuel (le_ne_fuel _ _ _) (fun _ _ => ?_))
      | (refine bind_ne_fuel (slc_ne_fuel _ _ _) (fun t ht => ?_);
         obtain ⟨rfl, _, _⟩ := slc_eq_ok _ _ _ _ ht)
      | exact idx_ne_fuel _ _
      | (refine suspLoop_terminates cfg _ ?_ _ _ _ hf0 ?_
         · unfold GS.wf; simp only [List.length_drop]; omega
         · dsimp only; omega)
      | (refine bind_ne_fuel ?_ (fun _ _ => ?_))
      | split)

theorem parseDirEntry_no_panic (cfg : Cfg) (her : cfg.er = true) (b : GS) (hwf : b.wf) (fuel : Nat) :
    parseDirEntry cfg b fuel ≠ .panic := by
  have hwf' := hwf
  unfold GS.wf at hwf'
  unfold parseDirEntry
  repeat' (first
    | exact ok_ne_panic _
    | exact pure_ne_panic _
    | exact err_ne_panic
    | (refine bind_ne_panic (idx_ne_panic _ _ (by omega)) (fun _ _ => ?_))
    | (refine bind_ne_panic (slc_ne_panic _ _ _ (by omega) (by omega)) (fun t ht => ?_);
       obtain ⟨rfl, _, _⟩ := slc_eq_ok _ _ _ _ ht)
    | (refine bind_ne_panic (dirEntryFromBytes_no_panic cfg her false _ ?_ _) (fun _ _ => ?_);
       unfold GS.wf; simp only [List.length_drop]; omega)
    | split)

theorem parseDirEntry_ne_fuel (cfg : Cfg) (b : GS) (hwf : b.wf) (fuel : Nat) (hf : b.len ≤ 4 * fuel)
    (hf0 : 0 < fuel) : parseDirEntry cfg b fuel ≠ .fuel := by
  have hwf' := hwf
  unfold GS.wf at hwf'
  unfold parseDirEntry
  repeat' (first
    | exact ok_ne_fuel _
    | exact pure_ne_fuel _
    | exact err_ne_fuel
    | (refine bind_ne_fuel (idx_ne_fuel _ _) (fun _ _ => ?_))
    | (refine bind_ne_fuel (slc_ne_fuel _ _ _) (fun t ht => ?_);
       obtain ⟨rfl, _, _⟩ := slc_eq_ok _ _ _ _ ht)
    | (refine bind_ne_fuel (dirEntryFromBytes_ne_fuel cfg false _ ?_ _ ?_ hf0) (fun _ _ => ?_)
       · unfold GS.wf; simp only [List.length_drop]; omega
       · dsimp only; omega)
    | split)

/-- one iteration of the directory walk (record bound check present: always for plain directories,
    `cfg.joliet` for Joliet ones) -/
theorem dirLoop_step (cfg : Cfg) (joliet : Bool) (bs : Nat) (b : GS) (hwf : b.wf) (fuel i : Nat)
    (acc : List DirRec) (hi : i < b.len) (hbs : 0 < bs) (hj : joliet = false ∨ cfg.joliet = true) :
    ((b.buf.getD i 0).toNat = 0 ∧
      dirLoop cfg joliet bs b (fuel + 1) i acc = dirLoop cfg joliet bs b fuel (i + (bs - i % bs)) acc) ∨
    ((b.buf.getD i 0).toNat ≠ 0 ∧ i + (b.buf.getD i 0).toNat > b.len ∧
      dirLoop cfg joliet bs b (fuel + 1) i acc = .err) ∨
    ((b.buf.getD i 0).toNat ≠ 0 ∧ i + (b.buf.getD i 0).toNat ≤ b.len ∧ joliet = true ∧
      dirLoop cfg joliet bs b (fuel + 1) i acc =
        (dirEntryFromBytes cfg true ⟨b.buf.drop i, (b.buf.getD i 0).toNat⟩ ((b.buf.getD i 0).toNat + 1) >>= fun de =>
          dirLoop cfg joliet bs b fuel (i + (b.buf.getD i 0).toNat) (acc ++ [de]))) ∨
    ((b.buf.getD i 0).toNat ≠ 0 ∧ i + (b.buf.getD i 0).toNat ≤ b.len ∧ joliet = false ∧
      dirLoop cfg joliet bs b (fuel + 1) i acc =
        (parseDirEntry cfg ⟨b.buf.drop i, (b.buf.getD i 0).toNat⟩ ((b.buf.getD i 0).toNat + 1) >>= fun de =>
          match de with
          | none => dirLoop cfg joliet bs b fuel (i + (b.buf.getD i 0).toNat) acc
          | some d => dirLoop cfg joliet bs b fuel (i + (b.buf.getD i 0).toNat) (acc ++ [d]))) := by
  unfold GS.wf at hwf
  rw [dirLoop]
  simp only [hi, not_true_eq_false, if_false]
  rw [idx_ok b i hi]
  simp only [bind_ok]
  have hbs0 : bs ≠ 0 := by omega
  by_cases h0 : (b.buf.getD i 0).toNat = 0
  · left; exact ⟨h0, by simp only [h0, if_true, hbs0, if_false]⟩
  · right
    simp only [h0, if_false]
    have hguard : (!joliet || cfg.joliet) = true := by
      rcases hj with hj | hj
      · simp [hj]
      · simp [hj]
    simp only [hguard, Bool.true_and, decide_eq_true_eq]
    by_cases hfit : i + (b.buf.getD i 0).toNat > b.len
    · left; exact ⟨h0, hfit, by simp only [hfit, if_true]⟩
    · right
      simp only [hfit, if_false]
      rw [slc_ok b i _ (by omega) (by omega)]
      simp only [bind_ok, Nat.add_sub_cancel_left]
      cases joliet
      · right; refine ⟨h0, by omega, rfl, ?_⟩
        simp only [Bool.false_eq_true, if_false]
        first | rfl | congr 1
      · left; exact ⟨h0, by omega, rfl, by simp⟩

theorem dirLoop_no_panic (cfg : Cfg) (her : cfg.er = true) (joliet : Bool) (bs : Nat) (b : GS) (hwf : b.wf)
    (hbs : 0 < bs) (hj : joliet = false ∨ cfg.joliet = true) :
    ∀ fuel i acc, dirLoop cfg joliet bs b fuel i acc ≠ .panic := by
  intro fuel
  induction fuel with
  | zero => intro i acc; simp [dirLoop]
  | succ n ih =>
    intro i acc
    by_cases hi : i < b.len
    · have hsub : ∀ el, i + el ≤ b.len → (GS.mk (b.buf.drop i) el).wf := by
        intro el hel
        unfold GS.wf at hwf ⊢
        simp only [List.length_drop]; omega
      rcases dirLoop_step cfg joliet bs b hwf n i acc hi hbs hj with
        ⟨_, h⟩ | ⟨_, _, h⟩ | ⟨_, hfit, _, h⟩ | ⟨_, hfit, _, h⟩
      · rw [h]; exact ih _ _
      · rw [h]; simp
      · rw [h]
        exact bind_ne_panic (dirEntryFromBytes_no_panic cfg her true _ (hsub _ hfit) _) (fun de _ => ih _ _)
      · rw [h]
        refine bind_ne_panic (parseDirEntry_no_panic cfg her _ (hsub _ hfit) _) (fun de _ => ?_)
        cases de with
        | none => exact ih _ _
        | some d => exact ih _ _
    · rw [dirLoop]; simp [hi]

/-- the walk advances by at least one byte per iteration: `len + 1` iterations always suffice -/
theorem dirLoop_terminates (cfg : Cfg) (joliet : Bool) (bs : Nat) (b : GS) (hwf : b.wf)
    (hbs : 0 < bs) (hj : joliet = false ∨ cfg.joliet = true) :
    ∀ fuel i acc, 0 < fuel → b.len + 1 ≤ i + fuel → dirLoop cfg joliet bs b fuel i acc ≠ .fuel := by
  intro fuel
  induction fuel with
  | zero => intro i acc h; omega
  | succ n ih =>
    intro i acc _ h
    by_cases hi : i < b.len
    · have hsub : ∀ el, i + el ≤ b.len → (GS.mk (b.buf.drop i) el).wf := by
        intro el hel
        unfold GS.wf at hwf ⊢
        simp only [List.length_drop]; omega
      have hmod : i % bs < bs := Nat.mod_lt _ hbs
      rcases dirLoop_step cfg joliet bs b hwf n i acc hi hbs hj with
        ⟨_, h'⟩ | ⟨_, _, h'⟩ | ⟨h0, hfit, _, h'⟩ | ⟨h0, hfit, _, h'⟩
      · rw [h']; exact ih _ _ (by omega) (by omega)
      · rw [h']; simp
      · rw [h']
        refine bind_ne_fuel (dirEntryFromBytes_ne_fuel cfg true _ (hsub _ hfit) _ ?_ (by omega))
          (fun de _ => ih _ _ (by omega) (by omega))
        dsimp only; omega
      · rw [h']
        refine bind_ne_fuel (parseDirEntry_ne_fuel cfg _ (hsub _ hfit) _ ?_ (by omega)) (fun de _ => ?_)
        · dsimp only; omega
        · cases de with
          | none => exact ih _ _ (by omega) (by omega)
          | some d => exact ih _ _ (by omega) (by omega)
    · rw [dirLoop]; simp [hi]

end Diskfs.Parsers.Iso
