/-
  The allocator the correspondence runs the extent-tree mirror with (`bmAlloc`, Model/Ext4/ExtTreeInv.lean: the fast
  path of allocateExtents over the block bitmaps) has the laws `AllocOK` the history theorems of
  Proofs/Ext4ExtInv.lean ask of an allocator: it hands out blocks that were free, and afterwards exactly these are
  not free.
-/
import DiskfsModel.Proofs.Ext4ExtInv
import DiskfsModel.Model.Ext4.ExtTreeInv
import DiskfsModel.Proofs.Ext4Own
namespace Diskfs.Ext4.ExtTree
open Diskfs Diskfs.Ext4

theorem zipIdx_map_get (gs : List Alloc.Bits) (f : Alloc.Bits → Alloc.Bits) (g j : Nat) :
    ((gs.zipIdx).map (fun x => if x.2 = g then f x.1 else x.1))[j]? =
      if j = g then gs[j]?.map f else gs[j]? := by
  simp only [List.getElem?_map, List.getElem?_zipIdx, Nat.zero_add]
  cases gs[j]? with
  | none => simp
  | some b =>
    by_cases h : j = g <;> simp [h]

theorem bmWF_get {bpg : Nat} {s : BmState} (h : bmWF bpg s = true) {g : Nat} {b : Alloc.Bits} (hg : s.groups[g]? = some b) :
    0 < bpg ∧ b.length ≤ bpg := by
  simp only [bmWF, Bool.and_eq_true, decide_eq_true_eq, List.all_eq_true] at h
  exact ⟨h.1, h.2 b (List.mem_of_getElem? hg)⟩

/-- the coordinates of block `fdb + g*bpg + q` with `q < bpg` -/
theorem coords (fdb bpg g q : Nat) (hb : 0 < bpg) (hq : q < bpg) :
    (fdb + g * bpg + q - fdb) / bpg = g ∧ (fdb + g * bpg + q - fdb) % bpg = q := by
  have e : fdb + g * bpg + q - fdb = bpg * g + q := by rw [Nat.mul_comm]; omega
  rw [e, Nat.mul_add_div hb, Nat.div_eq_of_lt hq, Nat.mul_add_mod, Nat.mod_eq_of_lt hq]
  exact ⟨rfl, rfl⟩

theorem bmAlloc_ok (fdb bpg : Nat) : AllocOK (bmAlloc fdb bpg) (bmFree fdb bpg) := by
  have key : ∀ s n b s', (bmAlloc fdb bpg).take s n = some (b, s') →
      ∃ g p bm, 0 < n ∧ 0 < bpg ∧ s.groups[g]? = some bm ∧ p + n ≤ bm.length ∧ bm.length ≤ bpg ∧
        (∀ i, p ≤ i → i < p + n → bm[i]? = some false) ∧ b = fdb + g * bpg + p ∧
        s'.groups = (s.groups.zipIdx).map (fun x => if x.2 = g then Alloc.setRun x.1 p n else x.1) := by
    intro s n b s' h
    simp only [bmAlloc] at h
    split at h
    · cases h
    · rename_i hc
      split at h
      · cases h
      · cases hp : Alloc.fastPick s.groups n with
        | none => simp [hp] at h
        | some q =>
          obtain ⟨g, p⟩ := q
          simp only [hp, Option.some.injEq, Prod.mk.injEq] at h
          obtain ⟨rfl, rfl⟩ := h
          have hn : 0 < n := by
            rcases Nat.eq_zero_or_pos n with h0 | h0
            · exact absurd (Or.inl h0) hc
            · exact h0
          have hwf : bmWF bpg s = true := by
            cases hw : bmWF bpg s with
            | true => rfl
            | false => exact absurd (Or.inr (by simp [hw])) hc
          obtain ⟨bm, hbm, hlen, hbits⟩ := Alloc.fastPick_spec s.groups n g p hn hp
          obtain ⟨hb, hl⟩ := bmWF_get hwf hbm
          exact ⟨g, p, bm, hn, hb, hbm, hlen, hl, hbits, rfl, rfl⟩
  refine ⟨?_, ?_⟩
  · intro s n b s' h i hi
    obtain ⟨g, p, bm, _, hb, hbm, hlen, hl, hbits, rfl, _⟩ := key s n b s' h
    have hc := coords fdb bpg g (p + i) hb (by omega)
    have e : fdb + g * bpg + p + i = fdb + g * bpg + (p + i) := by omega
    simp only [bmFree, e, hc.1, hc.2, hbm, hbits (p + i) (by omega) (by omega)]
    simp
    omega
  · intro s n b s' h x
    obtain ⟨g, p, bm, _, hb, hbm, hlen, hl, hbits, rfl, hs'⟩ := key s n b s' h
    simp only [bmFree, hs']
    rw [zipIdx_map_get s.groups (fun b => Alloc.setRun b p n) g]
    by_cases hx : fdb ≤ x
    · have hmem := Alloc.mem_runBlocks ⟨fdb, bpg, 1⟩ (g, p, n) hb (by simp only; omega) x
      simp only [Alloc.runBlocks, List.mem_range'_1] at hmem
      by_cases hg : (x - fdb) / bpg = g
      · rw [if_pos hg, hg, hbm]
        simp only [Option.map_some, Alloc.setRun_get]
        by_cases hin : p ≤ (x - fdb) % bpg ∧ (x - fdb) % bpg < p + n
        · have hxin : fdb + g * bpg + p ≤ x ∧ x < fdb + g * bpg + p + n := hmem.mpr ⟨hx, hg, hin.1, hin.2⟩
          rw [if_pos hin]
          have hbit := hbits _ hin.1 hin.2
          simp [hx, hbit, hxin.1, hxin.2]
        · rw [if_neg hin]
          have hxout : ¬ (fdb + g * bpg + p ≤ x ∧ x < fdb + g * bpg + p + n) := by
            intro hh
            have := hmem.mp hh
            exact hin ⟨this.2.2.1, this.2.2.2⟩
          simp [hxout]
      · rw [if_neg hg]
        have hxout : ¬ (fdb + g * bpg + p ≤ x ∧ x < fdb + g * bpg + p + n) := by
          intro hh
          exact hg (hmem.mp hh).2.1
        simp [hxout]
    · have hxout : ¬ (fdb + g * bpg + p ≤ x ∧ x < fdb + g * bpg + p + n) := by omega
      simp [hx, hxout]

end Diskfs.Ext4.ExtTree
