/-
  Header, entry-array and whole-table lemmas for the GPT model (helpers for Props/C02, C09, C15).
-/
import DiskfsModel.Proofs.GptCodec
import DiskfsModel.Proofs.PartIO
set_option linter.unusedSimpArgs false
namespace Diskfs.Gpt

@[simp] theorem Res.ok_bind {α β} (a : α) (f : α → Res β) : (Res.ok a >>= f) = f a := rfl
@[simp] theorem Res.pure_eq {α} (a : α) : (pure a : Res α) = Res.ok a := rfl

theorem sl_ok (b : Bytes) (lo hi : Nat) (s : String) (h1 : lo ≤ hi) (h2 : hi ≤ b.length) :
    sl b lo hi s = .ok (slice b lo hi) := by
  simp [sl, slice?, slice, h1, h2]

@[simp] theorem efiSig_length : efiSig.length = 8 := rfl
@[simp] theorem efiRev_length : efiRev.length = 4 := rfl
@[simp] theorem efiHdrSize_length : efiHdrSize.length = 4 := rfl

theorem hdrBody_length (f : Bytes) (hf : f.length = 4) (my alt fd ld : Nat) (guid : Bytes) (hg : guid.length = 16)
    (al cnt es ac : Nat) : (hdrBody f my alt fd ld guid al cnt es ac).length = 92 := by
  simp [hdrBody, hf, guidSwap_length _ hg]

theorem put_mid (a f r d : Bytes) (off : Nat) (ha : a.length = off) (hfd : f.length = d.length) :
    put (a ++ (f ++ r)) off d = a ++ (d ++ r) := by
  subst ha
  simp only [put]
  rw [List.take_left' rfl]
  have h1 : d.take ((a ++ (f ++ r)).length - a.length) = d := by
    apply List.take_of_length_le
    simp
    omega
  rw [h1]
  have h2 : (a ++ (f ++ r)).drop (a.length + d.length) = r := by
    rw [← hfd, ← List.append_assoc]
    exact List.drop_left' (by simp)
  rw [h2, List.append_assoc]

theorem put_crc_field (f : Bytes) (hf : f.length = 4) (my alt fd ld : Nat) (guid : Bytes)
    (al cnt es ac : Nat) (pad : Bytes) :
    put (hdrBody f my alt fd ld guid al cnt es ac ++ pad) 16 (zeros 4)
      = hdrBody (zeros 4) my alt fd ld guid al cnt es ac ++ pad := by
  simp only [hdrBody, List.append_assoc]
  have := put_mid (efiSig ++ (efiRev ++ efiHdrSize)) f
    (zeros 4 ++ (leEnc 8 my ++ (leEnc 8 alt ++ (leEnc 8 fd ++ (leEnc 8 ld ++ (guidSwap guid ++ (leEnc 8 al ++
      (leEnc 4 cnt ++ (leEnc 4 es ++ (leEnc 4 ac ++ pad)))))))))) (zeros 4) 16 (by simp) (by simp [hf])
  simpa only [List.append_assoc] using this

theorem two32_eq : two32 = 256 ^ 4 := by decide

/-- the header decoder accepts exactly what the header encoder produced and returns its fields:
    it recomputes the CRC over the same 92 bytes (CRC field zeroed) the encoder summed -/
theorem readHeader_hdrBody (crc : Bytes → Nat) (hcrc : ∀ b, crc b < two32)
    (my alt fd ld : Nat) (guid : Bytes) (hg : guid.length = 16) (al cnt es ac : Nat) (pad : Bytes)
    (hmy : my < two64) (halt : alt < two64) (hfd : fd < two64) (hld : ld < two64) (hal : al < two64)
    (hcnt : cnt < two32) (hes : es < two32) (hac : ac < two32) :
    readHeader crc (hdrBody (leEnc 4 (crc (hdrBody (zeros 4) my alt fd ld guid al cnt es ac)))
        my alt fd ld guid al cnt es ac ++ pad)
      = .ok { myLBA := my, altLBA := alt, firstData := fd, lastData := ld, guid := guid, arrLBA := al,
              count := cnt, entSize := es, arrCrc := ac } := by
  have lg := guidSwap_length _ hg
  generalize hF : leEnc 4 (crc (hdrBody (zeros 4) my alt fd ld guid al cnt es ac)) = F
  have hf : F.length = 4 := by subst hF; simp
  have hlen : (hdrBody F my alt fd ld guid al cnt es ac ++ pad).length = 92 + pad.length := by
    simp [hdrBody_length F hf my alt fd ld guid hg]
  have hlen2 : (put (hdrBody F my alt fd ld guid al cnt es ac ++ pad) 16 (zeros 4)).length = 92 + pad.length := by
    rw [put_crc_field F hf my alt fd ld guid]
    simp [hdrBody_length (zeros 4) (by simp) my alt fd ld guid hg]
  unfold readHeader
  rw [sl_ok _ 0 8 _ (by omega) (by omega), sl_ok _ 8 12 _ (by omega) (by omega), sl_ok _ 12 16 _ (by omega) (by omega),
    sl_ok _ 16 20 _ (by omega) (by omega), sl_ok _ 20 24 _ (by omega) (by omega), sl_ok _ 24 32 _ (by omega) (by omega),
    sl_ok _ 32 40 _ (by omega) (by omega), sl_ok _ 40 48 _ (by omega) (by omega), sl_ok _ 48 56 _ (by omega) (by omega),
    sl_ok _ 56 72 _ (by omega) (by omega), sl_ok _ 72 80 _ (by omega) (by omega), sl_ok _ 80 84 _ (by omega) (by omega),
    sl_ok _ 84 88 _ (by omega) (by omega), sl_ok _ 88 92 _ (by omega) (by omega)]
  rw [sl_ok _ 0 92 _ (by omega) (by omega)]
  simp only [Res.ok_bind]
  rw [put_crc_field F hf my alt fd ld guid]
  have b0 : slice (hdrBody (zeros 4) my alt fd ld guid al cnt es ac ++ pad) 0 92
      = hdrBody (zeros 4) my alt fd ld guid al cnt es ac :=
    slice_append_hit _ _ _ (hdrBody_length (zeros 4) (by simp) my alt fd ld guid hg _ _ _ _)
  rw [b0]
  have hmy' := hmy; have halt' := halt; have hfd' := hfd; have hld' := hld; have hal' := hal
  have hcnt' := hcnt; have hes' := hes; have hac' := hac
  rw [two64_eq] at hmy' halt' hfd' hld' hal'
  rw [two32_eq] at hcnt' hes' hac'
  have ls : efiSig.length = 8 := rfl
  have lr : efiRev.length = 4 := rfl
  have lh : efiHdrSize.length = 4 := rfl
  have e0 : slice (hdrBody F my alt fd ld guid al cnt es ac ++ pad) 0 8 = efiSig := by
    simp [hdrBody, slice_append_skip, slice_append_hit, List.append_assoc, hf, lg, ls, lr, lh]
  have e1 : slice (hdrBody F my alt fd ld guid al cnt es ac ++ pad) 8 12 = efiRev := by
    simp [hdrBody, slice_append_skip, slice_append_hit, List.append_assoc, hf, lg, ls, lr, lh]
  have e2 : slice (hdrBody F my alt fd ld guid al cnt es ac ++ pad) 12 16 = efiHdrSize := by
    simp [hdrBody, slice_append_skip, slice_append_hit, List.append_assoc, hf, lg, ls, lr, lh]
  have e3 : slice (hdrBody F my alt fd ld guid al cnt es ac ++ pad) 16 20 = F := by
    simp [hdrBody, slice_append_skip, slice_append_hit, List.append_assoc, hf, lg, ls, lr, lh]
  have e4 : slice (hdrBody F my alt fd ld guid al cnt es ac ++ pad) 20 24 = zeros 4 := by
    simp [hdrBody, slice_append_skip, slice_append_hit, List.append_assoc, hf, lg, ls, lr, lh]
  have e5 : slice (hdrBody F my alt fd ld guid al cnt es ac ++ pad) 24 32 = leEnc 8 my := by
    simp [hdrBody, slice_append_skip, slice_append_hit, List.append_assoc, hf, lg, ls, lr, lh]
  have e6 : slice (hdrBody F my alt fd ld guid al cnt es ac ++ pad) 32 40 = leEnc 8 alt := by
    simp [hdrBody, slice_append_skip, slice_append_hit, List.append_assoc, hf, lg, ls, lr, lh]
  have e7 : slice (hdrBody F my alt fd ld guid al cnt es ac ++ pad) 40 48 = leEnc 8 fd := by
    simp [hdrBody, slice_append_skip, slice_append_hit, List.append_assoc, hf, lg, ls, lr, lh]
  have e8 : slice (hdrBody F my alt fd ld guid al cnt es ac ++ pad) 48 56 = leEnc 8 ld := by
    simp [hdrBody, slice_append_skip, slice_append_hit, List.append_assoc, hf, lg, ls, lr, lh]
  have e9 : slice (hdrBody F my alt fd ld guid al cnt es ac ++ pad) 56 72 = guidSwap guid := by
    simp [hdrBody, slice_append_skip, slice_append_hit, List.append_assoc, hf, lg, ls, lr, lh]
  have e10 : slice (hdrBody F my alt fd ld guid al cnt es ac ++ pad) 72 80 = leEnc 8 al := by
    simp [hdrBody, slice_append_skip, slice_append_hit, List.append_assoc, hf, lg, ls, lr, lh]
  have e11 : slice (hdrBody F my alt fd ld guid al cnt es ac ++ pad) 80 84 = leEnc 4 cnt := by
    simp [hdrBody, slice_append_skip, slice_append_hit, List.append_assoc, hf, lg, ls, lr, lh]
  have e12 : slice (hdrBody F my alt fd ld guid al cnt es ac ++ pad) 84 88 = leEnc 4 es := by
    simp [hdrBody, slice_append_skip, slice_append_hit, List.append_assoc, hf, lg, ls, lr, lh]
  have e13 : slice (hdrBody F my alt fd ld guid al cnt es ac ++ pad) 88 92 = leEnc 4 ac := by
    simp [hdrBody, slice_append_skip, slice_append_hit, List.append_assoc, hf, lg, ls, lr, lh]
  rw [e0, e1, e2, e3, e4, e5, e6, e7, e8, e9, e10, e11, e12, e13]
  have hF2 : leDec F = crc (hdrBody (zeros 4) my alt fd ld guid al cnt es ac) := by
    subst hF
    rw [leDec_leEnc_of_lt 4 _ (by rw [← two32_eq]; exact hcrc _)]
  simp only [ne_eq, not_true_eq_false, if_false, hF2]
  rw [leDec_leEnc_of_lt 8 _ hmy', leDec_leEnc_of_lt 8 _ halt', leDec_leEnc_of_lt 8 _ hfd', leDec_leEnc_of_lt 8 _ hld',
    leDec_leEnc_of_lt 8 _ hal', leDec_leEnc_of_lt 4 _ hcnt', leDec_leEnc_of_lt 4 _ hes', leDec_leEnc_of_lt 4 _ hac',
    guidSwap_invol _ hg]
  rfl

end Diskfs.Gpt
