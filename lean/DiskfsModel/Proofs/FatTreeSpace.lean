/-
  ENOSPC in the tree model, characterised: creating a file or a directory in ANY directory of
  the volume is refused for lack of space exactly when the free clusters are fewer than the call
  needs — one for the new entry's chain plus the clusters its parent directory must grow by to
  hold the entry (`growFor`; none in the fixed root of FAT12/16).
    alloc_grow_fails_iff      growing an owned chain fails iff too few clusters are free
    writeDir_nospace_iff      writeDirectoryEntries
    dCreate_nospace_iff / dMkdir_nospace_iff   inside one directory
    dirAtT / atDirT_res / dirAtT_facts         the directory a path leads to, and what holds there
    tstep_create_nospace_iff / tstep_mkdir_nospace_iff
  Core Lean only.
-/
import DiskfsModel.Proofs.FatTreeFit
import DiskfsModel.Proofs.FatTreeFree
import DiskfsModel.Model.Fat.TreeImg
namespace Diskfs.Fat

theorem alloc_grow_fails_iff {k lim max bpc pick fuel m size l others}
    (h : Inv k lim m (l :: others)) (hp : PickSpec lim pick) (hlim : LimOk k lim) (hmax : lim ≤ max)
    (hf : l.length ≤ fuel) (hcount : l.length < cnt size bpc) :
    (allocateSpace k max bpc pick fuel m size (l.headD 0)).res = none ↔
      freeCount lim m < cnt size bpc - l.length := by
  have hl : ChainOk k lim m l := h.chains l List.mem_cons_self
  obtain ⟨hp1, _, hwk, _⟩ := prev_walk (fuel := fuel) hlim hmax hl hf
  rw [alloc_eq hp1 hwk, if_neg (by omega), if_pos hcount]
  constructor
  · intro hres
    split at hres
    · rename_i hlen; exact hp.complete m _ hlen
    · cases hres
  · intro hlt
    have := pick_le_free hp m (cnt size bpc - l.length)
    rw [if_pos (by omega)]

theorem dirSlots_append (g : TGeom) (base : Nat) (ks : List TNode) (t : TNode) :
    dirSlots g base (ks ++ [t]) = dirSlots g base ks + g.slots t.name := by
  unfold dirSlots
  simp only [List.map_append, List.sum_append, List.map_cons, List.map_nil, List.sum_cons, List.sum_nil]
  omega

theorem dirNeed_append (g : TGeom) (base : Nat) (ks : List TNode) (t : TNode) :
    dirNeed g base (ks ++ [t]) = clusterCount g.f.io.bpc (32 * (dirSlots g base ks + g.slots t.name)) := by
  unfold dirNeed; rw [dirSlots_append]

/-- `writeDirectoryEntries` for a chained directory that does not shrink: refused for lack of
    space exactly when fewer clusters are free than the chain must grow by; never refused otherwise -/
theorem writeDir_nospace_iff {g : TGeom} {fuel : Nat} {m : CMap} {d : Dev} {chain : List Nat} {base : Nat}
    {ks : List TNode} {img : Bytes} {R : List (List Nat)}
    (hg : TGeomOk g) (hfuel : g.f.lim - 2 ≤ fuel)
    (h : Inv g.f.kind g.f.lim m (chainOwner chain ++ R)) (hne : chain ≠ [])
    (hle : chain.length ≤ dirNeed g base ks) :
    (writeDir g fuel m d chain base ks img = .error .nospace ↔
      freeCount g.f.lim m < dirNeed g base ks - chain.length) ∧
    (∀ e, writeDir g fuel m d chain base ks img = .error e → e = .nospace) := by
  cases chain with
  | nil => exact absurd rfl hne
  | cons c cs =>
    rw [chainOwner_cons] at h
    have h' : Inv g.f.kind g.f.lim m ((c :: cs) :: R) := h
    have hfl : (c :: cs).length ≤ fuel := Nat.le_trans (chain_length_le h') hfuel
    have hpos : dirNeed g base ks ≠ 0 := by
      intro e; rw [e] at hle; simp at hle
    simp only [writeDir]
    rw [if_neg hpos]
    by_cases heq : dirNeed g base ks = (c :: cs).length
    · rw [if_pos heq]
      refine ⟨⟨fun hh => (by cases hh), fun hh => (by omega)⟩, fun e hh => (by cases hh)⟩
    · rw [if_neg heq]
      have hlt : (c :: cs).length < cnt (dirNeed g base ks * g.f.io.bpc) g.f.io.bpc := by
        have := cnt_mul (dirNeed g base ks) g.f.io.bpc hg.bpc
        unfold cnt; rw [this]; omega
      have key := alloc_grow_fails_iff (fuel := fuel) (size := dirNeed g base ks * g.f.io.bpc) (bpc := g.f.io.bpc)
        h' (firstFit_spec g.f.lim) hg.lim hg.max hfl hlt
      have hcm : cnt (dirNeed g base ks * g.f.io.bpc) g.f.io.bpc = dirNeed g base ks := by
        unfold cnt; exact cnt_mul _ _ hg.bpc
      rw [hcm] at key
      unfold falloc
      simp only [List.headD_cons] at key ⊢
      cases hres : (allocateSpace g.f.kind g.f.max g.f.io.bpc (firstFit g.f.lim) fuel m
          (dirNeed g base ks * g.f.io.bpc) c).res with
      | none =>
        refine ⟨⟨fun _ => key.1 hres, fun _ => rfl⟩, fun e hh => ?_⟩
        simp only [Except.error.injEq] at hh
        exact hh.symm
      | some l' =>
        refine ⟨⟨fun hh => (by cases hh), fun hh => ?_⟩, fun e hh => (by cases hh)⟩
        have := key.2 hh
        rw [hres] at this
        cases this

section space
variable {eqn : Spec.Name → Spec.Name → Bool} {g : TGeom} {fuel : Nat}

/-- the common part of create and mkdir: a fresh one-cluster chain `l` has been taken, then the
    parent directory is rewritten with one more entry -/
theorem new_entry_nospace {s : DirSt} {rest : List (List Nat)} {base : Nat} {x : TNode} {img : Bytes} {d1 : Dev}
    {l : List Nat} (hg : TGeomOk g) (hfuel : g.f.lim - 2 ≤ fuel)
    (h : Inv g.f.kind g.f.lim s.m (chainOwner s.chain ++ kidsOwners s.kids ++ rest))
    (hfit : LevelFit g base s.chain s.kids)
    (hres : (falloc g.f fuel s.m 1 0).res = some l) :
    (writeDir g fuel (falloc g.f fuel s.m 1 0).m d1 s.chain base (s.kids ++ [x]) img = .error .nospace ↔
      freeCount g.f.lim s.m < 1 + growFor g base s.chain s.kids x.name) ∧
    1 ≤ freeCount g.f.lim s.m := by
  unfold falloc at hres ⊢
  obtain ⟨hnew, hlen, hfree⟩ := alloc_new_core h (firstFit_spec _) hg.bpc (by decide) hres
  have hl1 : l.length = 1 := by
    rw [hlen]; exact clusterCount_one hg.bpc
  rw [hl1] at hfree
  refine ⟨?_, by omega⟩
  by_cases hc : s.chain = []
  · -- the fixed root never asks for a cluster
    unfold growFor
    rw [if_pos hc, hc]
    simp only [writeDir]
    constructor
    · intro hh; split at hh <;> cases hh
    · intro hh; omega
  · have hperm : Inv g.f.kind g.f.lim (allocateSpace g.f.kind g.f.max g.f.io.bpc (firstFit g.f.lim) fuel s.m 1 0).m
        (chainOwner s.chain ++ (l :: (kidsOwners s.kids ++ rest))) := inv_perm (by perm_tac) hnew
    have hmono : s.chain.length ≤ dirNeed g base (s.kids ++ [x]) := by
      rw [hfit.2 hc]
      unfold dirNeed
      apply clusterCount_mono hg.bpc
      rw [dirSlots_append]; omega
    have key := (writeDir_nospace_iff (d := d1) (img := img) hg hfuel hperm hc hmono).1
    rw [key, dirNeed_append]
    unfold growFor
    rw [if_neg hc]
    omega

/-- **create**: refused for lack of space iff the free clusters are fewer than one (the file's
    chain) plus what the directory must grow by -/
theorem dCreate_nospace_iff (hg : TGeomOk g) (hfuel : g.f.lim - 2 ≤ fuel) {s : DirSt} {rest : List (List Nat)}
    {base : Nat} {n : Spec.Name} {img : Bytes}
    (h : Inv g.f.kind g.f.lim s.m (chainOwner s.chain ++ kidsOwners s.kids ++ rest))
    (hfit : LevelFit g base s.chain s.kids) (hn : kfind eqn s.kids n = none) :
    (dCreate eqn g fuel n img base s).2 = .nospace ↔
      freeCount g.f.lim s.m < 1 + growFor g base s.chain s.kids n := by
  unfold dCreate
  simp only [hn]
  cases hres : (falloc g.f fuel s.m 1 0).res with
  | none =>
    simp only
    unfold falloc at hres
    have := (alloc_fails_iff (fuel := fuel) h (firstFit_spec g.f.lim) hg.lim hg.max hg.bpc (by decide : 0 < 1)).1 hres
    have h1 : 1 / g.f.io.bpc + (if 1 % g.f.io.bpc > 0 then 1 else 0) = 1 := clusterCount_one hg.bpc
    rw [h1] at this
    exact ⟨fun _ => (by omega), fun _ => (by first | rfl | trivial)⟩
  | some l =>
    simp only
    obtain ⟨key, _⟩ := new_entry_nospace (x := .file n l 0) (img := img) (d1 := s.d) hg hfuel h hfit hres
    simp only [TNode.name] at key
    rw [← key]
    cases hw : writeDir g fuel (falloc g.f fuel s.m 1 0).m s.d s.chain base (s.kids ++ [.file n l 0]) img with
    | error e => simp
    | ok w => simp

/-- **mkdir** of one missing component: the same -/
theorem dMkdir_nospace_iff (hg : TGeomOk g) (hfuel : g.f.lim - 2 ≤ fuel) {s : DirSt} {rest : List (List Nat)}
    {base : Nat} {n : Spec.Name} {img img2 : Bytes}
    (h : Inv g.f.kind g.f.lim s.m (chainOwner s.chain ++ kidsOwners s.kids ++ rest))
    (hfit : LevelFit g base s.chain s.kids) (hn : kfind eqn s.kids n = none) :
    (dMkdir eqn g fuel n img img2 base s).2 = .nospace ↔
      freeCount g.f.lim s.m < 1 + growFor g base s.chain s.kids n := by
  unfold dMkdir
  simp only [hn]
  cases hres : (falloc g.f fuel s.m 1 0).res with
  | none =>
    simp only
    unfold falloc at hres
    have := (alloc_fails_iff (fuel := fuel) h (firstFit_spec g.f.lim) hg.lim hg.max hg.bpc (by decide : 0 < 1)).1 hres
    have h1 : 1 / g.f.io.bpc + (if 1 % g.f.io.bpc > 0 then 1 else 0) = 1 := clusterCount_one hg.bpc
    rw [h1] at this
    exact ⟨fun _ => (by omega), fun _ => (by first | rfl | trivial)⟩
  | some l =>
    simp only
    obtain ⟨key, _⟩ := new_entry_nospace (x := .dir n l []) (img := img)
      (d1 := applyWrs s.d (dirWrs g.f.io l img2)) hg hfuel h hfit hres
    simp only [TNode.name] at key
    rw [← key]
    cases hw : writeDir g fuel (falloc g.f fuel s.m 1 0).m (applyWrs s.d (dirWrs g.f.io l img2)) s.chain base
        (s.kids ++ [.dir n l []]) img with
    | error e => simp
    | ok w => simp

/-! ### the directory a path leads to -/

/-- a call on the volume answers what the call inside the addressed directory answers -/
theorem atDirT_res (f : Nat → DirSt → DirSt × TRes) : ∀ (path : List Spec.Name) (base : Nat) (s : DirSt)
    {b' : Nat} {s' : DirSt}, dirAtT eqn path base s = some (b', s') →
    (atDirT eqn f path base s).2 = (f b' s').2
  | [], base, s, b', s', h => by
    simp only [dirAtT, Option.some.injEq, Prod.mk.injEq] at h
    obtain ⟨rfl, rfl⟩ := h
    rfl
  | n :: rest, base, s, b', s', h => by
    simp only [dirAtT] at h
    simp only [atDirT]
    split at h
    · rename_i nm c ks hfd
      simp only [hfd]
      exact atDirT_res f rest 2 _ h
    · cases h

/-- the invariants hold in the addressed directory, with the rest of the volume as other owners -/
theorem dirAtT_facts (he : EqnOk eqn) : ∀ (path : List Spec.Name) (base : Nat) (s : DirSt) (rest : List (List Nat))
    {b' : Nat} {s' : DirSt},
    Inv g.f.kind g.f.lim s.m (chainOwner s.chain ++ kidsOwners s.kids ++ rest) → kidsWF eqn g s.kids →
    LevelFit g base s.chain s.kids → kidsFit g s.kids → dirAtT eqn path base s = some (b', s') →
    ∃ rest', Inv g.f.kind g.f.lim s'.m (chainOwner s'.chain ++ kidsOwners s'.kids ++ rest') ∧
      LevelFit g b' s'.chain s'.kids ∧ s'.m = s.m
  | [], base, s, rest, b', s', h, _, hfit, _, hd => by
    simp only [dirAtT, Option.some.injEq, Prod.mk.injEq] at hd
    obtain ⟨rfl, rfl⟩ := hd
    exact ⟨rest, h, hfit, rfl⟩
  | n :: path, base, s, rest, b', s', h, hwf, hfit, hkids, hd => by
    simp only [dirAtT] at hd
    split at hd
    · rename_i nm c ks hfd
      obtain ⟨pre, post, hsplit, hfn, hpre, hpost⟩ := kfind_split he (kidsWF_pairwise hwf) hfd
      have hhead := inv_child_head hsplit h
      rw [owners_dir] at hhead
      have hc : c ≠ [] := inv_owner_ne_nil hhead List.mem_cons_self
      have hsub : Inv g.f.kind g.f.lim s.m (chainOwner c ++ kidsOwners ks ++
          (chainOwner s.chain ++ (kidsOwners pre ++ kidsOwners post ++ rest))) := by
        rw [chainOwner_of_ne hc]
        exact inv_perm (by perm_tac) hhead
      have hwfks : kidsWF eqn g ks := by
        have h1 := hwf
        rw [hsplit] at h1
        have := kidsWF_mid h1
        rwa [wf_dir] at this
      have hchild := (kidsFit_iff g s.kids).1 hkids (.dir nm c ks) (by rw [hsplit]; exact List.mem_append_right _ List.mem_cons_self)
      rw [fit_dir] at hchild
      exact dirAtT_facts he path 2 ⟨s.m, s.d, c, ks⟩ _ hsub hwfks hchild.2.1 hchild.2.2 hd
    · cases hd

/-- **ENOSPC of create, on the volume**: `OpenFile(dir/n, O_CREATE)` of a name that does not
    exist in the directory `dir` leads to is refused for lack of space IFF the volume has fewer
    free clusters than one plus the growth of that directory -/
theorem tstep_create_nospace_iff (he : EqnOk eqn) (hg : TGeomOk g) (hfuel : g.f.lim - 2 ≤ fuel) {s : DirSt}
    (h : TInv eqn g s) (hfit : TFit g s) {dir : List Spec.Name} {n : Spec.Name} {img : Bytes} {b' : Nat} {s' : DirSt}
    (hd : dirAtT eqn dir g.rootBase s = some (b', s')) (hn : kfind eqn s'.kids n = none) :
    (tstep eqn g fuel s (.create dir n img)).2 = .nospace ↔
      freeCount g.f.lim s.m < 1 + growFor g b' s'.chain s'.kids n := by
  obtain ⟨rest', hinv', hfit', hm⟩ := dirAtT_facts he dir g.rootBase s [] (by simpa using h.table) h.wf hfit.root hfit.kids hd
  unfold tstep
  simp only [TOp.dir]
  rw [atDirT_res _ dir g.rootBase s hd]
  simp only [dstep]
  rw [dCreate_nospace_iff hg hfuel hinv' hfit' hn, hm]

theorem tstep_mkdir_nospace_iff (he : EqnOk eqn) (hg : TGeomOk g) (hfuel : g.f.lim - 2 ≤ fuel) {s : DirSt}
    (h : TInv eqn g s) (hfit : TFit g s) {dir : List Spec.Name} {n : Spec.Name} {img img2 : Bytes} {b' : Nat} {s' : DirSt}
    (hd : dirAtT eqn dir g.rootBase s = some (b', s')) (hn : kfind eqn s'.kids n = none) :
    (tstep eqn g fuel s (.mkdir dir n img img2)).2 = .nospace ↔
      freeCount g.f.lim s.m < 1 + growFor g b' s'.chain s'.kids n := by
  obtain ⟨rest', hinv', hfit', hm⟩ := dirAtT_facts he dir g.rootBase s [] (by simpa using h.table) h.wf hfit.root hfit.kids hd
  unfold tstep
  simp only [TOp.dir]
  rw [atDirT_res _ dir g.rootBase s hd]
  simp only [dstep]
  rw [dMkdir_nospace_iff hg hfuel hinv' hfit' hn, hm]

end space

end Diskfs.Fat
