/-
  Helper lemmas for the sparse File.Read theorems of Props/C20.lean.
-/
import DiskfsModel.Model.Ext4.SparseRead
namespace Diskfs.Ext4.Reader

/-! ### windows of a byte oracle -/

@[simp] theorem window_length (f : Nat → UInt8) (a k : Nat) : (window f a k).length = k := by
  simp [window]

theorem window_zero (f : Nat → UInt8) (a : Nat) : window f a 0 = [] := by simp [window]

theorem window_add (f : Nat → UInt8) (a k1 k2 : Nat) :
    window f a (k1 + k2) = window f a k1 ++ window f (a + k1) k2 := by
  apply List.ext_getElem
  · simp
  · intro i h1 h2
    simp only [window, List.getElem_map, List.getElem_range]
    by_cases h : i < k1
    · rw [List.getElem_append_left (by simpa using h)]
      simp
    · rw [List.getElem_append_right (by simpa using Nat.le_of_not_lt h)]
      simp only [List.length_map, List.length_range, List.getElem_map, List.getElem_range]
      congr 1; omega

theorem window_congr (f g : Nat → UInt8) (a b k : Nat) (h : ∀ i, i < k → f (a + i) = g (b + i)) :
    window f a k = window g b k := by
  apply List.ext_getElem
  · simp
  · intro i h1 _
    simp only [window, List.getElem_map, List.getElem_range]
    exact h i (by simpa using h1)

theorem readAt_eq_window (dev : Dev) (a k : Nat) : readAt dev a k = window dev a k := rfl

theorem zeros_eq_window (f : Nat → UInt8) (a k : Nat) (h : ∀ i, i < k → f (a + i) = 0) :
    zeros k = window f a k := by
  apply List.ext_getElem
  · simp
  · intro i h1 _
    simp only [zeros, window, List.getElem_replicate, List.getElem_map, List.getElem_range]
    exact (h i (by simpa using h1)).symm

theorem window_take (f : Nat → UInt8) (a k j : Nat) : (window f a k).take j = window f a (min j k) := by
  apply List.ext_getElem
  · simp
  · intro i h1 h2
    simp [window]

/-! ### looking a block up in a sorted list -/

theorem SortedExts_of_append : ∀ (pre l : List Extent), SortedExts (pre ++ l) → SortedExts l
  | [], _, h => h
  | _ :: pre, l, h => SortedExts_of_append pre l h.2.2

theorem SortedExts_count_pos : ∀ (l : List Extent), SortedExts l → ∀ e ∈ l, 0 < e.count
  | [], _, _, he => by simp at he
  | a :: as, h, e, he => by
    rcases List.mem_cons.1 he with rfl | h'
    · exact h.1
    · exact SortedExts_count_pos as h.2.2 e h'

theorem leafLookup_cons_miss (a : Extent) (as : List Extent) (q : Nat)
    (h : ¬ (a.fileBlock ≤ q ∧ q < a.fileBlock + a.count)) : leafLookup (a :: as) q = leafLookup as q := by
  unfold leafLookup
  rw [List.find?_cons_of_neg (by simpa using h)]

theorem leafLookup_cons_hit (a : Extent) (as : List Extent) (q : Nat)
    (h : a.fileBlock ≤ q ∧ q < a.fileBlock + a.count) :
    leafLookup (a :: as) q = some (a.start + (q - a.fileBlock)) := by
  unfold leafLookup
  rw [List.find?_cons_of_pos (by simpa using h)]

theorem leafLookup_none_of_forall : ∀ (l : List Extent) (q : Nat),
    (∀ a ∈ l, ¬ (a.fileBlock ≤ q ∧ q < a.fileBlock + a.count)) → leafLookup l q = none
  | [], _, _ => rfl
  | a :: as, q, h => by
    rw [leafLookup_cons_miss a as q (h a (List.mem_cons_self ..))]
    exact leafLookup_none_of_forall as q (fun b hb => h b (List.mem_cons_of_mem _ hb))

theorem leafLookup_of_mem_sorted : ∀ (l : List Extent), SortedExts l → ∀ e ∈ l, ∀ q,
    e.fileBlock ≤ q → q < e.fileBlock + e.count → leafLookup l q = some (e.start + (q - e.fileBlock))
  | [], _, _, he, _, _, _ => by simp at he
  | a :: as, hs, e, he, q, h1, h2 => by
    rcases List.mem_cons.1 he with rfl | h'
    · exact leafLookup_cons_hit _ as q ⟨h1, h2⟩
    · have := hs.2.1 e h'
      rw [leafLookup_cons_miss a as q (by omega)]
      exact leafLookup_of_mem_sorted as hs.2.2 e h' q h1 h2

/-- a mapped position reads the device byte at the same distance into the extent -/
theorem logicalByte_mapped (dev : Dev) (bs : Nat) (hbs : 0 < bs) (all : List Extent) (hs : SortedExts all)
    (e : Extent) (he : e ∈ all) (p : Nat) (h1 : e.fileBlock * bs ≤ p) (h2 : p < (e.fileBlock + e.count) * bs) :
    logicalByte dev bs all p = dev (e.start * bs + (p - e.fileBlock * bs)) := by
  have hq1 : e.fileBlock ≤ p / bs := (Nat.le_div_iff_mul_le hbs).2 h1
  have hq2 : p / bs < e.fileBlock + e.count := (Nat.div_lt_iff_lt_mul hbs).2 h2
  unfold logicalByte
  rw [leafLookup_of_mem_sorted all hs e he (p / bs) hq1 hq2]
  simp only
  congr 1
  have hdm := Nat.div_add_mod p bs
  have hmul : (e.start + (p / bs - e.fileBlock)) * bs = e.start * bs + ((p / bs) * bs - e.fileBlock * bs) := by
    rw [Nat.add_mul, Nat.sub_mul]
  have hle : e.fileBlock * bs ≤ (p / bs) * bs := Nat.mul_le_mul_right bs hq1
  rw [hmul]
  have hc : bs * (p / bs) = (p / bs) * bs := Nat.mul_comm _ _
  omega

/-- a position whose block no extent contains reads as zero -/
theorem logicalByte_hole (dev : Dev) (bs : Nat) (all : List Extent) (p : Nat)
    (h : ∀ a ∈ all, ¬ (a.fileBlock ≤ p / bs ∧ p / bs < a.fileBlock + a.count)) :
    logicalByte dev bs all p = 0 := by
  unfold logicalByte
  rw [leafLookup_none_of_forall all (p / bs) h]

/-! ### the extent loop -/

/-- Loop invariant ⇒ loop result.  `all = pre ++ rest`; the extents of `pre` end at or before the
    current offset; every extent of `rest` that passes the skip test ends after it. -/
theorem sparseLoop_spec (dev : Dev) (devSize bs off0 want : Nat) (hbs : 0 < bs) (all : List Extent)
    (hs : SortedExts all) (hdev : ExtsOnDev bs devSize all) :
    ∀ (rest pre : List Extent) (st : RdSt), all = pre ++ rest →
      st.off = off0 + st.got.length →
      st.got = window (logicalByte dev bs all) off0 st.got.length →
      st.got.length ≤ want →
      (∀ a ∈ pre, (a.fileBlock + a.count) * bs ≤ st.off) →
      (∀ e ∈ rest, ¬ (e.fileBlock + e.count ≤ off0 / bs) → st.off < (e.fileBlock + e.count) * bs) →
      ∃ st', sparseLoop dev devSize bs (off0 / bs) want rest st = .done st' ∧
        st'.off = off0 + st'.got.length ∧
        st'.got = window (logicalByte dev bs all) off0 st'.got.length ∧
        st'.got.length ≤ want ∧
        (st'.got.length < want → ∀ a ∈ all, (a.fileBlock + a.count) * bs ≤ st'.off) := by
  intro rest
  induction rest with
  | nil =>
    intro pre st hall hoff hgot hlen hpre _
    refine ⟨st, rfl, hoff, hgot, hlen, ?_⟩
    intro _ a ha
    rw [hall, List.append_nil] at ha
    exact hpre a ha
  | cons e es ih =>
    intro pre st hall hoff hgot hlen hpre hrest
    have hall' : all = (pre ++ [e]) ++ es := by rw [hall]; simp
    have hemem : e ∈ all := by rw [hall]; simp
    have hsr : SortedExts (e :: es) := SortedExts_of_append pre (e :: es) (hall ▸ hs)
    have hcnt : 0 < e.count := hsr.1
    have hedev := hdev e hemem
    rw [sparseLoop]
    by_cases hskip : e.fileBlock + e.count ≤ off0 / bs
    · -- skipped: it ends at or before the byte the read starts at
      rw [if_pos hskip]
      have hend : (e.fileBlock + e.count) * bs ≤ off0 := (Nat.le_div_iff_mul_le hbs).1 hskip
      refine ih (pre ++ [e]) st hall' hoff hgot hlen ?_ ?_
      · intro a ha
        rcases List.mem_append.1 ha with h | h
        · exact hpre a h
        · simp only [List.mem_singleton] at h; subst h; omega
      · intro e' he' hns
        exact hrest e' (List.mem_cons_of_mem _ he') hns
    · rw [if_neg hskip]
      simp only []
      have hlt : st.off < (e.fileBlock + e.count) * bs := hrest e (List.mem_cons_self ..) hskip
      have hexp : (e.fileBlock + e.count) * bs = e.fileBlock * bs + e.count * bs := Nat.add_mul _ _ _
      have hdexp : (e.start + e.count) * bs = e.start * bs + e.count * bs := Nat.add_mul _ _ _
      have hcb : 0 < e.count * bs := Nat.mul_pos hcnt hbs
      -- what the logical file holds around this extent
      have Lhole : ∀ p, st.off ≤ p → p < e.fileBlock * bs → logicalByte dev bs all p = 0 := by
        intro p hp1 hp2
        apply logicalByte_hole
        intro a ha
        have hq : p / bs < e.fileBlock := (Nat.div_lt_iff_lt_mul hbs).2 hp2
        rw [hall] at ha
        rcases List.mem_append.1 ha with h | h
        · have h1 := hpre a h
          have : a.fileBlock + a.count ≤ p / bs :=
            (Nat.le_div_iff_mul_le hbs).2 (Nat.le_trans h1 hp1)
          omega
        · rcases List.mem_cons.1 h with rfl | h'
          · omega
          · have := hsr.2.1 a h'
            omega
      have Lmap : ∀ p, e.fileBlock * bs ≤ p → p < (e.fileBlock + e.count) * bs →
          logicalByte dev bs all p = dev (e.start * bs + (p - e.fileBlock * bs)) :=
        fun p h1 h2 => logicalByte_mapped dev bs hbs all hs e hemem p h1 h2
      -- the state after the hole branch
      generalize hst1 : (if st.off < e.fileBlock * bs then
          (⟨st.off + min (e.fileBlock * bs - st.off) (want - st.got.length),
            st.got ++ zeros (min (e.fileBlock * bs - st.off) (want - st.got.length)), st.ios⟩ : RdSt)
          else st) = st1
      have h1off : st1.off = off0 + st1.got.length := by
        rw [← hst1]; split
        · simp only [List.length_append, zeros_length]; omega
        · exact hoff
      have h1ge : st.off ≤ st1.off := by
        rw [← hst1]; split
        · simp only; omega
        · exact Nat.le_refl _
      have h1got : st1.got = window (logicalByte dev bs all) off0 st1.got.length := by
        rw [← hst1]; split
        · rename_i hh
          simp only [List.length_append, zeros_length]
          rw [window_add, ← hgot]
          congr 1
          apply zeros_eq_window
          intro i hi
          apply Lhole <;> omega
        · exact hgot
      have h1len : st1.got.length ≤ want := by
        rw [← hst1]; split
        · simp only [List.length_append, zeros_length]; omega
        · exact hlen
      have h1lt : st1.off < (e.fileBlock + e.count) * bs := by
        rw [← hst1]; split
        · simp only; omega
        · exact hlt
      by_cases hdone : st.off < e.fileBlock * bs ∧ st1.got.length ≥ want
      · rw [if_pos hdone]
        refine ⟨st1, rfl, h1off, h1got, h1len, ?_⟩
        intro h; omega
      · rw [if_neg hdone]
        -- past the hole: the offset is inside the extent
        have h1lo : e.fileBlock * bs ≤ st1.off := by
          by_cases hh : st.off < e.fileBlock * bs
          · have hl : ¬ st1.got.length ≥ want := fun h => hdone ⟨hh, h⟩
            have hl0 := hl
            rw [← hst1, if_pos hh] at hl ⊢
            simp only [List.length_append, zeros_length] at hl ⊢
            omega
          · omega
        have hnp : ¬ st1.off - e.fileBlock * bs > e.count * bs := by omega
        rw [if_neg hnp]
        generalize htr : min (want - st1.got.length) (e.count * bs - (st1.off - e.fileBlock * bs)) = toRead
        have hdv : ¬ (e.start * bs + (st1.off - e.fileBlock * bs) ≥ devSize ∨
            e.start * bs + (st1.off - e.fileBlock * bs) + toRead > devSize) := by
          omega
        rw [if_neg hdv]
        have h2got : st1.got ++ readAt dev (e.start * bs + (st1.off - e.fileBlock * bs)) toRead =
            window (logicalByte dev bs all) off0 (st1.got.length + toRead) := by
          rw [window_add, ← h1got, readAt_eq_window]
          congr 1
          apply window_congr
          intro i hi
          rw [Lmap (off0 + st1.got.length + i) (by omega) (by omega)]
          congr 1; omega
        by_cases hfin : (st1.got ++ readAt dev (e.start * bs + (st1.off - e.fileBlock * bs)) toRead).length ≥ want
        · rw [if_pos hfin]
          refine ⟨_, rfl, ?_, ?_, ?_, ?_⟩
          · simp only [List.length_append, readAt_length]; omega
          · simp only [List.length_append, readAt_length]; exact h2got
          · simp only [List.length_append, readAt_length]; omega
          · simp only [List.length_append, readAt_length] at hfin ⊢; omega
        · rw [if_neg hfin]
          simp only [List.length_append, readAt_length] at hfin
          -- the extent was read to its end
          have htr' : toRead = e.count * bs - (st1.off - e.fileBlock * bs) := by omega
          refine ih (pre ++ [e]) _ hall' ?_ ?_ ?_ ?_ ?_
          · simp only [List.length_append, readAt_length]; omega
          · simp only [List.length_append, readAt_length]; exact h2got
          · simp only [List.length_append, readAt_length]; omega
          · intro a ha
            simp only
            rcases List.mem_append.1 ha with h | h
            · have := hpre a h; omega
            · simp only [List.mem_singleton] at h; subst h; omega
          · intro e' he' _
            simp only
            have h1 := hsr.2.1 e' he'
            have h2 := SortedExts_count_pos es hsr.2.2 e' he'
            have h3 : (e.fileBlock + e.count) * bs ≤ e'.fileBlock * bs := Nat.mul_le_mul_right bs h1
            have h4 : (e'.fileBlock + e'.count) * bs = e'.fileBlock * bs + e'.count * bs := Nat.add_mul _ _ _
            have h5 : 0 < e'.count * bs := Nat.mul_pos h2 hbs
            omega

end Diskfs.Ext4.Reader
