/-
  Geometry theorems instantiated for the REGENERATED cluster-size tables (Generated/Fat.lean):
  `decide` discharges the table well-formedness predicates of Proofs/FatGeomP.lean, the theorems
  themselves are the parametric ones.  Plus concrete values (by `decide`) that document the
  repaired and the former FAT sizing.  Nothing here hard-codes a table threshold.
-/
import DiskfsModel.Proofs.FatGeomP12
import DiskfsModel.Proofs.FatGeomP32
import DiskfsModel.Generated.Fat
namespace Diskfs.Fat
set_option linter.unusedSimpArgs false

/-- the regenerated tables are well formed (re-decided on every run) -/
theorem fat12_table_wf : ClusterTableWF spcAllowed Generated.Fat.fat12_spc_table = true := by decide
theorem fat16_table_wf : ClusterTableWF spcAllowed Generated.Fat.fat16_spc_table = true := by decide
theorem fat32_table_wf : ClusterTableWF32 Generated.Fat.fat32_clusterBytes_table = true := by decide

/-- FAT12 geometry is well formed for every size `Create` accepts -/
theorem mkGeom12_wf (size : Nat) (g : Geom)
    (h : mkGeom12 Generated.Fat.fat12_spc_table size = some g) :
    g.WF size ∧ g.kind = .f12 ∧ g.clusters < 4085 :=
  mkGeom12_wf_tbl _ fat12_table_wf size g h

theorem mkGeom16_wf (size : Nat) (g : Geom)
    (h : mkGeom16 Generated.Fat.fat16_spc_table size = some g) :
    g.WF size ∧ g.kind = .f16 ∧ 4085 ≤ g.clusters ∧ g.clusters < 65525 :=
  mkGeom16_wf_tbl _ fat16_table_wf size g h

/-- with the repaired formula the full `WF` (including `fat_holds`) holds.  The bound for 512-byte
    sectors is the exact one (`mkGeom32Fixed_bound_tight`): 274940771839 = 256.06 GiB. -/
theorem mkGeom32Fixed_wf (size bs : Nat) (g : Geom)
    (hmax : size ≤ 274940771839 ∨ bs = 4096)
    (h : mkGeom32Fixed Generated.Fat.fat32_clusterBytes_table size bs = some g) :
    g.WF size ∧ g.kind = .f32 :=
  mkGeom32Fixed_wf_tbl _ fat32_table_wf size bs g hmax h

/-! ### harmful table edits are refused by the predicate (each differs from today's table in one place) -/

/-- a cluster size that is not a power of two -/
theorem table_bad_value : ClusterTableWF spcAllowed [(2097153, 1), (4194305, 3), (0, 64)] = false := by decide
/-- a cluster size that is not a multiple of the 512-byte sector -/
theorem table_bad_multiple : ClusterTableWF32 [(272629761, 768), (0, 32768)] = false := by decide
/-- thresholds out of order -/
theorem table_not_monotone : ClusterTableWF spcAllowed [(4194305, 1), (2097153, 2), (0, 64)] = false := by decide
/-- cluster sizes that shrink as the volume grows -/
theorem table_values_decrease : ClusterTableWF spcAllowed [(2097153, 4), (4194305, 2), (0, 64)] = false := by decide
/-- 512-byte clusters up to 64 GiB: the 16-bit sectors-per-FAT field would wrap -/
theorem table_fat32_wraps : ClusterTableWF32 [(68719476737, 512), (0, 32768)] = false := by decide
/-- … while moving a threshold harmlessly keeps the predicate (and with it every theorem) -/
theorem table_harmless_edit :
    ClusterTableWF spcAllowed [(2097153, 1), (4194305, 2), (8388609, 4), (16777217, 8), (33554433, 16), (67108865, 32), (0, 64)] = true ∧
    ClusterTableWF32 [(134217729, 512), (8589934593, 4096), (17179869185, 8192), (34359738369, 16384), (0, 32768)] = true := by
  decide

/-- smallest 512-byte-sector size with a short FAT: 161 sectors, 1 FAT sector = 128 entries,
    127 clusters (129 entries needed) -/
theorem cex_mkGeom32_fat_short :
    (mkGeom32 Generated.Fat.fat32_clusterBytes_table 82432 512).map
      (fun g => (g.fatSectors, g.fatEntries, g.clusters)) = some (1, 128, 127) := by decide

/-- same with 4096-byte sectors: 1057 sectors, 1024 entries, 1023 clusters -/
theorem cex_mkGeom32_fat_short_4k :
    (mkGeom32 Generated.Fat.fat32_clusterBytes_table 4329472 4096).map
      (fun g => (g.fatSectors, g.fatEntries, g.clusters)) = some (1, 1024, 1023) := by decide

/-- above 256 GiB (512-byte sectors) the uint16 `sectorsPerFat` wraps -/
theorem cex_mkGeom32_300GiB :
    (mkGeom32 Generated.Fat.fat32_clusterBytes_table (300 * GB) 512).map
      (fun g => decide (g.fatEntries < g.clusters + 2)) = some true := by decide

theorem mkGeom32Fixed_bound_tight :
    (mkGeom32Fixed Generated.Fat.fat32_clusterBytes_table 274940771840 512).map
      (fun g => (g.fatSectors, decide (g.fatEntries < g.clusters + 2))) = some (0, true) := by decide

/-- the two sizes that were short before are fine now -/
theorem mkGeom32Fixed_values :
    (mkGeom32Fixed Generated.Fat.fat32_clusterBytes_table 82432 512).map
      (fun g => (g.fatSectors, g.fatEntries, g.clusters)) = some (2, 256, 125) := by decide

/-! ### the FAT sizing used before "fix: fat12/fat16: size the FAT for the two reserved entries" -/

def mkGeom12Old (tbl : List (Nat × Nat)) (size : Nat) : Option Geom :=
  if size > 128 * MB then none
  else if size < 512 * 4 then none
  else
    let ts := u32 (size / 512)
    let spc := u8 (sizeTableLookup tbl size)
    let rootEntries := if size ≤ 512 * KB then 112 else 224
    let rds := (rootEntries * 32 + 511) / 512
    let ds := sub32 (sub32 ts 1) rds
    let nc := ds / spc
    let spf := u16 (sub32 (u32 (u32 (u32 (nc * 3) / 2) + 512)) 1 / 512)
    let ds2 := sub32 (sub32 (sub32 ts 1) rds) (u32 (2 * spf))
    let nc2 := ds2 / spc
    if nc2 ≥ 4085 then none
    else some ⟨.f12, 512, spc, 1, spf, rootEntries, ts⟩

/-- 32 MiB + 512: the old sizing gives 2048 FAT entries for 2047 clusters (2049 needed) -/
theorem cex_fatsize_old :
    (mkGeom12Old Generated.Fat.fat12_spc_table 33554944).map
      (fun g => decide (g.fatEntries < g.clusters + 2)) = some true := by decide

theorem cex_fatsize_old_values :
    (mkGeom12Old Generated.Fat.fat12_spc_table 33554944).map
      (fun g => (g.fatEntries, g.clusters + 2)) = some (2048, 2049) := by decide

/-- the current sizing at the same size -/
theorem fatsize_new_values :
    (mkGeom12 Generated.Fat.fat12_spc_table 33554944).map
      (fun g => (g.fatEntries, g.clusters + 2)) = some (2389, 2049) := by decide



/-- as found the FAT is short of the two reserved entries for a whole family of sizes: whenever the
    table assigns 512-byte clusters, 32 + 130·k sectors give 128·k clusters and 128·k entries -/
theorem mkGeom32_fat_short_family (tbl : List (Nat × Nat)) (k r : Nat) (hk1 : 1 ≤ k) (hk2 : k ≤ 4095) (hr : r < 512)
    (hl : sizeTableLookup tbl ((32 + 130 * k) * 512 + r) = 512) :
    mkGeom32 tbl ((32 + 130 * k) * 512 + r) 512 = some ⟨.f32, 512, 1, 32, k, 0, 32 + 130 * k⟩ := by
  have hts : ((32 + 130 * k) * 512 + r) / 512 = 32 + 130 * k := by omega
  unfold mkGeom32
  simp only [ite_none_eq_some, hl, hts, Option.some.injEq, u8, Nat.reduceDiv, Nat.reduceMod,
    Nat.reduceEqDiff, ↓reduceIte]
  have e0 : u32 (32 + 130 * k) = 32 + 130 * k := u32_of_lt (by omega)
  have ed : u32 (u32 512 * 1 + 8) = 520 := by decide
  have es0 : u16 (sub32 (u32 (u32 (4 * (32 + 130 * k - 32)) + 520)) 1 / 520) = k := by
    rw [u32_of_lt (x := 4 * (32 + 130 * k - 32)) (by omega), u32_of_lt (x := 4 * (32 + 130 * k - 32) + 520) (by omega),
      sub32_of_le (by omega) (by omega), u16_of_lt (by omega)]
    omega
  rw [e0, ed, sub32_of_le (a := 32 + 130 * k) (b := 32) (by omega) (by omega), es0]
  refine ⟨by decide, by simp only [fat32MaxSize]; omega, by omega, by omega, ?_, ?_, rfl⟩
  · simp only [u32]; omega
  · simp only [KB]; omega

theorem mkGeom32_fat_short_family' (tbl : List (Nat × Nat)) (k r : Nat) (hk1 : 1 ≤ k) (hk2 : k ≤ 4095) (hr : r < 512)
    (hl : sizeTableLookup tbl ((32 + 130 * k) * 512 + r) = 512) :
    (mkGeom32 tbl ((32 + 130 * k) * 512 + r) 512).map
      (fun g => (g.fatEntries, g.clusters)) = some (128 * k, 128 * k) := by
  rw [mkGeom32_fat_short_family tbl k r hk1 hk2 hr hl]
  simp only [Option.map, Geom.fatEntries, Geom.clusters, Geom.dataSectors, Geom.rootSectors,
    Option.some.injEq, Prod.mk.injEq]
  omega

end Diskfs.Fat
