import DiskfsModel.Proofs.IsoCompose
import DiskfsModel.Proofs.IsoSusp
namespace Diskfs.Iso

/-! ### the composition with the limits of the format itself: a volume of up to 2^32 blocks, every file
    below 4 GiB (instead of the whole image below 4 GiB) -/

theorem placeRec_pad_le (bs pos r : Nat) (hbs : 0 < bs) : placeRec bs pos r - pos ≤ r := by
  unfold placeRec
  split
  · rename_i h
    have h1 := Nat.div_add_mod pos bs
    have h2 := Nat.div_add_mod (pos + r) bs
    have h3 := Nat.mod_lt pos hbs
    have h4 := Nat.mod_lt (pos + r) hbs
    -- (pos + r) / bs ≥ pos / bs + 1, so pos + r ≥ bs * (pos / bs + 1) = pos - pos % bs + bs
    have h5 : bs * (pos / bs + 1) ≤ bs * ((pos + r) / bs) := Nat.mul_le_mul_left bs h
    rw [Nat.mul_add, Nat.mul_one] at h5
    omega
  · omega

theorem encSuffix_length_le (bs : Nat) (hbs : 0 < bs) (rs : List Bytes) (pos : Nat) :
    (encSuffix bs rs pos).length ≤ 2 * sumLen rs := by
  induction rs generalizing pos with
  | nil => simp [encSuffix, sumLen]
  | cons r rest ih =>
    have := ih (placeRec bs pos r.length + r.length)
    have hp := placeRec_pad_le bs pos r.length hbs
    simp only [encSuffix, List.length_append, zeros_length, sumLen_cons]
    omega

theorem sumLen_le (l : List Bytes) (k : Nat) (h : ∀ x ∈ l, x.length ≤ k) : sumLen l ≤ k * l.length := by
  induction l with
  | nil => simp [sumLen]
  | cons x r ih =>
    have := ih (fun y hy => h y (List.mem_cons_of_mem _ hy))
    have hx := h x (List.mem_cons_self ..)
    rw [sumLen_cons, List.length_cons, Nat.mul_add, Nat.mul_one]
    omega

section
variable (w : WTree) (order : Nat → List Nm) (fin : Nat → Nat → Nm) (bs : Nat) (o : Order) (sysId volId tail : Bytes)

theorem ident_le (hok : w.OK o) (hr : w.Resolved order fin) (c : Nat) (hc : c < w.n) : (w.ident fin c).length ≤ 14 := by
  by_cases h0 : c = 0
  · simp [WTree.ident, h0]
  · have hk := hok.inKids c hc h0
    exact ((ident_facts w order fin o hok hr (w.parent c) (hok.parLt c hc) hk.1).1 c hk.2).1

/-- a directory of `k` entries takes at most 96·(k+2) bytes -/
theorem dsize_le (hbs : 0 < bs) (hok : w.OK o) (hr : w.Resolved order fin) (d : Nat) (hd : d < w.n) :
    w.dsize fin bs d ≤ 96 * ((w.kids d).length + 2) := by
  unfold WTree.dsize PTree.dirBytes encodeExtent
  have h1 := encSuffix_length_le bs hbs (((w.ptree fin (fun _ => 0) (fun _ => 0)).dirRecs d).map encodeRec) 0
  have h2 := sumLen_le (((w.ptree fin (fun _ => 0) (fun _ => 0)).dirRecs d).map encodeRec) 48 (by
    intro x hx
    obtain ⟨r, hrm, rfl⟩ := List.mem_map.1 hx
    rw [encodeRec_length']
    simp only [PTree.dirRecs, List.mem_cons, List.mem_map] at hrm
    rcases hrm with rfl | rfl | ⟨c, hc, rfl⟩
    · have := hok.date7 d hd
      simp [PTree.selfRec, PTree.recOf, WTree.ptree, WTree.pent, this, recPad]
    · have := hok.date7 _ (hok.parLt d hd)
      simp [PTree.parRec, PTree.recOf, WTree.ptree, WTree.pent, this, recPad]
    · have hcn := hok.kidsLt d hd c hc
      have := hok.date7 c hcn
      have hi := ident_le w order fin o hok hr c hcn
      simp only [PTree.recOf, WTree.ptree, WTree.pent, this, recPad]
      by_cases hp : (w.ident fin c).length % 2 = 0 <;> simp [hp] <;> omega)
  have hlen : (((w.ptree fin (fun _ => 0) (fun _ => 0)).dirRecs d).map encodeRec).length = (w.kids d).length + 2 := by
    simp [PTree.dirRecs, WTree.ptree]
  rw [hlen] at h2
  omega

theorem ptBytes_le (hok : w.OK o) (hr : w.Resolved order fin) (loc : Nat → Nat) (pt : List Nat) (hpt : ∀ d ∈ pt, d < w.n) (big : Bool) :
    (encodePtTable big (w.ptRecs fin loc pt)).length ≤ 23 * pt.length := by
  have : ∀ l : List Nat, (∀ d ∈ l, d < w.n) → ∀ g : Nat → Nat,
      (encodePtTable big (l.map fun d => ({ name := w.ident fin d, loc := loc d, parent := g d } : PtRec))).length ≤ 23 * l.length := by
    intro l
    induction l with
    | nil => intro _ _; simp [encodePtTable]
    | cons d r ih =>
      intro hl g
      have := ih (fun x hx => hl x (List.mem_cons_of_mem _ hx)) g
      have hi := ident_le w order fin o hok hr d (hl d (List.mem_cons_self ..))
      simp only [encodePtTable, List.map_cons, List.flatten_cons, List.length_append, List.length_cons] at this ⊢
      have he : (encodePt big { name := w.ident fin d, loc := loc d, parent := g d }).length ≤ 23 := by
        cases big <;> simp [encodePt, ptPad] <;> split <;> simp <;> omega
      omega
  exact this pt hpt _

/-- the stated limits of the format -/
structure WTree.Limits (o : Order) : Prop where
  total : w.total fin bs o < 2 ^ 32
  files : ∀ f ∈ o.files, (w.content f).length < 2 ^ 32
  kids : ∀ d ∈ o.dirs, (w.kids d).length + 2 ≤ 2 ^ 25
  ptLen : o.pt.length ≤ 2 ^ 27
  ptIn : ∀ d ∈ o.pt, d < w.n

theorem loc_le_total (hbs : 0 < bs) (hok : w.OK o) (x : Wr) (hx : x ∈ (w.image fin bs o sysId volId tail).mid)
    (l : Nat) (hl : x.off = l * bs) : l ≤ w.total fin bs o := by
  have := (image_mid_bounds w fin bs o sysId volId tail hbs hok x hx).2
  rw [hl] at this
  have h2 : l * bs ≤ w.total fin bs o * bs := by omega
  exact Nat.le_of_mul_le_mul_right h2 hbs

theorem ptree_wf_lim (hbs : 0 < bs) (hok : w.OK o) (hr : w.Resolved order fin) (hlim : w.Limits fin bs o) :
    (w.ptree fin (w.loc fin bs o) (w.size fin bs)).WF := by
  refine ⟨hok.kidsLt, hok.parLt, ?_⟩
  intro c hc
  show w.loc fin bs o c < 2 ^ 32 ∧ w.size fin bs c < 2 ^ 32 ∧ (w.date c).length = 7 ∧ (w.ident fin c).length < 222
  have hid := ident_le w order fin o hok hr c hc
  refine ⟨?_, ?_, hok.date7 c hc, by omega⟩
  · cases hcd : w.isDir c
    · have := loc_le_total w fin bs o [] [] [] hbs hok _ (file_in_mid w fin bs o [] [] [] c ((hok.filesOK c).2 ⟨hc, hcd⟩)) _ rfl
      have := hlim.total; omega
    · have := loc_le_total w fin bs o [] [] [] hbs hok _ (dir_in_mid w fin bs o [] [] [] c ((hok.dirsOK c).2 ⟨hc, hcd⟩)) _ rfl
      have := hlim.total; omega
  · unfold WTree.size
    cases hcd : w.isDir c
    · simp only [Bool.false_eq_true, if_false]
      exact hlim.files c ((hok.filesOK c).2 ⟨hc, hcd⟩)
    · simp only [if_true]
      have h1 := dsize_le w order fin bs o hbs hok hr c hc
      have h2 := hlim.kids c ((hok.dirsOK c).2 ⟨hc, hcd⟩)
      omega

theorem pvd_wf_lim (hbs : 0 < bs) (hbs16 : bs < 2 ^ 16) (hok : w.OK o) (hr : w.Resolved order fin) (hlim : w.Limits fin bs o)
    (hs : sysId.length = 32) (hv : volId.length = 32) (ht : tail.length = 1858) :
    (w.image fin bs o sysId volId tail).pvd.WF := by
  have h0 : 0 ∈ o.dirs := (hok.dirsOK 0).2 ⟨hok.pos, hok.rootDir⟩
  have hwf := ptree_wf_lim w order fin bs o hbs hok hr hlim
  have hroot := hwf.2.2 0 hok.pos
  have hL := loc_le_total w fin bs o sysId volId tail hbs hok _ (ptL_in_mid w fin bs o sysId volId tail) _ rfl
  have hM := loc_le_total w fin bs o sysId volId tail hbs hok _ (ptM_in_mid w fin bs o sysId volId tail) _ rfl
  have hsz := ptBytes_le w order fin o hok hr (w.loc fin bs o) o.pt hlim.ptIn false
  have htot := hlim.total
  have hpl := hlim.ptLen
  exact ⟨hs, hv, htot, (by decide : 1 < 2 ^ 16), (by decide : 1 < 2 ^ 16), hbs16, (Nat.lt_of_le_of_lt hsz (by omega) : (encodePtTable false (w.ptRecs fin (w.loc fin bs o) o.pt)).length < 2 ^ 32),
    (Nat.lt_of_le_of_lt hL htot : w.loc fin bs o w.n < 2 ^ 32),
    (by decide : 0 < 2 ^ 32), (Nat.lt_of_le_of_lt hM htot : w.loc fin bs o (w.n + 1) < 2 ^ 32), (by decide : 0 < 2 ^ 32), hroot.1, hroot.2.1, hok.date7 0 hok.pos, rfl, ht⟩

theorem compose_reader_lim (hbs : 2048 ≤ bs) (hbs16 : bs < 2 ^ 16) (hok : w.OK o) (hr : w.Resolved order fin)
    (hlim : w.Limits fin bs o) (hs : sysId.length = 32) (hv : volId.length = 32) (ht : tail.length = 1858)
    (d0 : Dev) (fuel : Nat) (hfit : w.Fits fuel 0) :
    readImageP ((w.image fin bs o sysId volId tail).imageOn d0) (16 * bs) fuel =
      some ((w.image fin bs o sysId volId tail).pvd, (w.ptree fin (w.loc fin bs o) (w.size fin bs)).walk fuel [] 0) := by
  have hb0 : 0 < bs := by omega
  have hp := pvd_wf_lim w order fin bs o sysId volId tail hb0 hbs16 hok hr hlim hs hv ht
  have hpl := image_placed w fin bs o sysId volId tail hb0 hok
  refine reader_on_image_on (w.image fin bs o sysId volId tail) d0 fuel (by show 255 ≤ bs; omega)
    (ptree_wf_lim w order fin bs o hb0 hok hr hlim) hp rfl rfl hok.pos hok.rootDir
    (fun d hd hdir => (hok.dirsOK d).2 ⟨hd, hdir⟩) (fun c hc hf => (hok.filesOK c).2 ⟨hc, hf⟩)
    ?_ ?_ (placed_writes_disjoint _ hbs hp hpl) (fits_ptree w fin _ _ fuel 0 hfit)
  · intro d hd
    show w.size fin bs d = _
    have hb : (w.image fin bs o sysId volId tail).bs = bs := rfl
    rw [hb]
    show _ = ((w.ptree fin (w.loc fin bs o) (w.size fin bs)).dirBytes bs d).length
    rw [dirBytes_length]
    simp only [WTree.size, ((hok.dirsOK d).1 hd).2, if_true]
  · intro f hf
    show w.size fin bs f = (w.content f).length
    simp only [WTree.size, ((hok.filesOK f).1 hf).2, Bool.false_eq_true, if_false]

end

end Diskfs.Iso
