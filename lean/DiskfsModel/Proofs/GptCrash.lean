/-
  C09, record level.  The disk is a record of the five regions `Table.Write` touches
  (sector 0, primary header, primary array, backup array, backup header) over an abstract
  sector type `S`; an array is `n` sectors.  A write in flight persists ANY subset of its
  sectors (`mix keep new old`); a single-sector write (protective MBR entries, a header) is
  atomic: old or new.  The reader is gpt.Read's decision structure: primary header, primary
  array CRC, and on a content error the backup header and the backup array CRC.
  Stated hypotheses (not hidden): sector atomicity is built into `Crash`; `NoCrcCollision`
  is an explicit premise.
-/
namespace Diskfs.GptCrash

structure Disk (S : Type) (n : Nat) where
  mbr : S
  ph : S
  pa : Fin n → S
  ba : Fin n → S
  bh : S

/-- a torn multi-sector write: sector `i` is new iff `keep i` -/
def mix {S : Type} {n : Nat} (keep : Fin n → Bool) (new old : Fin n → S) : Fin n → S :=
  fun i => if keep i then new i else old i

/-- the reader's view of sectors: `hdrP` / `hdrB` decode-and-validate a header sector (signature,
    revision, size, header CRC; `hdrB` also checks that the header says it lives at the last LBA)
    and yield the array CRC it records; `crc` and `parts` act on an `n`-sector array. -/
structure Reader (S P : Type) (n : Nat) where
  hdrP : S → Option Nat
  hdrB : S → Option Nat
  crc : (Fin n → S) → Nat
  parts : (Fin n → S) → P

inductive Out (P : Type) where
  | ok (p : P) (fromBackup : Bool)
  | err

def Out.parts? {P : Type} : Out P → Option P
  | .ok p _ => some p
  | .err => none

def readBackup {S P : Type} {n : Nat} (R : Reader S P n) (d : Disk S n) : Out P :=
  match R.hdrB d.bh with
  | some c => if R.crc d.ba = c then .ok (R.parts d.ba) true else .err
  | none => .err

/-- gpt.Read: the primary if its header validates and its array has the recorded CRC,
    otherwise (content error) the backup -/
def read {S P : Type} {n : Nat} (R : Reader S P n) (d : Disk S n) : Out P :=
  match R.hdrP d.ph with
  | some c => if R.crc d.pa = c then .ok (R.parts d.pa) false else readBackup R d
  | none => readBackup R d

/-- every state the disk can be in if `Write new` over `old` is cut off: the synced writes in
    program order — backup array, backup header, primary array, primary header, with the
    protective-MBR entries of sector 0 either first (`pmFirst = true`, the order found in the code)
    or last (`pmFirst = false`, the repaired order) — the one in flight with any subset of its
    sectors persisted -/
inductive Crash {S : Type} {n : Nat} (pmFirst : Bool) (old new : Disk S n) : Disk S n → Prop
  | pmbrFirst (m : S) (hm : m = old.mbr ∨ m = new.mbr) (hf : pmFirst = true) : Crash pmFirst old new { old with mbr := m }
  | backupArray (keep : Fin n → Bool) :
      Crash pmFirst old new { old with mbr := if pmFirst then new.mbr else old.mbr, ba := mix keep new.ba old.ba }
  | backupHeader (h : S) (hh : h = old.bh ∨ h = new.bh) :
      Crash pmFirst old new { old with mbr := if pmFirst then new.mbr else old.mbr, ba := new.ba, bh := h }
  | primaryArray (keep : Fin n → Bool) :
      Crash pmFirst old new { mbr := if pmFirst then new.mbr else old.mbr, ba := new.ba, bh := new.bh, ph := old.ph,
                              pa := mix keep new.pa old.pa }
  | primaryHeader (h : S) (hh : h = old.ph ∨ h = new.ph) :
      Crash pmFirst old new { new with mbr := if pmFirst then new.mbr else old.mbr, ph := h }
  | pmbrLast (m : S) (hm : m = old.mbr ∨ m = new.mbr) (hf : pmFirst = false) : Crash pmFirst old new { new with mbr := m }

/-- the old table is valid on disk (only its primary copy is needed) -/
structure OldOk {S P : Type} {n : Nat} (R : Reader S P n) (old : Disk S n) : Prop where
  hdr : R.hdrP old.ph = some (R.crc old.pa)

/-- what `Write` produces: both headers validate and carry the CRC of the (same) array -/
structure NewOk {S P : Type} {n : Nat} (R : Reader S P n) (new : Disk S n) : Prop where
  hdrP : R.hdrP new.ph = some (R.crc new.pa)
  hdrB : R.hdrB new.bh = some (R.crc new.ba)
  same : new.ba = new.pa

/-- CRC32 is not collision free: the theorem assumes that no sector-wise mixture of the old and the
    new array, other than the old or the new array itself, has the old array's CRC.  The correspondence
    run evaluates this premise with the real CRC on every generated pair. -/
def NoCrcCollision {S P : Type} {n : Nat} (R : Reader S P n) (old new : Disk S n) : Prop :=
  ∀ keep : Fin n → Bool, R.crc (mix keep new.pa old.pa) = R.crc old.pa →
    mix keep new.pa old.pa = old.pa ∨ mix keep new.pa old.pa = new.pa

theorem mix_all {S : Type} {n : Nat} (new old : Fin n → S) : mix (fun _ => true) new old = new := by
  funext i; simp [mix]

theorem mix_none {S : Type} {n : Nat} (new old : Fin n → S) : mix (fun _ => false) new old = old := by
  funext i; simp [mix]

/-- crash atomicity, GPT over GPT: every crash state — for ALL subsets of the in-flight sectors —
    reads as exactly the old or exactly the new partition list, never an error, never a mixture -/
theorem crash_atomic {S P : Type} {n : Nat} (R : Reader S P n) (pmFirst : Bool) (old new : Disk S n)
    (hOld : OldOk R old) (hNew : NewOk R new) (hColl : NoCrcCollision R old new)
    (d : Disk S n) (hd : Crash pmFirst old new d) :
    (read R d).parts? = some (R.parts old.pa) ∨ (read R d).parts? = some (R.parts new.pa) := by
  cases hd with
  | pmbrFirst m hm hf => left; simp [read, hOld.hdr, Out.parts?]
  | pmbrLast m hm hf => right; simp [read, hNew.hdrP, Out.parts?]
  | backupArray keep => left; simp [read, hOld.hdr, Out.parts?]
  | backupHeader h hh => left; simp [read, hOld.hdr, Out.parts?]
  | primaryArray keep =>
    simp only [read, hOld.hdr]
    by_cases hc : R.crc (mix keep new.pa old.pa) = R.crc old.pa
    · simp only [hc, if_true, Out.parts?]
      rcases hColl keep hc with h | h
      · left; rw [h]
      · right; rw [h]
    · right
      simp [hc, readBackup, hNew.hdrB, hNew.same, Out.parts?]
  | primaryHeader h hh =>
    right
    rcases hh with hh | hh
    · subst hh
      simp only [read, hOld.hdr]
      by_cases hc : R.crc new.pa = R.crc old.pa
      · simp [hc, Out.parts?]
      · simp [hc, readBackup, hNew.hdrB, hNew.same, Out.parts?]
    · subst hh
      simp [read, hNew.hdrP, Out.parts?]

/-- a completed write reads back as the new table, from the primary copy -/
theorem complete_reads_primary {S P : Type} {n : Nat} (R : Reader S P n) (new : Disk S n) (hNew : NewOk R new) :
    read R new = .ok (R.parts new.pa) false := by
  simp [read, hNew.hdrP]

/-- the completed write is one of the crash states (the last write in flight with its sector persisted) -/
theorem complete_is_crash_state {S : Type} {n : Nat} (pmFirst : Bool) (old new : Disk S n) :
    Crash pmFirst old new new := by
  cases pmFirst with
  | true =>
    have := Crash.primaryHeader (pmFirst := true) (old := old) (new := new) new.ph (Or.inr rfl)
    simpa using this
  | false =>
    have := Crash.pmbrLast (pmFirst := false) (old := old) (new := new) new.mbr (Or.inr rfl) rfl
    simpa using this

/-- first-ever write (no valid GPT before: neither header validates): every crash state reads as an
    error (as before the write) or as exactly the new table -/
theorem blank_old {S P : Type} {n : Nat} (R : Reader S P n) (pmFirst : Bool) (old new : Disk S n)
    (hP : R.hdrP old.ph = none) (hB : R.hdrB old.bh = none) (hNew : NewOk R new)
    (d : Disk S n) (hd : Crash pmFirst old new d) :
    read R d = .err ∨ (read R d).parts? = some (R.parts new.pa) := by
  cases hd with
  | pmbrFirst m hm hf => left; simp [read, readBackup, hP, hB]
  | pmbrLast m hm hf => right; simp [read, hNew.hdrP, Out.parts?]
  | backupArray keep => left; simp [read, readBackup, hP, hB]
  | backupHeader h hh =>
    rcases hh with hh | hh
    · subst hh; left; simp [read, readBackup, hP, hB]
    · subst hh; right; simp [read, readBackup, hP, hNew.hdrB, hNew.same, Out.parts?]
  | primaryArray keep => right; simp [read, readBackup, hP, hNew.hdrB, hNew.same, Out.parts?]
  | primaryHeader h hh =>
    right
    rcases hh with hh | hh
    · subst hh; simp [read, readBackup, hP, hNew.hdrB, hNew.same, Out.parts?]
    · subst hh; simp [read, hNew.hdrP, Out.parts?]

/-! ### partition.Read (GPT, then the MBR view of sector 0) on a first-ever write -/

inductive POut (P M : Type) where
  | gpt (p : P)
  | mbr (m : M)
  | err

/-- partition/partition.go Read: gpt.Read, and if that fails whatever mbr.Read makes of sector 0 -/
def partRead {S P M : Type} {n : Nat} (R : Reader S P n) (mbrView : S → Option M) (d : Disk S n) : POut P M :=
  match read R d with
  | .ok p _ => .gpt p
  | .err =>
    match mbrView d.mbr with
    | some m => .mbr m
    | none => .err

/-- repaired order (protective MBR last): on a disk without a valid GPT — blank, or carrying an MBR
    table — every crash state reads through partition.Read exactly as the old disk did (no table, or
    the old MBR table) or as exactly the new GPT -/
theorem first_write_atomic {S P M : Type} {n : Nat} (R : Reader S P n) (mbrView : S → Option M) (old new : Disk S n)
    (hP : R.hdrP old.ph = none) (hB : R.hdrB old.bh = none) (hNew : NewOk R new)
    (d : Disk S n) (hd : Crash false old new d) :
    partRead R mbrView d = partRead R mbrView old ∨ partRead R mbrView d = .gpt (R.parts new.pa) := by
  have hold : read R old = .err := by simp [read, readBackup, hP, hB]
  cases hd with
  | pmbrFirst m hm hf => simp at hf
  | pmbrLast m hm hf => right; simp [partRead, read, hNew.hdrP]
  | backupArray keep => left; simp [partRead, read, readBackup, hP, hB]
  | backupHeader h hh =>
    rcases hh with hh | hh
    · subst hh; left; simp [partRead, read, readBackup, hP, hB]
    · subst hh; right; simp [partRead, read, readBackup, hP, hNew.hdrB, hNew.same]
  | primaryArray keep => right; simp [partRead, read, readBackup, hP, hNew.hdrB, hNew.same]
  | primaryHeader h hh =>
    right
    rcases hh with hh | hh
    · subst hh; simp [partRead, read, readBackup, hP, hNew.hdrB, hNew.same]
    · subst hh; simp [partRead, read, hNew.hdrP]

/-- order found in the code (protective MBR first): on a blank disk the state right after the first
    synced write reads through partition.Read as an MBR table — neither the old disk nor the new GPT -/
theorem first_write_window_pmbr_first :
    ∃ (R : Reader Nat Nat 1) (mbrView : Nat → Option Nat) (old new d : Disk Nat 1),
      R.hdrP old.ph = none ∧ R.hdrB old.bh = none ∧ NewOk R new ∧ Crash true old new d ∧
      partRead R mbrView d ≠ partRead R mbrView old ∧ partRead R mbrView d ≠ .gpt (R.parts new.pa) := by
  refine ⟨⟨fun s => if s = 0 then none else some s, fun s => if s = 0 then none else some s, fun a => a 0, fun a => a 0⟩,
          fun s => if s = 0 then none else some s,
          ⟨0, 0, fun _ => 0, fun _ => 0, 0⟩, ⟨9, 2, fun _ => 2, fun _ => 2, 2⟩, ⟨9, 0, fun _ => 0, fun _ => 0, 0⟩,
          rfl, rfl, ⟨rfl, rfl, rfl⟩, ?_, ?_, ?_⟩
  · exact Crash.pmbrFirst (pmFirst := true) (old := ⟨0, 0, fun _ => 0, fun _ => 0, 0⟩) (new := ⟨9, 2, fun _ => 2, fun _ => 2, 2⟩) 9 (Or.inr rfl) rfl
  · simp [partRead, read, readBackup]
  · simp [partRead, read, readBackup]

/-! ### the result depends on the write order -/

/-- a different order — both arrays before either header — has a crash point (arrays new, headers
    old) that reads as an error although old and new are both fine: the theorem above really uses
    the order array → header on the backup side BEFORE anything on the primary side. -/
theorem order_matters :
    ∃ (R : Reader Nat Nat 1) (old new : Disk Nat 1),
      OldOk R old ∧ NewOk R new ∧ NoCrcCollision R old new ∧
      read R { old with pa := new.pa, ba := new.ba } = .err := by
  refine ⟨⟨fun s => some s, fun s => some s, fun a => a 0, fun a => a 0⟩,
          ⟨0, 1, fun _ => 1, fun _ => 1, 1⟩, ⟨0, 2, fun _ => 2, fun _ => 2, 2⟩, ⟨rfl⟩, ⟨rfl, rfl, rfl⟩, ?_, ?_⟩
  · intro keep _
    cases hk : keep 0
    · left; funext i; have : i = 0 := Fin.ext (by omega); subst this; simp [mix, hk]
    · right; funext i; have : i = 0 := Fin.ext (by omega); subst this; simp [mix, hk]
  · simp [read, readBackup]

end Diskfs.GptCrash
