/-
  C09 on the flat model for ANY well-formed geometry: gpt.Read on the flat device refines the record-level
  reader instantiated with the real decoders (`flatReaderG`), every flat crash state of `writeUp` for an
  initialised table satisfying `GeomWF` is a record-level `Crash` state, hence crash atomicity of
  `Gpt.read` for tables read from a foreign disk and edited (other entry counts, arrays that do not end
  on a sector boundary, any sector size ≥ 512), and for fresh tables on any sector size ≥ 512.
-/
import DiskfsModel.Proofs.GptGeomFlat
import DiskfsModel.Proofs.GptGeomRegions
set_option linter.unusedSimpArgs false
set_option linter.unusedVariables false
namespace Diskfs.GptCrash
open Diskfs Diskfs.Gpt

/-! ### gpt.Read on the flat device, any geometry -/

/-- loadEntries for an array of `n` × 128 bytes at LBA `L` inside the device -/
theorem loadEntries_atG (c : Cfg) (crc : Bytes → Nat) (dev : Dev) (size lss L n : Nat) (tt : Table)
    (hlpos : 0 < lss) (h1 : tt.firstLBA = L) (h2 : tt.arrCount = n) (h3 : tt.entSize = 128)
    (hn : 1 ≤ n) (hmax : n * 128 ≤ 67108864) (hfit : L * lss + n * 128 ≤ size) (hsz : size < two63) :
    (loadEntries c crc dev size tt lss).1 =
      if tt.arrCrc = crc (readAt dev (L * lss) (n * 128)) then
        .ok { tt with parts := decodeArr (readAt dev (L * lss) (n * 128)) lss }
      else .err true := by
  have hL : L ≤ L * lss := Nat.le_mul_of_pos_right _ hlpos
  unfold loadEntries
  rw [h1, h2, h3]
  have hst : toI64 (toI64 ((L : Nat) : Int) * (lss : Int)) = ((L * lss : Nat) : Int) := by
    rw [toI64_of_lt _ (by omega), toI64_mul_nat _ _ (by omega)]
  have hsz' : toI64 (((n : Nat) : Int) * ((128 : Nat) : Int)) = ((n * 128 : Nat) : Int) :=
    toI64_mul_nat _ _ (by simp only [two63]; omega)
  simp only [hst, hsz']
  have a1 : decide (((L * lss : Nat) : Int) < 0) = false := decide_eq_false (by omega)
  have a2 : decide (((n * 128 : Nat) : Int) < 0) = false := decide_eq_false (by omega)
  have a3 : decide (((n * 128 : Nat) : Int) > maxArrayBytes) = false := decide_eq_false (by simp only [maxArrayBytes]; omega)
  have a4 : decide (((L * lss : Nat) : Int) + ((n * 128 : Nat) : Int) > (size : Int)) = false := decide_eq_false (by omega)
  rw [a1, a2, a3, a4]
  simp only [Bool.or_self, Bool.and_false, Bool.false_eq_true, if_false]
  have c2 : ¬ (((n * 128 : Nat) : Int) < 0 ∨ ((n * 128 : Nat) : Int) > maxAlloc) := by simp only [maxAlloc]; omega
  rw [if_neg c2]
  have c3 : ¬ (((L * lss : Nat) : Int) < 0) := by omega
  rw [if_neg c3]
  have c4 : ¬ (((L * lss : Nat) : Int) ≥ (size : Int) ∨ ((L * lss : Nat) : Int) + ((n * 128 : Nat) : Int) > (size : Int)) := by omega
  rw [if_neg c4]
  rw [Int.toNat_natCast, Int.toNat_natCast]
  by_cases hc : tt.arrCrc = crc (readAt dev (L * lss) (n * 128))
  · simp [hc, readArr]
  · simp [hc]

/-- geometry premise: a sector at LBA 1 that readGPTHeader accepts describes geometry `g` -/
def PStdG (crc : Bytes → Nat) (d : Dev) (g : Geo) : Prop :=
  ∀ h, readHeader crc (readAt d g.lss g.lss) = .ok h → h.arrLBA = g.aP ∧ h.count = g.n ∧ h.entSize = 128

/-- …and one at the backup header's LBA that says it lives there describes `g`'s backup array -/
def BStdG (crc : Bytes → Nat) (d : Dev) (g : Geo) : Prop :=
  ∀ h, readHeader crc (readAt d (g.hB * g.lss) g.lss) = .ok h → h.myLBA = g.hB →
    h.arrLBA = g.aB ∧ h.count = g.n ∧ h.entSize = 128

theorem backup_refinesG (c : Cfg) (crc : Bytes → Nat) (d : Dev) (size : Nat) (g : Geo) (G : g.OK size)
    (hB : BStdG crc d g) (al : List Int) :
    outOf (backupResult al (Gpt.readBackup c crc d size g.lss (u64sub (size / g.lss) 1))).1 =
      GptCrash.readBackup (flatReaderG crc g) (toDiskG d g) := by
  have L := lay_of G
  have h512 := L.h512; have a1 := L.a1; have b0 := L.b0; have b1 := L.b1; have b2 := L.b2; have b3 := L.b3
  have hsz := L.hsz; have hq := L.hq
  have hlpos : 0 < g.lss := by omega
  have hab : g.ab = g.n * 128 := rfl
  have hdl : size / g.lss ≤ size := Nat.div_le_self _ _
  have hsec : u64sub (size / g.lss) 1 = g.hB := by
    rw [G.e3]; exact u64sub_one _ (by omega) (by simp only [two64, two63] at *; omega)
  have hoff : toI64 (((g.hB : Nat) : Int) * (g.lss : Int)) = ((g.hB * g.lss : Nat) : Int) :=
    toI64_mul_nat _ _ (by omega)
  have hfit : g.aB * g.lss + g.n * 128 ≤ size := by omega
  have hfst : ∀ x : Res Table × List Int, (backupResult al x).1 =
      match x.1 with | .ok t => .ok { t with backup := true } | .err _ => .err false | .panic s => .panic s := by
    intro x; obtain ⟨r, a⟩ := x; cases r <;> rfl
  rw [hfst, hsec, readBackup_fst' c crc d size g.lss g.hB (g.hB * g.lss) hoff b3]
  unfold GptCrash.readBackup
  have hbh : (toDiskG d g).bh = readAt d (g.hB * g.lss) g.lss := rfl
  have hnp := readHeader_no_panic crc (readAt d (g.hB * g.lss) g.lss) (by simp; omega)
  simp only [flatReaderG, hbh]
  cases hrh : readHeader crc (readAt d (g.hB * g.lss) g.lss) with
  | panic s => rw [hrh] at hnp; simp [Res.isPanic] at hnp
  | err e => simp [outOf]
  | ok h =>
    simp only
    by_cases hm : h.myLBA = g.hB
    · obtain ⟨g1, g2, g3⟩ := hB h hrh hm
      have hle := loadEntries_atG c crc d size g.lss g.aB g.n
        (tableOfHdr { h with myLBA := h.altLBA, altLBA := h.myLBA } g.lss
          (if size < g.lss then false else readPMBR (readAt d 0 g.lss) (pmbrSectors c h.myLBA)))
        hlpos g1 g2 g3 G.hn G.hmax hfit hsz
      rw [hle]
      simp only [hm, g1, g2, g3, ne_eq, not_true_eq_false, if_false, and_self, if_true, tableOfHdr]
      have hj : asm g.lss g.ab (toDiskG d g).ba = readAt d (g.aB * g.lss) (g.n * 128) := asm_secs L d _
      simp only [hj]
      by_cases hc : h.arrCrc = crc (readAt d (g.aB * g.lss) (g.n * 128))
      · simp [hc, outOf]
      · have hc' : ¬ crc (readAt d (g.aB * g.lss) (g.n * 128)) = h.arrCrc := fun e => hc e.symm
        simp [hc, hc', outOf]
    · simp [hm, outOf]

/-- REFINEMENT, any geometry: gpt.Read on the flat device (LBA arithmetic in Go's integer widths, readGPTHeader,
    loadEntries with its bound and CRC checks, content-error-only fallback to the backup at the last LBA)
    equals the record-level reader instantiated with the real decoders on the record view of the device,
    for devices whose header sectors, when they validate, describe geometry `g` -/
theorem read_refinesG (c : Cfg) (crc : Bytes → Nat) (d : Dev) (size : Nat) (g : Geo) (G : g.OK size)
    (hP : PStdG crc d g) (hB : BStdG crc d g) :
    outOf (Gpt.read c crc d size g.lss).1 = GptCrash.read (flatReaderG crc g) (toDiskG d g) := by
  have L := lay_of G
  have h512 := L.h512; have a1 := L.a1; have b0 := L.b0; have b1 := L.b1; have b2 := L.b2; have b3 := L.b3
  have hsz := L.hsz
  have hlpos : 0 < g.lss := by omega
  have h2 : ¬ size < g.lss * 2 := by omega
  have hfit : g.aP * g.lss + g.n * 128 ≤ size := by have : g.ab = g.n * 128 := rfl; omega
  have hbk := backup_refinesG c crc d size g G hB
  have hnp := readHeader_no_panic crc (readAt d g.lss g.lss) (by simp; omega)
  have hp1 := readPrimary_fst c crc d size g.lss h2
  unfold Gpt.read
  unfold GptCrash.read
  have hph : (toDiskG d g).ph = readAt d g.lss g.lss := rfl
  generalize hrp : Gpt.readPrimary c crc d size g.lss = rp at hp1
  obtain ⟨r, al⟩ := rp
  simp only at hp1
  cases hrh : readHeader crc (readAt d g.lss g.lss) with
  | panic s => rw [hrh] at hnp; simp [Res.isPanic] at hnp
  | err e =>
    rw [hrh] at hp1
    simp only at hp1
    subst hp1
    simp only [h2, if_false, flatReaderG, hph, hrh]
    exact hbk al
  | ok h =>
    rw [hrh] at hp1
    simp only at hp1
    obtain ⟨g1, g2, g3⟩ := hP h hrh
    have hle := loadEntries_atG c crc d size g.lss g.aP g.n
      (tableOfHdr h g.lss (readPMBR ((readAt d 0 (g.lss * 2)).take g.lss) (pmbrSectors c h.altLBA)))
      hlpos g1 g2 g3 G.hn G.hmax hfit hsz
    rw [hle] at hp1
    have hj : asm g.lss g.ab (toDiskG d g).pa = readAt d (g.aP * g.lss) (g.n * 128) := asm_secs L d _
    simp only [flatReaderG, hph, hrh, g1, g2, g3, and_self, if_true, hj]
    simp only [tableOfHdr] at hp1
    by_cases hc : h.arrCrc = crc (readAt d (g.aP * g.lss) (g.n * 128))
    · simp only [hc, if_true] at hp1
      subst hp1
      simp [hc, outOf]
    · simp only [hc, if_false] at hp1
      subst hp1
      have hc' : ¬ crc (readAt d (g.aP * g.lss) (g.n * 128)) = h.arrCrc := fun e => hc e.symm
      simp only [h2, if_false, hc', if_false]
      exact hbk al

/-! ### the collision premise, bytewise -/

/-- the array whose byte `j` is `new`'s iff sector `j / lss` was kept -/
def mixArr (lss : Nat) (keep : Nat → Bool) (new old : Bytes) : Bytes :=
  (List.range old.length).map fun j => if keep (j / lss) then new.getD j 0 else old.getD j 0

/-- explicit premise (CRC32 is not collision free): no sector-wise mixture of the old and the new entry
    array has the old array's CRC unless it IS the old or the new array.  Any array length. -/
def NoCrcCollisionG (crc : Bytes → Nat) (lss : Nat) (old new : Bytes) : Prop :=
  ∀ keep : Nat → Bool, crc (mixArr lss keep new old) = crc old →
    mixArr lss keep new old = old ∨ mixArr lss keep new old = new

theorem asm_length (lss ab : Nat) {p : Nat} (a : Fin p → Bytes) : (asm lss ab a).length = ab := by simp [asm]

theorem asm_getD (lss ab : Nat) {p : Nat} (a : Fin p → Bytes) (j : Nat) (hj : j < ab) :
    (asm lss ab a).getD j 0 = if h : j / lss < p then (a ⟨j / lss, h⟩).getD (j % lss) 0 else 0 := by
  simp [asm, List.getD_eq_getElem?_getD, hj]

theorem asm_mix (lss ab : Nat) {p : Nat} (keepF : Fin p → Bool) (A B : Fin p → Bytes) :
    asm lss ab (mix keepF A B) =
      mixArr lss (fun i => if h : i < p then keepF ⟨i, h⟩ else false) (asm lss ab A) (asm lss ab B) := by
  unfold mixArr
  rw [asm_length]
  show (List.range ab).map _ = _
  apply List.map_congr_left
  intro j hj
  have hj' : j < ab := List.mem_range.1 hj
  rw [asm_getD lss ab A j hj', asm_getD lss ab B j hj']
  by_cases h : j / lss < p
  · simp only [h, dif_pos, mix]
    cases keepF ⟨j / lss, h⟩ <;> simp
  · simp [h]

/-- the old device carries a valid primary GPT of geometry `g` -/
def OldOkFlatG (crc : Bytes → Nat) (d0 : Dev) (g : Geo) : Prop :=
  ∃ h, readHeader crc (readAt d0 g.lss g.lss) = .ok h ∧ h.arrLBA = g.aP ∧ h.count = g.n ∧ h.entSize = 128 ∧
    h.arrCrc = crc (readAt d0 (g.aP * g.lss) g.ab)

/-! ### what `Write` sets up, at record level -/

theorem sectorsG_asm {g : Geo} {size : Nat} (L : Lay g size) (D : Dev) (off : Nat) (a : Bytes) (ha : a.length = g.ab) :
    asm g.lss g.ab (sectorsG g.lss g.ab g.p a) = a := by
  rw [← secs_hit L D off a ha, asm_secs L]
  have := readAt_applyWr_same D ⟨off, a⟩
  rw [show (Wr.mk off a).data.length = g.ab from ha] at this
  exact this

/-- what the repaired `Write` of an initialised table of well-formed geometry sets up on ANY prior device
    `d0`, seen at record level: the completed device is `NewOk` for the real decoders, its headers describe
    the table's geometry, and every flat crash state `(k, keep)` is a record-level `Crash` state -/
theorem write_crash_setupG (c : Cfg) (hpl : c.pmbrLast = true) (crc : Bytes → Nat) (hcrc : ∀ b, crc b < two32)
    (d0 : Dev) (t : Table) (size : Nat) (ws : List Wr) (t' : Table)
    (hg : GeomWF t size) (hpm : t.pmbr = true) (hw : writeUp c crc t size = .ok (ws, t')) (k : Nat) (keep : Nat → Bool) :
    NewOk (flatReaderG crc (geoOf t)) (toDiskG (applyWrs d0 ws) (geoOf t)) ∧
    PStdG crc (applyWrs d0 ws) (geoOf t) ∧ BStdG crc (applyWrs d0 ws) (geoOf t) ∧
    OldOkFlatG crc (applyWrs d0 ws) (geoOf t) ∧
    Crash false (toDiskG d0 (geoOf t)) (toDiskG (applyWrs d0 ws) (geoOf t))
      (toDiskG (crashDev d0 t.lss ws k keep) (geoOf t)) := by
  obtain ⟨arr, ps, harr, hlen, ht, hws, r1, r2, r3, r4, _⟩ := write_regionsG c crc d0 t size ws t' hg hw
  obtain ⟨G, gp, gab⟩ := geoOf_ok t size hg
  obtain ⟨k1, k2, k3, k4, k5, k6, k7, k8⟩ := geom_bounds t size hg
  have L := lay_of G
  have hP := readHeader_hdrEncUp crc hcrc t true arr hg.guid k2 k3 hg.fd hg.ld k6 k8
  have hB := readHeader_hdrEncUp crc hcrc t false arr hg.guid k2 k3 hg.fd hg.ld k7 k8
  simp only [if_true, Bool.false_eq_true, if_false, k4, k5, hg.ph] at hP hB
  have hlenG : arr.length = (geoOf t).ab := by rw [gab]; exact hlen
  have hfive : ws = fiveWrsG (geoOf t) arr (hdrEncUp crc t true arr) (hdrEncUp crc t false arr) (pmbrEnc c t) := by
    rw [hws, hpl]
    simp only [if_true, coreUp, pmWrs, hpm, fiveWrsG, geoOf, offBA, offBH, List.cons_append, List.nil_append]
  have hphl : (hdrEncUp crc t true arr).length = (geoOf t).lss := hdrEncUp_length crc t true arr hg.guid k1
  have hbhl : (hdrEncUp crc t false arr).length = (geoOf t).lss := hdrEncUp_length crc t false arr hg.guid k1
  have hpml : (pmbrEnc c t).length = 66 := by simp [pmbrEnc]
  generalize hphN : hdrEncUp crc t true arr = phN at *
  generalize hbhN : hdrEncUp crc t false arr = bhN at *
  generalize hpmN : pmbrEnc c t = pm at *
  have hCrash := crash_is_CrashG L d0 arr phN bhN pm hlenG hphl hbhl hpml k keep
  have hcomp := toDiskG_complete L d0 arr phN bhN pm hlenG hphl hbhl hpml
  rw [← hfive] at hCrash hcomp
  have hlss : (geoOf t).lss = t.lss := rfl
  rw [hlss] at hCrash
  generalize hdN : applyWrs d0 ws = dN at *
  have e1 : (toDiskG dN (geoOf t)).ph = phN := by rw [hcomp]
  have e2 : (toDiskG dN (geoOf t)).bh = bhN := by rw [hcomp]
  have e3 : (toDiskG dN (geoOf t)).pa = sectorsG (geoOf t).lss (geoOf t).ab (geoOf t).p arr := by rw [hcomp]
  have e4 : (toDiskG dN (geoOf t)).ba = sectorsG (geoOf t).lss (geoOf t).ab (geoOf t).p arr := by rw [hcomp]
  have easm := sectorsG_asm L d0 0 arr hlenG
  have hNewOk : NewOk (flatReaderG crc (geoOf t)) (toDiskG dN (geoOf t)) := by
    refine ⟨?_, ?_, ?_⟩
    · rw [e1, e3]
      simp only [flatReaderG, hP, easm]
      simp [geoOf]
    · rw [e2, e4]
      simp only [flatReaderG, hB, easm]
      simp [geoOf]
    · rw [e3, e4]
  have r1' : readAt dN (geoOf t).lss (geoOf t).lss = phN := r1
  have r3' : readAt dN ((geoOf t).hB * (geoOf t).lss) (geoOf t).lss = bhN := r3
  have r2' : readAt dN ((geoOf t).aP * (geoOf t).lss) (geoOf t).ab = arr := by rw [gab]; exact r2
  have hPdN : PStdG crc dN (geoOf t) := by
    intro h' hh'; rw [r1', hP] at hh'; cases hh'; exact ⟨rfl, rfl, rfl⟩
  have hBdN : BStdG crc dN (geoOf t) := by
    intro h' hh' _
    rw [r3', hB] at hh'; cases hh'; exact ⟨rfl, rfl, rfl⟩
  have hOO : OldOkFlatG crc dN (geoOf t) := ⟨_, by rw [r1']; exact hP, rfl, rfl, rfl, by rw [r2']⟩
  exact ⟨hNewOk, hPdN, hBdN, hOO, hCrash⟩

/-- premises on the headers carry over to every crash state: each header sector is the old or the new one -/
theorem crash_std (crc : Bytes → Nat) (g : Geo) (d0 dN dC : Dev)
    (hCrash : Crash false (toDiskG d0 g) (toDiskG dN g) (toDiskG dC g))
    (hP0 : PStdG crc d0 g) (hB0 : BStdG crc d0 g) (hPN : PStdG crc dN g) (hBN : BStdG crc dN g) :
    PStdG crc dC g ∧ BStdG crc dC g := by
  obtain ⟨hph', hbh'⟩ := crash_headers false _ _ _ hCrash
  constructor
  · intro h' hh'
    rcases hph' with e | e
    · exact hP0 h' (by rw [← show (toDiskG d0 g).ph = readAt d0 g.lss g.lss from rfl, ← e]; exact hh')
    · exact hPN h' (by rw [← show (toDiskG dN g).ph = readAt dN g.lss g.lss from rfl, ← e]; exact hh')
  · intro h' hh' hm
    rcases hbh' with e | e
    · exact hB0 h' (by rw [← show (toDiskG d0 g).bh = readAt d0 (g.hB * g.lss) g.lss from rfl, ← e]; exact hh') hm
    · exact hBN h' (by rw [← show (toDiskG dN g).bh = readAt dN (g.hB * g.lss) g.lss from rfl, ← e]; exact hh') hm

/-- C09 ON THE FLAT MODEL, ANY WELL-FORMED GEOMETRY.  `t`: an initialised table (as gpt.Read returns it, then
    edited) whose geometry satisfies `GeomWF` on this device; `d0`: any device with a valid primary GPT of
    that geometry whose last sector, if it validates as a backup header, describes that geometry.  For EVERY
    crash state of the repaired `Write` — the first `k` synced writes in full, the next one with ANY subset
    `keep` of its sectors, a short last sector included — `Gpt.read` succeeds and returns exactly the
    partition list it returned on `d0` or exactly the one it returns after the completed write. -/
theorem crash_atomic_flatG (c : Cfg) (hpl : c.pmbrLast = true) (crc : Bytes → Nat) (hcrc : ∀ b, crc b < two32)
    (d0 : Dev) (t : Table) (size : Nat) (ws : List Wr) (t' : Table)
    (hg : GeomWF t size) (hpm : t.pmbr = true) (hw : writeUp c crc t size = .ok (ws, t'))
    (hOld : OldOkFlatG crc d0 (geoOf t)) (hOldB : BStdG crc d0 (geoOf t))
    (hColl : NoCrcCollisionG crc t.lss (readAt d0 (2 * t.lss) (arrBytes t)) (readAt (applyWrs d0 ws) (2 * t.lss) (arrBytes t)))
    (k : Nat) (keep : Nat → Bool) :
    ∃ po pn, outOf (Gpt.read c crc d0 size t.lss).1 = .ok po false ∧
      outOf (Gpt.read c crc (applyWrs d0 ws) size t.lss).1 = .ok pn false ∧
      ((outOf (Gpt.read c crc (crashDev d0 t.lss ws k keep) size t.lss).1).parts? = some po ∨
       (outOf (Gpt.read c crc (crashDev d0 t.lss ws k keep) size t.lss).1).parts? = some pn) := by
  obtain ⟨hNewOk, hPdN, hBdN, _, hCrash⟩ := write_crash_setupG c hpl crc hcrc d0 t size ws t' hg hpm hw k keep
  obtain ⟨G, gp, gab⟩ := geoOf_ok t size hg
  have L := lay_of G
  generalize hdN : applyWrs d0 ws = dN at *
  have hpa0 : asm (geoOf t).lss (geoOf t).ab (toDiskG d0 (geoOf t)).pa = readAt d0 (2 * t.lss) (arrBytes t) := by
    rw [← gab]; exact asm_secs L d0 _
  have hpaN : asm (geoOf t).lss (geoOf t).ab (toDiskG dN (geoOf t)).pa = readAt dN (2 * t.lss) (arrBytes t) := by
    rw [← gab]; exact asm_secs L dN _
  have hOldOk : OldOk (flatReaderG crc (geoOf t)) (toDiskG d0 (geoOf t)) := by
    obtain ⟨h, hh, g1, g2, g3, g4⟩ := hOld
    refine ⟨?_⟩
    show (flatReaderG crc (geoOf t)).hdrP (readAt d0 (geoOf t).lss (geoOf t).lss) = _
    simp only [flatReaderG, hh, g1, g2, g3, and_self, if_true, g4]
    congr 2
    exact (asm_secs L d0 _).symm
  have hColl' : ∀ keepF : Fin (geoOf t).p → Bool,
      (flatReaderG crc (geoOf t)).crc (mix keepF (toDiskG dN (geoOf t)).pa (toDiskG d0 (geoOf t)).pa)
        = (flatReaderG crc (geoOf t)).crc (toDiskG d0 (geoOf t)).pa →
      (flatReaderG crc (geoOf t)).parts (mix keepF (toDiskG dN (geoOf t)).pa (toDiskG d0 (geoOf t)).pa)
        = (flatReaderG crc (geoOf t)).parts (toDiskG d0 (geoOf t)).pa ∨
      (flatReaderG crc (geoOf t)).parts (mix keepF (toDiskG dN (geoOf t)).pa (toDiskG d0 (geoOf t)).pa)
        = (flatReaderG crc (geoOf t)).parts (toDiskG dN (geoOf t)).pa := by
    intro keepF hc
    simp only [flatReaderG, asm_mix, hpa0, hpaN] at hc ⊢
    have hColl2 : NoCrcCollisionG crc (geoOf t).lss (readAt d0 (2 * t.lss) (arrBytes t)) (readAt dN (2 * t.lss) (arrBytes t)) := hColl
    rcases hColl2 _ hc with h | h
    · left; rw [h]
    · right; rw [h]
  have hPd0 : PStdG crc d0 (geoOf t) := by
    obtain ⟨h, hh, g1, g2, g3, _⟩ := hOld
    intro h' hh'; rw [hh] at hh'; cases hh'; exact ⟨g1, g2, g3⟩
  obtain ⟨hPD, hBD⟩ := crash_std crc (geoOf t) d0 dN _ hCrash hPd0 hOldB hPdN hBdN
  have ref0 := read_refinesG c crc d0 size (geoOf t) G hPd0 hOldB
  have refN := read_refinesG c crc dN size (geoOf t) G hPdN hBdN
  have refD := read_refinesG c crc (crashDev d0 t.lss ws k keep) size (geoOf t) G hPD hBD
  have hat := crash_atomic_parts (flatReaderG crc (geoOf t)) false _ _ hOldOk hNewOk hColl' _ hCrash
  have hlss : (geoOf t).lss = t.lss := rfl
  rw [hlss] at ref0 refN refD
  refine ⟨(flatReaderG crc (geoOf t)).parts (toDiskG d0 (geoOf t)).pa,
    (flatReaderG crc (geoOf t)).parts (toDiskG dN (geoOf t)).pa, ?_, ?_, ?_⟩
  · rw [ref0]; simp [GptCrash.read, hOldOk.hdr]
  · rw [refN]; exact GptCrash.complete_reads_primary _ _ hNewOk
  · rw [refD]; exact hat

/-- first-ever write, any geometry: if neither the sector at LBA 1 nor the sector at the last LBA of `d0`
    passes readGPTHeader (blank disk, MBR disk, garbage), every crash state reads as an error — as `d0`
    itself did — or as exactly the partition list of the completed write -/
theorem blank_old_flatG (c : Cfg) (hpl : c.pmbrLast = true) (crc : Bytes → Nat) (hcrc : ∀ b, crc b < two32)
    (d0 : Dev) (t : Table) (size : Nat) (ws : List Wr) (t' : Table)
    (hg : GeomWF t size) (hpm : t.pmbr = true) (hw : writeUp c crc t size = .ok (ws, t'))
    (hNoP : ∀ h, readHeader crc (readAt d0 t.lss t.lss) ≠ .ok h)
    (hNoB : ∀ h, readHeader crc (readAt d0 (offBH t) t.lss) ≠ .ok h)
    (k : Nat) (keep : Nat → Bool) :
    ∃ pn, outOf (Gpt.read c crc d0 size t.lss).1 = .err ∧
      outOf (Gpt.read c crc (applyWrs d0 ws) size t.lss).1 = .ok pn false ∧
      (outOf (Gpt.read c crc (crashDev d0 t.lss ws k keep) size t.lss).1 = .err ∨
       (outOf (Gpt.read c crc (crashDev d0 t.lss ws k keep) size t.lss).1).parts? = some pn) := by
  obtain ⟨hNewOk, hPdN, hBdN, _, hCrash⟩ := write_crash_setupG c hpl crc hcrc d0 t size ws t' hg hpm hw k keep
  obtain ⟨G, gp, gab⟩ := geoOf_ok t size hg
  generalize hdN : applyWrs d0 ws = dN at *
  have hNoP' : ∀ h, readHeader crc (readAt d0 (geoOf t).lss (geoOf t).lss) ≠ .ok h := hNoP
  have hNoB' : ∀ h, readHeader crc (readAt d0 ((geoOf t).hB * (geoOf t).lss) (geoOf t).lss) ≠ .ok h := hNoB
  have hP0 : (flatReaderG crc (geoOf t)).hdrP (toDiskG d0 (geoOf t)).ph = none := by
    show (flatReaderG crc (geoOf t)).hdrP (readAt d0 (geoOf t).lss (geoOf t).lss) = none
    simp only [flatReaderG]
  have hB0 : (flatReaderG crc (geoOf t)).hdrB (toDiskG d0 (geoOf t)).bh = none := by
    show (flatReaderG crc (geoOf t)).hdrB (readAt d0 ((geoOf t).hB * (geoOf t).lss) (geoOf t).lss) = none
    simp only [flatReaderG]
  have hPd0 : PStdG crc d0 (geoOf t) := fun h hh => absurd hh (hNoP' h)
  have hBd0 : BStdG crc d0 (geoOf t) := fun h hh _ => absurd hh (hNoB' h)
  obtain ⟨hPD, hBD⟩ := crash_std crc (geoOf t) d0 dN _ hCrash hPd0 hBd0 hPdN hBdN
  have ref0 := read_refinesG c crc d0 size (geoOf t) G hPd0 hBd0
  have refN := read_refinesG c crc dN size (geoOf t) G hPdN hBdN
  have refD := read_refinesG c crc (crashDev d0 t.lss ws k keep) size (geoOf t) G hPD hBD
  have hlss : (geoOf t).lss = t.lss := rfl
  rw [hlss] at ref0 refN refD
  refine ⟨(flatReaderG crc (geoOf t)).parts (toDiskG dN (geoOf t)).pa, ?_, ?_, ?_⟩
  · rw [ref0]; simp [GptCrash.read, GptCrash.readBackup, hP0, hB0]
  · rw [refN]; exact GptCrash.complete_reads_primary _ _ hNewOk
  · rw [refD]; exact GptCrash.blank_old _ false _ _ hP0 hB0 hNewOk _ hCrash

/-- partition.Read on the flat device, any geometry (repaired reader) -/
theorem partread_refinesG (c : Cfg) (hab : c.arrayBounded = true) (crc : Bytes → Nat) (d : Dev) (size : Nat)
    (g : Geo) (G : g.OK size) (hP : PStdG crc d g) (hB : BStdG crc d g) :
    outP (PartTable.read c crc d size g.lss).1 = partRead (flatReaderG crc g) mbrViewFlat (toDiskG d g) := by
  have L := lay_of G
  have h512 := L.h512; have b0 := L.b0; have b1 := L.b1; have b2 := L.b2; have b3 := L.b3
  have hs : 512 ≤ size := by omega
  have href := read_refinesG c crc d size g G hP hB
  have hnp := (read_fixed c hab crc d size g.lss (by omega)).1
  have hm := mbr_read_sector d size g.lss h512 hs
  unfold PartTable.read partRead
  rw [← href]
  generalize Gpt.read c crc d size g.lss = gg at hnp ⊢
  obtain ⟨r, al⟩ := gg
  cases r with
  | ok t => rfl
  | panic s => simp [Res.isPanic] at hnp
  | err e =>
    have hm' : mbrViewFlat (toDiskG d g).mbr = (Mbr.read d size).1 := hm.symm
    simp only [PartTable.readWith, outOf, hm']
    generalize Mbr.read d size = mr
    obtain ⟨o, al2⟩ := mr
    cases o <;> rfl

/-- FIRST-EVER WRITE, SEEN THROUGH partition.Read, ANY GEOMETRY (repaired order: protective MBR last) -/
theorem first_write_atomic_flatG (c : Cfg) (hpl : c.pmbrLast = true) (hab : c.arrayBounded = true)
    (crc : Bytes → Nat) (hcrc : ∀ b, crc b < two32)
    (d0 : Dev) (t : Table) (size : Nat) (ws : List Wr) (t' : Table)
    (hg : GeomWF t size) (hpm : t.pmbr = true) (hw : writeUp c crc t size = .ok (ws, t'))
    (hNoP : ∀ h, readHeader crc (readAt d0 t.lss t.lss) ≠ .ok h)
    (hNoB : ∀ h, readHeader crc (readAt d0 (offBH t) t.lss) ≠ .ok h)
    (k : Nat) (keep : Nat → Bool) :
    ∃ pn, outP (PartTable.read c crc (applyWrs d0 ws) size t.lss).1 = .gpt pn ∧
      (outP (PartTable.read c crc (crashDev d0 t.lss ws k keep) size t.lss).1 =
          outP (PartTable.read c crc d0 size t.lss).1 ∨
       outP (PartTable.read c crc (crashDev d0 t.lss ws k keep) size t.lss).1 = .gpt pn) := by
  obtain ⟨hNewOk, hPdN, hBdN, _, hCrash⟩ := write_crash_setupG c hpl crc hcrc d0 t size ws t' hg hpm hw k keep
  obtain ⟨G, gp, gab⟩ := geoOf_ok t size hg
  generalize hdN : applyWrs d0 ws = dN at *
  have hNoP' : ∀ h, readHeader crc (readAt d0 (geoOf t).lss (geoOf t).lss) ≠ .ok h := hNoP
  have hNoB' : ∀ h, readHeader crc (readAt d0 ((geoOf t).hB * (geoOf t).lss) (geoOf t).lss) ≠ .ok h := hNoB
  have hP0 : (flatReaderG crc (geoOf t)).hdrP (toDiskG d0 (geoOf t)).ph = none := by
    show (flatReaderG crc (geoOf t)).hdrP (readAt d0 (geoOf t).lss (geoOf t).lss) = none
    simp only [flatReaderG]
  have hB0 : (flatReaderG crc (geoOf t)).hdrB (toDiskG d0 (geoOf t)).bh = none := by
    show (flatReaderG crc (geoOf t)).hdrB (readAt d0 ((geoOf t).hB * (geoOf t).lss) (geoOf t).lss) = none
    simp only [flatReaderG]
  have hPd0 : PStdG crc d0 (geoOf t) := fun h hh => absurd hh (hNoP' h)
  have hBd0 : BStdG crc d0 (geoOf t) := fun h hh _ => absurd hh (hNoB' h)
  obtain ⟨hPD, hBD⟩ := crash_std crc (geoOf t) d0 dN _ hCrash hPd0 hBd0 hPdN hBdN
  have ref0 := partread_refinesG c hab crc d0 size (geoOf t) G hPd0 hBd0
  have refN := partread_refinesG c hab crc dN size (geoOf t) G hPdN hBdN
  have refD := partread_refinesG c hab crc (crashDev d0 t.lss ws k keep) size (geoOf t) G hPD hBD
  have hlss : (geoOf t).lss = t.lss := rfl
  rw [hlss] at ref0 refN refD
  refine ⟨(flatReaderG crc (geoOf t)).parts (toDiskG dN (geoOf t)).pa, ?_, ?_⟩
  · rw [refN]; simp [partRead, GptCrash.complete_reads_primary _ _ hNewOk]
  · rw [refD, ref0]
    exact GptCrash.first_write_atomic _ mbrViewFlat _ _ hP0 hB0 hNewOk _ hCrash

end Diskfs.GptCrash
