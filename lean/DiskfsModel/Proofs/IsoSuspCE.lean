import DiskfsModel.Proofs.IsoSusp
namespace Diskfs.Iso

/-! ### the reader follows the continuation areas the writer made -/

def isCE : SEnt → Bool
  | .ce .. => true
  | _ => false

theorem parseAll_append (a b : List Bytes) :
    parseAll (a ++ b) = (match parseAll a, parseAll b with
      | some x, some y => some (x ++ y)
      | _, _ => none) := by
  induction a with
  | nil => simp only [List.nil_append, parseAll]; cases parseAll b <;> rfl
  | cons x xs ih =>
    simp only [List.cons_append, parseAll, ih]
    cases parseEnt x <;> cases parseAll xs <;> cases parseAll b <;> rfl

theorem ceEntry_length (c o n : Nat) : (ceEntry c o n).length = 28 := by simp [ceEntry, both32]

theorem ceEntry_ok (c o n : Nat) : EntOK (ceEntry c o n) := by
  refine ⟨by rw [ceEntry_length]; omega, by rw [ceEntry_length]; omega, ?_⟩
  rw [ceEntry_length]
  simp [ceEntry]

theorem parseEnt_ceEntry (c o n : Nat) (hc : c < 2 ^ 32) (ho : o < 2 ^ 32) (hn : n < 2 ^ 32) :
    parseEnt (ceEntry c o n) = some (.ce c o n) := by
  have e4 : ∀ m, m < 2 ^ 32 → leDec (leEnc 4 m) = m := fun m hm => leDec_leEnc_of_lt 4 m (by simpa using hm)
  have htake : (ceEntry c o n).take 2 = [67, 69] := by simp [ceEntry]
  unfold parseEnt
  rw [if_neg (by rw [htake]; decide), if_neg (by rw [htake]; decide), if_pos htake]
  unfold parseCE
  rw [ceEntry_length]
  have h2 : (ceEntry c o n).getD 2 0 = 28 := by simp [ceEntry]
  have h3 : (ceEntry c o n).getD 3 0 = 1 := by simp [ceEntry]
  rw [h2, h3, if_neg (by simp)]
  have d4 : ((ceEntry c o n).drop 4).take 4 = leEnc 4 c := by simp [ceEntry, both32]
  have d12 : ((ceEntry c o n).drop 12).take 4 = leEnc 4 o := by
    have : (ceEntry c o n).drop 12 = both32 o ++ both32 n := by
      have h8 : (both32 c).length = 8 := by simp [both32]
      simp only [ceEntry]
      rw [show (12 : Nat) = 4 + 8 by rfl, ← List.drop_drop]
      simp only [List.drop_left' (show ([67, 69, 28, 1] : Bytes).length = 4 by rfl)]
      rw [List.drop_left' h8]
    rw [this]; simp [both32]
  have d20 : ((ceEntry c o n).drop 20).take 4 = leEnc 4 n := by
    have : (ceEntry c o n).drop 20 = both32 n := by
      have h8 : (both32 c).length = 8 := by simp [both32]
      have h8' : (both32 o).length = 8 := by simp [both32]
      simp only [ceEntry]
      rw [show (20 : Nat) = 4 + (8 + 8) by rfl, ← List.drop_drop]
      simp only [List.drop_left' (show ([67, 69, 28, 1] : Bytes).length = 4 by rfl)]
      rw [← List.drop_drop, List.drop_left' h8, List.drop_left' h8']
    rw [this]; simp [both32]
  rw [d4, d12, d20, e4 c hc, e4 o ho, e4 n hn]

theorem fitPrefix_split (res : Bool) (maxSize : Nat) : ∀ (xs : List Bytes) (used : Nat),
    xs = (fitPrefix res maxSize xs used).1 ++ (fitPrefix res maxSize xs used).2 := by
  intro xs
  induction xs with
  | nil => intro used; simp [fitPrefix]
  | cons e es ih =>
    intro used
    have key : ∀ (P : Prop) [Decidable P],
        e :: es = (if P then (([] : List Bytes), e :: es) else
          ((fitPrefix res maxSize es (used + e.length)).1.cons e, (fitPrefix res maxSize es (used + e.length)).2)).1 ++
        (if P then (([] : List Bytes), e :: es) else
          ((fitPrefix res maxSize es (used + e.length)).1.cons e, (fitPrefix res maxSize es (used + e.length)).2)).2 := by
      intro P _
      by_cases hP : P
      · simp only [hP, if_true, List.nil_append]
      · simp only [hP, if_false, List.cons_append]
        rw [← ih]
    unfold fitPrefix
    exact key _

/-- entries that hold no CE entry are what the reader's loop returns -/
theorem collect_noCE (rd : Nat → Nat → Nat → Bytes) (h : Nat) (es : List SEnt) (hes : ∀ p ∈ es, isCE p = false) :
    collect rd h es = some es := by
  have hl : ∀ x, es.getLast? = some x → isCE x = false := fun x hx => hes x (List.mem_of_getLast? hx)
  cases h with
  | zero =>
    unfold collect
    cases hg : es.getLast? with
    | none => rfl
    | some x =>
      have := hl x hg
      cases x <;> simp_all [isCE]
  | succ h =>
    unfold collect
    cases hg : es.getLast? with
    | none => rfl
    | some x =>
      have := hl x hg
      cases x <;> simp_all [isCE]

/-- the device returns every continuation area at the block its CE entry names -/
def RdOK (rd : Nat → Nat → Nat → Bytes) : List Nat → List Bytes → Prop
  | _, [] => True
  | [], _ :: _ => False
  | c :: cs, m :: ms => rd c 0 m.length = m ∧ RdOK rd cs ms

/-- extensions given by their raw entries: well-formed, parseable, no CE entry among them -/
def RawOK (raws : List (List Bytes)) : Prop :=
  ∀ r ∈ raws, ∀ e ∈ r, EntOK e ∧ ∃ p, parseEnt e = some p ∧ isCE p = false

theorem parseAll_rawOK (es : List Bytes) (h : ∀ e ∈ es, ∃ p, parseEnt e = some p ∧ isCE p = false) :
    ∃ ps, parseAll es = some ps ∧ ∀ p ∈ ps, isCE p = false := by
  induction es with
  | nil => exact ⟨[], rfl, by simp⟩
  | cons x xs ih =>
    obtain ⟨p, hp, hc⟩ := h x (List.mem_cons_self ..)
    obtain ⟨ps, hps, hcs⟩ := ih (fun e he => h e (List.mem_cons_of_mem _ he))
    refine ⟨p :: ps, by simp [parseAll, hp, hps], ?_⟩
    intro q hq
    simp only [List.mem_cons] at hq
    rcases hq with rfl | hq
    · exact hc
    · exact hcs q hq

theorem parseArea_flatten (es : List Bytes) (hes : ∀ e ∈ es, EntOK e) : parseArea es.flatten = parseAll es := by
  have hcount : es.length ≤ es.flatten.length := by
    induction es with
    | nil => simp
    | cons x xs ih =>
      have := (hes x (List.mem_cons_self ..)).1
      have := ih (fun y hy => hes y (List.mem_cons_of_mem _ hy))
      simp only [List.flatten_cons, List.length_append, List.length_cons]
      omega
  have := suspSplit_flatten es [] hes (Or.inl (by simp)) es.flatten.length hcount
  simp only [List.append_nil] at this
  unfold parseArea
  rw [this]

theorem collect_assemble (res : Bool) (bs : Nat) (rd : Nat → Nat → Nat → Bytes) :
    ∀ (fuel : Nat) (raws : List (List Bytes)) (maxSize : Nat) (ce : List Nat) (a : Bytes) (more : List Bytes),
      RawOK raws → (∀ c ∈ ce, c < 2 ^ 32) →
      assemble res bs fuel (raws.map List.flatten) maxSize ce = some (a :: more) →
      (∀ x ∈ more, x.length < 2 ^ 32) → RdOK rd ce more →
      ∀ ps, parseAll raws.flatten = some ps →
      ∀ (pre : List SEnt) (hops : Nat), (∀ p ∈ pre, isCE p = false) → more.length ≤ hops →
        ∃ es, parseArea a = some es ∧ collect rd hops (pre ++ es) = some (pre ++ ps) := by
  intro fuel
  induction fuel with
  | zero => intro raws maxSize ce a more _ _ h; simp [assemble] at h
  | succ f ih =>
    intro raws maxSize ce a more hraw hce h hlen hrd ps hps pre hops hpre hhops
    have hsplit := fitPrefix_split res maxSize (raws.map List.flatten) 0
    unfold assemble at h
    generalize hfp : fitPrefix res maxSize (raws.map List.flatten) 0 = fp at h hsplit
    obtain ⟨fit, rest⟩ := fp
    simp only at hsplit
    obtain ⟨rf, rr, hrf, hfit, hrest⟩ := List.map_eq_append_iff.1 hsplit
    have hrawf : RawOK rf := fun r hr => hraw r (by rw [hrf]; exact List.mem_append_left _ hr)
    have hrawr : RawOK rr := fun r hr => hraw r (by rw [hrf]; exact List.mem_append_right _ hr)
    have hokf : ∀ e ∈ rf.flatten, EntOK e := by
      intro e he
      obtain ⟨r, hr, her⟩ := List.mem_flatten.1 he
      exact (hrawf r hr e her).1
    have hpf : ∀ e ∈ rf.flatten, ∃ p, parseEnt e = some p ∧ isCE p = false := by
      intro e he
      obtain ⟨r, hr, her⟩ := List.mem_flatten.1 he
      exact (hrawf r hr e her).2
    obtain ⟨p1, hp1, hc1⟩ := parseAll_rawOK rf.flatten hpf
    have hflat : fit.flatten = rf.flatten.flatten := by rw [← hfit, List.flatten_flatten]
    -- the parse of all entries splits into those that stayed and those that went on
    have hps' : parseAll (rf.flatten ++ rr.flatten) = some ps := by rw [← List.flatten_append, ← hrf]; exact hps
    rw [parseAll_append, hp1] at hps'
    cases rest with
    | nil =>
      simp only [Option.some.injEq, List.cons.injEq] at h
      obtain ⟨rfl, rfl⟩ := h
      have hrr : rr = [] := by simpa using hrest
      subst hrr
      simp only [List.flatten_nil, parseAll] at hps'
      simp only [Option.some.injEq, List.append_nil] at hps'
      subst hps'
      refine ⟨p1, by rw [hflat, parseArea_flatten _ hokf, hp1], ?_⟩
      apply collect_noCE
      intro p hp
      rcases List.mem_append.1 hp with hp | hp
      · exact hpre p hp
      · exact hc1 p hp
    | cons e rest' =>
      simp only at h
      have hne : ¬ (sumLen fit = 0 ∧ (if res = true then sumLen (e :: rest') > bs ∧ e.length + ceSize > bs else e.length > bs)) := by
        intro hc; rw [if_pos hc] at h; simp at h
      rw [if_neg hne] at h
      · cases ce with
        | nil => simp at h
        | cons c ce' =>
          simp only at h
          have hrest' : rr.map List.flatten = e :: rest' := hrest
          rw [← hrest'] at h
          cases hrec : assemble res bs f (rr.map List.flatten) bs ce' with
          | none => rw [hrec] at h; simp at h
          | some cont =>
            rw [hrec] at h
            cases cont with
            | nil => simp at h
            | cons a' more' =>
              simp only [Option.some.injEq, List.cons.injEq] at h
              obtain ⟨rfl, rfl⟩ := h
              obtain ⟨hrd1, hrd2⟩ := hrd
              cases hp2 : parseAll rr.flatten with
              | none => rw [hp2] at hps'; simp at hps'
              | some p2 =>
                rw [hp2] at hps'
                simp only [Option.some.injEq] at hps'
                subst hps'
                have hca : c < 2 ^ 32 := hce c (List.mem_cons_self ..)
                have hla : a'.length < 2 ^ 32 := hlen a' (List.mem_cons_self ..)
                -- the record's area: the entries that stayed, then the CE entry
                have harea : parseArea (fit.flatten ++ ceEntry c 0 a'.length) = some (p1 ++ [.ce c 0 a'.length]) := by
                  have : fit.flatten ++ ceEntry c 0 a'.length = (rf.flatten ++ [ceEntry c 0 a'.length]).flatten := by
                    rw [hflat]; simp
                  rw [this, parseArea_flatten _ (by
                    intro x hx
                    rcases List.mem_append.1 hx with hx | hx
                    · exact hokf x hx
                    · simp only [List.mem_singleton] at hx; subst hx; exact ceEntry_ok _ _ _)]
                  rw [parseAll_append, hp1]
                  simp [parseAll, parseEnt_ceEntry c 0 a'.length hca (by decide) hla]
                refine ⟨_, harea, ?_⟩
                cases hops with
                | zero => simp at hhops
                | succ hops' =>
                  obtain ⟨es', hes', hcol⟩ := ih rr bs ce' a' more' hrawr (fun x hx => hce x (List.mem_cons_of_mem _ hx)) hrec
                    (fun x hx => hlen x (List.mem_cons_of_mem _ hx)) hrd2 p2 hp2 (pre ++ p1) hops'
                    (by
                      intro p hp
                      rcases List.mem_append.1 hp with hp | hp
                      · exact hpre p hp
                      · exact hc1 p hp)
                    (by simp at hhops; omega)
                  unfold collect
                  have hlast : (pre ++ (p1 ++ [SEnt.ce c 0 a'.length])).getLast? = some (.ce c 0 a'.length) := by
                    rw [← List.append_assoc]; simp
                  have hdrop : (pre ++ (p1 ++ [SEnt.ce c 0 a'.length])).dropLast = pre ++ p1 := by
                    rw [← List.append_assoc]; simp
                  rw [hlast]
                  simp only
                  rw [hrd1, hes', hdrop]
                  simp only
                  rw [hcol, List.append_assoc]

/-- **CE round trip**: whatever extensions (given as well-formed, parseable raw entries, none of them
    a CE entry) `dirEntryExtensionsToBytes` distributes over the record's area and continuation areas
    — as found or with the repaired rule —, if the device returns each area at the block its CE entry
    names, then `parseDirEntry`'s loop returns exactly the entries of all extensions, in order -/
theorem readSusp_assemble (res : Bool) (bs : Nat) (rd : Nat → Nat → Nat → Bytes) (fuel : Nat) (raws : List (List Bytes))
    (maxSize : Nat) (ce : List Nat) (a : Bytes) (more : List Bytes) (hraw : RawOK raws) (hce : ∀ c ∈ ce, c < 2 ^ 32)
    (h : assemble res bs fuel (raws.map List.flatten) maxSize ce = some (a :: more))
    (hlen : ∀ x ∈ more, x.length < 2 ^ 32) (hrd : RdOK rd ce more) (hn : more.length ≤ maxAreas) :
    ∃ ps, parseAll raws.flatten = some ps ∧ readSusp rd a = some ps := by
  have hp : ∀ e ∈ raws.flatten, ∃ p, parseEnt e = some p ∧ isCE p = false := by
    intro e he
    obtain ⟨r, hr, her⟩ := List.mem_flatten.1 he
    exact (hraw r hr e her).2
  obtain ⟨ps, hps, _⟩ := parseAll_rawOK raws.flatten hp
  obtain ⟨es, hes, hcol⟩ := collect_assemble res bs rd fuel raws maxSize ce a more hraw hce h hlen hrd ps hps [] maxAreas
    (by simp) hn
  refine ⟨ps, hps, ?_⟩
  unfold readSusp
  rw [hes]
  simpa using hcol

end Diskfs.Iso
