import DiskfsModel.Model.Iso.Codec
namespace Diskfs.Iso

theorem split_append (a rest : Bytes) (n : Nat) (h : a.length = n) : split n (a ++ rest) = (a, rest) := by
  subst h; simp [split]

@[simp] theorem both32_length (n : Nat) : (both32 n).length = 8 := by simp [both32]
@[simp] theorem both16_length (n : Nat) : (both16 n).length = 4 := by simp [both16]

theorem unboth_both32 (n : Nat) (h : n < 2 ^ 32) : unboth 4 (both32 n) = some n := by
  have h' : n < 256 ^ 4 := by simpa using h
  have e1 : (both32 n).take 4 = leEnc 4 n := by simp [both32]
  have e2 : (both32 n).drop 4 = beEnc 4 n := by simp [both32]
  unfold unboth
  rw [e1, e2, leDec_leEnc_of_lt 4 n h', beDec_beEnc_of_lt 4 n h']
  simp

theorem ofNat_toNat_of_lt (n : Nat) (h : n < 256) : (UInt8.ofNat n).toNat = n := by
  simp [UInt8.toNat_ofNat']; omega

theorem encodeRec_length (r : DirRec) (hd : r.date.length = 7) :
    (encodeRec r).length = recLen r.name.length := by
  simp [encodeRec, hd, recLen]; omega

theorem decode_encodeRec (r : DirRec) (hl : r.loc < 2 ^ 32) (hs : r.size < 2 ^ 32)
    (hd : r.date.length = 7) (hn : r.name.length < 222) : decodeRec (encodeRec r) = some r := by
  have hlen := encodeRec_length r hd
  have hnl : (UInt8.ofNat r.name.length).toNat = r.name.length := ofNat_toNat_of_lt _ (by omega)
  have hrl : (UInt8.ofNat (recLen r.name.length)).toNat = recLen r.name.length :=
    ofNat_toNat_of_lt _ (by unfold recLen recPad; split <;> simp <;> omega)
  unfold decodeRec
  rw [hlen]
  simp only [encodeRec, List.cons_append, List.nil_append]
  rw [split_append _ _ 8 (by simp)]
  simp only []
  rw [split_append _ _ 8 (by simp)]
  simp only []
  rw [split_append _ _ 7 hd]
  simp only []
  rw [split_append _ _ 4 (by simp)]
  simp only []
  rw [hnl, split_append _ _ _ rfl]
  simp only [unboth_both32 _ hl, unboth_both32 _ hs, hrl, hd, and_self, if_true]

def PtRec.WF (r : PtRec) : Prop :=
  0 < r.name.length ∧ r.name.length < 256 ∧ r.loc < 2 ^ 32 ∧ r.parent < 2 ^ 16

theorem decode_encodePt (big : Bool) (r : PtRec) (rest : Bytes) (h : r.WF) :
    decodePt big (encodePt big r ++ rest) = some (r, rest) := by
  obtain ⟨h0, h1, hl, hp⟩ := h
  have hnl : (UInt8.ofNat r.name.length).toNat = r.name.length := ofNat_toNat_of_lt _ h1
  have hl' : r.loc < 256 ^ 4 := by simpa using hl
  have hp' : r.parent < 256 ^ 2 := by simpa using hp
  unfold decodePt
  simp only [encodePt, List.cons_append, List.nil_append, List.append_assoc]
  rw [hnl]
  rw [if_neg (by omega)]
  rw [split_append _ _ 4 (by cases big <;> simp)]
  simp only []
  rw [split_append _ _ 2 (by cases big <;> simp)]
  simp only []
  rw [split_append _ _ _ rfl]
  simp only []
  cases big
  · simp [leDec_leEnc_of_lt _ _ hl', leDec_leEnc_of_lt _ _ hp']
  · simp [beDec_beEnc_of_lt _ _ hl', beDec_beEnc_of_lt _ _ hp']

theorem encodePt_ne_nil (big : Bool) (r : PtRec) : encodePt big r ≠ [] := by simp [encodePt]

theorem decodePtTable_succ (big : Bool) (f : Nat) (b : Bytes) :
    decodePtTable big (f + 1) b =
      if b.isEmpty then some [] else
      match decodePt big b with
      | none => none
      | some (r, rest) => (decodePtTable big f rest).map (r :: ·) := rfl

theorem decode_encodePtTable (big : Bool) (rs : List PtRec) (h : ∀ r ∈ rs, r.WF) :
    decodePtTable big (rs.length + 1) (encodePtTable big rs) = some rs := by
  induction rs with
  | nil => simp [decodePtTable, encodePtTable]
  | cons r rs ih =>
    have e : encodePtTable big (r :: rs) = encodePt big r ++ encodePtTable big rs := by
      simp [encodePtTable]
    rw [e, List.length_cons, decodePtTable_succ]
    have hne : (encodePt big r ++ encodePtTable big rs).isEmpty = false := by
      simp [encodePt]
    rw [hne]
    simp only [Bool.false_eq_true, if_false]
    rw [decode_encodePt big r _ (h r (List.mem_cons_self ..))]
    simp only []
    rw [ih (fun x hx => h x (List.mem_cons_of_mem _ hx))]
    rfl

end Diskfs.Iso
