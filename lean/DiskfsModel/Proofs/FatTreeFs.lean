/-
  Layer E for a tree of directories: the FAT tree model (Model/Fat/TreeFs.lean) refines the
  plain tree of named byte strings (Spec/Tree.lean), and keeps the cluster-ownership invariant.
  First part:
    writeDir_ok     writeDirectoryEntries keeps the cluster map sound and touches no other owner
    StepFacts / LocalOk   what one call inside a directory must establish
    assemble_mid / assemble_drop / add_leaf   list surgery around one child
    local_mkdir / local_create
  Second part (Proofs/FatTreeStep.lean): the other calls, `dstep_local`, the lift through the path
  walk `atDirT_local`, `tstep_*`, `trun_refines`.  Third (Proofs/FatTreeFit.lean): every directory
  fits its storage.  Fourth (Proofs/FatTreeFree.lean): free-space accounting.
  Core Lean only.
-/
import DiskfsModel.Model.Fat.TreeFs
import DiskfsModel.Proofs.FatFlatFs
namespace Diskfs.Fat

/-- permutations of owner lists built from `++` and `::` -/
macro "perm_tac" : tactic =>
  `(tactic| (rw [List.perm_iff_count]; intro a;
             simp only [List.count_append, List.count_cons, List.count_nil]; omega))

/-! ### owners and abstraction, level by level -/

theorem kidsOwners_nil : kidsOwners [] = [] := by rw [kidsOwners]

theorem kidsOwners_cons (t : TNode) (ks : List TNode) :
    kidsOwners (t :: ks) = t.owners ++ kidsOwners ks := by rw [kidsOwners]

theorem kidsOwners_append (a b : List TNode) : kidsOwners (a ++ b) = kidsOwners a ++ kidsOwners b := by
  induction a with
  | nil => simp [kidsOwners_nil]
  | cons t a ih => rw [List.cons_append, kidsOwners_cons, kidsOwners_cons, ih, List.append_assoc]

theorem owners_file (n : Spec.Name) (c : List Nat) (s : Nat) : (TNode.file n c s).owners = [c] := by
  rw [TNode.owners]

theorem owners_dir (n : Spec.Name) (c : List Nat) (ks : List TNode) :
    (TNode.dir n c ks).owners = c :: kidsOwners ks := by rw [TNode.owners]

theorem owners_rename (t : TNode) (n : Spec.Name) : (t.rename n).owners = t.owners := by
  cases t <;> simp [TNode.rename, owners_file, owners_dir]

theorem name_rename (t : TNode) (n : Spec.Name) : (t.rename n).name = n := by
  cases t <;> rfl

theorem kidsAbs_nil (d : Dev) (io : IOGeom) : kidsAbs d io [] = [] := by rw [kidsAbs]

theorem kidsAbs_cons (d : Dev) (io : IOGeom) (t : TNode) (ks : List TNode) :
    kidsAbs d io (t :: ks) = t.abs d io :: kidsAbs d io ks := by rw [kidsAbs]

theorem kidsAbs_eq_map (d : Dev) (io : IOGeom) (ks : List TNode) :
    kidsAbs d io ks = ks.map (fun t => t.abs d io) := by
  induction ks with
  | nil => rw [kidsAbs_nil]; rfl
  | cons t ks ih => rw [kidsAbs_cons, ih]; rfl

theorem abs_file (d : Dev) (io : IOGeom) (n : Spec.Name) (c : List Nat) (s : Nat) :
    (TNode.file n c s).abs d io = (n, .file (fileContent d io c s)) := by rw [TNode.abs]

theorem abs_dir (d : Dev) (io : IOGeom) (n : Spec.Name) (c : List Nat) (ks : List TNode) :
    (TNode.dir n c ks).abs d io = (n, .dir (kidsAbs d io ks)) := by rw [TNode.abs]

theorem abs_fst (d : Dev) (io : IOGeom) (t : TNode) : (t.abs d io).1 = t.name := by
  cases t <;> simp [abs_file, abs_dir, TNode.name]

theorem abs_rename (d : Dev) (io : IOGeom) (t : TNode) (n : Spec.Name) :
    (t.rename n).abs d io = (n, (t.abs d io).2) := by
  cases t <;> simp [TNode.rename, abs_file, abs_dir]

mutual
/-- a node reads the same on two devices that agree on every chain of its subtree -/
theorem TNode.abs_congr (d d' : Dev) (io : IOGeom) (t : TNode)
    (h : ∀ o ∈ t.owners, chainBytes d' io o = chainBytes d io o) : t.abs d' io = t.abs d io := by
  cases t with
  | file n c s =>
    rw [abs_file, abs_file]
    unfold fileContent
    rw [h c (by rw [owners_file]; exact List.mem_cons_self)]
  | dir n c ks =>
    rw [abs_dir, abs_dir]
    rw [kidsAbs_congr d d' io ks (fun o ho => h o (by rw [owners_dir]; exact List.mem_cons_of_mem _ ho))]
theorem kidsAbs_congr (d d' : Dev) (io : IOGeom) (ks : List TNode)
    (h : ∀ o ∈ kidsOwners ks, chainBytes d' io o = chainBytes d io o) : kidsAbs d' io ks = kidsAbs d io ks := by
  cases ks with
  | nil => rw [kidsAbs_nil, kidsAbs_nil]
  | cons t ks =>
    rw [kidsAbs_cons, kidsAbs_cons]
    rw [TNode.abs_congr d d' io t (fun o ho => h o (by rw [kidsOwners_cons]; exact List.mem_append_left _ ho)),
      kidsAbs_congr d d' io ks (fun o ho => h o (by rw [kidsOwners_cons]; exact List.mem_append_right _ ho))]
end

/-! ### well-formedness, level by level -/

theorem kidsWF_nil (eqn : Spec.Name → Spec.Name → Bool) (g : TGeom) : kidsWF eqn g [] := by
  rw [kidsWF]; trivial

theorem kidsWF_cons (eqn : Spec.Name → Spec.Name → Bool) (g : TGeom) (t : TNode) (ks : List TNode) :
    kidsWF eqn g (t :: ks) ↔ t.WF eqn g ∧ (∀ u ∈ ks, eqn t.name u.name = false) ∧ kidsWF eqn g ks := by
  rw [kidsWF]

theorem kidsWF_iff (eqn : Spec.Name → Spec.Name → Bool) (g : TGeom) (ks : List TNode) :
    kidsWF eqn g ks ↔ (∀ t ∈ ks, t.WF eqn g) ∧ ks.Pairwise (fun a b => eqn a.name b.name = false) := by
  induction ks with
  | nil => simp [kidsWF_nil]
  | cons t ks ih =>
    rw [kidsWF_cons, ih, List.pairwise_cons]
    constructor
    · rintro ⟨h1, h2, h3, h4⟩
      exact ⟨fun u hu => by rcases List.mem_cons.1 hu with rfl | hu; exact h1; exact h3 u hu, h2, h4⟩
    · rintro ⟨h1, h2, h3⟩
      exact ⟨h1 t List.mem_cons_self, h2, fun u hu => h1 u (List.mem_cons_of_mem _ hu), h3⟩

theorem wf_file (eqn : Spec.Name → Spec.Name → Bool) (g : TGeom) (n : Spec.Name) (c : List Nat) (s : Nat) :
    (TNode.file n c s).WF eqn g ↔ c.length = Nat.max (clusterCount g.f.io.bpc s) 1 := by rw [TNode.WF]

theorem wf_dir (eqn : Spec.Name → Spec.Name → Bool) (g : TGeom) (n : Spec.Name) (c : List Nat) (ks : List TNode) :
    (TNode.dir n c ks).WF eqn g ↔ kidsWF eqn g ks := by rw [TNode.WF]

theorem wf_rename (eqn : Spec.Name → Spec.Name → Bool) (g : TGeom) (t : TNode) (n : Spec.Name) :
    (t.rename n).WF eqn g ↔ t.WF eqn g := by
  cases t <;> simp [TNode.rename, wf_file, wf_dir]

/-! ### a found child is the only one whose name matches -/

theorem kfind_split {eqn} (he : EqnOk eqn) {ks : List TNode} {n : Spec.Name} {t : TNode}
    (hd : ks.Pairwise fun a b => eqn a.name b.name = false) (h : kfind eqn ks n = some t) :
    ∃ pre post, ks = pre ++ t :: post ∧ eqn t.name n = true ∧
      (∀ x ∈ pre, eqn x.name n = false) ∧ (∀ x ∈ post, eqn x.name n = false) := by
  unfold kfind at h
  obtain ⟨hf, pre, post, hsplit, hpre⟩ := List.find?_eq_some_iff_append.1 h
  refine ⟨pre, post, hsplit, hf, ?_, ?_⟩
  · intro x hx; simpa using hpre x hx
  · intro x hx
    rw [hsplit] at hd
    have h1 := (List.pairwise_append.1 hd).2.1
    have hfx := (List.pairwise_cons.1 h1).1 x hx
    cases hxn : eqn x.name n with
    | false => rfl
    | true =>
      have := he.trans _ _ _ hf (he.symm _ _ hxn)
      rw [hfx] at this; cases this

theorem kfind_none {eqn} {ks : List TNode} {n : Spec.Name} (h : kfind eqn ks n = none) :
    ∀ x ∈ ks, eqn x.name n = false := by
  intro x hx
  unfold kfind at h
  have := List.find?_eq_none.1 h x hx
  simpa using this

theorem kset_split {eqn} {pre post : List TNode} {t : TNode} (v : TNode) {n : Spec.Name}
    (hf : eqn t.name n = true) (hpre : ∀ x ∈ pre, eqn x.name n = false)
    (hpost : ∀ x ∈ post, eqn x.name n = false) :
    kset eqn (pre ++ t :: post) n v = pre ++ v :: post := by
  unfold kset
  rw [List.map_append, List.map_cons, if_pos hf,
    map_ite_of_false (fun x => eqn x.name n) (fun _ => v) pre hpre,
    map_ite_of_false (fun x => eqn x.name n) (fun _ => v) post hpost]

theorem kerase_split {eqn} {pre post : List TNode} {t : TNode} {n : Spec.Name}
    (hf : eqn t.name n = true) (hpre : ∀ x ∈ pre, eqn x.name n = false)
    (hpost : ∀ x ∈ post, eqn x.name n = false) :
    kerase eqn (pre ++ t :: post) n = pre ++ post := by
  unfold kerase
  rw [List.filter_append, List.filter_cons, hf,
    filter_not_of_false (fun x => eqn x.name n) pre hpre,
    filter_not_of_false (fun x => eqn x.name n) post hpost]
  simp

theorem krename_split {eqn} {pre post : List TNode} {t : TNode} {o : Spec.Name} (n : Spec.Name)
    (hf : eqn t.name o = true) (hpre : ∀ x ∈ pre, eqn x.name o = false)
    (hpost : ∀ x ∈ post, eqn x.name o = false) :
    krename eqn (pre ++ t :: post) o n = pre ++ t.rename n :: post := by
  unfold krename
  rw [List.map_append, List.map_cons, if_pos hf,
    map_ite_of_false (fun x => eqn x.name o) (fun x => x.rename n) pre hpre,
    map_ite_of_false (fun x => eqn x.name o) (fun x => x.rename n) post hpost]

theorem lookup_kidsAbs (eqn) (d : Dev) (io : IOGeom) (ks : List TNode) (n : Spec.Name) :
    Spec.lookup eqn (kidsAbs d io ks) n = (kfind eqn ks n).map fun t => (t.abs d io).2 := by
  unfold Spec.lookup kfind
  rw [kidsAbs_eq_map, List.find?_map, Option.map_map]
  have : ((fun e : Spec.Name × Spec.Node => eqn e.1 n) ∘ fun t : TNode => t.abs d io)
      = fun t : TNode => eqn t.name n := by
    funext t; simp [abs_fst]
  rw [this]
  rfl

theorem erase_kidsAbs (eqn) (d : Dev) (io : IOGeom) (ks : List TNode) (n : Spec.Name) :
    kidsAbs d io (kerase eqn ks n) = Spec.erase eqn (kidsAbs d io ks) n := by
  unfold Spec.erase kerase
  rw [kidsAbs_eq_map, kidsAbs_eq_map, List.filter_map]
  congr 1
  apply List.filter_congr
  intro t _
  simp [abs_fst]

/-! ### frames: writes into the clusters of one owner leave every other owner alone -/

theorem dirWrs_in (io : IOGeom) : ∀ (chain : List Nat) (img : Bytes),
    ∀ w ∈ dirWrs io chain img, w.data.length = 0 ∨ ∃ c ∈ chain, InCluster io c w
  | [], _ => by intro w hw; simp [dirWrs] at hw
  | c :: cs, img => by
    intro w hw
    rw [dirWrs, List.mem_cons] at hw
    rcases hw with rfl | hw
    · right
      refine ⟨c, List.mem_cons_self, Nat.le_refl _, ?_⟩
      simp only [List.length_take]
      omega
    · rcases dirWrs_in io cs _ w hw with h | ⟨c', hc', h⟩
      · exact Or.inl h
      · exact Or.inr ⟨c', List.mem_cons_of_mem _ hc', h⟩

theorem inv_ge2 {k lim m O} (h : Inv k lim m O) {o : List Nat} (ho : o ∈ O) : ∀ c ∈ o, 2 ≤ c :=
  fun c hc => (chainOk_mem (h.chains o ho) c hc).1

theorem inv_disj {k lim m U} {T : List Nat} (h : Inv k lim m (T :: U)) {o : List Nat} (ho : o ∈ U) :
    ∀ c ∈ o, c ∉ T := by
  intro c hc hT
  have hnd : (T ++ U.flatten).Nodup := by have := h.nodup; rwa [List.flatten_cons] at this
  exact (List.nodup_append.1 hnd).2.2 c hT c (List.mem_flatten.2 ⟨o, ho, hc⟩) rfl

/-- writes confined to the clusters of the head owner do not change what any other owner holds -/
theorem frame_head {k lim m U} {T : List Nat} (io : IOGeom) (d : Dev) (ws : List Wr)
    (h : Inv k lim m (T :: U))
    (hws : ∀ w ∈ ws, w.data.length = 0 ∨ ∃ c ∈ T, InCluster io c w) :
    ∀ o ∈ U, chainBytes (applyWrs d ws) io o = chainBytes d io o := by
  intro o ho
  exact chainBytes_other d io T o ws hws (inv_ge2 h List.mem_cons_self)
    (inv_ge2 h (List.mem_cons_of_mem _ ho)) (inv_disj h ho)

/-- a write in front of the data area changes no cluster -/
theorem frame_below (io : IOGeom) (d : Dev) (w : Wr) (o : List Nat)
    (hw : w.off + w.data.length ≤ io.start + io.dataStart) :
    chainBytes (applyWrs d [w]) io o = chainBytes d io o := by
  apply chainBytes_congr
  intro c hc i hi1 _
  apply applyWrs_frame
  intro w' hw'
  rw [List.mem_singleton] at hw'
  subst hw'
  have : io.start + io.dataStart ≤ clusterOff io c := by unfold clusterOff; omega
  omega

/-! ### writeDirectoryEntries -/

theorem cnt_mul (need bpc : Nat) (hb : 0 < bpc) :
    need * bpc / bpc + (if need * bpc % bpc > 0 then 1 else 0) = need := by
  rw [Nat.mul_div_cancel _ hb, Nat.mul_mod_left]; simp

theorem chainOwner_cons (c : Nat) (cs : List Nat) : chainOwner (c :: cs) = [c :: cs] := rfl

theorem chainOwner_of_ne {l : List Nat} (h : l ≠ []) : chainOwner l = [l] := by
  cases l with
  | nil => exact absurd rfl h
  | cons c cs => rfl

/-- **writeDirectoryEntries** keeps the cluster map sound with the directory's (possibly grown
    or shrunk) chain in place of the old one, keeps a fixed root fixed, and leaves the bytes of
    every other owner alone; the new chain has exactly the clusters the entries need -/
theorem writeDir_ok {g : TGeom} {fuel : Nat} {m : CMap} {d : Dev} {chain : List Nat} {base : Nat}
    {ks : List TNode} {img : Bytes} {w : WD} {R : List (List Nat)}
    (hg : TGeomOk g) (hfuel : g.f.lim - 2 ≤ fuel)
    (h : Inv g.f.kind g.f.lim m (chainOwner chain ++ R))
    (hw : writeDir g fuel m d chain base ks img = .ok w) :
    Inv g.f.kind g.f.lim w.m (chainOwner w.chain ++ R) ∧ (w.chain = [] ↔ chain = []) ∧
    (∀ o ∈ R, chainBytes w.d g.f.io o = chainBytes d g.f.io o) ∧
    (chain ≠ [] → w.chain.length = dirNeed g base ks) := by
  cases chain with
  | nil =>
    simp only [writeDir] at hw
    split at hw
    · simp only [Except.ok.injEq] at hw
      subst hw
      refine ⟨h, Iff.rfl, ?_, fun hh => absurd rfl hh⟩
      intro o ho
      apply frame_below
      simp only [List.length_take]
      have := hg.root
      omega
    · cases hw
  | cons c cs =>
    rw [chainOwner_cons] at h
    have h' : Inv g.f.kind g.f.lim m ((c :: cs) :: R) := h
    have hfl : (c :: cs).length ≤ fuel := Nat.le_trans (chain_length_le h') hfuel
    simp only [writeDir] at hw
    split at hw
    · cases hw
    · rename_i hn0
      split at hw
      · rename_i heq
        simp only [Except.ok.injEq] at hw
        subst hw
        refine ⟨h, by simp, frame_head g.f.io d _ h' (dirWrs_in _ _ _), fun _ => heq.symm⟩
      · rename_i hne
        split at hw
        · cases hw
        · rename_i l' hres
          simp only [Except.ok.injEq] at hw
          subst hw
          unfold falloc at hres ⊢
          have hcnt := cnt_mul (dirNeed g base ks) g.f.io.bpc hg.bpc
          by_cases hlt : (c :: cs).length < dirNeed g base ks
          · -- grow
            obtain ⟨hinv, hlen, _⟩ := alloc_grow_inv h' (firstFit_spec _) hg.lim hg.max hg.bpc hfl
              (by rw [hcnt]; omega) hres
            rw [hcnt] at hlen
            have htake : l'.take (dirNeed g base ks) = l' := by rw [← hlen, List.take_length]
            simp only [htake]
            have hne' : l' ≠ [] := by
              intro e; rw [e] at hlen; simp at hlen; omega
            refine ⟨by rw [chainOwner_of_ne hne']; exact hinv, by simp [hne'],
              frame_head g.f.io d _ hinv (dirWrs_in _ _ _), fun _ => hlen⟩
          · -- shrink
            have hgt : dirNeed g base ks < (c :: cs).length := by omega
            obtain ⟨hres', hinv⟩ := alloc_shrink_inv (pick := firstFit g.f.lim) (size := dirNeed g base ks * g.f.io.bpc)
              h' hg.lim hg.max hg.bpc hfl (by rw [hcnt]; exact hgt)
            rw [hcnt] at hinv
            have hl' : l' = c :: cs := by
              rw [hres'] at hres; exact (Option.some.inj hres).symm
            have hmx : Nat.max (dirNeed g base ks) 1 = dirNeed g base ks := by
              show max (dirNeed g base ks) 1 = _; omega
            rw [hmx] at hinv
            subst hl'
            have hne' : (c :: cs).take (dirNeed g base ks) ≠ [] := by
              intro e
              have := congrArg List.length e
              simp only [List.length_take, List.length_nil] at this
              omega
            refine ⟨by rw [chainOwner_of_ne hne']; exact hinv, by simp [hne'],
              frame_head g.f.io d _ hinv (dirWrs_in _ _ _), fun _ => ?_⟩
            simp only [List.length_take]
            omega

theorem writeDir_err {g : TGeom} {fuel : Nat} {m : CMap} {d : Dev} {chain : List Nat} {base : Nat}
    {ks : List TNode} {img : Bytes} {e : TRes}
    (hw : writeDir g fuel m d chain base ks img = .error e) :
    e ≠ .ok ∧ ∀ x, e ≠ .spec x := by
  cases chain with
  | nil =>
    simp only [writeDir] at hw
    split at hw
    · cases hw
    · simp only [Except.error.injEq] at hw
      subst hw
      exact ⟨by simp, by simp⟩
  | cons c cs =>
    simp only [writeDir] at hw
    split at hw
    · simp only [Except.error.injEq] at hw; subst hw; exact ⟨by simp, by simp⟩
    · split at hw
      · cases hw
      · split at hw
        · simp only [Except.error.injEq] at hw; subst hw; exact ⟨by simp, by simp⟩
        · cases hw

/-! ### what one call inside a directory must establish -/

/-- `rest` = every owner of the volume outside this directory's subtree -/
structure StepFacts (eqn : Spec.Name → Spec.Name → Bool) (g : TGeom) (rest : List (List Nat))
    (s : DirSt) (r : DirSt × TRes) (sp : Spec.Tree × Spec.Res) : Prop where
  inv : Inv g.f.kind g.f.lim r.1.m (chainOwner r.1.chain ++ kidsOwners r.1.kids ++ rest)
  wf : kidsWF eqn g r.1.kids
  root : r.1.chain = [] ↔ s.chain = []
  frame : ∀ o ∈ rest, chainBytes r.1.d g.f.io o = chainBytes s.d g.f.io o
  acc : r.2 = .ok → kidsAbs r.1.d g.f.io r.1.kids = sp.1 ∧ sp.2 = .ok
  rej : r.2 ≠ .ok → r.1 = s
  err : ∀ e, r.2 = .spec e → sp.2 = e

def LocalOk (eqn : Spec.Name → Spec.Name → Bool) (g : TGeom) (f : Nat → DirSt → DirSt × TRes)
    (sf : Spec.Tree → Spec.Tree × Spec.Res) : Prop :=
  ∀ (base : Nat) (s : DirSt) (rest : List (List Nat)),
    Inv g.f.kind g.f.lim s.m (chainOwner s.chain ++ kidsOwners s.kids ++ rest) → kidsWF eqn g s.kids →
    StepFacts eqn g rest s (f base s) (sf (kidsAbs s.d g.f.io s.kids))

/-- the state is returned as it was -/
theorem StepFacts.same {eqn g rest} {s : DirSt} {res : TRes} {sp : Spec.Tree × Spec.Res}
    (h : Inv g.f.kind g.f.lim s.m (chainOwner s.chain ++ kidsOwners s.kids ++ rest))
    (hwf : kidsWF eqn g s.kids)
    (hacc : res = .ok → kidsAbs s.d g.f.io s.kids = sp.1 ∧ sp.2 = .ok)
    (herr : ∀ e, res = .spec e → sp.2 = e) : StepFacts eqn g rest s (s, res) sp :=
  ⟨h, hwf, Iff.rfl, fun _ _ => rfl, hacc, fun _ => rfl, herr⟩

/-- a refusal that is not one of the specification's -/
theorem StepFacts.refused {eqn g rest} {s : DirSt} {res : TRes} {sp : Spec.Tree × Spec.Res}
    (h : Inv g.f.kind g.f.lim s.m (chainOwner s.chain ++ kidsOwners s.kids ++ rest))
    (hwf : kidsWF eqn g s.kids) (h1 : res ≠ .ok) (h2 : ∀ x, res ≠ .spec x) :
    StepFacts eqn g rest s (s, res) sp :=
  StepFacts.same h hwf (fun e => absurd e h1) (fun e he => absurd he (h2 e))

/-! ### list surgery around one child -/

theorem treplace_split {eqn} (φ : TNode → Spec.Name × Spec.Node) (hφ : ∀ x, (φ x).1 = x.name)
    {pre post : List TNode} {t : TNode} {n : Spec.Name} (v : Spec.Node)
    (hf : eqn t.name n = true) (hpre : ∀ x ∈ pre, eqn x.name n = false)
    (hpost : ∀ x ∈ post, eqn x.name n = false) :
    Spec.replace eqn ((pre ++ t :: post).map φ) n v = pre.map φ ++ (t.name, v) :: post.map φ := by
  unfold Spec.replace
  rw [List.map_append, List.map_cons, List.map_append, List.map_cons, hφ t, if_pos hf]
  have hside : ∀ l : List TNode, (∀ x ∈ l, eqn x.name n = false) →
      (l.map φ).map (fun e => if eqn e.1 n = true then (e.1, v) else e) = l.map φ := by
    intro l hl
    apply map_ite_of_false (fun e : Spec.Name × Spec.Node => eqn e.1 n) (fun e => (e.1, v))
    intro e he
    obtain ⟨x, hx, rfl⟩ := List.mem_map.1 he
    rw [hφ x]; exact hl x hx
  rw [hside pre hpre, hside post hpost]

theorem trename_split {eqn : Spec.Name → Spec.Name → Bool} (φ : TNode → Spec.Name × Spec.Node)
    (hφ : ∀ x, (φ x).1 = x.name) {pre post : List TNode} {t : TNode} {o : Spec.Name}
    (ψ : Spec.Name × Spec.Node → Spec.Name × Spec.Node)
    (hf : eqn t.name o = true) (hpre : ∀ x ∈ pre, eqn x.name o = false)
    (hpost : ∀ x ∈ post, eqn x.name o = false) :
    ((pre ++ t :: post).map φ).map (fun e => if eqn e.1 o = true then ψ e else e)
      = pre.map φ ++ ψ (φ t) :: post.map φ := by
  rw [List.map_append, List.map_cons, List.map_append, List.map_cons, hφ t, if_pos hf]
  have hside : ∀ l : List TNode, (∀ x ∈ l, eqn x.name o = false) →
      (l.map φ).map (fun e => if eqn e.1 o = true then ψ e else e) = l.map φ := by
    intro l hl
    apply map_ite_of_false (fun e : Spec.Name × Spec.Node => eqn e.1 o) ψ
    intro e he
    obtain ⟨x, hx, rfl⟩ := List.mem_map.1 he
    rw [hφ x]; exact hl x hx
  rw [hside pre hpre, hside post hpost]

theorem eqn_false_symm {eqn} (he : EqnOk eqn) {a b : Spec.Name} (h : eqn a b = false) : eqn b a = false := by
  cases hba : eqn b a with
  | false => rfl
  | true => have := he.symm _ _ hba; rw [h] at this; cases this

/-- the names around a child differ from its own -/
theorem mid_names {eqn : Spec.Name → Spec.Name → Bool} {pre post : List TNode} {t : TNode}
    (hd : (pre ++ t :: post).Pairwise fun a b => eqn a.name b.name = false) :
    (∀ x ∈ pre, eqn x.name t.name = false) ∧ (∀ x ∈ post, eqn t.name x.name = false) := by
  rw [List.pairwise_append] at hd
  exact ⟨fun x hx => hd.2.2 x hx t List.mem_cons_self, (List.pairwise_cons.1 hd.2.1).1⟩

/-- the final assembly when the child `t` between `pre` and `post` has become `x` -/
theorem assemble_mid {eqn : Spec.Name → Spec.Name → Bool} {g : TGeom} {s : DirSt} {rest : List (List Nat)} {pre post : List TNode}
    {t x : TNode} (mF : CMap) (dF : Dev) (cF : List Nat)
    (hwf : kidsWF eqn g (pre ++ t :: post))
    (hxpre : ∀ a ∈ pre, eqn a.name x.name = false) (hxpost : ∀ b ∈ post, eqn x.name b.name = false)
    (hxwf : x.WF eqn g)
    (hinv : Inv g.f.kind g.f.lim mF (x.owners ++ (chainOwner cF ++ (kidsOwners pre ++ kidsOwners post ++ rest))))
    (hroot : cF = [] ↔ s.chain = [])
    (hfr : ∀ o ∈ kidsOwners pre ++ kidsOwners post ++ rest, chainBytes dF g.f.io o = chainBytes s.d g.f.io o)
    {sp : Spec.Tree × Spec.Res}
    (hsp : sp = (kidsAbs s.d g.f.io pre ++ x.abs dF g.f.io :: kidsAbs s.d g.f.io post, .ok)) :
    StepFacts eqn g rest s (⟨mF, dF, cF, pre ++ x :: post⟩, .ok) sp := by
  refine ⟨?_, ?_, hroot, fun o ho => hfr o (List.mem_append_right _ ho), fun _ => ?_,
    fun hh => absurd rfl hh, fun e he => by cases he⟩
  · simp only [kidsOwners_append, kidsOwners_cons]
    exact inv_perm (by perm_tac) hinv
  · rw [kidsWF_iff] at hwf ⊢
    obtain ⟨hall, hpw⟩ := hwf
    refine ⟨?_, ?_⟩
    · intro u hu
      rcases List.mem_append.1 hu with hu | hu
      · exact hall u (List.mem_append_left _ hu)
      · rcases List.mem_cons.1 hu with rfl | hu
        · exact hxwf
        · exact hall u (List.mem_append_right _ (List.mem_cons_of_mem _ hu))
    · rw [List.pairwise_append] at hpw ⊢
      obtain ⟨h1, h2, h3⟩ := hpw
      refine ⟨h1, ?_, ?_⟩
      · rw [List.pairwise_cons] at h2 ⊢
        exact ⟨hxpost, h2.2⟩
      · intro a ha b hb
        rcases List.mem_cons.1 hb with rfl | hb
        · exact hxpre a ha
        · exact h3 a ha b (List.mem_cons_of_mem _ hb)
  · subst hsp
    refine ⟨?_, rfl⟩
    simp only
    rw [kidsAbs_eq_map, List.map_append, List.map_cons, ← kidsAbs_eq_map, ← kidsAbs_eq_map]
    rw [kidsAbs_congr s.d dF g.f.io pre (fun o ho => hfr o (List.mem_append_left _ (List.mem_append_left _ ho))),
      kidsAbs_congr s.d dF g.f.io post (fun o ho => hfr o (List.mem_append_left _ (List.mem_append_right _ ho)))]

/-- the final assembly when the child between `pre` and `post` is gone -/
theorem assemble_drop {eqn : Spec.Name → Spec.Name → Bool} {g : TGeom} {s : DirSt} {rest : List (List Nat)} {pre post : List TNode}
    {t : TNode} (mF : CMap) (dF : Dev) (cF : List Nat)
    (hwf : kidsWF eqn g (pre ++ t :: post))
    (hinv : Inv g.f.kind g.f.lim mF (chainOwner cF ++ (kidsOwners pre ++ kidsOwners post ++ rest)))
    (hroot : cF = [] ↔ s.chain = [])
    (hfr : ∀ o ∈ kidsOwners pre ++ kidsOwners post ++ rest, chainBytes dF g.f.io o = chainBytes s.d g.f.io o)
    {sp : Spec.Tree × Spec.Res}
    (hsp : sp = (kidsAbs s.d g.f.io (pre ++ post), .ok)) :
    StepFacts eqn g rest s (⟨mF, dF, cF, pre ++ post⟩, .ok) sp := by
  refine ⟨?_, ?_, hroot, fun o ho => hfr o (List.mem_append_right _ ho), fun _ => ?_,
    fun hh => absurd rfl hh, fun e he => by cases he⟩
  · simp only [kidsOwners_append]
    exact inv_perm (by perm_tac) hinv
  · rw [kidsWF_iff] at hwf ⊢
    obtain ⟨hall, hpw⟩ := hwf
    refine ⟨?_, hpw.sublist (List.Sublist.append (List.Sublist.refl _) (List.sublist_cons_self _ _))⟩
    intro u hu
    rcases List.mem_append.1 hu with hu | hu
    · exact hall u (List.mem_append_left _ hu)
    · exact hall u (List.mem_append_right _ (List.mem_cons_of_mem _ hu))
  · subst hsp
    refine ⟨?_, rfl⟩
    simp only
    apply kidsAbs_congr
    intro o ho
    rw [kidsOwners_append] at ho
    exact hfr o (List.mem_append_left _ ho)

section local_ops
variable {eqn : Spec.Name → Spec.Name → Bool} {g : TGeom} {fuel : Nat}

/-- a new leaf (file or empty directory owning the fresh chain `l`) appended to the directory -/
theorem add_leaf (hg : TGeomOk g) (hfuel : g.f.lim - 2 ≤ fuel) {s : DirSt} {rest : List (List Nat)}
    {base : Nat} {n : Spec.Name} {img : Bytes} (x : TNode) (l : List Nat) (m1 : CMap) (d1 : Dev)
    (hxo : x.owners = [l]) (hxn : x.name = n) (hxwf : x.WF eqn g)
    (hwf : kidsWF eqn g s.kids) (hn : kfind eqn s.kids n = none)
    (hnew : Inv g.f.kind g.f.lim m1 (l :: (chainOwner s.chain ++ kidsOwners s.kids ++ rest)))
    (hd1 : ∀ o ∈ chainOwner s.chain ++ kidsOwners s.kids ++ rest, chainBytes d1 g.f.io o = chainBytes s.d g.f.io o)
    {w : WD} (hw : writeDir g fuel m1 d1 s.chain base (s.kids ++ [x]) img = .ok w)
    {sp : Spec.Tree × Spec.Res}
    (hsp : sp = (kidsAbs s.d g.f.io s.kids ++ [x.abs w.d g.f.io], .ok)) :
    StepFacts eqn g rest s (⟨w.m, w.d, w.chain, s.kids ++ [x]⟩, .ok) sp := by
  have hperm : Inv g.f.kind g.f.lim m1 (chainOwner s.chain ++ (l :: (kidsOwners s.kids ++ rest))) :=
    inv_perm (by perm_tac) hnew
  obtain ⟨hinv, hroot, hfr, _⟩ := writeDir_ok hg hfuel hperm hw
  have hfr2 : ∀ o ∈ kidsOwners s.kids ++ rest, chainBytes w.d g.f.io o = chainBytes s.d g.f.io o := by
    intro o ho
    rw [hfr o (List.mem_cons_of_mem _ ho)]
    exact hd1 o (by rw [List.append_assoc]; exact List.mem_append_right _ ho)
  refine ⟨?_, ?_, hroot, fun o ho => hfr2 o (List.mem_append_right _ ho), fun _ => ?_,
    fun hh => absurd rfl hh, fun e he => by cases he⟩
  · simp only [kidsOwners_append, kidsOwners_cons, kidsOwners_nil, hxo]
    exact inv_perm (by perm_tac) hinv
  · rw [kidsWF_iff] at hwf ⊢
    refine ⟨?_, ?_⟩
    · intro t ht
      rcases List.mem_append.1 ht with ht | ht
      · exact hwf.1 t ht
      · rw [List.mem_singleton] at ht; subst ht; exact hxwf
    · rw [List.pairwise_append]
      refine ⟨hwf.2, List.pairwise_singleton _ _, ?_⟩
      intro a ha b hb
      rw [List.mem_singleton] at hb
      subst hb
      rw [hxn]
      exact kfind_none hn a ha
  · subst hsp
    refine ⟨?_, rfl⟩
    simp only
    rw [kidsAbs_eq_map, List.map_append, ← kidsAbs_eq_map, List.map_cons, List.map_nil]
    rw [kidsAbs_congr s.d w.d g.f.io s.kids (fun o ho => hfr2 o (List.mem_append_left _ ho))]

theorem local_mkdir (hg : TGeomOk g) (hfuel : g.f.lim - 2 ≤ fuel) (d0 : List Spec.Name)
    (n : Spec.Name) (img img2 : Bytes) :
    LocalOk eqn g (dMkdir eqn g fuel n img img2) (Spec.stepDir eqn (.mkdir d0 n)) := by
  intro base s rest h hwf
  unfold dMkdir
  simp only [Spec.stepDir, lookup_kidsAbs]
  split
  · rename_i nm c ks hf
    simp only [hf, Option.map_some, abs_dir]
    exact StepFacts.same h hwf (fun _ => ⟨rfl, rfl⟩) (fun e he => by cases he)
  · rename_i nm c sz hf
    simp only [hf, Option.map_some, abs_file]
    exact StepFacts.same h hwf (fun hh => by cases hh) (fun e he => by cases he; rfl)
  · rename_i hf
    simp only [hf, Option.map_none]
    split
    · exact StepFacts.refused h hwf (by simp) (by simp)
    · rename_i l hres
      unfold falloc at hres
      obtain ⟨hnew, hlen⟩ := alloc_new_inv h (firstFit_spec _) hg.lim hg.max hg.bpc (by decide) hres
      split
      · rename_i e hw
        obtain ⟨h1, h2⟩ := writeDir_err hw
        exact StepFacts.refused h hwf h1 h2
      · rename_i w hw
        refine add_leaf hg hfuel (.dir n l []) l _ _ (by rw [owners_dir, kidsOwners_nil]) rfl
          (by rw [wf_dir]; exact kidsWF_nil _ _) hwf hf hnew ?_ hw ?_
        · exact frame_head g.f.io s.d _ hnew (dirWrs_in _ _ _)
        · rw [abs_dir, kidsAbs_nil]

theorem local_create (hg : TGeomOk g) (hfuel : g.f.lim - 2 ≤ fuel) (d0 : List Spec.Name)
    (n : Spec.Name) (img : Bytes) :
    LocalOk eqn g (dCreate eqn g fuel n img) (Spec.stepDir eqn (.create d0 n)) := by
  intro base s rest h hwf
  unfold dCreate
  simp only [Spec.stepDir, lookup_kidsAbs]
  split
  · rename_i t hf
    simp only [hf, Option.map_some]
    exact StepFacts.same h hwf (fun _ => ⟨rfl, rfl⟩) (fun e he => by cases he)
  · rename_i hf
    simp only [hf, Option.map_none]
    split
    · exact StepFacts.refused h hwf (by simp) (by simp)
    · rename_i l hres
      unfold falloc at hres
      obtain ⟨hnew, hlen⟩ := alloc_new_inv h (firstFit_spec _) hg.lim hg.max hg.bpc (by decide) hres
      have hlen1 : l.length = 1 := by
        have := clusterCount_one hg.bpc
        unfold clusterCount at this
        rw [hlen, this]
      split
      · rename_i e hw
        obtain ⟨h1, h2⟩ := writeDir_err hw
        exact StepFacts.refused h hwf h1 h2
      · rename_i w hw
        refine add_leaf hg hfuel (.file n l 0) l _ _ (by rw [owners_file]) rfl
          (by rw [wf_file, clusterCount_zero, hlen1]; rfl) hwf hf hnew (fun _ _ => rfl) hw ?_
        rw [abs_file]
        simp [fileContent]

end local_ops

end Diskfs.Fat
