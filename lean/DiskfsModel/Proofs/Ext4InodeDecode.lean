/-
  C20 helper lemmas: the mirror of inodeFromBytes (Model/Ext4/InodeDecode.lean goDecode / goCsumOk / goFast)
  against the SPEC decoder (ImageSpec.readInode = specInode over the bytes of the record).
-/
import DiskfsModel.Model.Ext4.InodeDecode
import DiskfsModel.Proofs.MetaInodeBytes
namespace Diskfs.Ext4.InodeDec
open Diskfs Diskfs.Ext4.Reader Diskfs.Ext4.InodeCodec Diskfs.Ext4.Spec

/-! ### image bytes ↔ byte lists -/

theorem bytes_length (i : Img) (off len : Nat) : (i.bytes off len).length = len := by
  simp [Img.bytes]

theorem bytes_getElem? (i : Img) (off len k : Nat) (h : k < len) :
    (i.bytes off len)[k]? = some (i.byte (off + k)) := by
  simp [Img.bytes, List.getElem?_map, List.getElem?_range h]

theorem slice_bytes (i : Img) (off len k w : Nat) (h : k + w ≤ len) :
    slice (i.bytes off len) k (k + w) = i.bytes (off + k) w := by
  apply List.ext_getElem?
  intro j
  rw [slice_getElem?]
  by_cases hj : j < w
  · rw [if_pos (by omega), bytes_getElem? i off len (k + j) (by omega), bytes_getElem? i (off + k) w j hj,
      Nat.add_assoc]
  · rw [if_neg (by omega)]
    symm
    apply List.getElem?_eq_none
    rw [bytes_length]; omega

theorem le16_bytes (i : Img) (off len k : Nat) (h : k + 2 ≤ len) :
    le16 (i.bytes off len) k = i.u16 (off + k) := by
  unfold le16
  rw [slice_bytes i off len k 2 h]
  simp [Img.bytes, Img.u16, Img.u8, leDec, List.range_succ, Nat.add_assoc]

theorem le32_bytes (i : Img) (off len k : Nat) (h : k + 4 ≤ len) :
    le32 (i.bytes off len) k = i.u32 (off + k) := by
  unfold le32
  rw [slice_bytes i off len k 4 h]
  simp [Img.bytes, Img.u32, Img.u16, Img.u8, leDec, List.range_succ, Nat.add_assoc]
  omega

/-- crc over a range of the image with some positions taken as zero = crc of the list of those bytes -/
theorem crcRange_eq (i : Img) (zero : Nat → Bool) : ∀ (n off : Nat) (c : UInt32),
    i.crcRange zero off n c =
      crc32c c ((List.range n).map fun k => if zero (off + k) then 0 else i.byte (off + k)) := by
  intro n
  induction n with
  | zero => intro off c; simp [Img.crcRange, crc32c]
  | succ n ih =>
    intro off c
    rw [Img.crcRange, ih, List.range_succ_eq_map]
    simp only [crc32c, List.map_cons, List.foldl_cons, List.map_map, Nat.add_zero]
    congr 1
    apply List.map_congr_left
    intro k _
    simp only [Function.comp]
    rw [show off + 1 + k = off + (k + 1) by omega]

/-! ### the padded record -/

theorem pad256_prefix (raw : Bytes) (k : Nat) (h : k < raw.length) : (pad256 raw)[k]? = raw[k]? := by
  unfold pad256
  split
  · rw [List.getElem?_append_left h]
  · rfl

theorem slice_pad256 (raw : Bytes) (lo hi : Nat) (h : hi ≤ raw.length) :
    slice (pad256 raw) lo hi = slice raw lo hi := by
  apply List.ext_getElem?
  intro j
  rw [slice_getElem?, slice_getElem?]
  by_cases hj : j < hi - lo
  · rw [if_pos hj, if_pos hj, pad256_prefix raw (lo + j) (by omega)]
  · rw [if_neg hj, if_neg hj]

theorem le16_pad256 (raw : Bytes) (o : Nat) (h : o + 2 ≤ raw.length) : le16 (pad256 raw) o = le16 raw o := by
  unfold le16; rw [slice_pad256 raw o (o + 2) h]

theorem le32_pad256 (raw : Bytes) (o : Nat) (h : o + 4 ≤ raw.length) : le32 (pad256 raw) o = le32 raw o := by
  unfold le32; rw [slice_pad256 raw o (o + 4) h]

theorem leDec_zeros (n : Nat) : leDec (zeros n) = 0 := by
  induction n with
  | zero => rfl
  | succ n ih =>
    have : zeros (n + 1) = 0 :: zeros n := by simp [zeros, List.replicate_succ]
    rw [this, leDec, ih]; simp

/-- a word that lies wholly in the padding reads as zero -/
theorem le32_pad256_beyond (raw : Bytes) (o : Nat) (h1 : raw.length ≤ o) (h2 : o + 4 ≤ 256) :
    le32 (pad256 raw) o = 0 := by
  unfold le32 pad256
  rw [if_pos (by omega)]
  have : slice (raw ++ zeros (256 - raw.length)) o (o + 4) = zeros 4 := by
    apply List.ext_getElem?
    intro j
    rw [slice_getElem?]
    by_cases hj : j < 4
    · rw [if_pos (by omega), List.getElem?_append_right (by omega)]
      simp only [zeros]
      rw [List.getElem?_replicate, List.getElem?_replicate, if_pos (by omega), if_pos hj]
    · rw [if_neg (by omega)]
      symm
      apply List.getElem?_eq_none
      simp; omega
  rw [this, leDec_zeros]

/-! ### ImageSpec.readInode is specInode over the bytes of the record -/

/-- the list the image checksum runs over is the record with its checksum fields cleared -/
theorem cleared_eq (i : Img) (o isz : Nat) (hi : Bool) :
    ((List.range isz).map fun k =>
      if (o + k == o + 0x7c || o + k == o + 0x7d || hi && (o + k == o + 0x82 || o + k == o + 0x83)) then 0
      else i.byte (o + k)) = clearCsum hi (i.bytes o isz) := by
  apply List.ext_getElem?
  intro k
  unfold clearCsum
  rw [List.getElem?_mapIdx]
  by_cases hk : k < isz
  · rw [List.getElem?_map, List.getElem?_range hk, bytes_getElem? i o isz k hk]
    simp
  · rw [List.getElem?_eq_none (by simp; omega), List.getElem?_eq_none (by rw [bytes_length]; omega)]
    rfl

theorem xword_eq (i : Img) (o isz extra fo : Nat) :
    (if fitsIn isz extra (fo + 4) = true then le32 (i.bytes o isz) fo else 0) =
    (if fitsIn isz extra (fo + 4) = true then i.u32 (o + fo) else 0) := by
  split
  · rename_i h
    simp only [fitsIn, Bool.and_eq_true, decide_eq_true_eq] at h
    rw [le32_bytes i o isz fo h.2]
  · rfl

theorem crcRange_cleared (i : Img) (o isz : Nat) (hi : Bool) (c : UInt32) :
    i.crcRange (fun p => p == o + 0x7c || p == o + 0x7d || hi && (p == o + 0x82 || p == o + 0x83)) o isz c =
      crc32c c (clearCsum hi (i.bytes o isz)) := by
  rw [crcRange_eq]
  exact congrArg _ (cleared_eq i o isz hi)

theorem slice_bytes' (i : Img) (off len k hi w : Nat) (hw : hi = k + w) (h : hi ≤ len) :
    slice (i.bytes off len) k hi = i.bytes (off + k) w := by
  subst hw; exact slice_bytes i off len k w h

theorem crt_eq (c : Bool) (a b e : Nat) (h : c = true → a = b) :
    (if c = true then tsDec a e else (⟨0, 0⟩ : Ts)) = (if c = true then tsDec b e else ⟨0, 0⟩) := by
  cases c <;> simp_all

theorem hiword_eq (c : Bool) (x y a b : Nat) (l : Nat) (h : c = true → a = b) :
    ((if c = true then x else y) == l + (if c = true then a * 65536 else 0)) =
    ((if c = true then x else y) == l + (if c = true then b * 65536 else 0)) := by
  cases c <;> simp_all

theorem readInode_eq (f : Fs) (n o : Nat) (ho : inodeOff f.geo f.tables n = some o)
    (hr : f.img.inRange o f.geo.inodeSize = true)
    (hisz : f.geo.inodeSize = 128 ∨ 132 ≤ f.geo.inodeSize) :
    readInode f n = .ok (specInode f.geo f.seed n o (f.img.bytes o f.geo.inodeSize)) := by
  have h128 : 128 ≤ f.geo.inodeSize := by omega
  have e16 : ∀ k, k + 2 ≤ 128 → le16 (f.img.bytes o f.geo.inodeSize) k = f.img.u16 (o + k) :=
    fun k hk => le16_bytes f.img o _ k (by omega)
  have e32 : ∀ k, k + 4 ≤ 128 → le32 (f.img.bytes o f.geo.inodeSize) k = f.img.u32 (o + k) :=
    fun k hk => le32_bytes f.img o _ k (by omega)
  have eextra : (if f.geo.inodeSize > 128 then le16 (f.img.bytes o f.geo.inodeSize) 0x80 else 0) =
      (if f.geo.inodeSize > 128 then f.img.u16 (o + 0x80) else 0) := by
    split
    · rw [le16_bytes f.img o _ 0x80 (by omega)]
    · rfl
  have hib : slice (f.img.bytes o f.geo.inodeSize) 40 100 = f.img.bytes (o + 40) 60 :=
    slice_bytes' f.img o f.geo.inodeSize 40 100 60 rfl (by omega)
  unfold readInode
  simp only [ho, hr, Bool.not_true, Bool.false_eq_true, if_false]
  show Except.ok _ = Except.ok _
  congr 1
  unfold specInode
  simp only [eextra, xword_eq, e16 0 (by omega), e16 2 (by omega), e16 0x78 (by omega), e16 0x18 (by omega),
    e16 0x7a (by omega), e32 4 (by omega), e32 0x6c (by omega), e16 0x1a (by omega), e32 0x20 (by omega),
    e32 0x1c (by omega), e16 0x74 (by omega), e32 0x64 (by omega), e32 0x68 (by omega), e16 0x76 (by omega),
    e32 0x8 (by omega), e32 0xc (by omega), e32 0x10 (by omega)]
  simp only [Nat.add_zero, fitsIn, Inode.mk.injEq, true_and]
  refine ⟨rfl, rfl, rfl, ?_, ?_, ?_⟩
  · apply crt_eq
    intro hc
    simp only [Bool.and_eq_true, decide_eq_true_eq] at hc
    exact (le32_bytes f.img o _ 0x90 (by omega)).symm
  · rw [hib]
  · unfold specCsumOk inodeCrc
    simp only [crcRange_cleared, fitsIn, eextra, e16 0x7c (by omega), e32 0x64 (by omega)]
    by_cases hm : f.geo.metadataCsum = true
    · rw [if_pos hm, if_pos hm]
      apply hiword_eq
      intro hc
      simp only [Bool.and_eq_true, decide_eq_true_eq] at hc
      exact (le16_bytes f.img o _ 0x82 (by omega)).symm
    · rw [if_neg hm, if_neg hm]

/-! ### mirror of inodeFromBytes = SPEC decoder -/

/-- the fields of the classic 128 bytes: the Go reader and the SPEC decoder read the same numbers -/
theorem goDecode_base_eq_spec (guarded : Bool) (g : Geo) (seed : UInt32) (n o : Nat) (raw : Bytes)
    (hl : raw.length = g.inodeSize) (hisz : g.inodeSize = 128 ∨ 132 ≤ g.inodeSize) :
    let gi := goDecode guarded g.hugeFile g.inodeSize raw
    let si := specInode g seed n o raw
    si.mode = gi.mode ∧ si.uid = gi.uid ∧ si.gid = gi.gid ∧ si.size = gi.size ∧ si.links = gi.links ∧
    si.flags = gi.flags ∧ si.blocks512 = gi.blocks512 g.blockSize ∧ si.gen = gi.gen ∧ si.fileAcl = gi.fileAcl ∧
    si.iblock = gi.iblock ∧ (g.inodeSize > 128 → si.extra = gi.extra) := by
  have p16 : ∀ k, k + 2 ≤ 128 → le16 (pad256 raw) k = le16 raw k := fun k hk => le16_pad256 raw k (by omega)
  have p32 : ∀ k, k + 4 ≤ 128 → le32 (pad256 raw) k = le32 raw k := fun k hk => le32_pad256 raw k (by omega)
  simp only [goDecode, specInode, GoInode.blocks512, p16 0 (by omega), p16 2 (by omega), p16 0x78 (by omega),
    p16 0x18 (by omega), p16 0x7a (by omega), p32 4 (by omega), p32 0x6c (by omega), p16 0x1a (by omega),
    p32 0x20 (by omega), p32 0x1c (by omega), p16 0x74 (by omega), p32 0x64 (by omega), p32 0x68 (by omega),
    p16 0x76 (by omega), slice_pad256 raw 0x28 0x64 (by omega), true_and]
  intro h
  rw [if_pos h, le16_pad256 raw 0x80 (by omega)]


theorem tsDec_zero : tsDec 0 0 = ⟨0, 0⟩ := by decide

/-- the four timestamps: equal for the repaired reader always; for the reader as found on 128-byte inodes and
    wherever i_extra_isize covers the whole of the timestamp words (0x98) -/
theorem goDecode_times_eq_spec (guarded : Bool) (g : Geo) (seed : UInt32) (n o : Nat) (raw : Bytes)
    (hl : raw.length = g.inodeSize) (hisz : g.inodeSize = 128 ∨ 132 ≤ g.inodeSize)
    (hfit : guarded = true ∨ g.inodeSize = 128 ∨ (0x98 ≤ 128 + le16 raw 0x80 ∧ 0x98 ≤ g.inodeSize)) :
    let gi := goDecode guarded g.hugeFile g.inodeSize raw
    let si := specInode g seed n o raw
    si.atime = gi.atime ∧ si.ctime = gi.ctime ∧ si.mtime = gi.mtime ∧ si.crtime = gi.crtime := by
  have p32 : ∀ k, k + 4 ≤ 128 → le32 (pad256 raw) k = le32 raw k := fun k hk => le32_pad256 raw k (by omega)
  simp only [goDecode, specInode, goExtraWord, p32 8 (by omega), p32 0xc (by omega), p32 0x10 (by omega)]
  rcases hisz with h128 | h132
  · -- classic inode: nothing fits, the Go reader reads the zero padding
    have hb : ∀ k, 128 ≤ k → k + 4 ≤ 256 → le32 (pad256 raw) k = 0 :=
      fun k h1 h2 => le32_pad256_beyond raw k (by omega) h2
    have hf : ∀ e fe, fitsIn g.inodeSize e fe = false := by
      intro e fe; simp [fitsIn, h128]
    simp only [hf, hb 0x8c (by omega) (by omega), hb 0x84 (by omega) (by omega), hb 0x88 (by omega) (by omega),
      hb 0x90 (by omega) (by omega), hb 0x94 (by omega) (by omega), Bool.false_eq_true, if_false, Bool.not_false,
      Bool.and_true, ite_self, tsDec_zero, and_self]
  · have he : le16 (pad256 raw) 0x80 = le16 raw 0x80 := le16_pad256 raw 0x80 (by omega)
    have hgt : g.inodeSize > 128 := by omega
    rw [he, if_pos hgt]
    have px : ∀ k, fitsIn g.inodeSize (le16 raw 0x80) (k + 4) = true → le32 (pad256 raw) k = le32 raw k := by
      intro k hk
      simp only [fitsIn, Bool.and_eq_true, decide_eq_true_eq] at hk
      exact le32_pad256 raw k (by omega)
    rcases hfit with hg | h | ⟨h1, h2⟩
    · subst hg
      simp only [Bool.true_and]
      refine ⟨?_, ?_, ?_, ?_⟩
      · congr 1; cases hc : fitsIn g.inodeSize (le16 raw 0x80) (0x8c + 4) <;> simp [px 0x8c, hc]
      · congr 1; cases hc : fitsIn g.inodeSize (le16 raw 0x80) (0x84 + 4) <;> simp [px 0x84, hc]
      · congr 1; cases hc : fitsIn g.inodeSize (le16 raw 0x80) (0x88 + 4) <;> simp [px 0x88, hc]
      · have mono : fitsIn g.inodeSize (le16 raw 0x80) 152 = true → fitsIn g.inodeSize (le16 raw 0x80) 148 = true := by
          simp only [fitsIn, Bool.and_eq_true, decide_eq_true_eq]; omega
        have p1 := px 0x90
        have p2 := px 0x94
        simp only [Nat.reduceAdd] at p1 p2 ⊢
        cases h1 : fitsIn g.inodeSize (le16 raw 0x80) 148 <;> cases h2 : fitsIn g.inodeSize (le16 raw 0x80) 152
        · simp [tsDec_zero]
        · simp [h1] at mono; simp [h2] at mono
        · simp [p1 h1]
        · simp [p1 h1, p2 h2]
    · omega
    · have hf : ∀ fe, fe ≤ 0x98 → fitsIn g.inodeSize (le16 raw 0x80) fe = true := by
        intro fe hfe
        simp only [fitsIn, Bool.and_eq_true, decide_eq_true_eq]; omega
      have q : ∀ k, k + 4 ≤ 0x98 → le32 (pad256 raw) k = le32 raw k := fun k hk => le32_pad256 raw k (by omega)
      simp only [hf (0x8c + 4) (by omega), hf (0x84 + 4) (by omega), hf (0x88 + 4) (by omega), hf 0x94 (by omega),
        hf (0x94 + 4) (by omega), q 0x8c (by omega), q 0x84 (by omega), q 0x88 (by omega),
        q 0x90 (by omega), q 0x94 (by omega), Bool.not_true, Bool.and_false, Bool.false_eq_true, if_false, if_true,
        and_self]


/-- checksum decision: the Go reader decides by the length of the record whether the high half takes part, the
    format by i_extra_isize; they are the same decision on 128-byte inodes and wherever i_extra_isize ≥ 4 -/
theorem goCsumOk_eq_spec (seed : UInt32) (n isz : Nat) (raw : Bytes) (hl : raw.length = isz)
    (h : isz = 128 ∨ (132 ≤ isz ∧ 4 ≤ le16 raw 0x80)) :
    goCsumOk seed n raw = specCsumOk seed n isz raw := by
  unfold goCsumOk specCsumOk
  have hg : le32 (pad256 raw) 0x64 = le32 raw 0x64 := le32_pad256 raw 0x64 (by omega)
  rw [hg]
  rcases h with h | ⟨h1, h2⟩
  · have a : decide (raw.length ≥ 0x84) = false := by simp; omega
    have b : fitsIn isz (if isz > 128 then le16 raw 0x80 else 0) 0x84 = false := by simp [fitsIn, h]
    simp only [a, b]
  · have a : decide (raw.length ≥ 0x84) = true := by simp; omega
    have b : fitsIn isz (if isz > 128 then le16 raw 0x80 else 0) 0x84 = true := by
      rw [if_pos (by omega)]
      simp only [fitsIn, Bool.and_eq_true, decide_eq_true_eq]; omega
    simp only [a, b]

/-! ### symbolic links: size rule (Go) against block rule (kernel) -/

theorem symlink_rules_differ_iff (mode size blocks512 ea : Nat) (hl : mode / 4096 = 10) :
    goFast mode size ≠ specFast mode blocks512 ea ↔
      (size < 60 ∧ ea < blocks512) ∨ (60 ≤ size ∧ blocks512 ≤ ea) := by
  unfold goFast specFast
  simp only [hl, beq_self_eq_true, Bool.true_and]
  by_cases h1 : size < 60 <;> by_cases h2 : blocks512 - ea = 0 <;> simp [h1, h2] <;> omega

theorem symlink_rules_agree (mode size blocks512 ea data : Nat) (hacc : blocks512 = ea + data)
    (hw : data = 0 ↔ size < 60) : goFast mode size = specFast mode blocks512 ea := by
  unfold goFast specFast
  by_cases hm : mode / 4096 = 10
  · simp only [hm, beq_self_eq_true, Bool.true_and]
    by_cases h1 : size < 60
    · have : data = 0 := hw.2 h1
      simp [h1, hacc, this]
    · have : data ≠ 0 := fun h => h1 (hw.1 h)
      simp [h1, hacc]; omega
  · have : (mode / 4096 == 10) = false := by simp [hm]
    simp [this]


end Diskfs.Ext4.InodeDec
