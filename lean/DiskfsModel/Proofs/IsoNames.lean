import DiskfsModel.Model.Iso.Names
namespace Diskfs.Iso

theorem padDigits_length (d n : Nat) : (padDigits d n).length = d := by
  induction d generalizing n with
  | zero => rfl
  | succ d ih => simp [padDigits, ih]

theorem padDigits_ok (d n : Nat) : ∀ c ∈ padDigits d n, okChar c = true := by
  induction d generalizing n with
  | zero => intro c h; simp [padDigits] at h
  | succ d ih =>
    intro c h
    simp only [padDigits, List.mem_append, List.mem_singleton] at h
    rcases h with h | h
    · exact ih _ c h
    · subst h
      have : n % 10 < 10 := Nat.mod_lt _ (by decide)
      simp [okChar]
      omega

theorem cleanChar_ok (c : Nat) : okChar (cleanChar c) = true := by
  unfold cleanChar
  split
  · assumption
  · decide

theorem clean_ok (s : Str) : ∀ c ∈ clean s, okChar c = true := by
  intro c h
  simp only [clean, List.mem_map] at h
  obtain ⟨a, _, rfl⟩ := h
  exact cleanChar_ok a

theorem shortExt_valid (name : Str) : Valid83 (shortExt name) := by
  refine ⟨?_, ?_, ?_, ?_⟩
  · simp [shortExt]; omega
  · simp [shortExt]; omega
  · intro c h; exact clean_ok _ c (List.mem_of_mem_take h)
  · intro c h; exact clean_ok _ c (List.mem_of_mem_take h)

theorem entryName_valid (name : Str) (isDir : Bool) : Valid83 (entryName name isDir) := by
  have h := shortExt_valid name
  unfold entryName
  split
  · exact ⟨h.1, by simp, h.2.2.1, by simp⟩
  · exact h

theorem cand_valid (key : Nm) (d k : Nat) (hk : Valid83 key) (hd : d ≤ 8) : Valid83 (cand key.1 key.2 d k) := by
  refine ⟨?_, hk.2.1, ?_, hk.2.2.2⟩
  · simp [cand, padDigits_length]; omega
  · intro c h
    simp only [cand, List.mem_append] at h
    rcases h with h | h
    · exact hk.2.2.1 c (List.mem_of_mem_take h)
    · exact padDigits_ok d k c h

theorem findFree_spec (tbl : List Nm) (base ext : Str) (d fuel ch ch' : Nat) (c : Nm)
    (h : findFree tbl base ext d fuel ch = some (ch', c)) :
    c ∉ tbl ∧ ∃ k, c = cand base ext d k := by
  induction fuel generalizing ch with
  | zero => simp [findFree] at h
  | succ fuel ih =>
    simp only [findFree] at h
    split at h
    · split at h
      · exact ih _ h
      · rename_i hm
        simp only [Option.some.injEq, Prod.mk.injEq] at h
        obtain ⟨_, rfl⟩ := h
        exact ⟨hm, _, rfl⟩
    · simp at h

/-- what one pass guarantees, whether or not it ran out of numbers -/
theorem round_frame (base ext : Str) (d : Nat) (ms : List Nat) (ch : Nat) (s : St) :
    (∀ x ∈ s.tbl, x ∈ (round base ext d ms ch s).2.tbl) ∧
    (∀ j, j ∉ ms → (round base ext d ms ch s).2.cur j = s.cur j) ∧
    (∀ j, (round base ext d ms ch s).2.cur j = s.cur j ∨ ∃ k, (round base ext d ms ch s).2.cur j = cand base ext d k) := by
  induction ms generalizing ch s with
  | nil => simp [round]
  | cons i rest ih =>
    simp only [round]
    split
    · simp
    · rename_i ch' c hf
      have ⟨_, k, hk⟩ := findFree_spec _ _ _ _ _ _ _ _ hf
      have := ih ch' { tbl := c :: s.tbl, cur := upd s.cur i c }
      refine ⟨fun x hx => this.1 x (List.mem_cons_of_mem _ hx), ?_, ?_⟩
      · intro j hj
        simp only [List.mem_cons, not_or] at hj
        rw [this.2.1 j hj.2]
        simp [upd, hj.1]
      · intro j
        rcases this.2.2 j with h | h
        · by_cases hji : j = i
          · right; exact ⟨k, by rw [h]; simp [upd, hji, hk]⟩
          · left; rw [h]; simp [upd, hji]
        · right; exact h

/-- a pass that succeeded gave every member a name that was not in the table and differs from the
    names of the other members -/
theorem round_ok (base ext : Str) (d : Nat) (ms : List Nat) (hnd : ms.Nodup) (ch : Nat) (s s' : St)
    (h : round base ext d ms ch s = (true, s')) :
    (∀ i ∈ ms, s'.cur i ∉ s.tbl) ∧
    (∀ i ∈ ms, ∀ j ∈ ms, i ≠ j → s'.cur i ≠ s'.cur j) ∧
    (∀ i ∈ ms, ∃ k, s'.cur i = cand base ext d k) := by
  induction ms generalizing ch s with
  | nil => simp
  | cons i rest ih =>
    simp only [round] at h
    split at h
    · simp at h
    · rename_i ch' c hf
      have ⟨hc, k, hk⟩ := findFree_spec _ _ _ _ _ _ _ _ hf
      have hnd' := List.nodup_cons.1 hnd
      have IH := ih hnd'.2 ch' { tbl := c :: s.tbl, cur := upd s.cur i c } h
      have fr := round_frame base ext d rest ch' { tbl := c :: s.tbl, cur := upd s.cur i c }
      rw [h] at fr
      have hi : s'.cur i = c := by
        rw [fr.2.1 i hnd'.1]; simp [upd]
      refine ⟨?_, ?_, ?_⟩
      · intro j hj
        rcases List.mem_cons.1 hj with rfl | hj
        · rw [hi]; exact hc
        · intro hm
          exact IH.1 j hj (List.mem_cons_of_mem _ hm)
      · intro a ha b hb hab
        rcases List.mem_cons.1 ha with ha | ha
        · rcases List.mem_cons.1 hb with hb | hb
          · exact absurd (ha.trans hb.symm) hab
          · rw [ha, hi]; intro e; exact IH.1 b hb (by rw [← e]; exact List.mem_cons_self ..)
        · rcases List.mem_cons.1 hb with hb | hb
          · rw [hb, hi]; intro e; exact IH.1 a ha (by rw [e]; exact List.mem_cons_self ..)
          · exact IH.2.1 a ha b hb hab
      · intro j hj
        rcases List.mem_cons.1 hj with rfl | hj
        · exact ⟨k, by rw [hi, hk]⟩
        · exact IH.2.2 j hj

theorem rounds_ok (base ext : Str) (ms : List Nat) (hnd : ms.Nodup) (fuel d : Nat) (s s' : St)
    (h : rounds base ext ms fuel d s = some s') :
    (∀ j, j ∉ ms → s'.cur j = s.cur j) ∧
    (∀ i ∈ ms, s'.cur i ∉ s.tbl) ∧
    (∀ i ∈ ms, ∀ j ∈ ms, i ≠ j → s'.cur i ≠ s'.cur j) ∧
    (∀ i ∈ ms, ∃ d' k, d' < 8 ∧ s'.cur i = cand base ext d' k) := by
  induction fuel generalizing d s with
  | zero => simp [rounds] at h
  | succ f ih =>
    simp only [rounds] at h
    split at h
    · rename_i hd
      split at h
      · rename_i s1 hr
        simp only [Option.some.injEq] at h
        subst h
        have ok := round_ok base ext d ms hnd 0 s s1 hr
        have fr := round_frame base ext d ms 0 s
        rw [hr] at fr
        exact ⟨fr.2.1, ok.1, ok.2.1, fun i hi => let ⟨k, hk⟩ := ok.2.2 i hi; ⟨d, k, hd, hk⟩⟩
      · rename_i s1 hr
        have fr := round_frame base ext d ms 0 s
        rw [hr] at fr
        have IH := ih (d + 1) s1 h
        refine ⟨fun j hj => by rw [IH.1 j hj, fr.2.1 j hj], ?_, IH.2.2.1, IH.2.2.2⟩
        intro i hi hm
        exact IH.2.1 i hi (fr.1 _ hm)
    · simp at h

theorem members_nodup (n : Nat) (orig : Nat → Nm) (key : Nm) : (members n orig key).Nodup :=
  (List.nodup_range).sublist (List.filter_sublist)

theorem mem_members (n : Nat) (orig : Nat → Nm) (key : Nm) (i : Nat) :
    i ∈ members n orig key ↔ i < n ∧ orig i = key := by
  simp [members]

theorem two_le_length_of_mem {α} (l : List α) (a b : α) (ha : a ∈ l) (hb : b ∈ l) (hab : a ≠ b) : 2 ≤ l.length := by
  match l, ha, hb with
  | [x], ha, hb =>
    simp only [List.mem_singleton] at ha hb
    exact absurd (ha.trans hb.symm) hab
  | _ :: _ :: _, _, _ => simp

/-- entry `i` will not be renamed any more: its group has been processed or it is alone in it -/
def Settled (n : Nat) (orig : Nat → Nm) (P : List Nm) (i : Nat) : Prop :=
  orig i ∈ P ∨ (members n orig (orig i)).length ≤ 1

structure Inv (n : Nat) (orig cur : Nat → Nm) (P : List Nm) : Prop where
  unch : ∀ i, i < n → orig i ∉ P → cur i = orig i
  uniq : ∀ i j, i < n → j < n → i ≠ j → Settled n orig P i → cur i ≠ cur j
  valid : ∀ i, i < n → Valid83 (cur i)

theorem inv_init (n : Nat) (orig : Nat → Nm) (hv : ∀ i, i < n → Valid83 (orig i)) : Inv n orig orig [] := by
  refine ⟨fun _ _ _ => rfl, ?_, hv⟩
  intro i j hi hj hij hs e
  rcases hs with hs | hs
  · simp at hs
  · have := two_le_length_of_mem _ i j ((mem_members ..).2 ⟨hi, rfl⟩) ((mem_members ..).2 ⟨hj, e.symm⟩) hij
    omega

theorem inv_step (n : Nat) (orig cur cur' : Nat → Nm) (P : List Nm) (key : Nm)
    (hv : ∀ i, i < n → Valid83 (orig i)) (inv : Inv n orig cur P)
    (h : resolveGroup n orig cur key = some cur') : Inv n orig cur' (key :: P) := by
  unfold resolveGroup at h
  simp only at h
  split at h
  · rename_i hlen
    simp only [Option.some.injEq] at h
    subst h
    refine ⟨fun i hi hn => inv.unch i hi (fun hp => hn (List.mem_cons_of_mem _ hp)), ?_, inv.valid⟩
    intro i j hi hj hij hs
    apply inv.uniq i j hi hj hij
    rcases hs with hs | hs
    · rcases List.mem_cons.1 hs with hs | hs
      · right; rw [hs]; exact hlen
      · left; exact hs
    · right; exact hs
  · rename_i hlen
    split at h
    · simp at h
    · rename_i s hr
      simp only [Option.some.injEq] at h
      subst h
      have R := rounds_ok key.1 key.2 _ (members_nodup n orig key) _ _ _ _ hr
      simp only at R
      have htbl : ∀ j, j < n → cur j ∈ (List.range n).map cur :=
        fun j hj => List.mem_map.2 ⟨j, List.mem_range.2 hj, rfl⟩
      refine ⟨?_, ?_, ?_⟩
      · intro i hi hn
        have hk : orig i ≠ key := fun e => hn (by rw [e]; exact List.mem_cons_self ..)
        have : i ∉ members n orig key := fun hm => hk ((mem_members ..).1 hm).2
        rw [R.1 i this]
        exact inv.unch i hi (fun hp => hn (List.mem_cons_of_mem _ hp))
      · intro i j hi hj hij hs
        by_cases mi : i ∈ members n orig key
        · by_cases mj : j ∈ members n orig key
          · exact R.2.2.1 i mi j mj hij
          · intro e
            apply R.2.1 i mi
            rw [e, R.1 j mj]
            exact htbl j hj
        · by_cases mj : j ∈ members n orig key
          · intro e
            apply R.2.1 j mj
            rw [← e, R.1 i mi]
            exact htbl i hi
          · rw [R.1 i mi, R.1 j mj]
            apply inv.uniq i j hi hj hij
            rcases hs with hs | hs
            · rcases List.mem_cons.1 hs with hs | hs
              · exact absurd ((mem_members ..).2 ⟨hi, hs⟩) mi
              · left; exact hs
            · right; exact hs
      · intro i hi
        by_cases mi : i ∈ members n orig key
        · obtain ⟨d', k, hd, hc⟩ := R.2.2.2 i mi
          rw [hc]
          have hkey : Valid83 key := by
            have := (mem_members ..).1 mi
            rw [← this.2]; exact hv i this.1
          exact cand_valid key d' k hkey (by omega)
        · rw [R.1 i mi]; exact inv.valid i hi

theorem inv_all (n : Nat) (orig : Nat → Nm) (hv : ∀ i, i < n → Valid83 (orig i))
    (order : List Nm) (cur fin : Nat → Nm) (P : List Nm) (inv : Inv n orig cur P)
    (h : resolveAll n orig order cur = some fin) : Inv n orig fin (order.reverse ++ P) := by
  induction order generalizing cur P with
  | nil => simp only [resolveAll, Option.some.injEq] at h; subst h; simpa using inv
  | cons key rest ih =>
    simp only [resolveAll] at h
    split at h
    · simp at h
    · rename_i cur' hg
      have := ih cur' (key :: P) (inv_step n orig cur cur' P key hv inv hg) h
      simpa [List.reverse_cons, List.append_assoc] using this

end Diskfs.Iso
