/-
  The bytes `Table.Write` leaves on ANY prior device satisfy the independent validity predicate
  `GptSpec.GptValid` / `GptSpec.PmbrValid` (Spec/GptValid.lean).  Helper for Props/C02.
  Route: the exact write list (Proofs/GptFlat) → what each of the five regions holds → the header
  sectors are accepted by readGPTHeader (header_roundtrip) → whatever readGPTHeader accepts meets the
  header rules of the specification (readHeader_ok_spec) → geometry arithmetic.
  The CRC function is a parameter throughout; it is never evaluated.
-/
import DiskfsModel.Proofs.GptFlat
import DiskfsModel.Spec.GptValid
set_option linter.unusedSimpArgs false
set_option linter.unusedVariables false
namespace Diskfs.Gpt
open Diskfs.GptSpec

/-! ### what the five regions hold after the writes -/

theorem five_regions (d : Dev) (lss oBA oBH : Nat) (arr ph bh pm : Bytes) (pmOpt pmLast : Bool)
    (h512 : 512 ≤ lss) (harr : arr.length = 16384) (hph : ph.length = lss) (hbh : bh.length = lss)
    (hpm : pm.length = 66) (h1 : 2 * lss + 16384 ≤ oBA) (h2 : oBA + 16384 = oBH) :
    ∀ ws, ws = (if pmLast then [Wr.mk oBA arr, ⟨oBH, bh⟩, ⟨2 * lss, arr⟩, ⟨lss, ph⟩] ++ (if pmOpt then [Wr.mk 446 pm] else [])
                else (if pmOpt then [Wr.mk 446 pm] else []) ++ [Wr.mk oBA arr, ⟨oBH, bh⟩, ⟨2 * lss, arr⟩, ⟨lss, ph⟩]) →
      readAt (applyWrs d ws) lss lss = ph ∧ readAt (applyWrs d ws) (2 * lss) 16384 = arr ∧
      readAt (applyWrs d ws) oBH lss = bh ∧ readAt (applyWrs d ws) oBA 16384 = arr ∧
      (pmOpt = true → readAt (applyWrs d ws) 446 66 = pm) := by
  intro ws hws
  have hp : ws.Pairwise Disj := by
    subst hws
    cases pmOpt <;> cases pmLast <;>
      simp only [if_true, Bool.false_eq_true, if_false, List.append_nil, List.nil_append, List.cons_append,
        List.pairwise_cons, List.mem_cons, List.mem_singleton, List.not_mem_nil, Disj, forall_eq_or_imp, forall_eq,
        List.Pairwise.nil, and_true, or_false, harr, hph, hbh, hpm, false_imp_iff, implies_true] <;>
      omega
  have m1 : (⟨lss, ph⟩ : Wr) ∈ ws := by subst hws; cases pmOpt <;> cases pmLast <;> simp
  have m2 : (⟨2 * lss, arr⟩ : Wr) ∈ ws := by subst hws; cases pmOpt <;> cases pmLast <;> simp
  have m3 : (⟨oBH, bh⟩ : Wr) ∈ ws := by subst hws; cases pmOpt <;> cases pmLast <;> simp
  have m4 : (⟨oBA, arr⟩ : Wr) ∈ ws := by subst hws; cases pmOpt <;> cases pmLast <;> simp
  have r1 := readAt_applyWrs_mem d ws hp _ m1
  have r2 := readAt_applyWrs_mem d ws hp _ m2
  have r3 := readAt_applyWrs_mem d ws hp _ m3
  have r4 := readAt_applyWrs_mem d ws hp _ m4
  simp only [hph, harr, hbh] at r1 r2 r3 r4
  refine ⟨r1, r2, r3, r4, ?_⟩
  intro ho
  have m5 : (⟨446, pm⟩ : Wr) ∈ ws := by subst hws; subst ho; cases pmLast <;> simp
  have r5 := readAt_applyWrs_mem d ws hp _ m5
  simpa only [hpm] using r5

/-- the device after `Write`, region by region (any prior content `d`) -/
theorem write_regions (c : Cfg) (crc : Bytes → Nat) (d : Dev) (t0 : Table) (size : Nat) (ws : List Wr) (t : Table)
    (hf : Fresh t0) (hl : t0.lss = 512 ∨ t0.lss = 4096) (hg : t0.guid.length = 16) (hsz : size < two63)
    (hmin : (2 * (16384 / t0.lss) + 3) * t0.lss ≤ size)
    (hw : write c crc t0 size = .ok (ws, t)) :
    ∃ arr ps, arrEnc c (initTable t0 size) = .ok (arr, ps) ∧ arr.length = 16384 ∧
      t = { initTable t0 size with parts := ps } ∧
      readAt (applyWrs d ws) t0.lss t0.lss = hdrEnc crc (initTable t0 size) true arr ∧
      readAt (applyWrs d ws) (2 * t0.lss) 16384 = arr ∧
      readAt (applyWrs d ws) ((size / t0.lss - 1) * t0.lss) t0.lss = hdrEnc crc (initTable t0 size) false arr ∧
      readAt (applyWrs d ws) ((size / t0.lss - 1 - 16384 / t0.lss) * t0.lss) 16384 = arr ∧
      (t0.pmbr = true → readAt (applyWrs d ws) 446 66 = pmbrEnc c (initTable t0 size)) := by
  obtain ⟨arr, ps, harr, hlen, ht, hws⟩ := write_fresh_exact c crc t0 size ws t hf hl hsz hmin hw
  obtain ⟨il, iph, iac, ies, igu, ipa, ipm, ish, ifd, ild, ips, ia1, ia2⟩ := initTable_geo t0 size hf hl hsz hmin
  have hl92 : 92 ≤ (initTable t0 size).lss := by rw [il]; rcases hl with h | h <;> omega
  have hgi : (initTable t0 size).guid.length = 16 := by rw [igu]; exact hg
  have h512 : 512 ≤ t0.lss := by rcases hl with h | h <;> omega
  have hlpos : 0 < t0.lss := by omega
  have hq : 2 * (16384 / t0.lss) + 3 ≤ size / t0.lss := (Nat.le_div_iff_mul_le hlpos).2 hmin
  have hp : 16384 / t0.lss * t0.lss = 16384 := by rcases hl with h | h <;> simp [h]
  have e1 : 2 * t0.lss + 16384 ≤ (size / t0.lss - 1 - 16384 / t0.lss) * t0.lss := by
    have : (2 + 16384 / t0.lss) * t0.lss ≤ (size / t0.lss - 1 - 16384 / t0.lss) * t0.lss :=
      Nat.mul_le_mul_right _ (by omega)
    rw [Nat.add_mul, hp] at this
    exact this
  have e2 : (size / t0.lss - 1 - 16384 / t0.lss) * t0.lss + 16384 = (size / t0.lss - 1) * t0.lss := by
    have : size / t0.lss - 1 = (size / t0.lss - 1 - 16384 / t0.lss) + 16384 / t0.lss := by omega
    rw [this, Nat.add_mul, hp]
    congr 2
    omega
  have := five_regions d t0.lss _ _ arr (hdrEnc crc (initTable t0 size) true arr) (hdrEnc crc (initTable t0 size) false arr)
    (pmbrEnc c (initTable t0 size)) (initTable t0 size).pmbr c.pmbrLast h512 hlen
    (by rw [hdrEnc_length crc _ true arr hgi hl92, il]) (by rw [hdrEnc_length crc _ false arr hgi hl92, il])
    (by simp [pmbrEnc]) e1 e2 ws (by rw [hws]; simp only [coreWrs, pmWrs])
  obtain ⟨r1, r2, r3, r4, r5⟩ := this
  exact ⟨arr, ps, harr, hlen, ht, r1, r2, r3, r4, fun h => r5 (by rw [ipm]; exact h)⟩

/-! ### whatever readGPTHeader accepts meets the header rules of the specification -/

theorem efiSig_eq_signature : efiSig = signature := rfl

theorem crcInput_eq_put (s : Bytes) (h : 92 ≤ s.length) :
    slice (put s 16 (zeros 4)) 0 92 = crcInput s 92 := by
  simp only [slice, put, crcInput, List.drop_zero, Nat.sub_zero, zeros_length]
  have hz : (zeros 4).take (s.length - 16) = zeros 4 := List.take_of_length_le (by simp; omega)
  rw [hz]
  have l1 : (s.take 16).length = 16 := by simp; omega
  rw [List.append_assoc, List.take_append, l1, List.take_append]
  simp only [zeros_length]
  have a1 : (s.take 16).take 92 = s.take 16 := List.take_of_length_le (by omega)
  have a2 : (zeros 4).take (92 - 16) = zeros 4 := List.take_of_length_le (by simp)
  rw [a1, a2, List.append_assoc]

theorem slice16_length (s : Bytes) (h : 92 ≤ s.length) : (slice s 56 72).length = 16 := by
  rw [slice_length s 56 72 (by omega) (by omega)]

/-- soundness of the library's header check against the specification: a sector readGPTHeader accepts
    has the signature, revision 1.0, HeaderSize 92, the CRC of its first 92 bytes (CRC field zeroed),
    a zero reserved field, and carries exactly the field values the reader returns -/
theorem readHeader_ok_spec (crc : Bytes → Nat) (s : Bytes) (h : Hdr) (hlen : 92 ≤ s.length)
    (hr : readHeader crc s = .ok h) :
    slice s 0 8 = signature ∧ (rawHdr s).revision = 0x00010000 ∧ (rawHdr s).headerSize = 92 ∧
    (rawHdr s).headerCrc = crc (crcInput s 92) ∧ (rawHdr s).reserved = 0 ∧
    (rawHdr s).myLBA = h.myLBA ∧ (rawHdr s).alternateLBA = h.altLBA ∧ (rawHdr s).firstUsable = h.firstData ∧
    (rawHdr s).lastUsable = h.lastData ∧ (rawHdr s).diskGuid = guidSwap h.guid ∧ (rawHdr s).entryLBA = h.arrLBA ∧
    (rawHdr s).numEntries = h.count ∧ (rawHdr s).entrySize = h.entSize ∧ (rawHdr s).arrayCrc = h.arrCrc := by
  have hp : (put s 16 (zeros 4)).length = s.length := put_length _ _ _ (by simp; omega)
  unfold readHeader at hr
  rw [sl_ok _ 0 8 _ (by omega) (by omega), sl_ok _ 8 12 _ (by omega) (by omega), sl_ok _ 12 16 _ (by omega) (by omega),
    sl_ok _ 16 20 _ (by omega) (by omega), sl_ok _ 20 24 _ (by omega) (by omega), sl_ok _ 24 32 _ (by omega) (by omega),
    sl_ok _ 32 40 _ (by omega) (by omega), sl_ok _ 40 48 _ (by omega) (by omega), sl_ok _ 48 56 _ (by omega) (by omega),
    sl_ok _ 56 72 _ (by omega) (by omega), sl_ok _ 72 80 _ (by omega) (by omega), sl_ok _ 80 84 _ (by omega) (by omega),
    sl_ok _ 84 88 _ (by omega) (by omega), sl_ok _ 88 92 _ (by omega) (by omega)] at hr
  rw [sl_ok _ 0 92 _ (by omega) (by omega)] at hr
  simp only [Res.ok_bind] at hr
  split at hr
  · cases hr
  · rename_i hsig
    split at hr
    · cases hr
    · rename_i hrev
      split at hr
      · cases hr
      · rename_i hhs
        split at hr
        · cases hr
        · rename_i hz
          split at hr
          · cases hr
          · rename_i hcrc
            simp only [Res.pure_eq, Res.ok.injEq] at hr
            simp only [ne_eq, Decidable.not_not] at hsig hrev hhs hz hcrc
            subst hr
            simp only [rawHdr, fld, Nat.reduceAdd]
            refine ⟨by rw [hsig]; rfl, by rw [hrev]; rfl, by rw [hhs]; rfl, ?_, by rw [hz]; rfl,
              by trivial, by trivial, by trivial, by trivial, ?_, by trivial, by trivial, by trivial, by trivial⟩
            · rw [hcrc, crcInput_eq_put s hlen]
            · rw [guidSwap_invol _ (slice16_length s hlen)]

/-! ### the header sectors `Write` emits -/

theorem allZeroB_zeros (n : Nat) : allZeroB (zeros n) = true := by
  simp [allZeroB, zeros]

/-- a header sector as `toGPTBytes` emits it is a valid header in the sense of the specification -/
theorem hdrEnc_valid (crc : Bytes → Nat) (hcrc : ∀ b, crc b < two32) (t : Table) (primary : Bool) (arr : Bytes)
    (hg : t.guid.length = 16) (hl : 92 ≤ t.lss) (hph : t.primaryHeader < two64) (hsh : t.secondaryHeader < two64)
    (hfd : t.firstData < two64) (hld : t.lastData < two64) (has : arraySector t primary < two64)
    (hac : t.arrCount < two32) :
    HdrValid crc (hdrEnc crc t primary arr) t.lss (if primary then t.primaryHeader else t.secondaryHeader)
      (if primary then t.secondaryHeader else t.primaryHeader) ∧
    rawHdr (hdrEnc crc t primary arr) =
      { revision := 0x00010000, headerSize := 92,
        headerCrc := (rawHdr (hdrEnc crc t primary arr)).headerCrc, reserved := 0,
        myLBA := if primary then t.primaryHeader else t.secondaryHeader,
        alternateLBA := if primary then t.secondaryHeader else t.primaryHeader,
        firstUsable := t.firstData, lastUsable := t.lastData, diskGuid := guidSwap t.guid,
        entryLBA := arraySector t primary, numEntries := t.arrCount, entrySize := 128, arrayCrc := crc arr } := by
  have hlen : (hdrEnc crc t primary arr).length = t.lss := hdrEnc_length crc t primary arr hg hl
  have hmy : (if primary then t.primaryHeader else t.secondaryHeader) < two64 := by cases primary <;> simp [hph, hsh]
  have halt : (if primary then t.secondaryHeader else t.primaryHeader) < two64 := by cases primary <;> simp [hph, hsh]
  have hrd := readHeader_hdrBody crc hcrc (if primary then t.primaryHeader else t.secondaryHeader)
    (if primary then t.secondaryHeader else t.primaryHeader) t.firstData t.lastData t.guid hg
    (arraySector t primary) t.arrCount 0x80 (crc arr) (zeros (t.lss - 92)) hmy halt hfd hld has hac (by decide) (hcrc arr)
  rw [← C02aux_hdrEnc_shape] at hrd
  obtain ⟨s1, s2, s3, s4, s5, s6, s7, s8, s9, s10, s11, s12, s13, s14⟩ :=
    readHeader_ok_spec crc _ _ (by rw [hlen]; exact hl) hrd
  simp only at s6 s7 s8 s9 s10 s11 s12 s13 s14
  have hz : allZeroB (slice (hdrEnc crc t primary arr) 92 t.lss) = true := by
    rw [C02aux_hdrEnc_shape]
    rw [slice_append_skip _ _ _ _ (by rw [hdrBody_length _ (by simp) _ _ _ _ _ hg]; exact Nat.le_refl _)]
    rw [hdrBody_length _ (by simp) _ _ _ _ _ hg]
    simp only [Nat.sub_self]
    rw [slice_all _ _ (by simp)]
    exact allZeroB_zeros _
  refine ⟨⟨s1, s2, by rw [s3]; exact Nat.le_refl _, by rw [s3]; exact hl, by rw [s3]; exact s4, s5, s6, s7, by rw [s3]; exact hz⟩, ?_⟩
  cases hraw : rawHdr (hdrEnc crc t primary arr)
  rw [hraw] at s2 s3 s5 s6 s7 s8 s9 s10 s11 s12 s13 s14
  simp only at s2 s3 s5 s6 s7 s8 s9 s10 s11 s12 s13 s14
  simp only [RawHdr.mk.injEq]
  exact ⟨s2, s3, trivial, s5, s6, s7, s8, s9, s10, s11, s12, s13, s14⟩

/-! ### the whole device after `Write` -/

/-- both GPT copies `Write` leaves on ANY prior device are valid for an independent parser -/
theorem written_gpt_valid (c : Cfg) (crc : Bytes → Nat) (hcrc : ∀ b, crc b < two32) (d : Dev)
    (t0 : Table) (size : Nat) (ws : List Wr) (t : Table)
    (hf : Fresh t0) (hl : t0.lss = 512 ∨ t0.lss = 4096) (hg : t0.guid.length = 16) (hsz : size < two63)
    (hmin : (2 * (16384 / t0.lss) + 3) * t0.lss ≤ size)
    (hw : write c crc t0 size = .ok (ws, t)) :
    GptValid crc (applyWrs d ws) size t0.lss := by
  obtain ⟨arr, ps, harr, hlen, ht, r1, r2, r3, r4, r5⟩ := write_regions c crc d t0 size ws t hf hl hg hsz hmin hw
  obtain ⟨il, iph, iac, ies, igu, ipa, ipm, ish, ifd, ild, ips, ia1, ia2⟩ := initTable_geo t0 size hf hl hsz hmin
  have hlpos : 0 < t0.lss := by rcases hl with h | h <;> omega
  have hq : 2 * (16384 / t0.lss) + 3 ≤ size / t0.lss := (Nat.le_div_iff_mul_le hlpos).2 hmin
  have hdl : size / t0.lss ≤ size := Nat.div_le_self _ _
  have hq64 : size / t0.lss < two64 := by simp only [two63, two64] at *; omega
  have hl92 : 92 ≤ (initTable t0 size).lss := by rw [il]; rcases hl with h | h <;> omega
  have hgi : (initTable t0 size).guid.length = 16 := by rw [igu]; exact hg
  have b1 : (initTable t0 size).primaryHeader < two64 := by rw [iph]; decide
  have b2 : (initTable t0 size).secondaryHeader < two64 := by rw [ish]; omega
  have b3 : (initTable t0 size).firstData < two64 := by
    rw [ifd]; have : 16384 / t0.lss ≤ 16384 := Nat.div_le_self _ _
    simp only [two64]; omega
  have b4 : (initTable t0 size).lastData < two64 := by rw [ild]; omega
  have b5 : arraySector (initTable t0 size) true < two64 := by rw [ia1]; decide
  have b6 : arraySector (initTable t0 size) false < two64 := by rw [ia2]; omega
  have b7 : (initTable t0 size).arrCount < two32 := by rw [iac]; decide
  obtain ⟨vP, hP⟩ := hdrEnc_valid crc hcrc (initTable t0 size) true arr hgi hl92 b1 b2 b3 b4 b5 b7
  obtain ⟨vB, hB⟩ := hdrEnc_valid crc hcrc (initTable t0 size) false arr hgi hl92 b1 b2 b3 b4 b6 b7
  simp only [if_true, Bool.false_eq_true, if_false, il, iph, ish, ifd, ild, ia1, ia2, iac] at vP vB hP hB
  unfold GptValid
  simp only [priSector, bakSector, lastLBA]
  rw [r1, r3, hP, hB]
  simp only
  have hnn : (128 : Nat) * 128 = 16384 := by decide
  rw [hnn, r2, r4]
  refine ⟨by omega, vP, vB, ⟨rfl, rfl, rfl, rfl, rfl, rfl, rfl, rfl⟩, by decide, by omega, ?_, ?_, by omega, by omega, ?_, rfl, rfl⟩
  · simp only [arrayBlocks]
    rcases hl with h | h <;> simp only [h] at * <;> omega
  · rcases hl with h | h <;> simp only [h] at * <;> omega
  · simp only [arrayBlocks]
    rcases hl with h | h <;> simp only [h] at * <;> omega

theorem dev_of_readAt (d : Dev) (off len : Nat) (b : Bytes) (h : readAt d off len = b) (k : Nat) (hk : k < len) :
    d (off + k) = b.getD k 0 := by
  subst h
  simp [readAt, List.getD_eq_getElem?_getD, hk]

theorem pmbrEnc_shape (c : Cfg) (t : Table) :
    (pmbrEnc c t).getD 0 0 = 0x00 ∧ (pmbrEnc c t).getD 4 0 = 0xee ∧ (pmbrEnc c t).getD 64 0 = 0x55 ∧
    (pmbrEnc c t).getD 65 0 = 0xaa ∧ slice (pmbrEnc c t) 8 12 = leEnc 4 1 ∧
    slice (pmbrEnc c t) 12 16 = leEnc 4 (pmbrSectors c t.secondaryHeader) ∧ slice (pmbrEnc c t) 16 64 = zeros 48 := by
  have e : pmbrEnc c t = [0x00, 0, 0, 0, 0xee, 0, 0, 0] ++ (leEnc 4 1 ++ (leEnc 4 (pmbrSectors c t.secondaryHeader) ++
      (zeros 48 ++ [0x55, 0xaa]))) := by simp [pmbrEnc]
  have l8 : ([0x00, 0, 0, 0, 0xee, 0, 0, 0] : Bytes).length = 8 := rfl
  refine ⟨rfl, rfl, rfl, rfl, ?_, ?_, ?_⟩
  · rw [e, slice_append_skip _ _ _ _ (by rw [l8]; omega), l8]
    exact slice_append_hit _ _ _ (by simp)
  · rw [e, slice_append_skip _ _ _ _ (by rw [l8]; omega), l8, slice_append_skip _ _ _ _ (by simp), leEnc_length]
    exact slice_append_hit _ _ _ (by simp)
  · rw [e, slice_append_skip _ _ _ _ (by rw [l8]; omega), l8, slice_append_skip _ _ _ _ (by simp), leEnc_length,
      slice_append_skip _ _ _ _ (by simp), leEnc_length]
    exact slice_append_hit _ _ _ (by simp)

/-- …and LBA 0 is a protective MBR covering the disk (with the size clamp of the repaired code) -/
theorem written_pmbr_valid (c : Cfg) (crc : Bytes → Nat) (d : Dev)
    (t0 : Table) (size : Nat) (ws : List Wr) (t : Table)
    (hf : Fresh t0) (hl : t0.lss = 512 ∨ t0.lss = 4096) (hg : t0.guid.length = 16) (hsz : size < two63)
    (hmin : (2 * (16384 / t0.lss) + 3) * t0.lss ≤ size)
    (hpm : t0.pmbr = true) (hclamp : c.pmbrClamp = true)
    (hw : write c crc t0 size = .ok (ws, t)) :
    PmbrValid (applyWrs d ws) size t0.lss := by
  obtain ⟨arr, ps, harr, hlen, ht, r1, r2, r3, r4, r5⟩ := write_regions c crc d t0 size ws t hf hl hg hsz hmin hw
  obtain ⟨il, iph, iac, ies, igu, ipa, ipm, ish, ifd, ild, ips, ia1, ia2⟩ := initTable_geo t0 size hf hl hsz hmin
  have r := r5 hpm
  obtain ⟨g0, g4, g64, g65, s8, s12, s16⟩ := pmbrEnc_shape c (initTable t0 size)
  generalize applyWrs d ws = dev at r
  have k0 := dev_of_readAt dev 446 66 _ r 0 (by omega)
  have k4 := dev_of_readAt dev 446 66 _ r 4 (by omega)
  have k64 := dev_of_readAt dev 446 66 _ r 64 (by omega)
  have k65 := dev_of_readAt dev 446 66 _ r 65 (by omega)
  rw [g0] at k0; rw [g4] at k4; rw [g64] at k64; rw [g65] at k65
  have f1 : slice (readAt dev 0 512) 454 458 = leEnc 4 1 := by
    rw [slice_readAt dev 0 512 454 458 (by omega) (by omega), ← s8, ← r,
      slice_readAt dev 446 66 8 12 (by omega) (by omega)]
  have f2 : slice (readAt dev 0 512) 458 462 = leEnc 4 (pmbrSectors c (initTable t0 size).secondaryHeader) := by
    rw [slice_readAt dev 0 512 458 462 (by omega) (by omega), ← s12, ← r,
      slice_readAt dev 446 66 12 16 (by omega) (by omega)]
  have f3 : slice (readAt dev 0 512) 462 510 = zeros 48 := by
    rw [slice_readAt dev 0 512 462 510 (by omega) (by omega), ← s16, ← r,
      slice_readAt dev 446 66 16 64 (by omega) (by omega)]
  refine ⟨k64, k65, k0, k4, ?_, ?_, ?_⟩
  · simp only [fld, Nat.reduceAdd]; rw [f1]; rfl
  · simp only [fld, Nat.reduceAdd]
    rw [f2, leDec_leEnc, ish]
    simp only [pmbrSectors, hclamp, Bool.true_and, two32, decide_eq_true_eq]
    split <;> omega
  · rw [f3]; exact allZeroB_zeros _

/-- readGPTHeader accepts the sector `toGPTBytes` emits for a table and returns its fields -/
theorem readHeader_hdrEnc (crc : Bytes → Nat) (hcrc : ∀ b, crc b < two32) (t : Table) (primary : Bool) (arr : Bytes)
    (hg : t.guid.length = 16) (hph : t.primaryHeader < two64) (hsh : t.secondaryHeader < two64)
    (hfd : t.firstData < two64) (hld : t.lastData < two64) (has : arraySector t primary < two64)
    (hac : t.arrCount < two32) :
    readHeader crc (hdrEnc crc t primary arr) = .ok
      { myLBA := if primary then t.primaryHeader else t.secondaryHeader,
        altLBA := if primary then t.secondaryHeader else t.primaryHeader,
        firstData := t.firstData, lastData := t.lastData, guid := t.guid, arrLBA := arraySector t primary,
        count := t.arrCount, entSize := 128, arrCrc := crc arr } := by
  have hmy : (if primary then t.primaryHeader else t.secondaryHeader) < two64 := by cases primary <;> simp [hph, hsh]
  have halt : (if primary then t.secondaryHeader else t.primaryHeader) < two64 := by cases primary <;> simp [hph, hsh]
  have hrd := readHeader_hdrBody crc hcrc (if primary then t.primaryHeader else t.secondaryHeader)
    (if primary then t.secondaryHeader else t.primaryHeader) t.firstData t.lastData t.guid hg
    (arraySector t primary) t.arrCount 0x80 (crc arr) (zeros (t.lss - 92)) hmy halt hfd hld has hac (by decide) (hcrc arr)
  rw [← C02aux_hdrEnc_shape] at hrd
  exact hrd

end Diskfs.Gpt
