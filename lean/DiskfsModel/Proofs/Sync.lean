/-
  C16 helper lemmas, part 1: the tree spec (names, wf, strip, lookup, flatAt) and Mut1.
-/
import DiskfsModel.Model.Sync
namespace Diskfs.Sync
open Forest

theorem contains_false_iff {l : List String} {a : String} : l.contains a = false ↔ a ∉ l := by
  rw [← Bool.not_eq_true, List.contains_iff_mem]

/-! ### lookup and names -/

theorem lookup_nil_path (f : Forest) : f.lookup [] = some .dir := by
  cases f <;> rfl

theorem lookup_none_of_not_mem (f : Forest) (n : String) (q : Path) (h : n ∉ f.names) :
    f.lookup (n :: q) = none := by
  induction f with
  | nil => rfl
  | file m d r ih =>
    simp only [names, List.mem_cons, not_or] at h
    simp only [lookup]
    rw [if_neg (fun e => h.1 e.symm)]
    exact ih h.2
  | dir m s r _ ih =>
    simp only [names, List.mem_cons, not_or] at h
    simp only [lookup]
    rw [if_neg (fun e => h.1 e.symm)]
    exact ih h.2
  | link m t r ih =>
    simp only [names, List.mem_cons, not_or] at h
    simp only [lookup]
    rw [if_neg (fun e => h.1 e.symm)]
    exact ih h.2
  | other m r ih =>
    simp only [names, List.mem_cons, not_or] at h
    simp only [lookup]
    rw [if_neg (fun e => h.1 e.symm)]
    exact ih h.2

theorem mem_names_of_lookup (f : Forest) (n : String) (q : Path) (it : Item)
    (h : f.lookup (n :: q) = some it) : n ∈ f.names := by
  apply Classical.byContradiction
  intro hn
  rw [lookup_none_of_not_mem f n q hn] at h
  cases h

/-! ### strip -/

theorem names_strip (ex : List String) (k : Bool) (f : Forest) (n : String)
    (h : n ∈ (f.strip ex k).names) : n ∈ f.names ∧ ex.contains n = false := by
  induction f with
  | nil => simp [strip, names] at h
  | file m d r ih =>
    simp only [strip] at h
    split at h
    · have := ih h; exact ⟨by simp [names, this.1], this.2⟩
    · rename_i hc
      simp only [names, List.mem_cons] at h ⊢
      rcases h with h | h
      · subst h; exact ⟨Or.inl rfl, Bool.eq_false_iff.mpr hc⟩
      · have := ih h; exact ⟨Or.inr this.1, this.2⟩
  | dir m s r _ ih =>
    simp only [strip] at h
    split at h
    · have := ih h; exact ⟨by simp [names, this.1], this.2⟩
    · rename_i hc
      simp only [names, List.mem_cons] at h ⊢
      rcases h with h | h
      · subst h; exact ⟨Or.inl rfl, Bool.eq_false_iff.mpr hc⟩
      · have := ih h; exact ⟨Or.inr this.1, this.2⟩
  | link m t r ih =>
    simp only [strip] at h
    split at h
    · have := ih h; exact ⟨by simp [names, this.1], this.2⟩
    · rename_i hc
      simp only [names, List.mem_cons] at h ⊢
      rcases h with h | h
      · subst h; exact ⟨Or.inl rfl, Bool.eq_false_iff.mpr hc⟩
      · have := ih h; exact ⟨Or.inr this.1, this.2⟩
  | other m r ih =>
    simp only [strip] at h
    split at h
    · have := ih h; exact ⟨by simp [names, this.1], this.2⟩
    · rename_i hc
      simp only [names, List.mem_cons] at h ⊢
      rcases h with h | h
      · subst h
        refine ⟨Or.inl rfl, ?_⟩
        simp only [Bool.or_eq_true, not_or, Bool.not_eq_true] at hc
        exact hc.1
      · have := ih h; exact ⟨Or.inr this.1, this.2⟩

theorem wf_strip (ex : List String) (k : Bool) (f : Forest) (h : f.wf = true) : (f.strip ex k).wf = true := by
  induction f with
  | nil => rfl
  | file m d r ih =>
    simp only [wf, Bool.and_eq_true, Bool.not_eq_true', contains_false_iff] at h
    simp only [strip]
    split
    · exact ih h.2
    · simp only [wf, Bool.and_eq_true, Bool.not_eq_true', contains_false_iff]
      exact ⟨fun hm => h.1 (names_strip ex k r m hm).1, ih h.2⟩
  | dir m s r ihs ih =>
    simp only [wf, Bool.and_eq_true, Bool.not_eq_true', contains_false_iff] at h
    simp only [strip]
    split
    · exact ih h.2
    · simp only [wf, Bool.and_eq_true, Bool.not_eq_true', contains_false_iff]
      exact ⟨⟨fun hm => h.1.1 (names_strip ex k r m hm).1, ihs h.1.2⟩, ih h.2⟩
  | link m t r ih =>
    simp only [wf, Bool.and_eq_true, Bool.not_eq_true', contains_false_iff] at h
    simp only [strip]
    split
    · exact ih h.2
    · simp only [wf, Bool.and_eq_true, Bool.not_eq_true', contains_false_iff]
      exact ⟨fun hm => h.1 (names_strip ex k r m hm).1, ih h.2⟩
  | other m r ih =>
    simp only [wf, Bool.and_eq_true, Bool.not_eq_true', contains_false_iff] at h
    simp only [strip]
    split
    · exact ih h.2
    · simp only [wf, Bool.and_eq_true, Bool.not_eq_true', contains_false_iff]
      exact ⟨fun hm => h.1 (names_strip ex k r m hm).1, ih h.2⟩

/-- below a clean path (no excluded component) stripping changes nothing -/
theorem lookup_strip_of_clean (ex : List String) (f : Forest) (p : Path)
    (hp : ∀ c ∈ p, ex.contains c = false) : (f.strip ex true).lookup p = f.lookup p := by
  induction f generalizing p with
  | nil => rfl
  | file n d r ih =>
    cases p with
    | nil => simp [lookup_nil_path]
    | cons c ps =>
      have hc : ex.contains c = false := hp c (List.mem_cons_self ..)
      simp only [strip]
      split
      · rename_i hn
        have hne : ¬ n = c := fun e => by rw [e, hc] at hn; cases hn
        simp only [lookup, if_neg hne]
        exact ih _ hp
      · simp only [lookup]
        split
        · rfl
        · exact ih _ hp
  | dir n s r ihs ih =>
    cases p with
    | nil => simp [lookup_nil_path]
    | cons c ps =>
      have hc : ex.contains c = false := hp c (List.mem_cons_self ..)
      simp only [strip]
      split
      · rename_i hn
        have hne : ¬ n = c := fun e => by rw [e, hc] at hn; cases hn
        simp only [lookup, if_neg hne]
        exact ih _ hp
      · simp only [lookup]
        split
        · exact ihs _ (fun c' hc' => hp c' (List.mem_cons_of_mem _ hc'))
        · exact ih _ hp
  | link n t r ih =>
    cases p with
    | nil => simp [lookup_nil_path]
    | cons c ps =>
      have hc : ex.contains c = false := hp c (List.mem_cons_self ..)
      simp only [strip]
      split
      · rename_i hn
        have hne : ¬ n = c := fun e => by rw [e, hc] at hn; cases hn
        simp only [lookup, if_neg hne]
        exact ih _ hp
      · simp only [lookup]
        split
        · rfl
        · exact ih _ hp
  | other n r ih =>
    cases p with
    | nil => simp [lookup_nil_path]
    | cons c ps =>
      have hc : ex.contains c = false := hp c (List.mem_cons_self ..)
      simp only [strip, Bool.not_true, Bool.or_false]
      split
      · rename_i hn
        have hne : ¬ n = c := fun e => by rw [e, hc] at hn; cases hn
        simp only [lookup, if_neg hne]
        exact ih _ hp
      · simp only [lookup]
        split
        · rfl
        · exact ih _ hp

/-- whatever a stripped tree still holds lies on a clean path -/
theorem clean_of_lookup_strip (ex : List String) (k : Bool) (f : Forest) (p : Path) (it : Item)
    (hne : p ≠ []) (h : (f.strip ex k).lookup p = some it) : ∀ c ∈ p, ex.contains c = false := by
  induction f generalizing p it with
  | nil => cases p with
    | nil => exact absurd rfl hne
    | cons c ps => simp [strip, lookup] at h
  | file n d r ih =>
    cases p with
    | nil => exact absurd rfl hne
    | cons c ps =>
      simp only [strip] at h
      split at h
      · exact ih _ _ hne h
      · rename_i hn
        simp only [lookup] at h
        split at h
        · rename_i e
          split at h
          · rename_i e2; subst e; subst e2
            intro c' hc'; simp at hc'; subst hc'; exact Bool.eq_false_iff.mpr hn
          · cases h
        · exact ih _ _ hne h
  | dir n s r ihs ih =>
    cases p with
    | nil => exact absurd rfl hne
    | cons c ps =>
      simp only [strip] at h
      split at h
      · exact ih _ _ hne h
      · rename_i hn
        simp only [lookup] at h
        split at h
        · rename_i e
          subst e
          intro c' hc'
          simp only [List.mem_cons] at hc'
          rcases hc' with hc' | hc'
          · subst hc'; exact Bool.eq_false_iff.mpr hn
          · cases ps with
            | nil => cases hc'
            | cons c2 ps2 => exact ihs _ _ (by simp) h c' hc'
        · exact ih _ _ hne h
  | link n t r ih =>
    cases p with
    | nil => exact absurd rfl hne
    | cons c ps =>
      simp only [strip] at h
      split at h
      · exact ih _ _ hne h
      · rename_i hn
        simp only [lookup] at h
        split at h
        · rename_i e
          split at h
          · rename_i e2; subst e; subst e2
            intro c' hc'; simp at hc'; subst hc'; exact Bool.eq_false_iff.mpr hn
          · cases h
        · exact ih _ _ hne h
  | other n r ih =>
    cases p with
    | nil => exact absurd rfl hne
    | cons c ps =>
      simp only [strip] at h
      split at h
      · exact ih _ _ hne h
      · rename_i hn
        simp only [Bool.or_eq_true, not_or] at hn
        simp only [lookup] at h
        split at h
        · rename_i e
          split at h
          · rename_i e2; subst e; subst e2
            intro c' hc'; simp at hc'; subst hc'; exact Bool.eq_false_iff.mpr hn.1
          · cases h
        · exact ih _ _ hne h

/-! ### flatAt: membership is lookup -/

theorem mem_flatAt (f : Forest) (hwf : f.wf = true) (pre p : Path) (it : Item) :
    (p, it) ∈ f.flatAt pre ↔ ∃ q, q ≠ [] ∧ p = pre ++ q ∧ f.lookup q = some it := by
  induction f generalizing pre p it with
  | nil =>
    simp only [flatAt, List.not_mem_nil, false_iff]
    rintro ⟨q, hq, _, h⟩
    cases q with
    | nil => exact hq rfl
    | cons c qs => simp [lookup] at h
  | file n d r ih =>
    simp only [wf, Bool.and_eq_true, Bool.not_eq_true', contains_false_iff] at hwf
    simp only [flatAt, List.mem_cons, Prod.mk.injEq]
    rw [ih hwf.2]
    constructor
    · rintro (⟨h1, h2⟩ | ⟨q, hq, hp, hl⟩)
      · exact ⟨[n], by simp, h1, by simp [lookup, h2]⟩
      · cases q with
        | nil => exact absurd rfl hq
        | cons c qs =>
          refine ⟨c :: qs, hq, hp, ?_⟩
          have hc : c ∈ r.names := mem_names_of_lookup r c qs it hl
          have hne : ¬ n = c := fun e => hwf.1 (e ▸ hc)
          simp only [lookup, if_neg hne]; exact hl
    · rintro ⟨q, hq, hp, hl⟩
      cases q with
      | nil => exact absurd rfl hq
      | cons c qs =>
        simp only [lookup] at hl
        split at hl
        · rename_i e
          split at hl
          · rename_i e2
            subst e; subst e2
            left; exact ⟨hp, by cases hl; rfl⟩
          · cases hl
        · right; exact ⟨c :: qs, hq, hp, hl⟩
  | dir n s r ihs ih =>
    simp only [wf, Bool.and_eq_true, Bool.not_eq_true', contains_false_iff] at hwf
    simp only [flatAt, List.mem_cons, List.mem_append, Prod.mk.injEq]
    rw [ih hwf.2, ihs hwf.1.2]
    constructor
    · rintro (⟨h1, h2⟩ | ⟨q, hq, hp, hl⟩ | ⟨q, hq, hp, hl⟩)
      · exact ⟨[n], by simp, h1, by simp [lookup, lookup_nil_path, h2]⟩
      · refine ⟨n :: q, by simp, by simp [hp], ?_⟩
        simp only [lookup, if_true]; exact hl
      · cases q with
        | nil => exact absurd rfl hq
        | cons c qs =>
          refine ⟨c :: qs, hq, hp, ?_⟩
          have hc : c ∈ r.names := mem_names_of_lookup r c qs it hl
          have hne : ¬ n = c := fun e => hwf.1.1 (e ▸ hc)
          simp only [lookup, if_neg hne]; exact hl
    · rintro ⟨q, hq, hp, hl⟩
      cases q with
      | nil => exact absurd rfl hq
      | cons c qs =>
        simp only [lookup] at hl
        split at hl
        · rename_i e
          subst e
          cases qs with
          | nil =>
            rw [lookup_nil_path] at hl
            left; exact ⟨hp, by cases hl; rfl⟩
          | cons c2 qs2 =>
            right; left
            exact ⟨c2 :: qs2, by simp, by simp [hp], hl⟩
        · right; right; exact ⟨c :: qs, hq, hp, hl⟩
  | link n t r ih =>
    simp only [wf, Bool.and_eq_true, Bool.not_eq_true', contains_false_iff] at hwf
    simp only [flatAt, List.mem_cons, Prod.mk.injEq]
    rw [ih hwf.2]
    constructor
    · rintro (⟨h1, h2⟩ | ⟨q, hq, hp, hl⟩)
      · exact ⟨[n], by simp, h1, by simp [lookup, h2]⟩
      · cases q with
        | nil => exact absurd rfl hq
        | cons c qs =>
          refine ⟨c :: qs, hq, hp, ?_⟩
          have hc : c ∈ r.names := mem_names_of_lookup r c qs it hl
          have hne : ¬ n = c := fun e => hwf.1 (e ▸ hc)
          simp only [lookup, if_neg hne]; exact hl
    · rintro ⟨q, hq, hp, hl⟩
      cases q with
      | nil => exact absurd rfl hq
      | cons c qs =>
        simp only [lookup] at hl
        split at hl
        · rename_i e
          split at hl
          · rename_i e2
            subst e; subst e2
            left; exact ⟨hp, by cases hl; rfl⟩
          · cases hl
        · right; exact ⟨c :: qs, hq, hp, hl⟩
  | other n r ih =>
    simp only [wf, Bool.and_eq_true, Bool.not_eq_true', contains_false_iff] at hwf
    simp only [flatAt, List.mem_cons, Prod.mk.injEq]
    rw [ih hwf.2]
    constructor
    · rintro (⟨h1, h2⟩ | ⟨q, hq, hp, hl⟩)
      · exact ⟨[n], by simp, h1, by simp [lookup, h2]⟩
      · cases q with
        | nil => exact absurd rfl hq
        | cons c qs =>
          refine ⟨c :: qs, hq, hp, ?_⟩
          have hc : c ∈ r.names := mem_names_of_lookup r c qs it hl
          have hne : ¬ n = c := fun e => hwf.1 (e ▸ hc)
          simp only [lookup, if_neg hne]; exact hl
    · rintro ⟨q, hq, hp, hl⟩
      cases q with
      | nil => exact absurd rfl hq
      | cons c qs =>
        simp only [lookup] at hl
        split at hl
        · rename_i e
          split at hl
          · rename_i e2
            subst e; subst e2
            left; exact ⟨hp, by cases hl; rfl⟩
          · cases hl
        · right; exact ⟨c :: qs, hq, hp, hl⟩

/-- at the root: the listing is exactly the graph of `lookup` on non-empty paths -/
theorem mem_flatAt_root (f : Forest) (hwf : f.wf = true) (p : Path) (it : Item) :
    (p, it) ∈ f.flatAt [] ↔ p ≠ [] ∧ f.lookup p = some it := by
  rw [mem_flatAt f hwf]
  constructor
  · rintro ⟨q, hq, hp, hl⟩; simp at hp; subst hp; exact ⟨hq, hl⟩
  · rintro ⟨hq, hl⟩; exact ⟨p, hq, by simp, hl⟩

theorem walkX_eq (ex : List String) (pre : Path) (f : Forest) :
    walkX ex pre f = (f.strip ex true).flatAt pre := by
  induction f generalizing pre with
  | nil => rfl
  | file n d r ih => simp only [walkX, strip]; split <;> simp [flatAt, ih]
  | dir n s r ihs ih => simp only [walkX, strip]; split <;> simp [flatAt, ih, ihs]
  | link n t r ih => simp only [walkX, strip]; split <;> simp [flatAt, ih]
  | other n r ih => simp only [walkX, strip, Bool.not_true, Bool.or_false]; split <;> simp [flatAt, ih]

/-! ### readers and compareFileContents -/

theorem firstErr_eq_ok_iff (l : List CmpResult) : firstErr l = .ok ↔ ∀ r ∈ l, r = .ok := by
  induction l with
  | nil => simp [firstErr]
  | cons x xs ih => cases x <;> simp [firstErr, ih]

theorem count_pos (r : ReaderBehaviour) (buf rem call : Nat) (hb : 0 < buf) (hr : 0 < rem) :
    0 < r.count buf rem call ∧ r.count buf rem call ≤ rem ∧ r.count buf rem call ≤ buf := by
  unfold ReaderBehaviour.count
  omega

theorem fullReader_full (e : Bool) (buf : Nat) : FullReads (fullReader e) buf := by
  intro rem call
  simp only [ReaderBehaviour.count, fullReader]
  omega

/-- under full reads on both sides the lock-step comparison decides equality of the contents -/
theorem cmpLoop_full (buf : Nat) (ra rb : ReaderBehaviour) (ha : FullReads ra buf) (hb : FullReads rb buf)
    (hbuf : 0 < buf) : ∀ (fuel : Nat) (da db : Bytes) (call : Nat), da.length + db.length + 1 ≤ fuel →
      cmpLoop buf ra rb fuel da db call = decide (da = db) := by
  intro fuel
  induction fuel with
  | zero => intro da db call h; omega
  | succ fuel ih =>
    intro da db call hf
    unfold cmpLoop
    simp only [readStep, ha _ _, hb _ _]
    cases da with
    | nil =>
      cases db with
      | nil => simp
      | cons y ys =>
        have hne : List.take (min buf (y :: ys).length) (y :: ys) ≠ [] := by
          intro h
          have := congrArg List.length h
          simp only [List.length_take, List.length_cons, List.length_nil] at this
          omega
        simp only [List.isEmpty_nil, List.isEmpty_cons, if_true, Bool.false_eq_true, if_false]
        rw [if_pos (Ne.symm hne)]
        simp
    | cons x xs =>
      cases db with
      | nil =>
        have hne : List.take (min buf (x :: xs).length) (x :: xs) ≠ [] := by
          intro h
          have := congrArg List.length h
          simp only [List.length_take, List.length_cons, List.length_nil] at this
          omega
        simp only [List.isEmpty_nil, List.isEmpty_cons, if_true, Bool.false_eq_true, if_false]
        rw [if_pos hne]
        simp
      | cons y ys =>
        simp only [List.isEmpty_cons, Bool.false_eq_true, if_false]
        generalize hda : x :: xs = da at *
        generalize hdb : y :: ys = db at *
        have hla : 0 < da.length := by rw [← hda]; simp
        have hlb : 0 < db.length := by rw [← hdb]; simp
        by_cases hc : List.take (min buf da.length) da = List.take (min buf db.length) db
        · simp only [hc, ne_eq, not_true_eq_false, if_false]
          have hsplit : (da = db) ↔ (List.drop (min buf da.length) da = List.drop (min buf db.length) db) := by
            constructor
            · intro e; rw [e]
            · intro e
              rw [← List.take_append_drop (min buf da.length) da, ← List.take_append_drop (min buf db.length) db, hc, e]
          split
          · rename_i he
            simp only [Bool.and_eq_true, decide_eq_true_eq] at he
            have h1 : List.drop (min buf da.length) da = [] := by
              apply List.drop_eq_nil_of_le; exact he.1.2
            have h2 : List.drop (min buf db.length) db = [] := by
              apply List.drop_eq_nil_of_le; exact he.2.2
            symm
            rw [decide_eq_true_eq, hsplit, h1, h2]
          · rw [ih]
            · exact decide_eq_decide.mpr hsplit.symm
            · simp only [List.length_drop]
              omega
        · simp only [hc, ne_eq, not_false_eq_true, if_true]
          symm
          rw [decide_eq_false_iff_not]
          intro e
          exact hc (by rw [e])

theorem cmpContents_full (buf : Nat) (ra rb : ReaderBehaviour) (ha : FullReads ra buf) (hb : FullReads rb buf)
    (hbuf : 0 < buf) (da db : Bytes) : cmpContents buf ra rb da db = true ↔ da = db := by
  unfold cmpContents
  rw [cmpLoop_full buf ra rb ha hb hbuf _ da db 0 (by omega)]
  simp

/-! ### CompareFS -/

theorem plain_lookup (f : Forest) (h : f.plain = true) (p : Path) (it : Item) (hl : f.lookup p = some it) :
    it = .dir ∨ ∃ d, it = .file d := by
  induction f generalizing p it with
  | nil => cases p with
    | nil => simp [lookup] at hl; exact Or.inl hl.symm
    | cons c ps => simp [lookup] at hl
  | file n d r ih =>
    simp only [plain] at h
    cases p with
    | nil => simp [lookup] at hl; exact Or.inl hl.symm
    | cons c ps =>
      simp only [lookup] at hl
      split at hl
      · split at hl
        · cases hl; exact Or.inr ⟨d, rfl⟩
        · cases hl
      · exact ih h _ _ hl
  | dir n s r ihs ih =>
    simp only [plain, Bool.and_eq_true] at h
    cases p with
    | nil => simp [lookup] at hl; exact Or.inl hl.symm
    | cons c ps =>
      simp only [lookup] at hl
      split at hl
      · exact ihs h.1 _ _ hl
      · exact ih h.2 _ _ hl
  | link n t r _ => simp [plain] at h
  | other n r _ => simp [plain] at h

theorem checkEntry_ok_iff (c : Cfg) (ra rb : ReaderBehaviour) (hfa : FullReads ra c.cmpBuf)
    (hfb : FullReads rb c.cmpBuf) (hbuf : 0 < c.cmpBuf) (target : Forest) (p : Path) (it : Item)
    (hit : it = .dir ∨ ∃ d, it = .file d) :
    checkEntry c ra rb target p it = .ok ↔ target.lookup p = some it := by
  unfold checkEntry
  cases hl : target.lookup p with
  | none => simp
  | some tb =>
    rcases hit with rfl | ⟨da, rfl⟩
    · cases tb <;> simp
    · cases tb with
      | file db =>
        simp only [Option.some.injEq, Item.file.injEq]
        by_cases hlen : da.length = db.length
        · simp only [hlen, ne_eq, not_true_eq_false, if_false]
          have := cmpContents_full c.cmpBuf ra rb hfa hfb hbuf da db
          by_cases hcm : cmpContents c.cmpBuf ra rb da db = true
          · simp only [hcm, if_true, true_iff]; exact (this.1 hcm).symm
          · simp only [hcm, Bool.false_eq_true, if_false]
            constructor
            · intro h; cases h
            · intro e; exact absurd (this.2 e.symm) hcm
        · simp only [ne_eq, hlen, not_false_eq_true, if_true]
          constructor
          · intro h; cases h
          · intro e; exact absurd (by rw [e]) hlen
      | dir => simp
      | link t => simp
      | other => simp

theorem andThen_ok_iff (x : CmpResult) (y : Unit → CmpResult) :
    x.andThen y = .ok ↔ x = .ok ∧ y () = .ok := by
  cases x <;> simp [CmpResult.andThen]

theorem wf_excl_dot (c : Cfg) (h : c.wf = true) : c.excluded.contains "." = false ∧ 0 < c.cmpBuf ∧ 0 < c.chunk := by
  simp only [Cfg.wf, Bool.and_eq_true, decide_eq_true_eq, Bool.not_eq_true'] at h
  exact ⟨h.2, h.1.2, h.1.1⟩

/-- the two passes, stated on the stripped trees -/
theorem compareFS_ok_iff_passes (c : Cfg) (hc : c.wf = true) (ra rb : ReaderBehaviour)
    (hfa : FullReads ra c.cmpBuf) (hfb : FullReads rb c.cmpBuf) (a b : Forest) (hpa : a.plain = true)
    (hwa : a.wf = true) :
    compareFS c ra rb a b = .ok ↔
      (∀ p it, (p, it) ∈ (a.strip c.excluded true).flatAt [] → b.lookup p = some it) ∧
      (∀ p it, (p, it) ∈ (b.strip c.excluded true).flatAt [] → ∃ it', (p, it') ∈ (a.strip c.excluded true).flatAt []) := by
  obtain ⟨hdot, hbuf, _⟩ := wf_excl_dot c hc
  have hwA := wf_strip c.excluded true a hwa
  unfold compareFS
  simp only [walkRoot, hdot, Bool.false_eq_true, if_false, walkX_eq]
  rw [andThen_ok_iff, firstErr_eq_ok_iff, firstErr_eq_ok_iff]
  constructor
  · rintro ⟨h1, h2⟩
    constructor
    · intro p it hm
      have hit : it = .dir ∨ ∃ d, it = .file d := by
        have := (mem_flatAt_root _ hwA p it).1 hm
        have hcl := clean_of_lookup_strip c.excluded true a p it this.1 this.2
        rw [lookup_strip_of_clean c.excluded a p hcl] at this
        exact plain_lookup a hpa p it this.2
      have := h1 (checkEntry c ra rb b p it) (by
        simp only [List.map_cons, List.mem_cons, List.mem_map]
        right; exact ⟨(p, it), hm, rfl⟩)
      exact (checkEntry_ok_iff c ra rb hfa hfb hbuf b p it hit).1 this
    · intro p it hm
      have := h2 (if (List.map (·.1) (([], Item.dir) :: (a.strip c.excluded true).flatAt [])).contains p then CmpResult.ok else .extra p) (by
        simp only [List.map_cons, List.mem_cons, List.mem_map]
        right; exact ⟨(p, it), hm, rfl⟩)
      split at this
      · rename_i hcont
        rw [List.contains_iff_mem] at hcont
        simp only [List.map_cons, List.mem_cons, List.mem_map] at hcont
        rcases hcont with rfl | ⟨e, he, rfl⟩
        · -- p = []: impossible for a listed entry
          have hwB := (mem_flatAt (b.strip c.excluded true) · [] [] it)
          exfalso
          -- every listed path is non-empty
          have : ∀ (f : Forest) (pre : Path) (q : Path) (i : Item), (q, i) ∈ f.flatAt pre → pre.length < q.length := by
            intro f
            induction f with
            | nil => intro pre q i h; simp [flatAt] at h
            | file n d r ih =>
              intro pre q i h
              simp only [flatAt, List.mem_cons, Prod.mk.injEq] at h
              rcases h with ⟨rfl, _⟩ | h
              · simp
              · exact ih _ _ _ h
            | dir n s r ihs ih =>
              intro pre q i h
              simp only [flatAt, List.mem_cons, List.mem_append, Prod.mk.injEq] at h
              rcases h with ⟨rfl, _⟩ | h | h
              · simp
              · have := ihs _ _ _ h; simp at this; omega
              · exact ih _ _ _ h
            | link n t r ih =>
              intro pre q i h
              simp only [flatAt, List.mem_cons, Prod.mk.injEq] at h
              rcases h with ⟨rfl, _⟩ | h
              · simp
              · exact ih _ _ _ h
            | other n r ih =>
              intro pre q i h
              simp only [flatAt, List.mem_cons, Prod.mk.injEq] at h
              rcases h with ⟨rfl, _⟩ | h
              · simp
              · exact ih _ _ _ h
          have := this _ _ _ _ hm
          simp at this
        · exact ⟨e.2, he⟩
      · cases this
  · rintro ⟨h1, h2⟩
    constructor
    · intro r hr
      simp only [List.map_cons, List.mem_cons, List.mem_map] at hr
      rcases hr with rfl | ⟨e, he, rfl⟩
      · simp [checkEntry, lookup_nil_path]
      · obtain ⟨p, it⟩ := e
        have hit : it = .dir ∨ ∃ d, it = .file d := by
          have := (mem_flatAt_root _ hwA p it).1 he
          have hcl := clean_of_lookup_strip c.excluded true a p it this.1 this.2
          rw [lookup_strip_of_clean c.excluded a p hcl] at this
          exact plain_lookup a hpa p it this.2
        exact (checkEntry_ok_iff c ra rb hfa hfb hbuf b p it hit).2 (h1 p it he)
    · intro r hr
      simp only [List.map_cons, List.mem_cons, List.mem_map] at hr
      rcases hr with rfl | ⟨e, he, rfl⟩
      · simp
      · obtain ⟨p, it⟩ := e
        obtain ⟨it', hm'⟩ := h2 p it he
        have : (List.map (·.1) (([], Item.dir) :: (a.strip c.excluded true).flatAt [])).contains p = true := by
          rw [List.contains_iff_mem]
          simp only [List.map_cons, List.mem_cons, List.mem_map]
          right; exact ⟨(p, it'), hm', rfl⟩
        show (if (List.map (·.1) (([], Item.dir) :: (a.strip c.excluded true).flatAt [])).contains p = true
          then CmpResult.ok else CmpResult.extra p) = CmpResult.ok
        rw [if_pos this]

theorem compareFS_ok_iff (c : Cfg) (hc : c.wf = true) (ra rb : ReaderBehaviour)
    (hfa : FullReads ra c.cmpBuf) (hfb : FullReads rb c.cmpBuf) (a b : Forest)
    (hwa : a.wf = true) (hwb : b.wf = true) (hpa : a.plain = true) :
    compareFS c ra rb a b = .ok ↔ stripExcluded c.excluded a ≈ stripExcluded c.excluded b := by
  rw [compareFS_ok_iff_passes c hc ra rb hfa hfb a b hpa hwa]
  have hwA := wf_strip c.excluded true a hwa
  have hwB := wf_strip c.excluded true b hwb
  unfold TreeEq stripExcluded
  constructor
  · rintro ⟨h1, h2⟩ p
    by_cases hp : p = []
    · subst hp; simp [lookup_nil_path]
    · cases hA : (a.strip c.excluded true).lookup p with
      | none =>
        cases hB : (b.strip c.excluded true).lookup p with
        | none => rfl
        | some it' =>
          obtain ⟨it'', hm⟩ := h2 p it' ((mem_flatAt_root _ hwB p it').2 ⟨hp, hB⟩)
          have := ((mem_flatAt_root _ hwA p it'').1 hm).2
          rw [hA] at this; cases this
      | some it =>
        have hb := h1 p it ((mem_flatAt_root _ hwA p it).2 ⟨hp, hA⟩)
        have hcl := clean_of_lookup_strip c.excluded true a p it hp hA
        rw [lookup_strip_of_clean c.excluded b p hcl, hb]
  · intro h
    constructor
    · intro p it hm
      obtain ⟨hp, hA⟩ := (mem_flatAt_root _ hwA p it).1 hm
      have hB : (b.strip c.excluded true).lookup p = some it := by rw [← h p, hA]
      have hcl := clean_of_lookup_strip c.excluded true b p it hp hB
      rw [← lookup_strip_of_clean c.excluded b p hcl, hB]
    · intro p it hm
      obtain ⟨hp, hB⟩ := (mem_flatAt_root _ hwB p it).1 hm
      exact ⟨it, (mem_flatAt_root _ hwA p it).2 ⟨hp, by rw [h p, hB]⟩⟩

/-! ### single-point mutations change what some path denotes -/

theorem lookup_strip_none_of_not_mem (ex : List String) (k : Bool) (r : Forest) (n : String) (q : Path)
    (h : n ∉ r.names) : (r.strip ex k).lookup (n :: q) = none :=
  lookup_none_of_not_mem _ _ _ (fun hm => h (names_strip ex k r n hm).1)

theorem wf_file {n d r} (h : (Forest.file n d r).wf = true) : n ∉ r.names ∧ r.wf = true := by
  simpa [wf, contains_false_iff] using h
theorem wf_dir {n s r} (h : (Forest.dir n s r).wf = true) : n ∉ r.names ∧ s.wf = true ∧ r.wf = true := by
  simpa [wf, contains_false_iff, and_assoc] using h

theorem strip_file_keep {ex : List String} {k : Bool} {n : String} {d : Bytes} {r : Forest}
    (h : ex.contains n = false) : (Forest.file n d r).strip ex k = .file n d (r.strip ex k) := by
  simp only [strip, h, Bool.false_eq_true, if_false]
theorem strip_file_drop {ex : List String} {k : Bool} {n : String} {d : Bytes} {r : Forest}
    (h : ex.contains n = true) : (Forest.file n d r).strip ex k = r.strip ex k := by
  simp only [strip, h, if_true]
theorem strip_dir_keep {ex : List String} {k : Bool} {n : String} {s r : Forest}
    (h : ex.contains n = false) : (Forest.dir n s r).strip ex k = .dir n (s.strip ex k) (r.strip ex k) := by
  simp only [strip, h, Bool.false_eq_true, if_false]
theorem strip_dir_drop {ex : List String} {k : Bool} {n : String} {s r : Forest}
    (h : ex.contains n = true) : (Forest.dir n s r).strip ex k = r.strip ex k := by
  simp only [strip, h, if_true]

theorem mut1_differs (ex : List String) (a b : Forest) (h : Mut1 ex a b) (hwa : a.wf = true) (hwb : b.wf = true) :
    ∃ p, (a.strip ex true).lookup p ≠ (b.strip ex true).lookup p := by
  induction h with
  | @changeFile n d d' r hn hd =>
    refine ⟨[n], ?_⟩
    rw [strip_file_keep hn, strip_file_keep hn]
    simp only [lookup, if_true]
    intro e; cases e; exact hd rfl
  | @removeFile n d r hn =>
    refine ⟨[n], ?_⟩
    rw [lookup_strip_none_of_not_mem ex true r n [] (wf_file hwa).1, strip_file_keep hn]
    simp [lookup]
  | @removeDir n s r hn =>
    refine ⟨[n], ?_⟩
    rw [lookup_strip_none_of_not_mem ex true r n [] (wf_dir hwa).1, strip_dir_keep hn]
    simp [lookup, lookup_nil_path]
  | @addFile n d r hn =>
    refine ⟨[n], ?_⟩
    rw [lookup_strip_none_of_not_mem ex true r n [] (wf_file hwb).1, strip_file_keep hn]
    simp [lookup]
  | @addDir n s r hn =>
    refine ⟨[n], ?_⟩
    rw [lookup_strip_none_of_not_mem ex true r n [] (wf_dir hwb).1, strip_dir_keep hn]
    simp [lookup, lookup_nil_path]
  | @fileToDir n d s r hn =>
    refine ⟨[n], ?_⟩
    rw [strip_file_keep hn, strip_dir_keep hn]
    simp [lookup, lookup_nil_path]
  | @dirToFile n d s r hn =>
    refine ⟨[n], ?_⟩
    rw [strip_file_keep hn, strip_dir_keep hn]
    simp [lookup, lookup_nil_path]
  | @inDir n s s' r hn _ ih =>
    obtain ⟨p, hp⟩ := ih (wf_dir hwa).2.1 (wf_dir hwb).2.1
    refine ⟨n :: p, ?_⟩
    rw [strip_dir_keep hn, strip_dir_keep hn]
    simpa [lookup] using hp
  | @skipFile n d r r' _ ih =>
    obtain ⟨p, hp⟩ := ih (wf_file hwa).2 (wf_file hwb).2
    by_cases hn : ex.contains n = true
    · exact ⟨p, by rw [strip_file_drop hn, strip_file_drop hn]; exact hp⟩
    · have hn' := Bool.eq_false_iff.mpr hn
      refine ⟨p, ?_⟩
      rw [strip_file_keep hn', strip_file_keep hn']
      cases p with
      | nil => simp [lookup_nil_path] at hp
      | cons c qs =>
        have hne : ¬ n = c := by
          intro e; subst e
          apply hp
          rw [lookup_strip_none_of_not_mem ex true r n qs (wf_file hwa).1,
            lookup_strip_none_of_not_mem ex true r' n qs (wf_file hwb).1]
        simpa [lookup, hne] using hp
  | @skipDir n s r r' _ ih =>
    obtain ⟨p, hp⟩ := ih (wf_dir hwa).2.2 (wf_dir hwb).2.2
    by_cases hn : ex.contains n = true
    · exact ⟨p, by rw [strip_dir_drop hn, strip_dir_drop hn]; exact hp⟩
    · have hn' := Bool.eq_false_iff.mpr hn
      refine ⟨p, ?_⟩
      rw [strip_dir_keep hn', strip_dir_keep hn']
      cases p with
      | nil => simp [lookup_nil_path] at hp
      | cons c qs =>
        have hne : ¬ n = c := by
          intro e; subst e
          apply hp
          rw [lookup_strip_none_of_not_mem ex true r n qs (wf_dir hwa).1,
            lookup_strip_none_of_not_mem ex true r' n qs (wf_dir hwb).1]
        simpa [lookup, hne] using hp

end Diskfs.Sync
