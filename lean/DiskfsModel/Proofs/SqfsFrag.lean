import DiskfsModel.Model.Sqfs.Map
namespace Diskfs.Sqfs

/-- flushed blocks are never touched again, and the block being filled only grows -/
theorem packFrags_prefix (bs : Nat) (ts : List Bytes) (done : List Bytes) (cur : Bytes) :
    ∃ rest, packFrags bs ts done cur = done ++ rest ∧ (cur ≠ [] → ∃ x tl, rest = (cur ++ x) :: tl) := by
  induction ts generalizing done cur with
  | nil =>
    simp only [packFrags]
    split
    · rename_i h
      refine ⟨[], by simp, ?_⟩
      intro hc; simp at h; exact absurd h hc
    · exact ⟨[cur], rfl, fun _ => ⟨[], [], by simp⟩⟩
  | cons t ts ih =>
    simp only [packFrags]
    split
    · exact ih done cur
    · split
      · obtain ⟨rest, h1, _⟩ := ih (done ++ [cur]) t
        refine ⟨cur :: rest, by rw [h1]; simp, fun _ => ⟨[], rest, by simp⟩⟩
      · obtain ⟨rest, h1, h2⟩ := ih done (cur ++ t)
        rename_i ht _
        have hne : cur ++ t ≠ [] := by
          intro e
          have := List.append_eq_nil_iff.1 e
          simp [this.2] at ht
        obtain ⟨x, tl, h3⟩ := h2 hne
        exact ⟨rest, h1, fun _ => ⟨t ++ x, tl, by rw [h3]; simp⟩⟩

/-- what it means for a reference to point at `tail` inside `blocks` -/
def RefOK (blocks : List Bytes) (tail : Bytes) : Option (Nat × Nat) → Prop
  | none => tail = []
  | some (k, o) => ((blocks.getD k []).drop o).take tail.length = tail

/-- every fragment reference resolves to the file's tail inside the packed fragment blocks -/
theorem fragRefs_resolve (bs : Nat) (ts : List Bytes) (hlt : ∀ t ∈ ts, t.length < bs) (done : List Bytes) (cur : Bytes)
    (i : Nat) (hi : i < ts.length) :
    RefOK (packFrags bs ts done cur) (ts.getD i [])
      ((fragRefs bs (ts.map List.length) done.length cur.length).getD i none) := by
  induction ts generalizing done cur i with
  | nil => simp at hi
  | cons t ts ih =>
    have hts : ∀ x ∈ ts, x.length < bs := fun x hx => hlt x (List.mem_cons_of_mem _ hx)
    have htl : t.length < bs := hlt t (List.mem_cons_self ..)
    have hmod : t.length % bs = t.length := Nat.mod_eq_of_lt htl
    simp only [List.map_cons, fragRefs, hmod, packFrags]
    by_cases he : t = []
    · subst he
      simp only [List.length_nil, if_true, List.isEmpty_nil]
      cases i with
      | zero => simp [RefOK]
      | succ i =>
        simp only [List.getD_cons_succ]
        exact ih hts done cur i (by simpa using hi)
    · have hl : t.length ≠ 0 := by
        intro e; exact he (List.eq_nil_of_length_eq_zero e)
      have hie : t.isEmpty = false := by
        cases t with
        | nil => exact absurd rfl he
        | cons _ _ => rfl
      simp only [hl, if_false, hie, Bool.false_eq_true]
      by_cases hf : cur.length + t.length > bs
      · simp only [hf, if_true]
        cases i with
        | zero =>
          simp only [List.getD_cons_zero]
          obtain ⟨rest, h1, h2⟩ := packFrags_prefix bs ts (done ++ [cur]) t
          obtain ⟨x, tl, h3⟩ := h2 he
          rw [h1, h3]
          unfold RefOK
          simp only
          have : ((done ++ [cur]) ++ (t ++ x) :: tl).getD (done.length + 1) [] = t ++ x := by
            have hlen : (done ++ [cur]).length = done.length + 1 := by simp
            rw [← hlen]
            simp [List.getD_eq_getElem?_getD]
          rw [this]
          simp
        | succ i =>
          simp only [List.getD_cons_succ]
          have := ih hts (done ++ [cur]) t i (by simpa using hi)
          simpa using this
      · simp only [hf, if_false]
        cases i with
        | zero =>
          simp only [List.getD_cons_zero]
          obtain ⟨rest, h1, h2⟩ := packFrags_prefix bs ts done (cur ++ t)
          have hne : cur ++ t ≠ [] := by
            intro e; exact he (List.append_eq_nil_iff.1 e).2
          obtain ⟨x, tl, h3⟩ := h2 hne
          rw [h1, h3]
          unfold RefOK
          simp only
          have : (done ++ (cur ++ t ++ x) :: tl).getD done.length [] = cur ++ t ++ x := by
            simp [List.getD_eq_getElem?_getD]
          rw [this]
          simp [List.append_assoc]
        | succ i =>
          simp only [List.getD_cons_succ]
          have := ih hts done (cur ++ t) i (by simpa using hi)
          simpa using this

end Diskfs.Sqfs
