/-
  The invariant of the extent tree along a history of extendExtentTree calls (Model/Ext4/ExtTree.lean), for the
  code as it is now (`fx = true`: the two refusals of fix f6794f8):

    * `TreeInv`: the root in the inode (max 4, no block), every node below it in a block of its own (block number
      not 0, all block numbers pairwise distinct), non-empty, with the fan-out of a block, pointer keys = first file
      block of the child, uniform depth, file blocks strictly increasing;
    * `extendIx_good`: on such a tree with an allocator that hands out free blocks, `extendInternalNode` answers
      `ok` / `nospace` (only when the allocator failed) / `unsupported` (only in the two refusals: `refuses`) -
      never panic, `block number not found`, or a lookup that hits another node (`weird`) - and when it answers ok
      the new tree has the invariant again, denotes the old extents followed by the added ones, and its node blocks
      are the old ones plus exactly the `metaBlocks` blocks taken from the allocator.
-/
import DiskfsModel.Proofs.Ext4ExtShape
namespace Diskfs.Ext4.ExtTree
open Diskfs Diskfs.Ext4

/-! ### the allocator: what the tree code may assume of allocateExtents -/

/-- `free s x`: block x is free in allocator state s. A successful `take s n` answers with n blocks that were
    free, and afterwards exactly these are no longer free. -/
structure AllocOK {σ : Type} (A : Allocator σ) (free : σ → Nat → Bool) : Prop where
  was_free : ∀ s n b s', A.take s n = some (b, s') → ∀ i, i < n → free s (b + i) = true
  after : ∀ s n b s', A.take s n = some (b, s') → ∀ x, free s' x = (free s x && !(decide (b ≤ x ∧ x < b + n)))

/-- going from state s to s' the blocks `taken` (pairwise distinct, free in s) were taken and nothing else changed -/
def Took {σ : Type} (free : σ → Nat → Bool) (s s' : σ) (taken : List Nat) : Prop :=
  taken.Nodup ∧ (∀ x ∈ taken, free s x = true) ∧ (∀ x, free s' x = (free s x && !(taken.contains x)))

theorem Took.refl {σ : Type} (free : σ → Nat → Bool) (s : σ) : Took free s s [] := by
  refine ⟨List.nodup_nil, by simp, by simp⟩

theorem Took.trans {σ : Type} {free : σ → Nat → Bool} {s s1 s2 : σ} {t1 t2 : List Nat}
    (h1 : Took free s s1 t1) (h2 : Took free s1 s2 t2) : Took free s s2 (t1 ++ t2) := by
  obtain ⟨n1, f1, a1⟩ := h1
  obtain ⟨n2, f2, a2⟩ := h2
  refine ⟨?_, ?_, ?_⟩
  · rw [List.nodup_append]
    refine ⟨n1, n2, ?_⟩
    intro x hx1 y hy2 hxy
    subst hxy
    have := f2 x hy2
    rw [a1 x] at this
    simp [hx1] at this
  · intro x hx
    rcases List.mem_append.mp hx with hx | hx
    · exact f1 x hx
    · have := f2 x hx
      rw [a1 x] at this
      simp only [Bool.and_eq_true] at this
      exact this.1
  · intro x
    rw [a2 x, a1 x]
    simp only [List.contains_eq_mem, List.mem_append, Bool.decide_or, Bool.not_or, Bool.and_assoc]

theorem AllocOK.took {σ : Type} {A : Allocator σ} {free : σ → Nat → Bool} (hA : AllocOK A free) {s s' : σ} {n b : Nat}
    (h : A.take s n = some (b, s')) : Took free s s' (List.range' b n) := by
  refine ⟨List.nodup_range' (step := 1) (by omega), ?_, ?_⟩
  · intro x hx
    rw [List.mem_range'_1] at hx
    have := hA.was_free s n b s' h (x - b) (by omega)
    have e : b + (x - b) = x := by omega
    rw [e] at this
    exact this
  · intro x
    rw [hA.after s n b s' h x]
    congr 2
    simp only [List.contains_eq_mem, List.mem_range'_1]

/-- a block handed out is not block 0 when block 0 is never free -/
theorem AllocOK.ne_zero {σ : Type} {A : Allocator σ} {free : σ → Nat → Bool} (hA : AllocOK A free) {s s' : σ} {n b : Nat}
    (h : A.take s n = some (b, s')) (hn : 0 < n) (hz : free s 0 = false) : b ≠ 0 := by
  intro hb
  have := hA.was_free s n b s' h 0 hn
  rw [hb] at this
  simp [hz] at this

theorem Took.zero {σ : Type} {free : σ → Nat → Bool} {s s' : σ} {t : List Nat} (h : Took free s s' t)
    (hz : free s 0 = false) : free s' 0 = false := by
  rw [h.2.2 0, hz]; rfl

/-! ### the invariant -/

/-- a node that lives in a block, as the library builds it: fan-out of a block, not over-full, not empty, a block
    number that is not 0; the children of an index node one level below it, each pointer key the first file block of
    the child -/
def good (bs : Nat) : Node → Prop
  | .leaf max disk es => max = nonRootMax bs ∧ es.length ≤ max ∧ es ≠ [] ∧ disk ≠ 0
  | .index max disk depth ks => max = nonRootMax bs ∧ ks.length ≤ max ∧ ks ≠ [] ∧ disk ≠ 0 ∧ goodKids bs depth ks
where goodKids (bs : Nat) (depth : Nat) : Kids → Prop
  | [] => True
  | (k, c) :: ks => c.depth + 1 = depth ∧ c.firstKey = some k ∧ good bs c ∧ goodKids bs depth ks

/-- the root in the inode: 4 entries at most, no block -/
def goodRoot (bs : Nat) : Node → Prop
  | .leaf max disk es => max = 4 ∧ disk = 0 ∧ es.length ≤ 4
  | .index max disk depth ks => max = 4 ∧ disk = 0 ∧ ks.length ≤ 4 ∧ ks ≠ [] ∧ good.goodKids bs depth ks

/-- the invariant of a file's extent tree -/
structure TreeInv (bs : Nat) (t : Node) : Prop where
  root : goodRoot bs t
  sorted : SortedFB (flatten t)
  nodup : (treeBlocks t).Nodup

theorem goodKids_append (bs d : Nat) (a b : Kids) :
    good.goodKids bs d (a ++ b) ↔ good.goodKids bs d a ∧ good.goodKids bs d b := by
  induction a with
  | nil => simp [good.goodKids]
  | cons p ps ih =>
    obtain ⟨k, c⟩ := p
    simp only [List.cons_append, good.goodKids, ih]
    constructor
    · rintro ⟨h1, h2, h3, h4, h5⟩; exact ⟨⟨h1, h2, h3, h4⟩, h5⟩
    · rintro ⟨⟨h1, h2, h3, h4⟩, h5⟩; exact ⟨h1, h2, h3, h4, h5⟩

theorem goodKids_take_drop (bs d : Nat) (ks : Kids) (n : Nat) (h : good.goodKids bs d ks) :
    good.goodKids bs d (ks.take n) ∧ good.goodKids bs d (ks.drop n) := by
  rw [← List.take_append_drop n ks, goodKids_append] at h
  exact h

theorem goodKids_mem {bs d : Nat} {ks : Kids} (h : good.goodKids bs d ks) {p : Nat × Node} (hp : p ∈ ks) :
    p.2.depth + 1 = d ∧ p.2.firstKey = some p.1 ∧ good bs p.2 := by
  induction ks with
  | nil => cases hp
  | cons q qs ih =>
    obtain ⟨k, c⟩ := q
    rcases List.mem_cons.mp hp with rfl | hp'
    · exact ⟨h.1, h.2.1, h.2.2.1⟩
    · exact ih h.2.2.2 hp'

mutual
theorem good_wf : ∀ (bs : Nat) (c : Node), good bs c → wf c
  | _, .leaf _ _ _, h => h.2.2.1
  | bs, .index _ _ d ks, h => ⟨h.2.2.1, goodKids_wfKids bs d ks h.2.2.2.2⟩
theorem goodKids_wfKids : ∀ (bs d : Nat) (ks : Kids), good.goodKids bs d ks → wf.wfKids ks
  | _, _, [], _ => trivial
  | bs, d, (_, c) :: ks, h => ⟨h.2.1, good_wf bs c h.2.2.1, goodKids_wfKids bs d ks h.2.2.2⟩
end

/-- the first extent of every child carries the child's key -/
theorem goodKids_first {bs d : Nat} {ks : Kids} (h : good.goodKids bs d ks) {p : Nat × Node} (hp : p ∈ ks) :
    ∃ e rest, flatten p.2 = e :: rest ∧ e.fileBlock = p.1 := by
  obtain ⟨_, hk, hg⟩ := goodKids_mem h hp
  exact firstKey_flatten p.2 p.1 (good_wf bs p.2 hg) hk

theorem flatten_sub_flattenKids {ks : Kids} {p : Nat × Node} (hp : p ∈ ks) : ∀ e ∈ flatten p.2, e ∈ flattenKids ks := by
  induction ks with
  | nil => cases hp
  | cons q qs ih =>
    obtain ⟨k, c⟩ := q
    intro e he
    simp only [flattenKids, List.mem_append]
    rcases List.mem_cons.mp hp with rfl | hp'
    · exact Or.inl he
    · exact Or.inr (ih hp' e he)

/-- in a sorted tree the keys of the children before the last one are below the last one's key -/
theorem keys_lt_last {bs d : Nat} {init : Kids} {key : Nat} {c : Node}
    (h : good.goodKids bs d (init ++ [(key, c)])) (hs : SortedFB (flattenKids (init ++ [(key, c)]))) :
    ∀ p ∈ init, p.1 < key := by
  intro p hp
  have hg := (goodKids_append bs d init _).mp h
  obtain ⟨e, rest, he, hfb⟩ := goodKids_first hg.1 hp
  obtain ⟨e', rest', he', hfb'⟩ := goodKids_first (p := (key, c)) hg.2 (by simp)
  rw [flattenKids_append] at hs
  have := (List.pairwise_append.mp hs).2.2 e (flatten_sub_flattenKids hp e (by rw [he]; simp)) e'
    (by simp [flattenKids, he'])
  simp only at hfb hfb'
  omega

theorem disk_mem_treeBlocksKids {ks : Kids} {p : Nat × Node} (hp : p ∈ ks) : p.2.disk ∈ treeBlocksKids ks := by
  induction ks with
  | nil => cases hp
  | cons q qs ih =>
    obtain ⟨k, c⟩ := q
    simp only [treeBlocksKids, List.cons_append, List.mem_cons, List.mem_append]
    rcases List.mem_cons.mp hp with rfl | hp'
    · exact Or.inl rfl
    · exact Or.inr (Or.inr (ih hp'))

/-- with pairwise distinct node blocks no child before the last one lives in the last one's block -/
theorem disks_ne_last {init : Kids} {key : Nat} {c : Node} (h : (treeBlocksKids (init ++ [(key, c)])).Nodup) :
    ∀ p ∈ init, p.2.disk ≠ c.disk := by
  intro p hp heq
  rw [treeBlocksKids_append] at h
  have := (List.nodup_append.mp h).2.2 _ (disk_mem_treeBlocksKids hp) c.disk (by simp [treeBlocksKids])
  exact this heq

/-! ### the lookups of writeNodeToDisk / extendLeafNode find the node the code descended into -/

theorem lookupKey_last (init : Kids) (key : Nat) (c : Node) (h : ∀ p ∈ init, p.1 ≠ key) :
    lookupKey ((init ++ [(key, c)]).map fun p => (p.1, p.2.disk)) key = c.disk := by
  induction init with
  | nil => simp [lookupKey]
  | cons q qs ih =>
    have hq : q.1 ≠ key := h q (by simp)
    have := ih (fun p hp => h p (by simp [hp]))
    simp only [lookupKey, List.cons_append, List.map_cons, List.find?_cons] at this ⊢
    have hb : (q.1 == key) = false := by simpa using hq
    rw [hb]
    exact this

theorem findDisk_last (init : Kids) (key : Nat) (c : Node) (h : ∀ p ∈ init, p.2.disk ≠ c.disk) :
    findDisk (init ++ [(key, c)]) c.disk = some init.length := by
  unfold findDisk
  have hidx : (init ++ [(key, c)]).findIdx (fun p => p.2.disk == c.disk) = init.length := by
    induction init with
    | nil => simp [List.findIdx_cons]
    | cons q qs ih =>
      have hq : (q.2.disk == c.disk) = false := by simpa using h q (by simp)
      simp only [List.cons_append, List.findIdx_cons, hq, cond_false, List.length_cons]
      rw [ih (fun p hp => h p (by simp [hp]))]
  simp only [hidx, List.length_append, List.length_cons, List.length_nil]
  simp

theorem findChild_last' (init : Kids) (key : Nat) (c : Node) (fb : Nat)
    (h : ∀ k ∈ (init ++ [(key, c)]).map (·.1), k ≤ fb) :
    findChild ((init ++ [(key, c)]).map (·.1)) fb = some init.length := by
  unfold findChild
  rw [findChildAux_all_le fb _ 0 h]
  simp

theorem writeBack_ok (pl : List (Nat × Nat)) (k self : Nat) (h : lookupKey pl k = self) (hs : self ≠ 0) :
    writeBack (some pl) (some k) self = .ok () := by
  simp [writeBack, h, hs]

/-! ### extendInternalNode on a tree that has the invariant -/

/-- the two refusals of the code as it is now (fix f6794f8), on the rightmost path of the tree (`n` extents are
    added, `fuel` = the depth of the node): the last leaf cannot take them and either its parent lives in a block
    and is full (only the root in the inode can be split), or the extents do not fit into two leaves -/
def refuses (bs n : Nat) : Nat → Node → Prop
  | _, .leaf _ _ _ => False
  | 0, .index _ _ _ _ => False
  | fuel + 1, .index max disk _ kids =>
    match kids.getLast? with
    | none => False
    | some (_, .leaf cmax _ cexts) =>
      cexts.length + n > cmax ∧
        ((disk ≠ 0 ∧ kids.length + 1 > max) ∨ (cexts.length + n) / 2 > nonRootMax bs ∨
          (cexts.length + n) - (cexts.length + n) / 2 > nonRootMax bs)
    | some (_, .index cmax cdisk cdepth ckids) => refuses bs n fuel (.index cmax cdisk cdepth ckids)


theorem writeBack_parent (plist : Option (List (Nat × Nat))) (max disk bs : Nat) (kids kids' : Kids)
    (hroot : (plist = none ∧ disk = 0 ∧ max = 4 ∧ 3 ≤ nonRootMax bs) ∨
      (∃ pl k0, plist = some pl ∧ disk ≠ 0 ∧ (kids.head?.map (·.1)) = some k0 ∧ lookupKey pl k0 = disk))
    (hh : kids'.head?.map (·.1) = kids.head?.map (·.1)) :
    writeBack plist (kids'.head?.map (·.1)) disk = .ok () := by
  rcases hroot with ⟨rfl, _⟩ | ⟨pl, k0, rfl, hdz, hk, hl⟩
  · rfl
  · rw [hh, hk]; exact writeBack_ok pl k0 disk hl hdz

theorem splitLeaf_fwd {σ : Type} (A : Allocator σ) (s : σ) (bs disk : Nat) (all : List Extent) (hs : SortedFB all)
    (hd : disk ≠ 0) :
    splitLeaf true A s bs disk all =
      if all.length / 2 > nonRootMax bs ∨ all.length - all.length / 2 > nonRootMax bs then .err .unsupported
      else match A.take s 1 with
        | none => .err .nospace
        | some (b, s') =>
          .ok (.leaf (nonRootMax bs) disk (all.take (all.length / 2)), .leaf (nonRootMax bs) b (all.drop (all.length / 2)), 1, s') := by
  simp only [splitLeaf, sortFB_sorted _ hs, hd, if_false, true_and]
  by_cases hc : all.length / 2 > nonRootMax bs ∨ all.length - all.length / 2 > nonRootMax bs
  · simp only [hc, if_true]
  · simp only [hc, if_false]
    cases A.take s 1 <;> rfl

theorem splitIndex_fwd_root {σ : Type} (A : Allocator σ) (s : σ) (bs depth : Nat) (kids : Kids) (m : Nat)
    (k1 k2 : Nat) (n1 n2 : Node) (r1 r2 : Kids)
    (h1 : kids.take (kids.length / 2) = (k1, n1) :: r1) (h2 : kids.drop (kids.length / 2) = (k2, n2) :: r2)
    (hl : ¬ (kids.length / 2 > nonRootMax bs ∨ kids.length - kids.length / 2 > nonRootMax bs)) :
    splitIndex A s bs depth true kids m =
      match A.take s 2 with
      | none => .err .nospace
      | some (b, s') =>
        .ok (.index 4 0 (depth + 1) [(k1, .index (nonRootMax bs) b depth ((k1, n1) :: r1)),
          (k2, .index (nonRootMax bs) (b + 1) depth ((k2, n2) :: r2))], m + 2, s') := by
  simp only [splitIndex, hl, if_false, if_true, h1, h2]
  cases A.take s 2 with
  | none => rfl
  | some p =>
    obtain ⟨b, s'⟩ := p
    simp [mkRoot, Node.firstKey, Node.depth]

theorem len_three {α : Type} (l : List α) (h : l.length = 3) : ∃ a b c, l = [a, b, c] := by
  match l, h with
  | [a, b, c], _ => exact ⟨a, b, c, rfl⟩

theorem perm_two (b c : Nat) (X Y : List Nat) : (b :: (X ++ (c :: Y))).Perm ((X ++ Y) ++ [b, c]) := by
  have h1 : (b :: (X ++ (c :: Y))).Perm (b :: c :: (X ++ Y)) := List.Perm.cons b List.perm_middle
  have h2 : ((X ++ Y) ++ [b, c]).Perm ([b, c] ++ (X ++ Y)) := List.perm_append_comm
  exact h1.trans h2.symm
theorem extendIx_good {σ : Type} (A : Allocator σ) (free : σ → Nat → Bool) (hA : AllocOK A free) (bs : Nat) :
    ∀ (fuel : Nat) (s : σ) (plist : Option (List (Nat × Nat))) (max disk depth : Nat) (kids : Kids) (a0 : Extent) (rest : List Extent),
    depth = fuel → kids ≠ [] → kids.length ≤ max → good.goodKids bs depth kids →
    ((plist = none ∧ disk = 0 ∧ max = 4 ∧ 3 ≤ nonRootMax bs) ∨
      (∃ pl k0, plist = some pl ∧ disk ≠ 0 ∧ (kids.head?.map (·.1)) = some k0 ∧ lookupKey pl k0 = disk)) →
    SortedFB (flattenKids kids ++ a0 :: rest) →
    (treeBlocksKids kids).Nodup →
    free s 0 = false →
    match extendIx true A bs fuel s plist max disk depth kids (a0 :: rest) with
    | .ok (t', m, s') =>
      ∃ taken, taken.length = m ∧ Took free s s' taken ∧
        ((∃ kids', t' = .index max disk depth kids' ∧ kids' ≠ [] ∧ kids'.length ≤ max ∧ good.goodKids bs depth kids' ∧
            kids'.head?.map (·.1) = kids.head?.map (·.1) ∧ flattenKids kids' = flattenKids kids ++ a0 :: rest ∧
            (treeBlocksKids kids').Perm (treeBlocksKids kids ++ taken)) ∨
         (plist = none ∧ ∃ kids', t' = .index 4 0 (depth + 1) kids' ∧ kids' ≠ [] ∧ kids'.length ≤ 4 ∧
            good.goodKids bs (depth + 1) kids' ∧ flattenKids kids' = flattenKids kids ++ a0 :: rest ∧
            (treeBlocksKids kids').Perm (treeBlocksKids kids ++ taken)))
    | .err .nospace => ∃ s0 n, A.take s0 n = none
    | .err .unsupported => refuses bs (rest.length + 1) fuel (.index max disk depth kids)
    | _ => False := by
  intro fuel
  induction fuel with
  | zero =>
    intro s plist max disk depth kids a0 rest hd hne hlen hg hroot hs hnd hz
    subst hd
    rcases kids with _ | ⟨⟨k, c⟩, ks⟩
    · exact absurd rfl hne
    · have := hg.1; omega
  | succ fuel ih =>
    intro s plist max disk depth kids a0 rest hd hne hlen hg hroot hs hnd hz
    subst hd
    rcases List.eq_nil_or_concat kids with h | ⟨init, ⟨key, c⟩, rfl⟩
    · exact absurd h hne
    rw [List.concat_eq_append] at *
    have hgs := (goodKids_append bs _ init _).mp hg
    have hc := hgs.2
    simp only [good.goodKids, and_true] at hc
    obtain ⟨hcd, hck, hcg⟩ := hc
    have hkeys : ∀ k ∈ (init ++ [(key, c)]).map (·.1), k ≤ a0.fileBlock := by
      apply keysLEKids_keys
      apply keysLEKids_of_flatten _ _ (goodKids_wfKids bs _ _ hg)
      intro e he
      have := (List.pairwise_append.mp hs).2.2 e he a0 (by simp)
      omega
    have hfc := findChild_last' init key c a0.fileBlock hkeys
    have hlt := keys_lt_last hg (SortedFB.of_append_left hs)
    have hdne := disks_ne_last hnd
    have hlk := lookupKey_last init key c (fun p hp => by have := hlt p hp; omega)
    have hfd := findDisk_last init key c hdne
    have hiso : (plist.isNone ≠ (disk == 0)) = False := by
      rcases hroot with ⟨rfl, rfl, _⟩ | ⟨pl, k0, rfl, hdz, _⟩
      · simp
      · simp [hdz]
    have hget : (init ++ [(key, c)])[init.length]? = some (key, c) := by simp
    have hsc : SortedFB (flatten c ++ a0 :: rest) := by
      simp only [flattenKids_append, flattenKids, List.append_nil, List.append_assoc] at hs
      exact hs.of_append_right
    have hlen' : init.length + 1 ≤ max := by simpa using hlen
    cases c with
    | leaf cmax cdisk cexts =>
      simp only [good] at hcg
      obtain ⟨hcm, hcl, hcne, hcdz⟩ := hcg
      obtain ⟨e0, es, rfl⟩ : ∃ e0 es, cexts = e0 :: es := by
        cases cexts with
        | nil => exact absurd rfl hcne
        | cons e0 es => exact ⟨e0, es, rfl⟩
      have hkey : e0.fileBlock = key := by simpa [Node.firstKey] using hck
      replace hlk : lookupKey (List.map (fun p => (p.1, p.2.disk)) (init ++ [(key, Node.leaf cmax cdisk (e0 :: es))])) key = cdisk := hlk
      replace hfd : findDisk (init ++ [(key, Node.leaf cmax cdisk (e0 :: es))]) cdisk = some init.length := hfd
      simp only [flatten] at hsc
      simp only [extendIx, hfc, hget, hiso, if_false, hcdz]
      by_cases hfit : (e0 :: es).length + (a0 :: rest).length ≤ cmax
      · -- appended in place
        have hfk : (Node.leaf cmax cdisk (e0 :: es ++ a0 :: rest)).firstKey = some key := by
          simp [Node.firstKey, hkey]
        have hhead : ((init ++ [(key, Node.leaf cmax cdisk (e0 :: es ++ a0 :: rest))]).head?.map (·.1)) =
            ((init ++ [(key, Node.leaf cmax cdisk (e0 :: es))]).head?.map (·.1)) := by
          cases init <;> simp
        have hwb2 := writeBack_parent plist max disk bs _ _ hroot hhead
        simp only [hfit, if_true]
        simp only [hfk]
        rw [writeBack_ok _ key cdisk hlk hcdz]
        simp only [Option.getD_some, List.set_append_right _ _ (Nat.le_refl _),
          Nat.sub_self, List.set_cons_zero, List.length_append, List.length_cons, List.length_nil, Nat.not_lt.mpr hlen', if_false, hwb2]
        refine ⟨[], rfl, Took.refl free s, Or.inl ⟨_, rfl, by simp, by simpa using hlen', ?_, hhead, ?_, ?_⟩⟩
        · refine (goodKids_append bs _ init _).mpr ⟨hgs.1, ?_⟩
          refine ⟨hcd, hfk, ⟨hcm, by simp only [List.length_append, List.length_cons] at hfit ⊢; omega, by simp, hcdz⟩, trivial⟩
        · simp [flattenKids_append, flattenKids, flatten]
        · simp [treeBlocksKids_append, treeBlocksKids, treeBlocks, Node.disk]
      · -- the leaf is full: refused, or split
        have hfit' : ¬ (es.length + 1 + (rest.length + 1) ≤ cmax) := by simpa using hfit
        simp only [hfit, if_false, true_and]
        by_cases hfull : disk ≠ 0 ∧ (init ++ [(key, Node.leaf cmax cdisk (e0 :: es))]).length + 1 > max
        · rw [if_pos hfull]
          simp only [refuses, List.getLast?_concat, List.length_cons]
          exact ⟨by omega, Or.inl hfull⟩
        · rw [if_neg hfull]
          rw [splitLeaf_fwd A s bs cdisk _ hsc hcdz]
          by_cases hhalf : (e0 :: es ++ a0 :: rest).length / 2 > nonRootMax bs ∨
              (e0 :: es ++ a0 :: rest).length - (e0 :: es ++ a0 :: rest).length / 2 > nonRootMax bs
          · simp only [hhalf, if_true]
            simp only [refuses, List.getLast?_concat, List.length_cons]
            refine ⟨by omega, Or.inr ?_⟩
            simpa [Nat.add_assoc, Nat.add_comm, Nat.add_left_comm] using hhalf
          · simp only [hhalf, if_false]
            cases htake : A.take s 1 with
            | none => exact ⟨s, 1, htake⟩
            | some p =>
              obtain ⟨b1, s1⟩ := p
              simp only [hfd]
              have hL : (e0 :: es ++ a0 :: rest).length = es.length + 1 + (rest.length + 1) := by simp; omega
              generalize hmid : (e0 :: es ++ a0 :: rest).length / 2 = mid at hhalf ⊢
              have hmid1 : 1 ≤ mid := by omega
              have hmidL : mid < (e0 :: es ++ a0 :: rest).length := by omega
              obtain ⟨la', hta⟩ : ∃ la', List.take mid (e0 :: es ++ a0 :: rest) = e0 :: la' := by
                cases mid with
                | zero => omega
                | succ m' => exact ⟨_, List.take_succ_cons⟩
              obtain ⟨eb, lb', htb⟩ : ∃ eb lb', List.drop mid (e0 :: es ++ a0 :: rest) = eb :: lb' := by
                cases hdr : List.drop mid (e0 :: es ++ a0 :: rest) with
                | nil => rw [List.drop_eq_nil_iff] at hdr; omega
                | cons eb lb' => exact ⟨eb, lb', rfl⟩
              have hab : (e0 :: la') ++ (eb :: lb') = e0 :: es ++ a0 :: rest := by
                rw [← hta, ← htb, List.take_append_drop]
              have hla : (e0 :: la').length ≤ nonRootMax bs := by
                rw [← hta, List.length_take]; omega
              have hlb : (eb :: lb').length ≤ nonRootMax bs := by
                rw [← htb, List.length_drop]; omega
              have htk : List.take init.length (init ++ [(key, Node.leaf cmax cdisk (e0 :: es))]) = init := by simp
              have hdr : List.drop (init.length + 1) (init ++ [(key, Node.leaf cmax cdisk (e0 :: es))]) = [] := by simp
              simp only [hta, htb, Node.firstKey, ne_eq, not_true_eq_false, if_false, htk, hdr, List.append_nil,
                List.length_append, List.length_cons, List.length_nil]
              have hnp : ¬ (¬ disk = 0 ∧ init.length + (0 + 1 + 1) > max) := by
                intro hh
                apply hfull
                refine ⟨hh.1, ?_⟩
                simp only [List.length_append, List.length_cons, List.length_nil]
                omega
              rw [if_neg hnp]
              have hb1 : b1 ≠ 0 := hA.ne_zero htake (by omega) hz
              have hT1 : Took free s s1 [b1] := hA.took htake
              have hgK : good.goodKids bs (fuel + 1) (init ++
                  [(e0.fileBlock, Node.leaf (nonRootMax bs) cdisk (e0 :: la')),
                    (eb.fileBlock, Node.leaf (nonRootMax bs) b1 (eb :: lb'))]) :=
                (goodKids_append bs _ init _).mpr ⟨hgs.1, ⟨hcd, rfl, ⟨rfl, hla, by simp, hcdz⟩, hcd, rfl, ⟨rfl, hlb, by simp, hb1⟩, trivial⟩⟩
              have hflK : flattenKids (init ++
                  [(e0.fileBlock, Node.leaf (nonRootMax bs) cdisk (e0 :: la')),
                    (eb.fileBlock, Node.leaf (nonRootMax bs) b1 (eb :: lb'))]) =
                  flattenKids (init ++ [(key, Node.leaf cmax cdisk (e0 :: es))]) ++ a0 :: rest := by
                have h1 : flattenKids (init ++
                    [(e0.fileBlock, Node.leaf (nonRootMax bs) cdisk (e0 :: la')),
                      (eb.fileBlock, Node.leaf (nonRootMax bs) b1 (eb :: lb'))]) =
                    flattenKids init ++ ((e0 :: la') ++ (eb :: lb')) := by
                  simp [flattenKids_append, flattenKids, flatten]
                rw [h1, hab]
                simp [flattenKids_append, flattenKids, flatten]
              have htbK : treeBlocksKids (init ++
                  [(e0.fileBlock, Node.leaf (nonRootMax bs) cdisk (e0 :: la')),
                    (eb.fileBlock, Node.leaf (nonRootMax bs) b1 (eb :: lb'))]) =
                  treeBlocksKids (init ++ [(key, Node.leaf cmax cdisk (e0 :: es))]) ++ [b1] := by
                simp [treeBlocksKids_append, treeBlocksKids, treeBlocks, Node.disk]
              have hheadK : ((init ++
                  [(e0.fileBlock, Node.leaf (nonRootMax bs) cdisk (e0 :: la')),
                    (eb.fileBlock, Node.leaf (nonRootMax bs) b1 (eb :: lb'))]).head?.map (·.1)) =
                  ((init ++ [(key, Node.leaf cmax cdisk (e0 :: es))]).head?.map (·.1)) := by
                cases init <;> simp [hkey]
              by_cases hov : init.length + (0 + 1 + 1) > max
              · rw [if_pos hov]
                have hd0 : disk = 0 := by
                  by_cases h0 : disk = 0
                  · exact h0
                  · exact absurd ⟨h0, hov⟩ hnp
                rcases hroot with ⟨rfl, _, rfl, hmx⟩ | ⟨pl, k0, _, hdz, _⟩
                · subst hd0
                  obtain ⟨p1, p2, p3, rfl⟩ : ∃ p1 p2 p3, init = [p1, p2, p3] := len_three init (by omega)
                  obtain ⟨k1, n1⟩ := p1
                  obtain ⟨k3, n3⟩ := p3
                  simp only [Option.isNone_none]
                  rw [splitIndex_fwd_root A s1 bs (fuel + 1) _ 1 k1 k3 n1 n3 [p2]
                    [(e0.fileBlock, Node.leaf (nonRootMax bs) cdisk (e0 :: la')),
                      (eb.fileBlock, Node.leaf (nonRootMax bs) b1 (eb :: lb'))] (by simp) (by simp) (by simp; omega)]
                  cases htake2 : A.take s1 2 with
                  | none => exact ⟨s1, 2, htake2⟩
                  | some q =>
                    obtain ⟨b2, s2⟩ := q
                    have hz1 : free s1 0 = false := hT1.zero hz
                    have hb2 : b2 ≠ 0 := hA.ne_zero htake2 (by omega) hz1
                    have hT2 : Took free s1 s2 [b2, b2 + 1] := hA.took htake2
                    simp only [good.goodKids, List.cons_append, List.nil_append] at hgK
                    obtain ⟨g1a, g1b, g1c, g2a, g2b, g2c, g3a, g3b, g3c, g4a, g4b, g4c, g5a, g5b, g5c, _⟩ := hgK
                    refine ⟨[b1] ++ [b2, b2 + 1], rfl, hT1.trans hT2, Or.inr ⟨trivial, _, rfl, by simp, by simp, ?_, ?_, ?_⟩⟩
                    · refine ⟨rfl, rfl, ⟨rfl, by simp; omega, by simp, hb2, g1a, g1b, g1c, g2a, g2b, g2c, trivial⟩,
                        rfl, rfl, ⟨rfl, by simp; omega, by simp, by omega, g3a, g3b, g3c, g4a, g4b, g4c, g5a, g5b, g5c, trivial⟩, trivial⟩
                    · rw [← hflK]
                      simp [flattenKids, flatten]
                    · rw [← List.append_assoc, ← htbK]
                      have := perm_two b2 (b2 + 1) (treeBlocksKids [(k1, n1), p2])
                        (treeBlocksKids [(k3, n3), (e0.fileBlock, Node.leaf (nonRootMax bs) cdisk (e0 :: la')),
                          (eb.fileBlock, Node.leaf (nonRootMax bs) b1 (eb :: lb'))])
                      rw [← treeBlocksKids_append] at this
                      simpa [treeBlocksKids, treeBlocks, Node.disk] using this
                · exact absurd hd0 hdz
              · rw [if_neg hov]
                refine ⟨[b1], rfl, hT1, Or.inl ⟨_, rfl, by simp, by simp; omega, hgK, hheadK, hflK, by rw [htbK]⟩⟩
    | index cmax cdisk cdepth ckids =>
      simp only [good] at hcg
      obtain ⟨hcm, hcl, hcne, hcdz, hckg⟩ := hcg
      obtain ⟨c0, ckr, rfl⟩ : ∃ c0 ckr, ckids = (key, c0) :: ckr := by
        cases ckids with
        | nil => exact absurd rfl hcne
        | cons q ckr =>
          obtain ⟨k', c0⟩ := q
          have : k' = key := by simpa [Node.firstKey] using hck
          subst this
          exact ⟨c0, ckr, rfl⟩
      replace hlk : lookupKey (List.map (fun p => (p.1, p.2.disk)) (init ++ [(key, Node.index cmax cdisk cdepth ((key, c0) :: ckr))])) key = cdisk := hlk
      have hcdep : cdepth = fuel := by simp only [Node.depth] at hcd; omega
      simp only [flatten] at hsc
      have hndc : (treeBlocksKids ((key, c0) :: ckr)).Nodup := by
        rw [treeBlocksKids_append] at hnd
        have := (List.nodup_append.mp hnd).2.1
        simp only [treeBlocksKids, treeBlocks, List.append_nil, List.cons_append] at this
        exact (List.nodup_cons.mp this).2
      have IH := ih s (some (List.map (fun p => (p.1, p.2.disk)) (init ++ [(key, Node.index cmax cdisk cdepth ((key, c0) :: ckr))])))
        cmax cdisk cdepth ((key, c0) :: ckr) a0 rest hcdep (by simp) hcl hckg
        (Or.inr ⟨_, key, rfl, hcdz, rfl, hlk⟩) hsc hndc hz
      simp only [extendIx, hfc, hget, hiso, if_false, hcdz]
      generalize extendIx true A bs fuel s
        (some (List.map (fun p => (p.1, p.2.disk)) (init ++ [(key, Node.index cmax cdisk cdepth ((key, c0) :: ckr))])))
        cmax cdisk cdepth ((key, c0) :: ckr) (a0 :: rest) = r at IH ⊢
      cases r with
      | panic => exact IH
      | weird => exact IH
      | err e =>
        cases e with
        | nospace => exact IH
        | notfound => exact IH
        | unsupported =>
          simp only [refuses, List.getLast?_concat]
          exact IH
      | ok res =>
        obtain ⟨child', m, s1⟩ := res
        simp only at IH
        obtain ⟨taken, hm, hT, hdisj⟩ := IH
        rcases hdisj with ⟨kids2, rfl, hne2, hlen2, hg2, hhd2, hfl2, hperm2⟩ | ⟨hcontra, _⟩
        · obtain ⟨n0, kr, rfl⟩ : ∃ n0 kr, kids2 = (key, n0) :: kr := by
            cases kids2 with
            | nil => exact absurd rfl hne2
            | cons q kr =>
              obtain ⟨k', n0⟩ := q
              have : k' = key := by simpa using hhd2
              subst this
              exact ⟨n0, kr, rfl⟩
          have hhead : ((init ++ [(key, Node.index cmax cdisk cdepth ((key, n0) :: kr))]).head?.map (·.1)) =
              ((init ++ [(key, Node.index cmax cdisk cdepth ((key, c0) :: ckr))]).head?.map (·.1)) := by
            cases init <;> simp
          have hwb2 := writeBack_parent plist max disk bs _ _ hroot hhead
          simp only [List.set_append_right _ _ (Nat.le_refl _), Nat.sub_self, List.set_cons_zero, List.length_append,
            List.length_cons, List.length_nil, Nat.not_lt.mpr hlen', if_false, hwb2]
          refine ⟨taken, hm, hT, Or.inl ⟨_, rfl, by simp, by simpa using hlen', ?_, hhead, ?_, ?_⟩⟩
          · refine (goodKids_append bs _ init _).mpr ⟨hgs.1, ?_⟩
            exact ⟨hcd, rfl, ⟨hcm, hlen2, hne2, hcdz, hg2⟩, trivial⟩
          · simp only [flattenKids_append, flattenKids, flatten, List.append_nil, List.append_assoc] at hfl2 ⊢
            rw [hfl2]
          · simp only [treeBlocksKids_append, treeBlocksKids, treeBlocks, Node.disk, List.append_nil, List.cons_append,
              List.append_assoc] at hperm2 ⊢
            exact List.Perm.append_left _ (List.Perm.cons _ hperm2)
        · cases hcontra

theorem splitLeaf_fwd0 {σ : Type} (A : Allocator σ) (s : σ) (bs : Nat) (all : List Extent) (hs : SortedFB all) :
    splitLeaf true A s bs 0 all =
      if all.length / 2 > nonRootMax bs ∨ all.length - all.length / 2 > nonRootMax bs then .err .unsupported
      else match A.take s 2 with
        | none => .err .nospace
        | some (b, s') =>
          .ok (.leaf (nonRootMax bs) b (all.take (all.length / 2)), .leaf (nonRootMax bs) (b + 1) (all.drop (all.length / 2)), 2, s') := by
  simp only [splitLeaf, sortFB_sorted _ hs, if_true, true_and]
  by_cases hc : all.length / 2 > nonRootMax bs ∨ all.length - all.length / 2 > nonRootMax bs
  · simp only [hc, if_true]
  · simp only [hc, if_false]
    cases A.take s 2 <;> rfl

/-- the refusal of a call on a root that is a leaf: more extents than two leaves in blocks hold -/
def refusesLeaf (bs n : Nat) (exts : List Extent) : Prop :=
  4 < exts.length + n ∧ nonRootMax bs < exts.length + n ∧
    ((exts.length + n) / 2 > nonRootMax bs ∨ (exts.length + n) - (exts.length + n) / 2 > nonRootMax bs)

theorem extendRootLeaf_good {σ : Type} (A : Allocator σ) (free : σ → Nat → Bool) (hA : AllocOK A free) (bs : Nat)
    (s : σ) (exts added : List Extent) (hs : SortedFB (exts ++ added)) (hz : free s 0 = false) :
    match extendRootLeaf true A s bs 4 0 exts added with
    | .ok (t', m, s') =>
      ∃ taken, taken.length = m ∧ Took free s s' taken ∧ goodRoot bs t' ∧ flatten t' = exts ++ added ∧
        treeBlocks t' = taken
    | .err .nospace => ∃ s0 n, A.take s0 n = none
    | .err .unsupported => refusesLeaf bs added.length exts
    | _ => False := by
  unfold extendRootLeaf
  by_cases hfit : exts.length + added.length ≤ 4
  · rw [if_pos hfit]
    exact ⟨[], rfl, Took.refl free s, ⟨rfl, rfl, by simpa using hfit⟩, rfl, rfl⟩
  · rw [if_neg hfit]
    obtain ⟨x, xs, hx⟩ : ∃ x xs, exts ++ added = x :: xs := by
      cases h : exts ++ added with
      | nil => have := congrArg List.length h; rw [List.length_append, List.length_nil] at this; omega
      | cons x xs => exact ⟨x, xs, rfl⟩
    have hlen : (exts ++ added).length = exts.length + added.length := by simp
    by_cases hone : exts.length + added.length ≤ nonRootMax bs
    · rw [if_pos hone]
      cases htake : A.take s 1 with
      | none => exact ⟨s, 1, htake⟩
      | some p =>
        obtain ⟨b, s1⟩ := p
        have hb : b ≠ 0 := hA.ne_zero htake (by omega) hz
        have hT : Took free s s1 [b] := hA.took htake
        rw [sortFB_sorted _ hs]
        simp only [hx, mkRoot, Node.firstKey, Node.depth, List.map_cons, List.map_nil, List.any_cons,
          List.any_nil, Option.isNone_some, Bool.or_false, Bool.false_eq_true, if_false, Option.getD_some]
        refine ⟨[b], rfl, hT, ⟨rfl, rfl, by simp, by simp, ?_⟩, by simp [flatten, flattenKids], by simp [treeBlocks, treeBlocksKids, Node.disk]⟩
        exact ⟨rfl, rfl, ⟨rfl, by rw [← hx, hlen]; exact hone, by simp, hb⟩, trivial⟩
    · rw [if_neg hone, splitLeaf_fwd0 A s bs _ hs]
      by_cases hhalf : (exts ++ added).length / 2 > nonRootMax bs ∨
          (exts ++ added).length - (exts ++ added).length / 2 > nonRootMax bs
      · rw [if_pos hhalf]
        rw [hlen] at hhalf
        exact ⟨by omega, by omega, hhalf⟩
      · rw [if_neg hhalf]
        cases htake : A.take s 2 with
        | none => exact ⟨s, 2, htake⟩
        | some p =>
          obtain ⟨b, s1⟩ := p
          have hb : b ≠ 0 := hA.ne_zero htake (by omega) hz
          have hT : Took free s s1 [b, b + 1] := hA.took htake
          generalize hmid : (exts ++ added).length / 2 = mid at hhalf ⊢
          have hmid1 : 1 ≤ mid := by omega
          have hmidL : mid < (exts ++ added).length := by omega
          obtain ⟨la', hta⟩ : ∃ la', List.take mid (exts ++ added) = x :: la' := by
            rw [hx]
            cases mid with
            | zero => omega
            | succ m' => exact ⟨_, List.take_succ_cons⟩
          obtain ⟨eb, lb', htb⟩ : ∃ eb lb', List.drop mid (exts ++ added) = eb :: lb' := by
            cases hdr : List.drop mid (exts ++ added) with
            | nil => rw [List.drop_eq_nil_iff] at hdr; omega
            | cons eb lb' => exact ⟨eb, lb', rfl⟩
          have hab : (x :: la') ++ (eb :: lb') = exts ++ added := by
            rw [← hta, ← htb, List.take_append_drop]
          have hla : (x :: la').length ≤ nonRootMax bs := by
            rw [← hta, List.length_take]; omega
          have hlb : (eb :: lb').length ≤ nonRootMax bs := by
            rw [← htb, List.length_drop]; omega
          simp only [hta, htb, mkRoot, Node.firstKey, Node.depth, List.map_cons, List.map_nil, List.any_cons,
            List.any_nil, Option.isNone_some, Bool.or_false, Bool.false_eq_true, if_false, Option.getD_some]
          refine ⟨[b, b + 1], rfl, hT, ⟨rfl, rfl, by simp, by simp, ?_⟩, ?_, by simp [treeBlocks, treeBlocksKids, Node.disk]⟩
          · exact ⟨rfl, rfl, ⟨rfl, hla, by simp, hb⟩, rfl, rfl, ⟨rfl, hlb, by simp, by omega⟩, trivial⟩
          · rw [← hab]; simp [flatten, flattenKids]


/-! ### extendExtentTree: one call, and histories of calls -/

/-- what a file's tree and the allocator state have in common: the tree has the invariant, block 0 and the tree's
    node blocks are not free -/
structure StateInv {σ : Type} (free : σ → Nat → Bool) (bs : Nat) (s : σ) (t : Node) : Prop where
  tree : TreeInv bs t
  zero : free s 0 = false
  owned : ∀ b ∈ treeBlocks t, free s b = false

theorem stateInv_step {σ : Type} {free : σ → Nat → Bool} {bs : Nat} {s s' : σ} {t t' : Node} {taken : List Nat}
    (hI : StateInv free bs s t) (hT : Took free s s' taken) (hp : (treeBlocks t').Perm (treeBlocks t ++ taken))
    (hr : goodRoot bs t') (hs : SortedFB (flatten t')) : StateInv free bs s' t' := by
  refine ⟨⟨hr, hs, ?_⟩, hT.zero hI.zero, ?_⟩
  · rw [hp.nodup_iff, List.nodup_append]
    refine ⟨hI.tree.nodup, hT.1, ?_⟩
    intro a ha b hb hab
    subst hab
    have h1 := hI.owned a ha
    have h2 := hT.2.1 a hb
    rw [h1] at h2
    cases h2
  · intro b hb
    rw [hT.2.2 b]
    rcases List.mem_append.mp (hp.mem_iff.mp hb) with h | h
    · rw [hI.owned b h]; rfl
    · simp [h]

def refusesTop (bs n : Nat) : Node → Prop
  | .leaf _ _ exts => refusesLeaf bs n exts
  | .index max disk depth kids => refuses bs n depth (.index max disk depth kids)

/-- one call of extendExtentTree on a tree that has the invariant -/
theorem extend_good {σ : Type} (A : Allocator σ) (free : σ → Nat → Bool) (hA : AllocOK A free) (bs : Nat)
    (h3 : 3 ≤ nonRootMax bs) (s : σ) (t : Node) (a0 : Extent) (rest : List Extent) (hI : StateInv free bs s t)
    (hs : SortedFB (flatten t ++ a0 :: rest)) :
    match extend true A s bs (some t) (a0 :: rest) with
    | .ok (t', m, s') =>
      StateInv free bs s' t' ∧ flatten t' = flatten t ++ a0 :: rest ∧
        ∃ taken, taken.length = m ∧ Took free s s' taken ∧ (treeBlocks t').Perm (treeBlocks t ++ taken)
    | .err .nospace => ∃ s0 n, A.take s0 n = none
    | .err .unsupported => refusesTop bs (rest.length + 1) t
    | _ => False := by
  cases t with
  | leaf max disk exts =>
    obtain ⟨rfl, rfl, _⟩ := hI.tree.root
    simp only [extend]
    have := extendRootLeaf_good A free hA bs s exts (a0 :: rest) (by simpa [flatten] using hs) hI.zero
    generalize extendRootLeaf true A s bs 4 0 exts (a0 :: rest) = r at this ⊢
    cases r with
    | panic => exact this
    | weird => exact this
    | err e =>
      cases e with
      | nospace => exact this
      | notfound => exact this
      | unsupported => exact this
    | ok res =>
      obtain ⟨t', m, s'⟩ := res
      simp only at this ⊢
      obtain ⟨taken, hm, hT, hr, hfl, htb⟩ := this
      have hp : (treeBlocks t').Perm (treeBlocks (Node.leaf 4 0 exts) ++ taken) := by
        rw [htb]; simp [treeBlocks]
      refine ⟨stateInv_step hI hT hp hr ?_, by simpa [flatten] using hfl, taken, hm, hT, hp⟩
      rw [hfl]; simpa [flatten] using hs
  | index max disk depth kids =>
    obtain ⟨rfl, rfl, hl, hne, hg⟩ := hI.tree.root
    simp only [extend]
    have := extendIx_good A free hA bs depth s none 4 0 depth kids a0 rest rfl hne hl hg
      (Or.inl ⟨rfl, rfl, rfl, h3⟩) (by simpa [flatten] using hs) (by simpa [treeBlocks] using hI.tree.nodup) hI.zero
    generalize extendIx true A bs depth s none 4 0 depth kids (a0 :: rest) = r at this ⊢
    cases r with
    | panic => exact this
    | weird => exact this
    | err e =>
      cases e with
      | nospace => exact this
      | notfound => exact this
      | unsupported => exact this
    | ok res =>
      obtain ⟨t', m, s'⟩ := res
      simp only at this ⊢
      obtain ⟨taken, hm, hT, hdisj⟩ := this
      rcases hdisj with ⟨kids', rfl, hne', hl', hg', _, hfl', hp'⟩ | ⟨_, kids', rfl, hne', hl', hg', hfl', hp'⟩
      · refine ⟨stateInv_step hI hT (by simpa [treeBlocks] using hp') ⟨rfl, rfl, hl', hne', hg'⟩ ?_,
          by simpa [flatten] using hfl', taken, hm, hT, by simpa [treeBlocks] using hp'⟩
        simp only [flatten]; rw [hfl']; simpa [flatten] using hs
      · refine ⟨stateInv_step hI hT (by simpa [treeBlocks] using hp') ⟨rfl, rfl, hl', hne', hg'⟩ ?_,
          by simpa [flatten] using hfl', taken, hm, hT, by simpa [treeBlocks] using hp'⟩
        simp only [flatten]; rw [hfl']; simpa [flatten] using hs

/-- the extents / node blocks of a file that may have no tree yet -/
def oflat : Option Node → List Extent
  | none => []
  | some t => flatten t
def oblocks : Option Node → List Nat
  | none => []
  | some t => treeBlocks t

def OInv {σ : Type} (free : σ → Nat → Bool) (bs : Nat) (s : σ) : Option Node → Prop
  | none => free s 0 = false
  | some t => StateInv free bs s t

/-- a history of extendExtentTree calls on one file (each call adds the extents of one allocation); it stops at
    the first call that does not answer ok; the number is the sum of the metaBlocks the calls reported -/
def runExtends {σ : Type} (A : Allocator σ) (bs : Nat) : σ → Option Node → List (List Extent) → Res (σ × Option Node × Nat)
  | s, t, [] => .ok (s, t, 0)
  | s, t, a :: as =>
    match extend true A s bs t a with
    | .ok (t', m, s') =>
      match runExtends A bs s' (some t') as with
      | .ok (s2, t2, M) => .ok (s2, t2, m + M)
      | .err e => .err e
      | .panic => .panic
      | .weird => .weird
    | .err e => .err e
    | .panic => .panic
    | .weird => .weird

theorem runExtends_good {σ : Type} (A : Allocator σ) (free : σ → Nat → Bool) (hA : AllocOK A free) (bs : Nat)
    (h3 : 3 ≤ nonRootMax bs) (calls : List (List Extent)) (hne : ∀ c ∈ calls, c ≠ []) :
    ∀ (s : σ) (t : Option Node), OInv free bs s t → SortedFB (oflat t ++ calls.flatten) →
    match runExtends A bs s t calls with
    | .ok (s', t', M) =>
      OInv free bs s' t' ∧ oflat t' = oflat t ++ calls.flatten ∧
        ∃ taken, taken.length = M ∧ Took free s s' taken ∧ (oblocks t').Perm (oblocks t ++ taken)
    | .err .nospace => ∃ s0 n, A.take s0 n = none
    | .err .unsupported => True
    | _ => False := by
  induction calls with
  | nil =>
    intro s t hI _
    simp only [runExtends, List.flatten_nil, List.append_nil]
    exact ⟨hI, trivial, [], rfl, Took.refl free s, by simp⟩
  | cons a as ih =>
    intro s t hI hs
    obtain ⟨a0, rest, rfl⟩ : ∃ a0 rest, a = a0 :: rest := by
      cases a with
      | nil => exact absurd rfl (hne [] (by simp))
      | cons a0 rest => exact ⟨a0, rest, rfl⟩
    simp only [List.flatten_cons] at hs
    rw [← List.append_assoc] at hs
    -- the first call
    have hstep : match extend true A s bs t (a0 :: rest) with
        | .ok (t', m, s') =>
          StateInv free bs s' t' ∧ flatten t' = oflat t ++ a0 :: rest ∧
            ∃ taken, taken.length = m ∧ Took free s s' taken ∧ (treeBlocks t').Perm (oblocks t ++ taken)
        | .err .nospace => ∃ s0 n, A.take s0 n = none
        | .err .unsupported => True
        | _ => False := by
      cases t with
      | none =>
        simp only [extend]
        by_cases h4 : (a0 :: rest).length ≤ 4
        · rw [if_pos h4]
          refine ⟨⟨⟨⟨rfl, rfl, h4⟩, ?_, by simp [treeBlocks]⟩, hI, by simp [treeBlocks]⟩, by simp [flatten, oflat], [], rfl,
            Took.refl free s, by simp [treeBlocks, oblocks]⟩
          simpa [flatten, oflat] using hs.of_append_left
        · rw [if_neg h4]; trivial
      | some t0 =>
        have := extend_good A free hA bs h3 s t0 a0 rest hI (by simpa [oflat] using hs.of_append_left)
        generalize extend true A s bs (some t0) (a0 :: rest) = r at this ⊢
        cases r with
        | panic => exact this
        | weird => exact this
        | err e =>
          cases e with
          | nospace => exact this
          | notfound => exact this
          | unsupported => trivial
        | ok res => exact this
    simp only [runExtends]
    generalize extend true A s bs t (a0 :: rest) = r at hstep ⊢
    cases r with
    | panic => exact hstep
    | weird => exact hstep
    | err e =>
      cases e with
      | nospace => exact hstep
      | notfound => exact hstep
      | unsupported => trivial
    | ok res =>
      obtain ⟨t1, m, s1⟩ := res
      simp only at hstep ⊢
      obtain ⟨hI1, hfl1, taken1, hm1, hT1, hp1⟩ := hstep
      have := ih (fun c hc => hne c (by simp [hc])) s1 (some t1) hI1 (by simpa [oflat, hfl1] using hs)
      generalize runExtends A bs s1 (some t1) as = r2 at this ⊢
      cases r2 with
      | panic => exact this
      | weird => exact this
      | err e =>
        cases e with
        | nospace => exact this
        | notfound => exact this
        | unsupported => trivial
      | ok res2 =>
        obtain ⟨s2, t2, M⟩ := res2
        simp only at this ⊢
        obtain ⟨hI2, hfl2, taken2, hm2, hT2, hp2⟩ := this
        refine ⟨hI2, ?_, taken1 ++ taken2, by simp [hm1, hm2], hT1.trans hT2, ?_⟩
        · rw [hfl2]; simp [oflat, hfl1]
        · have : (oblocks (some t1) ++ taken2).Perm ((oblocks t ++ taken1) ++ taken2) := List.Perm.append_right _ hp1
          rw [List.append_assoc] at this
          exact hp2.trans this


/-! ### a concrete allocator that satisfies the laws -/

/-- the bump allocator of the examples hands out blocks that were free (`free s x` = `s ≤ x`) -/
theorem bump_ok : AllocOK bump (fun s x => decide (s ≤ x)) := by
  refine ⟨?_, ?_⟩
  · intro s n b s' h i _
    simp only [bump, Option.some.injEq, Prod.mk.injEq] at h
    obtain ⟨rfl, _⟩ := h
    simp
  · intro s n b s' h x
    simp only [bump, Option.some.injEq, Prod.mk.injEq] at h
    obtain ⟨rfl, rfl⟩ := h
    by_cases h1 : s + n ≤ x
    · have h2 : s ≤ x := by omega
      have h3 : ¬ (x < s + n) := by omega
      simp [h1, h2, h3]
    · by_cases h2 : s ≤ x
      · have h3 : s ≤ x ∧ x < s + n := by omega
        simp [h1, h2, h3]
      · simp [h1, h2]

end Diskfs.Ext4.ExtTree
