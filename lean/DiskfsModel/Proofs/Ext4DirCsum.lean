/-
  The real checksum tail (Model/Ext4/DirCsum.lean) satisfies what the directory theorems ask of a tail function, so
  `dirpack_*` and `remove_dir_rewrite` hold for the bytes the library writes when metadata_csum is on.
-/
import DiskfsModel.Model.Ext4.DirCsum
import DiskfsModel.Proofs.Ext4DirRewrite
namespace Diskfs.Ext4.DirPack
open Diskfs Diskfs.Ext4

theorem dirTail_length (seed ino gen : Nat) (b : Bytes) : (dirTail seed ino gen b).length = 12 := by
  simp [dirTail]

theorem dirTail_ok (csum : Bool) (seed ino gen : Nat) : TailOK csum (dirTail seed ino gen) :=
  fun _ b => dirTail_length seed ino gen b

/-- an empty directory block of a checksummed directory: one unused entry over `bs - 12` bytes followed by the tail
    computed over exactly these bytes with the directory's own inode number and generation -/
theorem emptyBlock_csum (bs seed ino gen : Nat) :
    emptyBlock bs true (dirTail seed ino gen) =
      encEntry emp ((bs - 12) % 65536) ++ dirTail seed ino gen (encEntry emp ((bs - 12) % 65536)) := by
  simp [emptyBlock, fin]

end Diskfs.Ext4.DirPack
