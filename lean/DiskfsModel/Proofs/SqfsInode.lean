import DiskfsModel.Model.Sqfs.Inode
import DiskfsModel.Proofs.SqfsCodec
namespace Diskfs.Sqfs

theorem e2 (n : Nat) (h : n < 2 ^ 16) : leDec (leEnc 2 n) = n := leDec_leEnc_of_lt 2 n (by simpa using h)
theorem e4 (n : Nat) (h : n < 2 ^ 32) : leDec (leEnc 4 n) = n := leDec_leEnc_of_lt 4 n (by simpa using h)
theorem e8 (n : Nat) (h : n < 2 ^ 64) : leDec (leEnc 8 n) = n := leDec_leEnc_of_lt 8 n (by simpa using h)

theorem blk_roundtrip (b : Blk) (h : b.WF) : Blk.ofWord b.word = b := by
  obtain ⟨sz, c⟩ := b
  simp only [Blk.WF] at h
  cases c
  · simp only [Blk.word, Blk.ofWord, Bool.false_eq_true, if_false, Blk.mk.injEq]
    refine ⟨by omega, ?_⟩
    have : (sz + 2 ^ 24) / 2 ^ 24 = 1 := by omega
    simp [this]
  · simp only [Blk.word, Blk.ofWord, if_true, Nat.add_zero, Blk.mk.injEq]
    refine ⟨Nat.mod_eq_of_lt h, ?_⟩
    have : sz / 2 ^ 24 = 0 := Nat.div_eq_of_lt h
    simp [this]

theorem blk_word_lt (b : Blk) (h : b.WF) : b.word < 2 ^ 32 := by
  simp only [Blk.WF] at h
  unfold Blk.word; split <;> omega

theorem encodeBlks_length (l : List Blk) : (encodeBlks l).length = 4 * l.length := by
  induction l with
  | nil => rfl
  | cons b r ih =>
    have : encodeBlks (b :: r) = leEnc 4 b.word ++ encodeBlks r := by simp [encodeBlks]
    rw [this, List.length_append, ih]; simp; omega

theorem decode_encodeBlks (l : List Blk) (rest : Bytes) (h : ∀ b ∈ l, b.WF) :
    decodeBlks l.length (encodeBlks l ++ rest) = some (l, rest) := by
  induction l with
  | nil => simp [decodeBlks, encodeBlks]
  | cons b r ih =>
    have e : encodeBlks (b :: r) ++ rest = leEnc 4 b.word ++ (encodeBlks r ++ rest) := by simp [encodeBlks]
    have hb := h b (List.mem_cons_self ..)
    rw [e, List.length_cons, decodeBlks]
    have hl : ¬ (leEnc 4 b.word ++ (encodeBlks r ++ rest)).length < 4 := by simp
    rw [if_neg hl]
    have hd : (leEnc 4 b.word ++ (encodeBlks r ++ rest)).drop 4 = encodeBlks r ++ rest := by simp
    have ht : (leEnc 4 b.word ++ (encodeBlks r ++ rest)).take 4 = leEnc 4 b.word := by simp
    rw [hd, ht, ih (fun x hx => h x (List.mem_cons_of_mem _ hx)), e4 _ (blk_word_lt b hb), blk_roundtrip b hb]

theorem split_leEnc (k n : Nat) (rest : Bytes) : split k (leEnc k n ++ rest) = (leEnc k n, rest) :=
  split_append _ _ k (by simp)

theorem decode_encodeBody (bs : Nat) (body : IBody) (rest : Bytes) (h : body.WF bs) :
    decodeBody bs body.typ (encodeBody body ++ rest) = some (body, rest) := by
  cases body with
  | basicDir sb links fs off par =>
    obtain ⟨h1, h2, h3, h4, h5⟩ := h
    have hl : ¬ (4 + (4 + (2 + (2 + (4 + rest.length)))) < 16) := by omega
    simp [decodeBody, IBody.typ, encodeBody, split_leEnc, e4 _ h1, e4 _ h2, e2 _ h3, e2 _ h4, e4 _ h5, hl]
  | extDir links fs sb par off xa =>
    obtain ⟨h1, h2, h3, h4, h5, h6⟩ := h
    have hl : ¬ (4 + (4 + (4 + (4 + (2 + (2 + (4 + rest.length)))))) < 24) := by omega
    simp [decodeBody, IBody.typ, encodeBody, split_leEnc, e4 _ h1, e4 _ h2, e4 _ h3, e4 _ h4, e2 _ h5, e4 _ h6, e2 0 (by decide), hl]
  | basicFile st fr fo fs bl =>
    obtain ⟨h1, h2, h3, h4, h5, h6⟩ := h
    have hl : ¬ (4 + (4 + (4 + (4 + ((encodeBlks bl).length + rest.length)))) < 16) := by omega
    simp [decodeBody, IBody.typ, encodeBody, split_leEnc, e4 _ h1, e4 _ h2, e4 _ h3, e4 _ h4, hl, ← h6, decode_encodeBlks bl rest h5]
  | extFile st fs sp links fr fo xa bl =>
    obtain ⟨h1, h2, h3, h4, h5, h6, h7, h8, h9⟩ := h
    have hl : ¬ (8 + (8 + (8 + (4 + (4 + (4 + (4 + ((encodeBlks bl).length + rest.length))))))) < 40) := by omega
    simp [decodeBody, IBody.typ, encodeBody, split_leEnc, e8 _ h1, e8 _ h2, e8 _ h3, e4 _ h4, e4 _ h5, e4 _ h6, e4 _ h7, hl, ← h9,
      decode_encodeBlks bl rest h8]
  | basicSymlink links t =>
    obtain ⟨h1, h2⟩ := h
    have hl : ¬ (4 + (4 + (t.length + rest.length)) < 8) := by omega
    simp [decodeBody, IBody.typ, encodeBody, split_leEnc, e4 _ h1, e4 _ h2, hl]

theorem body_typ_lt (b : IBody) : b.typ < 2 ^ 16 := by cases b <;> simp [IBody.typ]

theorem decode_encodeInode (bs : Nat) (i : Inode) (rest : Bytes) (h : i.WF bs) :
    decodeInode bs (encodeInode i ++ rest) = some (i, rest) := by
  obtain ⟨h1, h2, h3, h4, h5, h6⟩ := h
  have hl : ¬ (2 + (2 + (2 + (2 + (4 + (4 + ((encodeBody i.body).length + rest.length)))))) < 16) := by omega
  simp [decodeInode, encodeInode, split_leEnc, hl, e2 _ (body_typ_lt _), decode_encodeBody bs i.body rest h6,
    e2 _ h1, e2 _ h2, e2 _ h3, e4 _ h4, e4 _ h5]

theorem encodeInode_length (i : Inode) : (encodeInode i).length = i.size := by
  obtain ⟨hdr, body⟩ := i
  cases body <;> simp [encodeInode, encodeBody, Inode.size, encodeBlks_length] <;> omega

/-! ### directory table -/

theorem decode_encodeDEnt (base : Nat) (e : DEnt) (rest : Bytes) (h : e.WF base) :
    decodeDEnt base e.startBlock (encodeDEnt base e ++ rest) = some (e, rest) := by
  obtain ⟨h1, h2, h3, h4, h5, h6, h7⟩ := h
  have hdiff : (e.inodeNumber + 2 ^ 32 - base) % 2 ^ 32 = e.inodeNumber - base := by omega
  have hd16 : e.inodeNumber - base < 2 ^ 16 := by omega
  have hl : ¬ (2 + (2 + (2 + (2 + (e.name.length + rest.length)))) < 8) := by omega
  have hn : e.name.length - 1 < 2 ^ 16 := by omega
  have hn2 : ¬ (256 < e.name.length - 1) := by omega
  have hn4 : e.name.length - 1 + 1 = e.name.length := by omega
  have hi : e.inodeNumber - base + base = e.inodeNumber := by omega
  obtain ⟨off, ino, ty, nm, sb⟩ := e
  simp only at *
  simp [decodeDEnt, encodeDEnt, split_leEnc, hl, hdiff, e2 _ h1, e2 _ hd16, e2 _ h2, e2 _ hn, hn2, hn4, hi]

theorem decode_encodeDEnts (base sb : Nat) (g : List DEnt) (rest : Bytes)
    (h : ∀ e ∈ g, e.WF base ∧ e.startBlock = sb) :
    decodeDEnts base sb g.length ((g.map (encodeDEnt base)).flatten ++ rest) = some (g, rest) := by
  induction g with
  | nil => simp [decodeDEnts]
  | cons e r ih =>
    obtain ⟨hw, hs⟩ := h e (List.mem_cons_self ..)
    have := decode_encodeDEnt base e ((r.map (encodeDEnt base)).flatten ++ rest) hw
    rw [hs] at this
    simp only [List.map_cons, List.flatten_cons, List.append_assoc, List.length_cons, decodeDEnts, this,
      ih (fun x hx => h x (List.mem_cons_of_mem _ hx))]

theorem takeGroup_spec (sb : Nat) (n : Nat) (l : List DEnt) :
    (∀ e ∈ takeGroup sb n l, e.startBlock = sb) ∧ takeGroup sb n l ++ l.drop (takeGroup sb n l).length = l ∧
    (takeGroup sb n l).length ≤ n := by
  induction n generalizing l with
  | zero => simp [takeGroup]
  | succ n ih =>
    cases l with
    | nil => simp [takeGroup]
    | cons e r =>
      by_cases h : e.startBlock = sb
      · obtain ⟨a, b, c⟩ := ih r
        simp only [takeGroup, h, if_true, List.mem_cons, List.length_cons, List.drop_succ_cons, List.cons_append]
        refine ⟨?_, by rw [b], by omega⟩
        rintro x (rfl | hx)
        · exact h
        · exact a x hx
      · simp [takeGroup, h]

theorem takeGroup_head (e : DEnt) (r : List DEnt) (n : Nat) :
    0 < (takeGroup e.startBlock (n + 1) (e :: r)).length := by simp [takeGroup]

/-- **directory listing round trip**: `parseDirectory` returns the entries `directory.toBytes`
    was given, each with the inode block of its header -/
theorem decode_encodeDir (base : Nat) (hb : base < 2 ^ 32) :
    ∀ (fe : Nat) (es : List DEnt) (fd : Nat), es.length ≤ fe → es.length < fd → (∀ e ∈ es, e.WF base) →
      decodeDir fd (encodeDir base fe es) = some es := by
  intro fe
  induction fe with
  | zero =>
    intro es fd h1 h2 _
    have : es = [] := List.length_eq_zero_iff.1 (by omega)
    subst this
    cases fd with
    | zero => omega
    | succ fd => simp [encodeDir, decodeDir]
  | succ fe ih =>
    intro es fd h1 h2 hw
    cases es with
    | nil =>
      cases fd with
      | zero => omega
      | succ fd => simp [encodeDir, decodeDir]
    | cons e r =>
      cases fd with
      | zero => omega
      | succ fd =>
        obtain ⟨gsb, gpre, glen⟩ := takeGroup_spec e.startBlock maxDirEntries (e :: r)
        have gpos : 0 < (takeGroup e.startBlock maxDirEntries (e :: r)).length := takeGroup_head e r 255
        generalize hg : takeGroup e.startBlock maxDirEntries (e :: r) = g at gsb gpre glen gpos
        have hgw : ∀ x ∈ g, x.WF base ∧ x.startBlock = e.startBlock := by
          intro x hx
          refine ⟨hw x ?_, gsb x hx⟩
          rw [← gpre]; exact List.mem_append_left _ hx
        have hrestlen : ((e :: r).drop g.length).length ≤ fe := by
          simp only [List.length_drop, List.length_cons] at *; omega
        have hrestw : ∀ x ∈ (e :: r).drop g.length, x.WF base := fun x hx => hw x (List.mem_of_mem_drop hx)
        have hrest := ih ((e :: r).drop g.length) fd hrestlen (by
          simp only [List.length_drop, List.length_cons] at *; omega) hrestw
        have hsb : e.startBlock < 2 ^ 32 := (hw e (List.mem_cons_self ..)).2.2.2.2.1
        have hcnt : g.length - 1 < 2 ^ 32 := by simp only [maxDirEntries] at glen; omega
        have hc1 : g.length - 1 + 1 = g.length := by omega
        have hl : ¬ (4 + (4 + (4 + (((g.map (encodeDEnt base)).flatten).length +
            (encodeDir base fe ((e :: r).drop g.length)).length))) < 12) := by omega
        have hc3 : ¬ (g.length > maxDirEntries) := by omega
        simp only [encodeDir, hg, decodeDir, List.length_append, leEnc_length, hl, if_false, split_leEnc,
          e4 _ hcnt, e4 _ hsb, e4 _ hb, hc1, decode_encodeDEnts base e.startBlock g _ hgw, hrest, gpre]
        rw [if_neg hc3]

theorem decode_encodeListing (base : Nat) (hb : base < 2 ^ 32) (es : List DEnt) (h : ∀ e ∈ es, e.WF base) :
    decodeDir (es.length + 1) (encodeListing base es) = some es :=
  decode_encodeDir base hb es.length es (es.length + 1) (Nat.le_refl _) (Nat.lt_succ_self _) h

/-- directory listing round trip with up to 11 stray bytes behind the listing: `parseDirectory`
    stops when fewer than 12 bytes are left (go-diskfs' own `getDirectoryEntries` hands it the
    inode's file_size, 3 bytes more than the listing is long) -/
theorem decode_encodeDir_tail (base : Nat) (hb : base < 2 ^ 32) (t : Bytes) (ht : t.length < 12) :
    ∀ (fe : Nat) (es : List DEnt) (fd : Nat), es.length ≤ fe → es.length < fd → (∀ e ∈ es, e.WF base) →
      decodeDir fd (encodeDir base fe es ++ t) = some es := by
  intro fe
  induction fe with
  | zero =>
    intro es fd h1 h2 _
    have : es = [] := List.length_eq_zero_iff.1 (by omega)
    subst this
    cases fd with
    | zero => omega
    | succ fd => simp [encodeDir, decodeDir, ht]
  | succ fe ih =>
    intro es fd h1 h2 hw
    cases es with
    | nil =>
      cases fd with
      | zero => omega
      | succ fd => simp [encodeDir, decodeDir, ht]
    | cons e r =>
      cases fd with
      | zero => omega
      | succ fd =>
        obtain ⟨gsb, gpre, glen⟩ := takeGroup_spec e.startBlock maxDirEntries (e :: r)
        have gpos : 0 < (takeGroup e.startBlock maxDirEntries (e :: r)).length := takeGroup_head e r 255
        generalize hg : takeGroup e.startBlock maxDirEntries (e :: r) = g at gsb gpre glen gpos
        have hgw : ∀ x ∈ g, x.WF base ∧ x.startBlock = e.startBlock := by
          intro x hx
          refine ⟨hw x ?_, gsb x hx⟩
          rw [← gpre]; exact List.mem_append_left _ hx
        have hrestlen : ((e :: r).drop g.length).length ≤ fe := by
          simp only [List.length_drop, List.length_cons] at *; omega
        have hrestw : ∀ x ∈ (e :: r).drop g.length, x.WF base := fun x hx => hw x (List.mem_of_mem_drop hx)
        have hrest := ih ((e :: r).drop g.length) fd hrestlen (by
          simp only [List.length_drop, List.length_cons] at *; omega) hrestw
        have hsb : e.startBlock < 2 ^ 32 := (hw e (List.mem_cons_self ..)).2.2.2.2.1
        have hcnt : g.length - 1 < 2 ^ 32 := by simp only [maxDirEntries] at glen; omega
        have hc1 : g.length - 1 + 1 = g.length := by omega
        have hl : ¬ (4 + (4 + (4 + (((g.map (encodeDEnt base)).flatten).length +
            ((encodeDir base fe ((e :: r).drop g.length)).length + t.length)))) < 12) := by omega
        have hc3 : ¬ (g.length > maxDirEntries) := by omega
        simp only [encodeDir, hg, decodeDir, List.append_assoc, List.length_append, leEnc_length, hl, if_false, split_leEnc,
          e4 _ hcnt, e4 _ hsb, e4 _ hb, hc1, decode_encodeDEnts base e.startBlock g _ hgw, hrest, gpre]
        rw [if_neg hc3]

end Diskfs.Sqfs
