import DiskfsModel.Proofs.IsoCompose
import DiskfsModel.Proofs.IsoPT
namespace Diskfs.Iso

/-! ### the path table of a laid-out tree is well formed -/

/-- the path table order: every directory once, the root first, a directory after its parent
    (`sortFinalizeFileInfoPathTable` orders by depth first) -/
structure WTree.PtOK (w : WTree) (pt : List Nat) : Prop where
  nodup : pt.Nodup
  head : pt.head? = some 0
  dirs : ∀ d ∈ pt, d < w.n ∧ w.isDir d = true
  parent : ∀ d ∈ pt, d ≠ 0 → w.parent d ∈ pt ∧ pt.idxOf (w.parent d) < pt.idxOf d

section
variable (w : WTree) (order : Nat → List Nm) (fin : Nat → Nat → Nm) (loc : Nat → Nat) (pt : List Nat)

/-- the directory record number `i` of the table is about -/
def dirOf (i : Nat) : Nat := pt.getD (i - 1) 0

theorem ptRec_ptRecs (i : Nat) (h1 : 1 ≤ i) (hl : i ≤ pt.length) :
    ptRec (w.ptRecs fin loc pt) i =
      { name := w.ident fin (dirOf pt i), loc := loc (dirOf pt i), parent := pt.idxOf (w.parent (dirOf pt i)) + 1 } := by
  have hlt : i - 1 < pt.length := by omega
  simp only [ptRec, WTree.ptRecs, dirOf, List.getD_eq_getElem?_getD, List.getElem?_map, List.getElem?_eq_getElem hlt,
    Option.map_some, Option.getD_some]

theorem dirOf_mem (hn : pt.Nodup) (i : Nat) (h1 : 1 ≤ i) (hl : i ≤ pt.length) :
    dirOf pt i ∈ pt ∧ pt.idxOf (dirOf pt i) = i - 1 := by
  have hlt : i - 1 < pt.length := by omega
  have e : dirOf pt i = pt[i - 1] := by
    simp only [dirOf, List.getD_eq_getElem?_getD, List.getElem?_eq_getElem hlt, Option.getD_some]
  rw [e]
  exact ⟨List.getElem_mem hlt, hn.idxOf_getElem (i - 1) hlt⟩

theorem idxOf_inj (a b : Nat) (ha : a ∈ pt) (hb : b ∈ pt) (h : pt.idxOf a = pt.idxOf b) : a = b := by
  rw [← getD_idxOf pt a ha, ← getD_idxOf pt b hb, h]

theorem strBytes_ok_ne (s : Str) (hs : ∀ c ∈ s, okChar c = true) (x : UInt8) (hx : x = 0 ∨ x = 46) : strBytes s ≠ [x] := by
  intro h
  cases s with
  | nil => simp [strBytes] at h
  | cons c r =>
    simp only [strBytes, List.map_cons, List.cons.injEq] at h
    have hc := okChar_lt c (hs c (List.mem_cons_self ..))
    have hn : (UInt8.ofNat c).toNat = c := ofNat_toNat_of_lt c (by omega)
    have hok := hs c (List.mem_cons_self ..)
    rcases hx with rfl | rfl
    · rw [h.1] at hn
      have : c = 0 := by simpa using hn.symm
      subst this
      exact absurd hok (by decide)
    · rw [h.1] at hn
      have : c = 46 := by simpa using hn.symm
      exact hc.2 this

/-- **the path table `createPathTable` makes for a laid-out tree is well formed** -/
theorem ptRecs_wf (o : Order) (hok : w.OK o) (hr : w.Resolved order fin) (hpt : w.PtOK pt) :
    PtWF (w.ptRecs fin loc pt) := by
  have hlen : (w.ptRecs fin loc pt).length = pt.length := by simp [WTree.ptRecs]
  have h0mem : 0 ∈ pt := List.mem_of_mem_head? hpt.head
  have h0idx : pt.idxOf 0 = 0 := by
    cases hp : pt with
    | nil => rw [hp] at h0mem; cases h0mem
    | cons a r =>
      have := hpt.head
      rw [hp] at this
      simp only [List.head?_cons, Option.some.injEq] at this
      subst this
      exact List.idxOf_cons_self
  -- a record other than the first is about a directory other than the root, a child of its parent
  have hkid : ∀ i, 2 ≤ i → i ≤ pt.length →
      dirOf pt i ≠ 0 ∧ dirOf pt i < w.n ∧ w.parent (dirOf pt i) < w.n ∧ w.isDir (w.parent (dirOf pt i)) = true ∧
      dirOf pt i ∈ w.kids (w.parent (dirOf pt i)) ∧ w.isDir (dirOf pt i) = true := by
    intro i h2 hl
    have hm := dirOf_mem pt hpt.nodup i (by omega) hl
    have hne : dirOf pt i ≠ 0 := by
      intro e
      rw [e, h0idx] at hm
      omega
    have hd := hpt.dirs _ hm.1
    have hk := hok.inKids _ hd.1 hne
    exact ⟨hne, hd.1, hok.parLt _ hd.1, hk.1, hk.2, hd.2⟩
  have hname : ∀ i, 2 ≤ i → i ≤ pt.length → ∀ x : UInt8, (x = 0 ∨ x = 46) → w.ident fin (dirOf pt i) ≠ [x] := by
    intro i h2 hl x hx
    obtain ⟨hne, hdn, hpn, hpd, hin, hdir⟩ := hkid i h2 hl
    have F := resolved_facts w order fin hr (w.parent (dirOf pt i)) hpn hpd
    have hv := F.2.1 _ (List.idxOf_lt_length_of_mem hin)
    simp only [WTree.ident, hne, if_false, hdir, isoIdent, if_true]
    exact strBytes_ok_ne _ hv.2.2.1 x hx
  refine ⟨?_, ?_, ?_⟩
  · intro i h2 hl
    rw [hlen] at hl
    rw [ptRec_ptRecs w fin loc pt i (by omega) hl]
    have hm := dirOf_mem pt hpt.nodup i (by omega) hl
    have hp := hpt.parent _ hm.1 (hkid i h2 hl).1
    simp only
    omega
  · intro i j hi hil hj hjl hpar hnm
    rw [hlen] at hil hjl
    rw [ptRec_ptRecs w fin loc pt i hi hil, ptRec_ptRecs w fin loc pt j hj hjl] at hpar hnm
    simp only at hpar hnm
    by_cases hi1 : i = 1
    · by_cases hj1 : j = 1
      · omega
      · exfalso
        subst hi1
        have : dirOf pt 1 = 0 := by
          have hm := dirOf_mem pt hpt.nodup 1 (by omega) hil
          exact idxOf_inj pt _ _ hm.1 h0mem (by rw [hm.2, h0idx])
        rw [this] at hnm
        simp only [WTree.ident, if_true] at hnm
        exact hname j (by omega) hjl 0 (Or.inl rfl) hnm.symm
    · by_cases hj1 : j = 1
      · exfalso
        subst hj1
        have : dirOf pt 1 = 0 := by
          have hm := dirOf_mem pt hpt.nodup 1 (by omega) hjl
          exact idxOf_inj pt _ _ hm.1 h0mem (by rw [hm.2, h0idx])
        rw [this] at hnm
        simp only [WTree.ident, if_true] at hnm
        exact hname i (by omega) hil 0 (Or.inl rfl) hnm
      · obtain ⟨hnei, hdni, hpni, hpdi, hini, _⟩ := hkid i (by omega) hil
        obtain ⟨hnej, hdnj, hpnj, hpdj, hinj, _⟩ := hkid j (by omega) hjl
        have hmi := dirOf_mem pt hpt.nodup i hi hil
        have hmj := dirOf_mem pt hpt.nodup j hj hjl
        have hpe : w.parent (dirOf pt i) = w.parent (dirOf pt j) :=
          idxOf_inj pt _ _ (hpt.parent _ hmi.1 hnei).1 (hpt.parent _ hmj.1 hnej).1 (by omega)
        have hde : dirOf pt i = dirOf pt j := by
          by_cases he : dirOf pt i = dirOf pt j
          · exact he
          · exfalso
            rw [← hpe] at hinj
            exact (ident_facts w order fin o hok hr _ hpni hpdi).2 _ hini _ hinj he hnm
        have := congrArg (pt.idxOf ·) hde
        simp only [hmi.2, hmj.2] at this
        omega
  · intro i h2 hl
    rw [hlen] at hl
    rw [ptRec_ptRecs w fin loc pt i (by omega) hl]
    exact hname i h2 hl 46 (Or.inr rfl)

end

/-! ### the tables as they stand on the device -/

section
variable (w : WTree) (order : Nat → List Nm) (fin : Nat → Nat → Nm) (bs : Nat) (o : Order) (sysId volId tail : Bytes)

theorem ptRecs_recWF (hbs : 0 < bs) (hok : w.OK o) (hr : w.Resolved order fin) (hpt : w.PtOK o.pt)
    (hlim : w.total fin bs o * bs < 2 ^ 32) (hcount : o.pt.length + 1 < 2 ^ 16)
    (hne : ∀ d ∈ o.pt, w.ident fin d ≠ []) :
    ∀ r ∈ w.ptRecs fin (w.loc fin bs o) o.pt, r.WF := by
  intro r hrm
  obtain ⟨d, hd, rfl⟩ := List.mem_map.1 hrm
  have hdd := hpt.dirs d hd
  have hsmall := dir_small w fin bs o hbs hok hlim d ((hok.dirsOK d).2 hdd)
  refine ⟨List.length_pos_iff.2 (hne d hd), ?_, hsmall.1, ?_⟩
  · by_cases h0 : d = 0
    · simp [WTree.ident, h0]
    · have hk := hok.inKids d hdd.1 h0
      have := ((ident_facts w order fin o hok hr (w.parent d) (hok.parLt d hdd.1) hk.1).1 d hk.2).1
      simp only
      omega
  · simp only
    have : o.pt.idxOf (w.parent d) ≤ o.pt.length := List.idxOf_le_length
    omega

/-- **the L and M path tables read back from the device decode to the records of the layout**, whatever
    the device held before -/
theorem image_pathtables (hbs : 2048 ≤ bs) (hbs16 : bs < 2 ^ 16) (hok : w.OK o) (hr : w.Resolved order fin)
    (hpt : w.PtOK o.pt) (hlim : w.total fin bs o * bs < 2 ^ 32) (hcount : o.pt.length + 1 < 2 ^ 16)
    (hne : ∀ d ∈ o.pt, w.ident fin d ≠ [])
    (hs : sysId.length = 32) (hv : volId.length = 32) (ht : tail.length = 1858) (d0 : Dev) :
    decodePtTable false (o.pt.length + 1)
        (readAt ((w.image fin bs o sysId volId tail).imageOn d0) ((w.image fin bs o sysId volId tail).pvd.ptL * bs)
          (w.image fin bs o sysId volId tail).pvd.ptSize) = some (w.ptRecs fin (w.loc fin bs o) o.pt) ∧
    decodePtTable true (o.pt.length + 1)
        (readAt ((w.image fin bs o sysId volId tail).imageOn d0) ((w.image fin bs o sysId volId tail).pvd.ptM * bs)
          (w.image fin bs o sysId volId tail).pvd.ptSize) = some (w.ptRecs fin (w.loc fin bs o) o.pt) := by
  have hb0 : 0 < bs := by omega
  have hp := pvd_wf w fin bs o sysId volId tail hb0 hbs16 hok hlim hs hv ht
  have hpl := image_placed w fin bs o sysId volId tail hb0 hok
  have hdisj := placed_writes_disjoint _ hbs hp hpl
  have hwf := ptRecs_recWF w order fin bs o hb0 hok hr hpt hlim hcount hne
  have hlen : (w.ptRecs fin (w.loc fin bs o) o.pt).length = o.pt.length := by simp [WTree.ptRecs]
  have hL : (⟨(w.image fin bs o sysId volId tail).pvd.ptL * bs, encodePtTable false (w.ptRecs fin (w.loc fin bs o) o.pt)⟩ : Wr) ∈
      (w.image fin bs o sysId volId tail).writes :=
    List.mem_cons_of_mem _ (List.mem_append_left _ (ptL_in_mid w fin bs o sysId volId tail))
  have hM : (⟨(w.image fin bs o sysId volId tail).pvd.ptM * bs, encodePtTable true (w.ptRecs fin (w.loc fin bs o) o.pt)⟩ : Wr) ∈
      (w.image fin bs o sysId volId tail).writes :=
    List.mem_cons_of_mem _ (List.mem_append_left _ (ptM_in_mid w fin bs o sysId volId tail))
  have rL := applyWrs_read_back d0 _ hdisj _ hL
  have rM := applyWrs_read_back d0 _ hdisj _ hM
  simp only at rL rM
  have hsz : (w.image fin bs o sysId volId tail).pvd.ptSize = (encodePtTable false (w.ptRecs fin (w.loc fin bs o) o.pt)).length := rfl
  have hszM : (encodePtTable true (w.ptRecs fin (w.loc fin bs o) o.pt)).length =
      (encodePtTable false (w.ptRecs fin (w.loc fin bs o) o.pt)).length := ptBytes_length w fin _ _ o.pt true false
  unfold ImageIn.imageOn
  rw [writesGo_apply, hsz]
  refine ⟨?_, ?_⟩
  · rw [rL, ← hlen]
    exact decode_encodePtTable false _ hwf
  · rw [← hszM, rM, ← hlen]
    exact decode_encodePtTable true _ hwf

end

end Diskfs.Iso
