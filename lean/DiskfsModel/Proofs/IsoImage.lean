import DiskfsModel.Model.Iso.Image
import DiskfsModel.Proofs.IsoCodec
import DiskfsModel.Proofs.IsoExtent
namespace Diskfs.Iso

/-! ### primary volume descriptor codec -/

theorem unboth_both16 (n : Nat) (h : n < 2 ^ 16) : unboth 2 (both16 n) = some n := by
  have h' : n < 256 ^ 2 := by simpa using h
  have e1 : (both16 n).take 2 = leEnc 2 n := by simp [both16]
  have e2 : (both16 n).drop 2 = beEnc 2 n := by simp [both16]
  unfold unboth
  rw [e1, e2, leDec_leEnc_of_lt 2 n h', beDec_beEnc_of_lt 2 n h']
  simp

theorem encodePVD_length (p : PVD) (h : p.WF) : (encodePVD p).length = 2048 := by
  obtain ⟨h1, h2, _, _, _, _, _, _, _, _, _, _, _, hd, hn, ht⟩ := h
  have := encodeRec_length p.root hd
  simp [encodePVD, pvdMagic, h1, h2, ht, this, recLen, recPad, hn]

theorem decode_encodePVD (p : PVD) (h : p.WF) : decodePVD (encodePVD p) = some p := by
  have hlen := encodePVD_length p h
  obtain ⟨h1, h2, h3, h4, h5, h6, h7, h8, h9, h10, h11, h12, h13, hd, hn, ht⟩ := h
  have hroot : (encodeRec p.root).length = 34 := by
    rw [encodeRec_length p.root hd]; simp [recLen, recPad, hn]
  have e4 : ∀ n, n < 2 ^ 32 → leDec (leEnc 4 n) = n := fun n hn => leDec_leEnc_of_lt 4 n (by simpa using hn)
  have b4 : ∀ n, n < 2 ^ 32 → beDec (beEnc 4 n) = n := fun n hn => beDec_beEnc_of_lt 4 n (by simpa using hn)
  unfold decodePVD
  rw [hlen]
  unfold encodePVD
  rw [split_append _ _ 8 (by simp [pvdMagic])]; simp only []
  rw [split_append _ _ 32 h1]; simp only []
  rw [split_append _ _ 32 h2]; simp only []
  rw [split_append _ _ 8 (by simp)]; simp only []
  rw [split_append _ _ 8 (by simp)]; simp only []
  rw [split_append _ _ 32 (by simp)]; simp only []
  rw [split_append _ _ 4 (by simp)]; simp only []
  rw [split_append _ _ 4 (by simp)]; simp only []
  rw [split_append _ _ 4 (by simp)]; simp only []
  rw [split_append _ _ 8 (by simp)]; simp only []
  rw [split_append _ _ 4 (by simp)]; simp only []
  rw [split_append _ _ 4 (by simp)]; simp only []
  rw [split_append _ _ 4 (by simp)]; simp only []
  rw [split_append _ _ 4 (by simp)]; simp only []
  rw [split_append _ _ 34 hroot]; simp only []
  rw [unboth_both32 _ h3, unboth_both16 _ h4, unboth_both16 _ h5, unboth_both16 _ h6, unboth_both32 _ h7,
    decode_encodeRec p.root h12 h13 hd (by omega), e4 _ h8, e4 _ h9, b4 _ h10, b4 _ h11]
  simp [pvdMagic]

/-! ### records inside an extent -/

theorem encodeRec_recOK (bs : Nat) (hbs : 255 ≤ bs) (r : DirRec) (hd : r.date.length = 7) (hn : r.name.length < 222) :
    RecOK bs (encodeRec r) := by
  have hl := encodeRec_length r hd
  have hb : recLen r.name.length ≤ 255 := by unfold recLen recPad; split <;> simp <;> omega
  have hp : 0 < recLen r.name.length := by unfold recLen; omega
  refine ⟨by omega, by omega, by omega, ?_⟩
  rw [hl]
  simp only [encodeRec, List.cons_append, List.getD_cons_zero]
  exact ofNat_toNat_of_lt _ (by omega)

theorem encSuffix_length_ge (bs : Nat) (rs : List Bytes) (pos : Nat) (h : ∀ r ∈ rs, 0 < r.length) :
    rs.length ≤ (encSuffix bs rs pos).length := by
  induction rs generalizing pos with
  | nil => simp
  | cons r rs ih =>
    have h0 := h r (List.mem_cons_self ..)
    have := ih (placeRec bs pos r.length + r.length) (fun x hx => h x (List.mem_cons_of_mem _ hx))
    simp only [encSuffix, List.length_append, List.length_cons]
    omega

theorem decodeAll_encode (rs : List DirRec)
    (h : ∀ r ∈ rs, r.loc < 2 ^ 32 ∧ r.size < 2 ^ 32 ∧ r.date.length = 7 ∧ r.name.length < 222) :
    decodeAll (rs.map encodeRec) = some rs := by
  induction rs with
  | nil => rfl
  | cons r rs ih =>
    obtain ⟨a, b, c, d⟩ := h r (List.mem_cons_self ..)
    simp only [List.map_cons, decodeAll, decode_encodeRec r a b c d, ih (fun x hx => h x (List.mem_cons_of_mem _ hx))]

/-- parsing and decoding a whole directory extent returns the records it was made from -/
theorem parse_dirBytes (bs : Nat) (hbs : 255 ≤ bs) (rs : List DirRec)
    (h : ∀ r ∈ rs, r.loc < 2 ^ 32 ∧ r.size < 2 ^ 32 ∧ r.date.length = 7 ∧ r.name.length < 222) :
    decodeAll (parseExtent bs (2 * (encodeExtent bs (rs.map encodeRec)).length + 1) 0 (encodeExtent bs (rs.map encodeRec))) = some rs := by
  have hok : ∀ b ∈ rs.map encodeRec, RecOK bs b := by
    intro b hb
    obtain ⟨r, hr, rfl⟩ := List.mem_map.1 hb
    obtain ⟨_, _, c, d⟩ := h r hr
    exact encodeRec_recOK bs hbs r c d
  have hlen : (rs.map encodeRec).length ≤ (encodeExtent bs (rs.map encodeRec)).length :=
    encSuffix_length_ge bs _ 0 (fun b hb => (hok b hb).1)
  have := parse_encSuffix bs (by omega) (rs.map encodeRec) hok [] (2 * (encodeExtent bs (rs.map encodeRec)).length + 1) (by omega)
  simp only [List.length_nil, List.nil_append] at this
  simp only [encodeExtent] at this ⊢
  rw [this]
  exact decodeAll_encode rs h

/-! ### the reader on an image that shows the tree -/

theorem isDirFlag_dirFlag (b : Bool) : isDirFlag (dirFlag b) = b := by cases b <;> decide

theorem recOf_wf (t : PTree) (hwf : t.WF) (c : Nat) (hc : c < t.n) :
    (t.recOf c).loc < 2 ^ 32 ∧ (t.recOf c).size < 2 ^ 32 ∧ (t.recOf c).date.length = 7 ∧ (t.recOf c).name.length < 222 :=
  hwf.2.2 c hc

theorem dirRecs_wf (t : PTree) (hwf : t.WF) (d : Nat) (hd : d < t.n) :
    ∀ r ∈ t.dirRecs d, r.loc < 2 ^ 32 ∧ r.size < 2 ^ 32 ∧ r.date.length = 7 ∧ r.name.length < 222 := by
  intro r hr
  simp only [PTree.dirRecs, List.mem_cons, List.mem_map] at hr
  rcases hr with rfl | rfl | ⟨c, hc, rfl⟩
  · obtain ⟨a, b, c, _⟩ := recOf_wf t hwf d hd
    exact ⟨a, b, c, by simp [PTree.selfRec]⟩
  · obtain ⟨a, b, c, _⟩ := recOf_wf t hwf (t.parent d) (hwf.2.1 d hd)
    exact ⟨a, b, c, by simp [PTree.parRec]⟩
  · exact recOf_wf t hwf c (hwf.1 d hd c hc)

/-- **the reader walks the tree**: on any image that shows the tree (`Holds`), reading the extent of
    a directory returns exactly the depth-first listing below it -/
theorem readDirP_walk (img : Dev) (bs : Nat) (hbs : 255 ≤ bs) (t : PTree) (hwf : t.WF) (hh : Holds img bs t) :
    ∀ (fuel : Nat) (pre : List Bytes) (d : Nat), d < t.n → (t.ent d).isDir = true → t.Fits fuel d →
      readDirP img bs fuel pre (t.ent d).loc (t.ent d).size = some (t.walk fuel pre d) := by
  intro fuel
  induction fuel with
  | zero => intro pre d _ _ hf; exact hf.elim
  | succ fuel ih =>
    intro pre d hd hdir hfit
    have hsize : (t.ent d).size = (t.dirBytes bs d).length := by
      have := congrArg List.length (hh.1 d hd hdir)
      simpa using this
    -- the children, one by one
    have kidsLemma : ∀ ks : List Nat, (∀ c ∈ ks, c ∈ t.kids d) →
        walkRecs (fun q l z => readDirP img bs fuel q l z) img bs pre (ks.map t.recOf) =
          some (ks.flatMap fun c => t.reOf pre c :: (if (t.ent c).isDir then t.walk fuel (pre ++ [(t.ent c).name]) c else [])) := by
      intro ks
      induction ks with
      | nil => intro _; rfl
      | cons c ks ihk =>
        intro hsub
        have hck : c ∈ t.kids d := hsub c (List.mem_cons_self ..)
        have hcn : c < t.n := hwf.1 d hd c hck
        have hrest := ihk (fun x hx => hsub x (List.mem_cons_of_mem _ hx))
        simp only [List.map_cons, walkRecs, hrest, List.flatMap_cons]
        cases hcd : (t.ent c).isDir with
        | true =>
          have hsubdir := ih (pre ++ [(t.ent c).name]) c hcn hcd (hfit c hck hcd)
          simp [PTree.recOf, hcd, isDirFlag_dirFlag, hsubdir, PTree.reOf]
        | false =>
          have hfile := hh.2 c hcn hcd
          simp [PTree.recOf, hcd, isDirFlag_dirFlag, hfile, PTree.reOf]
    rw [readDirP, hh.1 d hd hdir, hsize]
    unfold PTree.dirBytes
    rw [parse_dirBytes bs hbs (t.dirRecs d) (dirRecs_wf t hwf d hd)]
    have hk := kidsLemma (t.kids d) (fun c hc => hc)
    show (if (t.selfRec d).name = [0] ∧ (t.selfRec d).loc = (t.ent d).loc ∧ (t.parRec d).name = [1] then
        walkRecs (fun q l z => readDirP img bs fuel q l z) img bs pre ((t.kids d).map t.recOf) else none) = _
    rw [if_pos ⟨rfl, rfl, rfl⟩, hk]
    rfl

end Diskfs.Iso
