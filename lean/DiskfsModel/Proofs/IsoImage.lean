import DiskfsModel.Model.Iso.Image
import DiskfsModel.Proofs.IsoCodec
import DiskfsModel.Proofs.IsoExtent
namespace Diskfs.Iso

/-! ### primary volume descriptor codec -/

theorem unboth_both16 (n : Nat) (h : n < 2 ^ 16) : unboth 2 (both16 n) = some n := by
  have h' : n < 256 ^ 2 := by simpa using h
  have e1 : (both16 n).take 2 = leEnc 2 n := by simp [both16]
  have e2 : (both16 n).drop 2 = beEnc 2 n := by simp [both16]
  unfold unboth
  rw [e1, e2, leDec_leEnc_of_lt 2 n h', beDec_beEnc_of_lt 2 n h']
  simp

theorem encodePVD_length (p : PVD) (h : p.WF) : (encodePVD p).length = 2048 := by
  obtain ⟨h1, h2, _, _, _, _, _, _, _, _, _, _, _, hd, hn, ht⟩ := h
  have := encodeRec_length p.root hd
  simp [encodePVD, pvdMagic, h1, h2, ht, this, recLen, recPad, hn]

theorem decode_encodePVD (p : PVD) (h : p.WF) : decodePVD (encodePVD p) = some p := by
  have hlen := encodePVD_length p h
  obtain ⟨h1, h2, h3, h4, h5, h6, h7, h8, h9, h10, h11, h12, h13, hd, hn, ht⟩ := h
  have hroot : (encodeRec p.root).length = 34 := by
    rw [encodeRec_length p.root hd]; simp [recLen, recPad, hn]
  have e4 : ∀ n, n < 2 ^ 32 → leDec (leEnc 4 n) = n := fun n hn => leDec_leEnc_of_lt 4 n (by simpa using hn)
  have b4 : ∀ n, n < 2 ^ 32 → beDec (beEnc 4 n) = n := fun n hn => beDec_beEnc_of_lt 4 n (by simpa using hn)
  unfold decodePVD
  rw [hlen]
  unfold encodePVD
  rw [split_append _ _ 8 (by simp [pvdMagic])]; simp only []
  rw [split_append _ _ 32 h1]; simp only []
  rw [split_append _ _ 32 h2]; simp only []
  rw [split_append _ _ 8 (by simp)]; simp only []
  rw [split_append _ _ 8 (by simp)]; simp only []
  rw [split_append _ _ 32 (by simp)]; simp only []
  rw [split_append _ _ 4 (by simp)]; simp only []
  rw [split_append _ _ 4 (by simp)]; simp only []
  rw [split_append _ _ 4 (by simp)]; simp only []
  rw [split_append _ _ 8 (by simp)]; simp only []
  rw [split_append _ _ 4 (by simp)]; simp only []
  rw [split_append _ _ 4 (by simp)]; simp only []
  rw [split_append _ _ 4 (by simp)]; simp only []
  rw [split_append _ _ 4 (by simp)]; simp only []
  rw [split_append _ _ 34 hroot]; simp only []
  rw [unboth_both32 _ h3, unboth_both16 _ h4, unboth_both16 _ h5, unboth_both16 _ h6, unboth_both32 _ h7,
    decode_encodeRec p.root h12 h13 hd (by omega), e4 _ h8, e4 _ h9, b4 _ h10, b4 _ h11]
  simp [pvdMagic]

/-! ### records inside an extent -/

theorem encodeRec_recOK (bs : Nat) (hbs : 255 ≤ bs) (r : DirRec) (hd : r.date.length = 7) (hn : r.name.length < 222) :
    RecOK bs (encodeRec r) := by
  have hl := encodeRec_length r hd
  have hb : recLen r.name.length ≤ 255 := by unfold recLen recPad; split <;> simp <;> omega
  have hp : 0 < recLen r.name.length := by unfold recLen; omega
  refine ⟨by omega, by omega, by omega, ?_⟩
  rw [hl]
  simp only [encodeRec, List.cons_append, List.getD_cons_zero]
  exact ofNat_toNat_of_lt _ (by omega)

theorem encSuffix_length_ge (bs : Nat) (rs : List Bytes) (pos : Nat) (h : ∀ r ∈ rs, 0 < r.length) :
    rs.length ≤ (encSuffix bs rs pos).length := by
  induction rs generalizing pos with
  | nil => simp
  | cons r rs ih =>
    have h0 := h r (List.mem_cons_self ..)
    have := ih (placeRec bs pos r.length + r.length) (fun x hx => h x (List.mem_cons_of_mem _ hx))
    simp only [encSuffix, List.length_append, List.length_cons]
    omega

theorem decodeAll_encode (rs : List DirRec)
    (h : ∀ r ∈ rs, r.loc < 2 ^ 32 ∧ r.size < 2 ^ 32 ∧ r.date.length = 7 ∧ r.name.length < 222) :
    decodeAll (rs.map encodeRec) = some rs := by
  induction rs with
  | nil => rfl
  | cons r rs ih =>
    obtain ⟨a, b, c, d⟩ := h r (List.mem_cons_self ..)
    simp only [List.map_cons, decodeAll, decode_encodeRec r a b c d, ih (fun x hx => h x (List.mem_cons_of_mem _ hx))]

/-- parsing and decoding a whole directory extent returns the records it was made from -/
theorem parse_dirBytes (bs : Nat) (hbs : 255 ≤ bs) (rs : List DirRec)
    (h : ∀ r ∈ rs, r.loc < 2 ^ 32 ∧ r.size < 2 ^ 32 ∧ r.date.length = 7 ∧ r.name.length < 222) :
    decodeAll (parseExtent bs (2 * (encodeExtent bs (rs.map encodeRec)).length + 1) 0 (encodeExtent bs (rs.map encodeRec))) = some rs := by
  have hok : ∀ b ∈ rs.map encodeRec, RecOK bs b := by
    intro b hb
    obtain ⟨r, hr, rfl⟩ := List.mem_map.1 hb
    obtain ⟨_, _, c, d⟩ := h r hr
    exact encodeRec_recOK bs hbs r c d
  have hlen : (rs.map encodeRec).length ≤ (encodeExtent bs (rs.map encodeRec)).length :=
    encSuffix_length_ge bs _ 0 (fun b hb => (hok b hb).1)
  have := parse_encSuffix bs (by omega) (rs.map encodeRec) hok [] (2 * (encodeExtent bs (rs.map encodeRec)).length + 1) (by omega)
  simp only [List.length_nil, List.nil_append] at this
  simp only [encodeExtent] at this ⊢
  rw [this]
  exact decodeAll_encode rs h

/-! ### the reader on an image that shows the tree -/

theorem isDirFlag_dirFlag (b : Bool) : isDirFlag (dirFlag b) = b := by cases b <;> decide

theorem recOf_wf (t : PTree) (hwf : t.WF) (c : Nat) (hc : c < t.n) :
    (t.recOf c).loc < 2 ^ 32 ∧ (t.recOf c).size < 2 ^ 32 ∧ (t.recOf c).date.length = 7 ∧ (t.recOf c).name.length < 222 :=
  hwf.2.2 c hc

theorem dirRecs_wf (t : PTree) (hwf : t.WF) (d : Nat) (hd : d < t.n) :
    ∀ r ∈ t.dirRecs d, r.loc < 2 ^ 32 ∧ r.size < 2 ^ 32 ∧ r.date.length = 7 ∧ r.name.length < 222 := by
  intro r hr
  simp only [PTree.dirRecs, List.mem_cons, List.mem_map] at hr
  rcases hr with rfl | rfl | ⟨c, hc, rfl⟩
  · obtain ⟨a, b, c, _⟩ := recOf_wf t hwf d hd
    exact ⟨a, b, c, by simp [PTree.selfRec]⟩
  · obtain ⟨a, b, c, _⟩ := recOf_wf t hwf (t.parent d) (hwf.2.1 d hd)
    exact ⟨a, b, c, by simp [PTree.parRec]⟩
  · exact recOf_wf t hwf c (hwf.1 d hd c hc)

/-- **the reader walks the tree**: on any image that shows the tree (`Holds`), reading the extent of
    a directory returns exactly the depth-first listing below it -/
theorem readDirP_walk (img : Dev) (bs : Nat) (hbs : 255 ≤ bs) (t : PTree) (hwf : t.WF) (hh : Holds img bs t) :
    ∀ (fuel : Nat) (pre : List Bytes) (d : Nat), d < t.n → (t.ent d).isDir = true → t.Fits fuel d →
      readDirP img bs fuel pre (t.ent d).loc (t.ent d).size = some (t.walk fuel pre d) := by
  intro fuel
  induction fuel with
  | zero => intro pre d _ _ hf; exact hf.elim
  | succ fuel ih =>
    intro pre d hd hdir hfit
    have hsize : (t.ent d).size = (t.dirBytes bs d).length := by
      have := congrArg List.length (hh.1 d hd hdir)
      simpa using this
    -- the children, one by one
    have kidsLemma : ∀ ks : List Nat, (∀ c ∈ ks, c ∈ t.kids d) →
        walkRecs (fun q l z => readDirP img bs fuel q l z) img bs pre (ks.map t.recOf) =
          some (ks.flatMap fun c => t.reOf pre c :: (if (t.ent c).isDir then t.walk fuel (pre ++ [(t.ent c).name]) c else [])) := by
      intro ks
      induction ks with
      | nil => intro _; rfl
      | cons c ks ihk =>
        intro hsub
        have hck : c ∈ t.kids d := hsub c (List.mem_cons_self ..)
        have hcn : c < t.n := hwf.1 d hd c hck
        have hrest := ihk (fun x hx => hsub x (List.mem_cons_of_mem _ hx))
        simp only [List.map_cons, walkRecs, hrest, List.flatMap_cons]
        cases hcd : (t.ent c).isDir with
        | true =>
          have hsubdir := ih (pre ++ [(t.ent c).name]) c hcn hcd (hfit c hck hcd)
          simp [PTree.recOf, hcd, isDirFlag_dirFlag, hsubdir, PTree.reOf]
        | false =>
          have hfile := hh.2 c hcn hcd
          simp [PTree.recOf, hcd, isDirFlag_dirFlag, hfile, PTree.reOf]
    rw [readDirP, hh.1 d hd hdir, hsize]
    unfold PTree.dirBytes
    rw [parse_dirBytes bs hbs (t.dirRecs d) (dirRecs_wf t hwf d hd)]
    have hk := kidsLemma (t.kids d) (fun c hc => hc)
    show (if (t.selfRec d).name = [0] ∧ (t.selfRec d).loc = (t.ent d).loc ∧ (t.parRec d).name = [1] then
        walkRecs (fun q l z => readDirP img bs fuel q l z) img bs pre ((t.kids d).map t.recOf) else none) = _
    rw [if_pos ⟨rfl, rfl, rfl⟩, hk]
    rfl

/-! ### reading back what disjoint writes put on a blank device -/

theorem readAt_take (d : Dev) (off len k : Nat) (h : k ≤ len) : (readAt d off len).take k = readAt d off k := by
  apply List.ext_getElem
  · simp; omega
  · intro i h1 h2
    simp [readAt]

theorem readAt_applyWrs_disjoint (d : Dev) (ws : List Wr) (off len : Nat)
    (h : ∀ w ∈ ws, off + len ≤ w.off ∨ w.off + w.data.length ≤ off) :
    readAt (applyWrs d ws) off len = readAt d off len := by
  apply List.ext_getElem
  · simp
  · intro i h1 _
    simp only [readAt, List.getElem_map, List.getElem_range]
    apply applyWrs_frame
    intro w hw
    simp at h1
    have := h w hw
    omega

/-- after pairwise disjoint writes every write reads back as written -/
theorem applyWrs_read_back (d : Dev) (ws : List Wr) (hd : ws.Pairwise WrDisjoint) :
    ∀ w ∈ ws, readAt (applyWrs d ws) w.off w.data.length = w.data := by
  induction ws generalizing d with
  | nil => intro w hw; simp at hw
  | cons x ws ih =>
    rw [List.pairwise_cons] at hd
    intro w hw
    simp only [applyWrs, List.foldl_cons]
    simp only [List.mem_cons] at hw
    rcases hw with rfl | hw
    · have := readAt_applyWrs_disjoint (applyWr d w) ws w.off w.data.length (by
        intro y hy
        have := hd.1 y hy
        unfold WrDisjoint at this
        omega)
      simp only [applyWrs] at this
      rw [this, readAt_applyWr_same]
    · have := ih (applyWr d x) hd.2 w hw
      simpa [applyWrs] using this

/-- … and so does every prefix of a write -/
theorem applyWrs_read_prefix (d : Dev) (ws : List Wr) (hd : ws.Pairwise WrDisjoint) (w : Wr) (hw : w ∈ ws)
    (k : Nat) (hk : k ≤ w.data.length) : readAt (applyWrs d ws) w.off k = w.data.take k := by
  rw [← applyWrs_read_back d ws hd w hw, readAt_take _ _ _ _ hk]

/-- extents that do not overlap as block ranges give writes that do not overlap as byte ranges -/
theorem extent_writes_disjoint (bs : Nat) (a b : Nat × Nat) (da db : Bytes) (h : a.1 + a.2 ≤ b.1)
    (hla : da.length ≤ a.2 * bs) : WrDisjoint ⟨a.1 * bs, da⟩ ⟨b.1 * bs, db⟩ := by
  left
  have := Nat.mul_le_mul_right bs h
  rw [Nat.add_mul] at this
  simp only
  omega

theorem extents_writes_disjoint (bs : Nat) (l : List ((Nat × Nat) × Bytes))
    (hp : l.Pairwise (fun a b => a.1.1 + a.1.2 ≤ b.1.1)) (hl : ∀ x ∈ l, x.2.length ≤ x.1.2 * bs) :
    (l.map fun x => (⟨x.1.1 * bs, x.2⟩ : Wr)).Pairwise WrDisjoint := by
  rw [List.pairwise_map]
  exact hp.imp_of_mem (fun {a b} ha _ hab => extent_writes_disjoint bs a.1 b.1 a.2 b.2 hab (hl a ha))

theorem padBlock_take (bs : Nat) (b : Bytes) : (padBlock bs b).take b.length = b := by simp [padBlock]

theorem padBlock_length_ge (bs : Nat) (b : Bytes) : b.length ≤ (padBlock bs b).length := by simp [padBlock]

/-! ### the whole image -/

/-- the image Finalize writes shows the tree, provided its writes are pairwise disjoint -/
theorem image_holds (i : ImageIn) (hdisj : i.writes.Pairwise WrDisjoint)
    (hdirs : ∀ d, d < i.t.n → (i.t.ent d).isDir = true → d ∈ i.dirs)
    (hfiles : ∀ c, c < i.t.n → (i.t.ent c).isDir = false → c ∈ i.files)
    (hsz : ∀ d ∈ i.dirs, (i.t.ent d).size = (i.t.dirBytes i.bs d).length)
    (hfsz : ∀ f ∈ i.files, (i.t.ent f).size = (i.t.ent f).content.length) :
    Holds i.image i.bs i.t := by
  refine ⟨?_, ?_⟩
  · intro d hd hdir
    have hm := hdirs d hd hdir
    have hw : (⟨(i.t.ent d).loc * i.bs, padBlock i.bs (i.t.dirBytes i.bs d)⟩ : Wr) ∈ i.writes := by
      exact List.mem_cons_of_mem _ (List.mem_append_left _ (List.mem_append_left _ (List.mem_map.2 ⟨d, hm, rfl⟩)))
    have := applyWrs_read_prefix blank i.writes hdisj _ hw (i.t.ent d).size (by
      rw [hsz d hm]; exact padBlock_length_ge _ _)
    simp only at this
    rw [ImageIn.image, this, hsz d hm, padBlock_take]
  · intro c hc hfile
    have hm := hfiles c hc hfile
    have hw : (⟨(i.t.ent c).loc * i.bs, padBlock i.bs (i.t.ent c).content⟩ : Wr) ∈ i.writes := by
      exact List.mem_cons_of_mem _ (List.mem_append_left _ (List.mem_append_right _ (List.mem_append_right _
        (List.mem_map.2 ⟨c, hm, rfl⟩))))
    have := applyWrs_read_prefix blank i.writes hdisj _ hw (i.t.ent c).size (by
      rw [hfsz c hm]; exact padBlock_length_ge _ _)
    simp only at this
    rw [ImageIn.image, this, hfsz c hm, padBlock_take]

theorem image_pvd (i : ImageIn) (hdisj : i.writes.Pairwise WrDisjoint) (hp : i.pvd.WF) :
    readAt i.image (16 * i.bs) 2048 = encodePVD i.pvd := by
  have hw : (⟨16 * i.bs, encodePVD i.pvd⟩ : Wr) ∈ i.writes := by
    simp [ImageIn.writes]
  have := applyWrs_read_back blank i.writes hdisj _ hw
  simp only [encodePVD_length i.pvd hp] at this
  exact this

theorem reader_on_image (i : ImageIn) (fuel : Nat) (hbs : 255 ≤ i.bs) (hwf : i.t.WF) (hp : i.pvd.WF)
    (hpbs : i.pvd.blocksize = i.bs) (hroot : i.pvd.root = i.t.selfRec 0) (h0 : 0 < i.t.n)
    (hrd : (i.t.ent 0).isDir = true)
    (hdirs : ∀ d, d < i.t.n → (i.t.ent d).isDir = true → d ∈ i.dirs)
    (hfiles : ∀ c, c < i.t.n → (i.t.ent c).isDir = false → c ∈ i.files)
    (hsz : ∀ d ∈ i.dirs, (i.t.ent d).size = (i.t.dirBytes i.bs d).length)
    (hfsz : ∀ f ∈ i.files, (i.t.ent f).size = (i.t.ent f).content.length)
    (hdisj : i.writes.Pairwise WrDisjoint) (hfit : i.t.Fits fuel 0) :
    readImageP i.image (16 * i.bs) fuel = some (i.pvd, i.t.walk fuel [] 0) := by
  have hh := image_holds i hdisj hdirs hfiles hsz hfsz
  unfold readImageP
  rw [image_pvd i hdisj hp, decode_encodePVD i.pvd hp]
  simp only [hroot, PTree.selfRec, if_true, hpbs]
  have := readDirP_walk i.image i.bs hbs i.t hwf hh fuel [] 0 h0 hrd hfit
  simp only [PTree.recOf]
  rw [this]
  rfl

/-! ### the layout's placement makes the writes disjoint -/

theorem seqWr_bounds (bs : Nat) (s : Nat) (ds : List Bytes) :
    ∀ w ∈ seqWr bs s ds, s * bs ≤ w.off := by
  induction ds generalizing s with
  | nil => intro w hw; simp [seqWr] at hw
  | cons b r ih =>
    intro w hw
    simp only [seqWr, List.mem_cons] at hw
    rcases hw with rfl | hw
    · exact Nat.le_refl _
    · have := ih (s + blocksFor b.length bs) w hw
      have h2 := Nat.mul_le_mul_right bs (Nat.le_add_right s (blocksFor b.length bs))
      omega

theorem seqWr_pairwise (bs : Nat) (hbs : 0 < bs) (s : Nat) (ds : List Bytes) :
    (seqWr bs s ds).Pairwise (fun a b => a.off + a.data.length ≤ b.off) := by
  induction ds generalizing s with
  | nil => simp [seqWr]
  | cons b r ih =>
    simp only [seqWr, List.pairwise_cons]
    refine ⟨?_, ih _⟩
    intro w hw
    have h1 := seqWr_bounds bs (s + blocksFor b.length bs) r w hw
    have h2 := (blocksFor_covers b.length bs hbs).1
    rw [Nat.add_mul] at h1
    omega

/-- the offsets of `seqWr` are the block locations of `seqAlloc` (the layout model of
    `layout_disjoint` / `layout_inside`) over the block counts of the pieces -/
theorem seqWr_offsets (bs s : Nat) (ds : List Bytes) :
    (seqWr bs s ds).map (·.off) = (seqAlloc s (ds.map fun b => blocksFor b.length bs)).map (fun e => e.1 * bs) := by
  induction ds generalizing s with
  | nil => rfl
  | cons b r ih => simp [seqWr, seqAlloc, ih]

theorem terminator_length : terminator.length = 2048 := by simp [terminator]

theorem placed_writes_disjoint (i : ImageIn) (hbs : 2048 ≤ i.bs) (hp : i.pvd.WF) (hpl : i.Placed) :
    i.writes.Pairwise WrDisjoint := by
  have hb0 : 0 < i.bs := by omega
  have hmidB : ∀ w ∈ i.mid, 18 * i.bs ≤ w.off := by
    intro w hw
    rw [hpl] at hw
    exact seqWr_bounds i.bs _ _ w hw
  have hmidP : i.mid.Pairwise WrDisjoint := by
    rw [hpl]
    exact (seqWr_pairwise i.bs hb0 _ _).imp (fun h => Or.inl h)
  have hpl' := encodePVD_length i.pvd hp
  unfold ImageIn.writes
  rw [List.pairwise_cons, List.pairwise_append]
  refine ⟨?_, hmidP, ?_, ?_⟩
  · intro w hw
    left
    simp only [List.mem_append, List.mem_cons, List.not_mem_nil, or_false] at hw
    simp only [zeros_length, Nat.zero_add]
    rcases hw with hw | rfl | rfl
    · have := hmidB w hw; omega
    · simp
    · simp; omega
  · simp only [List.pairwise_cons, List.mem_singleton, List.not_mem_nil, List.Pairwise.nil, and_true]
    refine ⟨?_, by intro a h; exact h.elim⟩
    intro w hw
    subst hw
    left
    simp only [hpl']
    omega
  · intro a ha b hb
    right
    have := hmidB a ha
    simp only [List.mem_cons, List.not_mem_nil, or_false] at hb
    rcases hb with rfl | rfl
    · simp only [hpl']; omega
    · simp only [terminator_length]; omega

theorem seqWr_data (bs s : Nat) (ds : List Bytes) : (seqWr bs s ds).map (·.data) = ds := by
  induction ds generalizing s with
  | nil => rfl
  | cons b r ih => simp [seqWr, ih]

theorem wr_list_ext (a b : List Wr) (h1 : a.map (·.off) = b.map (·.off)) (h2 : a.map (·.data) = b.map (·.data)) : a = b := by
  induction a generalizing b with
  | nil => cases b with
    | nil => rfl
    | cons y ys => simp at h1
  | cons x xs ih =>
    cases b with
    | nil => simp at h1
    | cons y ys =>
      simp only [List.map_cons, List.cons.injEq] at h1 h2
      have hx : x = y := by
        cases x; cases y; simp only at h1 h2; simp [h1.1, h2.1]
      rw [hx, ih ys h1.2 h2.2]

/-- `Placed` is a statement about locations only: the offsets are those of the layout model -/
theorem placed_of_offsets (i : ImageIn)
    (h : i.mid.map (·.off) =
      (seqAlloc (dataStartSector + 2) ((i.mid.map (·.data)).map fun b => blocksFor b.length i.bs)).map (fun e => e.1 * i.bs)) :
    i.Placed := by
  unfold ImageIn.Placed
  apply wr_list_ext
  · rw [seqWr_offsets]; exact h
  · rw [seqWr_data]

theorem padBlock_length (bs : Nat) (b : Bytes) : (padBlock bs b).length = b.length + (bs - b.length % bs) % bs := by
  simp [padBlock]

end Diskfs.Iso
