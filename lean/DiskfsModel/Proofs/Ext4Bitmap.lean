/-
  Proofs about the ext4 bitmap mirror (Model/Ext4/Bitmap.lean):
  set/clear/isSet against the spec-level view `bit`, `firstFree` finds the least
  clear bit at or after `start`, `freeList` is exactly the partition of the
  clear bits into maximal runs, and its counts sum to `countFree`.
  All theorems are for arbitrary bitmaps (induction); `decide` is used only for
  8-row / 64-row tables about the masks and for the concrete examples.
-/
import DiskfsModel.Model.Ext4.Bitmap
namespace Diskfs.Ext4.Bitmap

/-! ### per-byte facts: the UInt8 mask tests agree with `Nat.testBit` -/

theorem mask_toNat_tbl : ∀ j : Fin 8, (mask j.val).toNat = 2 ^ j.val := by decide

theorem mask_toNat (j : Nat) (h : j < 8) : (mask j).toNat = 2 ^ j := mask_toNat_tbl ⟨j, h⟩

theorem nat_and_two_pow (n i : Nat) : n &&& 2 ^ i = (n.testBit i).toNat * 2 ^ i := by
  apply Nat.eq_of_testBit_eq
  intro k
  rw [Nat.testBit_and, Nat.testBit_two_pow]
  cases hb : n.testBit i
  · simp only [Bool.toNat_false, Nat.zero_mul, Nat.zero_testBit]
    by_cases hk : i = k
    · subst hk; simp [hb]
    · simp [hk]
  · simp only [Bool.toNat_true, Nat.one_mul, Nat.testBit_two_pow]
    by_cases hk : i = k
    · subst hk; simp [hb]
    · simp [hk]

theorem and_mask_toNat (b : UInt8) (j : Nat) (h : j < 8) :
    (b &&& mask j).toNat = (b.toNat.testBit j).toNat * 2 ^ j := by
  rw [UInt8.toNat_and, mask_toNat j h, nat_and_two_pow]

/-- Go's `b & mask == mask` is "bit j is set" -/
theorem testSet_eq (b : UInt8) (j : Nat) (h : j < 8) : testSet b j = byteBit b j := by
  unfold testSet byteBit
  have h1 := and_mask_toNat b j h
  have h2 := mask_toNat j h
  have hp : 0 < 2 ^ j := Nat.two_pow_pos j
  cases hb : b.toNat.testBit j
  · rw [hb] at h1
    simp only [Bool.toNat_false, Nat.zero_mul] at h1
    rw [beq_eq_false_iff_ne]
    intro heq
    rw [heq, h2] at h1
    omega
  · rw [hb] at h1
    simp only [Bool.toNat_true, Nat.one_mul] at h1
    rw [beq_iff_eq]
    apply UInt8.toNat_inj.mp
    rw [h1, h2]

/-- Go's `b & (1<<j) == 0` is "bit j is clear" -/
theorem testClear_eq (b : UInt8) (j : Nat) (h : j < 8) : testClear b j = !byteBit b j := by
  unfold testClear byteBit
  have h1 := and_mask_toNat b j h
  have hp : 0 < 2 ^ j := Nat.two_pow_pos j
  cases hb : b.toNat.testBit j
  · rw [hb] at h1
    simp only [Bool.toNat_false, Nat.zero_mul] at h1
    simp only [Bool.not_false, beq_iff_eq]
    apply UInt8.toNat_inj.mp
    rw [h1]; rfl
  · rw [hb] at h1
    simp only [Bool.toNat_true, Nat.one_mul] at h1
    simp only [Bool.not_true]
    rw [beq_eq_false_iff_ne]
    intro heq
    rw [heq] at h1
    simp at h1
    omega

theorem or_mask_bit (b : UInt8) (j k : Nat) (h : j < 8) :
    byteBit (b ||| mask j) k = (byteBit b k || decide (j = k)) := by
  unfold byteBit
  rw [UInt8.toNat_or, Nat.testBit_or, mask_toNat j h, Nat.testBit_two_pow]

theorem notmask_tbl :
    ∀ j : Fin 8, ∀ k : Fin 8, (~~~ mask j.val).toNat.testBit k.val = !decide (j.val = k.val) := by
  decide

theorem andnot_mask_bit (b : UInt8) (j k : Nat) (h : j < 8) (hk : k < 8) :
    byteBit (b &&& ~~~ mask j) k = (byteBit b k && !decide (j = k)) := by
  unfold byteBit
  rw [UInt8.toNat_and, Nat.testBit_and, notmask_tbl ⟨j, h⟩ ⟨k, hk⟩]

theorem ff_bits (b : UInt8) (h : (b == 0xff) = true) (j : Nat) (hj : j < 8) :
    byteBit b j = true := by
  have : b = 0xff := by simpa using h
  subst this
  have : ∀ j : Fin 8, byteBit 0xff j.val = true := by decide
  exact this ⟨j, hj⟩

/-! ### `bit` on lists -/

theorem bit_def (bm : Bytes) (i : Nat) : bit bm i = byteBit (bm.getD (i / 8) 0) (i % 8) := rfl

/-- bit `8*m + j` (`j < 8`) is bit `j` of byte `m` -/
theorem bit_at (bm : Bytes) (m j : Nat) (hj : j < 8) :
    bit bm (8 * m + j) = byteBit (bm.getD m 0) j := by
  unfold bit
  have h1 : (8 * m + j) / 8 = m := by omega
  have h2 : (8 * m + j) % 8 = j := by omega
  rw [h1, h2]

theorem bit_drop (bm : Bytes) (m k : Nat) : bit (bm.drop m) k = bit bm (8 * m + k) := by
  unfold bit
  have h1 : (8 * m + k) / 8 = m + k / 8 := by omega
  have h2 : (8 * m + k) % 8 = k % 8 := by omega
  rw [h1, h2]
  simp [List.getD_eq_getElem?_getD]

/-! ### Set / Clear / IsSet -/

theorem bit_modify (bm : Bytes) (m : Nat) (f : UInt8 → UInt8) (hm : m < bm.length) (k : Nat) :
    bit (bm.modify m f) k =
      if k / 8 = m then byteBit (f (bm.getD m 0)) (k % 8) else bit bm k := by
  unfold bit
  simp only [List.getD_eq_getElem?_getD, List.getElem?_modify]
  by_cases hk : k / 8 = m
  · subst hk
    simp [List.getElem?_eq_getElem hm]
  · have : ¬ m = k / 8 := fun e => hk e.symm
    simp [this, hk]

theorem bitmap_set_get (bm : Bytes) (i : Nat) (h : i < 8 * bm.length) :
    ∃ bm', set bm i = .ok bm' ∧ bm'.length = bm.length ∧ bit bm' i = true ∧
      ∀ j, j ≠ i → bit bm' j = bit bm j := by
  have hm : i / 8 < bm.length := by omega
  have hb : i % 8 < 8 := by omega
  refine ⟨bm.modify (i / 8) (fun b => b ||| mask (i % 8)), ?_, ?_, ?_, ?_⟩
  · unfold set
    have : ¬ (i / 8 ≥ bm.length) := by omega
    simp [this]
  · simp
  · rw [bit_modify _ _ _ hm]
    simp [or_mask_bit _ _ _ hb]
  · intro j hj
    rw [bit_modify _ _ _ hm]
    split
    · rename_i hjm
      rw [or_mask_bit _ _ _ hb, ← hjm, ← bit_def]
      have : ¬ (i % 8 = j % 8) := by omega
      simp [this]
    · rfl

theorem bitmap_clear_get (bm : Bytes) (i : Nat) (h : i < 8 * bm.length) :
    ∃ bm', clear bm i = .ok bm' ∧ bm'.length = bm.length ∧ bit bm' i = false ∧
      ∀ j, j ≠ i → bit bm' j = bit bm j := by
  have hm : i / 8 < bm.length := by omega
  have hb : i % 8 < 8 := by omega
  refine ⟨bm.modify (i / 8) (fun b => b &&& ~~~ mask (i % 8)), ?_, ?_, ?_, ?_⟩
  · unfold clear
    have : ¬ (i / 8 ≥ bm.length) := by omega
    simp [this]
  · simp
  · rw [bit_modify _ _ _ hm]
    simp [andnot_mask_bit _ _ _ hb hb]
  · intro j hj
    have hjb : j % 8 < 8 := by omega
    rw [bit_modify _ _ _ hm]
    split
    · rename_i hjm
      rw [andnot_mask_bit _ _ _ hb hjb, ← hjm, ← bit_def]
      have : ¬ (i % 8 = j % 8) := by omega
      simp [this]
    · rfl

theorem isSet_spec (bm : Bytes) (i : Nat) (h : i < 8 * bm.length) :
    isSet bm i = .ok (bit bm i) := by
  have hm : i / 8 < bm.length := by omega
  have hb : i % 8 < 8 := by omega
  unfold isSet
  have h1 : ¬ (i / 8 > bm.length) := by omega
  simp only [Int.toNat_natCast, h1, if_false]
  have h0 : ¬ ((i : Int) < 0) := by omega
  simp only [h0, if_false, List.getElem?_eq_getElem hm]
  rw [testSet_eq _ _ hb]
  simp [bit, List.getD_eq_getElem?_getD, List.getElem?_eq_getElem hm]

/-- the Go off-by-one: a location in the byte just past the end makes `IsSet` panic -/
theorem isSet_panics_at_end (bm : Bytes) (i : Nat) (h : 8 * bm.length ≤ i)
    (h2 : i < 8 * bm.length + 8) : isSet bm i = .panic := by
  have hm : i / 8 = bm.length := by omega
  unfold isSet
  have h0 : ¬ ((i : Int) < 0) := by omega
  simp [h0, hm]

/-- further out `IsSet` returns an error -/
theorem isSet_err_of_gt (bm : Bytes) (i : Nat) (h : 8 * bm.length + 8 ≤ i) :
    isSet bm i = .err := by
  have hm : i / 8 > bm.length := by omega
  unfold isSet
  simp [hm]

theorem isSet_err_of_neg (bm : Bytes) (loc : Int) (h : loc < 0) : isSet bm loc = .err := by
  simp [isSet, h]

theorem set_err_of_ge (bm : Bytes) (i : Nat) (h : 8 * bm.length ≤ i) : set bm i = .err := by
  have hm : i / 8 ≥ bm.length := by omega
  unfold set
  simp [hm]

theorem clear_err_of_ge (bm : Bytes) (i : Nat) (h : 8 * bm.length ≤ i) : clear bm i = .err := by
  have hm : i / 8 ≥ bm.length := by omega
  unfold clear
  simp [hm]

theorem set_err_of_neg (bm : Bytes) (loc : Int) (h : loc < 0) : set bm loc = .err := by
  simp [set, h]

theorem clear_err_of_neg (bm : Bytes) (loc : Int) (h : loc < 0) : clear bm loc = .err := by
  simp [clear, h]

/-- `Set`/`Clear` never panic -/
theorem set_ne_panic (bm : Bytes) (loc : Int) : set bm loc ≠ .panic := by
  unfold set
  split
  · simp
  · simp only []
    split <;> simp

theorem clear_ne_panic (bm : Bytes) (loc : Int) : clear bm loc ≠ .panic := by
  unfold clear
  split
  · simp
  · simp only []
    split <;> simp


/-! ### FirstFree -/

theorem scanBits_none (p : Nat → Bool) (j n : Nat) (h : scanBits p j n = none) :
    ∀ k, j ≤ k → k < j + n → p k = false := by
  induction n generalizing j with
  | zero => intro k h1 h2; omega
  | succ n ih =>
    unfold scanBits at h
    split at h
    · simp at h
    · rename_i hp
      intro k h1 h2
      by_cases hk : k = j
      · subst hk; simpa using hp
      · exact ih (j+1) h k (by omega) (by omega)

theorem scanBits_some (p : Nat → Bool) (j n r : Nat) (h : scanBits p j n = some r) :
    j ≤ r ∧ r < j + n ∧ p r = true ∧ ∀ k, j ≤ k → k < r → p k = false := by
  induction n generalizing j with
  | zero => simp [scanBits] at h
  | succ n ih =>
    unfold scanBits at h
    split at h
    · rename_i hp
      simp at h
      subst h
      exact ⟨Nat.le_refl _, by omega, hp, fun k h1 h2 => by omega⟩
    · rename_i hp
      obtain ⟨h1, h2, h3, h4⟩ := ih (j+1) h
      refine ⟨by omega, by omega, h3, ?_⟩
      intro k hk1 hk2
      by_cases hk : k = j
      · subst hk; simpa using hp
      · exact h4 k (by omega) hk2

theorem bit_cons_lt (b : UInt8) (bs : Bytes) (k : Nat) (hk : k < 8) :
    bit (b :: bs) k = byteBit b k := by
  unfold bit
  have h1 : k / 8 = 0 := by omega
  have h2 : k % 8 = k := by omega
  simp [h1, h2]

theorem bit_cons_add (b : UInt8) (bs : Bytes) (k : Nat) :
    bit (b :: bs) (k + 8) = bit bs k := by
  unfold bit
  have h1 : (k + 8) / 8 = k / 8 + 1 := by omega
  have h2 : (k + 8) % 8 = k % 8 := by omega
  simp [h1, h2]

/-- what the loop over the remaining full bytes returns, relative to the suffix `bs`
    whose head byte has index `i` -/
def FFSpec (bs : Bytes) (i : Nat) (r : Int) : Prop :=
  (r = -1 ∧ ∀ k, k < 8 * bs.length → bit bs k = true) ∨
  (∃ n : Nat, r = ((8 * i + n : Nat) : Int) ∧ n < 8 * bs.length ∧ bit bs n = false ∧
      ∀ k, k < n → bit bs k = true)

theorem ffspec_skip (b : UInt8) (bs : Bytes) (i : Nat) (r : Int)
    (hall : ∀ k, k < 8 → byteBit b k = true) (ih : FFSpec bs (i+1) r) : FFSpec (b :: bs) i r := by
  rcases ih with ⟨h1, h2⟩ | ⟨n, h1, h2, h3, h4⟩
  · left
    refine ⟨h1, ?_⟩
    intro k hk
    by_cases hk8 : k < 8
    · rw [bit_cons_lt _ _ _ hk8]; exact hall k hk8
    · have : k = (k - 8) + 8 := by omega
      rw [this, bit_cons_add]
      apply h2
      simp only [List.length_cons] at hk
      omega
  · right
    refine ⟨n + 8, ?_, ?_, ?_, ?_⟩
    · rw [h1]; congr 1; omega
    · simp only [List.length_cons]; omega
    · rw [bit_cons_add]; exact h3
    · intro k hk
      by_cases hk8 : k < 8
      · rw [bit_cons_lt _ _ _ hk8]; exact hall k hk8
      · have : k = (k - 8) + 8 := by omega
        rw [this, bit_cons_add]
        apply h4
        omega

theorem firstFreeBytes_spec (bs : Bytes) (i : Nat) : FFSpec bs i (firstFreeBytes bs i) := by
  induction bs generalizing i with
  | nil => left; simp [firstFreeBytes]
  | cons b bs ih =>
    unfold firstFreeBytes
    split
    · rename_i hff
      exact ffspec_skip b bs i _ (ff_bits b hff) (ih (i+1))
    · split
      · rename_i j hj
        obtain ⟨_, h2, h3, h4⟩ := scanBits_some _ _ _ _ hj
        right
        refine ⟨j, ?_, ?_, ?_, ?_⟩
        · congr 1; omega
        · simp only [List.length_cons]; omega
        · rw [bit_cons_lt _ _ _ (by omega)]
          rw [testClear_eq _ _ (by omega)] at h3
          simpa using h3
        · intro k hk
          rw [bit_cons_lt _ _ _ (by omega)]
          have := h4 k (by omega) hk
          rw [testClear_eq _ _ (by omega)] at this
          simpa using this
      · rename_i hj
        have hn := scanBits_none _ _ _ hj
        apply ffspec_skip b bs i _ _ (ih (i+1))
        intro k hk
        have := hn k (by omega) (by omega)
        rw [testClear_eq _ _ hk] at this
        simpa using this

/-- the "first partial byte" step -/
theorem firstPart_spec (b : UInt8) (j0 : Nat) (hj0 : j0 < 8) :
    match (if b != 0xff then scanBits (testClear b) j0 (8 - j0) else none) with
    | none => ∀ k, j0 ≤ k → k < 8 → byteBit b k = true
    | some j => j0 ≤ j ∧ j < 8 ∧ byteBit b j = false ∧ ∀ k, j0 ≤ k → k < j → byteBit b k = true := by
  by_cases hff : b = 0xff
  · subst hff
    simp only [bne_self_eq_false, Bool.false_eq_true, if_false]
    intro k _ hk
    exact ff_bits _ (by simp) k hk
  · have : (b != 0xff) = true := by simpa using hff
    simp only [this, if_true]
    cases hs : scanBits (testClear b) j0 (8 - j0) with
    | none =>
      simp only
      intro k h1 h2
      have := scanBits_none _ _ _ hs k h1 (by omega)
      rw [testClear_eq _ _ h2] at this
      simpa using this
    | some j =>
      simp only
      obtain ⟨h1, h2, h3, h4⟩ := scanBits_some _ _ _ _ hs
      refine ⟨h1, by omega, ?_, ?_⟩
      · rw [testClear_eq _ _ (by omega)] at h3
        simpa using h3
      · intro k hk1 hk2
        have := h4 k hk1 hk2
        rw [testClear_eq _ _ (by omega)] at this
        simpa using this

theorem firstFree_spec (bm : Bytes) (start : Nat) :
    (firstFree bm start = -1 ∧ ∀ i, start ≤ i → i < 8 * bm.length → bit bm i = true) ∨
    (∃ n : Nat, firstFree bm start = n ∧ start ≤ n ∧ n < 8 * bm.length ∧ bit bm n = false ∧
      ∀ i, start ≤ i → i < n → bit bm i = true) := by
  unfold firstFree
  have h0 : ¬ ((start : Int) < 0) := by omega
  simp only [h0, if_false, Int.toNat_natCast]
  by_cases hge : start ≥ bm.length * 8
  · left
    simp only [hge, if_true, true_and]
    intro i h1 h2; omega
  · simp only [hge, if_false]
    have hm : start / 8 < bm.length := by omega
    have hj0 : start % 8 < 8 := by omega
    have hp := firstPart_spec (bm.getD (start / 8) 0) (start % 8) hj0
    generalize (if bm.getD (start / 8) 0 != 0xff then
        scanBits (testClear (bm.getD (start / 8) 0)) (start % 8) (8 - start % 8) else none) = first at hp
    cases first with
    | some j =>
      simp only at hp ⊢
      obtain ⟨h1, h2, h3, h4⟩ := hp
      right
      refine ⟨start / 8 * 8 + j, rfl, by omega, by omega, ?_, ?_⟩
      · rw [Nat.mul_comm, bit_at _ _ _ h2]; exact h3
      · intro i hi1 hi2
        have e : i = 8 * (start / 8) + i % 8 := by omega
        rw [e, bit_at _ _ _ (by omega)]
        exact h4 _ (by omega) (by omega)
    | none =>
      simp only at hp ⊢
      have hs := firstFreeBytes_spec (bm.drop (start / 8 + 1)) (start / 8 + 1)
      rcases hs with ⟨e, hall⟩ | ⟨n, e, hn1, hn2, hn3⟩
      · left
        refine ⟨e, ?_⟩
        intro i hi1 hi2
        by_cases hi : i / 8 = start / 8
        · have e : i = 8 * (start / 8) + i % 8 := by omega
          rw [e, bit_at _ _ _ (by omega)]
          exact hp _ (by omega) (by omega)
        · have e : i = 8 * (start / 8 + 1) + (i - 8 * (start / 8 + 1)) := by omega
          rw [e, ← bit_drop]
          apply hall
          simp only [List.length_drop]
          omega
      · right
        simp only [List.length_drop] at hn1
        refine ⟨8 * (start / 8 + 1) + n, e, by omega, by omega, ?_, ?_⟩
        · rw [← bit_drop]; exact hn2
        · intro i hi1 hi2
          by_cases hi : i / 8 = start / 8
          · have e : i = 8 * (start / 8) + i % 8 := by omega
            rw [e, bit_at _ _ _ (by omega)]
            exact hp _ (by omega) (by omega)
          · have e : i = 8 * (start / 8 + 1) + (i - 8 * (start / 8 + 1)) := by omega
            rw [e, ← bit_drop]
            apply hn3
            omega

/-- a negative start behaves like 0 -/
theorem firstFree_neg (bm : Bytes) (start : Int) (h : start < 0) :
    firstFree bm start = firstFree bm 0 := by
  unfold firstFree
  simp [h]


/-! ### FreeList: the loop as a flat scan over bit positions -/

/-- the `FreeList` loop body iterated over positions `a .. a+n-1` of an abstract
    "is clear" predicate -/
def scanFrom (clr : Nat → Bool) (a n : Nat) (s : FLState) : FLState :=
  (List.range' a n).foldl (fun s p => flStep s p (clr p)) s

theorem scanFrom_add (clr : Nat → Bool) (a m n : Nat) (s : FLState) :
    scanFrom clr a (m + n) s = scanFrom clr (a + m) n (scanFrom clr a m s) := by
  unfold scanFrom
  rw [← List.range'_append_1, List.foldl_append]

theorem scanFrom_succ (clr : Nat → Bool) (a n : Nat) (s : FLState) :
    scanFrom clr a (n + 1) s = flStep (scanFrom clr a n s) (a + n) (clr (a + n)) := by
  unfold scanFrom
  rw [List.range'_1_concat, List.foldl_append]
  rfl

theorem flByte_eq (bm : Bytes) (b : UInt8) (i : Nat) (s : FLState) (hb : bm.getD i 0 = b) :
    flByte b i s = scanFrom (fun p => !bit bm p) (8 * i) 8 s := by
  have hr : List.range 8 = [0, 1, 2, 3, 4, 5, 6, 7] := by decide
  have hbit : ∀ j, j < 8 → (!testSet b j) = !bit bm (8 * i + j) := by
    intro j hj
    rw [bit_at _ _ _ hj, hb, testSet_eq _ _ hj]
  unfold flByte scanFrom
  rw [hr]
  simp only [List.range', List.foldl_cons, List.foldl_nil, Nat.add_assoc, Nat.reduceAdd]
  rw [hbit 0 (by omega), hbit 1 (by omega), hbit 2 (by omega), hbit 3 (by omega),
    hbit 4 (by omega), hbit 5 (by omega), hbit 6 (by omega), hbit 7 (by omega)]
  rfl

theorem flBytes_eq (bs pre : Bytes) (s : FLState) :
    flBytes bs pre.length s
      = scanFrom (fun p => !bit (pre ++ bs) p) (8 * pre.length) (8 * bs.length) s := by
  induction bs generalizing pre s with
  | nil => simp [flBytes, scanFrom]
  | cons b bs ih =>
    unfold flBytes
    have e : 8 * (b :: bs).length = 8 + 8 * bs.length := by simp only [List.length_cons]; omega
    rw [e, scanFrom_add]
    have hb : (pre ++ b :: bs).getD pre.length 0 = b := by
      simp [List.getD_eq_getElem?_getD]
    rw [← flByte_eq (pre ++ b :: bs) b pre.length s hb]
    have := ih (pre ++ [b]) (flByte b pre.length s)
    simp only [List.length_append, List.length_cons, List.length_nil, List.append_assoc,
      List.cons_append, List.nil_append] at this
    rw [this]
    congr 1

theorem freeList_eq_scan (bm : Bytes) :
    freeList bm = flFlush (scanFrom (fun p => !bit bm p) 0 (8 * bm.length) ⟨[], none, 0⟩) := by
  unfold freeList
  have := flBytes_eq bm [] ⟨[], none, 0⟩
  simp only [List.length_nil, Nat.mul_zero, List.nil_append] at this
  rw [this]

/-! ### FreeList: loop invariant -/

/-- invariant of the `FreeList` loop after positions `0 .. N-1` have been consumed
    (`out` is in reverse order) -/
structure Inv (clr : Nat → Bool) (N : Nat) (s : FLState) : Prop where
  runs : ∀ r ∈ s.out, 0 < r.2 ∧ r.1 + r.2 < N ∧ (∀ i, r.1 ≤ i → i < r.1 + r.2 → clr i = true) ∧
    clr (r.1 + r.2) = false ∧ (0 < r.1 → clr (r.1 - 1) = false)
  sorted : s.out.Pairwise (fun a b => b.1 + b.2 < a.1)
  cur_none : s.loc = none → s.count = 0 ∧ (0 < N → clr (N - 1) = false)
  cur_some : ∀ l, s.loc = some l → l + s.count = N ∧ 0 < s.count ∧
    (∀ i, l ≤ i → i < N → clr i = true) ∧ (0 < l → clr (l - 1) = false) ∧
    ∀ r ∈ s.out, r.1 + r.2 < l
  cover : ∀ i, i < N → clr i = true →
    (∃ r ∈ s.out, r.1 ≤ i ∧ i < r.1 + r.2) ∨ (∃ l, s.loc = some l ∧ l ≤ i)

theorem inv_init (clr : Nat → Bool) : Inv clr 0 ⟨[], none, 0⟩ where
  runs := by simp
  sorted := by simp
  cur_none := by simp
  cur_some := by simp
  cover := by intro i hi; omega

theorem inv_step (clr : Nat → Bool) (N : Nat) (s : FLState) (h : Inv clr N s) :
    Inv clr (N + 1) (flStep s N (clr N)) := by
  obtain ⟨out, loc, count⟩ := s
  obtain ⟨hruns, hsorted, hnone, hsome, hcover⟩ := h
  simp only at hruns hsorted hnone hsome hcover
  cases hc : clr N with
  | true =>
    cases loc with
    | none =>
      obtain ⟨hcnt, hprev⟩ := hnone rfl
      subst hcnt
      simp only [flStep, if_true]
      refine ⟨?_, hsorted, by simp, ?_, ?_⟩
      · intro r hr
        obtain ⟨a, b, c, d, e⟩ := hruns r hr
        exact ⟨a, by omega, c, d, e⟩
      · intro l hl
        simp only [Option.some.injEq] at hl
        subst hl
        dsimp only
        refine ⟨by omega, by omega, ?_, ?_, ?_⟩
        · intro i h1 h2
          have : i = N := by omega
          subst this; exact hc
        · exact hprev
        · intro r hr; exact (hruns r hr).2.1
      · intro i hi hci
        by_cases hiN : i = N
        · right; exact ⟨N, rfl, by omega⟩
        · rcases hcover i (by omega) hci with hl | ⟨l, hl, _⟩
          · left; exact hl
          · simp at hl
    | some l =>
      obtain ⟨h1, h2, h3, h4, h5⟩ := hsome l rfl
      simp only [flStep, if_true]
      refine ⟨?_, hsorted, by simp, ?_, ?_⟩
      · intro r hr
        obtain ⟨a, b, c, d, e⟩ := hruns r hr
        exact ⟨a, by omega, c, d, e⟩
      · intro l' hl'
        simp only [Option.some.injEq] at hl'
        subst hl'
        dsimp only
        refine ⟨by omega, by omega, ?_, h4, h5⟩
        intro i hi1 hi2
        by_cases hiN : i = N
        · subst hiN; exact hc
        · exact h3 i hi1 (by omega)
      · intro i hi hci
        by_cases hiN : i = N
        · right; exact ⟨l, rfl, by omega⟩
        · rcases hcover i (by omega) hci with hl | hr
          · left; exact hl
          · right; exact hr
  | false =>
    cases loc with
    | none =>
      obtain ⟨hcnt, hprev⟩ := hnone rfl
      simp only [flStep, Bool.false_eq_true, if_false]
      refine ⟨?_, hsorted, ?_, by simp, ?_⟩
      · intro r hr
        obtain ⟨a, b, c, d, e⟩ := hruns r hr
        exact ⟨a, by omega, c, d, e⟩
      · intro _
        exact ⟨hcnt, fun _ => by simpa using hc⟩
      · intro i hi hci
        have hiN : i ≠ N := by intro e; subst e; rw [hc] at hci; simp at hci
        exact hcover i (by omega) hci
    | some l =>
      obtain ⟨h1, h2, h3, h4, h5⟩ := hsome l rfl
      simp only [flStep, Bool.false_eq_true, if_false]
      refine ⟨?_, ?_, ?_, by simp, ?_⟩
      · intro r hr
        simp only [List.mem_cons] at hr
        rcases hr with hr | hr
        · subst hr
          simp only
          refine ⟨h2, by omega, ?_, ?_, h4⟩
          · intro i hi1 hi2; exact h3 i hi1 (by omega)
          · rw [h1]; exact hc
        · obtain ⟨a, b, c, d, e⟩ := hruns r hr
          exact ⟨a, by omega, c, d, e⟩
      · exact List.pairwise_cons.mpr ⟨fun r hr => h5 r hr, hsorted⟩
      · intro _
        exact ⟨rfl, fun _ => by simpa using hc⟩
      · intro i hi hci
        have hiN : i ≠ N := by intro e; subst e; rw [hc] at hci; simp at hci
        left
        rcases hcover i (by omega) hci with ⟨r, hr, hr2⟩ | ⟨l', hl', hl2⟩
        · exact ⟨r, List.mem_cons_of_mem _ hr, hr2⟩
        · simp only [Option.some.injEq] at hl'
          subst hl'
          exact ⟨(l, count), List.mem_cons_self .., by simpa using hl2, by simp only; omega⟩

theorem inv_scan (clr : Nat → Bool) (N : Nat) : Inv clr N (scanFrom clr 0 N ⟨[], none, 0⟩) := by
  induction N with
  | zero => simpa [scanFrom] using inv_init clr
  | succ N ih =>
    rw [scanFrom_succ]
    simpa using inv_step clr N _ ih

/-- what `FreeList` promises, over an abstract "is clear" predicate on `0 .. N-1` -/
structure RunsSpec (clr : Nat → Bool) (N : Nat) (fl : List (Nat × Nat)) : Prop where
  /-- (a) runs are non-empty, inside the bitmap, and consist of clear bits -/
  sound : ∀ r ∈ fl, 0 < r.2 ∧ r.1 + r.2 ≤ N ∧ ∀ i, r.1 ≤ i → i < r.1 + r.2 → clr i = true
  /-- (b) every clear bit lies in a run -/
  cover : ∀ i, i < N → clr i = true → ∃ r ∈ fl, r.1 ≤ i ∧ i < r.1 + r.2
  /-- (c) increasing positions with at least one (set) bit between any two runs -/
  sorted : fl.Pairwise (fun a b => a.1 + a.2 < b.1)
  /-- (c) maximal: the neighbours of a run, when inside the bitmap, are not clear -/
  maximal : ∀ r ∈ fl, (0 < r.1 → clr (r.1 - 1) = false) ∧ (r.1 + r.2 < N → clr (r.1 + r.2) = false)

theorem flFlush_spec (clr : Nat → Bool) (N : Nat) (s : FLState) (h : Inv clr N s) :
    RunsSpec clr N (flFlush s) := by
  obtain ⟨out, loc, count⟩ := s
  obtain ⟨hruns, hsorted, hnone, hsome, hcover⟩ := h
  simp only at hruns hsorted hnone hsome hcover
  cases loc with
  | none =>
    simp only [flFlush]
    refine ⟨?_, ?_, ?_, ?_⟩
    · intro r hr
      obtain ⟨a, b, c, d, e⟩ := hruns r (List.mem_reverse.mp hr)
      exact ⟨a, by omega, c⟩
    · intro i hi hci
      rcases hcover i hi hci with ⟨r, hr, hr2⟩ | ⟨l, hl, _⟩
      · exact ⟨r, List.mem_reverse.mpr hr, hr2⟩
      · simp at hl
    · exact List.pairwise_reverse.mpr hsorted
    · intro r hr
      obtain ⟨a, b, c, d, e⟩ := hruns r (List.mem_reverse.mp hr)
      exact ⟨e, fun _ => d⟩
  | some l =>
    obtain ⟨h1, h2, h3, h4, h5⟩ := hsome l rfl
    simp only [flFlush]
    refine ⟨?_, ?_, ?_, ?_⟩
    · intro r hr
      rw [List.mem_reverse, List.mem_cons] at hr
      rcases hr with hr | hr
      · subst hr
        exact ⟨h2, by simp only; omega, fun i hi1 hi2 => h3 i hi1 (by simp only at hi2; omega)⟩
      · obtain ⟨a, b, c, d, e⟩ := hruns r hr
        exact ⟨a, by omega, c⟩
    · intro i hi hci
      rcases hcover i hi hci with ⟨r, hr, hr2⟩ | ⟨l', hl', hl2⟩
      · exact ⟨r, List.mem_reverse.mpr (List.mem_cons_of_mem _ hr), hr2⟩
      · simp only [Option.some.injEq] at hl'
        subst hl'
        exact ⟨(l, count), List.mem_reverse.mpr (List.mem_cons_self ..), by simpa using hl2,
          by simp only; omega⟩
    · exact List.pairwise_reverse.mpr (List.pairwise_cons.mpr ⟨fun r hr => h5 r hr, hsorted⟩)
    · intro r hr
      rw [List.mem_reverse, List.mem_cons] at hr
      rcases hr with hr | hr
      · subst hr
        exact ⟨h4, fun hlt => by simp only at hlt; omega⟩
      · obtain ⟨a, b, c, d, e⟩ := hruns r hr
        exact ⟨e, fun _ => d⟩

/-- sorted-with-gaps runs are pairwise disjoint: a position lies in at most one -/
theorem runs_unique (fl : List (Nat × Nat)) (hs : fl.Pairwise (fun a b => a.1 + a.2 < b.1))
    (i : Nat) (r1 r2 : Nat × Nat) (h1 : r1 ∈ fl) (h2 : r2 ∈ fl)
    (a1 : r1.1 ≤ i) (b1 : i < r1.1 + r1.2) (a2 : r2.1 ≤ i) (b2 : i < r2.1 + r2.2) : r1 = r2 := by
  induction fl with
  | nil => simp at h1
  | cons x xs ih =>
    obtain ⟨hx, hxs⟩ := List.pairwise_cons.mp hs
    rw [List.mem_cons] at h1 h2
    rcases h1 with h1 | h1 <;> rcases h2 with h2 | h2
    · rw [h1, h2]
    · subst h1; have := hx r2 h2; omega
    · subst h2; have := hx r1 h1; omega
    · exact ih hxs h1 h2


/-! ### FreeList: main theorems -/

theorem freeList_runsSpec (bm : Bytes) :
    RunsSpec (fun p => !bit bm p) (8 * bm.length) (freeList bm) := by
  rw [freeList_eq_scan]
  exact flFlush_spec _ _ _ (inv_scan _ _)

/-- `FreeList` returns exactly the partition of the clear bits into maximal runs:
    (a) each run is non-empty, inside the bitmap and all clear;
    (b) each clear bit lies in a run, and in only one;
    (c) the runs are in increasing position with a gap between any two (Pairwise, so
        in particular for consecutive ones), and the bits just before / after a run,
        when inside the bitmap, are set. -/
theorem freeList_spec (bm : Bytes) :
    (∀ r ∈ freeList bm, 0 < r.2 ∧ r.1 + r.2 ≤ 8 * bm.length ∧
        ∀ i, r.1 ≤ i → i < r.1 + r.2 → bit bm i = false) ∧
    (∀ i, i < 8 * bm.length → bit bm i = false →
        ∃ r ∈ freeList bm, r.1 ≤ i ∧ i < r.1 + r.2) ∧
    (∀ i, ∀ r1 ∈ freeList bm, ∀ r2 ∈ freeList bm,
        r1.1 ≤ i → i < r1.1 + r1.2 → r2.1 ≤ i → i < r2.1 + r2.2 → r1 = r2) ∧
    (freeList bm).Pairwise (fun a b => a.1 + a.2 < b.1) ∧
    (∀ r ∈ freeList bm, (0 < r.1 → bit bm (r.1 - 1) = true) ∧
        (r.1 + r.2 < 8 * bm.length → bit bm (r.1 + r.2) = true)) := by
  obtain ⟨hsound, hcover, hsorted, hmax⟩ := freeList_runsSpec bm
  refine ⟨?_, ?_, ?_, hsorted, ?_⟩
  · intro r hr
    obtain ⟨a, b, c⟩ := hsound r hr
    exact ⟨a, b, fun i h1 h2 => by simpa using c i h1 h2⟩
  · intro i hi hb
    exact hcover i hi (by simp [hb])
  · intro i r1 h1 r2 h2 a1 b1 a2 b2
    exact runs_unique _ hsorted i r1 r2 h1 h2 a1 b1 a2 b2
  · intro r hr
    obtain ⟨a, b⟩ := hmax r hr
    exact ⟨fun h => by simpa using a h, fun h => by simpa using b h⟩

/-- (c) in index form: consecutive runs are separated by at least one bit -/
theorem freeList_consecutive (bm : Bytes) (k : Nat) (h : k + 1 < (freeList bm).length) :
    (freeList bm)[k].1 + (freeList bm)[k].2 < (freeList bm)[k + 1].1 := by
  have hs := (freeList_spec bm).2.2.2.1
  exact List.pairwise_iff_getElem.mp hs k (k + 1) (by omega) h (by omega)

/-! ### FreeList counts sum to the number of clear bits -/

theorem countFree_zero (bm : Bytes) : countFree bm 0 = 0 := rfl

theorem countFree_succ (bm : Bytes) (n : Nat) :
    countFree bm (n + 1) = countFree bm n + (if bit bm n then 0 else 1) := by
  unfold countFree
  rw [List.range_succ, List.foldl_append]
  simp only [List.foldl_cons, List.foldl_nil]
  split <;> rfl

/-- runs recorded so far plus the open run -/
def total (s : FLState) : Nat := (s.out.map (·.2)).sum + s.count

theorem total_step (s : FLState) (p : Nat) (c : Bool) :
    total (flStep s p c) = total s + (if c then 1 else 0) := by
  obtain ⟨out, loc, count⟩ := s
  cases c with
  | true => simp [flStep, total]; omega
  | false =>
    cases loc with
    | none => simp [flStep, total]
    | some l => simp [flStep, total]; omega

theorem total_scan (bm : Bytes) (N : Nat) :
    total (scanFrom (fun p => !bit bm p) 0 N ⟨[], none, 0⟩) = countFree bm N := by
  induction N with
  | zero => simp [scanFrom, total, countFree_zero]
  | succ N ih =>
    rw [scanFrom_succ, total_step, ih, countFree_succ]
    simp only [Nat.zero_add]
    cases bit bm N <;> simp

theorem sum_map_reverse (l : List (Nat × Nat)) :
    (l.reverse.map (·.2)).sum = (l.map (·.2)).sum := by
  rw [List.map_reverse, List.sum_reverse_nat]

theorem flFlush_sum (s : FLState) (h : s.loc = none → s.count = 0) :
    ((flFlush s).map (·.2)).sum = total s := by
  obtain ⟨out, loc, count⟩ := s
  cases loc with
  | none =>
    have := h rfl
    simp only at this
    subst this
    simp only [flFlush, total, sum_map_reverse, Nat.add_zero]
  | some l =>
    simp only [flFlush, total, sum_map_reverse, List.map_cons, List.sum_cons]
    omega

theorem freeList_sum (bm : Bytes) :
    ((freeList bm).map (·.2)).sum = countFree bm (8 * bm.length) := by
  rw [freeList_eq_scan, flFlush_sum, total_scan]
  intro h
  exact ((inv_scan _ _).cur_none h).1

/-! ### extras: FirstSet, and how Set / Clear move `countFree` -/

theorem testNZ_eq (b : UInt8) (j : Nat) (h : j < 8) : (b &&& mask j != 0) = byteBit b j := by
  have := testClear_eq b j h
  unfold testClear at this
  unfold bne
  rw [this]
  simp

/-- mirror image of `FFSpec` for `FirstSet` -/
def FSSpec (bs : Bytes) (i : Nat) (r : Int) : Prop :=
  (r = -1 ∧ ∀ k, k < 8 * bs.length → bit bs k = false) ∨
  (∃ n : Nat, r = ((8 * i + n : Nat) : Int) ∧ n < 8 * bs.length ∧ bit bs n = true ∧
      ∀ k, k < n → bit bs k = false)

theorem fsspec_skip (b : UInt8) (bs : Bytes) (i : Nat) (r : Int)
    (hall : ∀ k, k < 8 → byteBit b k = false) (ih : FSSpec bs (i+1) r) : FSSpec (b :: bs) i r := by
  rcases ih with ⟨h1, h2⟩ | ⟨n, h1, h2, h3, h4⟩
  · left
    refine ⟨h1, ?_⟩
    intro k hk
    by_cases hk8 : k < 8
    · rw [bit_cons_lt _ _ _ hk8]; exact hall k hk8
    · have : k = (k - 8) + 8 := by omega
      rw [this, bit_cons_add]
      apply h2
      simp only [List.length_cons] at hk
      omega
  · right
    refine ⟨n + 8, ?_, ?_, ?_, ?_⟩
    · rw [h1]; congr 1; omega
    · simp only [List.length_cons]; omega
    · rw [bit_cons_add]; exact h3
    · intro k hk
      by_cases hk8 : k < 8
      · rw [bit_cons_lt _ _ _ hk8]; exact hall k hk8
      · have : k = (k - 8) + 8 := by omega
        rw [this, bit_cons_add]
        apply h4
        omega

theorem firstSetBytes_spec (bs : Bytes) (i : Nat) : FSSpec bs i (firstSetBytes bs i) := by
  induction bs generalizing i with
  | nil => left; simp [firstSetBytes]
  | cons b bs ih =>
    unfold firstSetBytes
    split
    · rename_i hz
      have : b = 0 := by simpa using hz
      subst this
      exact fsspec_skip _ bs i _ (fun k _ => by simp [byteBit]) (ih (i+1))
    · split
      · rename_i j hj
        obtain ⟨_, h2, h3, h4⟩ := scanBits_some _ _ _ _ hj
        right
        refine ⟨j, ?_, ?_, ?_, ?_⟩
        · congr 1; omega
        · simp only [List.length_cons]; omega
        · rw [bit_cons_lt _ _ _ (by omega)]
          rw [testNZ_eq _ _ (by omega)] at h3
          exact h3
        · intro k hk
          rw [bit_cons_lt _ _ _ (by omega)]
          have := h4 k (by omega) hk
          rw [testNZ_eq _ _ (by omega)] at this
          exact this
      · rename_i hj
        have hn := scanBits_none _ _ _ hj
        apply fsspec_skip b bs i _ _ (ih (i+1))
        intro k hk
        have := hn k (by omega) (by omega)
        rw [testNZ_eq _ _ hk] at this
        exact this

/-- `FirstSet` returns the least set bit, or -1 when every bit is clear -/
theorem firstSet_spec (bm : Bytes) :
    (firstSet bm = -1 ∧ ∀ i, i < 8 * bm.length → bit bm i = false) ∨
    (∃ n : Nat, firstSet bm = n ∧ n < 8 * bm.length ∧ bit bm n = true ∧
      ∀ i, i < n → bit bm i = false) := by
  rcases firstSetBytes_spec bm 0 with h | ⟨n, h1, h2, h3, h4⟩
  · left; exact h
  · right
    refine ⟨n, ?_, h2, h3, h4⟩
    unfold firstSet
    rw [h1]; congr 1; omega

theorem countFree_congr (a b : Bytes) (n : Nat) (h : ∀ i, i < n → bit a i = bit b i) :
    countFree a n = countFree b n := by
  induction n with
  | zero => rfl
  | succ n ih =>
    rw [countFree_succ, countFree_succ, ih (fun i hi => h i (by omega)), h n (by omega)]

theorem countFree_le (bm : Bytes) (n : Nat) : countFree bm n ≤ n := by
  induction n with
  | zero => simp [countFree_zero]
  | succ n ih => rw [countFree_succ]; split <;> omega

/-- flipping one clear bit `i < n` to set lowers `countFree · n` by exactly one -/
theorem countFree_flip (a b : Bytes) (i n : Nat) (hi : i < n)
    (ha : bit a i = false) (hb : bit b i = true) (hrest : ∀ j, j ≠ i → bit b j = bit a j) :
    countFree b n + 1 = countFree a n := by
  induction n with
  | zero => omega
  | succ n ih =>
    rw [countFree_succ, countFree_succ]
    by_cases hin : i = n
    · subst hin
      rw [ha, hb, countFree_congr b a i (fun j hj => hrest j (by omega))]
      simp
    · rw [hrest n (fun e => hin e.symm), ← ih (by omega)]
      omega

/-- `Set` on a free bit inside the counted range uses up exactly one free bit -/
theorem countFree_set (bm bm' : Bytes) (i n : Nat) (hi : i < n) (h : i < 8 * bm.length)
    (hs : set bm i = .ok bm') (hfree : bit bm i = false) :
    countFree bm' n + 1 = countFree bm n := by
  obtain ⟨bm'', e, _, h2, h3⟩ := bitmap_set_get bm i h
  rw [hs] at e
  cases e
  exact countFree_flip bm bm' i n hi hfree h2 h3

/-- `Clear` on a set bit inside the counted range frees exactly one bit -/
theorem countFree_clear (bm bm' : Bytes) (i n : Nat) (hi : i < n) (h : i < 8 * bm.length)
    (hs : clear bm i = .ok bm') (hset : bit bm i = true) :
    countFree bm' n = countFree bm n + 1 := by
  obtain ⟨bm'', e, _, h2, h3⟩ := bitmap_clear_get bm i h
  rw [hs] at e
  cases e
  exact (countFree_flip bm' bm i n hi h2 hset (fun j hj => (h3 j hj).symm)).symm

/-! ### concrete checks (non-vacuity) -/

/-- the bitmap of the Go doc comment of `FreeList`, `10010010 00100000 10000010` in
    position order, is bytes `49 04 41`; the code returns a run `7:3` where the
    comment says `8:3` (bit 7 is clear too). -/
example : freeList [0x49, 0x04, 0x41] = [(1, 2), (4, 2), (7, 3), (11, 5), (17, 5), (23, 1)] := by
  decide

example : countFree [0x49, 0x04, 0x41] 24 = 18 := by decide
example : freeList [0xff, 0xff] = [] ∧ freeList [] = [] ∧ freeList [0x00] = [(0, 8)] := by decide

example : firstFree [0xff, 0x07] 3 = 11 ∧ firstFree [0xff, 0x07] (-3) = 11 ∧
    firstFree [0x0f, 0x07] 2 = 4 ∧ firstFree [0xff, 0xff] 0 = -1 ∧ firstFree [0x00] 8 = -1 := by
  decide

example : firstSet [0, 0, 8] = 19 ∧ firstSet [0, 0] = -1 := by decide

/-- the `IsSet` off-by-one: one byte, location 8 panics, location 16 is an error -/
example : isSet [1] 8 = .panic ∧ isSet [1] 16 = .err ∧ isSet [1] 0 = .ok true ∧
    isSet [1] 7 = .ok false ∧ isSet [1] (-1) = .err := by decide

example : set [1, 0] 9 = .ok [1, 2] ∧ clear [1, 0xff] 9 = .ok [1, 0xfd] ∧
    set [1, 0] 16 = .err ∧ clear [1, 0] 16 = .err := by decide

end Diskfs.Ext4.Bitmap
