/-
  The decidable checker of Model/Ext4/ExtTreeInv.lean (run by the driver on every tree of the correspondence) decides
  exactly the invariant `TreeInv` the theorems of Proofs/Ext4ExtInv.lean assume and preserve.
-/
import DiskfsModel.Proofs.Ext4ExtInv
import DiskfsModel.Model.Ext4.ExtTreeInv
namespace Diskfs.Ext4.ExtTree
open Diskfs Diskfs.Ext4

mutual
theorem goodB_iff : ∀ (bs : Nat) (c : Node), goodB bs c = true ↔ good bs c
  | bs, .leaf max disk es => by
    simp only [goodB, good, Bool.and_eq_true, beq_iff_eq, decide_eq_true_eq, Bool.not_eq_true', List.isEmpty_eq_false_iff,
      bne_iff_ne, ne_eq, and_assoc]
  | bs, .index max disk depth ks => by
    simp only [goodB, good, Bool.and_eq_true, beq_iff_eq, decide_eq_true_eq, Bool.not_eq_true', List.isEmpty_eq_false_iff,
      bne_iff_ne, ne_eq, and_assoc, goodKidsB_iff bs depth ks]
theorem goodKidsB_iff : ∀ (bs d : Nat) (ks : Kids), goodB.goodKidsB bs d ks = true ↔ good.goodKids bs d ks
  | _, _, [] => by simp [goodB.goodKidsB, good.goodKids]
  | bs, d, (k, c) :: ks => by
    simp only [goodB.goodKidsB, good.goodKids, Bool.and_eq_true, beq_iff_eq, and_assoc, goodB_iff bs c, goodKidsB_iff bs d ks]
end

theorem goodRootB_iff (bs : Nat) (t : Node) : goodRootB bs t = true ↔ goodRoot bs t := by
  cases t with
  | leaf max disk es =>
    simp only [goodRootB, goodRoot, Bool.and_eq_true, beq_iff_eq, decide_eq_true_eq, and_assoc]
  | index max disk depth ks =>
    simp only [goodRootB, goodRoot, Bool.and_eq_true, beq_iff_eq, decide_eq_true_eq, Bool.not_eq_true',
      List.isEmpty_eq_false_iff, ne_eq, and_assoc, goodKidsB_iff bs depth ks]

theorem incB_iff (l : List Nat) : incB l = true ↔ l.Pairwise (· < ·) := by
  induction l with
  | nil => simp [incB]
  | cons a r ih =>
    cases r with
    | nil => simp [incB]
    | cons b r' =>
      simp only [incB, Bool.and_eq_true, decide_eq_true_eq, ih, List.pairwise_cons]
      constructor
      · rintro ⟨hab, hb, hr⟩
        refine ⟨?_, hb, hr⟩
        intro x hx
        rcases List.mem_cons.mp hx with rfl | hx'
        · exact hab
        · exact Nat.lt_trans hab (hb x hx')
      · rintro ⟨ha, hb, hr⟩
        exact ⟨ha b (by simp), hb, hr⟩

theorem sortedB_iff (t : Node) : sortedB t = true ↔ SortedFB (flatten t) := by
  unfold sortedB SortedFB
  rw [incB_iff, List.pairwise_map]

/-- the checker decides the invariant -/
theorem treeInvB_iff (bs : Nat) (t : Node) : treeInvB bs t = true ↔ TreeInv bs t := by
  simp only [treeInvB, nodupB, Bool.and_eq_true, goodRootB_iff, sortedB_iff, decide_eq_true_eq]
  constructor
  · rintro ⟨⟨h1, h2⟩, h3⟩; exact ⟨h1, h2, h3⟩
  · rintro ⟨h1, h2, h3⟩; exact ⟨⟨h1, h2⟩, h3⟩

end Diskfs.Ext4.ExtTree
