/-
  Layer E for a tree of directories, third part: every directory fits its storage (`TFit`).
    alloc_res_len    what `allocateSpace` returns has at least the clusters asked for (no invariant needed)
    writeDir_fit     after `writeDirectoryEntries` the directory has exactly the clusters its entries need
    dstep_fit        every call inside one directory keeps `LevelFit` / `kidsFit`
    atDirT_fit       … at any depth (induction over the path)
    tstep_fit / trun_fit
  This is the clause a directory cut short of its entries would violate (finding
  fat-rename-enospc-truncates-dir, fixed by 5b30bf0: the parent was cut to one cluster first).
  Core Lean only.
-/
import DiskfsModel.Proofs.FatTreeStep
namespace Diskfs.Fat

/-! ### `kidsFit` as a statement about every child -/

theorem kidsFit_iff (g : TGeom) (ks : List TNode) : kidsFit g ks ↔ ∀ t ∈ ks, t.Fit g := by
  induction ks with
  | nil => rw [kidsFit]; simp
  | cons t ks ih =>
    rw [kidsFit, ih]
    constructor
    · rintro ⟨h1, h2⟩ u hu
      rcases List.mem_cons.1 hu with rfl | hu
      · exact h1
      · exact h2 u hu
    · intro h
      exact ⟨h t List.mem_cons_self, fun u hu => h u (List.mem_cons_of_mem _ hu)⟩

theorem fit_file (g : TGeom) (n : Spec.Name) (c : List Nat) (sz : Nat) : (TNode.file n c sz).Fit g := by
  rw [TNode.Fit]; trivial

theorem fit_dir (g : TGeom) (n : Spec.Name) (c : List Nat) (ks : List TNode) :
    (TNode.dir n c ks).Fit g ↔ c ≠ [] ∧ LevelFit g 2 c ks ∧ kidsFit g ks := by rw [TNode.Fit]

theorem fit_rename (g : TGeom) (t : TNode) (n : Spec.Name) : (t.rename n).Fit g ↔ t.Fit g := by
  cases t <;> simp [TNode.rename, TNode.Fit]

theorem kidsFit_append {g : TGeom} {ks : List TNode} {x : TNode} (h : kidsFit g ks) (hx : x.Fit g) :
    kidsFit g (ks ++ [x]) := by
  rw [kidsFit_iff] at h ⊢
  intro t ht
  rcases List.mem_append.1 ht with ht | ht
  · exact h t ht
  · rw [List.mem_singleton] at ht; subst ht; exact hx

theorem kidsFit_kset {eqn} {g : TGeom} {ks : List TNode} {n : Spec.Name} {x : TNode}
    (h : kidsFit g ks) (hx : x.Fit g) : kidsFit g (kset eqn ks n x) := by
  rw [kidsFit_iff] at h ⊢
  intro t ht
  unfold kset at ht
  obtain ⟨u, hu, rfl⟩ := List.mem_map.1 ht
  split
  · exact hx
  · exact h u hu

theorem kidsFit_kerase {eqn} {g : TGeom} {ks : List TNode} {n : Spec.Name} (h : kidsFit g ks) :
    kidsFit g (kerase eqn ks n) := by
  rw [kidsFit_iff] at h ⊢
  intro t ht
  exact h t (List.mem_filter.1 ht).1

theorem kidsFit_krename {eqn} {g : TGeom} {ks : List TNode} {o n : Spec.Name} (h : kidsFit g ks) :
    kidsFit g (krename eqn ks o n) := by
  rw [kidsFit_iff] at h ⊢
  intro t ht
  unfold krename at ht
  obtain ⟨u, hu, rfl⟩ := List.mem_map.1 ht
  split
  · rw [fit_rename]; exact h u hu
  · exact h u hu

/-! ### what `allocateSpace` returns is long enough -/

theorem alloc_res_len {k : Kind} {max bpc lim fuel : Nat} {m : CMap} {size prev : Nat} {l' : List Nat}
    (h : (allocateSpace k max bpc (firstFit lim) fuel m size prev).res = some l') :
    clusterCount bpc size ≤ l'.length := by
  unfold clusterCount
  revert h
  unfold allocateSpace
  generalize size / bpc + (if size % bpc > 0 then 1 else 0) = count
  split
  · intro h; cases h
  · dsimp only
    split
    · intro h; cases h
    · intro h; cases h
    · rename_i clusters hwr
      split
      · rename_i hc
        intro h
        simp only [Option.some.injEq] at h
        subst h
        omega
      · split
        · split
          · intro h; cases h
          · rename_i hlen
            intro h
            simp only [Option.some.injEq] at h
            subst h
            rw [List.length_append]
            omega
        · split
          · intro h; cases h
          · intro h
            simp only [Option.some.injEq] at h
            subst h
            omega

/-- a new chain (`previous = 0`) has exactly the clusters asked for -/
theorem alloc_new_len {k : Kind} {max bpc lim fuel : Nat} {m : CMap} {size : Nat} {l' : List Nat}
    (h : (allocateSpace k max bpc (firstFit lim) fuel m size 0).res = some l') :
    l'.length = clusterCount bpc size := by
  have hge := alloc_res_len h
  unfold clusterCount at hge ⊢
  revert h
  unfold allocateSpace
  generalize size / bpc + (if size % bpc > 0 then 1 else 0) = count at hge ⊢
  simp only [Nat.not_lt_zero, if_false, ge_iff_le, Nat.reduceLeDiff, List.length_nil, Nat.sub_zero,
    List.nil_append]
  split
  · rename_i hc
    intro h
    simp only [Option.some.injEq] at h
    subst h
    simpa using hc.symm
  · split
    · split
      · intro h; cases h
      · intro h
        simp only [Option.some.injEq] at h
        subst h
        have hle := (firstFit_spec lim).len_le m count
        omega
    · split
      · intro h; cases h
      · intro h
        simp only [Option.some.injEq] at h
        subst h
        simp only [List.length_nil] at *
        omega

/-- after `writeDirectoryEntries` the directory fits its storage -/
theorem writeDir_fit {g : TGeom} {fuel : Nat} {m : CMap} {d : Dev} {chain : List Nat} {base : Nat}
    {ks : List TNode} {img : Bytes} {w : WD} (hb : 0 < g.f.io.bpc)
    (hw : writeDir g fuel m d chain base ks img = .ok w) :
    LevelFit g base w.chain ks ∧ (w.chain = [] ↔ chain = []) := by
  cases chain with
  | nil =>
    simp only [writeDir] at hw
    split at hw
    · rename_i hle
      simp only [Except.ok.injEq] at hw
      subst hw
      exact ⟨⟨fun _ => hle, fun hh => absurd rfl hh⟩, Iff.rfl⟩
    · cases hw
  | cons c cs =>
    simp only [writeDir] at hw
    split at hw
    · cases hw
    · rename_i hn0
      split at hw
      · rename_i heq
        simp only [Except.ok.injEq] at hw
        subst hw
        exact ⟨⟨fun hh => (by cases hh), fun _ => heq.symm⟩, by simp⟩
      · split at hw
        · cases hw
        · rename_i l' hres
          simp only [Except.ok.injEq] at hw
          subst hw
          unfold falloc at hres
          have hlen := alloc_res_len hres
          rw [show clusterCount g.f.io.bpc (dirNeed g base ks * g.f.io.bpc) = dirNeed g base ks from
            cnt_mul _ _ hb] at hlen
          have htl : (l'.take (dirNeed g base ks)).length = dirNeed g base ks := by
            rw [List.length_take]; omega
          have hne : l'.take (dirNeed g base ks) ≠ [] := by
            intro e; rw [e] at htl; simp at htl; omega
          exact ⟨⟨fun hh => absurd hh hne, fun _ => htl⟩, by simp [hne]⟩

/-! ### every call inside one directory -/

def FitOk (g : TGeom) (f : Nat → DirSt → DirSt × TRes) : Prop :=
  ∀ (base : Nat) (s : DirSt), LevelFit g base s.chain s.kids → kidsFit g s.kids →
    LevelFit g base (f base s).1.chain (f base s).1.kids ∧ kidsFit g (f base s).1.kids ∧
    ((f base s).1.chain = [] ↔ s.chain = [])

section fit
variable {eqn : Spec.Name → Spec.Name → Bool} {g : TGeom} {fuel : Nat}

theorem new_dir_fit (hb64 : 64 ≤ g.f.io.bpc) {m : CMap} {l : List Nat} (n : Spec.Name)
    (hres : (falloc g.f fuel m 1 0).res = some l) : (TNode.dir n l []).Fit g := by
  unfold falloc at hres
  have hlen := alloc_new_len hres
  have hb : 0 < g.f.io.bpc := by omega
  rw [clusterCount_one hb] at hlen
  rw [fit_dir]
  have hne : l ≠ [] := by intro e; rw [e] at hlen; cases hlen
  refine ⟨hne, ⟨fun hh => absurd hh hne, fun _ => ?_⟩, by rw [kidsFit]; trivial⟩
  rw [hlen]
  unfold dirNeed dirSlots clusterCount
  simp only [List.map_nil, List.sum_nil, Nat.add_zero]
  have h1 : 64 / g.f.io.bpc + (if 64 % g.f.io.bpc > 0 then 1 else 0) = 1 := by
    by_cases he : g.f.io.bpc = 64
    · rw [he]; decide
    · have hlt : 64 < g.f.io.bpc := by omega
      rw [Nat.div_eq_of_lt hlt, Nat.mod_eq_of_lt hlt]; simp
  exact h1.symm

/-- the leaves of the case analysis of one call: the state is returned as it was, or the parent
    directory has been rewritten (`writeDir … = .ok w`) around the new list of children -/
macro "fit_leaf" hb:ident hb64:ident hfit:ident hkids:ident : tactic =>
  `(tactic| first
    | exact ⟨$hfit, $hkids, Iff.rfl⟩
    | exact ⟨(writeDir_fit $hb (by assumption)).1, kidsFit_append $hkids (new_dir_fit $hb64 _ (by assumption)),
        (writeDir_fit $hb (by assumption)).2⟩
    | exact ⟨(writeDir_fit $hb (by assumption)).1, kidsFit_append $hkids (fit_file _ _ _ _),
        (writeDir_fit $hb (by assumption)).2⟩
    | exact ⟨(writeDir_fit $hb (by assumption)).1, kidsFit_kset $hkids (fit_file _ _ _ _),
        (writeDir_fit $hb (by assumption)).2⟩
    | exact ⟨(writeDir_fit $hb (by assumption)).1, kidsFit_kerase $hkids, (writeDir_fit $hb (by assumption)).2⟩
    | exact ⟨(writeDir_fit $hb (by assumption)).1, kidsFit_krename $hkids, (writeDir_fit $hb (by assumption)).2⟩
    | exact ⟨(writeDir_fit $hb (by assumption)).1, kidsFit_krename (kidsFit_kerase $hkids),
        (writeDir_fit $hb (by assumption)).2⟩)

theorem dstep_fit (hb64 : 64 ≤ g.f.io.bpc) (op : TOp) : FitOk g (dstep eqn g fuel op) := by
  have hb : 0 < g.f.io.bpc := by omega
  intro base s hfit hkids
  cases op with
  | mkdir d n img img2 =>
    simp only [dstep]
    generalize hr : dMkdir eqn g fuel n img img2 base s = r
    unfold dMkdir at hr
    dsimp only at hr
    (repeat' split at hr) <;> subst hr <;> fit_leaf hb hb64 hfit hkids
  | create d n img =>
    simp only [dstep]
    generalize hr : dCreate eqn g fuel n img base s = r
    unfold dCreate at hr
    dsimp only at hr
    (repeat' split at hr) <;> subst hr <;> fit_leaf hb hb64 hfit hkids
  | writeAt d n off data img =>
    simp only [dstep]
    generalize hr : dWrite eqn g fuel n off data img base s = r
    unfold dWrite at hr
    dsimp only at hr
    (repeat' split at hr) <;> subst hr <;> fit_leaf hb hb64 hfit hkids
  | truncate d n img =>
    simp only [dstep]
    generalize hr : dTrunc eqn g fuel n img base s = r
    unfold dTrunc at hr
    dsimp only at hr
    (repeat' split at hr) <;> subst hr <;> fit_leaf hb hb64 hfit hkids
  | remove d n img =>
    simp only [dstep]
    generalize hr : dRemove eqn g fuel n img base s = r
    unfold dRemove at hr
    dsimp only at hr
    (repeat' split at hr) <;> subst hr <;> fit_leaf hb hb64 hfit hkids
  | rename d o n img =>
    simp only [dstep]
    generalize hr : dRename eqn g fuel o n img base s = r
    unfold dRename at hr
    dsimp only at hr
    (repeat' split at hr) <;> subst hr <;> fit_leaf hb hb64 hfit hkids

theorem dirSlots_mid (g : TGeom) (base : Nat) (pre post : List TNode) (t x : TNode) (h : x.name = t.name) :
    dirSlots g base (pre ++ x :: post) = dirSlots g base (pre ++ t :: post) := by
  unfold dirSlots
  simp only [List.map_append, List.map_cons, h]

/-- the path walk: induction over the path -/
theorem atDirT_fit (he : EqnOk eqn) {f : Nat → DirSt → DirSt × TRes} (hf : FitOk g f) (path : List Spec.Name) :
    ∀ (base : Nat) (s : DirSt), kidsWF eqn g s.kids → LevelFit g base s.chain s.kids → kidsFit g s.kids →
      LevelFit g base (atDirT eqn f path base s).1.chain (atDirT eqn f path base s).1.kids ∧
      kidsFit g (atDirT eqn f path base s).1.kids ∧
      ((atDirT eqn f path base s).1.chain = [] ↔ s.chain = []) := by
  induction path with
  | nil =>
    intro base s _ hfit hkids
    simp only [atDirT]
    exact hf base s hfit hkids
  | cons n path ih =>
    intro base s hwf hfit hkids
    simp only [atDirT]
    split
    · rename_i nm c ks hfd
      obtain ⟨pre, post, hsplit, hfn, hpre, hpost⟩ := kfind_split he (kidsWF_pairwise hwf) hfd
      have hall := (kidsFit_iff g s.kids).1 hkids
      have hchild := hall (.dir nm c ks) (by rw [hsplit]; exact List.mem_append_right _ List.mem_cons_self)
      rw [fit_dir] at hchild
      have hwfks : kidsWF eqn g ks := by
        have h1 := hwf
        rw [hsplit] at h1
        have := kidsWF_mid h1
        rwa [wf_dir] at this
      have IH : LevelFit g 2 (atDirT eqn f path 2 ⟨s.m, s.d, c, ks⟩).1.chain (atDirT eqn f path 2 ⟨s.m, s.d, c, ks⟩).1.kids ∧
          kidsFit g (atDirT eqn f path 2 ⟨s.m, s.d, c, ks⟩).1.kids ∧
          ((atDirT eqn f path 2 ⟨s.m, s.d, c, ks⟩).1.chain = [] ↔ c = []) :=
        ih 2 ⟨s.m, s.d, c, ks⟩ hwfks hchild.2.1 hchild.2.2
      generalize atDirT eqn f path 2 ⟨s.m, s.d, c, ks⟩ = r at IH ⊢
      by_cases hok : r.2 = .ok
      · simp only [hok, if_true]
        have hx : (TNode.dir nm r.1.chain r.1.kids).Fit g := by
          rw [fit_dir]
          exact ⟨fun e => hchild.1 (IH.2.2.1 e), IH.1, IH.2.1⟩
        rw [hsplit, kset_split _ hfn hpre hpost]
        refine ⟨?_, ?_, trivial⟩
        · have hd := dirSlots_mid g base pre post (.dir nm c ks) (.dir nm r.1.chain r.1.kids) rfl
          rw [hsplit] at hfit
          unfold LevelFit dirNeed at hfit ⊢
          rw [hd]
          exact hfit
        · rw [kidsFit_iff]
          intro u hu
          rcases List.mem_append.1 hu with hu | hu
          · exact hall u (by rw [hsplit]; exact List.mem_append_left _ hu)
          · rcases List.mem_cons.1 hu with rfl | hu
            · exact hx
            · exact hall u (by rw [hsplit]; exact List.mem_append_right _ (List.mem_cons_of_mem _ hu))
      · simp only [hok, if_false]
        exact ⟨hfit, hkids, trivial⟩
    · exact ⟨hfit, hkids, Iff.rfl⟩
    · exact ⟨hfit, hkids, Iff.rfl⟩

end fit

/-! ### one call on the volume, and histories -/

section fitmain
variable {eqn : Spec.Name → Spec.Name → Bool} {g : TGeom} {fuel : Nat}

/-- every call, accepted or refused, leaves every directory with exactly the clusters its
    entries need (the fixed root: with a slot for every entry) -/
theorem tstep_fit (he : EqnOk eqn) (hb64 : 64 ≤ g.f.io.bpc) (s : DirSt) (op : TOp)
    (h : TInv eqn g s) (hfit : TFit g s) : TFit g (tstep eqn g fuel s op).1 := by
  have := atDirT_fit he (dstep_fit (eqn := eqn) (fuel := fuel) hb64 op) op.dir g.rootBase s h.wf hfit.root hfit.kids
  exact ⟨this.1, this.2.1⟩

theorem trun_fit (he : EqnOk eqn) (hg : TGeomOk g) (hfuel : g.f.lim - 2 ≤ fuel) (hb64 : 64 ≤ g.f.io.bpc)
    (ops : List TOp) (s : DirSt) (h : TInv eqn g s) (hfit : TFit g s) :
    TFit g (trun eqn g fuel s ops) := by
  induction ops generalizing s with
  | nil => exact hfit
  | cons op rest ih =>
    simp only [trun, List.foldl_cons]
    exact ih _ (tstep_inv he hg hfuel s op h) (tstep_fit he hb64 s op h hfit)

end fitmain

/-! ### a directory that fits is rewritten in place: the roll-back branches of Write are dead -/

/-- rewriting a directory that fits its storage with a child list of the same slot count touches
    neither the table nor the chain and cannot fail -/
theorem writeDir_same {g : TGeom} {fuel : Nat} {m : CMap} {d : Dev} {chain : List Nat} {base : Nat}
    {ks ks' : List TNode} {img : Bytes} (hfit : LevelFit g base chain ks)
    (hs : dirSlots g base ks' = dirSlots g base ks) :
    ∃ d', writeDir g fuel m d chain base ks' img = .ok ⟨m, d', chain⟩ := by
  cases chain with
  | nil =>
    simp only [writeDir]
    rw [if_pos (by rw [hs]; exact hfit.1 rfl)]
    exact ⟨_, rfl⟩
  | cons c cs =>
    have hn : dirNeed g base ks' = (c :: cs).length := by
      have := hfit.2 (by simp)
      unfold dirNeed at this ⊢
      rw [hs]; exact this.symm
    simp only [writeDir]
    rw [if_neg (by rw [hn]; simp), if_pos hn]
    exact ⟨_, rfl⟩

section recorded
variable {eqn : Spec.Name → Spec.Name → Bool} {g : TGeom} {fuel : Nat}

theorem dirSlots_kset_same (he : EqnOk eqn) {ks : List TNode} {n : Spec.Name} {t x : TNode} (base : Nat)
    (hd : ks.Pairwise fun a b => eqn a.name b.name = false) (hf : kfind eqn ks n = some t)
    (hx : x.name = t.name) : dirSlots g base (kset eqn ks n x) = dirSlots g base ks := by
  obtain ⟨pre, post, hsplit, hfn, hpre, hpost⟩ := kfind_split he hd hf
  rw [hsplit, kset_split _ hfn hpre hpost]
  exact dirSlots_mid g base pre post t x hx

/-- **a Write that got its clusters is always recorded**: in a directory that fits its storage,
    once `allocateSpace` has handed out the clusters and the data has been written, the rewrite of
    the parent directory (same entries, new size) cannot fail — the model's roll-back of that
    case, which the code does not have, is never taken -/
theorem dWrite_recorded (he : EqnOk eqn) {base : Nat} {s : DirSt} {n fn : Spec.Name} {fc : List Nat}
    {size off : Nat} {data img : Bytes} {l' : List Nat} {ws : List Wr}
    (hwf : kidsWF eqn g s.kids) (hfit : LevelFit g base s.chain s.kids)
    (hf : kfind eqn s.kids n = some (.file fn fc size)) (hd : data.length ≠ 0)
    (hres : (falloc g.f fuel s.m (Nat.max size (off + data.length)) (fc.headD 0)).res = some l')
    (hws : writeH true g.f.io l' size off data = some ws) :
    (dWrite eqn g fuel n off data img base s).2 = .ok := by
  obtain ⟨d', hw⟩ := writeDir_same (fuel := fuel)
    (m := (falloc g.f fuel s.m (Nat.max size (off + data.length)) (fc.headD 0)).m)
    (d := applyWrs s.d ws) (img := img) hfit
    (dirSlots_kset_same (g := g) (x := .file fn l' (Nat.max size (off + data.length))) he base
      (kidsWF_pairwise hwf) hf rfl)
  unfold dWrite
  simp only [hf, hd, if_false, hres, hws, hw]

/-- the same for a truncating open: the rewrite of the parent directory cannot fail -/
theorem dTrunc_rewrite_ok (he : EqnOk eqn) {base : Nat} {s : DirSt} {n fn : Spec.Name} {fc : List Nat}
    {size : Nat} {img : Bytes}
    (hwf : kidsWF eqn g s.kids) (hfit : LevelFit g base s.chain s.kids)
    (hf : kfind eqn s.kids n = some (.file fn fc size)) :
    ∃ d', writeDir g fuel s.m s.d s.chain base (kset eqn s.kids n (.file fn (fc.take 1) 0)) img
      = .ok ⟨s.m, d', s.chain⟩ :=
  writeDir_same hfit (dirSlots_kset_same (g := g) (x := .file fn (fc.take 1) 0) he base
    (kidsWF_pairwise hwf) hf rfl)

end recorded

/-! ### non-vacuity: a volume whose directory "B" (two clusters) holds the file "A" -/

/-- 64-byte clusters, two slots per name: "." + ".." + one entry fill exactly two clusters -/
def exTGeom2 : TGeom := ⟨⟨.f12, 10, 10, ⟨0, 256, 64⟩⟩, fun _ => 2, 8, 1, 0⟩

theorem exTGeom2_ok : TGeomOk exTGeom2 := ⟨by decide, ex_limOk, by decide, by decide⟩

def exTree2 : DirSt := ⟨exTable, fun _ => 0, [], [.dir [66] [3, 4] [.file [65] [2] 3]]⟩

theorem exTree2_inv : TInv exEqn exTGeom2 exTree2 where
  table := by
    have : chainOwner exTree2.chain ++ kidsOwners exTree2.kids = [[3, 4], [2]] := by
      simp [exTree2, chainOwner, kidsOwners_cons, kidsOwners_nil, owners_file, owners_dir]
    rw [this]
    exact ex_inv'
  wf := by
    simp only [exTree2, kidsWF_cons, wf_dir, wf_file, kidsWF_nil, List.not_mem_nil, false_imp_iff,
      implies_true, and_true]
    decide

theorem exTree2_fit : TFit exTGeom2 exTree2 where
  root := ⟨fun _ => by decide, fun h => absurd rfl h⟩
  kids := by
    simp only [exTree2, kidsFit, TNode.Fit, and_true]
    exact ⟨by decide, ⟨fun h => (by cases h), fun _ => (by decide)⟩⟩

example (ops : List TOp) : TFit exTGeom2 (trun exEqn exTGeom2 8 exTree2 ops) :=
  trun_fit exEqn_ok exTGeom2_ok (by decide) (by decide) ops exTree2 exTree2_inv exTree2_fit

/-- a second file in "B" (it gets cluster 5) needs a third directory cluster: the chain grows to 3 → 4 → 6 … -/
example : (tstep exEqn exTGeom2 8 exTree2 (.create [[66]] [67] [])).1.kids.map TNode.chain = [[3, 4, 6]] := by
  decide
/-- … and removing "A" shrinks it to one cluster -/
example : (tstep exEqn exTGeom2 8 exTree2 (.remove [[66]] [65] [])).1.kids.map TNode.chain = [[3]] := by
  decide

end Diskfs.Fat
