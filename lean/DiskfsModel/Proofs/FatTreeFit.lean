/-
  Layer E for a tree of directories, third part: every directory fits its storage (`TFit`).
    alloc_res_len    what `allocateSpace` returns has at least the clusters asked for (no invariant needed)
    writeDir_fit     after `writeDirectoryEntries` the directory has exactly the clusters its entries need
    dstep_fit        every call inside one directory keeps `LevelFit` / `kidsFit`
    atDirT_fit       … at any depth (induction over the path)
    tstep_fit / trun_fit
  This is the clause a directory cut short of its entries would violate (finding
  fat-rename-enospc-truncates-dir, fixed by 5b30bf0: the parent was cut to one cluster first).
  Core Lean only.
-/
import DiskfsModel.Proofs.FatTreeStep
namespace Diskfs.Fat

/-! ### `kidsFit` as a statement about every child -/

theorem kidsFit_iff (g : TGeom) (ks : List TNode) : kidsFit g ks ↔ ∀ t ∈ ks, t.Fit g := by
  induction ks with
  | nil => rw [kidsFit]; simp
  | cons t ks ih =>
    rw [kidsFit, ih]
    constructor
    · rintro ⟨h1, h2⟩ u hu
      rcases List.mem_cons.1 hu with rfl | hu
      · exact h1
      · exact h2 u hu
    · intro h
      exact ⟨h t List.mem_cons_self, fun u hu => h u (List.mem_cons_of_mem _ hu)⟩

theorem fit_file (g : TGeom) (n : Spec.Name) (c : List Nat) (sz : Nat) : (TNode.file n c sz).Fit g := by
  rw [TNode.Fit]; trivial

theorem fit_dir (g : TGeom) (n : Spec.Name) (c : List Nat) (ks : List TNode) :
    (TNode.dir n c ks).Fit g ↔ c ≠ [] ∧ LevelFit g 2 c ks ∧ kidsFit g ks := by rw [TNode.Fit]

theorem fit_rename (g : TGeom) (t : TNode) (n : Spec.Name) : (t.rename n).Fit g ↔ t.Fit g := by
  cases t <;> simp [TNode.rename, TNode.Fit]

theorem kidsFit_append {g : TGeom} {ks : List TNode} {x : TNode} (h : kidsFit g ks) (hx : x.Fit g) :
    kidsFit g (ks ++ [x]) := by
  rw [kidsFit_iff] at h ⊢
  intro t ht
  rcases List.mem_append.1 ht with ht | ht
  · exact h t ht
  · rw [List.mem_singleton] at ht; subst ht; exact hx

theorem kidsFit_kset {eqn} {g : TGeom} {ks : List TNode} {n : Spec.Name} {x : TNode}
    (h : kidsFit g ks) (hx : x.Fit g) : kidsFit g (kset eqn ks n x) := by
  rw [kidsFit_iff] at h ⊢
  intro t ht
  unfold kset at ht
  obtain ⟨u, hu, rfl⟩ := List.mem_map.1 ht
  split
  · exact hx
  · exact h u hu

theorem kidsFit_kerase {eqn} {g : TGeom} {ks : List TNode} {n : Spec.Name} (h : kidsFit g ks) :
    kidsFit g (kerase eqn ks n) := by
  rw [kidsFit_iff] at h ⊢
  intro t ht
  exact h t (List.mem_filter.1 ht).1

theorem kidsFit_krename {eqn} {g : TGeom} {ks : List TNode} {o n : Spec.Name} (h : kidsFit g ks) :
    kidsFit g (krename eqn ks o n) := by
  rw [kidsFit_iff] at h ⊢
  intro t ht
  unfold krename at ht
  obtain ⟨u, hu, rfl⟩ := List.mem_map.1 ht
  split
  · rw [fit_rename]; exact h u hu
  · exact h u hu

/-! ### what `allocateSpace` returns is long enough -/

theorem alloc_res_len {k : Kind} {max bpc lim fuel : Nat} {m : CMap} {size prev : Nat} {l' : List Nat}
    (h : (allocateSpace k max bpc (firstFit lim) fuel m size prev).res = some l') :
    clusterCount bpc size ≤ l'.length ∧ (prev = 0 → l'.length = clusterCount bpc size) := by
  unfold clusterCount
  revert h
  unfold allocateSpace
  generalize size / bpc + (if size % bpc > 0 then 1 else 0) = count
  split
  · intro h; cases h
  · dsimp only
    split
    · intro h; cases h
    · intro h; cases h
    · rename_i clusters hwr
      split
      · rename_i hc
        intro h
        simp only [Option.some.injEq] at h
        subst h
        exact ⟨by omega, fun _ => hc.symm⟩
      · split
        · rename_i hne hgt
          split
          · intro h; cases h
          · rename_i hlen
            intro h
            simp only [Option.some.injEq] at h
            subst h
            have hle := (firstFit_spec lim).len_le m (count - clusters.length)
            rw [List.length_append]
            refine ⟨by omega, fun hp => ?_⟩
            have hcl : clusters = [] := by
              rw [hp] at hwr
              simp only [ge_iff_le, Nat.not_succ_le_zero, if_false] at hwr
              cases hwr; rfl
            rw [hcl] at hle ⊢
            simp only [List.length_nil] at hle ⊢
            omega
        · rename_i hne hngt
          split
          · intro h; cases h
          · intro h
            simp only [Option.some.injEq] at h
            subst h
            refine ⟨by omega, fun hp => ?_⟩
            have hcl : clusters = [] := by
              rw [hp] at hwr
              simp only [ge_iff_le, Nat.not_succ_le_zero, if_false] at hwr
              cases hwr; rfl
            rw [hcl] at hne hngt
            simp only [List.length_nil] at hne hngt
            omega

/-- after `writeDirectoryEntries` the directory fits its storage -/
theorem writeDir_fit {g : TGeom} {fuel : Nat} {m : CMap} {d : Dev} {chain : List Nat} {base : Nat}
    {ks : List TNode} {img : Bytes} {w : WD} (hb : 0 < g.f.io.bpc)
    (hw : writeDir g fuel m d chain base ks img = .ok w) :
    LevelFit g base w.chain ks ∧ (w.chain = [] ↔ chain = []) := by
  cases chain with
  | nil =>
    simp only [writeDir] at hw
    split at hw
    · rename_i hle
      simp only [Except.ok.injEq] at hw
      subst hw
      exact ⟨⟨fun _ => hle, fun hh => absurd rfl hh⟩, Iff.rfl⟩
    · cases hw
  | cons c cs =>
    simp only [writeDir] at hw
    split at hw
    · cases hw
    · rename_i hn0
      split at hw
      · rename_i heq
        simp only [Except.ok.injEq] at hw
        subst hw
        exact ⟨⟨fun hh => by cases hh, fun _ => heq.symm⟩, by simp⟩
      · split at hw
        · cases hw
        · rename_i l' hres
          simp only [Except.ok.injEq] at hw
          subst hw
          unfold falloc at hres
          have hlen := (alloc_res_len hres).1
          rw [show clusterCount g.f.io.bpc (dirNeed g base ks * g.f.io.bpc) = dirNeed g base ks from
            cnt_mul _ _ hb] at hlen
          have htl : (l'.take (dirNeed g base ks)).length = dirNeed g base ks := by
            rw [List.length_take]; omega
          have hne : l'.take (dirNeed g base ks) ≠ [] := by
            intro e; rw [e] at htl; simp at htl; omega
          exact ⟨⟨fun hh => absurd hh hne, fun _ => htl⟩, by simp [hne]⟩

/-! ### every call inside one directory -/

def FitOk (g : TGeom) (f : Nat → DirSt → DirSt × TRes) : Prop :=
  ∀ (base : Nat) (s : DirSt), LevelFit g base s.chain s.kids → kidsFit g s.kids →
    LevelFit g base (f base s).1.chain (f base s).1.kids ∧ kidsFit g (f base s).1.kids

section fit
variable {eqn : Spec.Name → Spec.Name → Bool} {g : TGeom} {fuel : Nat}

theorem new_dir_fit (hb64 : 64 ≤ g.f.io.bpc) {m : CMap} {l : List Nat} (n : Spec.Name)
    (hres : (falloc g.f fuel m 1 0).res = some l) : (TNode.dir n l []).Fit g := by
  unfold falloc at hres
  have hlen := (alloc_res_len hres).2 rfl
  have hb : 0 < g.f.io.bpc := by omega
  rw [clusterCount_one hb] at hlen
  rw [fit_dir]
  have hne : l ≠ [] := by intro e; rw [e] at hlen; cases hlen
  refine ⟨hne, ⟨fun hh => absurd hh hne, fun _ => ?_⟩, by rw [kidsFit]; trivial⟩
  rw [hlen]
  unfold dirNeed dirSlots clusterCount
  simp only [List.map_nil, List.sum_nil, Nat.add_zero]
  have h1 : 64 / g.f.io.bpc + (if 64 % g.f.io.bpc > 0 then 1 else 0) = 1 := by
    by_cases he : g.f.io.bpc = 64
    · rw [he]
    · have hlt : 64 < g.f.io.bpc := by omega
      rw [Nat.div_eq_of_lt hlt, Nat.mod_eq_of_lt hlt]; simp
  exact h1.symm

theorem dstep_fit (hb64 : 64 ≤ g.f.io.bpc) (op : TOp) : FitOk g (dstep eqn g fuel op) := by
  have hb : 0 < g.f.io.bpc := by omega
  intro base s hfit hkids
  cases op with
  | mkdir d n img img2 =>
    simp only [dstep]
    unfold dMkdir
    split
    · exact ⟨hfit, hkids⟩
    · exact ⟨hfit, hkids⟩
    · split
      · exact ⟨hfit, hkids⟩
      · rename_i l hres
        split
        · exact ⟨hfit, hkids⟩
        · rename_i w hw
          exact ⟨(writeDir_fit hb hw).1, kidsFit_append hkids (new_dir_fit hb64 n hres)⟩
  | create d n img =>
    simp only [dstep]
    unfold dCreate
    split
    · exact ⟨hfit, hkids⟩
    · split
      · exact ⟨hfit, hkids⟩
      · split
        · exact ⟨hfit, hkids⟩
        · rename_i w hw
          exact ⟨(writeDir_fit hb hw).1, kidsFit_append hkids (fit_file _ _ _ _)⟩
  | writeAt d n off data img =>
    simp only [dstep]
    unfold dWrite
    split
    · exact ⟨hfit, hkids⟩
    · exact ⟨hfit, hkids⟩
    · split
      · exact ⟨hfit, hkids⟩
      · split
        · exact ⟨hfit, hkids⟩
        · split
          · exact ⟨hfit, hkids⟩
          · split
            · exact ⟨hfit, hkids⟩
            · rename_i w hw
              exact ⟨(writeDir_fit hb hw).1, kidsFit_kset hkids (fit_file _ _ _ _)⟩
  | truncate d n img =>
    simp only [dstep]
    unfold dTrunc
    split
    · exact ⟨hfit, hkids⟩
    · exact ⟨hfit, hkids⟩
    · split
      · exact ⟨hfit, hkids⟩
      · split
        · exact ⟨hfit, hkids⟩
        · rename_i w hw
          split
          · exact ⟨hfit, hkids⟩
          · exact ⟨(writeDir_fit hb hw).1, kidsFit_kset hkids (fit_file _ _ _ _)⟩
  | remove d n img =>
    simp only [dstep]
    unfold dRemove
    split
    · exact ⟨hfit, hkids⟩
    · exact ⟨hfit, hkids⟩
    · split
      · exact ⟨hfit, hkids⟩
      · rename_i w hw
        dsimp only
        split
        · exact ⟨(writeDir_fit hb hw).1, kidsFit_kerase hkids⟩
        · exact ⟨hfit, hkids⟩
  | rename d o n img =>
    simp only [dstep]
    unfold dRename
    split
    · exact ⟨hfit, hkids⟩
    · split
      · exact ⟨hfit, hkids⟩
      · split
        · exact ⟨hfit, hkids⟩
        · split
          · exact ⟨hfit, hkids⟩
          · rename_i w hw
            exact ⟨(writeDir_fit hb hw).1, kidsFit_krename hkids⟩
        · split
          · exact ⟨hfit, hkids⟩
          · rename_i w hw
            dsimp only
            split
            · exact ⟨(writeDir_fit hb hw).1, kidsFit_krename (kidsFit_kerase hkids)⟩
            · exact ⟨hfit, hkids⟩

theorem dirSlots_mid (g : TGeom) (base : Nat) (pre post : List TNode) (t x : TNode) (h : x.name = t.name) :
    dirSlots g base (pre ++ x :: post) = dirSlots g base (pre ++ t :: post) := by
  unfold dirSlots
  simp only [List.map_append, List.map_cons, h]

/-- the path walk: induction over the path -/
theorem atDirT_fit (he : EqnOk eqn) {f : Nat → DirSt → DirSt × TRes} (hf : FitOk g f) (path : List Spec.Name) :
    ∀ (base : Nat) (s : DirSt), kidsWF eqn g s.kids → LevelFit g base s.chain s.kids → kidsFit g s.kids →
      LevelFit g base (atDirT eqn f path base s).1.chain (atDirT eqn f path base s).1.kids ∧
      kidsFit g (atDirT eqn f path base s).1.kids := by
  induction path with
  | nil =>
    intro base s _ hfit hkids
    simp only [atDirT]
    exact hf base s hfit hkids
  | cons n path ih =>
    intro base s hwf hfit hkids
    simp only [atDirT]
    split
    · rename_i nm c ks hfd
      obtain ⟨pre, post, hsplit, hfn, hpre, hpost⟩ := kfind_split he (kidsWF_pairwise hwf) hfd
      have hall := (kidsFit_iff g s.kids).1 hkids
      have hchild := hall (.dir nm c ks) (by rw [hsplit]; exact List.mem_append_right _ List.mem_cons_self)
      rw [fit_dir] at hchild
      have hwfks : kidsWF eqn g ks := by
        have h1 := hwf
        rw [hsplit] at h1
        have := kidsWF_mid h1
        rwa [wf_dir] at this
      have IH := ih 2 ⟨s.m, s.d, c, ks⟩ hwfks hchild.2.1 hchild.2.2
      generalize atDirT eqn f path 2 ⟨s.m, s.d, c, ks⟩ = r at IH ⊢
      by_cases hok : r.2 = .ok
      · simp only [hok, if_true]
        have hx : (TNode.dir nm r.1.chain r.1.kids).Fit g := by
          rw [fit_dir]
          refine ⟨?_, IH.1, IH.2⟩
          intro e
          -- a chained directory stays chained: its new chain has the clusters it needs or is the old one
          have := IH.1.1 e
          sorry
        sorry
      · simp only [hok, if_false]
        exact ⟨hfit, hkids⟩
    · exact ⟨hfit, hkids⟩
    · exact ⟨hfit, hkids⟩

end fit
end Diskfs.Fat
