/-
  Helper lemmas for C10: segments laid end to end, the byte oracle vs. the content,
  and the loop invariants of the four `Read` mirrors.
-/
import DiskfsModel.Model.ReadSeek
namespace Diskfs.ReadSeek
open Diskfs.Spec

/-! ### segments -/

theorem readAt_add (d : Dev) (off a b : Nat) :
    readAt d off (a + b) = readAt d off a ++ readAt d (off + a) b := by
  simp [readAt, List.range_add, Nat.add_assoc]

@[simp] theorem readAt_zero (d : Dev) (off : Nat) : readAt d off 0 = [] := by
  simp [readAt]

theorem segsLen_append (a b : List Seg) : segsLen (a ++ b) = segsLen a + segsLen b := by
  induction a with
  | nil => simp [segsLen]
  | cons s ss ih => simp [segsLen, ih, Nat.add_assoc]

theorem segsData_append (store : Dev) (a b : List Seg) :
    segsData store (a ++ b) = segsData store a ++ segsData store b := by
  induction a with
  | nil => simp [segsData]
  | cons s ss ih => simp [segsData, ih]

/-- segments laid end to end from `o`; empty segments may point anywhere (a zero-length `ReadAt`) -/
def Consec : Nat → List Seg → Prop
  | _, [] => True
  | o, s :: ss => (s.len = 0 ∨ s.off = o) ∧ Consec (o + s.len) ss

theorem Consec_snoc (o : Nat) (segs : List Seg) (s : Seg) (h : Consec o segs)
    (hs : s.len = 0 ∨ s.off = o + segsLen segs) : Consec o (segs ++ [s]) := by
  induction segs generalizing o with
  | nil => simpa [Consec, segsLen] using hs
  | cons t ts ih =>
    simp only [Consec, List.cons_append] at h ⊢
    refine ⟨h.1, ih (o + t.len) h.2 ?_⟩
    simpa [segsLen, Nat.add_assoc] using hs

theorem Consec_data (store : Dev) (o : Nat) (segs : List Seg) (h : Consec o segs) :
    segsData store segs = readAt store o (segsLen segs) := by
  induction segs generalizing o with
  | nil => simp [segsData, segsLen]
  | cons s ss ih =>
    simp only [Consec] at h
    simp only [segsData, segsLen, readAt_add, ih (o + s.len) h.2]
    rcases h.1 with h0 | h1
    · simp [h0]
    · rw [h1]

/-! ### byte oracle vs. content -/

/-- the file-relative byte oracle shows the content (and anything at all past its end) -/
def Agrees (store : Dev) (content : Bytes) : Prop :=
  ∀ i (h : i < content.length), store i = content[i]

theorem readAt_agrees (store : Dev) (content : Bytes) (h : Agrees store content) (off k : Nat)
    (hk : k = 0 ∨ off + k ≤ content.length) : readAt store off k = (content.drop off).take k := by
  rcases hk with rfl | hk
  · simp
  apply List.ext_getElem
  · simp; omega
  · intro i h1 h2
    simp at h1
    simp only [readAt, List.getElem_map, List.getElem_range, List.getElem_take, List.getElem_drop]
    exact h (off + i) (by omega)

theorem take_min_length {α} (l : List α) (n : Nat) : l.take n = l.take (min n l.length) := by
  by_cases h : n ≤ l.length
  · rw [Nat.min_eq_left h]
  · have h' : l.length ≤ n := by omega
    rw [Nat.min_eq_right h', List.take_of_length_le h', List.take_of_length_le (Nat.le_refl _)]

/-- what every repaired `Read` mirror is shown to return: `k = min n (size - off)` bytes laid end
    to end from the cursor, EOF flagged exactly when the end is reached with them, cursor advanced by `k` -/
def ReadGood (size off n : Nat) (r : RRes × Nat) : Prop :=
  ∃ segs, r = (.ok segs (decide (size ≤ off + min n (size - off))), off + min n (size - off)) ∧
    Consec off segs ∧ segsLen segs = min n (size - off)

/-- `ReadGood` is enough for the specification -/
theorem ReadGood_spec (store : Dev) (content : Bytes) (hag : Agrees store content)
    (size off n : Nat) (hsz : content.length = size) (segs : List Seg) (eof : Bool) (off' : Nat)
    (h : ReadGood size off n (.ok segs eof, off')) :
    ReadOK content off n (segsData store segs) eof ∧ off' = off + (segsData store segs).length := by
  obtain ⟨segs', heq, hc, hl⟩ := h
  simp only [Prod.mk.injEq, RRes.ok.injEq] at heq
  obtain ⟨⟨rfl, rfl⟩, rfl⟩ := heq
  have hdata : segsData store segs = (content.drop off).take n := by
    rw [Consec_data store off segs hc, hl, take_min_length (content.drop off) n]
    rw [readAt_agrees store content hag off _ (by omega)]
    simp [hsz]
  have hlen : (segsData store segs).length = min n (size - off) := by
    rw [Consec_data store off segs hc, hl]; simp
  refine ⟨⟨hdata, ?_, ?_⟩, by rw [hlen]⟩
  · intro he; rw [hlen, hsz]; simpa using he
  · intro _ hle; simp; omega

/-! ### FAT -/

theorem fatLoop_spec (bpc maxRead off : Nat) (_hb : 0 < bpc) :
    ∀ (fuel i total : Nat) (segs : List Seg),
      total ≤ maxRead → Consec off segs → segsLen segs = total →
      (total = maxRead ∨ (off + total = i * bpc ∧ off + maxRead ≤ (i + fuel) * bpc)) →
      ∃ segs', fatLoop bpc maxRead fuel i total segs = (maxRead, segs') ∧
        Consec off segs' ∧ segsLen segs' = maxRead := by
  intro fuel
  induction fuel with
  | zero =>
    intro i total segs hle hc hl hinv
    have ht : total = maxRead := by
      rcases hinv with h | ⟨h1, h2⟩
      · exact h
      · simp at h2; omega
    exact ⟨segs, by simp [fatLoop, ht], hc, by omega⟩
  | succ fuel ih =>
    intro i total segs hle hc hl hinv
    unfold fatLoop
    by_cases hfull : maxRead ≤ total
    · simp only [hfull, if_true]
      have ht : total = maxRead := by omega
      exact ⟨segs, by rw [ht], hc, by omega⟩
    · simp only [hfull, if_false]
      by_cases hdone : maxRead ≤ total + min bpc (maxRead - total)
      · simp only [hdone, if_true]
        have ht : total + min bpc (maxRead - total) = maxRead := by omega
        refine ⟨_, by rw [ht], ?_, ?_⟩
        · apply Consec_snoc _ _ _ hc
          simp only
          rcases hinv with h | ⟨h1, _⟩
          · left; omega
          · right; omega
        · simp [segsLen_append, segsLen, hl]; omega
      · simp only [hdone, if_false]
        have htr : min bpc (maxRead - total) = bpc := by omega
        rcases hinv with h | ⟨h1, h2⟩
        · omega
        · have hmul : (i + 1) * bpc = i * bpc + bpc := by rw [Nat.add_mul]; simp
          have hmul2 : (i + 1 + fuel) * bpc = (i + (fuel + 1)) * bpc := by
            congr 1; omega
          apply ih (i + 1) (total + min bpc (maxRead - total)) _ (by omega)
          · apply Consec_snoc _ _ _ hc
            right; simp only; omega
          · simp [segsLen_append, segsLen, hl]
          · right; rw [hmul, hmul2]; omega

/-- chain long enough for the size, non-zero cluster size -/
def FatFile.WF (f : FatFile) : Prop := 0 < f.bpc ∧ f.size ≤ f.ncl * f.bpc

theorem fatFinish_good (size off n : Nat) (_hlt : off < size) (segs : List Seg)
    (hc : Consec off segs) (hl : segsLen segs = min n (size - off)) :
    ReadGood size off n (fatFinish size off (min n (size - off)) (min n (size - off)) segs) := by
  unfold fatFinish
  by_cases he : size ≤ off + min n (size - off)
  · simp only [he, if_true]
    exact ⟨segs, by simp [he], hc, hl⟩
  · simp only [he, if_false]
    have h0 : ¬ (min n (size - off) = 0 ∧ 0 < min n (size - off)) := by omega
    simp only [h0, if_false]
    exact ⟨segs, by simp [he], hc, hl⟩

theorem fatRead_good (f : FatFile) (hwf : f.WF) (off n : Nat) :
    ReadGood f.size off n (fatRead Cfg.fixed f off n) := by
  obtain ⟨hb, hcover⟩ := hwf
  unfold fatRead
  by_cases hend : f.size ≤ off
  · simp only [hend, if_true]
    refine ⟨[], ?_, trivial, ?_⟩
    · have : min n (f.size - off) = 0 := by omega
      simp [hend]
    · simp [segsLen]; omega
  · simp only [hend, if_false]
    have hdm := Nat.div_add_mod off f.bpc
    have hml := Nat.mod_lt off hb
    have hidx : off / f.bpc < f.ncl := by
      apply (Nat.div_lt_iff_lt_mul hb).2; omega
    have hnp : ¬ (0 < off ∧ f.ncl ≤ off / f.bpc) := by omega
    simp only [hnp, if_false]
    have hcm : f.bpc * (off / f.bpc) = off / f.bpc * f.bpc := Nat.mul_comm _ _
    have hmul : (off / f.bpc + 1) * f.bpc = off / f.bpc * f.bpc + f.bpc := by rw [Nat.add_mul]; simp
    by_cases hpart : 0 < off ∧ off % f.bpc ≠ 0
    · simp only [hpart, and_self, if_true, Cfg.fixed, ne_eq, not_false_eq_true]
      have hfu : (off / f.bpc + 1 + (f.ncl - (off / f.bpc + 1))) * f.bpc = f.ncl * f.bpc := by
        congr 1; omega
      obtain ⟨segs', he, hc', hl'⟩ := fatLoop_spec f.bpc (min n (f.size - off)) off hb
        (f.ncl - (off / f.bpc + 1)) (off / f.bpc + 1) (min (f.bpc - off % f.bpc) (min n (f.size - off)))
        [⟨off, min (f.bpc - off % f.bpc) (min n (f.size - off))⟩]
        (by omega) (by simp [Consec]) (by simp [segsLen])
        (by
          by_cases hx : min (f.bpc - off % f.bpc) (min n (f.size - off)) = min n (f.size - off)
          · left; exact hx
          · right; rw [hmul, hfu]; omega)
      simp only [he]
      exact fatFinish_good f.size off n (by omega) segs' hc' hl'
    · simp only [hpart, if_false]
      have hal : off = off / f.bpc * f.bpc := by
        by_cases h0 : 0 < off
        · have : off % f.bpc = 0 := by
            by_cases hz : off % f.bpc = 0
            · exact hz
            · exact absurd ⟨h0, hz⟩ hpart
          omega
        · have : off = 0 := by omega
          simp [this]
      have hfu : (off / f.bpc + (f.ncl - off / f.bpc)) * f.bpc = f.ncl * f.bpc := by
        congr 1; omega
      obtain ⟨segs', he, hc', hl'⟩ := fatLoop_spec f.bpc (min n (f.size - off)) off hb
        (f.ncl - off / f.bpc) (off / f.bpc) 0 [] (by omega) (by simp [Consec]) (by simp [segsLen])
        (by right; rw [hfu]; omega)
      simp only [he]
      exact fatFinish_good f.size off n (by omega) segs' hc' hl'

/-! ### iso9660 -/

theorem isoRead_good (size off n : Nat) : ReadGood size off n (isoRead size off n) := by
  unfold isoRead
  by_cases hend : size ≤ off
  · simp only [hend, if_true]
    refine ⟨[], ?_, trivial, ?_⟩
    · have : min n (size - off) = 0 := by omega
      simp [hend]
    · simp [segsLen]; omega
  · simp only [hend, if_false]
    exact ⟨_, rfl, by simp [Consec], by simp [segsLen]⟩

/-! ### ext4 -/

/-- the extent list covers file blocks `s, s+1, …` without holes, in order -/
def Contig : Nat → List Ext → Prop
  | _, [] => True
  | s, e :: es => e.fileBlock = s ∧ 0 < e.count ∧ Contig (s + e.count) es

def Ext4File.WF (f : Ext4File) : Prop :=
  0 < f.bs ∧ Contig 0 f.exts ∧ f.size ≤ blocks f.exts * f.bs

theorem ext4Loop_spec (bs btr off0 : Nat) (hb : 0 < bs) :
    ∀ (es : List Ext) (s off rb : Nat) (segs : List Seg),
      Contig s es → rb ≤ btr → off = off0 + rb → Consec off0 segs → segsLen segs = rb →
      s * bs ≤ off → (rb = 0 ∨ off = s * bs) → off0 + btr ≤ (s + blocks es) * bs →
      ∃ segs', ext4Loop Cfg.fixed bs btr (off0 / bs) es off rb segs = .done (off0 + btr) btr segs' ∧
        Consec off0 segs' ∧ segsLen segs' = btr := by
  intro es
  induction es with
  | nil =>
    intro s off rb segs _ hrb hoff hc hl hlo _ hfit
    simp only [blocks, Nat.add_zero] at hfit
    have : rb = btr := by omega
    subst this
    exact ⟨segs, by simp [ext4Loop, hoff], hc, hl⟩
  | cons e es ih =>
    intro s off rb segs hcontig hrb hoff hc hl hlo hph hfit
    obtain ⟨hfb, hcnt, hrest⟩ := hcontig
    have hmul : (s + e.count) * bs = s * bs + e.count * bs := Nat.add_mul _ _ _
    have hfit' : off0 + btr ≤ (s + e.count + blocks es) * bs := by
      simpa [blocks, Nat.add_assoc] using hfit
    unfold ext4Loop
    simp only [Cfg.fixed, if_true, hfb]
    by_cases hskip : s + e.count ≤ off0 / bs
    · have hsk' : (s + e.count) * bs ≤ off0 := (Nat.le_div_iff_mul_le hb).1 hskip
      simp only [hskip, decide_true, if_true]
      have hrb0 : rb = 0 := by
        rcases hph with h | h
        · exact h
        · have : 0 < e.count * bs := Nat.mul_pos hcnt hb
          omega
      exact ih (s + e.count) off rb segs hrest hrb hoff hc hl (by omega) (Or.inl hrb0) hfit'
    · have hsk' : off0 < (s + e.count) * bs := by
        have := (Nat.le_div_iff_mul_le hb (x := s + e.count) (y := off0))
        by_cases h : (s + e.count) * bs ≤ off0
        · exact absurd (this.2 h) hskip
        · omega
      simp only [hskip, decide_false, if_false, Bool.false_eq_true]
      have h1 : ¬ off < s * bs := by omega
      simp only [h1, if_false]
      have h2 : ¬ e.count * bs < off - s * bs := by
        rcases hph with h | h
        · omega
        · omega
      simp only [h2, if_false]
      by_cases hdone : btr ≤ rb + min (btr - rb) (e.count * bs - (off - s * bs))
      · simp only [hdone, if_true]
        have ht : rb + min (btr - rb) (e.count * bs - (off - s * bs)) = btr := by omega
        have ho : off + min (btr - rb) (e.count * bs - (off - s * bs)) = off0 + btr := by omega
        refine ⟨_, by rw [ht, ho], ?_, ?_⟩
        · apply Consec_snoc _ _ _ hc
          right; simp only; omega
        · simp [segsLen_append, segsLen, hl]; omega
      · simp only [hdone, if_false]
        have htr : min (btr - rb) (e.count * bs - (off - s * bs)) = e.count * bs - (off - s * bs) := by omega
        apply ih (s + e.count) _ _ _ hrest (by omega) (by omega)
        · apply Consec_snoc _ _ _ hc
          right; simp only; omega
        · simp [segsLen_append, segsLen, hl]
        · omega
        · right; omega
        · exact hfit'

theorem ext4Read_good (f : Ext4File) (hwf : f.WF) (off n : Nat) :
    ReadGood f.size off n (ext4Read Cfg.fixed f off n) := by
  obtain ⟨hb, hcontig, hcover⟩ := hwf
  unfold ext4Read
  by_cases hend : f.size ≤ off
  · simp only [hend, if_true]
    refine ⟨[], ?_, trivial, ?_⟩
    · have : min n (f.size - off) = 0 := by omega
      simp [hend]
    · simp [segsLen]; omega
  · simp only [hend, if_false]
    obtain ⟨segs', he, hc', hl'⟩ := ext4Loop_spec f.bs (min n (f.size - off)) off hb f.exts 0 off 0 []
      hcontig (by omega) rfl (by simp [Consec]) (by simp [segsLen]) (by simp) (Or.inl rfl)
      (by simp; omega)
    simp only [he]
    exact ⟨segs', rfl, hc', hl'⟩

/-! ### squashfs -/

/-- the inode's block list and fragment are what the size needs: either a tail fragment after
    `size / bs` full blocks, or enough data blocks for everything -/
def SqFile.WF (f : SqFile) : Prop :=
  0 < f.bs ∧ ((f.frag = true ∧ f.nblocks = f.size / f.bs) ∨ f.size ≤ f.nblocks * f.bs)

/-- `outputBlock` on an input that contains the cursor copies up to the end of the input or of the request -/
theorem sqOutput_hit (oe nbuf pos inputLen off0 maxRead : Nat) (st : SqSt)
    (hoe : oe = off0 + maxRead) (hn : maxRead ≤ nbuf) (hoff : st.off = off0 + st.read)
    (hr : st.read ≤ maxRead) (hp : pos ≤ st.off) (hin : st.off - pos < inputLen) :
    ∃ st', sqOutput oe nbuf pos inputLen st = some st' ∧ st'.off = min oe (pos + inputLen) ∧
      st'.read = st.read + (st'.off - st.off) ∧ st'.segs = st.segs ++ [⟨st.off, st'.off - st.off⟩] := by
  unfold sqOutput
  have hc : pos ≤ st.off ∧ st.off - pos < inputLen := ⟨hp, hin⟩
  simp only [hc, and_self, if_true]
  have h1 : ¬ min (oe - pos) inputLen < st.off - pos := by omega
  simp only [h1, if_false]
  have hk : min (nbuf - st.read) (min (oe - pos) inputLen - (st.off - pos)) =
      min oe (pos + inputLen) - st.off := by omega
  refine ⟨_, rfl, ?_, ?_, ?_⟩
  · simp only [hk]; omega
  · simp only [hk]; omega
  · simp only [hk]
    have : st.off + (min oe (pos + inputLen) - st.off) - st.off = min oe (pos + inputLen) - st.off := by omega
    rw [this]

/-- loop invariant at block index `i` (blocks before `i` have been looked at) -/
def SqInv (bs off0 maxRead i : Nat) (st : SqSt) : Prop :=
  st.off = off0 + st.read ∧ st.read ≤ maxRead ∧ Consec off0 st.segs ∧ segsLen st.segs = st.read ∧
  ((i * bs ≤ off0 ∧ st.read = 0) ∨ (off0 < i * bs ∧ st.off = min (i * bs) (off0 + maxRead)))

theorem sqLoop_spec (f : SqFile) (off0 maxRead nbuf endP1 : Nat) (hb : 0 < f.bs)
    (hsz : off0 + maxRead ≤ f.size) (hlt : off0 < f.size) (hn : maxRead ≤ nbuf) :
    ∀ (fuel i : Nat) (st : SqSt), SqInv f.bs off0 maxRead i st →
      ∃ st' j, sqLoop f (off0 + maxRead) nbuf maxRead (off0 / f.bs) endP1 fuel i st = some st' ∧
        j ≤ i + fuel ∧ SqInv f.bs off0 maxRead j st' ∧ (maxRead ≤ st'.read ∨ endP1 ≤ j ∨ j = i + fuel) := by
  intro fuel
  induction fuel with
  | zero =>
    intro i st hinv
    exact ⟨st, i, by simp [sqLoop], by omega, hinv, Or.inr (Or.inr rfl)⟩
  | succ fuel ih =>
    intro i st hinv
    unfold sqLoop
    by_cases hbrk : endP1 ≤ i ∨ maxRead ≤ st.read
    · simp only [hbrk, if_true]
      refine ⟨st, i, rfl, by omega, hinv, ?_⟩
      rcases hbrk with h | h
      · exact Or.inr (Or.inl h)
      · exact Or.inl h
    · simp only [hbrk, if_false]
      have hmul : (i + 1) * f.bs = i * f.bs + f.bs := by rw [Nat.add_mul]; simp
      obtain ⟨hoff, hr, hc, hl, hph⟩ := hinv
      have hfu : i + 1 + fuel = i + (fuel + 1) := by omega
      by_cases hsb : off0 / f.bs ≤ i
      · -- block i is at or after the start block: it contains the cursor
        simp only [hsb, if_true]
        have hlt1 : off0 < (i + 1) * f.bs := by
          apply (Nat.div_lt_iff_lt_mul hb).1; omega
        have hp : i * f.bs ≤ st.off := by
          rcases hph with ⟨h1, h2⟩ | ⟨h1, h2⟩ <;> omega
        have hoffi : st.off < off0 + maxRead := by omega
        have hin : st.off - i * f.bs < sqBlockLen f i := by
          unfold sqBlockLen
          rcases hph with ⟨h1, h2⟩ | ⟨h1, h2⟩ <;> omega
        obtain ⟨st', he, ho', hr', hs'⟩ := sqOutput_hit (off0 + maxRead) nbuf (i * f.bs) (sqBlockLen f i)
          off0 maxRead st rfl hn hoff hr hp hin
        simp only [he]
        have hnew : st'.off = min ((i + 1) * f.bs) (off0 + maxRead) := by
          rw [ho']; unfold sqBlockLen; omega
        have hinv' : SqInv f.bs off0 maxRead (i + 1) st' := by
          refine ⟨by omega, by omega, ?_, ?_, Or.inr ⟨hlt1, hnew⟩⟩
          · rw [hs']; apply Consec_snoc _ _ _ hc; right; simp only; omega
          · rw [hs']; simp [segsLen_append, segsLen, hl]; omega
        obtain ⟨st2, j, he2, hj, hinv2, hpost⟩ := ih (i + 1) st' hinv'
        exact ⟨st2, j, he2, by omega, hinv2, by rw [← hfu]; exact hpost⟩
      · -- block i lies wholly before the cursor: skipped
        simp only [hsb, if_false]
        have hle : (i + 1) * f.bs ≤ off0 := by
          apply (Nat.le_div_iff_mul_le hb).1; omega
        have hinv' : SqInv f.bs off0 maxRead (i + 1) st := by
          refine ⟨hoff, hr, hc, hl, Or.inl ⟨hle, ?_⟩⟩
          rcases hph with ⟨_, h2⟩ | ⟨h1, _⟩
          · exact h2
          · omega
        obtain ⟨st2, j, he2, hj, hinv2, hpost⟩ := ih (i + 1) st hinv'
        exact ⟨st2, j, he2, by omega, hinv2, by rw [← hfu]; exact hpost⟩

theorem sqRead_good (f : SqFile) (hwf : f.WF) (off n : Nat) :
    ReadGood f.size off n (sqRead Cfg.fixed f off n) := by
  obtain ⟨hb, hlay⟩ := hwf
  unfold sqRead
  by_cases hend : f.size ≤ off
  · simp only [hend, if_true]
    refine ⟨[], ?_, trivial, ?_⟩
    · have : min n (f.size - off) = 0 := by omega
      simp [hend]
    · simp [segsLen]; omega
  · simp only [hend, if_false]
    generalize hm : min n (f.size - off) = m
    have hmn : m ≤ n := by omega
    have hms : off + m ≤ f.size := by omega
    have hinv0 : SqInv f.bs off m 0 ⟨off, 0, []⟩ :=
      ⟨rfl, Nat.zero_le _, by simp [Consec], by simp [segsLen], Or.inl ⟨by simp, rfl⟩⟩
    -- facts about endBlock = (off + m - 1) / bs
    have hfin : ∀ (st : SqSt), SqInv f.bs off m 0 ⟨off, 0, []⟩ → st.off = off + st.read → st.read = m →
        Consec off st.segs → segsLen st.segs = st.read →
        ReadGood f.size off n (sqFinish Cfg.fixed f m st) := by
      intro st _ ho hrm hc hl
      unfold sqFinish
      by_cases he : f.size ≤ st.off
      · simp only [he, if_true]
        refine ⟨st.segs, ?_, hc, by rw [hm]; omega⟩
        rw [hm]
        have : decide (f.size ≤ off + m) = true := by simp; omega
        rw [this, ho, hrm]
      · simp only [he, if_false, Cfg.fixed]
        have h0 : ¬ (st.read = 0 ∧ (¬ True ∨ 0 < m)) := by
          intro ⟨h1, h2⟩
          rcases h2 with h2 | h2
          · exact h2 trivial
          · omega
        simp only [h0, if_false]
        refine ⟨st.segs, ?_, hc, by rw [hm]; omega⟩
        rw [hm]
        have : decide (f.size ≤ off + m) = false := by simp; omega
        rw [this, ho, hrm]
    by_cases hfr : f.nblocks ≤ (off + m - 1) / f.bs
    · -- the request reaches into the fragment
      have hfr' : f.nblocks * f.bs ≤ off + m - 1 := (Nat.le_div_iff_mul_le hb).1 hfr
      simp only [hfr, decide_true, if_true]
      obtain ⟨st, j, he, hj, hinv, hpost⟩ := sqLoop_spec f off m n ((off + m - 1) / f.bs) hb hms (by omega) hmn
        f.nblocks 0 ⟨off, 0, []⟩ hinv0
      simp only [he]
      obtain ⟨hoff, hr, hc, hl, hph⟩ := hinv
      by_cases hfull : st.read < m
      · simp only [hfull, and_self, if_true]
        have hjn : j = f.nblocks := by
          rcases hpost with h | h | h <;> omega
        subst hjn
        have hlay' : f.frag = true ∧ f.nblocks = f.size / f.bs := by
          rcases hlay with h | h
          · exact h
          · omega
        have hfrag : ¬ ¬ f.frag = true := by simp [hlay'.1]
        simp only [hfrag, if_false]
        have hdm := Nat.div_add_mod f.size f.bs
        have hcm : f.bs * (f.size / f.bs) = f.nblocks * f.bs := by rw [hlay'.2, Nat.mul_comm]
        have hp : f.nblocks * f.bs ≤ st.off := by
          rcases hph with ⟨h1, h2⟩ | ⟨h1, h2⟩ <;> omega
        obtain ⟨st', he', ho', hr', hs'⟩ := sqOutput_hit (off + m) n (f.nblocks * f.bs) (f.size % f.bs)
          off m st rfl hmn hoff hr hp (by omega)
        simp only [he']
        have hoe : st'.off = off + m := by rw [ho']; omega
        apply hfin st' hinv0 (by omega) (by omega)
        · rw [hs']; apply Consec_snoc _ _ _ hc; right; simp only; omega
        · rw [hs']; simp [segsLen_append, segsLen, hl]; omega
      · have hnf : ¬ (st.read < m ∧ True) := by simp; omega
        simp only [hfull, false_and, if_false]
        exact hfin st hinv0 hoff (by omega) hc hl
    · -- the request ends inside the data blocks
      simp only [hfr, decide_false, if_false, Bool.false_eq_true]
      obtain ⟨st, j, he, hj, hinv, hpost⟩ := sqLoop_spec f off m n ((off + m - 1) / f.bs + 1) hb hms (by omega) hmn
        f.nblocks 0 ⟨off, 0, []⟩ hinv0
      simp only [he]
      obtain ⟨hoff, hr, hc, hl, hph⟩ := hinv
      have hrm : st.read = m := by
        rcases hpost with h | h | h
        · omega
        · have : (off + m - 1) / f.bs < j := by omega
          have hlt := (Nat.div_lt_iff_lt_mul hb).1 this
          rcases hph with ⟨h1, h2⟩ | ⟨h1, h2⟩ <;> omega
        · have : (off + m - 1) / f.bs < j := by omega
          have hlt := (Nat.div_lt_iff_lt_mul hb).1 this
          rcases hph with ⟨h1, h2⟩ | ⟨h1, h2⟩ <;> omega
      have hnf : ¬ (st.read < m ∧ False) := by simp
      simp only [and_false, if_false]
      exact hfin st hinv0 hoff hrm hc hl

/-! ### handles: Seek, Close, whole histories -/

def FileM.WF : FileM → Prop
  | .fat f => f.WF
  | .ext4 f => f.WF
  | .iso _ => True
  | .sqfs f => f.WF

theorem readOpen_good (fm : FileM) (hwf : fm.WF) (off n : Nat) :
    ReadGood fm.size off n (readOpen Cfg.fixed fm off n) := by
  cases fm with
  | fat f => exact fatRead_good f hwf off n
  | ext4 f => exact ext4Read_good f hwf off n
  | iso s => exact isoRead_good s off n
  | sqfs f => exact sqRead_good f hwf off n

theorem armsOf_fixed (fm : FileM) : armsOf Cfg.fixed fm = SeekArms.canonical := by
  cases fm <;> rfl

theorem seekWith_canonical (size pos : Nat) (w : Whence) (o : Int) :
    SeekOK size pos w o (seekWith SeekArms.canonical size pos w o).1
      (seekWith SeekArms.canonical size pos w o).2 := by
  have heq : (SeekArms.canonical.pick w).eval size pos o = seekTarget size pos w o := by
    cases w <;> rfl
  unfold seekWith SeekOK
  simp only [heq]
  by_cases h : seekTarget size pos w o < 0
  · simp [h]
  · simp [h]

/-- the model's answers as the specification sees them -/
def toSpec (store : Dev) : MOut → HOut
  | .read (.ok segs eof) => .data (segsData store segs) eof
  | .read .errClosed => .failed
  | .read (.errOther _) => .failed
  | .read .panic => .crashed
  | .read .unmodelled => .crashed
  | .seek ret => .pos ret
  | .seekClosed => .failed
  | .seekPanic => .crashed
  | .closed => .done

/-- the call / answer history of a model handle -/
def histM (c : Cfg) (fm : FileM) (store : Dev) : H → List HOp → List (HOp × HOut)
  | _, [] => []
  | h, op :: ops =>
    let r := stepM c fm h op
    (op, toSpec store r.1) :: histM c fm store r.2 ops

theorem step_refines (fm : FileM) (hwf : fm.WF) (store : Dev) (content : Bytes)
    (hag : Agrees store content) (hsz : content.length = fm.size) (h : H) (op : HOp) :
    StepOK content ⟨h.off, h.closed⟩ op (toSpec store (stepM Cfg.fixed fm h op).1)
      ⟨(stepM Cfg.fixed fm h op).2.off, (stepM Cfg.fixed fm h op).2.closed⟩ := by
  obtain ⟨off, closed⟩ := h
  cases closed with
  | true =>
    cases op with
    | read n => simp [StepOK, stepM, readM, Cfg.fixed, toSpec]
    | seek w o => simp [StepOK, stepM, seekM, Cfg.fixed, toSpec]
    | close => simp [StepOK, stepM, closeM, Cfg.fixed, toSpec]
  | false =>
    cases op with
    | read n =>
      have hg := readOpen_good fm hwf off n
      obtain ⟨segs, heq, hc, hl⟩ := hg
      have hg' : ReadGood fm.size off n (.ok segs (decide (fm.size ≤ off + min n (fm.size - off))), off + min n (fm.size - off)) :=
        ⟨segs, rfl, hc, hl⟩
      obtain ⟨hro, hpos⟩ := ReadGood_spec store content hag fm.size off n hsz segs _ _ hg'
      simp only [StepOK, stepM, readM, Bool.false_eq_true, if_false, heq, toSpec]
      exact ⟨_, _, rfl, hro, by rw [hpos]⟩
    | seek w o =>
      have hs := seekWith_canonical fm.size off w o
      simp only [StepOK, stepM, seekM, Bool.false_eq_true, if_false, armsOf_fixed, toSpec]
      rw [hsz]
      exact ⟨_, _, rfl, hs, rfl⟩
    | close => simp [StepOK, stepM, closeM, Cfg.fixed, toSpec]

theorem history_refines (fm : FileM) (hwf : fm.WF) (store : Dev) (content : Bytes)
    (hag : Agrees store content) (hsz : content.length = fm.size) :
    ∀ (ops : List HOp) (h : H), HistoryOK content ⟨h.off, h.closed⟩ (histM Cfg.fixed fm store h ops) := by
  intro ops
  induction ops with
  | nil => intro h; simp [histM, HistoryOK]
  | cons op ops ih =>
    intro h
    simp only [histM, HistoryOK]
    exact ⟨_, step_refines fm hwf store content hag hsz h op, ih _⟩

/-- the extent loop consults the configuration only for the skip test and the negative-length guard -/
theorem ext4Loop_cfg (c c' : Cfg) (h : c.e4SkipLe = c'.e4SkipLe) (h' : c.e4SkipNeg = c'.e4SkipNeg) (bs btr rsb : Nat) :
    ∀ (es : List Ext) (off rb : Nat) (segs : List Seg),
      ext4Loop c bs btr rsb es off rb segs = ext4Loop c' bs btr rsb es off rb segs := by
  intro es
  induction es with
  | nil => intro off rb segs; rfl
  | cons e es ih =>
    intro off rb segs
    simp only [ext4Loop, h, h', ih]

theorem contigB_sound : ∀ (es : List Ext) (s : Nat), contigB s es = true → Contig s es := by
  intro es
  induction es with
  | nil => intro s _; trivial
  | cons e es ih =>
    intro s h
    simp only [contigB, Bool.and_eq_true, beq_iff_eq, decide_eq_true_eq] at h
    exact ⟨h.1.1, h.1.2, ih _ h.2⟩

/-- the driver's executable check implies the hypothesis of the theorems -/
theorem wfb_sound (fm : FileM) (h : fm.wfb = true) : fm.WF := by
  cases fm with
  | fat f =>
    simp only [FileM.wfb, Bool.and_eq_true, decide_eq_true_eq] at h
    exact h
  | ext4 f =>
    simp only [FileM.wfb, Bool.and_eq_true, decide_eq_true_eq] at h
    exact ⟨h.1.1, contigB_sound _ _ h.1.2, h.2⟩
  | iso s => trivial
  | sqfs f =>
    simp only [FileM.wfb, Bool.and_eq_true, Bool.or_eq_true, decide_eq_true_eq, beq_iff_eq] at h
    exact ⟨h.1, h.2⟩

end Diskfs.ReadSeek
