/-
  Writer ∘ reader = id at the level of bytes: the image `buildImage` (Model/Sqfs/ImageWr.lean) lays
  out for a file list shows that tree to the reader of Model/Sqfs/ImageRd.lean (`ImgShows`), so
  `readImageS` returns the superblock and the depth-first walk of the file list with owners and
  file contents.
-/
import DiskfsModel.Proofs.SqfsImageWr
import DiskfsModel.Proofs.SqfsFrag
import DiskfsModel.Proofs.SqfsCodec
namespace Diskfs.Sqfs

/-! ### small list facts -/

theorem idxIn_spec (x : Nat) : ∀ l : List Nat, x ∈ l → idxIn x l < l.length ∧ l[idxIn x l]? = some x := by
  intro l
  induction l with
  | nil => intro h; simp at h
  | cons y r ih =>
    intro h
    by_cases hy : y = x
    · simp [idxIn, hy]
    · have hr : x ∈ r := by
        rcases List.mem_cons.1 h with h | h
        · exact absurd h.symm hy
        · exact h
      obtain ⟨a, b⟩ := ih hr
      simp only [idxIn, hy, if_false, List.length_cons]
      exact ⟨by omega, by simpa using b⟩

theorem mem_addId (l : List Nat) (x y : Nat) : y ∈ addId l x ↔ y ∈ l ∨ y = x := by
  unfold addId
  split
  · constructor
    · intro h; exact Or.inl h
    · rintro (h | rfl)
      · exact h
      · assumption
  · simp

theorem mem_idTable_acc (fl : List FEnt) : ∀ acc : List Nat,
    (∀ x ∈ acc, x ∈ fl.foldl (fun acc e => addId (addId acc e.uid) e.gid) acc) ∧
    (∀ e ∈ fl, e.uid ∈ fl.foldl (fun acc e => addId (addId acc e.uid) e.gid) acc ∧
               e.gid ∈ fl.foldl (fun acc e => addId (addId acc e.uid) e.gid) acc) := by
  induction fl with
  | nil => intro acc; simp
  | cons e r ih =>
    intro acc
    obtain ⟨h1, h2⟩ := ih (addId (addId acc e.uid) e.gid)
    simp only [List.foldl_cons]
    refine ⟨fun x hx => h1 x ((mem_addId _ _ _).2 (Or.inl ((mem_addId _ _ _).2 (Or.inl hx)))), ?_⟩
    intro e' he'
    rcases List.mem_cons.1 he' with rfl | he'
    · exact ⟨h1 _ ((mem_addId _ _ _).2 (Or.inl ((mem_addId _ _ _).2 (Or.inr rfl)))), h1 _ ((mem_addId _ _ _).2 (Or.inr rfl))⟩
    · exact h2 e' he'

theorem mem_idTable (fl : List FEnt) (e : FEnt) (he : e ∈ fl) : e.uid ∈ idTable fl ∧ e.gid ∈ idTable fl :=
  (mem_idTable_acc fl []).2 e he

theorem flatten_take_length (l : List Bytes) (k : Nat) : (l.take k).flatten.length = ((l.map List.length).take k).sum := by
  induction l generalizing k with
  | nil => simp
  | cons x r ih =>
    cases k with
    | zero => simp
    | succ k => simp [ih]

theorem inodeRefs_getD : ∀ (sizes : List Nat) (p k : Nat), k < sizes.length →
    (inodeRefs sizes p).getD k (0, 0) = ((p + (sizes.take k).sum) / metaBlock, (p + (sizes.take k).sum) % metaBlock) := by
  intro sizes
  induction sizes with
  | nil => intro p k hk; simp at hk
  | cons s r ih =>
    intro p k hk
    cases k with
    | zero => simp [inodeRefs]
    | succ k =>
      simp only [inodeRefs, List.getD_cons_succ, List.take_succ_cons, List.sum_cons]
      rw [ih (p + s) k (by simpa using hk), Nat.add_assoc]

theorem dirLocs_getD : ∀ (sizes : List Nat) (p k : Nat), k < sizes.length →
    (dirLocs sizes p).getD k (0, 0, 0) =
      ((p + (sizes.take k).sum) / metaBlock, (p + (sizes.take k).sum) % metaBlock, sizes.getD k 0 + 3) := by
  intro sizes
  induction sizes with
  | nil => intro p k hk; simp at hk
  | cons s r ih =>
    intro p k hk
    cases k with
    | zero => simp [dirLocs]
    | succ k =>
      simp only [dirLocs, List.getD_cons_succ, List.take_succ_cons, List.sum_cons]
      rw [ih (p + s) k (by simpa using hk), Nat.add_assoc]

theorem dataLocs_getD (c : Codec) (o : WOpt) : ∀ (fl : List FEnt) (p k : Nat), k < fl.length →
    (dataLocs c o fl p).getD k 0 = p + (((fl.map fun e => storedBytes (fileStored c o e))).take k).flatten.length := by
  intro fl
  induction fl with
  | nil => intro p k hk; simp at hk
  | cons e r ih =>
    intro p k hk
    cases k with
    | zero => simp [dataLocs]
    | succ k =>
      simp only [dataLocs, List.getD_cons_succ, List.map_cons, List.take_succ_cons, List.flatten_cons, List.length_append]
      rw [ih _ k (by simpa using hk), Nat.add_assoc]

theorem holdsAt_flatten_get (img : Dev) (loc : Nat) (l : List Bytes) (h : HoldsAt img loc l.flatten) (i : Nat) (hi : i < l.length) :
    HoldsAt img (loc + (l.take i).flatten.length) (l.getD i []) := by
  have hg : l.getD i [] = l[i] := by simp [List.getD_eq_getElem?_getD, hi]
  have e : l.flatten = (l.take i).flatten ++ (l.getD i [] ++ (l.drop (i + 1)).flatten) := by
    conv => lhs; rw [← List.take_append_drop i l, List.drop_eq_getElem_cons hi]
    rw [List.flatten_append, List.flatten_cons, hg]
  rw [e] at h
  exact (holdsAt_append _ _ _ _ (holdsAt_append _ _ _ _ h).2).1

theorem getD_map_range {α : Type} (f : Nat → α) (n k : Nat) (d : α) (hk : k < n) : ((List.range n).map f).getD k d = f k := by
  simp [List.getD_eq_getElem?_getD, hk]

theorem getD_eq_of_lt {α : Type} (l : List α) (k : Nat) (d : α) (hk : k < l.length) : l.getD k d = l[k] := by
  simp [List.getD_eq_getElem?_getD, hk]

theorem div_lt_chunks (S : Bytes) (pos : Nat) (h : pos < S.length) : pos / metaBlock < (metaChunks S).length := by
  rw [metaChunks_length]
  apply (Nat.div_lt_iff_lt_mul (by decide)).2
  have := Nat.div_add_mod (S.length + metaBlock - 1) metaBlock
  have h2 : (S.length + metaBlock - 1) % metaBlock < metaBlock := Nat.mod_lt _ (by decide)
  rw [Nat.mul_comm] at this
  omega

theorem encodeSB_length (s : Superblock) : (encodeSB s).length = 96 := by simp [encodeSB]

end Diskfs.Sqfs

namespace Diskfs.Sqfs

/-! ### listing sizes do not change under `translateInodeLocations` -/

def setSB (f : Nat → Nat) (e : DEnt) : DEnt := { e with startBlock := f e.startBlock }

theorem encodeDEnt_setSB (base : Nat) (f : Nat → Nat) (e : DEnt) : encodeDEnt base (setSB f e) = encodeDEnt base e := rfl

theorem takeGroup_map (f : Nat → Nat) (sb : Nat) : ∀ (n : Nat) (l : List DEnt),
    (∀ e ∈ l, f e.startBlock = f sb → e.startBlock = sb) →
    takeGroup (f sb) n (l.map (setSB f)) = (takeGroup sb n l).map (setSB f) := by
  intro n
  induction n with
  | zero => intro l _; simp [takeGroup]
  | succ n ih =>
    intro l h
    cases l with
    | nil => simp [takeGroup]
    | cons e r =>
      simp only [List.map_cons, takeGroup]
      by_cases he : e.startBlock = sb
      · have : (setSB f e).startBlock = f sb := by simp [setSB, he]
        rw [if_pos this, if_pos he, ih r (fun x hx => h x (List.mem_cons_of_mem _ hx))]
        rfl
      · have : ¬ (setSB f e).startBlock = f sb := fun hh => he (h e (List.mem_cons_self ..) hh)
        rw [if_neg this, if_neg he]
        rfl

theorem encodeDir_length_map (base : Nat) (f : Nat → Nat) : ∀ (fuel : Nat) (l : List DEnt),
    (∀ a ∈ l, ∀ b ∈ l, f a.startBlock = f b.startBlock → a.startBlock = b.startBlock) →
    (encodeDir base fuel (l.map (setSB f))).length = (encodeDir base fuel l).length := by
  intro fuel
  induction fuel with
  | zero => intro l _; simp [encodeDir]
  | succ fuel ih =>
    intro l h
    cases l with
    | nil => simp [encodeDir]
    | cons e r =>
      have hg := takeGroup_map f e.startBlock maxDirEntries (e :: r) (fun x hx hh => h x hx e (List.mem_cons_self ..) hh)
      have hsb : (setSB f e).startBlock = f e.startBlock := rfl
      simp only [List.map_cons, encodeDir, hsb] at hg ⊢
      rw [hg]
      simp only [List.length_append, leEnc_length, List.length_map, List.map_map]
      have e1 : (List.map (encodeDEnt base ∘ setSB f) (takeGroup e.startBlock maxDirEntries (e :: r))) =
          List.map (encodeDEnt base) (takeGroup e.startBlock maxDirEntries (e :: r)) := by
        apply List.map_congr_left; intro x _; rfl
      rw [e1]
      have e2 : List.drop (takeGroup e.startBlock maxDirEntries (e :: r)).length (setSB f e :: List.map (setSB f) r) =
          ((e :: r).drop (takeGroup e.startBlock maxDirEntries (e :: r)).length).map (setSB f) := by
        rw [List.map_drop]; rfl
      rw [e2, ih _ (fun a ha b hb => h a (List.mem_of_mem_drop ha) b (List.mem_of_mem_drop hb))]

theorem listing_map (fl : List FEnt) (lrefs : List (Nat × Nat)) (xl : Nat → Nat) (d : Nat) :
    listingOf fl lrefs xl d = (listingOf fl lrefs id d).map (setSB xl) := by
  unfold listingOf
  rw [List.map_map]
  apply List.map_congr_left
  intro ch _
  rfl

theorem metaOff_succ (c : Codec) (nc : Bool) (blocks : List Bytes) (k : Nat) (hk : k < blocks.length) :
    metaOff c nc blocks (k + 1) = metaOff c nc blocks k + (encodeMetaBlock c nc blocks[k]).length := by
  unfold metaOff
  have : blocks.take (k + 1) = blocks.take k ++ [blocks[k]] := by
    rw [List.take_succ, List.getElem?_eq_getElem hk]; rfl
  rw [this, metaTable_append, List.length_append]
  simp [metaTable]

theorem metaOff_strict (c : Codec) (nc : Bool) (blocks : List Bytes) (j1 : Nat) : ∀ j2, j1 < j2 → j2 ≤ blocks.length →
    metaOff c nc blocks j1 < metaOff c nc blocks j2 := by
  intro j2
  induction j2 with
  | zero => intro h; omega
  | succ j ih =>
    intro h hl
    rw [metaOff_succ c nc blocks j (by omega)]
    have hpos : 2 ≤ (encodeMetaBlock c nc blocks[j]).length := by
      rw [encodeMetaBlock_eq, encStored_length]; omega
    by_cases hj : j1 = j
    · subst hj; omega
    · have := ih (by omega) (by omega); omega

section roundtrip
variable (c : Codec) (o : WOpt) (fl : List FEnt) (fuel : Nat)

theorem bInodes_length : (bInodes c o fl fuel).length = fl.length := by simp [bInodes]

theorem bInodes_getD (k : Nat) (hk : k < fl.length) :
    (bInodes c o fl fuel).getD k Inode.nil =
      mkInode c o (idTable fl) k (fl.getD k FEnt.nil) ((bDlocs c o fl).getD k 0) ((bFrefs o fl).getD k none)
        ((bDl o fl fuel).getD (idxIn k (bOrder fl fuel)) (0, 0, 0)) := by
  unfold bInodes
  exact getD_map_range _ _ _ _ hk

theorem mkInode_length (ids : List Nat) (k : Nat) (e : FEnt) (hk : e.kind ≤ 2) (dloc : Nat) (fr : Option (Nat × Nat)) (dir : Nat × Nat × Nat) :
    (encodeInode (mkInode c o ids k e dloc fr dir)).length = entSize o e := by
  rw [encodeInode_length]
  unfold mkInode mkBody entSize Inode.size
  by_cases h1 : e.kind = 1
  · by_cases hl : e.links > 0 <;> simp [h1, hl]
  · by_cases h2 : e.kind = 2
    · simp [h1, h2]
    · have h0 : e.kind = 0 := by omega
      by_cases hl : e.links > 0 <;> simp [h1, h2, hl, fileStored, h0, fullBlocks_length]

theorem enc_lengths (L : Limits c o fl fuel) :
    ((bInodes c o fl fuel).map encodeInode).map List.length = fl.map (entSize o) := by
  apply List.ext_getElem
  · simp [bInodes_length]
  · intro k h1 h2
    simp only [List.length_map] at h1 h2
    simp only [List.getElem_map]
    have hk : k < fl.length := h2
    have := bInodes_getD c o fl fuel k hk
    rw [getD_eq_of_lt _ _ _ (by rw [bInodes_length]; exact hk)] at this
    rw [this, mkInode_length c o _ _ _ (L.kinds k hk), getD_eq_of_lt _ _ _ hk]

/-- position of inode `k` in the inode stream -/
def ipos (k : Nat) : Nat := (((bInodes c o fl fuel).map encodeInode).take k).flatten.length

theorem lrefs_getD (L : Limits c o fl fuel) (k : Nat) (hk : k < fl.length) :
    (bLrefs o fl).getD k (0, 0) = (ipos c o fl fuel k / metaBlock, ipos c o fl fuel k % metaBlock) := by
  unfold bLrefs ipos
  rw [inodeRefs_getD _ _ _ (by simpa using hk), flatten_take_length, enc_lengths c o fl fuel L]
  simp

theorem iblocks_eq (L : Limits c o fl fuel) : bIblocks c o fl fuel = metaChunks (bIstream c o fl fuel) := by
  unfold bIblocks bIstream
  have := cutGT_chunks ((bInodes c o fl fuel).map encodeInode) [] (by simp) (by
    intro x hx
    obtain ⟨i, hi, rfl⟩ := List.mem_map.1 hx
    obtain ⟨k, hk, rfl⟩ := List.mem_map.1 (by unfold bInodes at hi; exact hi)
    simp only [List.mem_range] at hk
    rw [mkInode_length c o _ _ _ (L.kinds k hk)]
    exact L.small _ (getD_mem _ _ _ hk))
  simpa using this

theorem length_le_flatten (l : List Bytes) (x : Bytes) (hx : x ∈ l) : x.length ≤ l.flatten.length := by
  induction l with
  | nil => simp at hx
  | cons y r ih =>
    rcases List.mem_cons.1 hx with rfl | h
    · simp
    · have := ih h
      rw [List.flatten_cons, List.length_append]; omega

theorem dblocks_eq (L : Limits c o fl fuel) : bDblocks c o fl fuel = [bDstream c o fl fuel] := by
  unfold bDblocks
  have := cutGT_chunks (bLsts c o fl fuel) [] (by simp) (by
    intro x hx
    have := length_le_flatten _ x hx
    have h2 := L.dirSmall.2
    unfold bDstream at h2
    omega)
  rw [this]
  simp only [List.nil_append]
  have hne : bDstream c o fl fuel ≠ [] := by
    intro h; have := L.dirSmall.1; rw [h] at this; simp at this
  change metaChunks (bDstream c o fl fuel) = _
  rw [metaChunks_cons _ hne, List.take_of_length_le (Nat.le_of_lt L.dirSmall.2), List.drop_of_length_le (Nat.le_of_lt L.dirSmall.2)]
  rfl

theorem ipos_lt (L : Limits c o fl fuel) (k : Nat) (hk : k < fl.length) : ipos c o fl fuel k < (bIstream c o fl fuel).length := by
  unfold ipos bIstream
  apply flatten_take_lt _ _ (by simpa [bInodes_length] using hk)
  rw [getD_map_of_lt encodeInode _ k [] Inode.nil (by rw [bInodes_length]; exact hk), bInodes_getD c o fl fuel k hk,
    mkInode_length c o _ _ _ (L.kinds k hk)]
  unfold entSize; omega

theorem inodeRefs_length (sizes : List Nat) (p : Nat) : (inodeRefs sizes p).length = sizes.length := by
  induction sizes generalizing p with
  | nil => rfl
  | cons s r ih => simp [inodeRefs, ih]

theorem bRefs_getD (L : Limits c o fl fuel) (k : Nat) (hk : k < fl.length) :
    (bRefs c o fl fuel).getD k (0, 0) =
      (metaOff c o.noCompData (metaChunks (bIstream c o fl fuel)) (ipos c o fl fuel k / metaBlock), ipos c o fl fuel k % metaBlock) := by
  unfold bRefs
  simp only
  rw [getD_map_of_lt _ _ k (0, 0) (0, 0) (by unfold bLrefs; simpa [inodeRefs_length] using hk), lrefs_getD c o fl fuel L k hk]
  simp only
  unfold bOffs
  rw [iblocks_eq c o fl fuel L, translate_metaOff c o.noCompData _ _ (div_lt_chunks _ _ (ipos_lt c o fl fuel L k hk))]

theorem xl_inj (hlr : ∀ k, k < fl.length → ((bLrefs o fl).getD k (0, 0)).1 < (bIblocks c o fl fuel).length)
    (a b : Nat) (ha : a < fl.length) (hb : b < fl.length)
    (h : bXl c o fl fuel ((bLrefs o fl).getD a (0, 0)).1 = bXl c o fl fuel ((bLrefs o fl).getD b (0, 0)).1) :
    ((bLrefs o fl).getD a (0, 0)).1 = ((bLrefs o fl).getD b (0, 0)).1 := by
  have h1 := hlr a ha
  have h2 := hlr b hb
  unfold bXl bOffs at h
  rw [translate_metaOff c o.noCompData _ _ h1, translate_metaOff c o.noCompData _ _ h2] at h
  apply Classical.byContradiction
  intro hne
  rcases Nat.lt_or_gt_of_ne hne with hlt | hgt
  · have := metaOff_strict c o.noCompData _ _ _ hlt (Nat.le_of_lt h2); omega
  · have := metaOff_strict c o.noCompData _ _ _ hgt (Nat.le_of_lt h1); omega

/-- the listing sizes `populateDirectoryLocations` computes BEFORE `translateInodeLocations` are the
    sizes of the listings that are written after it: the translation is injective on the blocks in use -/
theorem len_inv (L : Limits c o fl fuel) (d : Nat) (hd : d < fl.length) :
    (encodeListing 0 (listingOf fl (bLrefs o fl) (bXl c o fl fuel) d)).length =
      (encodeListing 0 (listingOf fl (bLrefs o fl) id d)).length := by
  have hlr : ∀ k, k < fl.length → ((bLrefs o fl).getD k (0, 0)).1 < (bIblocks c o fl fuel).length := by
    intro k hk
    rw [lrefs_getD c o fl fuel L k hk, iblocks_eq c o fl fuel L]
    exact div_lt_chunks _ _ (ipos_lt c o fl fuel L k hk)
  rw [listing_map]
  unfold encodeListing
  rw [List.length_map]
  apply encodeDir_length_map
  intro a ha b hb h
  unfold listingOf at ha hb
  obtain ⟨ka, hka, rfl⟩ := List.mem_map.1 ha
  obtain ⟨kb, hkb, rfl⟩ := List.mem_map.1 hb
  exact xl_inj c o fl fuel hlr ka kb (L.closed d hd ka hka) (L.closed d hd kb hkb) h

/-! ### the regions of the image on the device -/

structure OnDev (img : Dev) : Prop where
  sb : HoldsAt img 0 (encodeSB (bSB c o fl fuel))
  data : HoldsAt img (bDataStart o) (bData c o fl)
  frag : HoldsAt img (bFragStart0 c o fl) (storedBytes (bFstored c o fl))
  itab : HoldsAt img (bInodeStart c o fl) (bItab c o fl fuel ++ bDtab c o fl fuel)
  dtab : HoldsAt img (bDirStart c o fl fuel) (bDtab c o fl fuel)
  dtail : HoldsAt img (bDirStart c o fl fuel) (bDtab c o fl fuel ++ (bFtab c o fl ++ (bFidx c o fl fuel ++
      (bEtab c o fl fuel ++ (bEidx c o fl fuel ++ (bIdtab c o fl ++ bIdidx c o fl fuel))))))
  ftab : HoldsAt img (bFLoc c o fl fuel) (bFtab c o fl)
  fidx : HoldsAt img (bFragIdx c o fl fuel) (bFidx c o fl fuel)
  idtab : HoldsAt img (bIdLoc c o fl fuel) (bIdtab c o fl)
  ididx : HoldsAt img (bIdStart c o fl fuel) (bIdidx c o fl fuel)

theorem onDev_of_image (img : Dev) (h : HoldsAt img 0 (bImage c o fl fuel)) : OnDev c o fl fuel img := by
  unfold bImage bTables at h
  obtain ⟨a1, r1⟩ := holdsAt_append _ _ _ _ h
  obtain ⟨_, r2⟩ := holdsAt_append _ _ _ _ r1
  obtain ⟨a3, r3⟩ := holdsAt_append _ _ _ _ r2
  obtain ⟨a4, r4⟩ := holdsAt_append _ _ _ _ r3
  have e2 : 0 + (encodeSB (bSB c o fl fuel)).length + o.optBytes.length = bDataStart o := by
    simp [encodeSB_length, bDataStart, sbSize]
  rw [e2] at a3 r3 a4 r4
  have r4' : HoldsAt img (bInodeStart c o fl) (bItab c o fl fuel ++ (bDtab c o fl fuel ++ (bFtab c o fl ++ (bFidx c o fl fuel ++
      (bEtab c o fl fuel ++ (bEidx c o fl fuel ++ (bIdtab c o fl ++ bIdidx c o fl fuel))))))) := r4
  have r4'' := r4'
  rw [← List.append_assoc] at r4''
  obtain ⟨a5, _⟩ := holdsAt_append _ _ _ _ r4''
  obtain ⟨_, r5⟩ := holdsAt_append _ _ _ _ r4'
  obtain ⟨a6, r6⟩ := holdsAt_append _ _ _ _ r5
  obtain ⟨a7, r7⟩ := holdsAt_append _ _ _ _ r6
  obtain ⟨a8, r8⟩ := holdsAt_append _ _ _ _ r7
  obtain ⟨_, r9⟩ := holdsAt_append _ _ _ _ r8
  obtain ⟨_, r10⟩ := holdsAt_append _ _ _ _ r9
  obtain ⟨a11, a12⟩ := holdsAt_append _ _ _ _ r10
  exact ⟨a1, a3, a4, a5, a6, r5, a7, a8, a11, a12⟩

/-! ### what the reader finds at the references -/

theorem chunksD (L : Limits c o fl fuel) : metaChunks (bDstream c o fl fuel) = [bDstream c o fl fuel] := by
  have hne : bDstream c o fl fuel ≠ [] := by
    intro h; have := L.dirSmall.1; rw [h] at this; simp at this
  rw [metaChunks_cons _ hne, List.take_of_length_le (Nat.le_of_lt L.dirSmall.2), List.drop_of_length_le (Nat.le_of_lt L.dirSmall.2)]
  rfl

theorem blockOK_D (L : Limits c o fl fuel) : BlockOK (bDstream c o fl fuel) := ⟨L.dirSmall.1, Nat.le_of_lt L.dirSmall.2⟩

theorem inode_reads (L : Limits c o fl fuel) (img : Dev) (D : OnDev c o fl fuel img) (k : Nat) (hk : k < fl.length) :
    ∃ rest, ReadsFrom c img (bInodeStart c o fl) ((bRefs c o fl fuel).getD k (0, 0)).1 ((bRefs c o fl fuel).getD k (0, 0)).2
        (encodeInode ((bInodes c o fl fuel).getD k Inode.nil) ++ rest) ∧ 0 < rest.length := by
  rw [bRefs_getD c o fl fuel L k hk]
  have hT : HoldsAt img (bInodeStart c o fl) (metaTable c o.noCompData (metaChunks (bIstream c o fl fuel) ++ [bDstream c o fl fuel])) := by
    have := D.itab
    unfold bItab bDtab at this
    rw [iblocks_eq c o fl fuel L, dblocks_eq c o fl fuel L, ← metaTable_append] at this
    exact this
  have := readsFrom_stream c o.noCompData img _ (bIstream c o fl fuel) [bDstream c o fl fuel]
    (by intro x hx; simp at hx; subst hx; exact blockOK_D c o fl fuel L) hT (ipos c o fl fuel k)
    (Nat.le_of_lt (ipos_lt c o fl fuel L k hk)) (div_lt_chunks _ _ (ipos_lt c o fl fuel L k hk))
  have hk' : k < ((bInodes c o fl fuel).map encodeInode).length := by simpa [bInodes_length] using hk
  have hsplit := flatten_drop_prefix ((bInodes c o fl fuel).map encodeInode) k hk'
  rw [getD_map_of_lt encodeInode _ k [] Inode.nil (by rw [bInodes_length]; exact hk)] at hsplit
  refine ⟨(((bInodes c o fl fuel).map encodeInode).drop (k + 1)).flatten ++ [bDstream c o fl fuel].flatten, ?_, ?_⟩
  · have e : (bIstream c o fl fuel).drop (ipos c o fl fuel k) = _ := hsplit
    rw [e, List.append_assoc] at this
    exact this
  · have := L.dirSmall.1
    simp; omega

theorem dirOrder_lt (L : Limits c o fl fuel) : ∀ (f d : Nat), d < fl.length → ∀ x ∈ dirOrder fl f d, x < fl.length := by
  intro f
  induction f with
  | zero => intro d _ x hx; simp [dirOrder] at hx
  | succ f ih =>
    intro d hd x hx
    simp only [dirOrder, List.mem_cons, List.mem_flatMap, List.mem_filter] at hx
    rcases hx with rfl | ⟨ch, ⟨hch, _⟩, hx⟩
    · exact hd
    · exact ih ch (L.closed d hd ch hch) x hx

/-- position of the listing of the `j`-th directory in the directory stream -/
def dpos (j : Nat) : Nat := ((bLsts c o fl fuel).take j).flatten.length

theorem bLsts_length : (bLsts c o fl fuel).length = (bOrder fl fuel).length := by simp [bLsts]

theorem metaOff_zero (nc : Bool) (l : List Bytes) : metaOff c nc l 0 = 0 := by simp [metaOff, metaTable]

theorem flat_ne {α : Type} (f : α → Bytes) (l : List α) (k : Nat) (hk : 3 ≤ k) (hf : ∀ x, (f x).length = k) (hl : l ≠ []) :
    (l.map f).flatten ≠ [] ∧ 3 ≤ ((l.map f).flatten).length := by
  cases l with
  | nil => exact absurd rfl hl
  | cons r rs =>
    have h3 : 3 ≤ (((r :: rs).map f).flatten).length := by
      simp only [List.map_cons, List.flatten_cons, List.length_append, hf]; omega
    refine ⟨?_, h3⟩
    intro h; rw [h] at h3; simp at h3

theorem first_block (nc : Bool) (S : Bytes) (hS : S ≠ []) :
    ∃ more, metaTable c nc (metaChunks S) = encodeMetaBlock c nc (S.take metaBlock) ++ more ∧ BlockOK (S.take metaBlock) ∧
      min metaBlock S.length ≤ (S.take metaBlock).length := by
  refine ⟨metaTable c nc (metaChunks (S.drop metaBlock)), by rw [metaChunks_cons S hS, metaTable_cons], ?_, by simp⟩
  exact metaChunks_ok S _ (by rw [metaChunks_cons S hS]; exact List.mem_cons_self ..)

theorem lookupIndex_nil (nc : Bool) (loc : Nat) : lookupIndex c nc loc [] = [] := rfl

/-- behind the directory table stands another metadata block of at least 3 bytes: the first block
    of the fragment table, or (no fragments) of the export table, or (not exportable) of the id table -/
theorem after_dtab (L : Limits c o fl fuel) (img : Dev) (D : OnDev c o fl fuel img) :
    ∃ nb, BlockOK nb ∧ 3 ≤ nb.length ∧
      HoldsAt img (bDirStart c o fl fuel) (metaTable c o.noCompData (metaChunks (bDstream c o fl fuel) ++ [nb])) := by
  have key : ∀ S more2, S ≠ [] → 3 ≤ S.length →
      HoldsAt img (bDirStart c o fl fuel) (bDtab c o fl fuel ++ (metaTable c o.noCompData (metaChunks S) ++ more2)) →
      ∃ nb, BlockOK nb ∧ 3 ≤ nb.length ∧
        HoldsAt img (bDirStart c o fl fuel) (metaTable c o.noCompData (metaChunks (bDstream c o fl fuel) ++ [nb])) := by
    intro S more2 hS h3 hH
    obtain ⟨more, he, hok, hmin⟩ := first_block c o.noCompData S hS
    refine ⟨S.take metaBlock, hok, by simp only [metaBlock] at hmin ⊢; omega, ?_⟩
    rw [he, List.append_assoc, ← List.append_assoc] at hH
    have := (holdsAt_append _ _ _ _ hH).1
    unfold bDtab at this
    rw [dblocks_eq c o fl fuel L] at this
    rw [chunksD c o fl fuel L, metaTable_append]
    simpa [metaTable] using this
  have hT := D.dtail
  by_cases hf : bFents c o fl = []
  · have e1 : bFtab c o fl = [] := by unfold bFtab bFblocks; rw [hf]; rfl
    have e2 : bFidx c o fl fuel = [] := by unfold bFidx bFblocks; rw [hf]; rfl
    rw [e1, e2, List.nil_append, List.nil_append] at hT
    by_cases hx : o.exportable = true
    · have hne : exportStream (bRefs c o fl fuel) ≠ [] ∧ 3 ≤ (exportStream (bRefs c o fl fuel)).length := by
        have hl : (bRefs c o fl fuel).length = fl.length := by simp [bRefs, bLrefs, inodeRefs_length]
        have h0 := L.n0
        exact flat_ne exportEnt _ 8 (by omega) (by intro x; simp [exportEnt]) (by intro h; rw [h] at hl; simp at hl; omega)
      have : bEtab c o fl fuel = metaTable c o.noCompData (metaChunks (exportStream (bRefs c o fl fuel))) := by
        unfold bEtab bEblocks; rw [if_pos hx]
      rw [this] at hT
      exact key _ _ hne.1 hne.2 hT
    · have e3 : bEtab c o fl fuel = [] := by unfold bEtab bEblocks; rw [if_neg hx]; rfl
      have e4 : bEidx c o fl fuel = [] := by unfold bEidx bEblocks; rw [if_neg hx]; rfl
      rw [e3, e4, List.nil_append, List.nil_append] at hT
      have hne : idStream (idTable fl) ≠ [] ∧ 3 ≤ (idStream (idTable fl)).length := by
        have hm := (mem_idTable fl _ (getD_mem fl 0 FEnt.nil L.n0)).1
        exact flat_ne (leEnc 4) _ 4 (by omega) (by intro x; simp) (by intro h; rw [h] at hm; simp at hm)
      exact key _ _ hne.1 hne.2 hT
  · have hne : fragStream (bFents c o fl) ≠ [] ∧ 3 ≤ (fragStream (bFents c o fl)).length := by
      exact flat_ne encodeFragEnt _ 16 (by omega) (by intro x; simp [encodeFragEnt]) hf
    exact key _ _ hne.1 hne.2 hT

theorem listing_reads (L : Limits c o fl fuel) (img : Dev) (D : OnDev c o fl fuel img) (d : Nat) (hd : d < fl.length)
    (hdir : (fl.getD d FEnt.nil).kind = 1) :
    (bDl o fl fuel).getD (idxIn d (bOrder fl fuel)) (0, 0, 0) =
      (0, dpos c o fl fuel (idxIn d (bOrder fl fuel)),
        (encodeListing 0 (listingOf fl (bLrefs o fl) (bXl c o fl fuel) d)).length + 3) ∧
    ∃ rest, ReadsFrom c img (bDirStart c o fl fuel) 0 (dpos c o fl fuel (idxIn d (bOrder fl fuel)))
      (encodeListing 0 (listingOf fl (bLrefs o fl) (bXl c o fl fuel) d) ++ rest) ∧ 3 ≤ rest.length := by
  obtain ⟨hj, hget⟩ := idxIn_spec d (bOrder fl fuel) (L.reach d hd hdir)
  generalize idxIn d (bOrder fl fuel) = j at hj hget
  have hmem : ∀ x ∈ bOrder fl fuel, x < fl.length := dirOrder_lt c o fl fuel L fuel 0 L.n0
  have hsizes : ((bOrder fl fuel).map fun d => (encodeListing 0 (listingOf fl (bLrefs o fl) id d)).length) =
      (bLsts c o fl fuel).map List.length := by
    unfold bLsts
    simp only [List.map_map]
    apply List.map_congr_left
    intro x hx
    exact (len_inv c o fl fuel L x (hmem x hx)).symm
  have hle : dpos c o fl fuel j ≤ (bDstream c o fl fuel).length := flatten_take_le _ _
  have hlt := L.dirSmall.2
  have hgj : (bLsts c o fl fuel).getD j [] = encodeListing 0 (listingOf fl (bLrefs o fl) (bXl c o fl fuel) d) := by
    unfold bLsts
    simp only
    rw [getD_map_of_lt _ _ j [] 0 hj]
    have : (bOrder fl fuel).getD j 0 = d := by simp [List.getD_eq_getElem?_getD, hget]
    rw [this]; rfl
  constructor
  · unfold bDl
    simp only
    rw [hsizes, dirLocs_getD _ _ _ (by simpa [bLsts_length] using hj), ← flatten_take_length]
    simp only [Nat.zero_add]
    have e1 : dpos c o fl fuel j / metaBlock = 0 := Nat.div_eq_of_lt (by omega)
    have e2 : dpos c o fl fuel j % metaBlock = dpos c o fl fuel j := Nat.mod_eq_of_lt (by omega)
    change (dpos c o fl fuel j / metaBlock, dpos c o fl fuel j % metaBlock, _) = _
    rw [e1, e2, getD_map_of_lt List.length _ j 0 [] (by rw [bLsts_length]; exact hj), hgj]
  · obtain ⟨nb, hnb, hnb3, hT⟩ := after_dtab c o fl fuel L img D
    have e1 : dpos c o fl fuel j / metaBlock = 0 := Nat.div_eq_of_lt (by omega)
    have e2 : dpos c o fl fuel j % metaBlock = dpos c o fl fuel j := Nat.mod_eq_of_lt (by omega)
    have := readsFrom_stream c o.noCompData img _ (bDstream c o fl fuel) [nb] (by intro x hx; simp at hx; subst hx; exact hnb) hT
      (dpos c o fl fuel j) hle (by rw [e1, chunksD c o fl fuel L]; simp)
    rw [e1, e2, metaOff_zero] at this
    have hsplit := flatten_drop_prefix (bLsts c o fl fuel) j (by rw [bLsts_length]; exact hj)
    rw [hgj] at hsplit
    refine ⟨((bLsts c o fl fuel).drop (j + 1)).flatten ++ [nb].flatten, ?_, by simp; omega⟩
    have e : (bDstream c o fl fuel).drop (dpos c o fl fuel j) = _ := hsplit
    rw [e, List.append_assoc] at this
    exact this

end roundtrip
end Diskfs.Sqfs

namespace Diskfs.Sqfs

section roundtrip2
variable (c : Codec) (o : WOpt) (fl : List FEnt) (fuel : Nat)

/-- the tree the image has to show: entry k = element k of the file list -/
def bTree : STree :=
  { n := fl.length, ino := fun k => (bInodes c o fl fuel).getD k Inode.nil, name := fun k => (fl.getD k FEnt.nil).name,
    kids := fun k => (fl.getD k FEnt.nil).kids, refBlk := fun k => ((bRefs c o fl fuel).getD k (0, 0)).1,
    refOff := fun k => ((bRefs c o fl fuel).getD k (0, 0)).2 }

def bAttr : Nat → Attr := fun k =>
  ⟨(fl.getD k FEnt.nil).uid, (fl.getD k FEnt.nil).gid, if (fl.getD k FEnt.nil).kind = 0 then (fl.getD k FEnt.nil).data else []⟩

def bOpened : Opened :=
  { bs := o.bs, inodeStart := bInodeStart c o fl, dirStart := bDirStart c o fl fuel, frags := bFents c o fl, ids := idTable fl }

theorem mkBody_basicTyp (e : FEnt) (hk : e.kind ≤ 2) (dloc : Nat) (fr : Option (Nat × Nat)) (dir : Nat × Nat × Nat) :
    basicTyp (mkBody c o e dloc fr dir).typ = kindTyp e.kind := by
  unfold mkBody kindTyp basicTyp
  by_cases h1 : e.kind = 1
  · by_cases hl : e.links > 0 <;> simp [h1, hl, IBody.typ]
  · by_cases h2 : e.kind = 2
    · simp [h2, IBody.typ]
    · by_cases hl : e.links > 0 <;> simp [h1, h2, hl, IBody.typ]

theorem bRefs_getD' (k : Nat) (hk : k < fl.length) :
    (bRefs c o fl fuel).getD k (0, 0) = (bXl c o fl fuel ((bLrefs o fl).getD k (0, 0)).1, ((bLrefs o fl).getD k (0, 0)).2) := by
  unfold bRefs
  simp only
  rw [getD_map_of_lt _ _ k (0, 0) (0, 0) (by unfold bLrefs; simpa [inodeRefs_length] using hk)]
  rfl

theorem dent_eq (L : Limits c o fl fuel) (k : Nat) (hk : k < fl.length) :
    (bTree c o fl fuel).dent k = dentOf fl (bLrefs o fl) (bXl c o fl fuel) k := by
  unfold STree.dent bTree dentOf
  simp only
  rw [bRefs_getD' c o fl fuel k hk, bInodes_getD c o fl fuel k hk]
  simp only [mkInode, mkBody_basicTyp c o _ (L.kinds k hk)]

theorem typeSize_kindTyp (e : FEnt) (hk : e.kind ≤ 2) : 16 ≤ typeSize (kindTyp e.kind) ∧ typeSize (kindTyp e.kind) ≤ entSize o e + 1 := by
  unfold kindTyp entSize
  by_cases h1 : e.kind = 1
  · by_cases hl : e.links > 0 <;> simp [h1, hl, typeSize]
  · by_cases h2 : e.kind = 2
    · simp [h2, typeSize]; omega
    · by_cases hl : e.links > 0 <;> simp [h1, h2, hl, typeSize] <;> omega

theorem ask_le (i : Inode) : i.ask ≤ i.size + 1 := by
  have := typeSize_body i.body
  have h2 := inode_size_eq i
  unfold Inode.ask
  omega

theorem frag_ok (L : Limits c o fl fuel) (img : Dev) (D : OnDev c o fl fuel img) (k : Nat) (hk : k < fl.length) :
    FragOK c o.noCompFrag img (bFents c o fl) (tailOf o (fl.getD k FEnt.nil)) ((bFrefs o fl).getD k none) := by
  have hlt : ∀ t ∈ bTails o fl, t.length < o.bs := by
    intro t ht
    obtain ⟨e, _, rfl⟩ := List.mem_map.1 ht
    unfold tailOf
    split
    · rw [tail_length]; exact Nat.mod_lt _ L.hbs
    · exact L.hbs
  have hk' : k < (bTails o fl).length := by simpa [bTails] using hk
  have R := fragRefs_resolve o.bs (bTails o fl) hlt [] [] k hk'
  have hget : (bTails o fl).getD k [] = tailOf o (fl.getD k FEnt.nil) := by
    unfold bTails; exact getD_map_of_lt _ _ k [] FEnt.nil hk
  rw [hget] at R
  simp only [List.length_nil] at R
  change RefOK _ _ ((bFrefs o fl).getD k none) at R
  generalize (bFrefs o fl).getD k none = fr at R
  cases fr with
  | none => exact R
  | some p =>
    obtain ⟨idx, fo⟩ := p
    by_cases ht : tailOf o (fl.getD k FEnt.nil) = []
    · exact Or.inl ht
    · right
      simp only [RefOK] at R
      have hidx : idx < (packFrags o.bs (bTails o fl) [] []).length := by
        apply Classical.byContradiction
        intro hn
        have : (packFrags o.bs (bTails o fl) [] []).getD idx [] = [] := by
          simp [List.getD_eq_getElem?_getD, List.getElem?_eq_none (Nat.le_of_not_lt hn)]
        rw [this] at R
        simp only [List.drop_nil, List.take_nil] at R
        exact ht R.symm
      have hlen : (bFstored c o fl).length = (packFrags o.bs (bTails o fl) [] []).length := by simp [bFstored]
      obtain ⟨fe, h1, h2⟩ := fragEnts_get img (bFstored c o fl) (bFragStart0 c o fl) D.frag idx (by omega)
      have h3 : (bFstored c o fl).getD idx ⟨false, []⟩ = storeBlock c o.noCompFrag ((packFrags o.bs (bTails o fl) [] []).getD idx []) := by
        unfold bFstored; exact getD_map_of_lt _ _ idx _ [] hidx
      refine ⟨?_, fe, _, h1, by rw [h2, h3], R⟩
      have := L.fragWF.2
      unfold bFents at this
      rw [fragEnts_length] at this
      omega

theorem content_ok (L : Limits c o fl fuel) (img : Dev) (D : OnDev c o fl fuel img) (k : Nat) (hk : k < fl.length) :
    fileBytes c img o.bs (bFents c o fl) ((bInodes c o fl fuel).getD k Inode.nil).body = some (bAttr fl k).data := by
  rw [bInodes_getD c o fl fuel k hk]
  simp only [mkInode, bAttr]
  by_cases h0 : (fl.getD k FEnt.nil).kind = 0
  · rw [if_pos h0]
    apply fileBytes_written c o L.hbs img _ _ h0
    · have := holdsAt_flatten_get img (bDataStart o) _ D.data k (by simpa using hk)
      unfold bDlocs
      rw [dataLocs_getD c o fl _ k hk]
      rw [getD_map_of_lt _ _ k [] FEnt.nil hk] at this
      exact this
    · exact frag_ok c o fl fuel L img D k hk
  · rw [if_neg h0]
    have hk2 := L.kinds k hk
    generalize fl.getD k FEnt.nil = e at h0 hk2 ⊢
    generalize (bDl o fl fuel).getD (idxIn k (bOrder fl fuel)) (0, 0, 0) = dd
    unfold mkBody
    by_cases h1 : e.kind = 1
    · by_cases hl : e.links > 0 <;> simp [h1, hl, fileBytes]
    · have h2 : e.kind = 2 := by omega
      simp [h2, fileBytes]

theorem ino_length (L : Limits c o fl fuel) (k : Nat) (hk : k < fl.length) :
    (encodeInode ((bInodes c o fl fuel).getD k Inode.nil)).length = entSize o (fl.getD k FEnt.nil) := by
  rw [bInodes_getD c o fl fuel k hk, mkInode_length c o _ _ _ (L.kinds k hk)]

theorem isDir_iff (L : Limits c o fl fuel) (k : Nat) (hk : k < fl.length) :
    (bTree c o fl fuel).isDir k = decide ((fl.getD k FEnt.nil).kind = 1) := by
  unfold STree.isDir bTree
  simp only
  rw [bInodes_getD c o fl fuel k hk]
  have hk2 := L.kinds k hk
  generalize fl.getD k FEnt.nil = e at hk2 ⊢
  simp only [mkInode]
  unfold mkBody
  by_cases h1 : e.kind = 1
  · by_cases hl : e.links > 0 <;> simp [h1, hl, listingRef]
  · by_cases h2 : e.kind = 2
    · simp [h2, listingRef]
    · by_cases hl : e.links > 0 <;> simp [h1, h2, hl, listingRef]

theorem img_shows (L : Limits c o fl fuel) (img : Dev) (D : OnDev c o fl fuel img) :
    ImgShows c img (bOpened c o fl fuel) (bTree c o fl fuel) (bAttr fl) := by
  refine ⟨?_, ?_, ?_, ?_, ?_, ?_, ?_⟩
  · intro d hd k hk
    exact L.closed d hd k hk
  · intro k hk
    have hk' : k < fl.length := hk
    obtain ⟨rest, hR, hpos⟩ := inode_reads c o fl fuel L img D k hk'
    refine ⟨rest, hR, ?_, ?_⟩
    · have := ask_le ((bTree c o fl fuel).ino k)
      rw [List.length_append, encodeInode_length]
      omega
    · rw [dent_eq c o fl fuel L k hk', List.length_append]
      have h1 := (typeSize_kindTyp o _ (L.kinds k hk')).2
      have h2 := ino_length c o fl fuel L k hk'
      change typeSize (kindTyp (fl.getD k FEnt.nil).kind) ≤ (encodeInode ((bInodes c o fl fuel).getD k Inode.nil)).length + rest.length
      omega
  · intro k hk
    have hk' : k < fl.length := hk
    exact L.inodeWF _ (getD_mem _ _ _ (by rw [bInodes_length]; exact hk'))
  · intro k hk
    have hk' : k < fl.length := hk
    rw [dent_eq c o fl fuel L k hk']
    exact ⟨L.entWF k hk', (typeSize_kindTyp o _ (L.kinds k hk')).1⟩
  · intro d hd sb off sz hl
    have hd' : d < fl.length := hd
    have hkids : ((bTree c o fl fuel).kids d).map (bTree c o fl fuel).dent = listingOf fl (bLrefs o fl) (bXl c o fl fuel) d := by
      unfold listingOf
      apply List.map_congr_left
      intro k hk
      exact dent_eq c o fl fuel L k (L.closed d hd' k hk)
    rw [hkids]
    have hiso := isDir_iff c o fl fuel L d hd'
    have hsome : (bTree c o fl fuel).isDir d = true := by
      unfold STree.isDir; rw [← dirAsk_isSome, hl]; rfl
    rw [hsome] at hiso
    have hdir : (fl.getD d FEnt.nil).kind = 1 := by simpa using hiso.symm
    obtain ⟨hdl, rest, hR, hr3⟩ := listing_reads c o fl fuel L img D d hd' hdir
    have hbody : dirAsk ((bTree c o fl fuel).ino d).body =
        some (0, dpos c o fl fuel (idxIn d (bOrder fl fuel)), (encodeListing 0 (listingOf fl (bLrefs o fl) (bXl c o fl fuel) d)).length + 3) := by
      change dirAsk ((bInodes c o fl fuel).getD d Inode.nil).body = _
      rw [bInodes_getD c o fl fuel d hd', hdl]
      simp only [mkInode]
      generalize fl.getD d FEnt.nil = e at hdir ⊢
      unfold mkBody
      by_cases hlk : e.links > 0 <;> simp [hdir, hlk, dirAsk]
    rw [hbody] at hl
    injection hl with hl
    injection hl with h1 hl
    injection hl with h2 h3
    subst h1 h2 h3
    exact ⟨rest, hR, rfl, hr3⟩
  · intro k hk
    have hk' : k < fl.length := hk
    have hm := mem_idTable fl _ (getD_mem fl k FEnt.nil hk')
    change (idTable fl)[((bInodes c o fl fuel).getD k Inode.nil).hdr.uid]? = _ ∧ (idTable fl)[((bInodes c o fl fuel).getD k Inode.nil).hdr.gid]? = _
    rw [bInodes_getD c o fl fuel k hk']
    exact ⟨(idxIn_spec _ _ hm.1).2, (idxIn_spec _ _ hm.2).2⟩
  · intro k hk
    exact content_ok c o fl fuel L img D k hk

theorem flatMap_congr' {α β : Type} (f g : α → List β) : ∀ l : List α, (∀ x ∈ l, f x = g x) → l.flatMap f = l.flatMap g := by
  intro l
  induction l with
  | nil => intro _; rfl
  | cons x r ih =>
    intro h
    simp only [List.flatMap_cons]
    rw [h x (List.mem_cons_self ..), ih (fun y hy => h y (List.mem_cons_of_mem _ hy))]

theorem walk_eq (L : Limits c o fl fuel) : ∀ (f : Nat) (pre : List Bytes) (d : Nat), d < fl.length →
    (bTree c o fl fuel).walkS (bAttr fl) f pre d = expectWalk fl (bInodes c o fl fuel) f pre d := by
  intro f
  induction f with
  | zero => intro pre d _; rfl
  | succ f ih =>
    intro pre d hd
    simp only [STree.walkS, expectWalk]
    apply flatMap_congr'
    intro ch hch
    have hc : ch < fl.length := L.closed d hd ch hch
    rw [isDir_iff c o fl fuel L ch hc, ih _ ch hc]
    by_cases h1 : (fl.getD ch FEnt.nil).kind = 1 <;> simp [h1, STree.sent, bTree, bAttr]

/-- **writer ∘ reader = id on the bytes.** -/
theorem image_round_trip (L : Limits c o fl fuel) (hroot : (fl.getD 0 FEnt.nil).kind = 1) (img : Dev)
    (h : HoldsAt img 0 (bImage c o fl fuel)) (f : Nat) (hfit : (bTree c o fl fuel).Fits f 0) :
    readImageS c img f = some (bSB c o fl fuel, expectWalk fl (bInodes c o fl fuel) f [] 0) := by
  have D := onDev_of_image c o fl fuel img h
  have hs := img_shows c o fl fuel L img D
  have hsbw := L.sbWF
  -- superblock
  have hsb : decodeSB (readAt img 0 96) = some (bSB c o fl fuel) := by
    have := D.sb
    unfold HoldsAt at this
    rw [encodeSB_length] at this
    rw [this]
    exact decode_encodeSB _ L.sbWF
  -- fragment table
  have hfr : readFragTable c img (bSB c o fl fuel).fragStart (bSB c o fl fuel).fragCount = some (bFents c o fl) :=
    readFragTable_written c o.noCompData img (bFLoc c o fl fuel) (bFragIdx c o fl fuel) (bFents c o fl) (fun e he => L.fragWF.1 e he) D.ftab D.fidx
      (by have : (bSB c o fl fuel).fragStart < 2 ^ 64 := hsbw.2.2.2.2.2.2.2.2.2.2.2.2.2.1
          exact this)
  -- id table
  have hid : readIdTable c img (bSB c o fl fuel).idStart (bSB c o fl fuel).idCount = idTable fl :=
    readIdTable_written c o.noCompData img (bIdLoc c o fl fuel) (bIdStart c o fl fuel) (idTable fl) L.idsWF.1 D.idtab D.ididx
      (by have : (bSB c o fl fuel).idStart < 2 ^ 64 := hsbw.2.2.2.2.2.2.2.2.2.1
          exact this)
  -- root inode
  have hr2 : ((bRefs c o fl fuel).getD 0 (0, 0)).2 < 65536 := by
    rw [bRefs_getD c o fl fuel L 0 L.n0]
    have : ipos c o fl fuel 0 % metaBlock < metaBlock := Nat.mod_lt _ (by decide)
    simp only [metaBlock] at this ⊢
    omega
  have hroot1 : (bSB c o fl fuel).rootInode / 65536 = ((bRefs c o fl fuel).getD 0 (0, 0)).1 := by
    change (((bRefs c o fl fuel).getD 0 (0, 0)).1 * 65536 + ((bRefs c o fl fuel).getD 0 (0, 0)).2) / 65536 = _
    omega
  have hroot2 : (bSB c o fl fuel).rootInode % 65536 = ((bRefs c o fl fuel).getD 0 (0, 0)).2 := by
    change (((bRefs c o fl fuel).getD 0 (0, 0)).1 * 65536 + ((bRefs c o fl fuel).getD 0 (0, 0)).2) % 65536 = _
    omega
  have hri : getInodeM c img (bSB c o fl fuel).inodeStart (bSB c o fl fuel).blocksize ((bSB c o fl fuel).rootInode / 65536)
      ((bSB c o fl fuel).rootInode % 65536) 1 = some ((bInodes c o fl fuel).getD 0 Inode.nil) := by
    rw [hroot1, hroot2]
    obtain ⟨rest, hR, hpos⟩ := inode_reads c o fl fuel L img D 0 L.n0
    have hlen := ino_length c o fl fuel L 0 L.n0
    have hsz : 32 ≤ entSize o (fl.getD 0 FEnt.nil) := by
      unfold entSize; simp only [hroot, if_true]; split <;> omega
    have ht1 : typeSize 1 = 32 := by decide
    exact getInodeM_spec c img _ _ _ _ 1 _ rest (L.inodeWF _ (getD_mem _ _ _ (by rw [bInodes_length]; exact L.n0))) (by decide)
      (by rw [List.length_append, hlen, ht1]; omega)
      (by have := ask_le ((bInodes c o fl fuel).getD 0 Inode.nil)
          rw [List.length_append, encodeInode_length]; omega) hR
  have hopen : openImage c img = some (bSB c o fl fuel, bOpened c o fl fuel, (bInodes c o fl fuel).getD 0 Inode.nil) := by
    unfold openImage
    rw [hsb]
    simp only
    rw [hfr]
    simp only
    rw [hid, hri]
    rfl
  have hdir0 : (bTree c o fl fuel).isDir 0 = true := by rw [isDir_iff c o fl fuel L 0 L.n0, hroot]; rfl
  have hw := imgWalk_walk c img (bOpened c o fl fuel) (bTree c o fl fuel) (bAttr fl) hs f [] 0 L.n0 hdir0 hfit
  unfold readImageS
  rw [hopen]
  simp only
  change (imgWalk c img (bOpened c o fl fuel) f [] ((bTree c o fl fuel).ino 0)).map _ = _
  rw [hw, walk_eq c o fl fuel L f [] 0 L.n0]
  rfl

theorem limits_of_check (h : limitsB c o fl fuel = true) : Limits c o fl fuel := by
  simp only [limitsB, Bool.and_eq_true, decide_eq_true_eq] at h
  obtain ⟨⟨⟨⟨⟨⟨⟨⟨⟨⟨⟨h1, h2⟩, h3⟩, h4⟩, h5⟩, h6⟩, h7⟩, h8⟩, h9⟩, h10⟩, h11⟩, h12⟩ := h
  exact ⟨h1, h2, h3, h4, h5, h6, h7, h8, h9, h10, h11, h12⟩

theorem fits_of_check (L : Limits c o fl fuel) : ∀ (f d : Nat), d < fl.length → fitsB fl f d = true → (bTree c o fl fuel).Fits f d := by
  intro f
  induction f with
  | zero => intro d _ h; simp [fitsB] at h
  | succ f ih =>
    intro d hd h ch hch hdir
    have hc : ch < fl.length := L.closed d hd ch hch
    simp only [fitsB, List.all_eq_true] at h
    have := h ch hch
    rw [isDir_iff c o fl fuel L ch hc] at hdir
    have hk : (fl.getD ch FEnt.nil).kind = 1 := by simpa using hdir
    simp only [hk, bne_self_eq_false, Bool.false_or] at this
    exact ih ch hc this

end roundtrip2
end Diskfs.Sqfs
