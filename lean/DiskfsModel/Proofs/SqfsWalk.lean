import DiskfsModel.Model.Sqfs.Walk
import DiskfsModel.Proofs.SqfsInode
namespace Diskfs.Sqfs

theorem encodeDEnt_length_pos (base : Nat) (e : DEnt) : 0 < (encodeDEnt base e).length := by
  simp [encodeDEnt]; omega

theorem flatten_length_ge (l : List Bytes) (h : ∀ b ∈ l, 0 < b.length) : l.length ≤ l.flatten.length := by
  induction l with
  | nil => simp
  | cons b r ih =>
    have h0 := h b (List.mem_cons_self ..)
    have := ih (fun x hx => h x (List.mem_cons_of_mem _ hx))
    simp only [List.flatten_cons, List.length_append, List.length_cons]
    omega

/-- a listing is at least as long as it has entries -/
theorem encodeDir_length_ge (base : Nat) : ∀ (fe : Nat) (es : List DEnt), es.length ≤ fe →
    es.length ≤ (encodeDir base fe es).length := by
  intro fe
  induction fe with
  | zero => intro es h; have : es = [] := List.length_eq_zero_iff.1 (by omega); subst this; simp
  | succ fe ih =>
    intro es h
    cases es with
    | nil => simp
    | cons e r =>
      obtain ⟨_, gpre, _⟩ := takeGroup_spec e.startBlock maxDirEntries (e :: r)
      have gpos : 0 < (takeGroup e.startBlock maxDirEntries (e :: r)).length := takeGroup_head e r 255
      simp only [encodeDir, List.length_append, leEnc_length]
      generalize takeGroup e.startBlock maxDirEntries (e :: r) = g at gpre gpos
      have hrest := ih ((e :: r).drop g.length) (by simp only [List.length_drop, List.length_cons] at *; omega)
      have hg : g.length ≤ ((g.map (encodeDEnt base)).flatten).length := by
        have := flatten_length_ge (g.map (encodeDEnt base)) (by
          intro b hb
          obtain ⟨x, _, rfl⟩ := List.mem_map.1 hb
          exact encodeDEnt_length_pos base x)
        simpa using this
      have hsplit : (e :: r).length = g.length + ((e :: r).drop g.length).length := by
        conv => lhs; rw [← gpre]
        simp
      omega

theorem map_dent_wf (t : STree) (env : WalkEnv) (hs : Shows env t) (d : Nat) (hd : d < t.n) :
    ∀ e ∈ (t.kids d).map t.dent, e.WF 0 := by
  intro e he
  obtain ⟨c, hc, rfl⟩ := List.mem_map.1 he
  exact hs.entWF c (hs.closed d hd c hc)

/-- **the reader walks the tree**: on streams that show the tree, reading below a directory's inode
    returns exactly the depth-first listing of paths and inodes -/
theorem sqWalk_walk (env : WalkEnv) (t : STree) (hs : Shows env t) :
    ∀ (fuel : Nat) (pre : List Bytes) (d : Nat), d < t.n → t.isDir d = true → t.Fits fuel d →
      sqWalk env fuel pre (t.ino d) = some (t.walk fuel pre d) := by
  intro fuel
  induction fuel with
  | zero => intro pre d _ _ hf; exact hf.elim
  | succ fuel ih =>
    intro pre d hd hdir hfit
    have kidsLemma : ∀ ks : List Nat, (∀ c ∈ ks, c ∈ t.kids d) →
        walkEnts env (fun p i => sqWalk env fuel p i) pre (ks.map t.dent) =
          some (ks.flatMap fun c => (pre ++ [t.name c], t.ino c) :: (if t.isDir c then t.walk fuel (pre ++ [t.name c]) c else [])) := by
      intro ks
      induction ks with
      | nil => intro _; rfl
      | cons c ks ihk =>
        intro hsub
        have hck : c ∈ t.kids d := hsub c (List.mem_cons_self ..)
        have hcn : c < t.n := hs.closed d hd c hck
        have hrest := ihk (fun x hx => hsub x (List.mem_cons_of_mem _ hx))
        obtain ⟨rest, hI⟩ := hs.inode c hcn
        have hdec : decodeInode env.bs (env.I.drop (env.ipos (t.dent c).startBlock (t.dent c).offset)) = some (t.ino c, rest) := by
          simp only [STree.dent]
          rw [hI]
          exact decode_encodeInode env.bs (t.ino c) rest (hs.inodeWF c hcn)
        simp only [List.map_cons, walkEnts, hdec, hrest, List.flatMap_cons]
        cases hcd : t.isDir c with
        | true =>
          have hsubdir := ih (pre ++ [t.name c]) c hcn hcd (hfit c hck hcd)
          have : (listingRef (t.ino c).body).isSome = true := hcd
          simp [this, STree.dent, hsubdir]
        | false =>
          have : (listingRef (t.ino c).body).isSome = false := hcd
          simp [this, STree.dent]
    have hsome : (listingRef (t.ino d).body).isSome = true := hdir
    obtain ⟨⟨sb, off, sz⟩, hl⟩ := Option.isSome_iff_exists.1 hsome
    obtain ⟨hbytes, hsz⟩ := hs.listing d hd sb off sz hl
    have hwf := map_dent_wf t env hs d hd
    have hlen : ((t.kids d).map t.dent).length ≤ sz := by
      rw [hsz]; exact encodeDir_length_ge 0 _ _ (Nat.le_refl _)
    have hdecdir : decodeDir (sz + 1) ((env.D.drop (env.dpos sb off)).take sz) = some ((t.kids d).map t.dent) := by
      rw [hbytes]
      exact decode_encodeDir 0 (by decide) _ _ (sz + 1) (Nat.le_refl _) (by omega) hwf
    rw [sqWalk, hl]
    simp only [hdecdir]
    rw [kidsLemma (t.kids d) (fun c hc => hc)]
    rfl

end Diskfs.Sqfs
