/-
  C20 helper lemmas: the inode codec for ALL fields of the 160 fixed bytes — the record of a set of decoded
  numbers (`encFull`: every word at its offset, both halves of the split fields, the 34-bit timestamps) decodes
  back to those numbers through the mirror of inodeFromBytes (`full_roundtrip`).
-/
import DiskfsModel.Proofs.Ext4InodeDecode
import DiskfsModel.Proofs.Ext4Xattr
import DiskfsModel.Proofs.MetaInodeBytes
namespace Diskfs.Ext4.InodeDec
open Diskfs Diskfs.Ext4.Reader Diskfs.Ext4.InodeCodec Diskfs.Ext4.Spec

/-- the words in front of i_block, in record order (width, value) -/
def fieldsA (g : GoInode) : List (Nat × Nat) :=
  [(2, g.mode), (2, g.uid % 65536), (4, g.size % 4294967296), (4, tsLo g.atime), (4, tsLo g.ctime),
   (4, tsLo g.mtime), (4, g.dtime), (2, g.gid % 65536), (2, g.links), (4, g.blocks % 4294967296), (4, g.flags),
   (4, g.version % 4294967296)]

/-- the words behind i_block up to the end of the fixed extra fields (0xa0); `csumLo`, `csumHi`, `obso`, `rsv`
    are the words the decoder does not interpret -/
def fieldsB (g : GoInode) (csumLo csumHi obso rsv : Nat) : List (Nat × Nat) :=
  [(4, g.gen), (4, g.fileAcl % 4294967296), (4, g.size / 4294967296), (4, obso), (2, g.blocks / 4294967296),
   (2, g.fileAcl / 4294967296), (2, g.uid / 65536), (2, g.gid / 65536), (2, csumLo), (2, rsv), (2, g.extra),
   (2, csumHi), (4, tsExtra g.ctime), (4, tsExtra g.mtime), (4, tsExtra g.atime), (4, tsLo g.crtime),
   (4, tsExtra g.crtime), (4, g.version / 4294967296), (4, g.project)]

/-- the inode record of the decoded numbers `g`: every field of the 160 bytes at its place, `tail` behind -/
def encFull (g : GoInode) (csumLo csumHi obso rsv : Nat) (tail : Bytes) : Bytes :=
  encFields (fieldsA g) ++ g.iblock ++ (encFields (fieldsB g csumLo csumHi obso rsv) ++ tail)

def FullWF (g : GoInode) : Prop :=
  g.mode < 65536 ∧ g.uid < 4294967296 ∧ g.gid < 4294967296 ∧ g.size < 18446744073709551616 ∧ g.links < 65536 ∧
  g.flags < 4294967296 ∧ g.blocks < 281474976710656 ∧ g.gen < 4294967296 ∧ g.fileAcl < 281474976710656 ∧
  g.version < 18446744073709551616 ∧ g.extra < 65536 ∧ g.dtime < 4294967296 ∧ g.project < 4294967296 ∧
  TsWF g.atime ∧ TsWF g.ctime ∧ TsWF g.mtime ∧ TsWF g.crtime ∧ g.iblock.length = 60 ∧
  g.fsBlocks = hasBit g.flags 0x40000

theorem encFull_length (g : GoInode) (cl ch ob rs : Nat) (tail : Bytes) (h : g.iblock.length = 60) :
    (encFull g cl ch ob rs tail).length = 160 + tail.length := by
  simp [encFull, encFields_length, fieldsA, fieldsB, h]; omega


theorem rd_mode (g : GoInode) (cl ch ob rs : Nat) (tail : Bytes) :
    le16 (encFull g cl ch ob rs tail) 0 = (g.mode) % 65536 := by
  have hrawA : encFull g cl ch ob rs tail = encFields (fieldsA g) ++ (g.iblock ++ (encFields (fieldsB g cl ch ob rs) ++ tail)) := by
    simp [encFull, List.append_assoc]
  rw [hrawA]; exact le16_field (fieldsA g) 0 _ 0 (by simp [fieldsA]) rfl rfl

theorem rd_uidLo (g : GoInode) (cl ch ob rs : Nat) (tail : Bytes) :
    le16 (encFull g cl ch ob rs tail) 2 = (g.uid % 65536) % 65536 := by
  have hrawA : encFull g cl ch ob rs tail = encFields (fieldsA g) ++ (g.iblock ++ (encFields (fieldsB g cl ch ob rs) ++ tail)) := by
    simp [encFull, List.append_assoc]
  rw [hrawA]; exact le16_field (fieldsA g) 1 _ 2 (by simp [fieldsA]) rfl rfl

theorem rd_sizeLo (g : GoInode) (cl ch ob rs : Nat) (tail : Bytes) :
    le32 (encFull g cl ch ob rs tail) 4 = (g.size % 4294967296) % 4294967296 := by
  have hrawA : encFull g cl ch ob rs tail = encFields (fieldsA g) ++ (g.iblock ++ (encFields (fieldsB g cl ch ob rs) ++ tail)) := by
    simp [encFull, List.append_assoc]
  rw [hrawA]; exact le32_field (fieldsA g) 2 _ 4 (by simp [fieldsA]) rfl rfl

theorem rd_atime (g : GoInode) (cl ch ob rs : Nat) (tail : Bytes) :
    le32 (encFull g cl ch ob rs tail) 8 = (tsLo g.atime) % 4294967296 := by
  have hrawA : encFull g cl ch ob rs tail = encFields (fieldsA g) ++ (g.iblock ++ (encFields (fieldsB g cl ch ob rs) ++ tail)) := by
    simp [encFull, List.append_assoc]
  rw [hrawA]; exact le32_field (fieldsA g) 3 _ 8 (by simp [fieldsA]) rfl rfl

theorem rd_ctime (g : GoInode) (cl ch ob rs : Nat) (tail : Bytes) :
    le32 (encFull g cl ch ob rs tail) 12 = (tsLo g.ctime) % 4294967296 := by
  have hrawA : encFull g cl ch ob rs tail = encFields (fieldsA g) ++ (g.iblock ++ (encFields (fieldsB g cl ch ob rs) ++ tail)) := by
    simp [encFull, List.append_assoc]
  rw [hrawA]; exact le32_field (fieldsA g) 4 _ 12 (by simp [fieldsA]) rfl rfl

theorem rd_mtime (g : GoInode) (cl ch ob rs : Nat) (tail : Bytes) :
    le32 (encFull g cl ch ob rs tail) 16 = (tsLo g.mtime) % 4294967296 := by
  have hrawA : encFull g cl ch ob rs tail = encFields (fieldsA g) ++ (g.iblock ++ (encFields (fieldsB g cl ch ob rs) ++ tail)) := by
    simp [encFull, List.append_assoc]
  rw [hrawA]; exact le32_field (fieldsA g) 5 _ 16 (by simp [fieldsA]) rfl rfl

theorem rd_dtime (g : GoInode) (cl ch ob rs : Nat) (tail : Bytes) :
    le32 (encFull g cl ch ob rs tail) 20 = (g.dtime) % 4294967296 := by
  have hrawA : encFull g cl ch ob rs tail = encFields (fieldsA g) ++ (g.iblock ++ (encFields (fieldsB g cl ch ob rs) ++ tail)) := by
    simp [encFull, List.append_assoc]
  rw [hrawA]; exact le32_field (fieldsA g) 6 _ 20 (by simp [fieldsA]) rfl rfl

theorem rd_gidLo (g : GoInode) (cl ch ob rs : Nat) (tail : Bytes) :
    le16 (encFull g cl ch ob rs tail) 24 = (g.gid % 65536) % 65536 := by
  have hrawA : encFull g cl ch ob rs tail = encFields (fieldsA g) ++ (g.iblock ++ (encFields (fieldsB g cl ch ob rs) ++ tail)) := by
    simp [encFull, List.append_assoc]
  rw [hrawA]; exact le16_field (fieldsA g) 7 _ 24 (by simp [fieldsA]) rfl rfl

theorem rd_links (g : GoInode) (cl ch ob rs : Nat) (tail : Bytes) :
    le16 (encFull g cl ch ob rs tail) 26 = (g.links) % 65536 := by
  have hrawA : encFull g cl ch ob rs tail = encFields (fieldsA g) ++ (g.iblock ++ (encFields (fieldsB g cl ch ob rs) ++ tail)) := by
    simp [encFull, List.append_assoc]
  rw [hrawA]; exact le16_field (fieldsA g) 8 _ 26 (by simp [fieldsA]) rfl rfl

theorem rd_blocksLo (g : GoInode) (cl ch ob rs : Nat) (tail : Bytes) :
    le32 (encFull g cl ch ob rs tail) 28 = (g.blocks % 4294967296) % 4294967296 := by
  have hrawA : encFull g cl ch ob rs tail = encFields (fieldsA g) ++ (g.iblock ++ (encFields (fieldsB g cl ch ob rs) ++ tail)) := by
    simp [encFull, List.append_assoc]
  rw [hrawA]; exact le32_field (fieldsA g) 9 _ 28 (by simp [fieldsA]) rfl rfl

theorem rd_flags (g : GoInode) (cl ch ob rs : Nat) (tail : Bytes) :
    le32 (encFull g cl ch ob rs tail) 32 = (g.flags) % 4294967296 := by
  have hrawA : encFull g cl ch ob rs tail = encFields (fieldsA g) ++ (g.iblock ++ (encFields (fieldsB g cl ch ob rs) ++ tail)) := by
    simp [encFull, List.append_assoc]
  rw [hrawA]; exact le32_field (fieldsA g) 10 _ 32 (by simp [fieldsA]) rfl rfl

theorem rd_verLo (g : GoInode) (cl ch ob rs : Nat) (tail : Bytes) :
    le32 (encFull g cl ch ob rs tail) 36 = (g.version % 4294967296) % 4294967296 := by
  have hrawA : encFull g cl ch ob rs tail = encFields (fieldsA g) ++ (g.iblock ++ (encFields (fieldsB g cl ch ob rs) ++ tail)) := by
    simp [encFull, List.append_assoc]
  rw [hrawA]; exact le32_field (fieldsA g) 11 _ 36 (by simp [fieldsA]) rfl rfl

theorem rd_gen (g : GoInode) (cl ch ob rs : Nat) (tail : Bytes) (hib : g.iblock.length = 60) :
    le32 (encFull g cl ch ob rs tail) 100 = (g.gen) % 4294967296 := by
  have hpre : (encFields (fieldsA g) ++ g.iblock).length = 100 := by
    simp [encFields_length, fieldsA, hib]
  have hrawB : encFull g cl ch ob rs tail = (encFields (fieldsA g) ++ g.iblock) ++ (encFields (fieldsB g cl ch ob rs) ++ tail) := by
    simp [encFull, List.append_assoc]
  rw [hrawB, show 100 = (encFields (fieldsA g) ++ g.iblock).length + 0 by rw [hpre], le32_shift]
  exact le32_field (fieldsB g cl ch ob rs) 0 tail 0 (by simp [fieldsB]) rfl rfl

theorem rd_aclLo (g : GoInode) (cl ch ob rs : Nat) (tail : Bytes) (hib : g.iblock.length = 60) :
    le32 (encFull g cl ch ob rs tail) 104 = (g.fileAcl % 4294967296) % 4294967296 := by
  have hpre : (encFields (fieldsA g) ++ g.iblock).length = 100 := by
    simp [encFields_length, fieldsA, hib]
  have hrawB : encFull g cl ch ob rs tail = (encFields (fieldsA g) ++ g.iblock) ++ (encFields (fieldsB g cl ch ob rs) ++ tail) := by
    simp [encFull, List.append_assoc]
  rw [hrawB, show 104 = (encFields (fieldsA g) ++ g.iblock).length + 4 by rw [hpre], le32_shift]
  exact le32_field (fieldsB g cl ch ob rs) 1 tail 4 (by simp [fieldsB]) rfl rfl

theorem rd_sizeHi (g : GoInode) (cl ch ob rs : Nat) (tail : Bytes) (hib : g.iblock.length = 60) :
    le32 (encFull g cl ch ob rs tail) 108 = (g.size / 4294967296) % 4294967296 := by
  have hpre : (encFields (fieldsA g) ++ g.iblock).length = 100 := by
    simp [encFields_length, fieldsA, hib]
  have hrawB : encFull g cl ch ob rs tail = (encFields (fieldsA g) ++ g.iblock) ++ (encFields (fieldsB g cl ch ob rs) ++ tail) := by
    simp [encFull, List.append_assoc]
  rw [hrawB, show 108 = (encFields (fieldsA g) ++ g.iblock).length + 8 by rw [hpre], le32_shift]
  exact le32_field (fieldsB g cl ch ob rs) 2 tail 8 (by simp [fieldsB]) rfl rfl

theorem rd_obso (g : GoInode) (cl ch ob rs : Nat) (tail : Bytes) (hib : g.iblock.length = 60) :
    le32 (encFull g cl ch ob rs tail) 112 = (ob) % 4294967296 := by
  have hpre : (encFields (fieldsA g) ++ g.iblock).length = 100 := by
    simp [encFields_length, fieldsA, hib]
  have hrawB : encFull g cl ch ob rs tail = (encFields (fieldsA g) ++ g.iblock) ++ (encFields (fieldsB g cl ch ob rs) ++ tail) := by
    simp [encFull, List.append_assoc]
  rw [hrawB, show 112 = (encFields (fieldsA g) ++ g.iblock).length + 12 by rw [hpre], le32_shift]
  exact le32_field (fieldsB g cl ch ob rs) 3 tail 12 (by simp [fieldsB]) rfl rfl

theorem rd_blocksHi (g : GoInode) (cl ch ob rs : Nat) (tail : Bytes) (hib : g.iblock.length = 60) :
    le16 (encFull g cl ch ob rs tail) 116 = (g.blocks / 4294967296) % 65536 := by
  have hpre : (encFields (fieldsA g) ++ g.iblock).length = 100 := by
    simp [encFields_length, fieldsA, hib]
  have hrawB : encFull g cl ch ob rs tail = (encFields (fieldsA g) ++ g.iblock) ++ (encFields (fieldsB g cl ch ob rs) ++ tail) := by
    simp [encFull, List.append_assoc]
  rw [hrawB, show 116 = (encFields (fieldsA g) ++ g.iblock).length + 16 by rw [hpre], le16_shift]
  exact le16_field (fieldsB g cl ch ob rs) 4 tail 16 (by simp [fieldsB]) rfl rfl

theorem rd_aclHi (g : GoInode) (cl ch ob rs : Nat) (tail : Bytes) (hib : g.iblock.length = 60) :
    le16 (encFull g cl ch ob rs tail) 118 = (g.fileAcl / 4294967296) % 65536 := by
  have hpre : (encFields (fieldsA g) ++ g.iblock).length = 100 := by
    simp [encFields_length, fieldsA, hib]
  have hrawB : encFull g cl ch ob rs tail = (encFields (fieldsA g) ++ g.iblock) ++ (encFields (fieldsB g cl ch ob rs) ++ tail) := by
    simp [encFull, List.append_assoc]
  rw [hrawB, show 118 = (encFields (fieldsA g) ++ g.iblock).length + 18 by rw [hpre], le16_shift]
  exact le16_field (fieldsB g cl ch ob rs) 5 tail 18 (by simp [fieldsB]) rfl rfl

theorem rd_uidHi (g : GoInode) (cl ch ob rs : Nat) (tail : Bytes) (hib : g.iblock.length = 60) :
    le16 (encFull g cl ch ob rs tail) 120 = (g.uid / 65536) % 65536 := by
  have hpre : (encFields (fieldsA g) ++ g.iblock).length = 100 := by
    simp [encFields_length, fieldsA, hib]
  have hrawB : encFull g cl ch ob rs tail = (encFields (fieldsA g) ++ g.iblock) ++ (encFields (fieldsB g cl ch ob rs) ++ tail) := by
    simp [encFull, List.append_assoc]
  rw [hrawB, show 120 = (encFields (fieldsA g) ++ g.iblock).length + 20 by rw [hpre], le16_shift]
  exact le16_field (fieldsB g cl ch ob rs) 6 tail 20 (by simp [fieldsB]) rfl rfl

theorem rd_gidHi (g : GoInode) (cl ch ob rs : Nat) (tail : Bytes) (hib : g.iblock.length = 60) :
    le16 (encFull g cl ch ob rs tail) 122 = (g.gid / 65536) % 65536 := by
  have hpre : (encFields (fieldsA g) ++ g.iblock).length = 100 := by
    simp [encFields_length, fieldsA, hib]
  have hrawB : encFull g cl ch ob rs tail = (encFields (fieldsA g) ++ g.iblock) ++ (encFields (fieldsB g cl ch ob rs) ++ tail) := by
    simp [encFull, List.append_assoc]
  rw [hrawB, show 122 = (encFields (fieldsA g) ++ g.iblock).length + 22 by rw [hpre], le16_shift]
  exact le16_field (fieldsB g cl ch ob rs) 7 tail 22 (by simp [fieldsB]) rfl rfl

theorem rd_csumLo (g : GoInode) (cl ch ob rs : Nat) (tail : Bytes) (hib : g.iblock.length = 60) :
    le16 (encFull g cl ch ob rs tail) 124 = (cl) % 65536 := by
  have hpre : (encFields (fieldsA g) ++ g.iblock).length = 100 := by
    simp [encFields_length, fieldsA, hib]
  have hrawB : encFull g cl ch ob rs tail = (encFields (fieldsA g) ++ g.iblock) ++ (encFields (fieldsB g cl ch ob rs) ++ tail) := by
    simp [encFull, List.append_assoc]
  rw [hrawB, show 124 = (encFields (fieldsA g) ++ g.iblock).length + 24 by rw [hpre], le16_shift]
  exact le16_field (fieldsB g cl ch ob rs) 8 tail 24 (by simp [fieldsB]) rfl rfl

theorem rd_rsv (g : GoInode) (cl ch ob rs : Nat) (tail : Bytes) (hib : g.iblock.length = 60) :
    le16 (encFull g cl ch ob rs tail) 126 = (rs) % 65536 := by
  have hpre : (encFields (fieldsA g) ++ g.iblock).length = 100 := by
    simp [encFields_length, fieldsA, hib]
  have hrawB : encFull g cl ch ob rs tail = (encFields (fieldsA g) ++ g.iblock) ++ (encFields (fieldsB g cl ch ob rs) ++ tail) := by
    simp [encFull, List.append_assoc]
  rw [hrawB, show 126 = (encFields (fieldsA g) ++ g.iblock).length + 26 by rw [hpre], le16_shift]
  exact le16_field (fieldsB g cl ch ob rs) 9 tail 26 (by simp [fieldsB]) rfl rfl

theorem rd_extra (g : GoInode) (cl ch ob rs : Nat) (tail : Bytes) (hib : g.iblock.length = 60) :
    le16 (encFull g cl ch ob rs tail) 128 = (g.extra) % 65536 := by
  have hpre : (encFields (fieldsA g) ++ g.iblock).length = 100 := by
    simp [encFields_length, fieldsA, hib]
  have hrawB : encFull g cl ch ob rs tail = (encFields (fieldsA g) ++ g.iblock) ++ (encFields (fieldsB g cl ch ob rs) ++ tail) := by
    simp [encFull, List.append_assoc]
  rw [hrawB, show 128 = (encFields (fieldsA g) ++ g.iblock).length + 28 by rw [hpre], le16_shift]
  exact le16_field (fieldsB g cl ch ob rs) 10 tail 28 (by simp [fieldsB]) rfl rfl

theorem rd_csumHi (g : GoInode) (cl ch ob rs : Nat) (tail : Bytes) (hib : g.iblock.length = 60) :
    le16 (encFull g cl ch ob rs tail) 130 = (ch) % 65536 := by
  have hpre : (encFields (fieldsA g) ++ g.iblock).length = 100 := by
    simp [encFields_length, fieldsA, hib]
  have hrawB : encFull g cl ch ob rs tail = (encFields (fieldsA g) ++ g.iblock) ++ (encFields (fieldsB g cl ch ob rs) ++ tail) := by
    simp [encFull, List.append_assoc]
  rw [hrawB, show 130 = (encFields (fieldsA g) ++ g.iblock).length + 30 by rw [hpre], le16_shift]
  exact le16_field (fieldsB g cl ch ob rs) 11 tail 30 (by simp [fieldsB]) rfl rfl

theorem rd_ctimeX (g : GoInode) (cl ch ob rs : Nat) (tail : Bytes) (hib : g.iblock.length = 60) :
    le32 (encFull g cl ch ob rs tail) 132 = (tsExtra g.ctime) % 4294967296 := by
  have hpre : (encFields (fieldsA g) ++ g.iblock).length = 100 := by
    simp [encFields_length, fieldsA, hib]
  have hrawB : encFull g cl ch ob rs tail = (encFields (fieldsA g) ++ g.iblock) ++ (encFields (fieldsB g cl ch ob rs) ++ tail) := by
    simp [encFull, List.append_assoc]
  rw [hrawB, show 132 = (encFields (fieldsA g) ++ g.iblock).length + 32 by rw [hpre], le32_shift]
  exact le32_field (fieldsB g cl ch ob rs) 12 tail 32 (by simp [fieldsB]) rfl rfl

theorem rd_mtimeX (g : GoInode) (cl ch ob rs : Nat) (tail : Bytes) (hib : g.iblock.length = 60) :
    le32 (encFull g cl ch ob rs tail) 136 = (tsExtra g.mtime) % 4294967296 := by
  have hpre : (encFields (fieldsA g) ++ g.iblock).length = 100 := by
    simp [encFields_length, fieldsA, hib]
  have hrawB : encFull g cl ch ob rs tail = (encFields (fieldsA g) ++ g.iblock) ++ (encFields (fieldsB g cl ch ob rs) ++ tail) := by
    simp [encFull, List.append_assoc]
  rw [hrawB, show 136 = (encFields (fieldsA g) ++ g.iblock).length + 36 by rw [hpre], le32_shift]
  exact le32_field (fieldsB g cl ch ob rs) 13 tail 36 (by simp [fieldsB]) rfl rfl

theorem rd_atimeX (g : GoInode) (cl ch ob rs : Nat) (tail : Bytes) (hib : g.iblock.length = 60) :
    le32 (encFull g cl ch ob rs tail) 140 = (tsExtra g.atime) % 4294967296 := by
  have hpre : (encFields (fieldsA g) ++ g.iblock).length = 100 := by
    simp [encFields_length, fieldsA, hib]
  have hrawB : encFull g cl ch ob rs tail = (encFields (fieldsA g) ++ g.iblock) ++ (encFields (fieldsB g cl ch ob rs) ++ tail) := by
    simp [encFull, List.append_assoc]
  rw [hrawB, show 140 = (encFields (fieldsA g) ++ g.iblock).length + 40 by rw [hpre], le32_shift]
  exact le32_field (fieldsB g cl ch ob rs) 14 tail 40 (by simp [fieldsB]) rfl rfl

theorem rd_crtime (g : GoInode) (cl ch ob rs : Nat) (tail : Bytes) (hib : g.iblock.length = 60) :
    le32 (encFull g cl ch ob rs tail) 144 = (tsLo g.crtime) % 4294967296 := by
  have hpre : (encFields (fieldsA g) ++ g.iblock).length = 100 := by
    simp [encFields_length, fieldsA, hib]
  have hrawB : encFull g cl ch ob rs tail = (encFields (fieldsA g) ++ g.iblock) ++ (encFields (fieldsB g cl ch ob rs) ++ tail) := by
    simp [encFull, List.append_assoc]
  rw [hrawB, show 144 = (encFields (fieldsA g) ++ g.iblock).length + 44 by rw [hpre], le32_shift]
  exact le32_field (fieldsB g cl ch ob rs) 15 tail 44 (by simp [fieldsB]) (by simp [fieldsB]) (by simp [fieldsB, fieldOff])

theorem rd_crtimeX (g : GoInode) (cl ch ob rs : Nat) (tail : Bytes) (hib : g.iblock.length = 60) :
    le32 (encFull g cl ch ob rs tail) 148 = (tsExtra g.crtime) % 4294967296 := by
  have hpre : (encFields (fieldsA g) ++ g.iblock).length = 100 := by
    simp [encFields_length, fieldsA, hib]
  have hrawB : encFull g cl ch ob rs tail = (encFields (fieldsA g) ++ g.iblock) ++ (encFields (fieldsB g cl ch ob rs) ++ tail) := by
    simp [encFull, List.append_assoc]
  rw [hrawB, show 148 = (encFields (fieldsA g) ++ g.iblock).length + 48 by rw [hpre], le32_shift]
  exact le32_field (fieldsB g cl ch ob rs) 16 tail 48 (by simp [fieldsB]) (by simp [fieldsB]) (by simp [fieldsB, fieldOff])

theorem rd_verHi (g : GoInode) (cl ch ob rs : Nat) (tail : Bytes) (hib : g.iblock.length = 60) :
    le32 (encFull g cl ch ob rs tail) 152 = (g.version / 4294967296) % 4294967296 := by
  have hpre : (encFields (fieldsA g) ++ g.iblock).length = 100 := by
    simp [encFields_length, fieldsA, hib]
  have hrawB : encFull g cl ch ob rs tail = (encFields (fieldsA g) ++ g.iblock) ++ (encFields (fieldsB g cl ch ob rs) ++ tail) := by
    simp [encFull, List.append_assoc]
  rw [hrawB, show 152 = (encFields (fieldsA g) ++ g.iblock).length + 52 by rw [hpre], le32_shift]
  exact le32_field (fieldsB g cl ch ob rs) 17 tail 52 (by simp [fieldsB]) (by simp [fieldsB]) (by simp [fieldsB, fieldOff])

theorem rd_proj (g : GoInode) (cl ch ob rs : Nat) (tail : Bytes) (hib : g.iblock.length = 60) :
    le32 (encFull g cl ch ob rs tail) 156 = (g.project) % 4294967296 := by
  have hpre : (encFields (fieldsA g) ++ g.iblock).length = 100 := by
    simp [encFields_length, fieldsA, hib]
  have hrawB : encFull g cl ch ob rs tail = (encFields (fieldsA g) ++ g.iblock) ++ (encFields (fieldsB g cl ch ob rs) ++ tail) := by
    simp [encFull, List.append_assoc]
  rw [hrawB, show 156 = (encFields (fieldsA g) ++ g.iblock).length + 56 by rw [hpre], le32_shift]
  exact le32_field (fieldsB g cl ch ob rs) 18 tail 56 (by simp [fieldsB]) (by simp [fieldsB]) (by simp [fieldsB, fieldOff])

theorem rd_iblock (g : GoInode) (cl ch ob rs : Nat) (tail : Bytes) (hib : g.iblock.length = 60) :
    slice (encFull g cl ch ob rs tail) 0x28 0x64 = g.iblock := by
  unfold encFull
  exact slice_mid' _ _ _ _ _ (by simp [encFields_length, fieldsA]) (by simp [encFields_length, fieldsA, hib])


theorem tsDec_mod (t : Ts) (h : TsWF t) : tsDec (tsLo t % 4294967296) (tsExtra t % 4294967296) = t := by
  rw [Nat.mod_eq_of_lt (tsLo_lt t), Nat.mod_eq_of_lt (tsExtra_lt t)]
  exact ts_roundtrip_aux t h

/-- decoding the record of `g` gives back `g`: every field of the inode survives encode → decode -/
theorem full_roundtrip (guarded : Bool) (g : GoInode) (cl ch ob rs : Nat) (tail : Bytes) (h : FullWF g)
    (hx : guarded = false ∨ 0x98 ≤ 128 + g.extra) :
    goDecode guarded true (160 + tail.length) (encFull g cl ch ob rs tail) = g := by
  obtain ⟨hmode, huid, hgid, hsize, hlinks, hflags, hblocks, hgen, hacl, hver, hextra, hdtime, hproj,
    hat, hct, hmt, hcr, hib, hfsb⟩ := h
  have hl : (encFull g cl ch ob rs tail).length = 160 + tail.length := encFull_length g cl ch ob rs tail hib
  have p16 : ∀ o, o + 2 ≤ 160 → le16 (pad256 (encFull g cl ch ob rs tail)) o = le16 (encFull g cl ch ob rs tail) o :=
    fun o ho => le16_pad256 _ o (by omega)
  have p32 : ∀ o, o + 4 ≤ 160 → le32 (pad256 (encFull g cl ch ob rs tail)) o = le32 (encFull g cl ch ob rs tail) o :=
    fun o ho => le32_pad256 _ o (by omega)
  have hex : le16 (pad256 (encFull g cl ch ob rs tail)) 0x80 = g.extra := by
    rw [p16 0x80 (by omega), rd_extra g cl ch ob rs tail hib, Nat.mod_eq_of_lt hextra]
  have hxw : ∀ o, o + 4 ≤ 0x98 → goExtraWord guarded (160 + tail.length) (pad256 (encFull g cl ch ob rs tail)) o =
      le32 (encFull g cl ch ob rs tail) o := by
    intro o ho
    unfold goExtraWord
    rw [hex, p32 o (by omega)]
    rcases hx with hg | hg
    · simp [hg]
    · have : fitsIn (160 + tail.length) g.extra (o + 4) = true := by
        simp only [fitsIn, Bool.and_eq_true, decide_eq_true_eq]; omega
      simp [this]
  unfold goDecode
  simp only [hxw 0x8c (by omega), hxw 0x84 (by omega), hxw 0x88 (by omega), hxw 0x90 (by omega), hxw 0x94 (by omega),
    hex, p16 0x0 (by omega), p16 0x2 (by omega), p16 0x78 (by omega), p16 0x18 (by omega), p16 0x7a (by omega),
    p32 0x4 (by omega), p32 0x6c (by omega), p16 0x1a (by omega), p32 0x20 (by omega), p32 0x1c (by omega),
    p16 0x74 (by omega), p32 0x64 (by omega), p32 0x68 (by omega), p16 0x76 (by omega), p32 0x24 (by omega),
    p32 0x98 (by omega), p32 0x14 (by omega), p32 0x9c (by omega), p32 0x8 (by omega), p32 0xc (by omega),
    p32 0x10 (by omega), slice_pad256 (encFull g cl ch ob rs tail) 0x28 0x64 (by omega),
    rd_mode, rd_uidLo, rd_sizeLo, rd_atime, rd_ctime, rd_mtime, rd_dtime, rd_gidLo, rd_links, rd_blocksLo, rd_flags,
    rd_verLo, rd_iblock g cl ch ob rs tail hib, rd_gen g cl ch ob rs tail hib, rd_aclLo g cl ch ob rs tail hib,
    rd_sizeHi g cl ch ob rs tail hib, rd_blocksHi g cl ch ob rs tail hib, rd_aclHi g cl ch ob rs tail hib,
    rd_uidHi g cl ch ob rs tail hib, rd_gidHi g cl ch ob rs tail hib, rd_ctimeX g cl ch ob rs tail hib,
    rd_mtimeX g cl ch ob rs tail hib, rd_atimeX g cl ch ob rs tail hib, rd_crtime g cl ch ob rs tail hib,
    rd_crtimeX g cl ch ob rs tail hib, rd_verHi g cl ch ob rs tail hib, rd_proj g cl ch ob rs tail hib,
    tsDec_mod _ hat, tsDec_mod _ hct, tsDec_mod _ hmt, tsDec_mod _ hcr]
  cases g with
  | mk mode uid gid size links flags blocks fsBlocks gen fileAcl version extra dtime project atime ctime mtime crtime iblock =>
  simp only [GoInode.mk.injEq] at *
  have hf : flags % 4294967296 = flags := Nat.mod_eq_of_lt hflags
  refine ⟨by omega, by omega, by omega, by omega, by omega, by omega, by simp; omega, by rw [hf, hfsb]; simp,
    by omega, by omega, by omega, trivial, by omega, by omega, trivial, trivial, trivial, trivial, trivial⟩

end Diskfs.Ext4.InodeDec
