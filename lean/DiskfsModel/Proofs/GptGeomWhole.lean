/-
  C02 for ANY well-formed geometry: what `Table.Write` (`writeUp`) leaves on ANY prior device for an
  initialised table satisfying `GeomWF` — a table gpt.Read returned from a foreign disk, edited —
  (1) reads back through gpt.Read, from the primary copy, as the partitions Write was left with, the same
      disk GUID and the same geometry (read ∘ write round trip);
  (2) satisfies the independent validity predicate `GptSpec.GptValid` (both header CRCs, both array CRCs,
      backup mirrors primary, layout) provided the usable range the header carried is itself sane
      (`UsableWF`: Write copies FirstUsableLBA / LastUsableLBA without checking them), and `PmbrValid`.
  Helper for Props/C02.
-/
import DiskfsModel.Proofs.GptGeomCrash
set_option linter.unusedSimpArgs false
set_option linter.unusedVariables false
namespace Diskfs.Gpt
open Diskfs.GptSpec Diskfs.GptCrash

/-- the array `toPartitionArrayBytes` builds for `n` slots of 128 bytes decodes to `normParts` -/
theorem decodeArr_slotsN (c : Cfg) (ps : List Part) (lss : Nat) (hex : ∀ p ∈ ps, EntryExact lss p) (n : Nat) (b : Bytes)
    (h : slotsFrom c ps 128 (List.range n) = .ok b) :
    b.length = 128 * n ∧ decodeArr b lss = normParts ps n := by
  rw [List.range_eq_range'] at h
  obtain ⟨hl, hd⟩ := decodeFrom_slotsFrom c ps lss hex n 0 b h
  refine ⟨hl, ?_⟩
  unfold decodeArr normParts
  rw [hl, List.range_eq_range', Nat.mul_div_cancel_left n (by decide : 0 < 128)]
  exact hd

/-- READ ∘ WRITE, ANY WELL-FORMED GEOMETRY: for EVERY prior device content `d`, what `Write` emits for an
    initialised table of well-formed geometry with well-formed entries reads back through gpt.Read — from the
    primary copy — as the partitions `Write` was left with (slot order over the table's `n` slots, unused
    entries dropped), the same disk GUID, and the same geometry the table carried -/
theorem read_write_geom (c : Cfg) (crc : Bytes → Nat) (hcrc : ∀ b, crc b < two32) (d : Dev)
    (t : Table) (size : Nat) (ws : List Wr) (t' : Table) (hg : GeomWF t size)
    (hwf : ∀ p ∈ t.parts, allZero p.typ = true ∨ (EntryWF p ∧ p.size < two64))
    (hw : writeUp c crc t size = .ok (ws, t')) :
    ∃ tr, (read c crc (applyWrs d ws) size t.lss).1 = .ok tr ∧ tr.parts = normParts t'.parts t.arrCount ∧
      tr.guid = t.guid ∧ tr.backup = false ∧ tr.primaryHeader = 1 ∧ tr.secondaryHeader = t.secondaryHeader ∧
      tr.firstData = t.firstData ∧ tr.lastData = t.lastData ∧ tr.arrCount = t.arrCount ∧ tr.entSize = 128 ∧
      tr.firstLBA = 2 ∧ tr.initialized = true := by
  obtain ⟨arr, ps, harr, hlen, ht, hws, r1, r2, r3, r4, _⟩ := write_regionsG c crc d t size ws t' hg hw
  obtain ⟨g1, g2, g3, g4, g5, g6, g7, g8, g9⟩ := geom_layout t size hg
  obtain ⟨k1, k2, k3, k4, k5, k6, k7, k8⟩ := geom_bounds t size hg
  have h512 := hg.lss
  have hlpos : 0 < t.lss := by omega
  have hP := readHeader_hdrEncUp crc hcrc t true arr hg.guid k2 k3 hg.fd hg.ld k6 k8
  simp only [if_true, k4, hg.ph] at hP
  -- the array decodes to the partitions Write was left with
  have hdec : decodeArr arr t.lss = normParts ps t.arrCount := by
    unfold arrEnc at harr
    rw [hg.es] at harr
    cases hip : initParts t.lss t.arrCount t.parts [] with
    | none => rw [hip] at harr; simp at harr
    | some ps' =>
      rw [hip] at harr
      simp only at harr
      obtain ⟨b, hb, hpair⟩ := bind_ok_inv _ _ _ harr
      simp only [Res.pure_eq, Res.ok.injEq, Prod.mk.injEq] at hpair
      obtain ⟨hb1, hb2⟩ := hpair
      subst hb1 hb2
      have hex := initParts_spec t.lss t.arrCount hlpos t.parts [] ps' hip hwf (by simp)
      exact (decodeArr_slotsN c ps' t.lss hex t.arrCount b hb).2
  generalize hdN : applyWrs d ws = dev at *
  have hnot : ¬ size < t.lss * 2 := by unfold offBA offBH at *; omega
  have hfit : 2 * t.lss + t.arrCount * 128 ≤ size := by unfold arrBytes offBA offBH at *; omega
  have hp1 := readPrimary_fst c crc dev size t.lss hnot
  rw [r1, hP] at hp1
  simp only at hp1
  have hle := loadEntries_atG c crc dev size t.lss 2 t.arrCount
    (tableOfHdr { myLBA := 1, altLBA := t.secondaryHeader, firstData := t.firstData, lastData := t.lastData,
                  guid := t.guid, arrLBA := 2, count := t.arrCount, entSize := 128, arrCrc := crc arr } t.lss
      (readPMBR ((readAt dev 0 (t.lss * 2)).take t.lss) (pmbrSectors c t.secondaryHeader)))
    hlpos rfl rfl rfl hg.cnt hg.cntMax hfit hg.hsz
  have r2' : readAt dev (2 * t.lss) (t.arrCount * 128) = arr := r2
  rw [r2'] at hle
  simp only [tableOfHdr] at hle hp1
  rw [hle] at hp1
  simp only [↓reduceIte] at hp1
  unfold read
  generalize hrp : readPrimary c crc dev size t.lss = rp at hp1
  obtain ⟨r, al⟩ := rp
  simp only at hp1
  subst hp1
  refine ⟨_, rfl, ?_, rfl, rfl, rfl, rfl, rfl, rfl, rfl, rfl, rfl, rfl⟩
  simp only [hdec, ht]

/-- the usable range an initialised table carries is sane: the primary array (and the 16 KiB the specification
    reserves) ends at or before FirstUsableLBA, FirstUsableLBA ≤ LastUsableLBA + 1, LastUsableLBA lies before
    the backup array.  `initTable` computes such values; a table read from a valid foreign GPT carries them. -/
structure UsableWF (t : Table) : Prop where
  u1 : 2 + partSectorsUp t ≤ t.firstData
  u2 : 2 * t.lss + 16384 ≤ t.firstData * t.lss
  u3 : t.firstData ≤ t.lastData + 1
  u4 : t.lastData < t.secondaryHeader - partSectorsUp t

/-- a header sector as `toGPTBytes` emits it is a valid header in the sense of the specification -/
theorem hdrEncUp_valid (crc : Bytes → Nat) (hcrc : ∀ b, crc b < two32) (t : Table) (primary : Bool) (arr : Bytes)
    (hg : t.guid.length = 16) (hl : 92 ≤ t.lss) (hph : t.primaryHeader < two64) (hsh : t.secondaryHeader < two64)
    (hfd : t.firstData < two64) (hld : t.lastData < two64) (has : arraySectorUp t primary < two64)
    (hac : t.arrCount < two32) :
    HdrValid crc (hdrEncUp crc t primary arr) t.lss (if primary then t.primaryHeader else t.secondaryHeader)
      (if primary then t.secondaryHeader else t.primaryHeader) ∧
    rawHdr (hdrEncUp crc t primary arr) =
      { revision := 0x00010000, headerSize := 92,
        headerCrc := (rawHdr (hdrEncUp crc t primary arr)).headerCrc, reserved := 0,
        myLBA := if primary then t.primaryHeader else t.secondaryHeader,
        alternateLBA := if primary then t.secondaryHeader else t.primaryHeader,
        firstUsable := t.firstData, lastUsable := t.lastData, diskGuid := guidSwap t.guid,
        entryLBA := arraySectorUp t primary, numEntries := t.arrCount, entrySize := 128, arrayCrc := crc arr } := by
  have hlen : (hdrEncUp crc t primary arr).length = t.lss := hdrEncUp_length crc t primary arr hg hl
  have hrd := readHeader_hdrEncUp crc hcrc t primary arr hg hph hsh hfd hld has hac
  obtain ⟨s1, s2, s3, s4, s5, s6, s7, s8, s9, s10, s11, s12, s13, s14⟩ :=
    readHeader_ok_spec crc _ _ (by rw [hlen]; exact hl) hrd
  simp only at s6 s7 s8 s9 s10 s11 s12 s13 s14
  have hz : allZeroB (slice (hdrEncUp crc t primary arr) 92 t.lss) = true := by
    rw [hdrEncUp_shape]
    rw [slice_append_skip _ _ _ _ (by rw [hdrBody_length _ (by simp) _ _ _ _ _ hg]; exact Nat.le_refl _)]
    rw [hdrBody_length _ (by simp) _ _ _ _ _ hg]
    simp only [Nat.sub_self]
    rw [slice_all _ _ (by simp)]
    exact allZeroB_zeros _
  refine ⟨⟨s1, s2, by rw [s3]; exact Nat.le_refl _, by rw [s3]; exact hl, by rw [s3]; exact s4, s5, s6, s7, by rw [s3]; exact hz⟩, ?_⟩
  cases hraw : rawHdr (hdrEncUp crc t primary arr)
  rw [hraw] at s2 s3 s5 s6 s7 s8 s9 s10 s11 s12 s13 s14
  simp only at s2 s3 s5 s6 s7 s8 s9 s10 s11 s12 s13 s14
  simp only [RawHdr.mk.injEq]
  exact ⟨s2, s3, trivial, s5, s6, s7, s8, s9, s10, s11, s12, s13, s14⟩

/-- VALID FOR AN INDEPENDENT PARSER, ANY WELL-FORMED GEOMETRY: both GPT copies `Write` leaves on ANY prior
    device for an initialised table with well-formed geometry and a sane usable range satisfy `GptValid` -/
theorem written_gpt_valid_geom (c : Cfg) (crc : Bytes → Nat) (hcrc : ∀ b, crc b < two32) (d : Dev)
    (t : Table) (size : Nat) (ws : List Wr) (t' : Table) (hg : GeomWF t size) (hu : UsableWF t)
    (hw : writeUp c crc t size = .ok (ws, t')) :
    GptValid crc (applyWrs d ws) size t.lss := by
  obtain ⟨arr, ps, harr, hlen, ht, hws, r1, r2, r3, r4, _⟩ := write_regionsG c crc d t size ws t' hg hw
  obtain ⟨g1, g2, g3, g4, g5, g6, g7, g8, g9⟩ := geom_layout t size hg
  obtain ⟨k1, k2, k3, k4, k5, k6, k7, k8⟩ := geom_bounds t size hg
  have hps := partSectorsUp_eq t size hg
  obtain ⟨vP, hP⟩ := hdrEncUp_valid crc hcrc t true arr hg.guid k1 k2 k3 hg.fd hg.ld k6 k8
  obtain ⟨vB, hB⟩ := hdrEncUp_valid crc hcrc t false arr hg.guid k1 k2 k3 hg.fd hg.ld k7 k8
  simp only [if_true, Bool.false_eq_true, if_false, k4, k5, hg.ph] at vP vB hP hB
  have hsh := hg.sh; have hfits := hg.fits
  have u1 := hu.u1; have u2 := hu.u2; have u3 := hu.u3; have u4 := hu.u4
  have r3' : readAt (applyWrs d ws) ((size / t.lss - 1) * t.lss) t.lss = hdrEncUp crc t false arr := by
    rw [← hsh]; exact r3
  unfold GptValid
  simp only [priSector, bakSector, lastLBA]
  rw [r1, r3', hP, hB]
  simp only
  have e1 : readAt (applyWrs d ws) (2 * t.lss) (t.arrCount * 128) = arr := r2
  have e2 : readAt (applyWrs d ws) ((t.secondaryHeader - partSectorsUp t) * t.lss) (t.arrCount * 128) = arr := r4
  rw [e1, e2]
  have hab : ∀ h : RawHdr, h.numEntries = t.arrCount → h.entrySize = 128 → arrayBlocks h t.lss = partSectorsUp t := by
    intro h h1 h2; unfold arrayBlocks; rw [h1, h2, hps]; rfl
  rw [hab _ rfl rfl]
  rw [← hsh]
  refine ⟨by omega, vP, vB, ⟨rfl, rfl, rfl, rfl, rfl, rfl, rfl, rfl⟩, by decide, by omega, u1, u2, u3, u4, by omega, rfl, rfl⟩

/-- …and LBA 0 is a protective MBR covering the disk (with the size clamp of the repaired code) -/
theorem written_pmbr_valid_geom (c : Cfg) (crc : Bytes → Nat) (d : Dev)
    (t : Table) (size : Nat) (ws : List Wr) (t' : Table) (hg : GeomWF t size)
    (hpm : t.pmbr = true) (hclamp : c.pmbrClamp = true)
    (hw : writeUp c crc t size = .ok (ws, t')) :
    PmbrValid (applyWrs d ws) size t.lss := by
  obtain ⟨arr, ps, harr, hlen, ht, hws, r1, r2, r3, r4, r5⟩ := write_regionsG c crc d t size ws t' hg hw
  have r := r5 hpm
  obtain ⟨g0, g4, g64, g65, s8, s12, s16⟩ := pmbrEnc_shape c t
  generalize applyWrs d ws = dev at r
  have k0 := dev_of_readAt dev 446 66 _ r 0 (by omega)
  have k4 := dev_of_readAt dev 446 66 _ r 4 (by omega)
  have k64 := dev_of_readAt dev 446 66 _ r 64 (by omega)
  have k65 := dev_of_readAt dev 446 66 _ r 65 (by omega)
  rw [g0] at k0; rw [g4] at k4; rw [g64] at k64; rw [g65] at k65
  have f1 : slice (readAt dev 0 512) 454 458 = leEnc 4 1 := by
    rw [slice_readAt dev 0 512 454 458 (by omega) (by omega), ← s8, ← r,
      slice_readAt dev 446 66 8 12 (by omega) (by omega)]
  have f2 : slice (readAt dev 0 512) 458 462 = leEnc 4 (pmbrSectors c t.secondaryHeader) := by
    rw [slice_readAt dev 0 512 458 462 (by omega) (by omega), ← s12, ← r,
      slice_readAt dev 446 66 12 16 (by omega) (by omega)]
  have f3 : slice (readAt dev 0 512) 462 510 = zeros 48 := by
    rw [slice_readAt dev 0 512 462 510 (by omega) (by omega), ← s16, ← r,
      slice_readAt dev 446 66 16 64 (by omega) (by omega)]
  refine ⟨k64, k65, k0, k4, ?_, ?_, ?_⟩
  · simp only [fld, Nat.reduceAdd]; rw [f1]; rfl
  · simp only [fld, Nat.reduceAdd]
    rw [f2, leDec_leEnc, hg.sh]
    simp only [pmbrSectors, hclamp, Bool.true_and, two32, decide_eq_true_eq]
    split <;> omega
  · rw [f3]; exact allZeroB_zeros _

/-- what `initTable` computes for a fresh table (any sector size ≥ 512 dividing into the disk) is a sane usable range -/
theorem initTableUp_usable (t0 : Table) (size : Nat) (hf : Fresh t0) (hl : 512 ≤ t0.lss) (hg : t0.guid.length = 16)
    (hsz : size < two63) (hmin : (2 * ((16384 + t0.lss - 1) / t0.lss) + 3) * t0.lss ≤ size) :
    UsableWF (initTableUp t0 size) := by
  obtain ⟨hgw, _, _, _, hl', hac⟩ := initTableUp_geom t0 size hf hl hg hsz hmin
  have hps := partSectorsUp_eq _ size hgw
  have hab : arrBytes (initTableUp t0 size) = 16384 := by unfold arrBytes; rw [hac]
  rw [hab, hl'] at hps
  have hlpos : 0 < t0.lss := by omega
  have hne : t0.lss ≠ 0 := by omega
  obtain ⟨c1, c2⟩ := ceil_facts 16384 t0.lss hlpos
  have hq : 2 * ((16384 + t0.lss - 1) / t0.lss) + 3 ≤ size / t0.lss := (Nat.le_div_iff_mul_le hlpos).2 hmin
  have hdl : size / t0.lss ≤ size := Nat.div_le_self _ _
  have hsh := hgw.sh
  rw [hl'] at hsh
  have hpb : (16384 + t0.lss - 1) / t0.lss ≤ 32 := by
    apply Nat.le_of_lt_succ
    apply (Nat.div_lt_iff_lt_mul hlpos).2
    omega
  have hfd : (initTableUp t0 size).firstData = 2 + (16384 + t0.lss - 1) / t0.lss := by
    have : (initTableUp t0 size).firstData = u64 (2 + partSectorsUp (initTableUp t0 size)) := by
      simp only [initTableUp, hf.fd, if_true, partSectorsUp, hf.ac, hf.es, hne, if_false]
    rw [this, hps]; unfold u64; exact Nat.mod_eq_of_lt (by simp only [two64]; omega)
  have hld : (initTableUp t0 size).lastData = size / t0.lss - 1 - (16384 + t0.lss - 1) / t0.lss - 1 := by
    have : (initTableUp t0 size).lastData = u64sub (u64sub (initTableUp t0 size).secondaryHeader
        (partSectorsUp (initTableUp t0 size))) 1 := by
      simp only [initTableUp, hf.ld, if_true, partSectorsUp, hf.ac, hf.es, hne, if_false]
    have hb64 : size / t0.lss - 1 < two64 := by simp only [two64, two63] at *; omega
    rw [this, hps, hsh, u64sub_le (size / t0.lss - 1) ((16384 + t0.lss - 1) / t0.lss) (by omega) hb64,
      u64sub_le (size / t0.lss - 1 - (16384 + t0.lss - 1) / t0.lss) 1 (by omega) (by omega)]
  refine ⟨?_, ?_, ?_, ?_⟩
  · rw [hps, hfd]; exact Nat.le_refl _
  · rw [hfd, hl', Nat.add_mul]; omega
  · rw [hfd, hld]; omega
  · rw [hld, hsh, hps]; omega

end Diskfs.Gpt
