/-
  C09, flat layer for ANY geometry (generalises Proofs/GptRefine.lean + the layout half of
  Proofs/GptCrashFlat.lean, which hard-code a 16 KiB array at LBA 2 on 512/4096-byte sectors).

  `Geo`: sector size, entry count, LBA of the primary array, of the backup array, of the backup header.
  The entry array is `n·128` bytes in `p = ⌈n·128 / lss⌉` sectors; when the array does not end on a
  sector boundary (30 entries on 512-byte sectors, 4 entries on 4096-byte sectors) its last sector is
  PARTIAL: a torn write persists, for every kept sector index, the bytes of the array that lie in that
  sector — `tornPieces` already cuts a write that way.  `toDiskG` views the flat device as the record of
  the five regions with exactly those (possibly short) sectors, so that a sector subset of an in-flight
  array write is `mix keep new old` of the record level, for every array length.
-/
import DiskfsModel.Proofs.GptGeom
import DiskfsModel.Proofs.GptCrashFlat
set_option linter.unusedSimpArgs false
set_option linter.unusedVariables false
namespace Diskfs.Gpt

/-! ### devices, bytewise -/

theorem readAt_ext (d d' : Dev) (off len : Nat) (h : ∀ k, k < len → d (off + k) = d' (off + k)) :
    readAt d off len = readAt d' off len := by
  unfold readAt
  apply List.map_congr_left
  intro k hk
  exact h k (List.mem_range.1 hk)

theorem readAt_getD (d : Dev) (off len k : Nat) (hk : k < len) : (readAt d off len).getD k 0 = d (off + k) := by
  simp [readAt, List.getD_eq_getElem?_getD, hk]

theorem take_drop_getD (l : Bytes) (a n k : Nat) (hk : k < n) : ((l.drop a).take n).getD k 0 = l.getD (a + k) 0 := by
  simp [List.getD_eq_getElem?_getD, List.getElem?_take, hk]

/-! ### torn writes of ANY length (the last piece may be shorter than a sector) -/

theorem piece_lengthG (lss : Nat) (w : Wr) (i : Nat) :
    (piece lss w i).data.length = min lss (w.data.length - i * lss) := by
  simp [piece, List.length_take, List.length_drop]

theorem np_bound (lss L i : Nat) (hl : 0 < lss) (hi : i < (L + lss - 1) / lss) : i * lss < L := by
  have h1 : i + 1 ≤ (L + lss - 1) / lss := hi
  have h2 := (Nat.le_div_iff_mul_le hl).1 h1
  rw [Nat.add_mul, Nat.one_mul] at h2
  omega

theorem np_of_lt (lss L k : Nat) (hl : 0 < lss) (hk : k < L) : k / lss < (L + lss - 1) / lss := by
  have h1 : k / lss * lss ≤ k := Nat.div_mul_le_self k lss
  have h2 : (k / lss + 1) * lss ≤ L + lss - 1 := by rw [Nat.add_mul, Nat.one_mul]; omega
  exact (Nat.le_div_iff_mul_le hl).2 h2

theorem mem_tornPiecesG (lss : Nat) (w : Wr) (keep : Nat → Bool) (p : Wr) :
    p ∈ tornPieces lss w keep ↔ ∃ i, i < (w.data.length + lss - 1) / lss ∧ keep i = true ∧ p = piece lss w i := by
  rw [tornPieces_eq]
  simp only [List.mem_filterMap, List.mem_range]
  constructor
  · rintro ⟨i, hi, h⟩
    by_cases hk : keep i = true
    · simp [hk] at h; exact ⟨i, hi, hk, h.symm⟩
    · simp [hk] at h
  · rintro ⟨i, hi, hk, h⟩
    exact ⟨i, hi, by simp [hk, h]⟩

theorem tornPieces_pairwiseG (lss : Nat) (w : Wr) (keep : Nat → Bool) : (tornPieces lss w keep).Pairwise Disj := by
  rw [tornPieces_eq]
  refine List.Pairwise.filterMap _ ?_ (List.pairwise_lt_range (n := (w.data.length + lss - 1) / lss))
  intro i j hij a ha b hb
  by_cases hki : keep i = true
  · by_cases hkj : keep j = true
    · simp only [hki, hkj, if_true, Option.some.injEq] at ha hb
      subst ha hb
      left
      rw [piece_lengthG]
      simp only [piece]
      have : (i + 1) * lss ≤ j * lss := Nat.mul_le_mul_right _ hij
      rw [Nat.add_mul] at this
      omega
    · simp [hkj] at hb
  · simp [hki] at ha

/-- BYTEWISE: after a torn write, byte `j` is the new byte exactly when it lies in the write's range and
    the sector of the write it belongs to (`(j − off) / lss`) was kept; every other byte is untouched -/
theorem torn_byte (d : Dev) (lss : Nat) (hl : 0 < lss) (w : Wr) (keep : Nat → Bool) (j : Nat) :
    applyWrs d (tornPieces lss w keep) j =
      if w.off ≤ j ∧ j < w.off + w.data.length ∧ keep ((j - w.off) / lss) = true then w.data.getD (j - w.off) 0
      else d j := by
  by_cases hin : w.off ≤ j ∧ j < w.off + w.data.length ∧ keep ((j - w.off) / lss) = true
  · rw [if_pos hin]
    obtain ⟨h1, h2, h3⟩ := hin
    have hk : j - w.off < w.data.length := by omega
    have hnp := np_of_lt lss w.data.length (j - w.off) hl hk
    have hm : piece lss w ((j - w.off) / lss) ∈ tornPieces lss w keep :=
      (mem_tornPiecesG lss w keep _).2 ⟨_, hnp, h3, rfl⟩
    have hr := readAt_applyWrs_mem d _ (tornPieces_pairwiseG lss w keep) _ hm
    have hdm := Nat.div_add_mod (j - w.off) lss
    have hmod := Nat.mod_lt (j - w.off) hl
    rw [Nat.mul_comm] at hdm
    have hrl : (j - w.off) % lss < (piece lss w ((j - w.off) / lss)).data.length := by
      rw [piece_lengthG]; omega
    have hb := dev_of_readAt _ _ _ _ hr ((j - w.off) % lss) hrl
    have hj : (piece lss w ((j - w.off) / lss)).off + (j - w.off) % lss = j := by simp only [piece]; omega
    rw [hj] at hb
    rw [hb]
    simp only [piece]
    rw [take_drop_getD _ _ _ _ hmod, hdm]
  · rw [if_neg hin]
    apply applyWrs_frame
    intro q hq
    obtain ⟨i, hi, hk, rfl⟩ := (mem_tornPiecesG lss w keep q).1 hq
    have hil := np_bound lss w.data.length i hl hi
    rw [piece_lengthG]
    simp only [piece]
    apply Classical.byContradiction
    intro hc
    have c1 : w.off + i * lss ≤ j := by omega
    have c2 : j < w.off + i * lss + min lss (w.data.length - i * lss) := by omega
    have hdiv : (j - w.off) / lss = i := Nat.div_eq_of_lt_le (by omega) (by rw [Nat.add_mul, Nat.one_mul]; omega)
    exact hin ⟨by omega, by omega, by rw [hdiv]; exact hk⟩

/-- SECTOR-WISE: `m ≤ lss` bytes from the start of sector `i` of the write's range are the completely
    written device's where `keep i`, the old device's elsewhere -/
theorem torn_secs (d : Dev) (lss : Nat) (hl : 0 < lss) (w : Wr) (keep : Nat → Bool) (i m : Nat) (hm : m ≤ lss) :
    readAt (applyWrs d (tornPieces lss w keep)) (w.off + i * lss) m =
      if keep i then readAt (applyWr d w) (w.off + i * lss) m else readAt d (w.off + i * lss) m := by
  have hdiv : ∀ k, k < m → (w.off + i * lss + k - w.off) / lss = i := by
    intro k hk
    exact Nat.div_eq_of_lt_le (by omega) (by rw [Nat.add_mul, Nat.one_mul]; omega)
  by_cases hk : keep i = true
  · simp only [hk, if_true]
    apply readAt_ext
    intro k hkm
    rw [torn_byte d lss hl w keep, hdiv k hkm]
    unfold applyWr
    simp only [hk, and_true]
  · simp only [hk, Bool.false_eq_true, if_false]
    apply readAt_ext
    intro k hkm
    rw [torn_byte d lss hl w keep, hdiv k hkm]
    simp [hk]

/-- a range outside the in-flight write is not touched by any of its pieces -/
theorem torn_outside (d : Dev) (lss : Nat) (hl : 0 < lss) (w : Wr) (keep : Nat → Bool) (off len : Nat)
    (h : off + len ≤ w.off ∨ w.off + w.data.length ≤ off) :
    readAt (applyWrs d (tornPieces lss w keep)) off len = readAt d off len := by
  apply readAt_ext
  intro k hk
  rw [torn_byte d lss hl w keep]
  have : ¬ (w.off ≤ off + k ∧ off + k < w.off + w.data.length ∧ keep ((off + k - w.off) / lss) = true) := by
    intro hh; omega
  rw [if_neg this]

end Diskfs.Gpt

namespace Diskfs.GptCrash
open Diskfs Diskfs.Gpt

/-! ### geometry as numbers -/

/-- sector size, entry count, LBA of the primary array / the backup array / the backup header -/
structure Geo where
  lss : Nat
  n : Nat
  aP : Nat
  aB : Nat
  hB : Nat
deriving Repr, DecidableEq

/-- bytes of the entry array -/
def Geo.ab (g : Geo) : Nat := g.n * 128
/-- sectors of the entry array, rounded up -/
def Geo.p (g : Geo) : Nat := (g.n * 128 + g.lss - 1) / g.lss

/-- the five regions in order, without overlap, inside a device of `size` bytes whose last LBA is the
    backup header's (where gpt.Read's fallback looks) -/
structure Geo.OK (g : Geo) (size : Nat) : Prop where
  h512 : 512 ≤ g.lss
  hn : 1 ≤ g.n
  hmax : g.n * 128 ≤ 67108864
  e0 : 2 ≤ g.aP
  e1 : g.aP + g.p ≤ g.aB
  e2 : g.aB + g.p ≤ g.hB
  e3 : g.hB = size / g.lss - 1
  hsz : size < two63

/-- the geometry an initialised table carries -/
def geoOf (t : Table) : Geo := ⟨t.lss, t.arrCount, 2, t.secondaryHeader - partSectorsUp t, t.secondaryHeader⟩

theorem geoOf_ok (t : Table) (size : Nat) (hg : GeomWF t size) :
    (geoOf t).OK size ∧ (geoOf t).p = partSectorsUp t ∧ (geoOf t).ab = arrBytes t := by
  have hp := partSectorsUp_eq t size hg
  have hpp : (geoOf t).p = partSectorsUp t := by rw [hp]; rfl
  have h4 := hg.fits
  refine ⟨⟨hg.lss, hg.cnt, hg.cntMax, Nat.le_refl 2, ?_, ?_, hg.sh, hg.hsz⟩, hpp, rfl⟩
  · rw [hpp]; show 2 + partSectorsUp t ≤ t.secondaryHeader - partSectorsUp t; rw [hg.sh]; omega
  · rw [hpp]; show t.secondaryHeader - partSectorsUp t + partSectorsUp t ≤ t.secondaryHeader; rw [hg.sh]; omega

/-- the byte-level layout facts every lemma below needs -/
structure Lay (g : Geo) (size : Nat) : Prop where
  h512 : 512 ≤ g.lss
  p1 : 1 ≤ g.p
  a1 : g.ab ≤ g.p * g.lss
  a2 : g.p * g.lss < g.ab + g.lss
  amax : g.ab ≤ 67108864
  b0 : 2 * g.lss ≤ g.aP * g.lss
  b1 : g.aP * g.lss + g.p * g.lss ≤ g.aB * g.lss
  b2 : g.aB * g.lss + g.p * g.lss ≤ g.hB * g.lss
  b3 : g.hB * g.lss + g.lss ≤ size
  hq : 3 ≤ size / g.lss
  hsz : size < two63

theorem lay_of {g : Geo} {size : Nat} (G : g.OK size) : Lay g size := by
  have h512 := G.h512; have hn := G.hn; have e0 := G.e0; have e1 := G.e1; have e2 := G.e2; have e3 := G.e3
  have hlpos : 0 < g.lss := by omega
  obtain ⟨c1, c2⟩ := ceil_facts (g.n * 128) g.lss hlpos
  have c3 := ceil_pos (g.n * 128) g.lss hlpos (by omega)
  have m0 : 2 * g.lss ≤ g.aP * g.lss := Nat.mul_le_mul_right _ e0
  have m1 : (g.aP + g.p) * g.lss ≤ g.aB * g.lss := Nat.mul_le_mul_right _ e1
  have m2 : (g.aB + g.p) * g.lss ≤ g.hB * g.lss := Nat.mul_le_mul_right _ e2
  have hp1 : 1 ≤ g.p := c3
  have m3 : (g.hB + 1) * g.lss ≤ size / g.lss * g.lss := Nat.mul_le_mul_right _ (by omega)
  have hmul : size / g.lss * g.lss ≤ size := Nat.div_mul_le_self _ _
  rw [Nat.add_mul] at m1 m2 m3
  exact ⟨h512, hp1, c1, c2, G.hmax, m0, m1, m2, by omega, by omega, G.hsz⟩

/-! ### the flat device as a record of (possibly short) sectors -/

/-- bytes of the array that lie in its sector `i` -/
def secLen (lss ab i : Nat) : Nat := min lss (ab - i * lss)

/-- sector by sector, the `ab` bytes at `off` -/
def secs (d : Dev) (lss ab p off : Nat) : Fin p → Bytes := fun i => readAt d (off + i.val * lss) (secLen lss ab i.val)

/-- the sectors of an array that is about to be written -/
def sectorsG (lss ab p : Nat) (a : Bytes) : Fin p → Bytes :=
  fun i => slice a (i.val * lss) (i.val * lss + secLen lss ab i.val)

def toDiskG (d : Dev) (g : Geo) : Disk Bytes g.p :=
  { mbr := readAt d 0 g.lss, ph := readAt d g.lss g.lss,
    pa := secs d g.lss g.ab g.p (g.aP * g.lss),
    ba := secs d g.lss g.ab g.p (g.aB * g.lss),
    bh := readAt d (g.hB * g.lss) g.lss }

/-- the first `ab` bytes of an array given sector by sector -/
def asm (lss ab : Nat) {p : Nat} (a : Fin p → Bytes) : Bytes :=
  (List.range ab).map fun j => if h : j / lss < p then (a ⟨j / lss, h⟩).getD (j % lss) 0 else 0

/-- the record-level reader built from the model's real decoders, for geometry `g` -/
def flatReaderG (crc : Bytes → Nat) (g : Geo) : Reader Bytes (List Part) g.p :=
  { hdrP := fun s => match readHeader crc s with
      | .ok h => if h.arrLBA = g.aP ∧ h.count = g.n ∧ h.entSize = 128 then some h.arrCrc else none
      | _ => none,
    hdrB := fun s => match readHeader crc s with
      | .ok h => if h.myLBA = g.hB ∧ h.arrLBA = g.aB ∧ h.count = g.n ∧ h.entSize = 128 then some h.arrCrc else none
      | _ => none,
    crc := fun a => crc (asm g.lss g.ab a),
    parts := fun a => decodeArr (asm g.lss g.ab a) g.lss }

theorem sec_in {g : Geo} {size : Nat} (L : Lay g size) (i : Fin g.p) :
    i.val * g.lss < g.ab ∧ i.val * g.lss + secLen g.lss g.ab i.val ≤ g.ab ∧ secLen g.lss g.ab i.val ≤ g.lss ∧
    i.val * g.lss + g.lss ≤ g.p * g.lss := by
  have h1 : (i.val + 1) * g.lss ≤ g.p * g.lss := Nat.mul_le_mul_right _ i.isLt
  rw [Nat.add_mul, Nat.one_mul] at h1
  have a2 := L.a2
  unfold secLen
  omega

theorem asm_secs {g : Geo} {size : Nat} (L : Lay g size) (d : Dev) (off : Nat) :
    asm g.lss g.ab (secs d g.lss g.ab g.p off) = readAt d off g.ab := by
  have hlpos : 0 < g.lss := by have := L.h512; omega
  unfold asm readAt
  apply List.map_congr_left
  intro j hj
  have hj' : j < g.ab := List.mem_range.1 hj
  have hlt : j / g.lss < g.p := by
    apply (Nat.div_lt_iff_lt_mul hlpos).2
    have := L.a1; omega
  have hdm := Nat.div_add_mod j g.lss
  have hmod := Nat.mod_lt j hlpos
  rw [Nat.mul_comm] at hdm
  simp only [hlt, dif_pos, secs]
  rw [readAt_getD _ _ _ _ (by unfold secLen; omega)]
  congr 1
  omega

/-- sector `i` of a region that has just been written in full -/
theorem secs_hit {g : Geo} {size : Nat} (L : Lay g size) (D : Dev) (off : Nat) (a : Bytes) (ha : a.length = g.ab) :
    secs (applyWr D ⟨off, a⟩) g.lss g.ab g.p off = sectorsG g.lss g.ab g.p a := by
  funext i
  obtain ⟨s1, s2, s3, s4⟩ := sec_in L i
  have h : readAt (applyWr D ⟨off, a⟩) off g.ab = a := by
    have := readAt_applyWr_same D ⟨off, a⟩
    rw [show (Wr.mk off a).data.length = g.ab from ha] at this
    exact this
  have := slice_readAt (applyWr D ⟨off, a⟩) off g.ab (i.val * g.lss) (i.val * g.lss + secLen g.lss g.ab i.val) (by omega) s2
  rw [h] at this
  have e : i.val * g.lss + secLen g.lss g.ab i.val - i.val * g.lss = secLen g.lss g.ab i.val := by omega
  rw [e] at this
  exact this.symm

/-- a write outside an array's sectors leaves them alone -/
theorem secs_frame {g : Geo} {size : Nat} (L : Lay g size) (D : Dev) (off : Nat) (w : Wr)
    (h : off + g.p * g.lss ≤ w.off ∨ w.off + w.data.length ≤ off) :
    secs (applyWr D w) g.lss g.ab g.p off = secs D g.lss g.ab g.p off := by
  funext i
  obtain ⟨s1, s2, s3, s4⟩ := sec_in L i
  exact readAt_applyWr_disjoint _ _ _ _ (by omega)

theorem secs_torn_frame {g : Geo} {size : Nat} (L : Lay g size) (D : Dev) (off : Nat) (w : Wr) (keep : Nat → Bool)
    (h : off + g.p * g.lss ≤ w.off ∨ w.off + w.data.length ≤ off) :
    secs (applyWrs D (tornPieces g.lss w keep)) g.lss g.ab g.p off = secs D g.lss g.ab g.p off := by
  funext i
  obtain ⟨s1, s2, s3, s4⟩ := sec_in L i
  have h512 := L.h512
  exact torn_outside D g.lss (by omega) w keep _ _ (by omega)

/-- SECTOR SUBSET IS MIX, any array length: the sectors of a torn array write are the new array's where kept
    and the old ones elsewhere — also for the short last sector -/
theorem secs_torn {g : Geo} {size : Nat} (L : Lay g size) (D : Dev) (off : Nat) (a : Bytes) (ha : a.length = g.ab)
    (keep : Nat → Bool) :
    secs (applyWrs D (tornPieces g.lss ⟨off, a⟩ keep)) g.lss g.ab g.p off =
      mix (fun i => keep i.val) (sectorsG g.lss g.ab g.p a) (secs D g.lss g.ab g.p off) := by
  have h512 := L.h512
  funext i
  obtain ⟨s1, s2, s3, s4⟩ := sec_in L i
  have := torn_secs D g.lss (by omega) ⟨off, a⟩ keep i.val (secLen g.lss g.ab i.val) s3
  simp only [secs, mix]
  rw [this]
  by_cases hk : keep i.val = true
  · simp only [hk, if_true]
    exact congrFun (secs_hit L D off a ha) i
  · simp only [hk, Bool.false_eq_true, if_false]

/-! ### one flat write = one field of the record -/

section fields
variable {g : Geo} {size : Nat}

theorem toDiskG_write_ba (L : Lay g size) (D : Dev) (a : Bytes) (ha : a.length = g.ab) :
    toDiskG (applyWr D ⟨g.aB * g.lss, a⟩) g = { toDiskG D g with ba := sectorsG g.lss g.ab g.p a } := by
  have h512 := L.h512; have a1 := L.a1; have b0 := L.b0; have b1 := L.b1; have b2 := L.b2
  apply disk_ext
  · exact readAt_applyWr_disjoint _ _ _ _ (by simp only [ha]; omega)
  · exact readAt_applyWr_disjoint _ _ _ _ (by simp only [ha]; omega)
  · exact secs_frame L D _ _ (by simp only [ha]; omega)
  · exact secs_hit L D _ a ha
  · exact readAt_applyWr_disjoint _ _ _ _ (by simp only [ha]; omega)

theorem toDiskG_write_pa (L : Lay g size) (D : Dev) (a : Bytes) (ha : a.length = g.ab) :
    toDiskG (applyWr D ⟨g.aP * g.lss, a⟩) g = { toDiskG D g with pa := sectorsG g.lss g.ab g.p a } := by
  have h512 := L.h512; have a1 := L.a1; have b0 := L.b0; have b1 := L.b1; have b2 := L.b2
  apply disk_ext
  · exact readAt_applyWr_disjoint _ _ _ _ (by simp only [ha]; omega)
  · exact readAt_applyWr_disjoint _ _ _ _ (by simp only [ha]; omega)
  · exact secs_hit L D _ a ha
  · exact secs_frame L D _ _ (by simp only [ha]; omega)
  · exact readAt_applyWr_disjoint _ _ _ _ (by simp only [ha]; omega)

theorem toDiskG_write_bh (L : Lay g size) (D : Dev) (b : Bytes) (hb : b.length = g.lss) :
    toDiskG (applyWr D ⟨g.hB * g.lss, b⟩) g = { toDiskG D g with bh := b } := by
  have h512 := L.h512; have a1 := L.a1; have b0 := L.b0; have b1 := L.b1; have b2 := L.b2
  apply disk_ext
  · exact readAt_applyWr_disjoint _ _ _ _ (by simp only [hb]; omega)
  · exact readAt_applyWr_disjoint _ _ _ _ (by simp only [hb]; omega)
  · exact secs_frame L D _ _ (by simp only [hb]; omega)
  · exact secs_frame L D _ _ (by simp only [hb]; omega)
  · have := readAt_applyWr_same D ⟨g.hB * g.lss, b⟩
    rw [show (Wr.mk (g.hB * g.lss) b).data.length = g.lss from hb] at this
    exact this

theorem toDiskG_write_ph (L : Lay g size) (D : Dev) (b : Bytes) (hb : b.length = g.lss) :
    toDiskG (applyWr D ⟨g.lss, b⟩) g = { toDiskG D g with ph := b } := by
  have h512 := L.h512; have a1 := L.a1; have b0 := L.b0; have b1 := L.b1; have b2 := L.b2
  apply disk_ext
  · exact readAt_applyWr_disjoint _ _ _ _ (by simp only [hb]; omega)
  · have := readAt_applyWr_same D ⟨g.lss, b⟩
    rw [show (Wr.mk g.lss b).data.length = g.lss from hb] at this
    exact this
  · exact secs_frame L D _ _ (by simp only [hb]; omega)
  · exact secs_frame L D _ _ (by simp only [hb]; omega)
  · exact readAt_applyWr_disjoint _ _ _ _ (by simp only [hb]; omega)

theorem toDiskG_write_pm (L : Lay g size) (D : Dev) (pm : Bytes) (hpm : pm.length = 66) :
    toDiskG (applyWr D ⟨446, pm⟩) g = { toDiskG D g with mbr := readAt (applyWr D ⟨446, pm⟩) 0 g.lss } := by
  have h512 := L.h512; have a1 := L.a1; have b0 := L.b0; have b1 := L.b1; have b2 := L.b2
  apply disk_ext
  · rfl
  · exact readAt_applyWr_disjoint _ _ _ _ (by simp only [hpm]; omega)
  · exact secs_frame L D _ _ (by simp only [hpm]; omega)
  · exact secs_frame L D _ _ (by simp only [hpm]; omega)
  · exact readAt_applyWr_disjoint _ _ _ _ (by simp only [hpm]; omega)

theorem toDiskG_torn_ba (L : Lay g size) (D : Dev) (a : Bytes) (ha : a.length = g.ab) (keep : Nat → Bool) :
    toDiskG (applyWrs D (tornPieces g.lss ⟨g.aB * g.lss, a⟩ keep)) g =
      { toDiskG D g with ba := mix (fun i => keep i.val) (sectorsG g.lss g.ab g.p a) (toDiskG D g).ba } := by
  have h512 := L.h512; have a1 := L.a1; have b0 := L.b0; have b1 := L.b1; have b2 := L.b2
  have hl : 0 < g.lss := by omega
  apply disk_ext
  · exact torn_outside D g.lss hl _ keep _ _ (by simp only [ha]; omega)
  · exact torn_outside D g.lss hl _ keep _ _ (by simp only [ha]; omega)
  · exact secs_torn_frame L D _ _ keep (by simp only [ha]; omega)
  · exact secs_torn L D _ a ha keep
  · exact torn_outside D g.lss hl _ keep _ _ (by simp only [ha]; omega)

theorem toDiskG_torn_pa (L : Lay g size) (D : Dev) (a : Bytes) (ha : a.length = g.ab) (keep : Nat → Bool) :
    toDiskG (applyWrs D (tornPieces g.lss ⟨g.aP * g.lss, a⟩ keep)) g =
      { toDiskG D g with pa := mix (fun i => keep i.val) (sectorsG g.lss g.ab g.p a) (toDiskG D g).pa } := by
  have h512 := L.h512; have a1 := L.a1; have b0 := L.b0; have b1 := L.b1; have b2 := L.b2
  have hl : 0 < g.lss := by omega
  apply disk_ext
  · exact torn_outside D g.lss hl _ keep _ _ (by simp only [ha]; omega)
  · exact torn_outside D g.lss hl _ keep _ _ (by simp only [ha]; omega)
  · exact secs_torn L D _ a ha keep
  · exact secs_torn_frame L D _ _ keep (by simp only [ha]; omega)
  · exact torn_outside D g.lss hl _ keep _ _ (by simp only [ha]; omega)

end fields

/-! ### every flat crash state is a record-level crash state -/

/-- the five synced writes of the repaired `Write` (protective MBR last), with natural-number offsets -/
def fiveWrsG (g : Geo) (arr phN bhN pm : Bytes) : List Wr :=
  [⟨g.aB * g.lss, arr⟩, ⟨g.hB * g.lss, bhN⟩, ⟨g.aP * g.lss, arr⟩, ⟨g.lss, phN⟩, ⟨446, pm⟩]

section crash
variable {g : Geo} {size : Nat}

theorem toDiskG_complete (L : Lay g size) (d0 : Dev) (arr phN bhN pm : Bytes)
    (ha : arr.length = g.ab) (hph : phN.length = g.lss) (hbh : bhN.length = g.lss) (hpm : pm.length = 66) :
    toDiskG (applyWrs d0 (fiveWrsG g arr phN bhN pm)) g =
      { mbr := readAt (applyWrs d0 (fiveWrsG g arr phN bhN pm)) 0 g.lss, ph := phN, pa := sectorsG g.lss g.ab g.p arr,
        ba := sectorsG g.lss g.ab g.p arr, bh := bhN } := by
  show toDiskG (applyWr (applyWr (applyWr (applyWr (applyWr d0 ⟨g.aB * g.lss, arr⟩) ⟨g.hB * g.lss, bhN⟩) ⟨g.aP * g.lss, arr⟩)
    ⟨g.lss, phN⟩) ⟨446, pm⟩) g = _
  rw [toDiskG_write_pm L _ pm hpm, toDiskG_write_ph L _ phN hph, toDiskG_write_pa L _ arr ha,
    toDiskG_write_bh L _ bhN hbh, toDiskG_write_ba L _ arr ha]
  rfl

/-- CRASH STATES, any geometry: the flat device after the first `k` writes in full and the next one with any
    subset of its sectors is one of the record-level `Crash` states between the old device and the completed one -/
theorem crash_is_CrashG (L : Lay g size) (d0 : Dev) (arr phN bhN pm : Bytes)
    (ha : arr.length = g.ab) (hph : phN.length = g.lss) (hbh : bhN.length = g.lss) (hpm : pm.length = 66)
    (k : Nat) (keep : Nat → Bool) :
    Crash false (toDiskG d0 g) (toDiskG (applyWrs d0 (fiveWrsG g arr phN bhN pm)) g)
      (toDiskG (crashDev d0 g.lss (fiveWrsG g arr phN bhN pm) k keep) g) := by
  have h512 := L.h512
  have hnew := toDiskG_complete L d0 arr phN bhN pm ha hph hbh hpm
  match k with
  | 0 =>
    show Crash false _ _ (toDiskG (applyWrs d0 (tornPieces g.lss ⟨g.aB * g.lss, arr⟩ keep)) g)
    rw [toDiskG_torn_ba L d0 arr ha keep, hnew]
    exact Crash.backupArray (fun i => keep i.val)
  | 1 =>
    show Crash false _ _ (toDiskG (applyWrs (applyWr d0 ⟨g.aB * g.lss, arr⟩)
      (tornPieces g.lss ⟨g.hB * g.lss, bhN⟩ keep)) g)
    rw [torn_single g.lss _ keep (by simp only [hbh]; omega) (by simp only [hbh]; omega), hnew]
    cases keep 0
    · show Crash false _ _ (toDiskG (applyWr d0 ⟨g.aB * g.lss, arr⟩) g)
      rw [toDiskG_write_ba L _ arr ha]
      exact Crash.backupHeader _ (Or.inl rfl)
    · show Crash false _ _ (toDiskG (applyWr (applyWr d0 ⟨g.aB * g.lss, arr⟩) ⟨g.hB * g.lss, bhN⟩) g)
      rw [toDiskG_write_bh L _ bhN hbh, toDiskG_write_ba L _ arr ha]
      exact Crash.backupHeader bhN (Or.inr rfl)
  | 2 =>
    show Crash false _ _ (toDiskG (applyWrs (applyWr (applyWr d0 ⟨g.aB * g.lss, arr⟩) ⟨g.hB * g.lss, bhN⟩)
      (tornPieces g.lss ⟨g.aP * g.lss, arr⟩ keep)) g)
    rw [toDiskG_torn_pa L _ arr ha keep, toDiskG_write_bh L _ bhN hbh, toDiskG_write_ba L _ arr ha, hnew]
    exact Crash.primaryArray (fun i => keep i.val)
  | 3 =>
    show Crash false _ _ (toDiskG (applyWrs (applyWr (applyWr (applyWr d0 ⟨g.aB * g.lss, arr⟩) ⟨g.hB * g.lss, bhN⟩)
      ⟨g.aP * g.lss, arr⟩) (tornPieces g.lss ⟨g.lss, phN⟩ keep)) g)
    rw [torn_single g.lss _ keep (by simp only [hph]; omega) (by simp only [hph]; omega), hnew]
    cases keep 0
    · show Crash false _ _ (toDiskG (applyWr (applyWr (applyWr d0 ⟨g.aB * g.lss, arr⟩) ⟨g.hB * g.lss, bhN⟩)
        ⟨g.aP * g.lss, arr⟩) g)
      rw [toDiskG_write_pa L _ arr ha, toDiskG_write_bh L _ bhN hbh, toDiskG_write_ba L _ arr ha]
      exact Crash.primaryHeader _ (Or.inl rfl)
    · show Crash false _ _ (toDiskG (applyWr (applyWr (applyWr (applyWr d0 ⟨g.aB * g.lss, arr⟩) ⟨g.hB * g.lss, bhN⟩)
        ⟨g.aP * g.lss, arr⟩) ⟨g.lss, phN⟩) g)
      rw [toDiskG_write_ph L _ phN hph, toDiskG_write_pa L _ arr ha, toDiskG_write_bh L _ bhN hbh, toDiskG_write_ba L _ arr ha]
      exact Crash.primaryHeader phN (Or.inr rfl)
  | 4 =>
    show Crash false _ _ (toDiskG (applyWrs (applyWr (applyWr (applyWr (applyWr d0 ⟨g.aB * g.lss, arr⟩) ⟨g.hB * g.lss, bhN⟩)
      ⟨g.aP * g.lss, arr⟩) ⟨g.lss, phN⟩) (tornPieces g.lss ⟨446, pm⟩ keep)) g)
    rw [torn_single g.lss _ keep (by simp only [hpm]; omega) (by simp only [hpm]; omega)]
    cases keep 0
    · show Crash false _ _ (toDiskG (applyWr (applyWr (applyWr (applyWr d0 ⟨g.aB * g.lss, arr⟩) ⟨g.hB * g.lss, bhN⟩)
        ⟨g.aP * g.lss, arr⟩) ⟨g.lss, phN⟩) g)
      rw [hnew, toDiskG_write_ph L _ phN hph, toDiskG_write_pa L _ arr ha, toDiskG_write_bh L _ bhN hbh, toDiskG_write_ba L _ arr ha]
      exact Crash.pmbrLast _ (Or.inl rfl) rfl
    · exact complete_is_crash_state false _ _
  | k + 5 =>
    have h1 : (fiveWrsG g arr phN bhN pm).take (k + 5) = fiveWrsG g arr phN bhN pm :=
      List.take_of_length_le (by simp [fiveWrsG])
    have h2 : (fiveWrsG g arr phN bhN pm)[k + 5]? = none := List.getElem?_eq_none (by simp [fiveWrsG])
    unfold crashDev
    simp only [h1, h2]
    exact complete_is_crash_state false _ _

end crash

end Diskfs.GptCrash
