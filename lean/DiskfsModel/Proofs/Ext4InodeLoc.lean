/-
  Helper lemmas for the inode addressing theorems of Props/C20.lean.
-/
import DiskfsModel.Model.Ext4.InodeLoc
namespace Diskfs.Ext4.Reader

/-! ### records of little-endian fields -/

/-- a record as a list of (width in bytes, value): its on-disk bytes -/
def encFields : List (Nat × Nat) → Bytes
  | [] => []
  | (w, v) :: fs => leEnc w v ++ encFields fs

/-- byte offset of field `i` -/
def fieldOff : List (Nat × Nat) → Nat → Nat
  | [], _ => 0
  | _ :: _, 0 => 0
  | (w, _) :: fs, i + 1 => w + fieldOff fs i

theorem encFields_length : ∀ fs : List (Nat × Nat), (encFields fs).length = (fs.map Prod.fst).sum
  | [] => rfl
  | (w, v) :: fs => by simp [encFields, encFields_length fs]

/-- reading field `i` of an encoded record (whatever follows it) gives its value modulo its width -/
theorem field_get : ∀ (fs : List (Nat × Nat)) (i : Nat) (tail : Bytes), i < fs.length →
    leDec (slice (encFields fs ++ tail) (fieldOff fs i) (fieldOff fs i + (fs.getD i (0, 0)).1)) =
      (fs.getD i (0, 0)).2 % 256 ^ (fs.getD i (0, 0)).1
  | [], _, _, h => by simp at h
  | (w, v) :: fs, 0, tail, _ => by
    simp only [fieldOff, encFields, List.getD_cons_zero, Nat.zero_add]
    have : slice (leEnc w v ++ encFields fs ++ tail) 0 w = leEnc w v := by
      simp [slice, List.append_assoc]
    rw [this, leDec_leEnc]
  | (w, v) :: fs, i + 1, tail, h => by
    simp only [fieldOff, encFields, List.getD_cons_succ]
    have ih := field_get fs i tail (by simpa using h)
    have : slice (leEnc w v ++ encFields fs ++ tail) (w + fieldOff fs i) (w + fieldOff fs i + (fs.getD i (0, 0)).1) =
        slice (encFields fs ++ tail) (fieldOff fs i) (fieldOff fs i + (fs.getD i (0, 0)).1) := by
      simp only [slice, List.append_assoc]
      rw [List.drop_append, List.drop_of_length_le (by simp)]
      simp only [leEnc_length, List.nil_append, Nat.add_sub_cancel_left]
    rw [this, ih]

theorem le32_field (fs : List (Nat × Nat)) (i : Nat) (tail : Bytes) (o : Nat) (h : i < fs.length)
    (hw : (fs.getD i (0, 0)).1 = 4) (ho : fieldOff fs i = o) :
    le32 (encFields fs ++ tail) o = (fs.getD i (0, 0)).2 % 4294967296 := by
  have := field_get fs i tail h
  rw [hw, ho] at this
  unfold le32
  rw [this]

theorem le16_field (fs : List (Nat × Nat)) (i : Nat) (tail : Bytes) (o : Nat) (h : i < fs.length)
    (hw : (fs.getD i (0, 0)).1 = 2) (ho : fieldOff fs i = o) :
    le16 (encFields fs ++ tail) o = (fs.getD i (0, 0)).2 % 65536 := by
  have := field_get fs i tail h
  rw [hw, ho] at this
  unfold le16
  rw [this]

/-! ### group descriptor layout -/

/-- the on-disk layout of a 64-byte group descriptor (struct ext4_group_desc): low halves in the first
    32 bytes, high halves behind; `csum` and `rsv` are the checksum and reserved words -/
def gdFields (v : GdInfo) (csum rsv : Nat) : List (Nat × Nat) :=
  [ (4, v.blockBitmap), (4, v.inodeBitmap), (4, v.inodeTable), (2, v.freeBlocks), (2, v.freeInodes),
    (2, v.usedDirs), (2, v.flags), (4, v.exclBitmap), (2, v.blockBitmapCsum), (2, v.inodeBitmapCsum),
    (2, v.unusedInodes), (2, csum),
    (4, v.blockBitmap / 4294967296), (4, v.inodeBitmap / 4294967296), (4, v.inodeTable / 4294967296),
    (2, v.freeBlocks / 65536), (2, v.freeInodes / 65536), (2, v.usedDirs / 65536),
    (2, v.unusedInodes / 65536), (4, v.exclBitmap / 4294967296), (2, v.blockBitmapCsum / 65536),
    (2, v.inodeBitmapCsum / 65536), (4, rsv) ]

def gdEncode (v : GdInfo) (csum rsv : Nat) : Bytes := encFields (gdFields v csum rsv)

theorem gdEncode_length (v : GdInfo) (csum rsv : Nat) : (gdEncode v csum rsv).length = 64 := by
  simp [gdEncode, encFields_length, gdFields]

/-- values a 64-byte descriptor can hold -/
def GdWF64 (v : GdInfo) : Prop :=
  v.blockBitmap < 18446744073709551616 ∧ v.inodeBitmap < 18446744073709551616 ∧
  v.inodeTable < 18446744073709551616 ∧ v.exclBitmap < 18446744073709551616 ∧
  v.freeBlocks < 4294967296 ∧ v.freeInodes < 4294967296 ∧ v.usedDirs < 4294967296 ∧
  v.unusedInodes < 4294967296 ∧ v.blockBitmapCsum < 4294967296 ∧ v.inodeBitmapCsum < 4294967296 ∧
  v.flags < 65536

/-- the low halves: what a 32-byte descriptor holds, and what a reader that ignores the high halves sees -/
def gdLow (v : GdInfo) : GdInfo :=
  { blockBitmap := v.blockBitmap % 4294967296, inodeBitmap := v.inodeBitmap % 4294967296,
    inodeTable := v.inodeTable % 4294967296, freeBlocks := v.freeBlocks % 65536,
    freeInodes := v.freeInodes % 65536, usedDirs := v.usedDirs % 65536,
    unusedInodes := v.unusedInodes % 65536, exclBitmap := v.exclBitmap % 4294967296,
    blockBitmapCsum := v.blockBitmapCsum % 65536, inodeBitmapCsum := v.inodeBitmapCsum % 65536,
    flags := v.flags % 65536 }

theorem gdDecode_wide (v : GdInfo) (csum rsv : Nat) (tail : Bytes) (h : GdWF64 v) :
    gdDecode (gdEncode v csum rsv ++ tail) 64 = v := by
  obtain ⟨h1, h2, h3, h4, h5, h6, h7, h8, h9, h10, h11⟩ := h
  have L : (gdFields v csum rsv).length = 23 := rfl
  have f0 : le32 (gdEncode v csum rsv ++ tail) 0x0 = v.blockBitmap % 4294967296 :=
    le32_field (gdFields v csum rsv) 0 tail 0x0 (by rw [L]; decide) rfl (by simp [gdFields, fieldOff])
  have f1 : le32 (gdEncode v csum rsv ++ tail) 0x4 = v.inodeBitmap % 4294967296 :=
    le32_field (gdFields v csum rsv) 1 tail 0x4 (by rw [L]; decide) rfl (by simp [gdFields, fieldOff])
  have f2 : le32 (gdEncode v csum rsv ++ tail) 0x8 = v.inodeTable % 4294967296 :=
    le32_field (gdFields v csum rsv) 2 tail 0x8 (by rw [L]; decide) rfl (by simp [gdFields, fieldOff])
  have f3 : le16 (gdEncode v csum rsv ++ tail) 0xc = v.freeBlocks % 65536 :=
    le16_field (gdFields v csum rsv) 3 tail 0xc (by rw [L]; decide) rfl (by simp [gdFields, fieldOff])
  have f4 : le16 (gdEncode v csum rsv ++ tail) 0xe = v.freeInodes % 65536 :=
    le16_field (gdFields v csum rsv) 4 tail 0xe (by rw [L]; decide) rfl (by simp [gdFields, fieldOff])
  have f5 : le16 (gdEncode v csum rsv ++ tail) 0x10 = v.usedDirs % 65536 :=
    le16_field (gdFields v csum rsv) 5 tail 0x10 (by rw [L]; decide) rfl (by simp [gdFields, fieldOff])
  have f6 : le16 (gdEncode v csum rsv ++ tail) 0x12 = v.flags % 65536 :=
    le16_field (gdFields v csum rsv) 6 tail 0x12 (by rw [L]; decide) rfl (by simp [gdFields, fieldOff])
  have f7 : le32 (gdEncode v csum rsv ++ tail) 0x14 = v.exclBitmap % 4294967296 :=
    le32_field (gdFields v csum rsv) 7 tail 0x14 (by rw [L]; decide) rfl (by simp [gdFields, fieldOff])
  have f8 : le16 (gdEncode v csum rsv ++ tail) 0x18 = v.blockBitmapCsum % 65536 :=
    le16_field (gdFields v csum rsv) 8 tail 0x18 (by rw [L]; decide) rfl (by simp [gdFields, fieldOff])
  have f9 : le16 (gdEncode v csum rsv ++ tail) 0x1a = v.inodeBitmapCsum % 65536 :=
    le16_field (gdFields v csum rsv) 9 tail 0x1a (by rw [L]; decide) rfl (by simp [gdFields, fieldOff])
  have f10 : le16 (gdEncode v csum rsv ++ tail) 0x1c = v.unusedInodes % 65536 :=
    le16_field (gdFields v csum rsv) 10 tail 0x1c (by rw [L]; decide) rfl (by simp [gdFields, fieldOff])
  have f12 : le32 (gdEncode v csum rsv ++ tail) 0x20 = v.blockBitmap / 4294967296 % 4294967296 :=
    le32_field (gdFields v csum rsv) 12 tail 0x20 (by rw [L]; decide) rfl (by simp [gdFields, fieldOff])
  have f13 : le32 (gdEncode v csum rsv ++ tail) 0x24 = v.inodeBitmap / 4294967296 % 4294967296 :=
    le32_field (gdFields v csum rsv) 13 tail 0x24 (by rw [L]; decide) rfl (by simp [gdFields, fieldOff])
  have f14 : le32 (gdEncode v csum rsv ++ tail) 0x28 = v.inodeTable / 4294967296 % 4294967296 :=
    le32_field (gdFields v csum rsv) 14 tail 0x28 (by rw [L]; decide) rfl (by simp [gdFields, fieldOff])
  have f15 : le16 (gdEncode v csum rsv ++ tail) 0x2c = v.freeBlocks / 65536 % 65536 :=
    le16_field (gdFields v csum rsv) 15 tail 0x2c (by rw [L]; decide) rfl (by simp [gdFields, fieldOff])
  have f16 : le16 (gdEncode v csum rsv ++ tail) 0x2e = v.freeInodes / 65536 % 65536 :=
    le16_field (gdFields v csum rsv) 16 tail 0x2e (by rw [L]; decide) rfl (by simp [gdFields, fieldOff])
  have f17 : le16 (gdEncode v csum rsv ++ tail) 0x30 = v.usedDirs / 65536 % 65536 :=
    le16_field (gdFields v csum rsv) 17 tail 0x30 (by rw [L]; decide) rfl (by simp [gdFields, fieldOff])
  have f18 : le16 (gdEncode v csum rsv ++ tail) 0x32 = v.unusedInodes / 65536 % 65536 :=
    le16_field (gdFields v csum rsv) 18 tail 0x32 (by rw [L]; decide) rfl (by simp [gdFields, fieldOff])
  have f19 : le32 (gdEncode v csum rsv ++ tail) 0x34 = v.exclBitmap / 4294967296 % 4294967296 :=
    le32_field (gdFields v csum rsv) 19 tail 0x34 (by rw [L]; decide) rfl (by simp [gdFields, fieldOff])
  have f20 : le16 (gdEncode v csum rsv ++ tail) 0x38 = v.blockBitmapCsum / 65536 % 65536 :=
    le16_field (gdFields v csum rsv) 20 tail 0x38 (by rw [L]; decide) rfl (by simp [gdFields, fieldOff])
  have f21 : le16 (gdEncode v csum rsv ++ tail) 0x3a = v.inodeBitmapCsum / 65536 % 65536 :=
    le16_field (gdFields v csum rsv) 21 tail 0x3a (by rw [L]; decide) rfl (by simp [gdFields, fieldOff])
  unfold gdDecode
  simp only [f0, f1, f2, f3, f4, f5, f6, f7, f8, f9, f10, f12, f13, f14, f15, f16, f17, f18, f19, f20, f21, beq_self_eq_true, if_true, compose32, compose16]
  cases v
  simp only [GdInfo.mk.injEq]
  simp only at h1 h2 h3 h4 h5 h6 h7 h8 h9 h10 h11
  refine ⟨?_, ?_, ?_, ?_, ?_, ?_, ?_, ?_, ?_, ?_, ?_⟩ <;> omega

theorem gdDecode_narrow (v : GdInfo) (csum rsv : Nat) (tail : Bytes) (gdSize : Nat) (hg : gdSize ≠ 64) :
    gdDecode (gdEncode v csum rsv ++ tail) gdSize = gdLow v := by
  have L : (gdFields v csum rsv).length = 23 := rfl
  have f0 : le32 (gdEncode v csum rsv ++ tail) 0x0 = v.blockBitmap % 4294967296 :=
    le32_field (gdFields v csum rsv) 0 tail 0x0 (by rw [L]; decide) rfl rfl
  have f1 : le32 (gdEncode v csum rsv ++ tail) 0x4 = v.inodeBitmap % 4294967296 :=
    le32_field (gdFields v csum rsv) 1 tail 0x4 (by rw [L]; decide) rfl rfl
  have f2 : le32 (gdEncode v csum rsv ++ tail) 0x8 = v.inodeTable % 4294967296 :=
    le32_field (gdFields v csum rsv) 2 tail 0x8 (by rw [L]; decide) rfl rfl
  have f3 : le16 (gdEncode v csum rsv ++ tail) 0xc = v.freeBlocks % 65536 :=
    le16_field (gdFields v csum rsv) 3 tail 0xc (by rw [L]; decide) rfl rfl
  have f4 : le16 (gdEncode v csum rsv ++ tail) 0xe = v.freeInodes % 65536 :=
    le16_field (gdFields v csum rsv) 4 tail 0xe (by rw [L]; decide) rfl rfl
  have f5 : le16 (gdEncode v csum rsv ++ tail) 0x10 = v.usedDirs % 65536 :=
    le16_field (gdFields v csum rsv) 5 tail 0x10 (by rw [L]; decide) rfl rfl
  have f6 : le16 (gdEncode v csum rsv ++ tail) 0x12 = v.flags % 65536 :=
    le16_field (gdFields v csum rsv) 6 tail 0x12 (by rw [L]; decide) rfl rfl
  have f7 : le32 (gdEncode v csum rsv ++ tail) 0x14 = v.exclBitmap % 4294967296 :=
    le32_field (gdFields v csum rsv) 7 tail 0x14 (by rw [L]; decide) rfl rfl
  have f8 : le16 (gdEncode v csum rsv ++ tail) 0x18 = v.blockBitmapCsum % 65536 :=
    le16_field (gdFields v csum rsv) 8 tail 0x18 (by rw [L]; decide) rfl rfl
  have f9 : le16 (gdEncode v csum rsv ++ tail) 0x1a = v.inodeBitmapCsum % 65536 :=
    le16_field (gdFields v csum rsv) 9 tail 0x1a (by rw [L]; decide) rfl rfl
  have f10 : le16 (gdEncode v csum rsv ++ tail) 0x1c = v.unusedInodes % 65536 :=
    le16_field (gdFields v csum rsv) 10 tail 0x1c (by rw [L]; decide) rfl rfl
  have hb : (gdSize == 64) = false := by simpa using hg
  unfold gdDecode gdLow
  simp only [f0, f1, f2, f3, f4, f5, f6, f7, f8, f9, f10, hb, Bool.false_eq_true, if_false, compose32, compose16,
    Nat.zero_mul, Nat.add_zero]

/-! ### inode addressing -/

/-- descriptors well formed for a geometry: one table of `inodesPerGroup*inodeSize` bytes per group,
    ending below 2^63 bytes (int64 offsets), at most 2^32 bytes long, tables of different groups disjoint -/
def TablesWF (g : InoGeo) (tables : List Nat) : Prop :=
  0 < g.inodesPerGroup ∧ 0 < g.inodeSize ∧ g.inodesPerGroup * g.inodeSize ≤ 4294967296 ∧
  (∀ i, i < tables.length →
    tables.getD i 0 * g.blockSize + g.inodesPerGroup * g.inodeSize ≤ 9223372036854775808) ∧
  (∀ i j, i < j → j < tables.length →
    tables.getD i 0 * g.blockSize + g.inodesPerGroup * g.inodeSize ≤ tables.getD j 0 * g.blockSize ∨
    tables.getD j 0 * g.blockSize + g.inodesPerGroup * g.inodeSize ≤ tables.getD i 0 * g.blockSize)

theorem inodeLoc_valid (g : InoGeo) (tables : List Nat) (h : TablesWF g tables) (n : Nat)
    (h1 : 1 ≤ n) (h2 : n ≤ tables.length * g.inodesPerGroup) :
    (n - 1) / g.inodesPerGroup < tables.length ∧
    inodeLoc g tables n = some (tables.getD ((n - 1) / g.inodesPerGroup) 0 * g.blockSize +
      (n - 1) % g.inodesPerGroup * g.inodeSize, g.inodeSize) ∧
    (n - 1) % g.inodesPerGroup * g.inodeSize + g.inodeSize ≤ g.inodesPerGroup * g.inodeSize := by
  obtain ⟨hipg, hisz, h32, h64, _⟩ := h
  have hbg : (n - 1) / g.inodesPerGroup < tables.length := by
    rw [Nat.div_lt_iff_lt_mul hipg]; omega
  have hidx : (n - 1) % g.inodesPerGroup < g.inodesPerGroup := Nat.mod_lt _ hipg
  have hin : (n - 1) % g.inodesPerGroup * g.inodeSize + g.inodeSize ≤ g.inodesPerGroup * g.inodeSize := by
    have := Nat.mul_le_mul_right g.inodeSize (Nat.succ_le_of_lt hidx)
    rw [Nat.succ_mul] at this
    exact this
  refine ⟨hbg, ?_, hin⟩
  unfold inodeLoc
  rw [if_neg (by omega)]
  simp only []
  rw [if_neg (by omega)]
  have h63 := h64 _ hbg
  rw [Nat.mod_eq_of_lt (a := _ * g.blockSize) (by omega), Nat.mod_eq_of_lt (a := _ * g.inodeSize) (by omega),
    Nat.mod_eq_of_lt (by omega)]

theorem inodeLoc_disjoint (g : InoGeo) (tables : List Nat) (h : TablesWF g tables) (n m : Nat)
    (hn1 : 1 ≤ n) (hn2 : n ≤ tables.length * g.inodesPerGroup)
    (hm1 : 1 ≤ m) (hm2 : m ≤ tables.length * g.inodesPerGroup) (hne : n ≠ m) :
    ∃ on om, inodeLoc g tables n = some (on, g.inodeSize) ∧ inodeLoc g tables m = some (om, g.inodeSize) ∧
      (on + g.inodeSize ≤ om ∨ om + g.inodeSize ≤ on) := by
  obtain ⟨hbn, hln, hin⟩ := inodeLoc_valid g tables h n hn1 hn2
  obtain ⟨hbm, hlm, him⟩ := inodeLoc_valid g tables h m hm1 hm2
  refine ⟨_, _, hln, hlm, ?_⟩
  obtain ⟨hipg, hisz, _, _, hdis⟩ := h
  have dn := Nat.div_add_mod (n - 1) g.inodesPerGroup
  have dm := Nat.div_add_mod (m - 1) g.inodesPerGroup
  by_cases hg : (n - 1) / g.inodesPerGroup = (m - 1) / g.inodesPerGroup
  · -- same group: different slots of one table
    rw [hg] at dn ⊢
    have hidx : (n - 1) % g.inodesPerGroup ≠ (m - 1) % g.inodesPerGroup := by omega
    rcases Nat.lt_or_gt_of_ne hidx with hlt | hlt
    · have := Nat.mul_le_mul_right g.inodeSize (Nat.succ_le_of_lt hlt)
      rw [Nat.succ_mul] at this
      omega
    · have := Nat.mul_le_mul_right g.inodeSize (Nat.succ_le_of_lt hlt)
      rw [Nat.succ_mul] at this
      omega
  · -- different groups: inside disjoint tables
    rcases Nat.lt_or_gt_of_ne hg with hlt | hlt
    · rcases hdis _ _ hlt hbm with hd | hd <;> omega
    · rcases hdis _ _ hlt hbn with hd | hd <;> omega

theorem inodeLoc_refused (g : InoGeo) (tables : List Nat) (n : Nat)
    (h : n = 0 ∨ g.inodesPerGroup = 0 ∨ tables.length * g.inodesPerGroup < n) : inodeLoc g tables n = none := by
  unfold inodeLoc
  by_cases h0 : n = 0 ∨ g.inodesPerGroup = 0
  · rw [if_pos h0]
  · rw [if_neg h0]
    simp only []
    have hipg : 0 < g.inodesPerGroup := by omega
    have : (n - 1) / g.inodesPerGroup ≥ tables.length := by
      rw [ge_iff_le, Nat.le_div_iff_mul_le hipg]; omega
    rw [if_pos this]

end Diskfs.Ext4.Reader
