/-
  Helper lemmas for the SPEC reader of ext4 (property C20):
    * the sequential node decoder equals the mirror's `parseNode` (seqNode_eq)
    * searching the extent tree from the root per logical block (SpecTree.lean) gives what `specLookup`
      gives on the decoded tree, hence what the Go reader's flatten-then-scan gives (treeSearch_decode,
      treeSearch_flatten)
    * addressing arithmetic of SpecGeom.lean under the validity checks of ext4.Read
-/
import DiskfsModel.Proofs.Ext4Reader
import DiskfsModel.Model.Ext4.SpecNode
import DiskfsModel.Model.Ext4.SpecTree
import DiskfsModel.Model.Ext4.SpecGeom
namespace Diskfs.Ext4.Spec
open Diskfs Diskfs.Ext4.Reader

/-! ### sequential node decoder = indexed node decoder -/

theorem take_drop_take (l : Bytes) (m a j : Nat) (h : a + j ≤ m) :
    ((l.take m).drop a).take j = (l.drop a).take j := by
  rw [List.drop_take, List.take_take]
  congr 1
  omega

theorem le32_chunk (b : Bytes) (o a : Nat) (h : a + 4 ≤ 12) :
    leDec ((((b.drop o).take 12).drop a).take 4) = le32 b (o + a) := by
  unfold le32 slice
  rw [take_drop_take _ _ _ _ h, List.drop_drop]
  congr 2
  omega

theorem le16_chunk (b : Bytes) (o a : Nat) (h : a + 2 ≤ 12) :
    leDec ((((b.drop o).take 12).drop a).take 2) = le16 b (o + a) := by
  unfold le16 slice
  rw [take_drop_take _ _ _ _ h, List.drop_drop]
  congr 2
  omega

theorem leafOfChunk_eq (b : Bytes) (i : Nat) :
    leafOfChunk ((b.drop (12 + 12 * i)).take 12) = leafEntry b i := by
  unfold leafOfChunk leafEntry
  have h0 := le32_chunk b (12 + 12 * i) 0 (by omega)
  have h8 := le32_chunk b (12 + 12 * i) 8 (by omega)
  have h6 := le16_chunk b (12 + 12 * i) 6 (by omega)
  have h4 := le16_chunk b (12 + 12 * i) 4 (by omega)
  simp only [List.drop_zero, Nat.add_zero] at h0
  simp only [h0, h8, h6, h4]

theorem indexOfChunk_eq (b : Bytes) (i : Nat) :
    indexOfChunk ((b.drop (12 + 12 * i)).take 12) = indexEntry b i := by
  unfold indexOfChunk indexEntry
  have h0 := le32_chunk b (12 + 12 * i) 0 (by omega)
  have h4 := le32_chunk b (12 + 12 * i) 4 (by omega)
  have h8 := le16_chunk b (12 + 12 * i) 8 (by omega)
  simp only [List.drop_zero, Nat.add_zero] at h0
  simp only [h0, h4, h8]

theorem chunkMap_eq {α : Type} (f : Bytes → α) (g : Nat → α) (b : Bytes)
    (hfg : ∀ i, f ((b.drop (12 + 12 * i)).take 12) = g i) :
    ∀ (n k : Nat), chunkMap f n (b.drop (12 + 12 * k)) = (List.range n).map (fun i => g (k + i)) := by
  intro n
  induction n with
  | zero => intro k; simp [chunkMap]
  | succ n ih =>
    intro k
    rw [chunkMap, hfg k, List.drop_drop, List.range_succ_eq_map, List.map_cons, List.map_map]
    have : 12 + 12 * k + 12 = 12 + 12 * (k + 1) := by omega
    rw [this, ih (k + 1)]
    simp only [Nat.add_zero, List.cons.injEq, true_and]
    apply List.map_congr_left
    intro i _
    simp only [Function.comp, Nat.succ_eq_add_one]
    congr 1
    omega

/-- the executable node decoder of the SPEC reader is the mirror's `parseNode` -/
theorem seqNode_eq (b : Bytes) : seqNode b = parseNode b := by
  unfold seqNode parseNode
  have hm : leDec ((b.take 12).take 2) = le16 b 0 := by
    unfold le16 slice; rw [List.take_take]; simp
  have he : leDec (((b.take 12).drop 2).take 2) = le16 b 2 := by
    unfold le16 slice; rw [take_drop_take _ _ _ _ (by omega)]
  have hd : leDec (((b.take 12).drop 6).take 2) = le16 b 6 := by
    unfold le16 slice; rw [take_drop_take _ _ _ _ (by omega)]
  simp only [hm, he, hd]
  have hl := chunkMap_eq leafOfChunk (leafEntry b) b (leafOfChunk_eq b) (le16 b 2) 0
  have hi := chunkMap_eq indexOfChunk (indexEntry b) b (indexOfChunk_eq b) (le16 b 2) 0
  simp only [Nat.mul_zero, Nat.add_zero, Nat.zero_add] at hl hi
  rw [hl, hi]

/-! ### searching the tree = looking up the decoded tree -/

theorem childLookup_pick {α : Type} (look : α → Nat → Option Nat) : ∀ (cs : List (Nat × α)) (lb : Nat),
    childLookup look cs lb = (match pickChild cs lb with | some t => look t lb | none => none)
  | [], lb => by simp [childLookup, pickChild]
  | [(k, t)], lb => by
    simp only [childLookup, pickChild]
    split <;> rfl
  | (k, t) :: (k', t') :: rest, lb => by
    simp only [childLookup, pickChild]
    split
    · rfl
    · exact childLookup_pick look ((k', t') :: rest) lb

/-- what the search finds on a decoded tree -/
def specG {α : Type} (look : List Extent → Nat → α) : (d : Nat) → TreeD d → Nat → α
  | 0, es, lb => look es lb
  | _ + 1, Sum.inl es, lb => look es lb
  | d + 1, Sum.inr cs, lb =>
    match pickChild cs lb with
    | some t => specG look d t lb
    | none => look [] lb

theorem specG_leafLookup : ∀ (d : Nat) (t : TreeD d) (lb : Nat), specG leafLookup d t lb = specLookup d t lb := by
  intro d
  induction d with
  | zero => intro t lb; rfl
  | succ d ih =>
    intro t lb
    cases t with
    | inl es => rfl
    | inr cs =>
      simp only [specG, specLookup]
      rw [childLookup_pick]
      cases pickChild cs lb with
      | none => simp [leafLookup]
      | some t => exact ih t lb

/-- keys survive a key-preserving fallible map, so the same child position is picked -/
theorem pick_mapRes {α β : Type} (g : Nat × α → Res (Nat × β)) (hk : ∀ c y, g c = .ok y → y.1 = c.1) :
    ∀ (raw : List (Nat × α)) (cs : List (Nat × β)), mapRes g raw = .ok cs → ∀ lb,
      (pickChild raw lb = none → pickChild cs lb = none) ∧
      (∀ a, pickChild raw lb = some a → ∃ c y, c.2 = a ∧ g c = .ok y ∧ pickChild cs lb = some y.2)
  | [], cs, h, lb => by
    simp only [mapRes, Res.ok.injEq] at h
    subst h
    simp [pickChild]
  | [c], cs, h, lb => by
    obtain ⟨y, ys, hy, hys, rfl⟩ := (mapRes_ok_cons g c [] cs).1 h
    simp only [mapRes, Res.ok.injEq] at hys
    subst hys
    have hkey := hk c y hy
    obtain ⟨k, t⟩ := c
    obtain ⟨k2, t2⟩ := y
    simp only at hkey
    subst hkey
    simp only [pickChild]
    constructor
    · intro h1; split at h1
      · cases h1
      · rename_i hn; simp [hn]
    · intro a h1; split at h1
      · rename_i hp
        cases h1
        exact ⟨(k2, t), (k2, t2), rfl, hy, by simp [hp]⟩
      · cases h1
  | c :: c' :: rest, cs, h, lb => by
    obtain ⟨y, ys, hy, hys, rfl⟩ := (mapRes_ok_cons g c (c' :: rest) cs).1 h
    obtain ⟨y', ys', hy', hys', rfl⟩ := (mapRes_ok_cons g c' rest ys).1 hys
    have ih := pick_mapRes g hk (c' :: rest) (y' :: ys') hys lb
    have hkey := hk c y hy
    have hkey' := hk c' y' hy'
    obtain ⟨k, t⟩ := c
    obtain ⟨k2, t2⟩ := y
    obtain ⟨k', t'⟩ := c'
    obtain ⟨k2', t2'⟩ := y'
    simp only at hkey hkey'
    subst hkey hkey'
    simp only [pickChild]
    constructor
    · intro h1; split at h1
      · cases h1
      · rename_i hn; rw [if_neg hn]; exact ih.1 h1
    · intro a h1; split at h1
      · rename_i hp
        cases h1
        exact ⟨(k2, t), (k2, t2), rfl, hy, by rw [if_pos hp]⟩
      · rename_i hn
        obtain ⟨c0, y0, h2, h3, h4⟩ := ih.2 a h1
        exact ⟨c0, y0, h2, h3, by rw [if_neg hn]; exact h4⟩

/-- searching from the root visits one child per level and finds what the fully decoded tree says -/
theorem treeSearchG_decode {α : Type} (look : List Extent → Nat → α) (rd : Nat → Option Bytes) :
    ∀ (d : Nat) (b : Bytes) (t : TreeD d) (lb : Nat), decodeTree rd d b = .ok t →
      treeSearchG look rd d b lb = .ok (specG look d t lb) := by
  intro d
  induction d with
  | zero =>
    intro b t lb h
    simp only [decodeTree] at h
    simp only [treeSearchG, seqNode_eq]
    cases hp : parseNode b with
    | ok n =>
      rw [hp] at h
      cases n with
      | leaf es => cases h; rfl
      | index cs => cases h
    | err => rw [hp] at h; cases h
    | panic => rw [hp] at h; cases h
    | diverge => rw [hp] at h; cases h
  | succ d ih =>
    intro b t lb h
    simp only [decodeTree] at h
    simp only [treeSearchG, seqNode_eq]
    cases hp : parseNode b with
    | ok n =>
      rw [hp] at h
      cases n with
      | leaf es => cases h; rfl
      | index cs =>
        simp only at h
        generalize hg : (fun (c : Nat × Nat) =>
          match rd c.2 with
          | none => (Res.err : Res (Nat × TreeD d))
          | some cb => (decodeTree rd d cb).map fun t => (c.1, t)) = g at h
        cases hm : mapRes g cs with
        | ok cs' =>
          rw [hm] at h
          simp only [Res.map] at h
          cases h
          have hk : ∀ c y, g c = .ok y → y.1 = c.1 := by
            intro c y hy
            subst hg
            simp only at hy
            cases hr : rd c.2 with
            | none => rw [hr] at hy; cases hy
            | some cb =>
              rw [hr] at hy
              simp only at hy
              cases hd : decodeTree rd d cb with
              | ok t0 => rw [hd] at hy; simp only [Res.map, Res.ok.injEq] at hy; subst hy; rfl
              | err => rw [hd] at hy; cases hy
              | panic => rw [hd] at hy; cases hy
              | diverge => rw [hd] at hy; cases hy
          have hpick := pick_mapRes g hk cs cs' hm lb
          simp only [specG]
          cases hpc : pickChild cs lb with
          | none => rw [hpick.1 hpc]
          | some blk =>
            obtain ⟨c, y, hc, hy, hsel⟩ := hpick.2 blk hpc
            rw [hsel]
            subst hg
            simp only at hy
            rw [hc] at hy
            cases hr : rd blk with
            | none => rw [hr] at hy; cases hy
            | some cb =>
              rw [hr] at hy
              simp only at hy ⊢
              cases hd : decodeTree rd d cb with
              | ok t0 =>
                rw [hd] at hy
                simp only [Res.map, Res.ok.injEq] at hy
                subst hy
                simp only [hr]
                exact ih cb t0 lb hd
              | err => rw [hd] at hy; cases hy
              | panic => rw [hd] at hy; cases hy
              | diverge => rw [hd] at hy; cases hy
        | err => rw [hm] at h; cases h
        | panic => rw [hm] at h; cases h
        | diverge => rw [hm] at h; cases h
    | err => rw [hp] at h; cases h
    | panic => rw [hp] at h; cases h
    | diverge => rw [hp] at h; cases h

/-- mirror = spec for extent trees of any depth: where the Go reader's flattening succeeds on a well-formed
    tree, scanning the flat list finds, for every logical block, what the search from the root finds -/
theorem treeSearch_flatten (rd : Nat → Option Bytes) (d : Nat) (root : Bytes) (t : TreeD d) (lo hi : Nat)
    (hdec : decodeTree rd d root = .ok t) (hwf : TreeWF d t lo hi) (lb : Nat) :
    flatten rd d root = .ok (mirrorBlocks d t) ∧
    treeSearch rd d root lb = .ok (leafLookup (mirrorBlocks d t) lb) := by
  constructor
  · simp [flatten, hdec, Res.map]
  · unfold treeSearch
    rw [treeSearchG_decode leafLookup rd d root t lb hdec, specG_leafLookup, flatten_lookup d t lo hi lb hwf]

/-! ### addressing arithmetic under the validity checks of ext4.Read -/

theorem readAccepts_fields (g : Geo) (size : Nat) (h : readAccepts g size = true) :
    0 < g.blocksPerGroup ∧ 0 < g.inodesPerGroup ∧ 32 ≤ g.gdSize ∧ (g.is64 = true → 64 ≤ g.gdSize) ∧
    128 ≤ g.inodeSize ∧ g.inodeSize ≤ g.blockSize ∧ 0 < g.gdSize * g.groupsGo ∧
    (0 < size → g.gdSize * g.groupsGo ≤ size ∧ g.blockCount ≤ size / g.blockSize + 1) := by
  unfold readAccepts at h
  simp only [Bool.and_eq_true, Bool.not_eq_true', Bool.or_eq_false_iff, beq_eq_false_iff_ne, ne_eq,
    decide_eq_false_iff_not, Nat.not_lt, Bool.and_eq_false_imp, decide_eq_true_eq, Nat.not_lt] at h
  obtain ⟨⟨⟨⟨⟨⟨h1, h2⟩, h3, h4⟩, h5, h6⟩, h7⟩, h8⟩, h9⟩ := h
  refine ⟨by omega, by omega, h3, ?_, h5, by omega, by omega, ?_⟩
  · intro hi; have := h4 hi; omega
  · intro hs; exact ⟨by have := h8 hs; omega, by have := h7 hs; omega⟩

/-- every descriptor the reader decodes lies inside the table it read: descriptor `grp` of a volume whose
    superblock passed the checks occupies [gdOff, gdOff + gdSize) ⊆ [gdtStart, gdtStart + gdSize × groups) -/
theorem gd_inside_table (g : Geo) (size : Nat) (h : readAccepts g size = true) (grp : Nat) (hg : grp < g.groupsGo) :
    g.gdtStart ≤ g.gdOff grp ∧ g.gdOff grp + g.gdSize ≤ g.gdtStart + g.gdSize * g.groupsGo ∧
    (0 < size → g.gdSize * g.groupsGo ≤ size) := by
  obtain ⟨_, _, _, _, _, _, _, hsz⟩ := readAccepts_fields g size h
  unfold Geo.gdOff
  have : (grp + 1) * g.gdSize ≤ g.groupsGo * g.gdSize := Nat.mul_le_mul_right _ hg
  rw [Nat.add_mul, Nat.one_mul, Nat.mul_comm g.groupsGo] at this
  exact ⟨by omega, by omega, fun hs => (hsz hs).1⟩

/-- the group count of the format never exceeds the one superblock.blockGroupCount computes -/
theorem groups_le_groupsGo (g : Geo) : g.groups ≤ g.groupsGo := by
  unfold Geo.groups Geo.groupsGo
  apply Nat.div_le_div_right
  omega

theorem ceil_mul_ge (x b : Nat) (hb : 0 < b) : x ≤ (x + b - 1) / b * b := by
  have h1 := Nat.div_add_mod (x + b - 1) b
  have h2 := Nat.mod_lt (x + b - 1) hb
  rw [Nat.mul_comm] at h1
  generalize (x + b - 1) / b * b = p at *
  omega

/-- inode n (n ≥ 1) sits inside the inode table of its group: slot × inodeSize + inodeSize does not exceed
    the table's inodesPerGroup × inodeSize bytes, which fit the table's itableBlocks blocks -/
theorem inode_inside_table (g : Geo) (size : Nat) (h : readAccepts g size = true) (n : Nat) :
    g.inoSlot n < g.inodesPerGroup ∧
    g.inoSlot n * g.inodeSize + g.inodeSize ≤ g.inodesPerGroup * g.inodeSize ∧
    g.inodesPerGroup * g.inodeSize ≤ g.itableBlocks * g.blockSize := by
  obtain ⟨_, hi, _, _, h128, hle, _, _⟩ := readAccepts_fields g size h
  have hs : g.inoSlot n < g.inodesPerGroup := Nat.mod_lt _ hi
  refine ⟨hs, ?_, ceil_mul_ge _ _ (by omega)⟩
  have : (g.inoSlot n + 1) * g.inodeSize ≤ g.inodesPerGroup * g.inodeSize := Nat.mul_le_mul_right _ hs
  rw [Nat.add_mul, Nat.one_mul] at this
  exact this

/-- spec = mirror for inode addressing: where nothing wraps (tables below 2^64 bytes, a group's table
    below 2^32 bytes) readInodeRaw's offset is the format's offset, and it is refused exactly when the
    number is not an inode of the volume -/
theorem inodeOff_eq_mirror (g : Geo) (tables : List Nat) (n : Nat) (hz : 0 < g.inodeSize)
    (hw : g.inodesPerGroup * g.inodeSize ≤ 4294967296)
    (ht : ∀ t ∈ tables, t * g.blockSize + g.inodesPerGroup * g.inodeSize ≤ 18446744073709551616) :
    (inodeLoc ⟨g.blockSize, g.inodeSize, g.inodesPerGroup⟩ tables n).map (·.1) = inodeOff g tables n := by
  unfold inodeLoc inodeOff Geo.inoGroup Geo.inoSlot
  simp only
  by_cases h0 : n = 0 ∨ g.inodesPerGroup = 0
  · rw [if_pos h0, if_pos h0]; rfl
  · rw [if_neg h0, if_neg h0]
    have hi : 0 < g.inodesPerGroup := by omega
    by_cases hb : (n - 1) / g.inodesPerGroup ≥ tables.length
    · rw [if_pos hb, List.getElem?_eq_none hb]; rfl
    · rw [if_neg hb]
      have hlt : (n - 1) / g.inodesPerGroup < tables.length := by omega
      rw [List.getElem?_eq_getElem hlt]
      simp only [Option.map_some, List.getD_eq_getElem?_getD, List.getElem?_eq_getElem hlt, Option.getD_some]
      have hmem := ht _ (List.getElem_mem hlt)
      have hs : (n - 1) % g.inodesPerGroup < g.inodesPerGroup := Nat.mod_lt _ hi
      have hmul : ((n - 1) % g.inodesPerGroup + 1) * g.inodeSize ≤ g.inodesPerGroup * g.inodeSize :=
        Nat.mul_le_mul_right _ hs
      rw [Nat.add_mul, Nat.one_mul] at hmul
      generalize tables[(n - 1) / g.inodesPerGroup] * g.blockSize = tb at *
      generalize (n - 1) % g.inodesPerGroup * g.inodeSize = so at *
      generalize g.inodesPerGroup * g.inodeSize = tot at *
      rw [Nat.mod_eq_of_lt (by omega : tb < 18446744073709551616), Nat.mod_eq_of_lt (by omega : so < 4294967296),
        Nat.mod_eq_of_lt (by omega)]

/-! ### holes, data, unwritten extents -/

/-- on an extent list without unwritten extents the SPEC reader's classification of a block is the mirror's
    lookup: mapped → that device block, not mapped → hole -/
theorem blockRef_plain (es : List Extent) (lb : Nat) (h : ∀ e ∈ es, e.count ≤ 32768) :
    blockRef es lb = (match leafLookup es lb with | some p => .data p | none => .hole) := by
  unfold blockRef leafLookup
  have hc : es.find? (fun e => decide (e.fileBlock ≤ lb ∧ lb < e.fileBlock + extLen e)) =
      es.find? (fun e => decide (e.fileBlock ≤ lb ∧ lb < e.fileBlock + e.count)) := by
    induction es with
    | nil => rfl
    | cons a as ih =>
      have ha := h a (List.mem_cons_self ..)
      have hl : extLen a = a.count := by simp only [extLen, if_neg (by omega : ¬ a.count > 32768)]
      simp only [List.find?_cons, hl]
      rw [ih (fun e he => h e (List.mem_cons_of_mem _ he))]
  rw [hc]
  cases hf : es.find? (fun e => decide (e.fileBlock ≤ lb ∧ lb < e.fileBlock + e.count)) with
  | none => rfl
  | some e =>
    have := h e (List.mem_of_find?_eq_some hf)
    simp only [if_neg (by omega : ¬ e.count > 32768)]

/-- a block classified as unwritten lies inside an extent whose length field is above 32768, within its
    real length `field − 32768` -/
theorem blockRef_unwritten (es : List Extent) (lb : Nat) (h : blockRef es lb = .unwritten) :
    ∃ e ∈ es, e.count > 32768 ∧ e.fileBlock ≤ lb ∧ lb < e.fileBlock + (e.count - 32768) := by
  unfold blockRef at h
  cases hf : es.find? (fun e => decide (e.fileBlock ≤ lb ∧ lb < e.fileBlock + extLen e)) with
  | none => rw [hf] at h; cases h
  | some e =>
    rw [hf] at h
    simp only at h
    have hp := List.find?_some hf
    simp only [decide_eq_true_eq] at hp
    by_cases hu : e.count > 32768
    · refine ⟨e, List.mem_of_find?_eq_some hf, hu, hp.1, ?_⟩
      have := hp.2
      simp only [extLen, if_pos hu] at this
      exact this
    · rw [if_neg hu] at h; cases h

end Diskfs.Ext4.Spec
