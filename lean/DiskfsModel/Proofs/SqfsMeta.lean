import DiskfsModel.Model.Sqfs.Meta
namespace Diskfs.Sqfs

theorem chunksOf_drop_flatten (n : Nat) (hn : 0 < n) (b f : Nat) (s : Bytes) (hf : s.length ≤ f) :
    ((chunksOf n f s).drop b).flatten = s.drop (b * n) := by
  induction b generalizing f s with
  | zero =>
    simp only [List.drop_zero, Nat.zero_mul]
    induction f generalizing s with
    | zero =>
      have : s = [] := List.eq_nil_of_length_eq_zero (by omega)
      subst this; simp [chunksOf]
    | succ f ih =>
      simp only [chunksOf]
      split
      · rename_i he
        have : s = [] := by simpa using he
        subst this; simp
      · rename_i he
        have hl : 0 < s.length := by
          cases s with
          | nil => simp at he
          | cons _ _ => simp
        simp only [List.flatten_cons]
        rw [ih (s.drop n) (by simp; omega)]
        exact List.take_append_drop n s
  | succ b ih =>
    cases f with
    | zero =>
      have : s = [] := List.eq_nil_of_length_eq_zero (by omega)
      subst this; simp [chunksOf]
    | succ f =>
      simp only [chunksOf]
      split
      · rename_i he
        have : s = [] := by simpa using he
        subst this; simp
      · rename_i he
        have hl : 0 < s.length := by
          cases s with
          | nil => simp at he
          | cons _ _ => simp
        simp only [List.drop_succ_cons]
        rw [ih f (s.drop n) (by simp; omega), List.drop_drop]
        congr 1
        rw [Nat.succ_mul]; omega

/-- the reference computed for inode `i` points at the start of its bytes in the stream -/
theorem inodeRefs_point (inodes : List Bytes) (pre : Bytes) (i : Nat) (hi : i < inodes.length) :
    let r := (inodeRefs (inodes.map List.length) pre.length).getD i (0, 0)
    ((pre ++ inodes.flatten).drop (r.1 * metaBlock + r.2)).take (inodes.getD i []).length = inodes.getD i [] := by
  induction inodes generalizing pre i with
  | nil => simp at hi
  | cons x rest ih =>
    cases i with
    | zero =>
      simp only [List.map_cons, inodeRefs, List.getD_cons_zero, List.flatten_cons]
      have : pre.length / metaBlock * metaBlock + pre.length % metaBlock = pre.length := by
        have := Nat.div_add_mod pre.length metaBlock
        rw [Nat.mul_comm] at this; exact this
      rw [this, List.drop_left, List.take_left]
    | succ i =>
      simp only [List.map_cons, inodeRefs, List.getD_cons_succ, List.flatten_cons]
      have := ih (pre ++ x) i (by simpa using hi)
      simp only [List.length_append, List.append_assoc] at this
      exact this

end Diskfs.Sqfs
