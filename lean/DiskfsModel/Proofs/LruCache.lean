/-
  Sequential lemmas about the cache operations of Model/Lru.lean (everything that runs under
  `l.mu`): the map ↔ recency-list invariant is kept by trim / add / unlink+push, `pop` and `unlink`
  never hit their panic under the invariant, and `trim` ends with its loop condition false.
-/
import DiskfsModel.Model.Lru
namespace Diskfs.Lru

/-- map ↔ recency list: the map has one entry per key, the list has no duplicates, and the list's
    blocks are exactly the map's entries. -/
structure CacheInv (c : Cache) : Prop where
  keys : (c.cache.map Prod.fst).Nodup
  order : c.order.Nodup
  same : ∀ r, r ∈ c.order ↔ r ∈ c.cache

theorem key_unique : ∀ {l : List Ref}, (l.map Prod.fst).Nodup → ∀ {x y : Ref}, x ∈ l → y ∈ l → x.1 = y.1 → x = y
  | [], _, _, _, hx, _, _ => by cases hx
  | a :: l, hn, x, y, hx, hy, hk => by
    simp only [List.map_cons, List.nodup_cons] at hn
    rcases List.mem_cons.1 hx with rfl | hx' <;> rcases List.mem_cons.1 hy with rfl | hy'
    · rfl
    · exact absurd (hk ▸ List.mem_map_of_mem (f := Prod.fst) hy') hn.1
    · exact absurd (hk ▸ List.mem_map_of_mem (f := Prod.fst) hx') hn.1
    · exact key_unique hn.2 hx' hy' hk

theorem nodup_of_keys : ∀ {l : List Ref}, (l.map Prod.fst).Nodup → l.Nodup
  | [], _ => List.nodup_nil
  | a :: l, hn => by
    simp only [List.map_cons, List.nodup_cons] at hn
    exact List.nodup_cons.2 ⟨fun h => hn.1 (List.mem_map_of_mem (f := Prod.fst) h), nodup_of_keys hn.2⟩

theorem lookup_some {cache : List Ref} {pos : Pos} {r : Ref} (h : lookup cache pos = some r) :
    r ∈ cache ∧ r.1 = pos := by
  unfold lookup at h
  exact ⟨List.mem_of_find?_eq_some h, by simpa using List.find?_some h⟩

theorem lookup_none {cache : List Ref} {pos : Pos} (h : lookup cache pos = none) :
    ∀ r ∈ cache, r.1 ≠ pos := by
  unfold lookup at h
  intro r hr
  have := List.find?_eq_none.1 h r hr
  simpa using this

theorem mem_mapDelete {cache : List Ref} {pos : Pos} {x : Ref} :
    x ∈ mapDelete cache pos ↔ x ∈ cache ∧ x.1 ≠ pos := by
  simp [mapDelete, List.mem_filter]

theorem keys_mapDelete {cache : List Ref} (pos : Pos) (h : (cache.map Prod.fst).Nodup) :
    ((mapDelete cache pos).map Prod.fst).Nodup :=
  List.Nodup.sublist (List.Sublist.map _ List.filter_sublist) h

theorem mapDelete_length_le (cache : List Ref) (pos : Pos) : (mapDelete cache pos).length ≤ cache.length :=
  List.length_filter_le _ _

/-- one iteration of `trim`: pop the list head and delete its key from the map -/
theorem CacheInv.popDelete {cache rest : List Ref} {r : Ref} (h : CacheInv ⟨cache, r :: rest⟩) :
    CacheInv ⟨mapDelete cache r.1, rest⟩ := by
  have hn := List.nodup_cons.1 h.order
  refine ⟨keys_mapDelete _ h.keys, hn.2, fun x => ?_⟩
  simp only [mem_mapDelete]
  constructor
  · intro hx
    have hxc : x ∈ cache := (h.same x).1 (List.mem_cons_of_mem _ hx)
    have hrc : r ∈ cache := (h.same r).1 (List.mem_cons_self)
    refine ⟨hxc, fun hk => ?_⟩
    have : x = r := key_unique h.keys hxc hrc hk
    exact hn.1 (this ▸ hx)
  · intro ⟨hxc, hk⟩
    rcases List.mem_cons.1 ((h.same x).2 hxc) with rfl | hx
    · exact absurd rfl hk
    · exact hx

/-- the tail of `add`: map insert + push, for a block whose key is not in the map -/
theorem CacheInv.insertPush {c : Cache} {r : Ref} (h : CacheInv c) (hfresh : ∀ x ∈ c.cache, x.1 ≠ r.1) :
    CacheInv ⟨mapSet c.cache r, push c.order r⟩ := by
  have hdel : ∀ x, x ∈ mapDelete c.cache r.1 ↔ x ∈ c.cache := fun x => by
    rw [mem_mapDelete]; exact ⟨fun h => h.1, fun hx => ⟨hx, hfresh x hx⟩⟩
  have hr : r ∉ c.order := fun hr => hfresh r ((h.same r).1 hr) rfl
  refine ⟨?_, ?_, fun x => ?_⟩
  · simp only [mapSet, List.map_cons, List.nodup_cons]
    refine ⟨fun hm => ?_, keys_mapDelete _ h.keys⟩
    rcases List.mem_map.1 hm with ⟨y, hy, hk⟩
    exact (mem_mapDelete.1 hy).2 hk
  · simp only [push]
    refine List.nodup_append.2 ⟨h.order, by simp, fun a ha b hb => ?_⟩
    rw [List.mem_singleton.1 hb]
    exact fun e => hr (e ▸ ha)
  · simp only [push, mapSet, List.mem_append, List.mem_cons, List.not_mem_nil, or_false, hdel, h.same]
    constructor
    · rintro (hx | rfl)
      · exact Or.inr hx
      · exact Or.inl rfl
    · rintro (rfl | hx)
      · exact Or.inr rfl
      · exact Or.inl hx

/-- the hit path of `get`: unlink + push of a block that is in the map -/
theorem CacheInv.relink {c : Cache} {r : Ref} (h : CacheInv c) (hr : r ∈ c.cache) :
    ∃ o, unlink c.order r = some o ∧ CacheInv ⟨c.cache, push o r⟩ := by
  have hro : r ∈ c.order := (h.same r).2 hr
  refine ⟨c.order.erase r, by simp [unlink, hro], h.keys, ?_, fun x => ?_⟩
  · simp only [push]
    refine List.nodup_append.2 ⟨h.order.erase r, by simp, fun a ha b hb => ?_⟩
    rw [List.mem_singleton.1 hb]
    exact ((List.Nodup.mem_erase_iff h.order).1 ha).1
  · simp only [push, List.mem_append, List.mem_singleton, List.Nodup.mem_erase_iff h.order, ← h.same]
    constructor
    · rintro (⟨_, hx⟩ | rfl)
      · exact hx
      · exact hro
    · intro hx
      by_cases e : x = r
      · exact Or.inr e
      · exact Or.inl ⟨e, hx⟩

theorem trimCond_false {c : Cache} {n : Int} (h : trimCond c n = false) :
    (c.cache.length : Int) ≤ n ∨ c.cache.length = 0 := by
  simp only [trimCond, Bool.and_eq_false_iff, decide_eq_false_iff_not] at h
  omega

theorem trimCond_true {c : Cache} {n : Int} (h : trimCond c n = true) : c.cache ≠ [] := by
  simp only [trimCond, Bool.and_eq_true, decide_eq_true_eq] at h
  intro e
  simp [e] at h

/-- `trim` under the invariant: no panic, the invariant is kept, the loop condition is false at
    the end, and only deletions happened. -/
theorem trimLoop_spec (n : Int) : ∀ (fuel : Nat) (c : Cache), CacheInv c → fuel = c.order.length →
    ∃ c', trimLoop n fuel c = some c' ∧ CacheInv c' ∧ trimCond c' n = false ∧
      (∀ x ∈ c'.cache, x ∈ c.cache) ∧ c'.cache.length ≤ c.cache.length
  | 0, c, h, hf => by
    have ho : c.order = [] := List.eq_nil_of_length_eq_zero hf.symm
    have hc : c.cache = [] := by
      cases hcc : c.cache with
      | nil => rfl
      | cons a l =>
        have : a ∈ c.order := (h.same a).2 (by simp [hcc])
        simp [ho] at this
    have hcond : trimCond c n = false := by simp [trimCond, hc]
    exact ⟨c, by simp [trimLoop, hcond], h, hcond, fun _ hx => hx, Nat.le_refl _⟩
  | fuel + 1, c, h, hf => by
    cases hcond : trimCond c n with
    | false => exact ⟨c, by simp [trimLoop, hcond], h, hcond, fun _ hx => hx, Nat.le_refl _⟩
    | true =>
      obtain ⟨cache, order⟩ := c
      cases order with
      | nil => simp at hf
      | cons r rest =>
        have h' : CacheInv ⟨mapDelete cache r.1, rest⟩ := h.popDelete
        obtain ⟨c', hrun, hinv, hc, hsub, hlen⟩ := trimLoop_spec n fuel ⟨mapDelete cache r.1, rest⟩ h' (by simpa using hf)
        refine ⟨c', by simp [trimLoop, hcond, pop, hrun], hinv, hc, fun x hx => (mem_mapDelete.1 (hsub x hx)).1, ?_⟩
        exact Nat.le_trans hlen (mapDelete_length_le _ _)

theorem trim_spec (n : Int) (c : Cache) (h : CacheInv c) :
    ∃ c', trim n c = some c' ∧ CacheInv c' ∧ trimCond c' n = false ∧
      (∀ x ∈ c'.cache, x ∈ c.cache) ∧ c'.cache.length ≤ c.cache.length :=
  trimLoop_spec n _ c h rfl

/-- `add` under the invariant, for a block whose position is not in the map -/
theorem add_spec (slack : Nat) (maxBlocks : Int) (c : Cache) (r : Ref) (h : CacheInv c)
    (hfresh : ∀ x ∈ c.cache, x.1 ≠ r.1) :
    ∃ c', add slack maxBlocks c r = some c' ∧ CacheInv c' ∧
      (∀ x, x ∈ c'.cache → x = r ∨ x ∈ c.cache) ∧ r ∈ c'.cache ∧
      ((c'.cache.length : Int) ≤ maxBlocks - slack + 1 ∨ c'.cache.length = 1) := by
  obtain ⟨c1, hrun, hinv, hc, hsub, _⟩ := trim_spec (maxBlocks - slack) c h
  have hfresh1 : ∀ x ∈ c1.cache, x.1 ≠ r.1 := fun x hx => hfresh x (hsub x hx)
  have hdel : mapDelete c1.cache r.1 = c1.cache := by
    unfold mapDelete
    exact List.filter_eq_self.2 fun x hx => by simpa using hfresh1 x hx
  refine ⟨⟨mapSet c1.cache r, push c1.order r⟩, by simp [add, hrun], hinv.insertPush hfresh1, ?_, ?_, ?_⟩
  · intro x hx
    simp only [mapSet, hdel, List.mem_cons] at hx
    exact hx.imp id (hsub x)
  · simp [mapSet]
  · simp only [mapSet, hdel, List.length_cons]
    rcases trimCond_false hc with h1 | h1
    · left; omega
    · right; omega

/-- the locked prefix of `get` under the invariant: no panic, invariant kept, the returned block is
    the map's entry for `pos`. -/
theorem findOrAdd_spec (slack : Nat) (maxBlocks : Int) (c : Cache) (pos : Pos) (newId : Nat) (h : CacheInv c) :
    ∃ c' r isNew, findOrAdd slack maxBlocks c pos newId = some (c', r, isNew) ∧ CacheInv c' ∧
      r.1 = pos ∧ r ∈ c'.cache ∧
      (∀ x, x ∈ c'.cache → x = r ∨ x ∈ c.cache) ∧
      (isNew = true → r = (pos, newId) ∧
        ((c'.cache.length : Int) ≤ maxBlocks - slack + 1 ∨ c'.cache.length = 1)) ∧
      (isNew = false → r ∈ c.cache ∧ c'.cache = c.cache) := by
  cases hl : lookup c.cache pos with
  | none =>
    obtain ⟨c', hrun, hinv, hsub, hmem, hlen⟩ := add_spec slack maxBlocks c (pos, newId) h (lookup_none hl)
    exact ⟨c', (pos, newId), true, by simp [findOrAdd, hl, hrun], hinv, rfl, hmem, hsub,
      fun _ => ⟨rfl, hlen⟩, fun e => Bool.noConfusion e⟩
  | some r =>
    obtain ⟨hr, hk⟩ := lookup_some hl
    obtain ⟨o, hu, hinv⟩ := h.relink hr
    exact ⟨⟨c.cache, push o r⟩, r, false, by simp [findOrAdd, hl, hu], hinv, hk, hr,
      fun x hx => Or.inr hx, fun e => Bool.noConfusion e, fun _ => ⟨hr, rfl⟩⟩

end Diskfs.Lru
