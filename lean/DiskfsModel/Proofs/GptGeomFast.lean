/-
  An EXECUTABLE-FRIENDLY form of the any-geometry record-level reader: `flatReaderG` assembles an array
  bytewise (`asm`: convenient for the proofs, quadratic to run on lists); `flatReaderGF` concatenates the
  sectors (`join`).  On every record view of a flat device (`toDiskG`) both read the same
  (`read_fast_eq`, `partRead_fast_eq`), so the model driver runs the fast one.
-/
import DiskfsModel.Proofs.GptGeomCrash
set_option linter.unusedSimpArgs false
set_option linter.unusedVariables false
namespace Diskfs.GptCrash
open Diskfs Diskfs.Gpt

def flatReaderGF (crc : Bytes → Nat) (g : Geo) : Reader Bytes (List Part) g.p :=
  { hdrP := (flatReaderG crc g).hdrP, hdrB := (flatReaderG crc g).hdrB,
    crc := fun a => crc (join a), parts := fun a => decodeArr (join a) g.lss }

theorem join_secs {g : Geo} {size : Nat} (L : Lay g size) (d : Dev) (off : Nat) :
    join (secs d g.lss g.ab g.p off) = readAt d off g.ab := by
  have h512 := L.h512; have a1 := L.a1; have a2 := L.a2
  unfold join
  have key : ∀ m, m ≤ g.p → (List.range m).flatMap (fun i => if h : i < g.p then secs d g.lss g.ab g.p off ⟨i, h⟩ else [])
      = readAt d off (min (m * g.lss) g.ab) := by
    intro m
    induction m with
    | zero => intro _; simp [readAt]
    | succ m ih =>
      intro hm
      have hmp : m < g.p := by omega
      have hml : (m + 1) * g.lss ≤ g.p * g.lss := Nat.mul_le_mul_right _ hm
      rw [Nat.add_mul, Nat.one_mul] at hml
      have hlt : m * g.lss < g.ab := by omega
      rw [List.range_succ, List.flatMap_append, ih (by omega)]
      simp only [List.flatMap_cons, List.flatMap_nil, List.append_nil, hmp, dif_pos, secs]
      have e1 : min (m * g.lss) g.ab = m * g.lss := by omega
      have e2 : min ((m + 1) * g.lss) g.ab = m * g.lss + secLen g.lss g.ab m := by
        rw [Nat.add_mul, Nat.one_mul]; unfold secLen; omega
      rw [e1, e2, readAt_append]
  have := key g.p (Nat.le_refl _)
  rw [this]
  congr 1
  omega

theorem fast_fields {g : Geo} {size : Nat} (L : Lay g size) (crc : Bytes → Nat) (d : Dev) :
    (flatReaderGF crc g).crc (toDiskG d g).pa = (flatReaderG crc g).crc (toDiskG d g).pa ∧
    (flatReaderGF crc g).crc (toDiskG d g).ba = (flatReaderG crc g).crc (toDiskG d g).ba ∧
    (flatReaderGF crc g).parts (toDiskG d g).pa = (flatReaderG crc g).parts (toDiskG d g).pa ∧
    (flatReaderGF crc g).parts (toDiskG d g).ba = (flatReaderG crc g).parts (toDiskG d g).ba := by
  have e1 : join (toDiskG d g).pa = asm g.lss g.ab (toDiskG d g).pa := by
    show join (secs d g.lss g.ab g.p (g.aP * g.lss)) = asm g.lss g.ab (secs d g.lss g.ab g.p (g.aP * g.lss))
    rw [join_secs L, asm_secs L]
  have e2 : join (toDiskG d g).ba = asm g.lss g.ab (toDiskG d g).ba := by
    show join (secs d g.lss g.ab g.p (g.aB * g.lss)) = asm g.lss g.ab (secs d g.lss g.ab g.p (g.aB * g.lss))
    rw [join_secs L, asm_secs L]
  simp only [flatReaderGF, flatReaderG, e1, e2, and_self]

/-- on the record view of any flat device the fast reader reads what the theorems' reader reads -/
theorem read_fast_eq {g : Geo} {size : Nat} (G : g.OK size) (crc : Bytes → Nat) (d : Dev) :
    GptCrash.read (flatReaderGF crc g) (toDiskG d g) = GptCrash.read (flatReaderG crc g) (toDiskG d g) := by
  obtain ⟨f1, f2, f3, f4⟩ := fast_fields (lay_of G) crc d
  have hp : (flatReaderGF crc g).hdrP = (flatReaderG crc g).hdrP := rfl
  have hb : (flatReaderGF crc g).hdrB = (flatReaderG crc g).hdrB := rfl
  simp only [GptCrash.read, GptCrash.readBackup, hp, hb, f1, f2, f3, f4]

theorem partRead_fast_eq {M : Type} {g : Geo} {size : Nat} (G : g.OK size) (crc : Bytes → Nat) (mv : Bytes → Option M) (d : Dev) :
    partRead (flatReaderGF crc g) mv (toDiskG d g) = partRead (flatReaderG crc g) mv (toDiskG d g) := by
  unfold partRead
  rw [read_fast_eq G crc d]

end Diskfs.GptCrash
