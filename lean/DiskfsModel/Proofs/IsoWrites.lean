import DiskfsModel.Model.Iso.Writes
import DiskfsModel.Proofs.IsoImage
namespace Diskfs.Iso

/-! ### chunked writes have the effect of one write -/

theorem applyWr_nil (d : Dev) (off : Nat) : applyWr d ⟨off, []⟩ = d := by
  funext i
  unfold applyWr
  simp only [List.length_nil, Nat.add_zero]
  rw [if_neg (by omega)]

/-- two adjacent writes are one write of the concatenation -/
theorem applyWr_append (d : Dev) (off : Nat) (a b : Bytes) :
    applyWr (applyWr d ⟨off, a⟩) ⟨off + a.length, b⟩ = applyWr d ⟨off, a ++ b⟩ := by
  funext i
  unfold applyWr
  simp only [List.length_append]
  by_cases h1 : off + a.length ≤ i ∧ i < off + a.length + b.length
  · rw [if_pos h1, if_pos (by omega)]
    have : i - off = a.length + (i - (off + a.length)) := by omega
    rw [this, List.getD_eq_getElem?_getD, List.getD_eq_getElem?_getD, List.getElem?_append_right (by omega)]
    simp
  · rw [if_neg h1]
    by_cases h2 : off ≤ i ∧ i < off + a.length
    · rw [if_pos h2, if_pos (by omega)]
      rw [List.getD_eq_getElem?_getD, List.getD_eq_getElem?_getD, List.getElem?_append_left (by omega)]
    · rw [if_neg h2, if_neg (by omega)]

theorem chunkWrs_apply (k : Nat) (hk : 0 < k) :
    ∀ (fuel off : Nat) (b : Bytes) (d : Dev), b.length ≤ fuel →
      applyWrs d (chunkWrs k fuel off b) = applyWr d ⟨off, b⟩ := by
  intro fuel
  induction fuel with
  | zero =>
    intro off b d h
    have : b = [] := List.eq_nil_of_length_eq_zero (by omega)
    subst this
    simp [chunkWrs, applyWrs, applyWr_nil]
  | succ fuel ih =>
    intro off b d h
    unfold chunkWrs
    cases hb : b with
    | nil => simp [applyWrs, applyWr_nil]
    | cons x xs =>
      rw [← hb]
      have hne : b.isEmpty = false := by rw [hb]; rfl
      simp only [hne, Bool.false_eq_true, if_false, applyWrs, List.foldl_cons]
      have hlen : 0 < b.length := by rw [hb]; simp
      have := ih (off + k) (b.drop k) (applyWr d ⟨off, b.take k⟩) (by simp; omega)
      simp only [applyWrs] at this
      rw [this]
      by_cases hkb : k ≤ b.length
      · have h1 : (b.take k).length = k := by simp; omega
        have := applyWr_append d off (b.take k) (b.drop k)
        rw [h1, List.take_append_drop] at this
        exact this
      · have h1 : b.drop k = [] := List.drop_eq_nil_of_le (by omega)
        have h2 : b.take k = b := List.take_of_length_le (by omega)
        rw [h1, h2, applyWr_nil]

/-- `copyFileData` + the zero fill: on EVERY device the writes of one file leave what a single
    write of the content padded to whole blocks leaves -/
theorem fileWrs_apply (bs off : Nat) (c : Bytes) (d : Dev) :
    applyWrs d (fileWrs bs off c) = applyWr d ⟨off, padBlock bs c⟩ := by
  unfold fileWrs
  simp only [applyWrs, List.foldl_append]
  have h := chunkWrs_apply copyChunk (by decide) c.length off c d (Nat.le_refl _)
  simp only [applyWrs] at h
  rw [h]
  unfold padBlock
  by_cases hr : c.length % bs > 0
  · rw [if_pos hr]
    simp only [List.foldl_cons, List.foldl_nil]
    rcases Nat.eq_zero_or_pos bs with h0 | h0
    · subst h0
      simp [zeros, applyWr_nil]
    · have hlt : c.length % bs < bs := Nat.mod_lt _ h0
      rw [Nat.mod_eq_of_lt (by omega : bs - c.length % bs < bs)]
      exact applyWr_append d off c _
  · rw [if_neg hr]
    have : c.length % bs = 0 := by omega
    simp [this, zeros]

theorem applyWrs_append (d : Dev) (a b : List Wr) : applyWrs d (a ++ b) = applyWrs (applyWrs d a) b := by
  simp [applyWrs, List.foldl_append]

theorem flatMap_fileWrs_apply (bs : Nat) (loc : Nat → Nat) (content : Nat → Bytes) (fs : List Nat) (d : Dev) :
    applyWrs d (fs.flatMap fun f => fileWrs bs (loc f * bs) (content f)) =
    applyWrs d (fs.map fun f => ⟨loc f * bs, padBlock bs (content f)⟩) := by
  induction fs generalizing d with
  | nil => rfl
  | cons f fs ih =>
    simp only [List.flatMap_cons, List.map_cons, applyWrs_append, fileWrs_apply, ih]
    simp [applyWrs]

/-- **refinement**: on every device the Go write sequence (one WriteAt per 2048-byte chunk, then the
    fill) leaves exactly what the coarse write list of Model/Iso/Image leaves -/
theorem writesGo_apply (i : ImageIn) (d : Dev) : applyWrs d i.writesGo = applyWrs d i.writes := by
  unfold ImageIn.writesGo ImageIn.writes ImageIn.midGo ImageIn.mid
  simp only [applyWrs, List.foldl_cons, List.foldl_append]
  have := flatMap_fileWrs_apply i.bs (fun f => (i.t.ent f).loc) (fun f => (i.t.ent f).content) i.files
  simp only [applyWrs] at this
  rw [this]

/-! ### the reader on a device that held anything before -/

theorem image_holds_on (i : ImageIn) (d0 : Dev) (hdisj : i.writes.Pairwise WrDisjoint)
    (hdirs : ∀ d, d < i.t.n → (i.t.ent d).isDir = true → d ∈ i.dirs)
    (hfiles : ∀ c, c < i.t.n → (i.t.ent c).isDir = false → c ∈ i.files)
    (hsz : ∀ d ∈ i.dirs, (i.t.ent d).size = (i.t.dirBytes i.bs d).length)
    (hfsz : ∀ f ∈ i.files, (i.t.ent f).size = (i.t.ent f).content.length) :
    Holds (i.imageOn d0) i.bs i.t := by
  unfold ImageIn.imageOn
  rw [writesGo_apply]
  refine ⟨?_, ?_⟩
  · intro d hd hdir
    have hm := hdirs d hd hdir
    have hw : (⟨(i.t.ent d).loc * i.bs, padBlock i.bs (i.t.dirBytes i.bs d)⟩ : Wr) ∈ i.writes := by
      exact List.mem_cons_of_mem _ (List.mem_append_left _ (List.mem_append_left _ (List.mem_map.2 ⟨d, hm, rfl⟩)))
    have := applyWrs_read_prefix d0 i.writes hdisj _ hw (i.t.ent d).size (by
      rw [hsz d hm]; exact padBlock_length_ge _ _)
    simp only at this
    rw [this, hsz d hm, padBlock_take]
  · intro c hc hfile
    have hm := hfiles c hc hfile
    have hw : (⟨(i.t.ent c).loc * i.bs, padBlock i.bs (i.t.ent c).content⟩ : Wr) ∈ i.writes := by
      exact List.mem_cons_of_mem _ (List.mem_append_left _ (List.mem_append_right _ (List.mem_append_right _
        (List.mem_map.2 ⟨c, hm, rfl⟩))))
    have := applyWrs_read_prefix d0 i.writes hdisj _ hw (i.t.ent c).size (by
      rw [hfsz c hm]; exact padBlock_length_ge _ _)
    simp only at this
    rw [this, hfsz c hm, padBlock_take]

theorem image_pvd_on (i : ImageIn) (d0 : Dev) (hdisj : i.writes.Pairwise WrDisjoint) (hp : i.pvd.WF) :
    readAt (i.imageOn d0) (16 * i.bs) 2048 = encodePVD i.pvd := by
  have hw : (⟨16 * i.bs, encodePVD i.pvd⟩ : Wr) ∈ i.writes := by
    simp [ImageIn.writes]
  have := applyWrs_read_back d0 i.writes hdisj _ hw
  simp only [encodePVD_length i.pvd hp] at this
  unfold ImageIn.imageOn
  rw [writesGo_apply]
  exact this

theorem reader_on_image_on (i : ImageIn) (d0 : Dev) (fuel : Nat) (hbs : 255 ≤ i.bs) (hwf : i.t.WF) (hp : i.pvd.WF)
    (hpbs : i.pvd.blocksize = i.bs) (hroot : i.pvd.root = i.t.selfRec 0) (h0 : 0 < i.t.n)
    (hrd : (i.t.ent 0).isDir = true)
    (hdirs : ∀ d, d < i.t.n → (i.t.ent d).isDir = true → d ∈ i.dirs)
    (hfiles : ∀ c, c < i.t.n → (i.t.ent c).isDir = false → c ∈ i.files)
    (hsz : ∀ d ∈ i.dirs, (i.t.ent d).size = (i.t.dirBytes i.bs d).length)
    (hfsz : ∀ f ∈ i.files, (i.t.ent f).size = (i.t.ent f).content.length)
    (hdisj : i.writes.Pairwise WrDisjoint) (hfit : i.t.Fits fuel 0) :
    readImageP (i.imageOn d0) (16 * i.bs) fuel = some (i.pvd, i.t.walk fuel [] 0) := by
  have hh := image_holds_on i d0 hdisj hdirs hfiles hsz hfsz
  unfold readImageP
  rw [image_pvd_on i d0 hdisj hp, decode_encodePVD i.pvd hp]
  simp only [hroot, PTree.selfRec, if_true, hpbs]
  have := readDirP_walk (i.imageOn d0) i.bs hbs i.t hwf hh fuel [] 0 h0 hrd hfit
  simp only [PTree.recOf]
  rw [this]
  rfl

/-! ### every write lies inside the declared volume -/

theorem padBlock_length_blocks (bs : Nat) (hbs : 0 < bs) (b : Bytes) :
    (padBlock bs b).length = blocksFor b.length bs * bs := by
  rw [padBlock_length]
  unfold blocksFor
  have hm := Nat.mod_lt b.length hbs
  have hd := Nat.div_add_mod b.length bs
  by_cases h : b.length % bs = 0
  · simp only [h, Nat.sub_zero, Nat.mod_self, Nat.add_zero, Nat.lt_irrefl, if_false]
    rw [Nat.mul_comm] at hd
    omega
  · have hpos : b.length % bs > 0 := by omega
    rw [if_pos hpos, Nat.mod_eq_of_lt (by omega : bs - b.length % bs < bs), Nat.add_mul, Nat.one_mul]
    rw [Nat.mul_comm] at hd
    omega

theorem seqWr_end (bs : Nat) (s : Nat) (ds : List Bytes) :
    ∀ w ∈ seqWr bs s ds, w.off + blocksFor w.data.length bs * bs ≤ (s + (ds.map fun b => blocksFor b.length bs).sum) * bs := by
  induction ds generalizing s with
  | nil => intro w hw; simp [seqWr] at hw
  | cons b r ih =>
    intro w hw
    simp only [seqWr, List.mem_cons] at hw
    simp only [List.map_cons, List.sum_cons]
    rcases hw with rfl | hw
    · simp only
      have : s * bs + blocksFor b.length bs * bs = (s + blocksFor b.length bs) * bs := by rw [Nat.add_mul]
      rw [this]
      exact Nat.mul_le_mul_right bs (by omega)
    · have := ih (s + blocksFor b.length bs) w hw
      rw [← Nat.add_assoc]
      exact this

/-- the chunks of a file stay inside the bytes of the file -/
theorem chunkWrs_range (k : Nat) : ∀ (fuel off : Nat) (b : Bytes),
    ∀ w ∈ chunkWrs k fuel off b, off ≤ w.off ∧ w.off + w.data.length ≤ off + b.length := by
  intro fuel
  induction fuel with
  | zero => intro off b w hw; simp [chunkWrs] at hw
  | succ fuel ih =>
    intro off b w hw
    unfold chunkWrs at hw
    split at hw
    · simp at hw
    · simp only [List.mem_cons] at hw
      rcases hw with rfl | hw
      · simp only [List.length_take]
        omega
      · have := ih (off + k) (b.drop k) w hw
        simp only [List.length_drop] at this
        by_cases hkb : k ≤ b.length
        · omega
        · -- nothing is left: the recursive call produced no write
          have h1 : b.drop k = [] := List.drop_eq_nil_of_le (by omega)
          rw [h1] at hw
          cases fuel <;> simp [chunkWrs] at hw

theorem fileWrs_range (bs : Nat) (hbs : 0 < bs) (off : Nat) (c : Bytes) :
    ∀ w ∈ fileWrs bs off c, off ≤ w.off ∧ w.off + w.data.length ≤ off + blocksFor c.length bs * bs := by
  intro w hw
  have hcov := (blocksFor_covers c.length bs hbs).1
  unfold fileWrs at hw
  rw [List.mem_append] at hw
  rcases hw with hw | hw
  · have := chunkWrs_range copyChunk c.length off c w hw
    omega
  · split at hw
    · simp only [List.mem_singleton] at hw
      subst hw
      have := padBlock_length_blocks bs hbs c
      rw [padBlock_length] at this
      have hm := Nat.mod_lt c.length hbs
      rw [Nat.mod_eq_of_lt (by omega : bs - c.length % bs < bs)] at this
      simp only [zeros_length]
      omega
    · simp at hw

/-- **every WriteAt of Finalize lies inside the volume it declares** (plain image, locations `Placed`):
    system area, directory extents, path tables, every chunk and fill of every file, PVD and
    terminator end at or before `volBlocks * blocksize` -/
theorem writesGo_in_volume (i : ImageIn) (hbs : 2048 ≤ i.bs) (hp : i.pvd.WF) (hpl : i.Placed) :
    ∀ w ∈ i.writesGo, w.off + w.data.length ≤ i.volBlocks * i.bs := by
  have hb0 : 0 < i.bs := by omega
  have hvol : 18 * i.bs ≤ i.volBlocks * i.bs := Nat.mul_le_mul_right _ (by unfold ImageIn.volBlocks dataStartSector; omega)
  -- every coarse piece ends inside the volume
  have hmid : ∀ w ∈ i.mid, w.off + blocksFor w.data.length i.bs * i.bs ≤ i.volBlocks * i.bs := by
    intro w hw
    rw [hpl] at hw
    have := seqWr_end i.bs (dataStartSector + 2) (i.mid.map (·.data)) w hw
    exact this
  intro w hw
  unfold ImageIn.writesGo at hw
  simp only [List.mem_cons, List.mem_append, List.not_mem_nil, or_false] at hw
  rcases hw with rfl | hw | rfl | rfl
  · simp only [zeros_length]; omega
  · unfold ImageIn.midGo at hw
    simp only [List.mem_append, List.mem_map, List.mem_cons, List.not_mem_nil, or_false, List.mem_flatMap] at hw
    rcases hw with ⟨d, hd, rfl⟩ | (rfl | rfl) | ⟨f, hf, hwf⟩
    · have hm : (⟨(i.t.ent d).loc * i.bs, padBlock i.bs (i.t.dirBytes i.bs d)⟩ : Wr) ∈ i.mid :=
        List.mem_append_left _ (List.mem_map.2 ⟨d, hd, rfl⟩)
      have := hmid _ hm
      have hc := (blocksFor_covers (padBlock i.bs (i.t.dirBytes i.bs d)).length i.bs hb0).1
      simp only at this ⊢
      omega
    · have hm : (⟨i.pvd.ptL * i.bs, i.ptLBytes⟩ : Wr) ∈ i.mid :=
        List.mem_append_right _ (List.mem_append_left _ (by simp))
      have := hmid _ hm
      have hc := (blocksFor_covers i.ptLBytes.length i.bs hb0).1
      simp only at this ⊢
      omega
    · have hm : (⟨i.pvd.ptM * i.bs, i.ptMBytes⟩ : Wr) ∈ i.mid :=
        List.mem_append_right _ (List.mem_append_left _ (by simp))
      have := hmid _ hm
      have hc := (blocksFor_covers i.ptMBytes.length i.bs hb0).1
      simp only at this ⊢
      omega
    · have hm : (⟨(i.t.ent f).loc * i.bs, padBlock i.bs (i.t.ent f).content⟩ : Wr) ∈ i.mid :=
        List.mem_append_right _ (List.mem_append_right _ (List.mem_map.2 ⟨f, hf, rfl⟩))
      have := hmid _ hm
      simp only at this
      have hr := fileWrs_range i.bs hb0 _ _ w hwf
      have hpl2 := padBlock_length_blocks i.bs hb0 (i.t.ent f).content
      have hc := (blocksFor_covers (padBlock i.bs (i.t.ent f).content).length i.bs hb0).1
      omega
  · simp only [encodePVD_length i.pvd hp]; omega
  · simp only [terminator_length]; omega

/-- … hence no byte at or beyond the end of the volume changes, whatever the device held -/
theorem imageOn_frame (i : ImageIn) (d0 : Dev) (hbs : 2048 ≤ i.bs) (hp : i.pvd.WF) (hpl : i.Placed)
    (j : Nat) (hj : i.volBlocks * i.bs ≤ j) : i.imageOn d0 j = d0 j := by
  apply applyWrs_frame
  intro w hw
  have := writesGo_in_volume i hbs hp hpl w hw
  omega

end Diskfs.Iso
