/-
  mbr.Read / tableFromBytes / partitionFromBytes as total functions (Model/MbrTable.lean): no slice or index
  expression can panic, for any bytes; one 512-byte allocation; the result equals the by-construction-total
  decoder of Model/Mbr.lean with the caller's sector sizes stamped; round trip and frame at the Table level;
  the partitions of a table read from disk are found by Disk.GetPartition under the indices 1..4 at the byte
  ranges sectors x logical sector size.  Helpers for Props/C02.lean, Props/C15.lean, Props/C13.lean.
-/
import DiskfsModel.Model.MbrTable
import DiskfsModel.Proofs.MbrTable
import DiskfsModel.Proofs.PartDisk
set_option linter.unusedSimpArgs false
set_option linter.unusedVariables false
namespace Diskfs.Mbr
open Diskfs.Gpt (Res)

theorem ok_bind {α β} (a : α) (f : α → Res β) : (Res.ok a >>= f) = f a := rfl
theorem err_bind {α β} (e : Bool) (f : α → Res β) : ((Res.err e : Res α) >>= f) = .err e := rfl
theorem pure_eq {α} (a : α) : (pure a : Res α) = .ok a := rfl

theorem ix_ok (b : Bytes) (i : Nat) (h : i < b.length) : ix b i = .ok (b.getD i 0) := by
  unfold ix
  simp [List.getElem?_eq_getElem h, List.getD_eq_getElem?_getD]

theorem sl_ok (b : Bytes) (lo hi : Nat) (h1 : lo ≤ hi) (h2 : hi ≤ b.length) : sl b lo hi = .ok (slice b lo hi) := by
  unfold sl slice?
  simp [h1, h2, slice]

/-- on 16 bytes partitionFromBytes is the total decoder `entryDec` (no panic) -/
theorem partFromBytes_eq (i : Nat) (b : Bytes) (hb : b.length = 16) :
    partFromBytes i b = match entryDec i b with
      | some p => .ok p
      | none => .err false := by
  unfold partFromBytes entryDec
  have hn : ¬ (b.length ≠ 16) := by omega
  rw [if_neg hn]
  rw [ix_ok b 0 (by omega), ok_bind]
  by_cases hf : b.getD 0 0 ≠ 0x00 ∧ b.getD 0 0 ≠ 0x80
  · rw [if_pos hf, if_pos hf]
  · rw [if_neg hf, if_neg hf]
    rw [ix_ok b 1 (by omega), ok_bind, ix_ok b 2 (by omega), ok_bind, ix_ok b 3 (by omega), ok_bind,
      ix_ok b 4 (by omega), ok_bind, ix_ok b 5 (by omega), ok_bind, ix_ok b 6 (by omega), ok_bind,
      ix_ok b 7 (by omega), ok_bind, sl_ok b 8 12 (by omega) (by omega), ok_bind,
      sl_ok b 12 16 (by omega) (by omega), ok_bind, pure_eq]

/-- partitionFromBytes never panics, whatever it is given -/
theorem partFromBytes_no_panic (i : Nat) (b : Bytes) : (partFromBytes i b).isPanic = false := by
  by_cases hb : b.length = 16
  · rw [partFromBytes_eq i b hb]
    cases entryDec i b <;> rfl
  · unfold partFromBytes
    rw [if_pos hb]
    rfl

theorem slot_slice_len (b : Bytes) (hb : b.length = 512) (i : Nat) (hi : i < 4) :
    (slice b (446 + i * 16) (446 + i * 16 + 16)).length = 16 := by
  rw [slice_length _ _ _ (by omega) (by omega)]; omega

/-- the slot loop of tableFromBytes is the total `slotsDec` -/
theorem slotsFromBytes_eq (b : Bytes) (hb : b.length = 512) (is : List Nat) (his : ∀ i ∈ is, i < 4) :
    slotsFromBytes b is = match slotsDec b is with
      | some ps => .ok ps
      | none => .err false := by
  induction is with
  | nil => rfl
  | cons i is ih =>
    have hi : i < 4 := his i (List.mem_cons_self ..)
    have ih' := ih (fun j hj => his j (List.mem_cons_of_mem _ hj))
    unfold slotsFromBytes slotsDec
    rw [sl_ok b _ _ (by omega) (by omega), ok_bind, partFromBytes_eq _ _ (slot_slice_len b hb i hi)]
    cases h1 : entryDec (i + 1) (slice b (446 + i * 16) (446 + i * 16 + 16)) with
    | none => rfl
    | some p =>
      simp only [ok_bind]
      rw [ih']
      cases h2 : slotsDec b is with
      | none => rfl
      | some ps => rfl

/-- tableFromBytes on a 512-byte sector, in terms of the total decoder -/
theorem tableFromBytes_eq (b : Bytes) (hb : b.length = 512) :
    tableFromBytes b =
      if slice b 510 512 ≠ [0x55, 0xaa] then .err false else
      match slotsDec b [0, 1, 2, 3] with
      | some ps => .ok { parts := ps, lss := 512, pss := 512 }
      | none => .err false := by
  unfold tableFromBytes
  have hn : ¬ (b.length ≠ 512) := by omega
  rw [if_neg hn, sl_ok b 510 b.length (by omega) (Nat.le_refl _), ok_bind, hb]
  by_cases hs : slice b 510 512 ≠ [0x55, 0xaa]
  · rw [if_pos hs, if_pos hs]
  · rw [if_neg hs, if_neg hs]
    rw [sl_ok b 440 444 (by omega) (by omega), ok_bind,
      slotsFromBytes_eq b hb [0, 1, 2, 3] (by intro i hi; simp at hi; omega)]
    cases slotsDec b [0, 1, 2, 3] <;> rfl

/-- TOTAL DECODE: tableFromBytes never panics — for any byte string of any length -/
theorem tableFromBytes_no_panic (b : Bytes) : (tableFromBytes b).isPanic = false := by
  by_cases hb : b.length = 512
  · rw [tableFromBytes_eq b hb]
    split
    · rfl
    · cases slotsDec b [0, 1, 2, 3] <;> rfl
  · unfold tableFromBytes
    rw [if_pos hb]
    rfl

/-- mbr.Read = the total reader of Model/Mbr.lean plus the stamping of the caller's sector sizes -/
theorem readT_eq (d : Dev) (devSize : Nat) (lbs pbs : Int) :
    readT d devSize lbs pbs =
      (match (read d devSize).1 with
        | some ps => .ok { parts := ps, lss := stamp lbs, pss := stamp pbs }
        | none => .err false, [512]) := by
  unfold readT read
  by_cases hd : devSize < 512
  · simp only [hd, if_true]
  · simp only [hd, if_false]
    rw [tableFromBytes_eq _ (by simp)]
    by_cases hs : slice (readAt d 0 512) 510 512 ≠ [0x55, 0xaa]
    · rw [if_pos hs, if_pos hs]
    · rw [if_neg hs, if_neg hs]
      cases slotsDec (readAt d 0 512) [0, 1, 2, 3] <;> rfl

/-- mbr.Read never panics and requests exactly one buffer of 512 bytes: for every device content, every
    device size and every pair of sector sizes the caller passes (zero and negative included) -/
theorem readT_total (d : Dev) (devSize : Nat) (lbs pbs : Int) :
    (readT d devSize lbs pbs).1.isPanic = false ∧ (readT d devSize lbs pbs).2 = [512] := by
  rw [readT_eq]
  cases (read d devSize).1 <;> exact ⟨rfl, rfl⟩

theorem stamp_pos (g : Int) : 0 < stamp g := by
  unfold stamp
  split
  · omega
  · omega

theorem stamp_of_pos (n : Nat) (h : 0 < n) : stamp (n : Int) = n := by
  unfold stamp
  have : (n : Int) > 0 := by omega
  rw [if_pos this]
  exact Int.toNat_natCast n

/-! ### Write, round trip -/

theorem writeT_some (t : Table) (h : t.parts.length ≤ 4) : writeT t = some (write t.parts) := by
  unfold writeT
  rw [if_neg (by omega)]

/-- more than four partitions: refused, nothing is written (fix 0c40962) -/
theorem writeT_refuses (t : Table) (h : 4 < t.parts.length) : writeT t = none := by
  unfold writeT
  rw [if_pos h]

/-- whatever Table.Write accepts reads back — over ANY prior device content, with any sector sizes — as the four
    slots filled by position, stamped with the sizes given to Read -/
theorem readT_writeT (d : Dev) (t : Table) (ws : List Wr) (devSize : Nat) (lbs pbs : Int) (hdev : 512 ≤ devSize)
    (hwf : ∀ p ∈ t.parts, PartWF p) (hw : writeT t = some ws) :
    (readT (applyWrs d ws) devSize lbs pbs).1 =
      .ok { parts := [normSlot t.parts 0, normSlot t.parts 1, normSlot t.parts 2, normSlot t.parts 3],
            lss := stamp lbs, pss := stamp pbs } := by
  unfold writeT at hw
  split at hw
  · cases hw
  · cases hw
    rw [readT_eq, read_write d t.parts devSize hdev hwf]

/-- a table as mbr.Read produces it: four slots numbered 1..4 -/
def Canonical (t : Table) : Prop :=
  ∃ a b c e, t.parts = [a, b, c, e] ∧ a.index = 1 ∧ b.index = 2 ∧ c.index = 3 ∧ e.index = 4

theorem part_eta (p : Part) (n : Nat) (h : p.index = n) : ({ p with index := n } : Part) = p := by
  cases p; simp only at h; subst h; rfl

/-- ROUND TRIP decode (encode t) = t: a canonical table of storable entries, written over any prior content and
    read with its own sector sizes, reads back as exactly itself -/
theorem readT_writeT_exact (d : Dev) (t : Table) (devSize : Nat) (hdev : 512 ≤ devSize)
    (hwf : ∀ p ∈ t.parts, PartWF p) (hc : Canonical t) (hl : 0 < t.lss) (hp : 0 < t.pss) :
    ∃ ws, writeT t = some ws ∧ (readT (applyWrs d ws) devSize t.lss t.pss).1 = .ok t := by
  obtain ⟨a, b, c, e, hps, ia, ib, ic, ie⟩ := hc
  have hlen : t.parts.length ≤ 4 := by rw [hps]; simp
  refine ⟨write t.parts, writeT_some t hlen, ?_⟩
  rw [readT_writeT d t _ devSize _ _ hdev hwf (writeT_some t hlen), stamp_of_pos _ hl, stamp_of_pos _ hp]
  have h0 : normSlot t.parts 0 = a := by rw [hps]; exact part_eta a (0 + 1) ia
  have h1 : normSlot t.parts 1 = b := by rw [hps]; exact part_eta b (1 + 1) ib
  have h2 : normSlot t.parts 2 = c := by rw [hps]; exact part_eta c (2 + 1) ic
  have h3 : normSlot t.parts 3 = e := by rw [hps]; exact part_eta e (3 + 1) ie
  rw [h0, h1, h2, h3, ← hps]

/-- Table.Write touches bytes 446..511 only -/
theorem writeT_frame (d : Dev) (t : Table) (ws : List Wr) (hw : writeT t = some ws) (i : Nat) (hi : i < 446 ∨ 512 ≤ i) :
    applyWrs d ws i = d i := by
  unfold writeT at hw
  split at hw
  · cases hw
  · cases hw; exact write_frame d t.parts i hi

/-! ### what a table read from disk looks like to Disk.GetPartition -/

theorem slotsDec_index (b : Bytes) (is : List Nat) (ps : List Part) (h : slotsDec b is = some ps) :
    ps.map (·.index) = is.map (· + 1) := by
  induction is generalizing ps with
  | nil => simp [slotsDec] at h; subst h; rfl
  | cons i is ih =>
    unfold slotsDec at h
    cases h1 : entryDec (i + 1) (slice b (446 + i * 16) (446 + i * 16 + 16)) with
    | none => simp [h1] at h
    | some p =>
      cases h2 : slotsDec b is with
      | none => simp [h1, h2] at h
      | some qs =>
        simp only [h1, h2, Option.some.injEq] at h
        subst h
        have hp : p.index = i + 1 := by
          unfold entryDec at h1
          simp only at h1
          split at h1
          · cases h1
          · cases h1; rfl
        simp [hp, ih qs h2]

/-- a table mbr.Read returns is canonical: four slots, numbered 1..4 -/
theorem readT_canonical (d : Dev) (devSize : Nat) (lbs pbs : Int) (t : Table)
    (h : (readT d devSize lbs pbs).1 = .ok t) : Canonical t ∧ t.lss = stamp lbs ∧ t.pss = stamp pbs := by
  rw [readT_eq] at h
  cases hr : (read d devSize).1 with
  | none => simp [hr] at h
  | some ps =>
    simp only [hr, Res.ok.injEq] at h
    subst h
    refine ⟨?_, rfl, rfl⟩
    unfold read at hr
    split at hr
    · cases hr
    · simp only at hr
      split at hr
      · cases hr
      · dsimp only at hr
        have hi := slotsDec_index (readAt d 0 512) [0, 1, 2, 3] ps hr
        have hlen : ps.length = 4 := by
          have := congrArg List.length hi
          simpa using this
        obtain ⟨a, b, c, e, rfl⟩ : ∃ a b c e, ps = [a, b, c, e] := by
          match ps, hlen with
          | [a, b, c, e], _ => exact ⟨a, b, c, e, rfl⟩
        simp only [List.map_cons, List.map_nil, List.cons.injEq, and_true] at hi
        exact ⟨a, b, c, e, rfl, hi.1, hi.2.1, hi.2.2.1, hi.2.2.2⟩

theorem toP_range (t : Table) (p : Part) (hl : 0 < t.lss) (hp : 0 < t.pss) :
    (toP t p).byteStart = p.start * t.lss ∧ (toP t p).byteSize = p.size * t.lss ∧ (toP t p).pssOf = t.pss ∧
    (toP t p).index = (p.index : Int) ∧ PartDisk.reconcile (toP t p) = some (toP t p) := by
  have h1 : t.lss ≠ 0 := by omega
  have h2 : t.pss ≠ 0 := by omega
  simp [toP, PartDisk.P.byteStart, PartDisk.P.byteSize, PartDisk.P.lssOf, PartDisk.P.pssOf, PartDisk.reconcile, h1, h2]

/-- after mbr.Read with sector sizes (lbs, pbs), Disk.GetPartition(k) for k = 1..4 finds slot k, and the byte
    range the streaming functions address is [Start*L, (Start+Size)*L) with L = lbs when positive, else 512 —
    the non-512 logical sector sizes included -/
theorem readT_lookup (d : Dev) (devSize : Nat) (lbs pbs : Int) (t : Table)
    (h : (readT d devSize lbs pbs).1 = .ok t) (k : Nat) (hk : k < 4) :
    ∃ p, t.parts[k]? = some p ∧ p.index = k + 1 ∧
      PartDisk.getPartition t.diskParts ((k + 1 : Nat) : Int) = some (toP t p) ∧
      (toP t p).byteStart = p.start * stamp lbs ∧ (toP t p).byteSize = p.size * stamp lbs ∧
      (toP t p).pssOf = stamp pbs ∧ PartDisk.reconcile (toP t p) = some (toP t p) := by
  obtain ⟨⟨a, b, c, e, hps, ia, ib, ic, ie⟩, hl, hp⟩ := readT_canonical d devSize lbs pbs t h
  have hl0 : 0 < t.lss := by rw [hl]; exact stamp_pos _
  have hp0 : 0 < t.pss := by rw [hp]; exact stamp_pos _
  have key : ∀ p : Part, (toP t p).byteStart = p.start * stamp lbs ∧ (toP t p).byteSize = p.size * stamp lbs ∧
      (toP t p).pssOf = stamp pbs ∧ PartDisk.reconcile (toP t p) = some (toP t p) := by
    intro p
    have := toP_range t p hl0 hp0
    rw [hl, hp] at this
    exact ⟨this.1, this.2.1, this.2.2.1, this.2.2.2.2⟩
  have hk' : k = 0 ∨ k = 1 ∨ k = 2 ∨ k = 3 := by omega
  rcases hk' with rfl | rfl | rfl | rfl
  · refine ⟨a, by rw [hps]; rfl, ia, ?_, key a⟩
    simp [Table.diskParts, hps, PartDisk.getPartition, toP, ia]
  · refine ⟨b, by rw [hps]; rfl, ib, ?_, key b⟩
    simp [Table.diskParts, hps, PartDisk.getPartition, toP, ia, ib]
  · refine ⟨c, by rw [hps]; rfl, ic, ?_, key c⟩
    simp [Table.diskParts, hps, PartDisk.getPartition, toP, ia, ib, ic]
  · refine ⟨e, by rw [hps]; rfl, ie, ?_, key e⟩
    simp [Table.diskParts, hps, PartDisk.getPartition, toP, ia, ib, ic, ie]

end Diskfs.Mbr

namespace Diskfs.PartTable
open Diskfs.Gpt

/-- partition.Read (GPT first, then MBR, both with the caller's sector sizes): no panic, every allocation
    within the device size plus two sectors — the MBR branch contributes one 512-byte buffer -/
theorem readT_fixed (c : Cfg) (hc : c.arrayBounded = true) (crc : Bytes → Nat) (d : Dev) (devSize lss : Nat) (pbs : Int)
    (hlss : 512 ≤ lss) :
    (readT c crc d devSize lss pbs).1.isPanic = false ∧
    ∀ a ∈ (readT c crc d devSize lss pbs).2, 0 ≤ a ∧ a ≤ (devSize : Int) + 2 * (lss : Int) := by
  have hr := read_fixed c hc crc d devSize lss (by omega)
  have hm := Mbr.readT_total d devSize (lss : Int) pbs
  unfold readT readWithT
  split
  · rename_i t al heq; rw [heq] at hr; exact ⟨rfl, hr.2⟩
  · rename_i s al heq; rw [heq] at hr; simp [Res.isPanic] at hr
  · rename_i e al heq; rw [heq] at hr
    have hm2 : ∀ a ∈ (Mbr.readT d devSize (lss : Int) pbs).2, 0 ≤ a ∧ a ≤ (devSize : Int) + 2 * (lss : Int) := by
      intro a ha
      rw [hm.2] at ha
      simp only [List.mem_singleton] at ha
      subst ha
      omega
    split
    · rename_i t al2 heq2
      refine ⟨rfl, ?_⟩
      intro a ha
      rcases List.mem_append.1 ha with h | h
      · exact hr.2 a h
      · exact hm2 a (by rw [heq2]; exact h)
    · rename_i s al2 heq2
      rw [heq2] at hm
      simp [Res.isPanic] at hm
    · rename_i e2 al2 heq2
      refine ⟨rfl, ?_⟩
      intro a ha
      rcases List.mem_append.1 ha with h | h
      · exact hr.2 a h
      · exact hm2 a (by rw [heq2]; exact h)

/-- the MBR table partition.Read falls back to is the one mbr.Read returns on the same bytes -/
theorem readT_mbr (c : Cfg) (crc : Bytes → Nat) (d : Dev) (devSize lss : Nat) (pbs : Int) (t : Mbr.Table)
    (h : (readT c crc d devSize lss pbs).1 = .ok (.mbr t)) :
    (Mbr.readT d devSize (lss : Int) pbs).1 = .ok t ∧ (Gpt.read c crc d devSize lss).1.isOk = false := by
  unfold readT readWithT at h
  split at h
  · simp at h
  · simp at h
  · rename_i e al heq
    split at h
    · rename_i t2 al2 heq2
      simp only [Res.ok.injEq, TblT.mbr.injEq] at h
      subst h
      exact ⟨by rw [heq2], by rw [heq]; rfl⟩
    · simp at h
    · simp at h

end Diskfs.PartTable
