import DiskfsModel.Model.Sqfs.Codec
namespace Diskfs.Sqfs

theorem split_append (a rest : Bytes) (n : Nat) (h : a.length = n) : split n (a ++ rest) = (a, rest) := by
  subst h; simp [split]

theorem log2_lt_two_pow_16 (n : Nat) (h : n < 2 ^ 32) : Nat.log2 n < 256 ^ 2 := by
  have : Nat.log2 n < 32 := by
    by_cases h0 : n = 0
    · subst h0; decide
    · exact (Nat.log2_lt h0).2 h
  omega

theorem decode_encodeSB (s : Superblock) (h : s.WF) : decodeSB (encodeSB s) = some s := by
  obtain ⟨h1, h2, h3, h4, h5, h6, h7, h8, h9, h10, h11, h12, h13, h14, h15⟩ := h
  have e4 : ∀ n, n < 2 ^ 32 → leDec (leEnc 4 n) = n := fun n hn => leDec_leEnc_of_lt 4 n (by simpa using hn)
  have e2 : ∀ n, n < 2 ^ 16 → leDec (leEnc 2 n) = n := fun n hn => leDec_leEnc_of_lt 2 n (by simpa using hn)
  have e8 : ∀ n, n < 2 ^ 64 → leDec (leEnc 8 n) = n := fun n hn => leDec_leEnc_of_lt 8 n (by simpa using hn)
  have hlen : (encodeSB s).length = 96 := by simp [encodeSB]
  have hlog := leDec_leEnc_of_lt 2 (Nat.log2 s.blocksize) (log2_lt_two_pow_16 _ h3)
  unfold decodeSB
  rw [hlen]
  unfold encodeSB
  rw [split_append _ _ 4 (by simp)]; simp only []
  rw [split_append _ _ 4 (by simp)]; simp only []
  rw [split_append _ _ 4 (by simp)]; simp only []
  rw [split_append _ _ 4 (by simp)]; simp only []
  rw [split_append _ _ 4 (by simp)]; simp only []
  rw [split_append _ _ 2 (by simp)]; simp only []
  rw [split_append _ _ 2 (by simp)]; simp only []
  rw [split_append _ _ 2 (by simp)]; simp only []
  rw [split_append _ _ 2 (by simp)]; simp only []
  rw [split_append _ _ 2 (by simp)]; simp only []
  rw [split_append _ _ 2 (by simp)]; simp only []
  rw [split_append _ _ 8 (by simp)]; simp only []
  rw [split_append _ _ 8 (by simp)]; simp only []
  rw [split_append _ _ 8 (by simp)]; simp only []
  rw [split_append _ _ 8 (by simp)]; simp only []
  rw [split_append _ _ 8 (by simp)]; simp only []
  rw [split_append _ _ 8 (by simp)]; simp only []
  rw [split_append _ _ 8 (by simp)]; simp only []
  have hl : split 8 (leEnc 8 s.exportStart) = (leEnc 8 s.exportStart, []) := by
    have := split_append (leEnc 8 s.exportStart) [] 8 (by simp)
    simpa using this
  rw [hl]; simp only []
  rw [e4 _ h1, e4 _ h2, e4 _ h3, e4 _ h4, e2 _ h5, e2 _ h6, e2 _ h7, e8 _ h8, e8 _ h9, e8 _ h10, e8 _ h11,
    e8 _ h12, e8 _ h13, e8 _ h14, e8 _ h15, hlog, e4 sbMagic (by decide), e2 4 (by decide), e2 0 (by decide)]
  simp

end Diskfs.Sqfs
