/-
  Whole-table theorem: what `Table.Write` puts on ANY prior device reads back, through gpt.Read, as the
  same table from the primary copy.  Helper for Props/C02.lean.
-/
import DiskfsModel.Proofs.GptArray
import DiskfsModel.Proofs.GptRobust
set_option linter.unusedSimpArgs false
set_option linter.unusedVariables false
namespace Diskfs.Gpt

/-- a table as a caller constructs it (nothing initialised yet) -/
structure Fresh (t0 : Table) : Prop where
  init : t0.initialized = false
  ac : t0.arrCount = 0
  es : t0.entSize = 0
  ph : t0.primaryHeader = 0
  sh : t0.secondaryHeader = 0
  fd : t0.firstData = 0
  ld : t0.lastData = 0

theorem toI64_of_lt (n : Nat) (h : n < two63) : toI64 (n : Int) = (n : Int) := by
  simp only [toI64, two64, two63] at *
  omega

theorem applyWrs_append2 (d : Dev) (pre : List Wr) (a b : Wr) :
    applyWrs d (pre ++ [a, b]) = applyWr (applyWr (applyWrs d pre) a) b := by
  simp [applyWrs, List.foldl_append]

theorem hdrEnc_length (crc : Bytes → Nat) (t : Table) (primary : Bool) (arr : Bytes) (hg : t.guid.length = 16)
    (hl : 92 ≤ t.lss) : (hdrEnc crc t primary arr).length = t.lss := by
  unfold hdrEnc
  simp only [List.length_append, zeros_length]
  rw [hdrBody_length _ (by simp) _ _ _ _ _ hg]
  omega

theorem C02aux_hdrEnc_shape (crc : Bytes → Nat) (t : Table) (primary : Bool) (arr : Bytes) :
    hdrEnc crc t primary arr =
      hdrBody (leEnc 4 (crc (hdrBody (zeros 4) (if primary then t.primaryHeader else t.secondaryHeader)
          (if primary then t.secondaryHeader else t.primaryHeader) t.firstData t.lastData t.guid
          (arraySector t primary) t.arrCount 0x80 (crc arr))))
        (if primary then t.primaryHeader else t.secondaryHeader)
        (if primary then t.secondaryHeader else t.primaryHeader) t.firstData t.lastData t.guid
        (arraySector t primary) t.arrCount 0x80 (crc arr) ++ zeros (t.lss - 92) := rfl

theorem readAt_applyWrs_disjoint (d : Dev) (ws : List Wr) (off len : Nat)
    (h : ∀ w ∈ ws, off + len ≤ w.off ∨ w.off + w.data.length ≤ off) :
    readAt (applyWrs d ws) off len = readAt d off len := by
  induction ws generalizing d with
  | nil => rfl
  | cons w ws ih =>
    have : applyWrs d (w :: ws) = applyWrs (applyWr d w) ws := rfl
    rw [this, ih (applyWr d w) (fun x hx => h x (List.mem_cons_of_mem _ hx))]
    exact readAt_applyWr_disjoint d w off len (h w (List.mem_cons_self ..))

/-- the primary array at LBA 2 and the primary header at LBA 1 are the last writes to their regions:
    after them comes at most the protective-MBR write (bytes 446..511), when it is written last -/
theorem write_fresh_shape (c : Cfg) (crc : Bytes → Nat) (t0 : Table) (size : Nat) (ws : List Wr) (t : Table)
    (hf : Fresh t0) (hlss : t0.lss = 512 ∨ t0.lss = 4096) (hsz : size < two63)
    (hw : write c crc t0 size = .ok (ws, t)) :
    ∃ pre post arr ps, ws = pre ++ [⟨2 * t0.lss, arr⟩, ⟨t0.lss, hdrEnc crc (initTable t0 size) true arr⟩] ++ post ∧
      (∀ w ∈ post, w.off = 446 ∧ w.data.length = 66) ∧
      arrEnc c (initTable t0 size) = .ok (arr, ps) ∧ t = { initTable t0 size with parts := ps } := by
  unfold write at hw
  simp only [hf.init, Bool.false_eq_true, if_false] at hw
  generalize hti : initTable t0 size = ti at hw
  have hl : ti.lss = t0.lss := by
    subst hti; unfold initTable
    rcases hlss with h | h <;> simp [h]
  have hph : ti.primaryHeader = 1 := by subst hti; unfold initTable; simp [hf.ph]
  split at hw
  · simp at hw
  · split at hw
    · simp at hw
    · simp at hw
    · rename_i arr ps harr
      split at hw
      · simp at hw
      · simp only [Res.ok.injEq, Prod.mk.injEq] at hw
        obtain ⟨h1, h2⟩ := hw
        have hoff : (toI64 ((ti.lss : Int) * toI64 ((arraySector ti true : Nat) : Int))).toNat = 2 * t0.lss := by
          have : arraySector ti true = 2 := by simp [arraySector, hph, u64, two64]
          rw [this, hl]
          rcases hlss with h | h <;> simp [h, toI64, two64, two63]
        have hpm : ∀ w ∈ (if ti.pmbr = true then [Wr.mk 446 (pmbrEnc c ti)] else []), w.off = 446 ∧ w.data.length = 66 := by
          intro w hw
          split at hw
          · simp only [List.mem_singleton] at hw; subst hw; simp [pmbrEnc]
          · simp at hw
        cases hpl : c.pmbrLast with
        | false =>
          refine ⟨(if ti.pmbr = true then [Wr.mk 446 (pmbrEnc c ti)] else []) ++
            [⟨(toI64 ((ti.lss : Int) * toI64 ((arraySector ti false : Nat) : Int))).toNat, arr⟩,
             ⟨(toI64 (toI64 ((ti.secondaryHeader : Nat) : Int) * (ti.lss : Int))).toNat, hdrEnc crc ti false arr⟩], [], arr, ps,
            ?_, by simp, harr, h2.symm⟩
          rw [← h1, hoff]
          simp [hl, hpl]
        | true =>
          refine ⟨[⟨(toI64 ((ti.lss : Int) * toI64 ((arraySector ti false : Nat) : Int))).toNat, arr⟩,
             ⟨(toI64 (toI64 ((ti.secondaryHeader : Nat) : Int) * (ti.lss : Int))).toNat, hdrEnc crc ti false arr⟩],
            (if ti.pmbr = true then [Wr.mk 446 (pmbrEnc c ti)] else []), arr, ps, ?_, hpm, harr, h2.symm⟩
          rw [← h1, hoff]
          simp [hl, hpl]

/-- loadEntries on the standard geometry (array of 128 x 128 bytes at LBA 2) with the array on the device -/
theorem loadEntries_std (c : Cfg) (crc : Bytes → Nat) (dev : Dev) (size lss : Nat) (tt : Table) (arr : Bytes)
    (hlss : lss = 512 ∨ lss = 4096) (h1 : tt.firstLBA = 2) (h2 : tt.arrCount = 128) (h3 : tt.entSize = 128)
    (h4 : tt.arrCrc = crc arr) (hfit : 2 * lss + 16384 ≤ size) (hr : readAt dev (2 * lss) 16384 = arr) :
    (loadEntries c crc dev size tt lss).1 = .ok { tt with parts := decodeArr arr lss } := by
  unfold loadEntries
  rw [h1, h2, h3]
  have hst : toI64 (toI64 ((2 : Nat) : Int) * (lss : Int)) = ((2 * lss : Nat) : Int) := by
    rcases hlss with h | h <;> subst h <;> simp [toI64, two64, two63]
  have hsz : toI64 (((128 : Nat) : Int) * ((128 : Nat) : Int)) = 16384 := by
    simp [toI64, two64, two63]
  simp only [hst, hsz]
  have c1 : ¬ ((((2 * lss : Nat) : Int) < 0) ∨ ((16384 : Int) < 0) ∨ ((16384 : Int) > maxArrayBytes) ∨
      (((2 * lss : Nat) : Int) + 16384 > (size : Int))) := by
    simp only [maxArrayBytes]; omega
  have c1' : (c.arrayBounded && (decide (((2 * lss : Nat) : Int) < 0) || decide ((16384 : Int) < 0) ||
      decide ((16384 : Int) > maxArrayBytes) || decide (((2 * lss : Nat) : Int) + 16384 > (size : Int)))) = false := by
    have a1 : decide (((2 * lss : Nat) : Int) < 0) = false := by simp; omega
    have a2 : decide ((16384 : Int) < 0) = false := by decide
    have a3 : decide ((16384 : Int) > maxArrayBytes) = false := by simp [maxArrayBytes]
    have a4 : decide (((2 * lss : Nat) : Int) + 16384 > (size : Int)) = false := by simp; omega
    rw [a1, a2, a3, a4]; simp
  rw [c1']
  simp only [Bool.false_eq_true, if_false]
  have c2 : ¬ ((16384 : Int) < 0 ∨ (16384 : Int) > maxAlloc) := by simp [maxAlloc]
  rw [if_neg c2]
  have c3 : ¬ (((2 * lss : Nat) : Int) < 0) := by omega
  rw [if_neg c3]
  have c4 : ¬ (((2 * lss : Nat) : Int) ≥ (size : Int) ∨ ((2 * lss : Nat) : Int) + 16384 > (size : Int)) := by omega
  rw [if_neg c4]
  have e1 : (((2 * lss : Nat) : Int)).toNat = 2 * lss := Int.toNat_natCast _
  have e2 : ((16384 : Int)).toNat = 16384 := by decide
  rw [e1, e2, hr]
  simp only [h4, ne_eq, not_true_eq_false, if_false]
  simp [readArr]

theorem initTable_fresh (t0 : Table) (size : Nat) (hf : Fresh t0) (hlss : t0.lss = 512 ∨ t0.lss = 4096) :
    (initTable t0 size).lss = t0.lss ∧ (initTable t0 size).primaryHeader = 1 ∧ (initTable t0 size).arrCount = 128 ∧
    (initTable t0 size).entSize = 128 ∧ (initTable t0 size).guid = t0.guid ∧ (initTable t0 size).parts = t0.parts ∧
    (initTable t0 size).secondaryHeader < two64 ∧ (initTable t0 size).firstData < two64 ∧
    (initTable t0 size).lastData < two64 := by
  unfold initTable
  rcases hlss with h | h
  all_goals
    simp only [hf.ac, hf.es, hf.ph, hf.sh, hf.fd, hf.ld, if_true, h]
    refine ⟨by simp, by simp, by simp, by simp, trivial, trivial, ?_, ?_, ?_⟩
    · simp only [u64sub, two64]; omega
    · simp only [u64, two64]; omega
    · simp only [u64sub, two64]; omega

/-- the whole table: for EVERY prior device content `d`, what `Write` emits for a fresh, well-formed
    table reads back through gpt.Read — from the primary copy — as the partitions `Write` was left
    with (slot order, unused entries dropped) and the same disk GUID -/
theorem read_write_fresh (c : Cfg) (crc : Bytes → Nat) (hcrc : ∀ b, crc b < two32) (d : Dev)
    (t0 : Table) (size : Nat) (ws : List Wr) (t : Table)
    (hf : Fresh t0) (hlss : t0.lss = 512 ∨ t0.lss = 4096) (hg : t0.guid.length = 16)
    (hwf : ∀ p ∈ t0.parts, allZero p.typ = true ∨ (EntryWF p ∧ p.size < two64))
    (hmin : 2 * t0.lss + 16384 ≤ size) (hsz : size < two63)
    (hw : write c crc t0 size = .ok (ws, t)) :
    ∃ t', (read c crc (applyWrs d ws) size t0.lss).1 = .ok t' ∧ t'.parts = normParts t.parts 128 ∧
      t'.guid = t0.guid ∧ t'.backup = false ∧ t'.primaryHeader = 1 ∧ t'.secondaryHeader = t.secondaryHeader ∧
      t'.firstData = t.firstData ∧ t'.lastData = t.lastData := by
  obtain ⟨pre, post, arr, ps, hws, hpost, harr, ht⟩ := write_fresh_shape c crc t0 size ws t hf hlss hsz hw
  obtain ⟨il, iph, iac, ies, igu, ipa, ish, ifd, ild⟩ := initTable_fresh t0 size hf hlss
  generalize hti : initTable t0 size = ti at *
  have hlpos : 0 < t0.lss := by rcases hlss with h | h <;> omega
  have hl92 : 92 ≤ ti.lss := by rw [il]; rcases hlss with h | h <;> omega
  -- the array
  unfold arrEnc at harr
  rw [il, iac, ies, ipa] at harr
  cases hip : initParts t0.lss 128 t0.parts [] with
  | none => rw [hip] at harr; simp at harr
  | some ps' =>
    rw [hip] at harr
    simp only at harr
    obtain ⟨b, hb, hpair⟩ := bind_ok_inv _ _ _ harr
    simp only [Res.pure_eq, Res.ok.injEq, Prod.mk.injEq] at hpair
    obtain ⟨hb1, hb2⟩ := hpair
    subst hb1 hb2
    have hex := initParts_spec t0.lss 128 hlpos t0.parts [] ps' hip hwf (by simp)
    obtain ⟨harrlen, hdecode⟩ := decodeArr_slots c ps' t0.lss hex b hb
    -- the device
    subst hws
    have hsplit : applyWrs d (pre ++ [⟨2 * t0.lss, b⟩, ⟨t0.lss, hdrEnc crc ti true b⟩] ++ post)
        = applyWrs (applyWr (applyWr (applyWrs d pre) ⟨2 * t0.lss, b⟩) ⟨t0.lss, hdrEnc crc ti true b⟩) post := by
      simp [applyWrs, List.foldl_append]
    rw [hsplit]
    generalize applyWrs d pre = d1
    have hphlen : (hdrEnc crc ti true b).length = t0.lss := by
      rw [hdrEnc_length crc ti true b (by rw [igu]; exact hg) hl92, il]
    have h512 : 512 ≤ t0.lss := by rcases hlss with h | h <;> omega
    have r1 : readAt (applyWrs (applyWr (applyWr d1 ⟨2 * t0.lss, b⟩) ⟨t0.lss, hdrEnc crc ti true b⟩) post) t0.lss t0.lss
        = hdrEnc crc ti true b := by
      rw [readAt_applyWrs_disjoint _ post _ _ (by intro w hw; have := hpost w hw; right; omega)]
      have := readAt_applyWr_same (applyWr d1 ⟨2 * t0.lss, b⟩) ⟨t0.lss, hdrEnc crc ti true b⟩
      simpa [hphlen] using this
    have r2 : readAt (applyWrs (applyWr (applyWr d1 ⟨2 * t0.lss, b⟩) ⟨t0.lss, hdrEnc crc ti true b⟩) post) (2 * t0.lss) 16384 = b := by
      rw [readAt_applyWrs_disjoint _ post _ _ (by intro w hw; have := hpost w hw; right; omega)]
      rw [readAt_applyWr_disjoint _ _ _ _ (by right; simp [hphlen]; omega)]
      have := readAt_applyWr_same d1 ⟨2 * t0.lss, b⟩
      simpa [harrlen] using this
    generalize applyWrs (applyWr (applyWr d1 ⟨2 * t0.lss, b⟩) ⟨t0.lss, hdrEnc crc ti true b⟩) post = dev at r1 r2
    -- the header
    have hhdr : readHeader crc (hdrEnc crc ti true b) = .ok
        { myLBA := 1, altLBA := ti.secondaryHeader, firstData := ti.firstData, lastData := ti.lastData, guid := t0.guid,
          arrLBA := 2, count := 128, entSize := 128, arrCrc := crc b } := by
      rw [C02aux_hdrEnc_shape]
      have has : arraySector ti true = 2 := by simp [arraySector, iph, u64, two64]
      simp only [if_true, iph, has, iac, igu]
      exact readHeader_hdrBody crc hcrc 1 ti.secondaryHeader ti.firstData ti.lastData t0.guid hg 2 128 0x80 (crc b) _
        (by decide) ish ifd ild (by decide) (by decide) (by decide) (hcrc b)
    -- the read
    unfold read readPrimary
    have hnot : ¬ size < t0.lss * 2 := by omega
    simp only [hnot, if_false]
    rw [sl_ok _ t0.lss (t0.lss * 2) _ (by omega) (by simp)]
    simp only
    rw [slice_readAt dev 0 (t0.lss * 2) t0.lss (t0.lss * 2) (by omega) (by omega)]
    have e1 : t0.lss * 2 - t0.lss = t0.lss := by omega
    rw [e1, Nat.zero_add, r1, hhdr]
    simp only
    generalize hpm : readPMBR _ _ = pm
    have hle := loadEntries_std c crc dev size t0.lss
      (tableOfHdr { myLBA := 1, altLBA := ti.secondaryHeader, firstData := ti.firstData, lastData := ti.lastData,
                    guid := t0.guid, arrLBA := 2, count := 128, entSize := 128, arrCrc := crc b } t0.lss pm)
      b hlss rfl rfl rfl rfl hmin r2
    generalize hrl : loadEntries c crc dev size _ t0.lss = rl at hle ⊢
    obtain ⟨r, al⟩ := rl
    simp only at hle
    subst hle
    refine ⟨_, rfl, ?_, rfl, rfl, rfl, ?_, ?_, ?_⟩
    · simp only [tableOfHdr]; rw [hdecode, ht]
    · rw [ht]; rfl
    · rw [ht]; rfl
    · rw [ht]; rfl

end Diskfs.Gpt
