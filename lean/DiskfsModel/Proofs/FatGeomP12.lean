/-
  FAT12 geometry, parametric in the cluster-size table (see Proofs/FatGeomP.lean): no case split
  over table rows or values — sectors per cluster is any `v` with 1 ≤ v ≤ 128.
-/
import DiskfsModel.Proofs.FatGeomP
namespace Diskfs.Fat
set_option linter.unusedSimpArgs false

theorem u8_of_lt {x : Nat} (h : x < 256) : u8 x = x := by
  unfold u8; exact Nat.mod_eq_of_lt h

/-- a quotient by a cluster size of at most 128 sectors is large when the dividend is -/
theorem div_big {x v q : Nat} (hv1 : 1 ≤ v) (hv : v ≤ 128) (hx : q * 128 + 128 ≤ x) : q < x / v := by
  have h1 : x / 128 ≤ x / v := Nat.div_le_div_left hv (by omega)
  omega

/-- `Geom.WF` from the sector accounting, for a geometry with 512-byte sectors -/
theorem geom_wf_core (g : Geom) (size rds q2 : Nat) (hb : g.bps = 512)
    (hr : g.rootSectors = rds)
    (h1 : g.totalSectors * 512 ≤ size) (h2 : size < g.totalSectors * 512 + 512)
    (h3 : g.reserved + 2 * g.fatSectors + rds < g.totalSectors)
    (hq : (g.totalSectors - g.reserved - 2 * g.fatSectors - rds) / g.spc = q2)
    (hq0 : 0 < q2) (hfat : q2 + 2 ≤ g.fatEntries)
    (hP : q2 * g.spc ≤ g.totalSectors - g.reserved - 2 * g.fatSectors - rds) :
    g.WF size ∧ g.clusters = q2 := by
  have hcl : g.clusters = q2 := by
    unfold Geom.clusters Geom.dataSectors; rw [hr, hq]
  refine ⟨⟨?_, ?_, ?_, ?_, ?_, ?_⟩, hcl⟩
  · rw [hb]; exact h1
  · rw [hb]; exact h2
  · rw [hr]; exact h3
  · rw [hcl]; exact hq0
  · rw [hcl]; exact hfat
  · rw [hcl]
    unfold Geom.dataStart
    rw [hr, hb]
    have h4 : (g.reserved + 2 * g.fatSectors + rds + q2 * g.spc) * 512 ≤ g.totalSectors * 512 :=
      Nat.mul_le_mul_right _ (by omega)
    simp only [Nat.mul_comm _ 512] at *
    omega

theorem mkGeom12_wf_tbl (tbl : List (Nat × Nat)) (hT : ClusterTableWF spcAllowed tbl = true)
    (size : Nat) (g : Geom) (h : mkGeom12 tbl size = some g) :
    g.WF size ∧ g.kind = .f12 ∧ g.clusters < 4085 := by
  obtain ⟨r, _, hl, _, hv⟩ := lookup_row spcAllowed tbl size hT
  have hv1 : 1 ≤ r.2 ∧ r.2 ≤ 128 := by
    simp only [spcAllowed, List.mem_cons, List.not_mem_nil, or_false] at hv
    omega
  unfold mkGeom12 at h
  simp only [ite_none_eq_some, Option.some.injEq] at h
  obtain ⟨hhi, hlo, c1, c2, rfl⟩ := h
  rw [hl] at c1 c2 ⊢
  generalize r.2 = v at hv1 c1 c2 ⊢
  rw [u8_of_lt (by omega)] at c1 c2 ⊢
  simp only [MB] at hhi
  have hts : u32 (size / 512) = size / 512 := u32_of_lt (by omega)
  rw [hts] at c1 c2 ⊢
  have hT1 : size / 512 * 512 ≤ size := by omega
  have hT2 : size < size / 512 * 512 + 512 := by omega
  have hT3 : 4 ≤ size / 512 := by omega
  have hT4 : size / 512 ≤ 262144 := by omega
  have hT5 : 524288 < size → 1024 ≤ size / 512 := by omega
  generalize size / 512 = ts at *
  -- root directory entries and sectors
  have hre : ∃ re rds, (if size ≤ 512 * KB then 112 else 224) = re ∧ (re * 32 + 511) / 512 = rds ∧
      (re * 32 + 512 - 1) / 512 = rds ∧ ((rds = 7 ∧ size ≤ 524288) ∨ (rds = 14 ∧ 1024 ≤ ts)) := by
    by_cases hk : size ≤ 512 * KB
    all_goals have hk' := hk
    all_goals simp only [KB] at hk'
    · exact ⟨112, 7, if_pos hk, by decide, by decide, Or.inl ⟨rfl, by omega⟩⟩
    · exact ⟨224, 14, if_neg hk, by decide, by decide, Or.inr ⟨rfl, by omega⟩⟩
  obtain ⟨re, rds, hre, hrds, hrds2, hcase⟩ := hre
  rw [hre] at c1 c2 ⊢
  rw [hrds] at c1 c2 ⊢
  have hrds14 : rds ≤ 14 := by omega
  -- sectors per FAT, as a value below 2^16
  generalize hs' : u16 _ = s at c1 c2 ⊢
  have hs : s < 65536 := hs' ▸ u16_lt _
  have e2 : ∀ nc, nc ≤ 262144 →
      u16 (sub32 (u32 (u32 (u32 ((nc + 2) * 3) / 2 + 1) + 512)) 1 / 512)
        = ((nc + 2) * 3 / 2 + 512) / 512 := by
    intro nc hnc
    rw [u32_of_lt (x := (nc + 2) * 3) (by omega), u32_of_lt (x := (nc + 2) * 3 / 2 + 1) (by omega),
      u32_of_lt (x := (nc + 2) * 3 / 2 + 1 + 512) (by omega), sub32_of_le (by omega) (by omega),
      u16_of_lt (by omega)]
    omega
  by_cases hA : 1 + rds ≤ ts
  · have eX : sub32 (sub32 ts 1) rds = ts - 1 - rds := by simp only [sub32]; omega
    rw [eX] at c1 c2 hs'
    have hnc : (ts - 1 - rds) / v ≤ ts - 1 - rds := Nat.div_le_self ..
    rw [e2 _ (by omega)] at hs'
    generalize hq : (ts - 1 - rds) / v = nc at hs' hnc
    have hs1 : 1 ≤ s ∧ s ≤ 769 := by omega
    have hfat : nc + 2 ≤ s * 512 * 2 / 3 := by omega
    rw [u32_of_lt (by omega : 2 * s < 4294967296)] at c1 c2
    by_cases hw : 2 * s ≤ ts - 1 - rds
    · rw [sub32_of_le hw (by omega)] at c1 c2
      have hq2le : (ts - 1 - rds - 2 * s) / v ≤ nc := by
        rw [← hq]; exact Nat.div_le_div_right (by omega)
      have hP : (ts - 1 - rds - 2 * s) / v * v ≤ ts - 1 - rds - 2 * s := Nat.div_mul_le_self ..
      have hre2 : ts - 1 - 2 * s - rds = ts - 1 - rds - 2 * s := by omega
      have hpos : 0 < (ts - 1 - rds - 2 * s) / v → 0 < ts - 1 - rds - 2 * s := by
        intro h
        rcases Nat.eq_zero_or_pos (ts - 1 - rds - 2 * s) with h0 | h0
        · rw [h0, Nat.zero_div] at h; omega
        · exact h0
      generalize hq2 : (ts - 1 - rds - 2 * s) / v = q2 at c1 c2 hq2le hP hpos
      have := geom_wf_core ⟨.f12, 512, v, 1, s, re, ts⟩ size rds q2 rfl
        (by simp only [Geom.rootSectors]; exact hrds2) hT1 hT2 (by simp only; omega)
        (by simp only; rw [hre2]; exact hq2) (by omega)
        (by show q2 + 2 ≤ s * 512 * 2 / 3; omega) (by simp only; rw [hre2]; exact hP)
      exact ⟨this.1, rfl, by rw [this.2]; omega⟩
    · exfalso
      have := div_big (x := sub32 (ts - 1 - rds) (2 * s)) (q := 4085) hv1.1 hv1.2
        (by simp only [sub32]; omega)
      omega
  · exfalso
    have hX : 4294967296 - 15 ≤ sub32 (sub32 ts 1) rds ∧ sub32 (sub32 ts 1) rds < 4294967296 := by
      simp only [sub32]; omega
    generalize sub32 (sub32 ts 1) rds = X at hX c1 c2
    have := div_big (x := sub32 X (u32 (2 * s))) (q := 4085) hv1.1 hv1.2
      (by simp only [sub32, u32]; omega)
    omega

/-! ### FAT16 (same shape: reserved 4, 512 root entries, 2-byte entries) -/

theorem mkGeom16_wf_tbl (tbl : List (Nat × Nat)) (hT : ClusterTableWF spcAllowed tbl = true)
    (size : Nat) (g : Geom) (h : mkGeom16 tbl size = some g) :
    g.WF size ∧ g.kind = .f16 ∧ 4085 ≤ g.clusters ∧ g.clusters < 65525 := by
  obtain ⟨r, _, hl, _, hv⟩ := lookup_row spcAllowed tbl size hT
  have hv1 : 1 ≤ r.2 ∧ r.2 ≤ 128 := by
    simp only [spcAllowed, List.mem_cons, List.not_mem_nil, or_false] at hv
    omega
  unfold mkGeom16 at h
  have hrds : (512 * 32 + 511) / 512 = 32 := by decide
  simp only [hrds, GB, ite_none_eq_some, Option.some.injEq] at h
  obtain ⟨hhi, hlo, c1, c2, rfl⟩ := h
  rw [hl] at c1 c2 ⊢
  generalize r.2 = v at hv1 c1 c2 ⊢
  rw [u8_of_lt (by omega)] at c1 c2 ⊢
  have hts : u32 (size / 512) = size / 512 := u32_of_lt (by omega)
  rw [hts] at c1 c2 ⊢
  have hT1 : size / 512 * 512 ≤ size := by omega
  have hT2 : size < size / 512 * 512 + 512 := by omega
  have hT3 : 8 ≤ size / 512 := by omega
  have hT4 : size / 512 ≤ 4194304 := by omega
  generalize size / 512 = ts at *
  generalize hs' : u16 _ = s at c1 c2 ⊢
  have hs : s < 65536 := hs' ▸ u16_lt _
  have e2 : ∀ nc, nc ≤ 4194304 →
      u16 (sub32 (u32 (u32 ((nc + 2) * 2) + 512)) 1 / 512) = (nc * 2 + 515) / 512 := by
    intro nc hnc
    simp only [u16, u32, sub32]; omega
  by_cases hA : 36 ≤ ts
  · have eX : sub32 (sub32 ts 4) 32 = ts - 36 := by simp only [sub32]; omega
    rw [eX] at c1 c2 hs'
    have hnc : (ts - 36) / v ≤ ts - 36 := Nat.div_le_self ..
    rw [e2 _ (by omega)] at hs'
    generalize hq : (ts - 36) / v = nc at hs' hnc
    have hs1 : 1 ≤ s ∧ s ≤ 16386 := by omega
    have hfat : nc + 2 ≤ s * 512 / 2 := by omega
    rw [u32_of_lt (by omega : 2 * s < 4294967296)] at c1 c2
    by_cases hw : 2 * s ≤ ts - 36
    · rw [sub32_of_le hw (by omega)] at c1 c2
      have hq2le : (ts - 36 - 2 * s) / v ≤ nc := by
        rw [← hq]; exact Nat.div_le_div_right (by omega)
      have hP : (ts - 36 - 2 * s) / v * v ≤ ts - 36 - 2 * s := Nat.div_mul_le_self ..
      have hre2 : ts - 4 - 2 * s - 32 = ts - 36 - 2 * s := by omega
      have hpos : 0 < (ts - 36 - 2 * s) / v → 0 < ts - 36 - 2 * s := by
        intro h
        rcases Nat.eq_zero_or_pos (ts - 36 - 2 * s) with h0 | h0
        · rw [h0, Nat.zero_div] at h; omega
        · exact h0
      generalize hq2 : (ts - 36 - 2 * s) / v = q2 at c1 c2 hq2le hP hpos
      have := geom_wf_core ⟨.f16, 512, v, 4, s, 512, ts⟩ size 32 q2 rfl
        (by simp only [Geom.rootSectors]) hT1 hT2 (by simp only; omega)
        (by simp only; rw [hre2]; exact hq2) (by omega)
        (by show q2 + 2 ≤ s * 512 / 2; omega) (by simp only; rw [hre2]; exact hP)
      exact ⟨this.1, rfl, by rw [this.2]; omega, by rw [this.2]; omega⟩
    · exfalso
      have := div_big (x := sub32 (ts - 36) (2 * s)) (q := 65525) hv1.1 hv1.2
        (by simp only [sub32]; omega)
      omega
  · exfalso
    have hX : 4294967296 - 36 ≤ sub32 (sub32 ts 4) 32 ∧ sub32 (sub32 ts 4) 32 < 4294967296 := by
      simp only [sub32]; omega
    generalize sub32 (sub32 ts 4) 32 = X at hX c1 c2
    have := div_big (x := sub32 X (u32 (2 * s))) (q := 65525) hv1.1 hv1.2
      (by simp only [sub32, u32]; omega)
    omega

end Diskfs.Fat
