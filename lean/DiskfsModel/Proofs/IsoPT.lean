import DiskfsModel.Model.Iso.Susp
namespace Diskfs.Iso

/-! ### path table lookup = walking down from the root -/

instance : Inhabited PtRec := ⟨⟨[], 0, 0⟩⟩

/-- record number `i` (numbers start at 1, as the parent fields count) -/
def ptRec (rs : List PtRec) (i : Nat) : PtRec := rs.getD (i - 1) default

/-- a path table as `createPathTable` makes it: a directory's record comes after its parent's, and
    two records with the same parent have different names (none is named "." ) -/
structure PtWF (rs : List PtRec) : Prop where
  parentBefore : ∀ i, 2 ≤ i → i ≤ rs.length → 1 ≤ (ptRec rs i).parent ∧ (ptRec rs i).parent < i
  uniq : ∀ i j, 1 ≤ i → i ≤ rs.length → 1 ≤ j → j ≤ rs.length → (ptRec rs i).parent = (ptRec rs j).parent →
    (ptRec rs i).name = (ptRec rs j).name → i = j
  noDot : ∀ i, 2 ≤ i → i ≤ rs.length → (ptRec rs i).name ≠ [46]

/-- `b₁, b₂, …` are record numbers, each the child of the one before, the first a child of `a` -/
def IsChain (rs : List PtRec) : Nat → List Nat → Prop
  | _, [] => True
  | a, b :: rest => 2 ≤ b ∧ b ≤ rs.length ∧ (ptRec rs b).parent = a ∧ IsChain rs b rest

theorem drop_cons_getD (T : List PtRec) (idx : Nat) (r : PtRec) (rs' : List PtRec) (h : T.drop idx = r :: rs') :
    idx < T.length ∧ ptRec T (idx + 1) = r ∧ T.drop (idx + 1) = rs' := by
  have hlt : idx < T.length := by
    by_cases hl : idx < T.length
    · exact hl
    · rw [List.drop_eq_nil_of_le (by omega)] at h; cases h
  refine ⟨hlt, ?_, ?_⟩
  · have := List.drop_eq_getElem_cons hlt
    rw [this] at h
    simp only [List.cons.injEq] at h
    simp only [ptRec, Nat.add_sub_cancel, List.getD_eq_getElem?_getD, List.getElem?_eq_getElem hlt, Option.getD_some, h.1]
  · have := List.drop_eq_getElem_cons hlt
    rw [this] at h
    simp only [List.cons.injEq] at h
    exact h.2

/-- the forward pass of `getLocation`: started at or before the record of the next component, with
    `level` the number of the directory reached so far, it ends at the last directory of the chain -/
theorem ptScan_chain (T : List PtRec) (hwf : PtWF T) : ∀ (sfxl : List PtRec) (idx a b : Nat) (rest : List Nat),
    T.drop idx = sfxl → IsChain T a (b :: rest) → idx < b → 1 ≤ a → a ≤ T.length →
    ptScan sfxl idx a ((b :: rest).map fun k => (ptRec T k).name) = (ptRec T ((b :: rest).getLast (by simp))).loc := by
  intro sfxl
  induction sfxl with
  | nil =>
    intro idx a b rest hd hch hlt _ _
    have : T.length ≤ idx := by
      by_cases h : T.length ≤ idx
      · exact h
      · have := List.drop_eq_getElem_cons (by omega : idx < T.length)
        rw [this] at hd; cases hd
    have := hch.2.1
    omega
  | cons r rs' ih =>
    intro idx a b rest hd hch hlt ha hal
    obtain ⟨hidx, hr, hd'⟩ := drop_cons_getD T idx r rs' hd
    obtain ⟨hb2, hbl, hbp, hrest⟩ := hch
    simp only [List.map_cons, ptScan]
    by_cases hm : r.parent = a ∧ r.name = (ptRec T b).name
    · rw [if_pos hm]
      have heq : idx + 1 = b := by
        apply hwf.uniq (idx + 1) b (by omega) (by omega) (by omega) hbl
        · rw [hr, hm.1, hbp]
        · rw [hr, hm.2]
      cases rest with
      | nil =>
        simp only [List.map_nil, List.getLast_singleton]
        rw [← heq, hr]
      | cons c rest' =>
        simp only [List.map_cons]
        have hc := hrest
        have hcp := hwf.parentBefore c hc.1 hc.2.1
        rw [hc.2.2.1] at hcp
        have := ih (idx + 1) (idx + 1) c rest' hd' (by rw [heq]; exact hc) (by omega) (by omega) (by omega)
        simp only [List.map_cons] at this
        rw [this]
        simp
    · rw [if_neg hm]
      have hne : idx + 1 ≠ b := by
        intro e
        apply hm
        rw [← hr, e]
        exact ⟨hbp, rfl⟩
      have := ih (idx + 1) a b rest hd' ⟨hb2, hbl, hbp, hrest⟩ (by omega) ha hal
      simp only [List.map_cons] at this
      exact this

/-- **path table lookup = walk from the root**: in a well-formed path table, looking up the path spelled
    by the names of a chain of directories root → b₁ → b₂ → … → bₘ (each the child of the one before)
    returns the extent recorded for bₘ -/
theorem ptLookup_chain (T : List PtRec) (hwf : PtWF T) (b : Nat) (rest : List Nat) (hch : IsChain T 1 (b :: rest)) :
    ptLookup T ((b :: rest).map fun k => (ptRec T k).name) = (ptRec T ((b :: rest).getLast (by simp))).loc := by
  cases T with
  | nil => have := hch.2.1; have := hch.1; simp at *; omega
  | cons r0 rs =>
    simp only [ptLookup, List.map_cons]
    rw [if_neg (hwf.noDot b hch.1 hch.2.1)]
    have := ptScan_chain (r0 :: rs) hwf (r0 :: rs) 0 1 b rest rfl hch (by have := hch.1; omega) (by omega) (by simp)
    simp only [List.map_cons] at this
    exact this

theorem isChain_append (T : List PtRec) (a : Nat) (l : List Nat) (x : Nat) (hl : IsChain T a l)
    (hx : 2 ≤ x ∧ x ≤ T.length ∧ (ptRec T x).parent = (l.getLast?.getD a)) : IsChain T a (l ++ [x]) := by
  induction l generalizing a with
  | nil => simpa [IsChain] using hx
  | cons b r ih =>
    obtain ⟨h1, h2, h3, h4⟩ := hl
    refine ⟨h1, h2, h3, ih b h4 ?_⟩
    cases r with
    | nil => simpa using hx
    | cons c r' =>
      have hs : (c :: r').getLast? = some ((c :: r').getLast (by simp)) := List.getLast?_eq_some_getLast (by simp)
      simp only [List.getLast?_cons_cons, hs, Option.getD_some] at hx ⊢
      exact hx

/-- every directory other than the root is reached by such a chain -/
theorem chain_exists (T : List PtRec) (hwf : PtWF T) : ∀ (n i : Nat), i ≤ n → 2 ≤ i → i ≤ T.length →
    ∃ l, IsChain T 1 (l ++ [i]) := by
  intro n
  induction n with
  | zero => intro i h1 h2; omega
  | succ n ih =>
    intro i hin h2 hl
    have hp := hwf.parentBefore i h2 hl
    by_cases h1 : (ptRec T i).parent = 1
    · exact ⟨[], by simp [IsChain]; exact ⟨h2, hl, h1⟩⟩
    · obtain ⟨l, hlc⟩ := ih (ptRec T i).parent (by omega) (by omega) (by omega)
      refine ⟨l ++ [(ptRec T i).parent], ?_⟩
      apply isChain_append T 1 _ i hlc
      refine ⟨h2, hl, ?_⟩
      simp

end Diskfs.Iso
