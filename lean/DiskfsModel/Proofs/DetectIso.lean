/-
  Helper lemmas for C12 (Props/C12.lean): what the readers see on the device iso9660 Finalize leaves behind
  (Model/Iso/Writes.lean `ImageIn.imageOn`: the WriteAt calls of a plain image over ARBITRARY prior content):
  the 32 KiB system area reads zero, the primary volume descriptor `encodePVD` sits at byte 32768 and the set
  terminator behind it, so iso9660.Read's header tests and its descriptor loop (Model/DetectMid.lean `isoMid`)
  go through to `deep`.
-/
import DiskfsModel.Model.DetectMid
import DiskfsModel.Proofs.Detect
import DiskfsModel.Proofs.IsoWrites
set_option linter.unusedSimpArgs false
namespace Diskfs.Detect
open Diskfs.Iso

theorem byte_of_readAt (d : Dev) (off len : Nat) (b : Bytes) (h : readAt d off len = b) (k : Nat) (hk : k < len) :
    d (off + k) = b.getD k 0 := by
  subst h
  simp [readAt, List.getD_eq_getElem?_getD, hk]

theorem zeros_getD (n j : Nat) : (zeros n).getD j 0 = 0 := by
  unfold zeros
  rw [List.getD_eq_getElem?_getD, List.getElem?_replicate]
  split <;> rfl

theorem encodePVD_head (p : PVD) :
    (encodePVD p).getD 0 0 = 1 ∧ (encodePVD p).getD 1 0 = 0x43 ∧ (encodePVD p).getD 2 0 = 0x44 ∧
    (encodePVD p).getD 3 0 = 0x30 ∧ (encodePVD p).getD 4 0 = 0x30 ∧ (encodePVD p).getD 5 0 = 0x31 ∧
    (encodePVD p).getD 6 0 = 1 := by
  simp [encodePVD, pvdMagic, List.getD_cons_succ, List.getD_cons_zero]

theorem terminator_head :
    terminator.getD 0 0 = 255 ∧ terminator.getD 1 0 = 0x43 ∧ terminator.getD 2 0 = 0x44 ∧
    terminator.getD 3 0 = 0x30 ∧ terminator.getD 4 0 = 0x30 ∧ terminator.getD 5 0 = 0x31 := by
  simp [terminator, List.getD_cons_succ, List.getD_cons_zero]

/-- the three regions the probes look at, on the device Finalize leaves (block size 2048, the only one whose
    descriptors the readers find: finding iso-blocksize-unrecognised) -/
theorem iso_image_regions (i : ImageIn) (d0 : Dev) (hbs : i.bs = 2048) (hp : i.pvd.WF) (hpl : i.Placed) :
    (∀ j, j < 32768 → i.imageOn d0 j = 0) ∧
    readAt (i.imageOn d0) 32768 2048 = encodePVD i.pvd ∧
    readAt (i.imageOn d0) 34816 2048 = terminator := by
  have hdisj := placed_writes_disjoint i (by omega) hp hpl
  have h1 : (⟨0, zeros (16 * i.bs)⟩ : Wr) ∈ i.writes := by simp [ImageIn.writes]
  have h3 : (⟨17 * i.bs, terminator⟩ : Wr) ∈ i.writes := by simp [ImageIn.writes]
  have r1 := applyWrs_read_back d0 i.writes hdisj _ h1
  have r2 := image_pvd_on i d0 hdisj hp
  have r3 := applyWrs_read_back d0 i.writes hdisj _ h3
  have himg : i.imageOn d0 = applyWrs d0 i.writes := by unfold ImageIn.imageOn; rw [writesGo_apply]
  rw [← himg] at r1 r3
  rw [zeros_length] at r1
  rw [terminator_length] at r3
  rw [hbs] at r1 r2 r3
  refine ⟨?_, r2, r3⟩
  intro j hj
  have := byte_of_readAt (i.imageOn d0) 0 (16 * 2048) _ r1 j (by omega)
  rw [Nat.zero_add] at this
  rw [this]
  exact zeros_getD _ _

/-- iso9660.Read's header tests and descriptor loop on a device with the primary descriptor at 32768 and the
    terminator behind it -/
theorem iso_read_on_regions (img : Dev) (p : PVD) (size avail : Nat) (deep : Verdict)
    (r2 : readAt img 32768 2048 = encodePVD p) (r3 : readAt img 34816 2048 = terminator)
    (hsz : size = 0 ∨ (38912 ≤ size ∧ size ≤ two32 * 2048)) (hav : 36864 ≤ avail) :
    verdictIso img size avail 0 (isoMid img avail deep) = deep := by
  obtain ⟨p0, p1, p2, p3, p4, p5, p6⟩ := encodePVD_head p
  obtain ⟨t0, t1, t2, t3, t4, t5⟩ := terminator_head
  have b (k : Nat) (hk : k < 2048) := byte_of_readAt img 32768 2048 _ r2 k hk
  have t (k : Nat) (hk : k < 2048) := byte_of_readAt img 34816 2048 _ r3 k hk
  have i0 : img 32768 = 1 := by rw [b 0 (by omega), p0]
  have i1 : img 32769 = 0x43 := by rw [b 1 (by omega), p1]
  have i2 : img 32770 = 0x44 := by rw [b 2 (by omega), p2]
  have i3 : img 32771 = 0x30 := by rw [b 3 (by omega), p3]
  have i4 : img 32772 = 0x30 := by rw [b 4 (by omega), p4]
  have i5 : img 32773 = 0x31 := by rw [b 5 (by omega), p5]
  have i6 : img 32774 = 1 := by rw [b 6 (by omega), p6]
  have j0 : img 34816 = 255 := by rw [t 0 (by omega), t0]
  have j1 : img 34817 = 0x43 := by rw [t 1 (by omega), t1]
  have j2 : img 34818 = 0x44 := by rw [t 2 (by omega), t2]
  have j3 : img 34819 = 0x30 := by rw [t 3 (by omega), t3]
  have j4 : img 34820 = 0x30 := by rw [t 4 (by omega), t4]
  have j5 : img 34821 = 0x31 := by rw [t 5 (by omega), t5]
  have ro0 : readOk avail 0 32768 = true := by simp [readOk]; omega
  have ro1 : readOk avail 32768 2048 = true := by simp [readOk]; omega
  have ro2 : readOk avail 34816 2048 = true := by simp [readOk]; omega
  have hmid : isoMid img avail deep = deep := by
    obtain ⟨f, hf⟩ : ∃ f, avail / 2048 + 1 = f + 2 := ⟨avail / 2048 - 1, by omega⟩
    unfold isoMid
    rw [hf]
    simp [isoLoop, isoIdOk, u8, ro1, ro2, i0, i1, i2, i3, i4, i5, i6, j0, j1, j2, j3, j4, j5]
  rw [hmid]
  unfold verdictIso
  rcases hsz with rfl | ⟨hlo, hhi⟩
  · simp [ro0, ro1, u8, i0, i1, i2, i3, i4, i5, i6]
  · have c1 : ¬ (size > two32 * 2048) := by omega
    have c2 : ¬ (size < 32768 + 4096 + 2048) := by omega
    simp [ro0, ro1, u8, i0, i1, i2, i3, i4, i5, i6, c1, c2]

end Diskfs.Detect
