/-
  C18 parsers — FAT `CheckGeometry` and the arithmetic of fat12/fat16/fat32 `Read` behind it.
-/
import DiskfsModel.Proofs.ParsersBase
namespace Diskfs.Parsers.Fat
open Diskfs.Parsers

/-- what a nil return of `CheckGeometry` establishes -/
theorem checkGeometry_spec (p : Bpb) (size : Int) (h : checkGeometry p size = true) :
    (p.bps = 512 ∨ p.bps = 1024 ∨ p.bps = 2048 ∨ p.bps = 4096) ∧ 0 < p.spc ∧ p.spc ≤ 128 ∧
    p.reserved ≠ 0 ∧ p.fatCount ≠ 0 ∧ p.spf ≠ 0 ∧ (p.total ≠ 0 → metaSectors p < p.total) ∧
    (size > 0 → ((metaSectors p * p.bps % two64 : Nat) : Int) ≤ size) := by
  unfold checkGeometry at h
  simp only [Bool.and_eq_true, Bool.or_eq_true, beq_iff_eq, Bool.not_eq_true', bne_iff_ne, ne_eq,
    Bool.or_eq_false_iff, Bool.and_eq_false_iff, decide_eq_false_iff_not, beq_eq_false_iff_ne,
    bne_eq_false_iff_eq] at h
  obtain ⟨⟨⟨⟨⟨⟨h1, ⟨h2, h3⟩, _⟩, h4⟩, h5⟩, h6⟩, h7⟩, h8⟩ := h
  refine ⟨by omega, by omega, by omega, h4, h5, h6, ?_, ?_⟩
  · intro ht; rcases h7 with h7 | h7
    · exact absurd h7 ht
    · omega
  · intro hs; rcases h8 with h8 | h8
    · exact absurd hs h8
    · omega

/-- the uint64 arithmetic of CheckGeometry is exact for in-range fields: nothing reaches 2^64 -/
theorem checkGeometry_u64 (p : Bpb) (hr : p.inRange) (hb : p.bps ≤ 4096) (hb0 : 0 < p.bps) :
    metaSectors p * p.bps < two64 := by
  obtain ⟨_, _, h3, h4, h5, h6, _⟩ := hr
  have h1 : p.fatCount * p.spf ≤ 255 * 4294967295 := Nat.mul_le_mul (by omega) (by unfold two32 at h5; omega)
  have h2 : rootDirSectors64 p ≤ p.rootEntries * 32 + p.bps := by
    unfold rootDirSectors64
    exact Nat.le_trans (Nat.div_le_self _ _) (by omega)
  have h7 : metaSectors p ≤ 65535 + 255 * 4294967295 + (65535 * 32 + 4096) := by
    unfold metaSectors; omega
  have : metaSectors p * p.bps ≤ (65535 + 255 * 4294967295 + (65535 * 32 + 4096)) * 4096 :=
    Nat.mul_le_mul h7 hb
  unfold two64; omega

/-- the geometry fat12.Read / fat16.Read compute, every operation in uint32 -/
def geomOf (p : Bpb) : Geom :=
  let rds := u32 (u32 (p.rootEntries * 32 + p.bps) + two32 - 1) / p.bps
  let ds := sub32 (sub32 (sub32 p.total p.reserved) (u32 (p.fatCount * p.spf))) rds
  ⟨u32 (u32 (u32 (u32 (p.reserved * p.bps) + u32 (p.spf * p.bps)) + u32 (p.spf * p.bps)) + u32 (rds * p.bps)),
   p.spc * p.bps, u32 (p.spf * p.bps),
   u32 (u32 (u32 (p.reserved * p.bps) + u32 (p.spf * p.bps)) + u32 (p.spf * p.bps)), ds / p.spc⟩

def badCount (k : Kind) (nc : Nat) : Bool :=
  match k with
  | .fat12 => decide (nc ≥ 4085)
  | .fat16 => decide (nc < 4085) || decide (nc ≥ 65525)

/-- fat12.Read / fat16.Read behind a successful CheckGeometry, with the divisions resolved -/
theorem read1216_checked_eq (k : Kind) (p : Bpb) (size : Int) (h0 : p.rootEntries ≠ 0)
    (hc : checkGeometry p size = true) :
    read1216 true k p size =
      if badCount k (geomOf p).numClusters = true then .err else .ok (geomOf p) := by
  obtain ⟨hb, hs, _⟩ := checkGeometry_spec p size hc
  have hb0 : p.bps ≠ 0 := by omega
  have hs0 : p.spc ≠ 0 := by omega
  unfold read1216 geomOf badCount
  simp only [h0, if_false, hc, Bool.not_true, Bool.and_false, Bool.false_eq_true, div?, hb0, hs0,
    bind_ok, pure_eq]
  cases k <;> rfl

theorem read1216_ok_inv (k : Kind) (p : Bpb) (size : Int) (g : Geom) (h : read1216 true k p size = .ok g) :
    p.rootEntries ≠ 0 ∧ checkGeometry p size = true ∧ g = geomOf p := by
  have h0 : p.rootEntries ≠ 0 := by
    intro h0; unfold read1216 at h; simp [h0] at h
  have hc : checkGeometry p size = true := by
    cases hc : checkGeometry p size
    · unfold read1216 at h; simp [h0, hc] at h
    · rfl
  rw [read1216_checked_eq k p size h0 hc] at h
  by_cases hbad : badCount k (geomOf p).numClusters = true
  · simp [hbad] at h
  · simp only [hbad] at h
    injection h with h
    exact ⟨h0, hc, h.symm⟩

/-- the checked readers never divide by zero — for EVERY value of the BPB fields and every size -/
theorem read1216_no_panic (k : Kind) (p : Bpb) (size : Int) : read1216 true k p size ≠ .panic := by
  by_cases h0 : p.rootEntries = 0
  · unfold read1216; simp [h0]
  · cases hc : checkGeometry p size
    · unfold read1216; simp [h0, hc]
    · rw [read1216_checked_eq k p size h0 hc]
      split <;> simp

theorem read32_no_panic (p : Bpb) (size : Int) : read32 true true p size ≠ .panic := by
  unfold read32
  simp only [Bool.true_and]
  cases hc : checkGeometry { p with rootEntries := 0 } size
  · simp
  · simp only [Bool.not_true, Bool.false_eq_true, if_false]
    obtain ⟨hb, _, _, _, _, hspf, _, _⟩ := checkGeometry_spec _ size hc
    simp only at hb hspf
    by_cases hw : p.spf * p.bps > 1073741824
    · simp [hw]
    · simp only [hw, decide_false, Bool.false_eq_true, if_false]
      have h1 : 512 ≤ p.spf * p.bps := by
        have : 1 * 512 ≤ p.spf * p.bps := Nat.mul_le_mul (by omega) (by omega)
        omega
      have h2 : ¬ (u32 (p.spf * p.bps) < 8) := by unfold u32 two32; omega
      simp [h2]

/-- no wrapped subtraction, no wrapped product: behind CheckGeometry, for 16-bit FAT12/16 fields and a
    non-zero total sector count, every uint32 intermediate of Read equals the exact natural number -/
theorem read1216_exact (k : Kind) (p : Bpb) (size : Int) (g : Geom) (hr : p.inRange) (hspf : p.spf < 65536)
    (ht : p.total ≠ 0) (h : read1216 true k p size = .ok g) :
    metaSectors p < p.total ∧
    g.numClusters = (p.total - metaSectors p) / p.spc ∧
    g.fatSize = p.spf * p.bps ∧
    g.rootDirOff = (p.reserved + 2 * p.spf) * p.bps ∧
    g.dataStart = (p.reserved + 2 * p.spf + rootDirSectors64 p) * p.bps := by
  obtain ⟨h0, hc, hg⟩ := read1216_ok_inv k p size g h
  obtain ⟨hb, hs, hs2, hres, hfc, hspf0, hmeta, _⟩ := checkGeometry_spec p size hc
  have hm := hmeta ht
  obtain ⟨_, _, r3, r4, _, r6, r7⟩ := hr
  have hfs : p.fatCount * p.spf < 16777216 := by
    have := Nat.mul_lt_mul'' r4 hspf; omega
  subst hg
  unfold geomOf
  simp only
  refine ⟨hm, ?_, ?_, ?_, ?_⟩
  · congr 1
    unfold metaSectors rootDirSectors64 at *
    unfold u32 sub32 two32 at *
    rcases hb with hb | hb | hb | hb <;> rw [hb] at hm ⊢ <;> omega
  · unfold u32 two32
    rcases hb with hb | hb | hb | hb <;> rw [hb] <;> omega
  · unfold u32 two32
    rcases hb with hb | hb | hb | hb <;> rw [hb] <;> omega
  · unfold rootDirSectors64 u32 two32
    rcases hb with hb | hb | hb | hb <;> rw [hb] <;> omega

/-- FAT allocation ≤ volume size: the `make([]byte, fatSize)` of fat12/fat16 Read -/
theorem read1216_alloc_le_size (k : Kind) (p : Bpb) (size : Int) (g : Geom) (hr : p.inRange) (hsz : size > 0)
    (h : read1216 true k p size = .ok g) : (g.fatSize : Int) ≤ size := by
  obtain ⟨h0, hc, hg⟩ := read1216_ok_inv k p size g h
  obtain ⟨hb, _, _, _, hfc, _, _, hsize⟩ := checkGeometry_spec p size hc
  have hS := hsize hsz
  rw [Nat.mod_eq_of_lt (checkGeometry_u64 p hr (by omega) (by omega))] at hS
  subst hg
  unfold geomOf
  simp only
  have h1 : p.spf ≤ p.fatCount * p.spf := Nat.le_mul_of_pos_left _ (by omega)
  have h2 : p.spf ≤ metaSectors p := by unfold metaSectors; omega
  have h3 : p.spf * p.bps ≤ metaSectors p * p.bps := Nat.mul_le_mul_right _ h2
  have h4 : u32 (p.spf * p.bps) ≤ p.spf * p.bps := Nat.mod_le _ _
  have h5 : ((metaSectors p * p.bps : Nat) : Int) ≤ size := by
    exact hS
  omega

/-- FAT allocation ≤ volume size: the `make([]byte, fatSize)` of fat32.Read -/
theorem read32_alloc_le_size (p : Bpb) (size : Int) (g : Geom32) (w : Bool) (hr : p.inRange) (hsz : size > 0)
    (h : read32 true w p size = .ok g) : (g.fatSize : Int) ≤ size := by
  unfold read32 at h
  simp only [Bool.true_and] at h
  cases hc : checkGeometry { p with rootEntries := 0 } size
  · simp [hc] at h
  · simp only [hc, Bool.not_true, Bool.false_eq_true, if_false, pure_eq] at h
    split at h
    · simp at h
    · split at h
      · simp at h
      · injection h with h
        subst h
        simp only
        obtain ⟨hb, _, _, _, hfc, _, _, hsize⟩ := checkGeometry_spec _ size hc
        have hS := hsize hsz
        have hr' : Bpb.inRange { p with rootEntries := 0 } := by
          obtain ⟨r1, r2, r3, r4, r5, _, r7⟩ := hr
          exact ⟨r1, r2, r3, r4, r5, by simp only; omega, r7⟩
        simp only at hb
        rw [Nat.mod_eq_of_lt (checkGeometry_u64 _ hr' (by simp only; omega) (by simp only; omega))] at hS
        simp only at hS hfc
        have h1 : p.spf ≤ p.fatCount * p.spf := Nat.le_mul_of_pos_left _ (by omega)
        have h2 : p.spf ≤ metaSectors { p with rootEntries := 0 } := by unfold metaSectors; simp only; omega
        have h3 : p.spf * p.bps ≤ metaSectors { p with rootEntries := 0 } * p.bps := Nat.mul_le_mul_right _ h2
        have h4 : u32 (p.spf * p.bps) ≤ p.spf * p.bps := Nat.mod_le _ _
        have h5 : ((metaSectors { p with rootEntries := 0 } * p.bps : Nat) : Int) ≤ size := by
          exact hS
        omega

end Diskfs.Parsers.Fat
