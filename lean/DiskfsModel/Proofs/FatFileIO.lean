/-
  Proofs about file I/O through a FAT cluster chain (model: DiskfsModel/Model/Fat/FileIO.lean).
  Read side : `readH` with `clamp = true` is the io.Reader contract over `fileContent`;
              outside `readClampTrigger` the as-found code coincides with it; a concrete
              counterexample shows the as-found code returning bytes past EOF.
  Write side: `writeCore` is a byte-string overwrite (`put`) of `chainBytes`; it only touches
              clusters of the written chain; `writeH` with `zeroHole = true` is `Spec.splice`;
              a concrete counterexample shows stale bytes in the hole when `zeroHole = false`.
  Core Lean only.
-/
import DiskfsModel.Model.Fat.FileIO
import DiskfsModel.Spec.Tree
namespace Diskfs.Fat

/-! ### general lemmas on `readAt`, `put`, `applyWrs` -/

theorem readAt_append (d : Dev) (off a b : Nat) :
    readAt d off (a + b) = readAt d off a ++ readAt d (off + a) b := by
  apply List.ext_getElem
  · simp
  · intro i h1 h2
    simp only [readAt, List.getElem_map, List.getElem_range, List.getElem_append]
    split
    · simp
    · rename_i h
      simp at h
      simp only [List.length_map, List.length_range]
      congr 1; omega

theorem readAt_take (d : Dev) (off n k : Nat) : (readAt d off n).take k = readAt d off (min k n) := by
  simp only [readAt, ← List.map_take, List.take_range]

theorem readAt_drop (d : Dev) (off n k : Nat) : (readAt d off n).drop k = readAt d (off + k) (n - k) := by
  apply List.ext_getElem
  · simp
  · intro i h1 h2
    simp only [readAt, List.getElem_drop, List.getElem_map, List.getElem_range]
    congr 1; omega

theorem readAt_congr (d1 d2 : Dev) (off n : Nat) (h : ∀ i, off ≤ i → i < off + n → d1 i = d2 i) :
    readAt d1 off n = readAt d2 off n := by
  apply List.ext_getElem
  · simp
  · intro i h1 _
    simp only [readAt, List.getElem_map, List.getElem_range]
    simp at h1
    exact h _ (by omega) (by omega)

theorem applyWrs_append (d : Dev) (ws ws' : List Wr) :
    applyWrs d (ws ++ ws') = applyWrs (applyWrs d ws) ws' := by
  simp [applyWrs, List.foldl_append]

theorem applyWrs_cons (d : Dev) (w : Wr) (ws : List Wr) :
    applyWrs d (w :: ws) = applyWrs (applyWr d w) ws := rfl

/-! ### `chainBytes` -/

theorem chainBytes_nil (d : Dev) (g : IOGeom) : chainBytes d g [] = [] := rfl

theorem chainBytes_cons (d : Dev) (g : IOGeom) (c : Nat) (cs : List Nat) :
    chainBytes d g (c :: cs) = readAt d (clusterOff g c) g.bpc ++ chainBytes d g cs := by
  simp [chainBytes]

/-- 1. -/
theorem chainBytes_length (d : Dev) (g : IOGeom) (chain : List Nat) :
    (chainBytes d g chain).length = chain.length * g.bpc := by
  induction chain with
  | nil => simp [chainBytes_nil]
  | cons c cs ih =>
    rw [chainBytes_cons, List.length_append, ih, readAt_length, List.length_cons, Nat.add_mul]
    omega

theorem chainBytes_drop (d : Dev) (g : IOGeom) (chain : List Nat) (i : Nat) :
    chainBytes d g (chain.drop i) = (chainBytes d g chain).drop (i * g.bpc) := by
  induction chain generalizing i with
  | nil => simp [chainBytes_nil]
  | cons c cs ih =>
    cases i with
    | zero => simp
    | succ i =>
      rw [List.drop_succ_cons, ih, chainBytes_cons, List.drop_append, readAt_length]
      have h1 : (i + 1) * g.bpc = g.bpc + i * g.bpc := by rw [Nat.add_mul]; omega
      have h2 : (readAt d (clusterOff g c) g.bpc).drop (g.bpc + i * g.bpc) = [] :=
        List.drop_of_length_le (by simp)
      rw [h1, h2, List.nil_append]
      congr 1; omega

theorem chainBytes_congr (d1 d2 : Dev) (g : IOGeom) (chain : List Nat)
    (h : ∀ c ∈ chain, ∀ i, clusterOff g c ≤ i → i < clusterOff g c + g.bpc → d1 i = d2 i) :
    chainBytes d1 g chain = chainBytes d2 g chain := by
  induction chain with
  | nil => rfl
  | cons c cs ih =>
    rw [chainBytes_cons, chainBytes_cons]
    congr 1
    · exact readAt_congr _ _ _ _ (h c (List.mem_cons_self ..))
    · exact ih (fun c' hc' => h c' (List.mem_cons_of_mem _ hc'))

/-! ### Read -/

theorem readLoop_spec (d : Dev) (g : IOGeom) (maxRead : Nat) (cs : List Nat) (total : Nat) (acc : Bytes)
    (ht : total ≤ maxRead) :
    readLoop d g maxRead cs total acc = some (acc ++ (chainBytes d g cs).take (maxRead - total)) := by
  induction cs generalizing total acc with
  | nil => simp [readLoop, chainBytes_nil]
  | cons c cs ih =>
    unfold readLoop
    rw [if_neg (by omega)]
    simp only
    rw [chainBytes_cons, List.take_append, readAt_take, readAt_length]
    split
    · rename_i hd
      have h1 : min g.bpc (maxRead - total) = min (maxRead - total) g.bpc := by omega
      have h2 : maxRead - total - g.bpc = 0 := by omega
      rw [h1, h2]; simp
    · rename_i hd
      rw [ih _ _ (by omega)]
      have h1 : min g.bpc (maxRead - total) = min (maxRead - total) g.bpc := by omega
      have h2 : maxRead - (total + min (maxRead - total) g.bpc) = maxRead - total - g.bpc := by omega
      rw [h1, h2, List.append_assoc]

/-- 2. -/
theorem readH_eof (clamp : Bool) (d : Dev) (g : IOGeom) (chain : List Nat) (fileSize off n : Nat)
    (h : fileSize ≤ off) : readH clamp d g chain fileSize off n = some ([], off, true) := by
  simp [readH, h]

theorem readH_aux (d : Dev) (g : IOGeom) (chain : List Nat) (fileSize off n : Nat)
    (hb : 0 < g.bpc) (hsz : fileSize ≤ chain.length * g.bpc) (ho : off < fileSize) :
    readH true d g chain fileSize off n =
      some (((chainBytes d g chain).drop off).take (min (fileSize - off) n),
            off + (((chainBytes d g chain).drop off).take (min (fileSize - off) n)).length,
            decide (off + (((chainBytes d g chain).drop off).take (min (fileSize - off) n)).length ≥ fileSize)) := by
  unfold readH
  rw [if_neg (by omega)]
  simp only
  by_cases h0 : off = 0
  · rw [if_pos h0, readLoop_spec _ _ _ _ _ _ (Nat.zero_le _)]
    subst h0
    simp
  · rw [if_neg h0]
    have hci : off / g.bpc < chain.length := (Nat.div_lt_iff_lt_mul hb).2 (by omega)
    rw [if_neg (by omega)]
    have hdm := Nat.div_add_mod off g.bpc
    have hoff : off / g.bpc * g.bpc + off % g.bpc = off := by rw [Nat.mul_comm]; exact hdm
    by_cases hr : off % g.bpc = 0
    · rw [if_pos hr, readLoop_spec _ _ _ _ _ _ (Nat.zero_le _), chainBytes_drop]
      have : off / g.bpc * g.bpc = off := by omega
      rw [this]
      simp
    · rw [if_neg hr]
      simp only [if_true]
      rw [readLoop_spec _ _ _ _ _ _ (by omega)]
      have hlt : off % g.bpc < g.bpc := Nat.mod_lt _ hb
      -- the bytes from `off` on: rest of cluster `ci`, then the following clusters
      have hsplit : (chainBytes d g chain).drop off
          = readAt d (clusterOff g (chain.getD (off / g.bpc) 0) + off % g.bpc) (g.bpc - off % g.bpc)
            ++ chainBytes d g (chain.drop (off / g.bpc + 1)) := by
        have h1 : (chainBytes d g chain).drop off
            = ((chainBytes d g chain).drop (off / g.bpc * g.bpc)).drop (off % g.bpc) := by
          rw [List.drop_drop, hoff]
        rw [h1, ← chainBytes_drop, List.drop_eq_getElem_cons hci, chainBytes_cons, List.drop_append,
          readAt_drop, readAt_length]
        have h2 : off % g.bpc - g.bpc = 0 := by omega
        rw [h2, List.drop_zero]
        simp [List.getD_eq_getElem?_getD, hci]
      rw [hsplit, List.take_append, readAt_take, readAt_length]
      have e1 : min (min (g.bpc - off % g.bpc) n) (min (fileSize - off) n)
          = min (min (fileSize - off) n) (g.bpc - off % g.bpc) := by omega
      have e2 : min (fileSize - off) n - min (min (fileSize - off) n) (g.bpc - off % g.bpc)
          = min (fileSize - off) n - (g.bpc - off % g.bpc) := by omega
      rw [e1, e2]
      simp

/-- 3. the io.Reader contract of the repaired read -/
theorem readH_spec (d : Dev) (g : IOGeom) (chain : List Nat) (fileSize off n : Nat)
    (hb : 0 < g.bpc) (hsz : fileSize ≤ chain.length * g.bpc) (ho : off < fileSize) :
    readH true d g chain fileSize off n =
      some (((fileContent d g chain fileSize).drop off).take n,
            off + min n (fileSize - off),
            decide (off + min n (fileSize - off) ≥ fileSize)) := by
  rw [readH_aux d g chain fileSize off n hb hsz ho]
  have hlen : (((chainBytes d g chain).drop off).take (min (fileSize - off) n)).length
      = min n (fileSize - off) := by
    rw [List.length_take, List.length_drop, chainBytes_length]; omega
  rw [hlen]
  have hdata : ((fileContent d g chain fileSize).drop off).take n
      = ((chainBytes d g chain).drop off).take (min (fileSize - off) n) := by
    rw [fileContent, List.drop_take, List.take_take]
    congr 1; omega
  rw [hdata]

/-- non-vacuity of `readH_spec`: two clusters of 4 bytes, a 7-byte file, read 3 bytes at offset 2 -/
example : readH true (fun i => UInt8.ofNat i) ⟨0, 0, 4⟩ [3, 2] 7 2 3
    = some ([UInt8.ofNat 6, UInt8.ofNat 7, UInt8.ofNat 0], 5, false) := by
  rw [readH_spec _ _ _ _ _ _ (by decide) (by decide) (by decide)]
  decide

/-- 4. outside the trigger the as-found read and the repaired read coincide -/
theorem readH_agree (d : Dev) (g : IOGeom) (chain : List Nat) (fileSize off n : Nat)
    (h : readClampTrigger g fileSize off n = false) :
    readH false d g chain fileSize off n = readH true d g chain fileSize off n := by
  unfold readH
  by_cases h1 : fileSize ≤ off
  · simp [h1]
  · rw [if_neg h1, if_neg h1]
    simp only
    by_cases h0 : off = 0
    · simp [h0]
    · rw [if_neg h0, if_neg h0]
      by_cases hci : off / g.bpc ≥ chain.length
      · simp [hci]
      · rw [if_neg hci, if_neg hci]
        by_cases hr : off % g.bpc = 0
        · simp [hr]
        · rw [if_neg hr, if_neg hr]
          have ht : ¬ (min (g.bpc - off % g.bpc) n > fileSize - off) := by
            simp only [readClampTrigger, Bool.and_eq_false_iff, decide_eq_false_iff_not] at h
            rcases h with (h | h) | h
            · omega
            · exact absurd hr h
            · exact h
          have e : min (min (g.bpc - off % g.bpc) n) (min (fileSize - off) n)
              = min (g.bpc - off % g.bpc) n := by omega
          simp only [if_true, e]
          simp


/-- 5. the as-found read (no clamp) hands out a byte past EOF: a 7-byte file in one 8-byte cluster,
    read of 8 bytes at offset 6 returns 2 bytes (and moves the offset to 8) where the file has 1 left -/
theorem cex_read_clamp :
    readH false (fun i => UInt8.ofNat i) ⟨0, 0, 8⟩ [2] 7 6 8 = some ([UInt8.ofNat 6, UInt8.ofNat 7], 8, true)
    ∧ readH true (fun i => UInt8.ofNat i) ⟨0, 0, 8⟩ [2] 7 6 8 = some ([UInt8.ofNat 6], 7, true)
    ∧ ((fileContent (fun i => UInt8.ofNat i) ⟨0, 0, 8⟩ [2] 7).drop 6).take 8 = [UInt8.ofNat 6]
    ∧ readClampTrigger ⟨0, 0, 8⟩ 7 6 8 = true := by
  decide

/-! ### clusters are disjoint byte ranges -/

theorem clusterOff_lt (g : IOGeom) (c c' : Nat) (h2 : 2 ≤ c) (h : c < c') :
    clusterOff g c + g.bpc ≤ clusterOff g c' := by
  unfold clusterOff
  have h1 : (c - 2 + 1) * g.bpc ≤ (c' - 2) * g.bpc := Nat.mul_le_mul_right _ (by omega)
  rw [Nat.add_mul] at h1
  omega

theorem cluster_disjoint (g : IOGeom) (c c' : Nat) (h2 : 2 ≤ c) (h2' : 2 ≤ c') (hne : c ≠ c') :
    clusterOff g c + g.bpc ≤ clusterOff g c' ∨ clusterOff g c' + g.bpc ≤ clusterOff g c := by
  rcases Nat.lt_or_gt_of_ne hne with h | h
  · left; exact clusterOff_lt g c c' h2 h
  · right; exact clusterOff_lt g c' c h2' h

/-- the write lies inside cluster `c` -/
def InCluster (g : IOGeom) (c : Nat) (w : Wr) : Prop :=
  clusterOff g c ≤ w.off ∧ w.off + w.data.length ≤ clusterOff g c + g.bpc

/-- writes that stay inside the clusters of `chain` leave every byte outside those clusters alone -/
theorem writes_frame (d : Dev) (g : IOGeom) (chain : List Nat) (ws : List Wr) (i : Nat)
    (hws : ∀ w ∈ ws, w.data.length = 0 ∨ ∃ c ∈ chain, InCluster g c w)
    (hi : ∀ c ∈ chain, i < clusterOff g c ∨ clusterOff g c + g.bpc ≤ i) :
    applyWrs d ws i = d i := by
  apply applyWrs_frame
  intro w hw
  rcases hws w hw with h0 | ⟨c, hc, h1, h2⟩
  · omega
  · have := hi c hc
    omega

theorem chainBytes_other (d : Dev) (g : IOGeom) (chain chain' : List Nat) (ws : List Wr)
    (hws : ∀ w ∈ ws, w.data.length = 0 ∨ ∃ c ∈ chain, InCluster g c w)
    (h2 : ∀ c ∈ chain, 2 ≤ c) (h2' : ∀ c ∈ chain', 2 ≤ c) (hdis : ∀ c ∈ chain', c ∉ chain) :
    chainBytes (applyWrs d ws) g chain' = chainBytes d g chain' := by
  apply chainBytes_congr
  intro c' hc' i hi1 hi2
  apply writes_frame d g chain ws i hws
  intro c hc
  have hne : c' ≠ c := fun e => hdis c' hc' (e ▸ hc)
  have := cluster_disjoint g c' c (h2' c' hc') (h2 c hc) hne
  omega

/-! ### `put` algebra -/

theorem take_min_length {α : Type} (q : List α) (k : Nat) : q.take (min k q.length) = q.take k :=
  List.take_eq_take_min.symm

theorem drop_min_length {α : Type} (q : List α) (k : Nat) : q.drop (min k q.length) = q.drop k := by
  by_cases h : k ≤ q.length
  · rw [Nat.min_eq_left h]
  · rw [Nat.min_eq_right (by omega), List.drop_of_length_le (Nat.le_refl _), List.drop_of_length_le (by omega)]

theorem put_append_ge (A B q : Bytes) (off : Nat) (h : A.length ≤ off) :
    put (A ++ B) off q = A ++ put B (off - A.length) q := by
  unfold put
  rw [List.take_append, List.drop_append, List.take_of_length_le h,
    List.drop_of_length_le (show A.length ≤ off + q.length by omega), List.length_append]
  have e1 : A.length + B.length - off = B.length - (off - A.length) := by omega
  have e2 : off + q.length - A.length = off - A.length + q.length := by omega
  rw [e1, e2]
  simp only [List.append_assoc, List.nil_append]

theorem put_append_le (A B q : Bytes) (off : Nat) (h : off ≤ A.length) :
    put (A ++ B) off q = put A off q ++ put B 0 (q.drop (A.length - off)) := by
  unfold put
  rw [List.take_append, List.drop_append, List.length_append, List.length_drop]
  have e0 : off - A.length = 0 := by omega
  rw [e0]
  simp only [List.take_zero, List.append_nil, List.nil_append, Nat.sub_zero, Nat.zero_add, List.append_assoc]
  congr 1
  by_cases hq : q.length ≤ A.length - off
  · rw [List.take_of_length_le (show q.length ≤ A.length + B.length - off by omega),
      List.take_of_length_le hq, List.drop_of_length_le hq]
    have e1 : off + q.length - A.length = 0 := by omega
    have e2 : q.length - (A.length - off) = 0 := by omega
    rw [e1, e2]
    simp
  · have e1 : A.length + B.length - off = (A.length - off) + B.length := by omega
    have e2 : off + q.length - A.length = q.length - (A.length - off) := by omega
    rw [e1, e2, List.take_add, List.drop_of_length_le (show A.length ≤ off + q.length by omega)]
    simp only [List.append_assoc, List.nil_append]

theorem put_trunc (A q : Bytes) (off : Nat) : put A off q = put A off (q.take (A.length - off)) := by
  unfold put
  rw [List.take_take, Nat.min_self, List.length_take]
  by_cases hq : q.length ≤ A.length - off
  · rw [Nat.min_eq_right hq]
  · rw [List.drop_of_length_le (show A.length ≤ off + q.length by omega),
      List.drop_of_length_le (show A.length ≤ off + min (A.length - off) q.length by omega)]

/-- a write inside `[o, o+n)` is a `put` on what is read from there -/
theorem readAt_applyWr_put (d : Dev) (o n rem : Nat) (data : Bytes) (h : rem + data.length ≤ n) :
    readAt (applyWr d ⟨o + rem, data⟩) o n = put (readAt d o n) rem data := by
  obtain ⟨k, rfl⟩ : ∃ k, n = rem + (data.length + k) := ⟨n - rem - data.length, by omega⟩
  rw [readAt_append, readAt_append]
  rw [readAt_applyWr_disjoint d ⟨o + rem, data⟩ o rem (by left; simp)]
  rw [readAt_applyWr_disjoint d ⟨o + rem, data⟩ (o + rem + data.length) k (by right; simp)]
  have hs := readAt_applyWr_same d ⟨o + rem, data⟩
  simp only at hs
  rw [hs]
  unfold put
  rw [readAt_take, readAt_drop, readAt_length]
  have e1 : min rem (rem + (data.length + k)) = rem := by omega
  have e2 : rem + (data.length + k) - (rem + data.length) = k := by omega
  have e3 : o + (rem + data.length) = o + rem + data.length := by omega
  rw [e1, e2, e3, List.take_of_length_le (show data.length ≤ rem + (data.length + k) - rem by omega)]
  simp only [List.append_assoc]

/-! ### Write -/

theorem writeLoop_acc (g : IOGeom) (p : Bytes) (cs : List Nat) (total : Nat) (ws : List Wr) :
    writeLoop g p cs total ws = ws ++ writeLoop g p cs total [] := by
  induction cs generalizing total ws with
  | nil => simp [writeLoop]
  | cons c cs ih =>
    simp only [writeLoop]
    rw [ih _ (ws ++ _), ih _ ([] ++ _)]
    simp

theorem writeLoop_in (g : IOGeom) (p : Bytes) (cs : List Nat) (total : Nat) :
    ∀ w ∈ writeLoop g p cs total [], ∃ c ∈ cs, InCluster g c w := by
  induction cs generalizing total with
  | nil => simp [writeLoop]
  | cons c cs ih =>
    intro w hw
    simp only [writeLoop] at hw
    rw [writeLoop_acc] at hw
    simp only [List.nil_append, List.mem_append, List.mem_singleton] at hw
    rcases hw with hw | hw
    · subst hw
      refine ⟨c, List.mem_cons_self .., Nat.le_refl _, ?_⟩
      simp only [List.length_take, List.length_drop]
      omega
    · obtain ⟨c', hc', h⟩ := ih _ w hw
      exact ⟨c', List.mem_cons_of_mem _ hc', h⟩

/-- the whole-cluster loop overwrites the chain's bytes with `p[total:]` -/
theorem writeLoop_effect (d : Dev) (g : IOGeom) (p : Bytes) (cs : List Nat) (total : Nat)
    (hnd : cs.Nodup) (h2 : ∀ c ∈ cs, 2 ≤ c) :
    chainBytes (applyWrs d (writeLoop g p cs total [])) g cs = put (chainBytes d g cs) 0 (p.drop total) := by
  induction cs generalizing d total with
  | nil => simp [writeLoop, chainBytes_nil, put]
  | cons c cs ih =>
    obtain ⟨hc, hnd'⟩ := List.nodup_cons.1 hnd
    have h2' : ∀ c' ∈ cs, 2 ≤ c' := fun c' hc' => h2 c' (List.mem_cons_of_mem _ hc')
    have h2c : 2 ≤ c := h2 c (List.mem_cons_self ..)
    simp only [writeLoop]
    rw [writeLoop_acc, List.nil_append, applyWrs_append, chainBytes_cons, chainBytes_cons,
      put_append_le _ _ _ 0 (Nat.zero_le _), readAt_length, Nat.sub_zero]
    have hq : p.length - total = (p.drop total).length := by simp
    rw [hq]
    generalize hqd : p.drop total = q
    have hrest := writeLoop_in g p cs (total + min g.bpc q.length)
    rw [show applyWrs d [⟨clusterOff g c, q.take (min g.bpc q.length)⟩]
          = applyWr d ⟨clusterOff g c, q.take (min g.bpc q.length)⟩ from rfl]
    congr 1
    · -- cluster `c` itself: only the first write lands there
      have e1 : readAt (applyWrs (applyWr d ⟨clusterOff g c, q.take (min g.bpc q.length)⟩)
            (writeLoop g p cs (total + min g.bpc q.length) [])) (clusterOff g c) g.bpc
          = readAt (applyWr d ⟨clusterOff g c, q.take (min g.bpc q.length)⟩) (clusterOff g c) g.bpc := by
        apply readAt_congr
        intro i hi1 hi2
        apply writes_frame _ g cs _ i (fun w hw => Or.inr (hrest w hw))
        intro c' hc'
        have hne : c ≠ c' := fun e => hc (e ▸ hc')
        have := cluster_disjoint g c c' h2c (h2' c' hc') hne
        omega
      have e2 := readAt_applyWr_put d (clusterOff g c) g.bpc 0 (q.take (min g.bpc q.length))
        (by simp only [List.length_take]; omega)
      rw [Nat.add_zero] at e2
      rw [e1, e2, take_min_length, put_trunc _ q 0, readAt_length, Nat.sub_zero]
    · -- the following clusters: induction, and the first write does not reach them
      rw [ih _ _ hnd' h2']
      congr 1
      · apply chainBytes_congr
        intro c' hc' i hi1 hi2
        apply applyWr_frame
        have hne : c ≠ c' := fun e => hc (e ▸ hc')
        have := cluster_disjoint g c c' h2c (h2' c' hc') hne
        simp only [List.length_take]
        omega
      · rw [← List.drop_drop, hqd, drop_min_length]

/-- 6. `File.Write` does not panic when the allocated chain covers the written range.
    (The side condition excludes only `off = chain.length * bpc ≠ 0` with `p = []`, where Go indexes
    `clusters[len(clusters)]`.) -/
theorem writeCore_some (g : IOGeom) (chain : List Nat) (off : Nat) (p : Bytes)
    (_hb : 0 < g.bpc) (_hlen : off + p.length ≤ chain.length * g.bpc)
    (hoff : off = 0 ∨ off / g.bpc < chain.length) :
    ∃ ws, writeCore g chain off p = some ws := by
  unfold writeCore
  by_cases h0 : off = 0
  · exact ⟨_, if_pos h0⟩
  · have hci : off / g.bpc < chain.length := by
      rcases hoff with h | h
      · exact absurd h h0
      · exact h
    rw [if_neg h0]
    simp only
    rw [if_neg (by omega)]
    split
    · exact ⟨_, rfl⟩
    · exact ⟨_, rfl⟩

/-- variant: a non-empty write inside the chain never panics -/
theorem writeCore_some' (g : IOGeom) (chain : List Nat) (off : Nat) (p : Bytes)
    (hb : 0 < g.bpc) (hlen : off + p.length ≤ chain.length * g.bpc)
    (hoff : off < chain.length * g.bpc ∨ off = 0) :
    ∃ ws, writeCore g chain off p = some ws := by
  apply writeCore_some g chain off p hb hlen
  rcases hoff with h | h
  · right; exact (Nat.div_lt_iff_lt_mul hb).2 h
  · left; exact h

/-- every WriteAt issued by `File.Write` lies inside one cluster of the chain -/
theorem writeCore_in_cluster (g : IOGeom) (chain : List Nat) (off : Nat) (p : Bytes) (ws : List Wr)
    (hb : 0 < g.bpc) (h : writeCore g chain off p = some ws) :
    ∀ w ∈ ws, ∃ c ∈ chain, InCluster g c w := by
  unfold writeCore at h
  by_cases h0 : off = 0
  · rw [if_pos h0] at h
    cases h
    exact writeLoop_in g p chain 0
  · rw [if_neg h0] at h
    simp only at h
    by_cases hci : off / g.bpc ≥ chain.length
    · rw [if_pos hci] at h; cases h
    · rw [if_neg hci] at h
      by_cases hr : off % g.bpc = 0
      · rw [if_pos hr] at h
        cases h
        intro w hw
        obtain ⟨c, hc, hin⟩ := writeLoop_in g p _ 0 w hw
        exact ⟨c, List.mem_of_mem_drop hc, hin⟩
      · rw [if_neg hr] at h
        cases h
        intro w hw
        rw [writeLoop_acc] at hw
        simp only [List.mem_append, List.mem_singleton] at hw
        rcases hw with hw | hw
        · subst hw
          have hlt : off / g.bpc < chain.length := by omega
          refine ⟨chain[off / g.bpc], List.getElem_mem hlt, ?_⟩
          have hm : off % g.bpc < g.bpc := Nat.mod_lt _ hb
          simp only [InCluster, List.getD_eq_getElem?_getD, List.getElem?_eq_getElem hlt, Option.getD_some,
            List.length_take]
          omega
        · obtain ⟨c, hc, hin⟩ := writeLoop_in g p _ _ w hw
          exact ⟨c, List.mem_of_mem_drop hc, hin⟩

/-- 8a. -/
theorem writeCore_in_chain (g : IOGeom) (chain : List Nat) (off : Nat) (p : Bytes) (ws : List Wr)
    (hb : 0 < g.bpc) (h : writeCore g chain off p = some ws) :
    ∀ w ∈ ws, w.data.length = 0 ∨
      ∃ c ∈ chain, clusterOff g c ≤ w.off ∧ w.off + w.data.length ≤ clusterOff g c + g.bpc :=
  fun w hw => Or.inr (writeCore_in_cluster g chain off p ws hb h w hw)

/-- 8b. bytes outside the clusters of the chain are not written -/
theorem writeCore_frame (d : Dev) (g : IOGeom) (chain : List Nat) (off : Nat) (p : Bytes) (ws : List Wr)
    (i : Nat) (hb : 0 < g.bpc) (h : writeCore g chain off p = some ws)
    (hi : ∀ c ∈ chain, i < clusterOff g c ∨ clusterOff g c + g.bpc ≤ i) :
    applyWrs d ws i = d i :=
  writes_frame d g chain ws i (writeCore_in_chain g chain off p ws hb h) hi

/-- 8c. a file whose chain shares no cluster with the written chain keeps its bytes -/
theorem other_chain_untouched (d : Dev) (g : IOGeom) (chain chain' : List Nat) (off : Nat) (p : Bytes)
    (ws : List Wr) (hb : 0 < g.bpc) (h : writeCore g chain off p = some ws)
    (h2' : ∀ c ∈ chain', 2 ≤ c) (hdis : ∀ c ∈ chain', c ∉ chain) (h2 : ∀ c ∈ chain, 2 ≤ c) :
    chainBytes (applyWrs d ws) g chain' = chainBytes d g chain' :=
  chainBytes_other d g chain chain' ws (writeCore_in_chain g chain off p ws hb h) h2 h2' hdis

/-- writing past the first cluster is writing into the tail of the chain -/
theorem writeCore_step (g : IOGeom) (c : Nat) (cs : List Nat) (off : Nat) (p : Bytes) (ws : List Wr)
    (hb : 0 < g.bpc) (hoff : g.bpc ≤ off) (h : writeCore g (c :: cs) off p = some ws) :
    writeCore g cs (off - g.bpc) p = some ws := by
  obtain ⟨k, rfl⟩ : ∃ k, off = k + g.bpc := ⟨off - g.bpc, by omega⟩
  have hd : (k + g.bpc) / g.bpc = k / g.bpc + 1 := by
    have := Nat.add_mul_div_right k 1 hb
    rwa [Nat.one_mul] at this
  have hm : (k + g.bpc) % g.bpc = k % g.bpc := by
    have := Nat.add_mul_mod_self_right k 1 g.bpc
    rwa [Nat.one_mul] at this
  rw [Nat.add_sub_cancel]
  unfold writeCore at h ⊢
  rw [if_neg (by omega)] at h
  simp only [hd, hm, List.drop_succ_cons, List.getD_cons_succ, List.length_cons] at h
  by_cases hk : k = 0
  · subst hk
    simp only [Nat.zero_div, Nat.zero_mod, Nat.zero_add, List.drop_zero, if_true] at h
    rw [if_pos rfl]
    split at h
    · cases h
    · exact h
  · rw [if_neg hk]
    simp only
    split at h
    · cases h
    · rename_i hci
      rw [if_neg (by omega)]
      exact h

/-- 7. a write through the chain is a byte-string overwrite at `off` -/
theorem writeCore_spec (d : Dev) (g : IOGeom) (chain : List Nat) (off : Nat) (p : Bytes) (ws : List Wr)
    (hb : 0 < g.bpc) (hnd : chain.Nodup) (h2 : ∀ c ∈ chain, 2 ≤ c)
    (hlen : off + p.length ≤ chain.length * g.bpc) (h : writeCore g chain off p = some ws) :
    chainBytes (applyWrs d ws) g chain = put (chainBytes d g chain) off p := by
  induction chain generalizing off with
  | nil =>
    simp only [List.length_nil, Nat.zero_mul] at hlen
    have hp : p = [] := List.eq_nil_of_length_eq_zero (by omega)
    subst hp
    simp [chainBytes_nil, put]
  | cons c cs ih =>
    obtain ⟨hc, hnd'⟩ := List.nodup_cons.1 hnd
    have h2' : ∀ c' ∈ cs, 2 ≤ c' := fun c' hc' => h2 c' (List.mem_cons_of_mem _ hc')
    have h2c : 2 ≤ c := h2 c (List.mem_cons_self ..)
    have hlen' : off + p.length ≤ g.bpc + cs.length * g.bpc := by
      rw [List.length_cons, Nat.add_mul, Nat.one_mul] at hlen; omega
    by_cases hoff : g.bpc ≤ off
    · -- the first cluster is skipped
      have h' := writeCore_step g c cs off p ws hb hoff h
      have hin := writeCore_in_cluster g cs _ p ws hb h'
      rw [chainBytes_cons, chainBytes_cons, put_append_ge _ _ _ _ (by simp [hoff]), readAt_length,
        ih (off - g.bpc) hnd' h2' (by omega) h']
      congr 1
      apply readAt_congr
      intro i hi1 hi2
      apply writes_frame d g cs ws i (fun w hw => Or.inr (hin w hw))
      intro c' hc'
      have hne : c ≠ c' := fun e => hc (e ▸ hc')
      have := cluster_disjoint g c c' h2c (h2' c' hc') hne
      omega
    · by_cases h0 : off = 0
      · subst h0
        unfold writeCore at h
        rw [if_pos rfl] at h
        cases h
        have := writeLoop_effect d g p (c :: cs) 0 hnd h2
        rwa [List.drop_zero] at this
      · -- the write starts inside the first cluster
        have hlt : off < g.bpc := by omega
        unfold writeCore at h
        rw [if_neg h0] at h
        simp only [Nat.div_eq_of_lt hlt, Nat.mod_eq_of_lt hlt, List.length_cons, List.getD_cons_zero,
          Nat.zero_add, List.drop_succ_cons, List.drop_zero] at h
        rw [if_neg (by omega), if_neg h0] at h
        cases h
        rw [writeLoop_acc, applyWrs_append,
          show applyWrs d [⟨clusterOff g c + off, p.take (min (g.bpc - off) p.length)⟩]
            = applyWr d ⟨clusterOff g c + off, p.take (min (g.bpc - off) p.length)⟩ from rfl,
          chainBytes_cons, chainBytes_cons, put_append_le _ _ _ off (by simp; omega), readAt_length]
        have hrest := writeLoop_in g p cs (min (g.bpc - off) p.length)
        congr 1
        · have e1 : readAt (applyWrs (applyWr d ⟨clusterOff g c + off, p.take (min (g.bpc - off) p.length)⟩)
                (writeLoop g p cs (min (g.bpc - off) p.length) [])) (clusterOff g c) g.bpc
              = readAt (applyWr d ⟨clusterOff g c + off, p.take (min (g.bpc - off) p.length)⟩)
                  (clusterOff g c) g.bpc := by
            apply readAt_congr
            intro i hi1 hi2
            apply writes_frame _ g cs _ i (fun w hw => Or.inr (hrest w hw))
            intro c' hc'
            have hne : c ≠ c' := fun e => hc (e ▸ hc')
            have := cluster_disjoint g c c' h2c (h2' c' hc') hne
            omega
          have e2 := readAt_applyWr_put d (clusterOff g c) g.bpc off (p.take (min (g.bpc - off) p.length))
            (by simp only [List.length_take]; omega)
          rw [e1, e2, take_min_length, put_trunc _ p off, readAt_length]
        · rw [writeLoop_effect _ g p cs _ hnd' h2', drop_min_length]
          congr 1
          apply chainBytes_congr
          intro c' hc' i hi1 hi2
          apply applyWr_frame
          have hne : c ≠ c' := fun e => hc (e ▸ hc')
          have := cluster_disjoint g c c' h2c (h2' c' hc') hne
          simp only [List.length_take]
          omega

/-- non-vacuity of `writeCore_spec`: three 4-byte clusters, 5 bytes written at offset 2 -/
example (d : Dev) : ∃ ws, writeCore ⟨0, 0, 4⟩ [4, 2, 3] 2 [1, 2, 3, 4, 5] = some ws
    ∧ chainBytes (applyWrs d ws) ⟨0, 0, 4⟩ [4, 2, 3] = put (chainBytes d ⟨0, 0, 4⟩ [4, 2, 3]) 2 [1, 2, 3, 4, 5] :=
  ⟨_, rfl, writeCore_spec d _ _ _ _ _ (by decide) (by decide) (by decide) (by decide) rfl⟩

/-! ### file level: `writeH` against `Spec.splice` -/

theorem put_eq (b q : Bytes) (off : Nat) (h : off + q.length ≤ b.length) :
    put b off q = b.take off ++ q ++ b.drop (off + q.length) := by
  unfold put
  rw [List.take_of_length_le (show q.length ≤ b.length - off by omega)]

theorem take_put (b q : Bytes) (off M : Nat) (h : off + q.length ≤ b.length) (hM : off + q.length ≤ M) :
    (put b off q).take M = b.take off ++ q ++ (b.drop (off + q.length)).take (M - (off + q.length)) := by
  have hl : (b.take off ++ q).length = off + q.length := by
    rw [List.length_append, List.length_take]; omega
  rw [put_eq _ _ _ h, List.take_append, List.take_of_length_le (by omega), hl]

/-- overwrite not starting past the end of the file -/
theorem splice_nohole (cb p : Bytes) (oldSize off : Nat) (hold : oldSize ≤ cb.length)
    (hlen : off + p.length ≤ cb.length) (hle : off ≤ oldSize) :
    (put cb off p).take (Nat.max oldSize (off + p.length)) = Spec.splice (cb.take oldSize) off p := by
  have hmax : Nat.max oldSize (off + p.length) = max oldSize (off + p.length) := rfl
  rw [hmax, take_put _ _ _ _ hlen (by omega)]
  unfold Spec.splice
  have hl : (cb.take oldSize).length = oldSize := by rw [List.length_take]; omega
  have hz : off - oldSize = 0 := by omega
  rw [hl, hz]
  have e1 : max oldSize (off + p.length) - (off + p.length) = oldSize - (off + p.length) := by omega
  have e2 : min off oldSize = off := by omega
  simp only [zeros, List.replicate_zero, List.append_nil, List.take_take, List.drop_take, e1, e2]

/-- overwrite starting past the end of the file, the gap having been zero-filled first -/
theorem splice_hole (cb p : Bytes) (oldSize off : Nat) (hlen : off + p.length ≤ cb.length)
    (hgt : oldSize < off) :
    (put (put cb oldSize (zeros (off - oldSize))) off p).take (Nat.max oldSize (off + p.length))
      = Spec.splice (cb.take oldSize) off p := by
  have hmax : Nat.max oldSize (off + p.length) = max oldSize (off + p.length) := rfl
  have hzl : oldSize + (zeros (off - oldSize)).length ≤ cb.length := by simp only [zeros_length]; omega
  have hpl : (put cb oldSize (zeros (off - oldSize))).length = cb.length := put_length _ _ _ hzl
  rw [hmax, take_put _ _ _ _ (by omega) (by omega)]
  have e1 : max oldSize (off + p.length) - (off + p.length) = 0 := by omega
  rw [e1, List.take_zero, List.append_nil]
  unfold Spec.splice
  have hl : (cb.take oldSize).length = oldSize := by rw [List.length_take]; omega
  have hl2 : (cb.take oldSize ++ zeros (off - oldSize)).length = off := by
    rw [List.length_append, hl, zeros_length]; omega
  rw [hl, List.take_of_length_le (show (cb.take oldSize ++ zeros (off - oldSize)).length ≤ off by omega),
    List.drop_of_length_le (show (cb.take oldSize).length ≤ off + p.length by omega), List.append_nil]
  congr 1
  rw [put_eq _ _ _ hzl, List.append_assoc, List.take_append,
    List.take_of_length_le (show (cb.take oldSize).length ≤ off by omega), hl, List.take_append, zeros_length]
  have e2 : off - oldSize - (off - oldSize) = 0 := by omega
  rw [List.take_of_length_le (show (zeros (off - oldSize)).length ≤ off - oldSize by simp), e2,
    List.take_zero, List.append_nil]

/-- 9b. a write that does not start past EOF is `Spec.splice`, as found and repaired alike -/
theorem writeH_spec_nohole (zeroHole : Bool) (d : Dev) (g : IOGeom) (chain : List Nat) (oldSize off : Nat)
    (p : Bytes) (ws : List Wr)
    (hb : 0 < g.bpc) (hnd : chain.Nodup) (h2 : ∀ c ∈ chain, 2 ≤ c)
    (hold : oldSize ≤ chain.length * g.bpc) (hlen : off + p.length ≤ chain.length * g.bpc)
    (hle : off ≤ oldSize) (h : writeH zeroHole g chain oldSize off p = some ws) :
    fileContent (applyWrs d ws) g chain (Nat.max oldSize (off + p.length))
      = Spec.splice (fileContent d g chain oldSize) off p := by
  unfold writeH at h
  rw [if_neg (fun hc => absurd hc.2 (by omega))] at h
  unfold fileContent
  rw [writeCore_spec d g chain off p ws hb hnd h2 hlen h]
  exact splice_nohole _ _ _ _ (by rw [chainBytes_length]; exact hold) (by rw [chainBytes_length]; exact hlen) hle

/-- 9a. the repaired write (zero-filling the hole) is `Spec.splice` -/
theorem writeH_spec_fixed (d : Dev) (g : IOGeom) (chain : List Nat) (oldSize off : Nat)
    (p : Bytes) (ws : List Wr)
    (hb : 0 < g.bpc) (hnd : chain.Nodup) (h2 : ∀ c ∈ chain, 2 ≤ c)
    (hold : oldSize ≤ chain.length * g.bpc) (hlen : off + p.length ≤ chain.length * g.bpc)
    (_hp : 0 < p.length) (h : writeH true g chain oldSize off p = some ws) :
    fileContent (applyWrs d ws) g chain (Nat.max oldSize (off + p.length))
      = Spec.splice (fileContent d g chain oldSize) off p := by
  by_cases hgt : off > oldSize
  · unfold writeH at h
    rw [if_pos ⟨rfl, hgt⟩] at h
    cases ha : writeCore g chain oldSize (zeros (off - oldSize)) with
    | none => simp [ha] at h
    | some a =>
      cases hb' : writeCore g chain off p with
      | none => simp [ha, hb'] at h
      | some b =>
        simp only [ha, hb', Option.some.injEq] at h
        subst h
        unfold fileContent
        rw [applyWrs_append, writeCore_spec (applyWrs d a) g chain off p b hb hnd h2 hlen hb',
          writeCore_spec d g chain oldSize _ a hb hnd h2 (by simp only [zeros_length]; omega) ha]
        exact splice_hole _ _ _ _ (by rw [chainBytes_length]; exact hlen) hgt
  · exact writeH_spec_nohole true d g chain oldSize off p ws hb hnd h2 hold hlen (by omega) h

/-- 10. as found (`zeroHole = false`) a write past EOF leaves the cluster's stale bytes in the gap:
    one 4-byte cluster full of 7s, a 1-byte file, `[9]` written at offset 3. The file then reads
    `7 7 7 9`; the specification (and the repaired write) give `7 0 0 9`. -/
theorem cex_hole_stale :
    writeH false ⟨0, 0, 4⟩ [2] 1 3 [9] = some [⟨3, [9]⟩]
    ∧ fileContent (applyWrs (fun _ => 7) [⟨3, [9]⟩]) ⟨0, 0, 4⟩ [2] (Nat.max 1 (3 + 1)) = [7, 7, 7, 9]
    ∧ Spec.splice (fileContent (fun _ => 7) ⟨0, 0, 4⟩ [2] 1) 3 [9] = [7, 0, 0, 9]
    ∧ (∃ ws, writeH true ⟨0, 0, 4⟩ [2] 1 3 [9] = some ws
        ∧ fileContent (applyWrs (fun _ => 7) ws) ⟨0, 0, 4⟩ [2] (Nat.max 1 (3 + 1)) = [7, 0, 0, 9]) := by
  refine ⟨by decide, by decide, by decide, _, rfl, by decide⟩

/-- the same counterexample as an inequation: the conclusion of `writeH_spec_fixed` fails for `zeroHole = false` -/
theorem cex_hole_stale_ne :
    ∃ ws, writeH false ⟨0, 0, 4⟩ [2] 1 3 [9] = some ws
      ∧ fileContent (applyWrs (fun _ => 7) ws) ⟨0, 0, 4⟩ [2] (Nat.max 1 (3 + ([9] : Bytes).length))
          ≠ Spec.splice (fileContent (fun _ => 7) ⟨0, 0, 4⟩ [2] 1) 3 [9] :=
  ⟨_, rfl, by decide⟩

end Diskfs.Fat
