/-
  Lemmas about the ext4 allocation / accounting machine (Model/Ext4/Alloc.lean).
-/
import DiskfsModel.Model.Ext4.Alloc
namespace Diskfs.Ext4.Alloc

/-! ### bit runs -/

theorem allAre_spec (v : Bool) : ∀ (b : Bits) (p c : Nat), 0 < c → allAre v b p c = true →
    p + c ≤ b.length ∧ ∀ i, p ≤ i → i < p + c → b[i]? = some v := by
  intro b
  induction b with
  | nil => intro p c hc h; cases c with
    | zero => omega
    | succ c => simp [allAre] at h
  | cons x xs ih =>
    intro p c hc h
    cases c with
    | zero => omega
    | succ c =>
      cases p with
      | zero =>
        simp only [allAre, Bool.and_eq_true, beq_iff_eq] at h
        cases c with
        | zero =>
          refine ⟨by simp, ?_⟩
          intro i h1 h2
          have : i = 0 := by omega
          subst this; simp [h.1]
        | succ c =>
          obtain ⟨h1, h2⟩ := ih 0 (c + 1) (by omega) h.2
          refine ⟨by simp at h1 ⊢; omega, ?_⟩
          intro i hi1 hi2
          cases i with
          | zero => simp [h.1]
          | succ i => simp only [List.getElem?_cons_succ]; exact h2 i (by omega) (by omega)
      | succ p =>
        simp only [allAre] at h
        obtain ⟨h1, h2⟩ := ih p (c + 1) (by omega) h
        refine ⟨by simp; omega, ?_⟩
        intro i hi1 hi2
        cases i with
        | zero => omega
        | succ i => simp only [List.getElem?_cons_succ]; exact h2 i (by omega) (by omega)

theorem countFree_cons (x : Bool) (xs : Bits) :
    countFree (x :: xs) = (if x = false then 1 else 0) + countFree xs := by
  cases x <;> simp [countFree, List.count_cons] <;> omega

theorem setRun_length : ∀ (b : Bits) (p c : Nat), (setRun b p c).length = b.length := by
  intro b
  induction b with
  | nil => intro p c; simp [setRun]
  | cons x xs ih =>
    intro p c
    cases p with
    | zero => cases c with
      | zero => simp [setRun]
      | succ c => simp [setRun, ih]
    | succ p => simp [setRun, ih]

theorem countFree_setRun : ∀ (b : Bits) (p c : Nat), allAre false b p c = true →
    countFree (setRun b p c) + c = countFree b := by
  intro b
  induction b with
  | nil => intro p c h; cases c with
    | zero => simp [setRun]
    | succ c => simp [allAre] at h
  | cons x xs ih =>
    intro p c h
    cases p with
    | zero =>
      cases c with
      | zero => simp [setRun]
      | succ c =>
        simp only [allAre, Bool.and_eq_true, beq_iff_eq] at h
        have := ih 0 c h.2
        simp only [setRun, countFree_cons, h.1]
        simp; omega
    | succ p =>
      cases c with
      | zero =>
        have := ih p 0 (by cases xs <;> simp [allAre])
        simp only [setRun, countFree_cons]; omega
      | succ c =>
        simp only [allAre] at h
        have := ih p (c + 1) h
        simp only [setRun, countFree_cons]; omega

theorem countFree_clearRun : ∀ (b : Bits) (p c : Nat), allAre true b p c = true →
    countFree (clearRun b p c) = countFree b + c := by
  intro b
  induction b with
  | nil => intro p c h; cases c with
    | zero => simp [clearRun]
    | succ c => simp [allAre] at h
  | cons x xs ih =>
    intro p c h
    cases p with
    | zero =>
      cases c with
      | zero => simp [clearRun]
      | succ c =>
        simp only [allAre, Bool.and_eq_true, beq_iff_eq] at h
        have := ih 0 c h.2
        simp only [clearRun, countFree_cons, h.1]
        simp; omega
    | succ p =>
      cases c with
      | zero =>
        have := ih p 0 (by cases xs <;> simp [allAre])
        simp only [clearRun, countFree_cons]; omega
      | succ c =>
        simp only [allAre] at h
        have := ih p (c + 1) h
        simp only [clearRun, countFree_cons]; omega

/-! ### the fast path -/

theorem firstFitAux_spec : ∀ (b : Bits) (pos n : Nat) (rs : Bool) (q : Nat),
    firstFitAux b pos n rs = some q → ∃ k, q = pos + k ∧ allAre false b k n = true := by
  intro b
  induction b with
  | nil => intro pos n rs q h; simp [firstFitAux] at h
  | cons x xs ih =>
    intro pos n rs q h
    cases x with
    | true =>
      simp only [firstFitAux] at h
      obtain ⟨k, hk, ha⟩ := ih (pos + 1) n true q h
      refine ⟨k + 1, by omega, ?_⟩
      cases n with
      | zero => simp [allAre]
      | succ n => simpa [allAre] using ha
    | false =>
      simp only [firstFitAux] at h
      split at h
      · rename_i hc
        simp only [Bool.and_eq_true] at hc
        cases h
        exact ⟨0, rfl, hc.2⟩
      · obtain ⟨k, hk, ha⟩ := ih (pos + 1) n false q h
        refine ⟨k + 1, by omega, ?_⟩
        cases n with
        | zero => simp [allAre]
        | succ n => simpa [allAre] using ha

theorem fastPickAux_spec : ∀ (groups : List Bits) (g0 n g pos : Nat), 0 < n →
    fastPickAux groups g0 n = some (g, pos) →
    ∃ bm, g0 ≤ g ∧ groups[g - g0]? = some bm ∧ pos + n ≤ bm.length ∧
      ∀ i, pos ≤ i → i < pos + n → bm[i]? = some false := by
  intro groups
  induction groups with
  | nil => intro g0 n g pos _ h; simp [fastPickAux] at h
  | cons b bs ih =>
    intro g0 n g pos hn h
    simp only [fastPickAux] at h
    split at h
    · rename_i p hp
      cases h
      obtain ⟨k, hk, ha⟩ := firstFitAux_spec b 0 n true pos hp
      have hk' : pos = k := by omega
      subst hk'
      obtain ⟨h1, h2⟩ := allAre_spec false b pos n hn ha
      exact ⟨b, Nat.le_refl _, by simp, h1, h2⟩
    · obtain ⟨bm, hg, hget, h1, h2⟩ := ih (g0 + 1) n g pos hn h
      refine ⟨bm, by omega, ?_, h1, h2⟩
      have : g - g0 = (g - (g0 + 1)) + 1 := by omega
      rw [this, List.getElem?_cons_succ]
      exact hget

theorem fastPick_spec (groups : List Bits) (n g pos : Nat) (hn : 0 < n)
    (h : fastPick groups n = some (g, pos)) :
    ∃ bm, groups[g]? = some bm ∧ pos + n ≤ bm.length ∧ ∀ i, pos ≤ i → i < pos + n → bm[i]? = some false := by
  obtain ⟨bm, _, hget, h1, h2⟩ := fastPickAux_spec groups 0 n g pos hn h
  exact ⟨bm, by simpa using hget, h1, h2⟩

/-! ### accounting -/

/-- invariant with the superblock block counter lagging: `sb + a = Σ groups + b` -/
def Inv2 (s : Acc) (a b : Nat) : Prop :=
  (∀ g ∈ s.groups, GroupInv g) ∧
  s.sbFreeBlocks + a = (s.groups.map (·.freeBlocks)).sum + b ∧
  s.sbFreeInodes = (s.groups.map (·.freeInodes)).sum

theorem accInv_iff (s : Acc) : AccInv s ↔ Inv2 s 0 0 := by
  simp [AccInv, Inv2]

theorem modifyAt_none : ∀ (gs : List Group) (i : Nat) (f : Group → Group), gs[i]? = none → modifyAt gs i f = gs := by
  intro gs
  induction gs with
  | nil => intro i f _; rfl
  | cons g gs ih =>
    intro i f h
    cases i with
    | zero => simp at h
    | succ i => simp only [modifyAt]; rw [ih i f (by simpa using h)]

theorem modifyAt_mem : ∀ (gs : List Group) (i : Nat) (f : Group → Group) (g' : Group),
    g' ∈ modifyAt gs i f → g' ∈ gs ∨ ∃ g, gs[i]? = some g ∧ g' = f g := by
  intro gs
  induction gs with
  | nil => intro i f g' h; simp [modifyAt] at h
  | cons g gs ih =>
    intro i f g' h
    cases i with
    | zero =>
      simp only [modifyAt, List.mem_cons] at h
      rcases h with h | h
      · right; exact ⟨g, by simp, h⟩
      · left; simp [h]
    | succ i =>
      simp only [modifyAt, List.mem_cons] at h
      rcases h with h | h
      · left; simp [h]
      · rcases ih i f g' h with h | ⟨g0, h1, h2⟩
        · left; simp [h]
        · right; exact ⟨g0, by simpa using h1, h2⟩

theorem modifyAt_sum (φ : Group → Nat) : ∀ (gs : List Group) (i : Nat) (f : Group → Group) (g : Group),
    gs[i]? = some g →
    ((modifyAt gs i f).map φ).sum + φ g = (gs.map φ).sum + φ (f g) := by
  intro gs
  induction gs with
  | nil => intro i f g h; simp at h
  | cons g0 gs ih =>
    intro i f g h
    cases i with
    | zero =>
      simp at h; subst h
      simp only [modifyAt, List.map_cons, List.sum_cons]; omega
    | succ i =>
      have := ih i f g (by simpa using h)
      simp only [modifyAt, List.map_cons, List.sum_cons]; omega

theorem mem_of_getElem? {gs : List Group} {i : Nat} {g : Group} (h : gs[i]? = some g) : g ∈ gs :=
  List.mem_of_getElem? h

theorem markRun_inv (s : Acc) (r : Run) (a b : Nat) (hi : Inv2 s a b) (hf : runFree s r = true) :
    Inv2 (markRun s r) a (b + r.2.2) := by
  obtain ⟨hg, hb, hino⟩ := hi
  unfold runFree at hf
  split at hf
  · rename_i g hget
    have hgi := hg g (mem_of_getElem? hget)
    have hcf := countFree_setRun g.bbm r.2.1 r.2.2 hf
    refine ⟨?_, ?_, ?_⟩
    · intro g' hg'
      rcases modifyAt_mem _ _ _ _ hg' with h | ⟨g0, h1, h2⟩
      · exact hg g' h
      · rw [hget] at h1; cases h1; subst h2
        refine ⟨?_, hgi.2⟩
        simp only; rw [hgi.1]; omega
    · have := modifyAt_sum (·.freeBlocks) s.groups r.1
        (fun g => { g with bbm := setRun g.bbm r.2.1 r.2.2, freeBlocks := g.freeBlocks - r.2.2 }) g hget
      simp only [markRun] at this ⊢
      have h1 := hgi.1
      omega
    · have := modifyAt_sum (·.freeInodes) s.groups r.1
        (fun g => { g with bbm := setRun g.bbm r.2.1 r.2.2, freeBlocks := g.freeBlocks - r.2.2 }) g hget
      simp only [markRun] at this ⊢
      omega
  · simp at hf

theorem markRuns_inv : ∀ (rs : List Run) (s : Acc) (a b : Nat), Inv2 s a b → runsOK s rs = true →
    Inv2 (rs.foldl markRun s) a (b + (rs.map (·.2.2)).sum) := by
  intro rs
  induction rs with
  | nil => intro s a b h _; simpa using h
  | cons r rs ih =>
    intro s a b h hok
    simp only [runsOK, Bool.and_eq_true] at hok
    have := ih (markRun s r) a (b + r.2.2) (markRun_inv s r a b h hok.1) hok.2
    simp only [List.foldl_cons, List.map_cons, List.sum_cons]
    rw [← Nat.add_assoc]; exact this

theorem allocExtents_inv (s : Acc) (n : Nat) (choice : Option (List Run)) (h : AccInv s) :
    AccInv (allocExtents s n choice).state := by
  unfold allocExtents
  split
  · exact h
  · split
    · exact h
    · rename_i rs
      split
      · rename_i hc
        simp only [Bool.and_eq_true, beq_iff_eq] at hc
        have h2 := markRuns_inv rs s 0 0 ((accInv_iff s).1 h) hc.1
        rw [hc.2] at h2
        obtain ⟨hg, hb, hi⟩ := h2
        simp only [Res.state]
        refine ⟨hg, ?_, hi⟩
        simp only; omega
      · exact h

theorem unmarkRun_inv (s : Acc) (r : Run) (h : AccInv s) (hu : runUsed s r = true) : AccInv (unmarkRun s r) := by
  obtain ⟨hg, hb, hino⟩ := h
  unfold runUsed at hu
  split at hu
  · rename_i g hget
    have hgi := hg g (mem_of_getElem? hget)
    have hcf := countFree_clearRun g.bbm r.2.1 r.2.2 hu
    refine ⟨?_, ?_, ?_⟩
    · intro g' hg'
      rcases modifyAt_mem _ _ _ _ hg' with h | ⟨g0, h1, h2⟩
      · exact hg g' h
      · rw [hget] at h1; cases h1; subst h2
        refine ⟨?_, hgi.2⟩
        simp only; rw [hgi.1]; omega
    · have := modifyAt_sum (·.freeBlocks) s.groups r.1
        (fun g => { g with bbm := clearRun g.bbm r.2.1 r.2.2, freeBlocks := g.freeBlocks + r.2.2 }) g hget
      simp only [unmarkRun] at this ⊢
      omega
    · have := modifyAt_sum (·.freeInodes) s.groups r.1
        (fun g => { g with bbm := clearRun g.bbm r.2.1 r.2.2, freeBlocks := g.freeBlocks + r.2.2 }) g hget
      simp only [unmarkRun] at this ⊢
      omega
  · simp at hu

theorem unmarkRuns_inv : ∀ (rs : List Run) (s : Acc), AccInv s → runsUsed s rs = true →
    AccInv (rs.foldl unmarkRun s) := by
  intro rs
  induction rs with
  | nil => intro s h _; simpa using h
  | cons r rs ih =>
    intro s h hok
    simp only [runsUsed, Bool.and_eq_true] at hok
    exact ih (unmarkRun s r) (unmarkRun_inv s r h hok.1) hok.2

theorem deallocExtents_inv (s : Acc) (rs : List Run) (h : AccInv s) : AccInv (deallocExtents s rs).state := by
  unfold deallocExtents
  split
  · rename_i hc; exact unmarkRuns_inv rs s h hc
  · exact h

theorem firstClear_spec : ∀ (b : Bits) (p q : Nat), firstClear b p = some q →
    ∃ k, q = p + k ∧ allAre false b k 1 = true := by
  intro b
  induction b with
  | nil => intro p q h; simp [firstClear] at h
  | cons x xs ih =>
    intro p q h
    cases x with
    | false => simp only [firstClear] at h; cases h; exact ⟨0, rfl, by simp [allAre]⟩
    | true =>
      simp only [firstClear] at h
      obtain ⟨k, hk, ha⟩ := ih (p + 1) q h
      exact ⟨k + 1, by omega, by simpa [allAre] using ha⟩

theorem pickInode_spec : ∀ (gs : List Group) (i0 gi p : Nat), pickInode gs i0 = some (gi, p) →
    ∃ g, i0 ≤ gi ∧ gs[gi - i0]? = some g ∧ allAre false g.ibm p 1 = true := by
  intro gs
  induction gs with
  | nil => intro i0 gi p h; simp [pickInode] at h
  | cons g gs ih =>
    intro i0 gi p h
    simp only [pickInode] at h
    split at h
    · rename_i q hq
      cases h
      obtain ⟨k, hk, ha⟩ := firstClear_spec g.ibm 0 p hq
      have : p = k := by omega
      subst this
      exact ⟨g, Nat.le_refl _, by simp, ha⟩
    · obtain ⟨g', h1, h2, h3⟩ := ih (i0 + 1) gi p h
      refine ⟨g', by omega, ?_, h3⟩
      have : gi - i0 = (gi - (i0 + 1)) + 1 := by omega
      rw [this, List.getElem?_cons_succ]; exact h2

theorem allocInode_inv (s : Acc) (isDir : Bool) (h : AccInv s) : AccInv (allocInode s isDir).state := by
  unfold allocInode
  split
  · exact h
  · rename_i gi p hp
    obtain ⟨g, _, hget, ha⟩ := pickInode_spec s.groups 0 gi p hp
    simp only [Nat.sub_zero] at hget
    obtain ⟨hg, hb, hino⟩ := h
    have hgi := hg g (mem_of_getElem? hget)
    have hcf := countFree_setRun g.ibm p 1 ha
    simp only [Res.state]
    refine ⟨?_, ?_, ?_⟩
    · intro g' hg'
      rcases modifyAt_mem _ _ _ _ hg' with h | ⟨g0, h1, h2⟩
      · exact hg g' h
      · rw [hget] at h1; cases h1; subst h2
        refine ⟨hgi.1, ?_⟩
        simp only; rw [hgi.2]; omega
    · have := modifyAt_sum (·.freeBlocks) s.groups gi
        (fun g => { g with ibm := setRun g.ibm p 1, freeInodes := g.freeInodes - 1,
                           usedDirs := if isDir then g.usedDirs + 1 else g.usedDirs }) g hget
      simp only at this ⊢
      omega
    · have := modifyAt_sum (·.freeInodes) s.groups gi
        (fun g => { g with ibm := setRun g.ibm p 1, freeInodes := g.freeInodes - 1,
                           usedDirs := if isDir then g.usedDirs + 1 else g.usedDirs }) g hget
      simp only at this ⊢
      have := hgi.2
      omega

/-! ### Remove (repaired bookkeeping) -/

theorem modifyAt_getElem? : ∀ (gs : List Group) (i j : Nat) (f : Group → Group),
    (modifyAt gs i f)[j]? = if j = i then gs[j]?.map f else gs[j]? := by
  intro gs
  induction gs with
  | nil => intro i j f; simp [modifyAt]
  | cons g gs ih =>
    intro i j f
    cases i with
    | zero =>
      cases j with
      | zero => simp [modifyAt]
      | succ j => simp [modifyAt]
    | succ i =>
      cases j with
      | zero => simp [modifyAt]
      | succ j => simp only [modifyAt, List.getElem?_cons_succ, ih i j f]; simp

/-- releasing one marked block: the group counter follows its bitmap; the superblock counter is updated only at
    the end of Remove, so it lags by one more -/
theorem freeBlock_inv (geo : Geom) (s : Acc) (b a c : Nat) (hi : Inv2 s a c) (hm : blockMarked geo s b = true) :
    Inv2 (freeBlock true geo s b) (a + 1) c := by
  obtain ⟨hg, hb, hino⟩ := hi
  simp only [blockMarked, Bool.and_eq_true, decide_eq_true_eq] at hm
  obtain ⟨_, hu⟩ := hm
  unfold runUsed at hu
  simp only at hu
  split at hu
  · rename_i g hget
    have hgi := hg g (mem_of_getElem? hget)
    have hcf := countFree_clearRun g.bbm ((b - geo.fdb) % geo.bpg) 1 hu
    have hidx : (b - geo.fdb) - geo.bpg * ((b - geo.fdb) / geo.bpg) = (b - geo.fdb) % geo.bpg := by
      rw [Nat.mod_def]
    simp only [freeBlock, if_true, hidx]
    refine ⟨?_, ?_, ?_⟩
    · intro g' hg'
      rcases modifyAt_mem _ _ _ _ hg' with h | ⟨g0, h1, h2⟩
      · exact hg g' h
      · rw [hget] at h1; cases h1; subst h2
        refine ⟨?_, hgi.2⟩
        simp only; rw [hgi.1]; omega
    · have := modifyAt_sum (·.freeBlocks) s.groups ((b - geo.fdb) / geo.bpg)
        (fun g => { g with bbm := clearRun g.bbm ((b - geo.fdb) % geo.bpg) 1, freeBlocks := g.freeBlocks + 1 }) g hget
      simp only at this ⊢
      omega
    · have := modifyAt_sum (·.freeInodes) s.groups ((b - geo.fdb) / geo.bpg)
        (fun g => { g with bbm := clearRun g.bbm ((b - geo.fdb) % geo.bpg) 1, freeBlocks := g.freeBlocks + 1 }) g hget
      simp only at this ⊢
      omega
  · simp at hu

theorem freeBlocks_inv (geo : Geom) : ∀ (blocks : List Nat) (s : Acc) (a c : Nat), Inv2 s a c →
    blocksMarked geo s blocks = true → Inv2 (blocks.foldl (freeBlock true geo) s) (a + blocks.length) c := by
  intro blocks
  induction blocks with
  | nil => intro s a c h _; simpa using h
  | cons b bs ih =>
    intro s a c h hm
    simp only [blocksMarked, Bool.and_eq_true] at hm
    have := ih (freeBlock true geo s b) (a + 1) c (freeBlock_inv geo s b a c h hm.1) hm.2
    simp only [List.foldl_cons, List.length_cons]
    have e : a + (bs.length + 1) = a + 1 + bs.length := by omega
    rw [e]; exact this

theorem modifyAt_ibm (gs : List Group) (i j : Nat) (f : Group → Group) (hf : ∀ g, (f g).ibm = g.ibm) :
    ((modifyAt gs i f)[j]?).map (·.ibm) = (gs[j]?).map (·.ibm) := by
  rw [modifyAt_getElem?]
  split
  · cases gs[j]? <;> simp [hf]
  · rfl

/-- releasing blocks does not touch any inode bitmap -/
theorem freeBlock_ibm (fixed : Bool) (geo : Geom) (s : Acc) (b j : Nat) :
    ((freeBlock fixed geo s b).groups[j]?).map (·.ibm) = (s.groups[j]?).map (·.ibm) := by
  simp only [freeBlock]
  exact modifyAt_ibm _ _ _ _ (fun g => rfl)

theorem freeBlocks_ibm (fixed : Bool) (geo : Geom) : ∀ (blocks : List Nat) (s : Acc) (j : Nat),
    ((blocks.foldl (freeBlock fixed geo) s).groups[j]?).map (·.ibm) = (s.groups[j]?).map (·.ibm) := by
  intro blocks
  induction blocks with
  | nil => intro s j; rfl
  | cons b bs ih => intro s j; simp only [List.foldl_cons]; rw [ih, freeBlock_ibm]

/-- removeInode with the repaired arithmetic restores `counters = bitmaps` from ANY state that satisfies it,
    for every inode that is marked and every list of marked, pairwise distinct blocks -/
theorem removeInode_fixed_inv (geo : Geom) (s : Acc) (ino : Nat) (blocks : List Nat) (b512 : Nat) (isDir : Bool)
    (h : AccInv s) (hb : blocksMarked geo s blocks = true) (hi : inodeMarked geo s ino = true) :
    AccInv (removeInode true geo s ino blocks b512 isDir) := by
  have h1 := freeBlocks_inv geo blocks s 0 0 ((accInv_iff s).1 h) hb
  simp only [Nat.zero_add] at h1
  generalize hs1 : blocks.foldl (freeBlock true geo) s = s1 at h1
  simp only [inodeMarked, Bool.and_eq_true, decide_eq_true_eq] at hi
  obtain ⟨_, hi2⟩ := hi
  have hibm := freeBlocks_ibm true geo blocks s ((ino - 1) / geo.ipg)
  rw [hs1] at hibm
  split at hi2
  · rename_i g0 hget0
    rw [hget0] at hibm
    cases hget : s1.groups[(ino - 1) / geo.ipg]? with
    | none => rw [hget] at hibm; simp at hibm
    | some g =>
      rw [hget] at hibm
      simp only [Option.map_some, Option.some.injEq] at hibm
      rw [← hibm] at hi2
      obtain ⟨hg, hbk, hino⟩ := h1
      have hgi := hg g (mem_of_getElem? hget)
      have hcf := countFree_clearRun g.ibm ((ino - 1) % geo.ipg) 1 hi2
      have hidx : (ino - 1) - geo.ipg * ((ino - 1) / geo.ipg) = (ino - 1) % geo.ipg := by
        rw [Nat.mod_def]
      simp only [removeInode, hs1, if_true, hidx, Nat.add_zero]
      refine ⟨?_, ?_, ?_⟩
      · intro g' hg'
        rcases modifyAt_mem _ _ _ _ hg' with h | ⟨g1, h1, h2⟩
        · exact hg g' h
        · rw [hget] at h1; cases h1; subst h2
          refine ⟨hgi.1, ?_⟩
          simp only; rw [hgi.2]; omega
      · have := modifyAt_sum (·.freeBlocks) s1.groups ((ino - 1) / geo.ipg)
          (fun g => { g with ibm := clearRun g.ibm ((ino - 1) % geo.ipg) 1, freeInodes := g.freeInodes + 1,
                             freeBlocks := g.freeBlocks,
                             usedDirs := if isDir then g.usedDirs - 1 else g.usedDirs }) g hget
        simp only at this ⊢
        omega
      · have := modifyAt_sum (·.freeInodes) s1.groups ((ino - 1) / geo.ipg)
          (fun g => { g with ibm := clearRun g.ibm ((ino - 1) % geo.ipg) 1, freeInodes := g.freeInodes + 1,
                             freeBlocks := g.freeBlocks,
                             usedDirs := if isDir then g.usedDirs - 1 else g.usedDirs }) g hget
        simp only at this ⊢
        omega
  · simp at hi2

theorem removeOp_inv (geo : Geom) (s : Acc) (ino : Nat) (blocks : List Nat) (isDir : Bool) (h : AccInv s) :
    AccInv (removeOp geo s ino blocks isDir).state := by
  unfold removeOp
  split
  · rename_i hc
    simp only [Bool.and_eq_true] at hc
    exact removeInode_fixed_inv geo s ino blocks 0 isDir h hc.1 hc.2
  · exact h

/-! ### deallocateExtents on absolute block numbers -/

/-- with the repaired arithmetic, releasing block `b` is `unmarkRun` of its bit in its group -/
theorem deallocBlock_fixed_eq (geo : Geom) (s : Acc) (b : Nat) :
    deallocBlock true geo s b = unmarkRun s ((b - geo.fdb) / geo.bpg, (b - geo.fdb) % geo.bpg, 1) := by
  have hidx : b - (geo.fdb + (b - geo.fdb) / geo.bpg * geo.bpg) = (b - geo.fdb) % geo.bpg := by
    rw [Nat.mod_def, Nat.mul_comm]; omega
  simp only [deallocBlock, if_true, unmarkRun, hidx]

theorem deallocBlock_fixed_inv (geo : Geom) (s : Acc) (b : Nat) (h : AccInv s) (hm : blockMarked geo s b = true) :
    AccInv (deallocBlock true geo s b) := by
  simp only [blockMarked, Bool.and_eq_true, decide_eq_true_eq] at hm
  rw [deallocBlock_fixed_eq geo s b]
  exact unmarkRun_inv s _ h hm.2

theorem deallocBlocks_fixed_inv (geo : Geom) : ∀ (blocks : List Nat) (s : Acc), AccInv s →
    blocksMarkedD geo s blocks = true → AccInv (deallocBlocks true geo s blocks) := by
  intro blocks
  induction blocks with
  | nil => intro s h _; exact h
  | cons b bs ih =>
    intro s h hm
    simp only [blocksMarkedD, Bool.and_eq_true] at hm
    exact ih _ (deallocBlock_fixed_inv geo s b h hm.1) hm.2

/-- the arithmetic as found is the repaired one when the first data block is 1 (1 KiB blocks) -/
theorem deallocBlock_asfound_eq (geo : Geom) (s : Acc) (b : Nat) (h : geo.fdb = 1) :
    deallocBlock false geo s b = deallocBlock true geo s b := by
  simp [deallocBlock, h]

theorem freeBlocksOp_inv (geo : Geom) (s : Acc) (blocks : List Nat) (h : AccInv s) :
    AccInv (freeBlocksOp geo s blocks).state := by
  unfold freeBlocksOp
  split
  · rename_i hc; exact deallocBlocks_fixed_inv geo blocks s h hc
  · exact h

end Diskfs.Ext4.Alloc
