/-
  Extended attribute entry table: encode / parse round trip (helper lemmas for Props/C20.lean).
  The entry format is the one parseXattrEntries (xattr.go) reads; the in-inode region and the
  xattr block share it (they differ in where `e_value_offs` counts from, i.e. in the `values` buffer).
-/
import DiskfsModel.Proofs.Ext4InodeLoc
import DiskfsModel.Proofs.Ext4Reader
namespace Diskfs.Ext4.Reader

/-! ### reading behind a prefix -/

theorem slice_shift (pre l : Bytes) (a b : Nat) :
    slice (pre ++ l) (pre.length + a) (pre.length + b) = slice l a b := by
  simp only [slice]
  rw [List.drop_append, List.drop_of_length_le (by omega)]
  simp only [List.nil_append, Nat.add_sub_cancel_left, Nat.add_sub_add_left]

theorem u8_shift (pre l : Bytes) (k : Nat) : u8 (pre ++ l) (pre.length + k) = u8 l k := by
  unfold u8
  simp [List.getD_eq_getElem?_getD, List.getElem?_append_right]

theorem le16_shift (pre l : Bytes) (k : Nat) : le16 (pre ++ l) (pre.length + k) = le16 l k := by
  unfold le16; rw [Nat.add_assoc, slice_shift]

theorem le32_shift (pre l : Bytes) (k : Nat) : le32 (pre ++ l) (pre.length + k) = le32 l k := by
  unfold le32; rw [Nat.add_assoc, slice_shift]

theorem u8_eq_leDec (b : Bytes) (o : Nat) (h : o < b.length) : u8 b o = leDec (slice b o (o + 1)) := by
  have hd : b.drop o = b[o] :: b.drop (o + 1) := List.drop_eq_getElem_cons h
  unfold u8 slice
  rw [hd, Nat.add_sub_cancel_left]
  simp only [List.take_succ_cons, List.take_zero, leDec, List.getD_eq_getElem?_getD,
    List.getElem?_eq_getElem h, Option.getD_some]
  omega

theorem u8_field (fs : List (Nat × Nat)) (i : Nat) (tail : Bytes) (o : Nat) (h : i < fs.length)
    (hw : (fs.getD i (0, 0)).1 = 1) (ho : fieldOff fs i = o) (hlen : o < (encFields fs ++ tail).length) :
    u8 (encFields fs ++ tail) o = (fs.getD i (0, 0)).2 % 256 := by
  have := field_get fs i tail h
  rw [hw, ho] at this
  rw [u8_eq_leDec _ _ hlen, this]

/-! ### the entry format -/

structure XEnt where
  idx : Nat        -- e_name_index
  name : Bytes     -- e_name (without the prefix the index stands for)
  offs : Nat       -- e_value_offs
  size : Nat       -- e_value_size
  hash : Nat       -- e_hash
deriving Repr, DecidableEq

/-- struct ext4_xattr_entry: e_name_len, e_name_index, e_value_offs, e_value_inum (= 0), e_value_size, e_hash -/
def xHdr (x : XEnt) : List (Nat × Nat) :=
  [(1, x.name.length), (1, x.idx), (2, x.offs), (4, 0), (4, x.size), (4, x.hash)]

/-- padding of the name to a multiple of four bytes -/
def xPad (nl : Nat) : Nat := (4 - nl % 4) % 4

def encXEnt (x : XEnt) : Bytes := encFields (xHdr x) ++ (x.name ++ zeros (xPad x.name.length))

def encXTable : List XEnt → Bytes
  | [] => []
  | x :: xs => encXEnt x ++ encXTable xs

theorem xHdr_length (x : XEnt) : (encFields (xHdr x)).length = 16 := by
  simp [encFields_length, xHdr]

theorem encXEnt_length (x : XEnt) : (encXEnt x).length = 16 + x.name.length + xPad x.name.length := by
  simp [encXEnt, xHdr_length]; omega

/-- an entry the format can represent, whose value (if any) lies inside the value buffer -/
def XWF (values : Bytes) (x : XEnt) : Prop :=
  x.name.length < 256 ∧ x.idx < 256 ∧ ¬ (x.name.length = 0 ∧ x.idx = 0) ∧ x.offs < 65536 ∧
  x.size < 4294967296 ∧ (0 < x.size → x.offs + x.size ≤ values.length)

/-- what one entry contributes to the result map -/
def xaStep (cfg : Cfg) (tbl : List (Nat × String)) (values : Bytes) (acc : List (Bytes × Bytes)) (x : XEnt) :
    List (Bytes × Bytes) :=
  if x.size > 0 then xaInsert acc (xattrPrefix tbl x.idx ++ x.name) (slice values x.offs (x.offs + x.size))
  else if cfg.xattrKeepEmpty then xaInsert acc (xattrPrefix tbl x.idx ++ x.name) [] else acc

/-- what may follow the last entry: fewer than 16 bytes, or a terminator (name length and index zero) -/
def TermOK (tail : Bytes) : Prop := tail.length < 16 ∨ (u8 tail 0 = 0 ∧ u8 tail 1 = 0)

theorem parseXattrs_enc (cfg : Cfg) (tbl : List (Nat × String)) (values : Bytes) :
    ∀ (xs : List XEnt) (pre tail : Bytes) (acc : List (Bytes × Bytes)) (fuel : Nat),
      pre.length % 4 = 0 → (∀ x ∈ xs, XWF values x) → xs.length < fuel → TermOK tail →
      parseXattrs cfg tbl (pre ++ encXTable xs ++ tail) values fuel pre.length acc =
        .ok (xs.foldl (xaStep cfg tbl values) acc) := by
  intro xs
  induction xs with
  | nil =>
    intro pre tail acc fuel _ _ hf ht
    cases fuel with
    | zero => simp at hf
    | succ f =>
      simp only [encXTable, List.append_nil, List.foldl_nil]
      rw [parseXattrs]
      by_cases h16 : pre.length + 16 > (pre ++ tail).length
      · rw [if_pos h16]
      · rw [if_neg h16]
        simp only [List.length_append] at h16
        rcases ht with ht | ⟨h0, h1⟩
        · omega
        · have e0 : u8 (pre ++ tail) pre.length = 0 := by
            have := u8_shift pre tail 0; rw [Nat.add_zero] at this; rw [this, h0]
          have e1 : u8 (pre ++ tail) (pre.length + 1) = 0 := by rw [u8_shift, h1]
          simp only [e0, e1, and_self, if_true]
  | cons x rest ih =>
    intro pre tail acc fuel hal hwf hf ht
    cases fuel with
    | zero => simp at hf
    | succ f =>
      obtain ⟨hnl, hidx, hnz, hoffs, hsize, hval⟩ := hwf x (List.mem_cons_self ..)
      -- the buffer as  pre ++ (header ++ rest-of-everything)
      generalize hpost : x.name ++ zeros (xPad x.name.length) ++ encXTable rest ++ tail = post
      have hbuf : pre ++ encXTable (x :: rest) ++ tail = pre ++ (encFields (xHdr x) ++ post) := by
        rw [← hpost]; simp [encXTable, encXEnt, List.append_assoc]
      have hpl : x.name.length ≤ post.length := by rw [← hpost]; simp
      have L : (xHdr x).length = 6 := rfl
      have hll : (encFields (xHdr x) ++ post).length = 16 + post.length := by simp [xHdr_length]
      have e0 : u8 (encFields (xHdr x) ++ post) 0 = x.name.length := by
        rw [u8_field (xHdr x) 0 post 0 (by rw [L]; decide) rfl rfl (by omega)]
        exact Nat.mod_eq_of_lt hnl
      have e1 : u8 (encFields (xHdr x) ++ post) 1 = x.idx := by
        rw [u8_field (xHdr x) 1 post 1 (by rw [L]; decide) rfl rfl (by omega)]
        exact Nat.mod_eq_of_lt hidx
      have e2 : le16 (encFields (xHdr x) ++ post) 2 = x.offs := by
        rw [le16_field (xHdr x) 2 post 2 (by rw [L]; decide) rfl rfl]
        exact Nat.mod_eq_of_lt hoffs
      have e3 : le32 (encFields (xHdr x) ++ post) 4 = 0 := by
        rw [le32_field (xHdr x) 3 post 4 (by rw [L]; decide) rfl rfl]
        rfl
      have e4 : le32 (encFields (xHdr x) ++ post) 8 = x.size := by
        rw [le32_field (xHdr x) 4 post 8 (by rw [L]; decide) rfl rfl]
        exact Nat.mod_eq_of_lt hsize
      have e5 : slice (encFields (xHdr x) ++ post) 16 (16 + x.name.length) = x.name := by
        have : encFields (xHdr x) ++ post =
            encFields (xHdr x) ++ x.name ++ (zeros (xPad x.name.length) ++ encXTable rest ++ tail) := by
          rw [← hpost]; simp [List.append_assoc]
        rw [this]
        exact slice_mid' _ _ _ 16 _ (xHdr_length x).symm (by rw [xHdr_length])
      have hlen : (pre ++ encXTable (x :: rest) ++ tail).length = pre.length + 16 + post.length := by
        rw [hbuf]; simp [xHdr_length]; omega
      rw [parseXattrs]
      rw [if_neg (by rw [hlen]; omega)]
      simp only []
      rw [hbuf]
      have s0 : u8 (pre ++ (encFields (xHdr x) ++ post)) pre.length = x.name.length := by
        have := u8_shift pre (encFields (xHdr x) ++ post) 0; rw [Nat.add_zero] at this; rw [this, e0]
      rw [s0, u8_shift, e1, le16_shift, e2, le32_shift, e3, le32_shift, e4]
      rw [if_neg hnz]
      rw [if_neg (by rw [List.length_append, hll]; omega)]
      have s5 : slice (pre ++ (encFields (xHdr x) ++ post)) (pre.length + 16) (pre.length + 16 + x.name.length) = x.name := by
        rw [Nat.add_assoc, slice_shift, e5]
      rw [s5]
      rw [if_neg (by simp)]
      rw [if_neg (by intro ⟨h1, h2⟩; have := hval h1; omega)]
      -- the next position is the end of this entry
      have hnext : (pre.length + 16 + x.name.length + 3) / 4 * 4 = (pre ++ encXEnt x).length := by
        rw [List.length_append, encXEnt_length]; unfold xPad; omega
      rw [hnext]
      have hbuf2 : pre ++ (encFields (xHdr x) ++ post) = (pre ++ encXEnt x) ++ encXTable rest ++ tail := by
        rw [← hpost]; simp [encXEnt, List.append_assoc]
      rw [hbuf2]
      have hal2 : (pre ++ encXEnt x).length % 4 = 0 := by
        rw [List.length_append, encXEnt_length]; unfold xPad; omega
      rw [ih (pre ++ encXEnt x) tail _ f hal2 (fun y hy => hwf y (List.mem_cons_of_mem _ hy))
        (by simp at hf; omega) ht]
      simp only [List.foldl_cons, xaStep]

/-! ### the descriptor table -/

/-- the on-disk table of 64-byte descriptors -/
def gdtEncode (vs : List (GdInfo × Nat × Nat)) : Bytes := vs.flatMap fun p => gdEncode p.1 p.2.1 p.2.2

theorem gdtEncode_length (vs : List (GdInfo × Nat × Nat)) : (gdtEncode vs).length = 64 * vs.length := by
  induction vs with
  | nil => rfl
  | cons p ps ih =>
    simp only [gdtEncode, List.flatMap_cons, List.length_append, gdEncode_length, List.length_cons] at ih ⊢
    omega

theorem gdtEncode_slice : ∀ (vs : List (GdInfo × Nat × Nat)) (i : Nat) (h : i < vs.length),
    slice (gdtEncode vs) (i * 64) (i * 64 + 64) = gdEncode vs[i].1 vs[i].2.1 vs[i].2.2
  | [], _, h => by simp at h
  | p :: ps, 0, _ => by
    simp only [gdtEncode, List.flatMap_cons, Nat.zero_mul, Nat.zero_add, List.getElem_cons_zero]
    simp [slice, gdEncode_length]
  | p :: ps, i + 1, h => by
    have ih := gdtEncode_slice ps i (by simpa using h)
    simp only [gdtEncode, List.flatMap_cons, List.getElem_cons_succ] at ih ⊢
    have e1 : (i + 1) * 64 = (gdEncode p.1 p.2.1 p.2.2).length + i * 64 := by rw [gdEncode_length]; omega
    rw [e1, Nat.add_assoc, slice_shift, ih]

end Diskfs.Ext4.Reader
