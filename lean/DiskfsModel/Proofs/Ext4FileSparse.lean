/-
  File.Read over extent lists WITH holes (Model/Ext4/FileIO.lean, the read loop after fix ea015d2): the bytes
  returned are the window of the byte string the list denotes, with zeros for every hole and behind the last
  extent, for every sorted extent list, offset and length.
-/
import DiskfsModel.Proofs.Ext4FileIO
namespace Diskfs.Ext4

theorem win_length (F : Bytes) (a m : Nat) : (win F a m).length = m := by simp [win]

theorem win_add (F : Bytes) (a m1 m2 : Nat) : win F a (m1 + m2) = win F a m1 ++ win F (a + m1) m2 := by
  simp only [win, List.range_add, List.map_append, List.map_map]
  congr 1
  apply List.map_congr_left
  intro j _
  simp [Nat.add_assoc]

theorem win_append_right (A B : Bytes) (a m : Nat) (h : A.length ≤ a) : win (A ++ B) a m = win B (a - A.length) m := by
  simp only [win]
  apply List.map_congr_left
  intro j _
  simp only [List.getD_eq_getElem?_getD]
  rw [List.getElem?_append_right (by omega)]
  congr 2
  omega

theorem win_append_left (A B : Bytes) (a m : Nat) (h : a + m ≤ A.length) : win (A ++ B) a m = win A a m := by
  simp only [win]
  apply List.map_congr_left
  intro j hj
  simp only [List.mem_range] at hj
  simp only [List.getD_eq_getElem?_getD]
  rw [List.getElem?_append_left (by omega)]

theorem win_zeros (k a m : Nat) : win (zeros k) a m = zeros m := by
  simp only [win, zeros]
  apply List.ext_getElem
  · simp
  · intro i h1 h2
    simp only [List.getElem_map, List.getElem_range, List.getElem_replicate]
    by_cases h : a + i < k
    · simp [List.getD_eq_getElem?_getD, List.getElem?_replicate, h]
    · simp [List.getD_eq_getElem?_getD, List.getElem?_replicate, h]

theorem win_nil (a m : Nat) : win [] a m = zeros m := by
  have := win_zeros 0 a m
  simpa [zeros] using this

theorem win_readAt (dev : Dev) (s n a m : Nat) (h : a + m ≤ n) : win (readAt dev s n) a m = readAt dev (s + a) m := by
  simp only [win, readAt]
  apply List.map_congr_left
  intro j hj
  simp only [List.mem_range] at hj
  have hlt : a + j < n := by omega
  simp [List.getD_eq_getElem?_getD, hlt, Nat.add_assoc]

theorem win_zero (F : Bytes) (a : Nat) : win F a 0 = [] := by simp [win]

/-! ### windows of  hole ++ extent ++ rest -/

theorem win_data_fit (dev : Dev) (S C : Nat) (F' : Bytes) (sp m : Nat) (h : sp + m ≤ C) :
    win (readAt dev S C ++ F') sp m = readAt dev (S + sp) m := by
  rw [win_append_left _ _ _ _ (by simp; omega), win_readAt _ _ _ _ _ h]

theorem win_data_cont (dev : Dev) (S C : Nat) (F' : Bytes) (sp m : Nat) (h1 : sp ≤ C) (h2 : C - sp ≤ m) :
    win (readAt dev S C ++ F') sp m = readAt dev (S + sp) (C - sp) ++ win F' 0 (m - (C - sp)) := by
  have hm : m = (C - sp) + (m - (C - sp)) := by omega
  conv => lhs; rw [hm, win_add]
  rw [win_data_fit dev S C F' sp (C - sp) (by omega)]
  congr 1
  rw [win_append_right _ _ _ _ (by simp; omega)]
  congr 1
  simp; omega

theorem win_hole_fit (zl : Nat) (R F' : Bytes) (a m : Nat) (h : a + m ≤ zl) :
    win ((zeros zl ++ R) ++ F') a m = zeros m := by
  rw [win_append_left _ _ _ _ (by simp; omega), win_append_left _ _ _ _ (by simp; omega), win_zeros]

theorem win_past_hole (zl : Nat) (R F' : Bytes) (a m : Nat) (h : zl ≤ a) :
    win ((zeros zl ++ R) ++ F') a m = win (R ++ F') (a - zl) m := by
  rw [List.append_assoc, win_append_right _ _ _ _ (by simp; omega)]
  simp

theorem win_hole_cont (zl : Nat) (R F' : Bytes) (a m : Nat) (h1 : a ≤ zl) (h2 : zl - a ≤ m) :
    win ((zeros zl ++ R) ++ F') a m = zeros (zl - a) ++ win (R ++ F') 0 (m - (zl - a)) := by
  have hm : m = (zl - a) + (m - (zl - a)) := by omega
  conv => lhs; rw [hm, win_add]
  rw [win_hole_fit zl R F' a (zl - a) (by omega), win_past_hole zl R F' _ _ (by omega)]
  congr 2
  omega

theorem win_skip (zl : Nat) (R F' : Bytes) (a m : Nat) (h : zl + R.length ≤ a) :
    win ((zeros zl ++ R) ++ F') a m = win F' (a - (zl + R.length)) m := by
  rw [win_append_right _ _ _ _ (by simp; omega)]
  simp

/-! ### the read loop over a list with holes -/


theorem readLoop_sparse (dev : Dev) (bs off0 want : Nat) (hbs : 0 < bs) :
    ∀ (es : List Extent) (first off : Nat) (got : Bytes) (ios : List (Nat × Nat)),
      Sorted first es → first * bs ≤ off → off0 ≤ off →
      ((off = off0 ∧ got = []) ∨ off = first * bs) →
      got.length ≤ want →
      ∃ r, readLoop false dev bs (off0 / bs) want es off got ios = .ok r ∧
        r.data = got ++ win (fileBytesS dev bs first es) (off - first * bs) (want - got.length) ∧
        r.off = off + (want - got.length) := by
  intro es
  induction es with
  | nil =>
    intro first off got ios _ _ _ _ _
    exact ⟨_, rfl, by simp [fileBytesS, win_nil], rfl⟩
  | cons e es ih =>
    intro first off got ios hs hbase hoff0 hdisj hgw
    obtain ⟨hfb, hcnt, hrest⟩ := hs
    have hdm : off0 / bs * bs ≤ off0 := Nat.div_mul_le_self off0 bs
    have hlt : off0 < (off0 / bs + 1) * bs := by
      have := Nat.lt_div_mul_add (a := off0) (b := bs) hbs
      rw [Nat.add_mul]; omega
    have hFBge : first * bs ≤ e.fileBlock * bs := Nat.mul_le_mul_right bs hfb
    have hzl : (e.fileBlock - first) * bs = e.fileBlock * bs - first * bs := Nat.sub_mul ..
    have hEnd : (e.fileBlock + e.count) * bs = e.fileBlock * bs + e.count * bs := Nat.add_mul ..
    have hCpos : 0 < e.count * bs := Nat.mul_pos hcnt hbs
    have hF : fileBytesS dev bs first (e :: es) =
        (zeros ((e.fileBlock - first) * bs) ++ readAt dev (e.start * bs) (e.count * bs)) ++
          fileBytesS dev bs (e.fileBlock + e.count) es := rfl
    rw [hF, hzl]
    generalize hFB : e.fileBlock * bs = FB at *
    generalize hC : e.count * bs = C at *
    generalize hS : e.start * bs = S at *
    generalize hF'def : fileBytesS dev bs (e.fileBlock + e.count) es = F' at *
    have hRl : (readAt dev S C).length = C := readAt_length ..
    by_cases hskip : e.fileBlock + e.count ≤ off0 / bs
    · -- skipped
      have hle : (e.fileBlock + e.count) * bs ≤ off0 / bs * bs := Nat.mul_le_mul_right bs hskip
      have hoff : off = off0 ∧ got = [] := by
        rcases hdisj with h | h
        · exact h
        · exfalso; omega
      obtain ⟨r, hr, hdata, hroff⟩ := ih (e.fileBlock + e.count) off got ios hrest (by omega) hoff0 (Or.inl hoff) hgw
      refine ⟨r, ?_, ?_, hroff⟩
      · simp only [readLoop, skips, hskip, decide_true]
        simpa using hr
      · rw [hdata, hF'def, win_skip _ _ _ _ _ (by rw [hRl]; omega), hRl]
        have : off - (e.fileBlock + e.count) * bs = off - first * bs - (FB - first * bs + C) := by omega
        rw [this]
    · -- not skipped: the offset lies in front of the end of this extent
      have hns : off0 / bs < e.fileBlock + e.count := by omega
      have hend : off < FB + C := by
        have : (off0 / bs + 1) * bs ≤ (e.fileBlock + e.count) * bs := Nat.mul_le_mul_right bs (by omega)
        rcases hdisj with h | h
        · omega
        · omega
      -- the part of the loop body behind the hole handling, for any position inside the extent
      have hdata : ∀ (gotX : Bytes) (offX : Nat) (iosX : List (Nat × Nat)) (sp : Nat), offX - FB = sp → FB ≤ offX →
          offX < FB + C → gotX.length ≤ want → off0 ≤ offX →
          ∃ r, (if sp > C then IO.panic
                else if (gotX ++ readAt dev (S + sp) (min (want - gotX.length) (C - sp))).length ≥ want
                  then IO.ok ⟨gotX ++ readAt dev (S + sp) (min (want - gotX.length) (C - sp)),
                    iosX ++ [(S + sp, min (want - gotX.length) (C - sp))],
                    offX + min (want - gotX.length) (C - sp)⟩
                  else readLoop false dev bs (off0 / bs) want es (offX + min (want - gotX.length) (C - sp))
                    (gotX ++ readAt dev (S + sp) (min (want - gotX.length) (C - sp)))
                    (iosX ++ [(S + sp, min (want - gotX.length) (C - sp))])) = .ok r ∧
            r.data = gotX ++ win (readAt dev S C ++ F') sp (want - gotX.length) ∧
            r.off = offX + (want - gotX.length) := by
        intro gotX offX iosX sp hsp h1 h2 hgX hoX
        have hspC : sp < C := by omega
        rw [if_neg (by omega)]
        by_cases hfit : want - gotX.length ≤ C - sp
        · rw [Nat.min_eq_left hfit]
          have hge : (gotX ++ readAt dev (S + sp) (want - gotX.length)).length ≥ want := by simp; omega
          rw [if_pos hge]
          exact ⟨_, rfl, by rw [win_data_fit dev S C F' sp _ (by omega)], rfl⟩
        · have hfit' : C - sp < want - gotX.length := by omega
          rw [Nat.min_eq_right (by omega)]
          have hlt' : ¬ ((gotX ++ readAt dev (S + sp) (C - sp)).length ≥ want) := by simp; omega
          rw [if_neg hlt']
          have hgl : (gotX ++ readAt dev (S + sp) (C - sp)).length = gotX.length + (C - sp) := by simp
          have hoX' : offX + (C - sp) = (e.fileBlock + e.count) * bs := by omega
          obtain ⟨r, hr, hd, hro⟩ := ih (e.fileBlock + e.count) (offX + (C - sp))
            (gotX ++ readAt dev (S + sp) (C - sp)) (iosX ++ [(S + sp, C - sp)]) hrest
            (by omega) (by omega) (Or.inr hoX') (by rw [hgl]; omega)
          refine ⟨r, hr, ?_, by rw [hro, hgl]; omega⟩
          rw [hd, hgl, hF'def, hoX', Nat.sub_self, win_data_cont dev S C F' sp _ (by omega) (by omega),
            List.append_assoc]
          congr 3
          omega
      by_cases hhole : off < FB
      · -- a hole in front of the extent
        by_cases hm : want - got.length ≤ FB - off
        · -- the request ends inside the hole
          have hz : min (FB - off) (want - got.length) = want - got.length := Nat.min_eq_right hm
          refine ⟨⟨got ++ zeros (want - got.length), ios, off + (want - got.length)⟩, ?_, ?_, rfl⟩
          · simp only [readLoop, skips, hskip, decide_false, Bool.false_eq_true, if_false, hFB, hhole, if_true, hz]
            rw [if_pos ⟨trivial, by omega⟩]
          · simp only
            rw [win_hole_fit _ _ _ _ _ (by omega)]
        · -- the hole is read as zeros, then the extent
          have hz : min (FB - off) (want - got.length) = FB - off := Nat.min_eq_left (by omega)
          have hg1 : (got ++ zeros (FB - off)).length = got.length + (FB - off) := by simp
          obtain ⟨r, hr, hd, hro⟩ := hdata (got ++ zeros (FB - off)) FB ios 0 (Nat.sub_self _) (Nat.le_refl _)
            (by omega) (by rw [hg1]; omega) (by omega)
          refine ⟨r, ?_, ?_, by rw [hro, hg1]; omega⟩
          · simp only [readLoop, skips, hskip, decide_false, Bool.false_eq_true, if_false, hFB, hC, hS, hhole, if_true, hz]
            rw [if_neg (by omega)]
            have e1 : off + (FB - off) = FB := by omega
            rw [e1, Nat.sub_self]
            exact hr
          · have e2 : FB - first * bs - (off - first * bs) = FB - off := by omega
            have e3 : want - got.length - (FB - off) = want - (got.length + (FB - off)) := by omega
            rw [hd, hg1, List.append_assoc, win_hole_cont _ _ _ _ _ (by omega) (by omega), e2, e3]
      · -- inside the extent
        obtain ⟨r, hr, hd, hro⟩ := hdata got off ios (off - FB) rfl (by omega) hend hgw hoff0
        refine ⟨r, ?_, ?_, hro⟩
        · simp only [readLoop, skips, hskip, decide_false, Bool.false_eq_true, if_false, hFB, hC, hS, hhole,
            false_and, zeros, List.replicate_zero, List.append_nil, Nat.add_zero]
          exact hr
        · rw [hd, win_past_hole _ _ _ _ _ (by omega)]
          congr 2
          omega


/-- a contiguous list is a sorted one without holes, and denotes the same bytes -/
theorem contig_sorted : ∀ (es : List Extent) (first : Nat), Contig first es → Sorted first es := by
  intro es
  induction es with
  | nil => intro _ _; trivial
  | cons e es ih => intro first h; exact ⟨by rw [h.1]; exact Nat.le_refl _, h.2.1, by rw [h.1]; exact ih _ h.2.2⟩

theorem fileBytesS_contig (dev : Dev) (bs : Nat) : ∀ (es : List Extent) (first : Nat), Contig first es →
    fileBytesS dev bs first es = fileBytes dev bs es := by
  intro es
  induction es with
  | nil => intro _ _; rfl
  | cons e es ih =>
    intro first h
    simp only [fileBytesS, fileBytes, h.1, Nat.sub_self, Nat.zero_mul, zeros, List.replicate_zero, List.nil_append]
    rw [ih _ h.2.2]

end Diskfs.Ext4
