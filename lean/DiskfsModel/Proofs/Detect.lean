/-
  Helper lemmas for C12 (Props/C12.lean): the probe chain, the bytes of sector 0
  after FAT12/FAT16 Create over arbitrary stale content, what each reader's
  acceptance test makes of those bytes.
-/
import DiskfsModel.Model.Detect
set_option linter.unusedSimpArgs false
namespace Diskfs.Detect

/-! ### probe chain -/

theorem pos_cons_self (k : Kind) (ks : List Kind) : pos (k :: ks) k = 0 := by
  simp [pos]

theorem pos_cons_ne (k k' : Kind) (ks : List Kind) (h : k ≠ k') : pos (k :: ks) k' = pos ks k' + 1 := by
  have hb : (k == k') = false := by simp [h]
  simp [pos, List.idxOf_cons, hb]

/-- the first kind in `order` whose Read accepts is what GetFilesystem returns, provided every
    kind probed earlier rejects (a panic earlier would propagate) -/
theorem probe_found (v : Kind → Verdict) (order : List Kind) (T : Kind)
    (hT : T ∈ order) (hacc : v T = .accept)
    (hrej : ∀ k, k ∈ order → k ≠ T → pos order k < pos order T → v k = .reject) :
    probe v order = .found T := by
  induction order with
  | nil => cases hT
  | cons k ks ih =>
    by_cases hk : k = T
    · subst hk; simp [probe, hacc]
    · have hkr : v k = .reject := by
        apply hrej k (List.mem_cons_self ..) hk
        rw [pos_cons_self, pos_cons_ne k T ks hk]
        omega
      simp only [probe, hkr]
      apply ih
      · cases hT with
        | head => exact absurd rfl hk
        | tail _ h => exact h
      · intro k' hk' hne hlt
        by_cases hkk : k = k'
        · subst hkk; exact hkr
        · apply hrej k' (List.mem_cons_of_mem _ hk') hne
          rw [pos_cons_ne k k' ks hkk, pos_cons_ne k T ks hk]
          omega

/-- nothing accepts (and nothing panics) ⇒ no filesystem -/
theorem probe_none (v : Kind → Verdict) (order : List Kind)
    (h : ∀ k ∈ order, v k = .reject) : probe v order = .none := by
  induction order with
  | nil => rfl
  | cons k ks ih =>
    simp only [probe, h k (List.mem_cons_self ..)]
    exact ih (fun k' hk' => h k' (List.mem_cons_of_mem _ hk'))

/-! ### bytes -/

theorem byteOf_toNat (n : Nat) : (byteOf n).toNat = n % 256 := by
  simp [byteOf, UInt8.toNat_ofNat']

theorem sectorBytes_length (f : Nat → UInt8) (n : Nat) : (sectorBytes f n).length = n := by
  simp [sectorBytes]

theorem sectorBytes_getD (f : Nat → UInt8) (n i : Nat) (h : i < n) :
    (sectorBytes f n).getD i 0 = f i := by
  simp [sectorBytes, List.getD_eq_getElem?_getD, h]

/-- a write list whose LAST write covering [0,n) is `⟨0, sectorBytes f n⟩` followed only by writes
    at offsets ≥ n leaves `f` in [0,n), whatever was there before -/
theorem applyWrs_prefix_then_far (d : Dev) (pre post : List Wr) (f : Nat → UInt8) (n i : Nat)
    (hi : i < n) (hpost : ∀ w ∈ post, n ≤ w.off) :
    applyWrs d (pre ++ [⟨0, sectorBytes f n⟩] ++ post) i = f i := by
  unfold applyWrs
  rw [List.foldl_append, List.foldl_append]
  have := applyWrs_frame (List.foldl applyWr (List.foldl applyWr d pre) [⟨0, sectorBytes f n⟩]) post i
    (fun w hw => Or.inl (Nat.lt_of_lt_of_le hi (hpost w hw)))
  simp only [applyWrs] at this
  rw [this]
  simp only [List.foldl_cons, List.foldl_nil]
  rw [applyWr_hit _ _ _ (Nat.zero_le _) (by simp [sectorBytes_length]; exact hi)]
  simp [sectorBytes, hi]

/-! ### well-formed parameters and layouts -/

/-- a sectors-per-cluster value CheckGeometry accepts -/
def spcOk (n : Nat) : Bool := n == 1 || n == 2 || n == 4 || n == 8 || n == 16 || n == 32 || n == 64 || n == 128

theorem spcOk_range (n : Nat) (h : spcOk n = true) : 0 < n ∧ n < 256 := by
  simp only [spcOk, Bool.or_eq_true, beq_iff_eq] at h
  omega

def tblOk (t : List (Nat × Nat)) : Bool := t.all fun p => spcOk p.2

/-- decidable well-formedness of the regenerated thresholds / tables: what Create lets through the
    matching Read accepts and the neighbouring Reads refuse -/
def Params.wf (P : Params) : Bool :=
  decide (P.f12CreateGe ≤ P.f12ReadGe) && decide (P.f12CreateGe ≤ P.f16ReadLt) &&
  decide (P.f16ReadLt ≤ P.f16CreateLt) && decide (P.f16CreateGe ≤ P.f16ReadGe) &&
  decide (P.f12ReadGe ≤ P.f16CreateLt) && decide (P.f16CreateGe ≤ 1000000) && decide (P.f12CreateGe ≤ 1000000) &&
  tblOk P.spc12 && spcOk P.spc12d && decide (0 < P.spc12d) &&
  tblOk P.spc16 && spcOk P.spc16d && decide (0 < P.spc16d) &&
  decide (P.f12Max ≤ 2147483648) && decide (P.f16Max ≤ 4294967296) && decide (0 < P.f16CreateLt)

theorem lookupSpc_ok (t : List (Nat × Nat)) (d size : Nat) (ht : tblOk t = true) (hd : spcOk d = true) :
    spcOk (lookupSpc t d size) = true := by
  unfold lookupSpc
  split
  · rename_i p hp
    have hm := List.mem_of_find?_eq_some hp
    exact (List.all_eq_true.1 ht) p hm
  · exact hd

theorem lookupSpc_range (t : List (Nat × Nat)) (d size : Nat) (ht : tblOk t = true) (hd : spcOk d = true) :
    0 < lookupSpc t d size ∧ lookupSpc t d size < 256 :=
  spcOk_range _ (lookupSpc_ok t d size ht hd)

/-- what the readers need to know about a geometry Create decided on -/
structure LayoutOK (L : Layout) (size : Nat) : Prop where
  spc_ok : spcOk L.spc = true
  spf_pos : 0 < L.spf
  spc_pos : 0 < L.spc
  spc_lt : L.spc < 256
  res_pos : 1 ≤ L.reserved
  res_lt : L.reserved < 65536
  re_pos : 0 < L.rootEnts
  re_lt : L.rootEnts < 2048
  spf_lt : L.spf < 65536
  total_lt : L.total < two32
  fits : L.reserved + 2 * L.spf + rootDirSectors512 L.rootEnts ≤ L.total
  total_size : L.total * 512 ≤ size
  count_eq : L.count = (L.total - L.reserved - 2 * L.spf - rootDirSectors512 L.rootEnts) / L.spc

theorem sub32x3_nowrap (a b c d : Nat) (h : b + c + d ≤ a) (ha : a < two32) :
    sub32x3 a b c d = a - b - c - d := by
  unfold sub32x3 two32 at *
  omega

/-- a small quotient means the uint32 subtraction did not wrap -/
theorem nowrap_of_small (a b c d spc m : Nat) (ha : a < two32) (hb : b + c + d ≤ 200000)
    (hspc0 : 0 < spc) (hspc : spc < 256) (hm : m ≤ 1000000)
    (h : sub32x3 a b c d / spc < m) : b + c + d ≤ a := by
  have h1 : sub32x3 a b c d < m * spc := (Nat.div_lt_iff_lt_mul hspc0).1 h
  have h2 : m * spc ≤ 1000000 * 256 := Nat.mul_le_mul hm (Nat.le_of_lt hspc)
  unfold sub32x3 two32 at *
  omega

theorem spf12_lt (n : Nat) : spf12 n < 65536 := Nat.mod_lt _ (by omega)
theorem spf16_lt (n : Nat) : spf16 n < 65536 := Nat.mod_lt _ (by omega)

/-- for cluster counts a volume of admissible size can have, the uint16 conversion does not
    truncate and the FAT has at least one sector -/
theorem spf12_pos (n : Nat) (h : n ≤ 4194304) : 0 < spf12 n := by
  unfold spf12 two32
  have h1 : (n + 2) % 4294967296 = n + 2 := Nat.mod_eq_of_lt (by omega)
  have h2 : (n + 2) * 3 % 4294967296 = (n + 2) * 3 := Nat.mod_eq_of_lt (by omega)
  have h3 : ((n + 2) * 3 / 2 + 512) % 4294967296 = (n + 2) * 3 / 2 + 512 := Nat.mod_eq_of_lt (by omega)
  rw [h1, h2, h3]
  have h4 : ((n + 2) * 3 / 2 + 512) / 512 % 65536 = ((n + 2) * 3 / 2 + 512) / 512 := Nat.mod_eq_of_lt (by omega)
  rw [h4]
  omega
theorem spf16_pos (n : Nat) (h : n ≤ 8388608) : 0 < spf16 n := by
  unfold spf16 two32
  have h1 : (n + 2) % 4294967296 = n + 2 := Nat.mod_eq_of_lt (by omega)
  have h2 : (n + 2) * 2 % 4294967296 = (n + 2) * 2 := Nat.mod_eq_of_lt (by omega)
  have h3 : ((n + 2) * 2 + 511) % 4294967296 = (n + 2) * 2 + 511 := Nat.mod_eq_of_lt (by omega)
  rw [h1, h2, h3]
  have h4 : ((n + 2) * 2 + 511) / 512 % 65536 = ((n + 2) * 2 + 511) / 512 := Nat.mod_eq_of_lt (by omega)
  rw [h4]
  omega

theorem rootEnts12_range (size : Nat) : 0 < rootEnts12 size ∧ rootEnts12 size < 2048 ∧
    rootDirSectors512 (rootEnts12 size) ≤ 14 := by
  unfold rootEnts12 rootDirSectors512; split <;> omega

theorem layout12_ok (P : Params) (hP : P.wf = true) (size : Nat) (L : Layout)
    (h : layout12 P size = some L) : LayoutOK L size ∧ L.count < P.f12CreateGe ∧ L.reserved = 1 := by
  unfold layout12 at h
  simp only [Params.wf, Bool.and_eq_true, decide_eq_true_eq] at hP
  obtain ⟨⟨⟨⟨⟨⟨⟨⟨⟨⟨⟨⟨⟨⟨⟨h1, h2⟩, h3⟩, h4⟩, h5⟩, h6⟩, h7⟩, ht12⟩, hd12a⟩, hd12b⟩, ht16⟩, hd16a⟩, hd16b⟩, hm12⟩, hm16⟩, hlt0⟩ := hP
  have hspcok := lookupSpc_ok P.spc12 P.spc12d size ht12 hd12a
  have hspc := lookupSpc_range P.spc12 P.spc12d size ht12 hd12a
  split at h
  · cases h
  · rename_i hsz
    simp only [Bool.or_eq_true, decide_eq_true_eq, not_or, Nat.not_lt] at hsz
    split at h
    · cases h
    · rename_i hc
      split at h
      · cases h
      rename_i hzero
      simp only [Option.some.injEq] at h
      subst h
      simp only [Nat.not_le, ge_iff_le] at hc
      have hre := rootEnts12_range size
      have htot : size / 512 < two32 := by unfold two32; omega
      have hspf := spf12_lt (sub32x3 (size / 512) 1 (rootDirSectors512 (rootEnts12 size)) 0 / lookupSpc P.spc12 P.spc12d size)
      have hc' := hc
      dsimp only [mkLayout12] at hc'
      have hfit := nowrap_of_small (size / 512) 1 _ _ _ P.f12CreateGe htot (by omega) hspc.1 hspc.2 h7 hc'
      have hnc0 : sub32x3 (size / 512) 1 (rootDirSectors512 (rootEnts12 size)) 0 / lookupSpc P.spc12 P.spc12d size ≤ 4194304 := by
        rw [sub32x3_nowrap _ _ _ _ (by omega) htot]
        have := Nat.div_le_self (size / 512 - 1 - rootDirSectors512 (rootEnts12 size) - 0) (lookupSpc P.spc12 P.spc12d size)
        omega
      have hspfpos := spf12_pos _ hnc0
      refine ⟨?_, hc, rfl⟩
      refine ⟨?_, ?_, ?_, ?_, ?_, ?_, ?_, ?_, ?_, ?_, ?_, ?_, ?_⟩ <;> dsimp only [mkLayout12]
      · exact hspcok
      · exact hspfpos
      · exact hspc.1
      · exact hspc.2
      · omega
      · omega
      · exact hre.1
      · exact hre.2.1
      · exact hspf
      · exact htot
      · omega
      · have := Nat.div_mul_le_self size 512; omega
      · rw [sub32x3_nowrap _ _ _ _ hfit htot]
        congr 1
        omega

theorem layout16_ok (P : Params) (hP : P.wf = true) (size : Nat) (L : Layout)
    (h : layout16 P size = some L) :
    LayoutOK L size ∧ P.f16CreateLt ≤ L.count ∧ L.count < P.f16CreateGe ∧ L.reserved = 4 := by
  unfold layout16 at h
  simp only [Params.wf, Bool.and_eq_true, decide_eq_true_eq] at hP
  obtain ⟨⟨⟨⟨⟨⟨⟨⟨⟨⟨⟨⟨⟨⟨⟨h1, h2⟩, h3⟩, h4⟩, h5⟩, h6⟩, h7⟩, ht12⟩, hd12a⟩, hd12b⟩, ht16⟩, hd16a⟩, hd16b⟩, hm12⟩, hm16⟩, hlt0⟩ := hP
  have hspcok := lookupSpc_ok P.spc16 P.spc16d size ht16 hd16a
  have hspc := lookupSpc_range P.spc16 P.spc16d size ht16 hd16a
  split at h
  · cases h
  · rename_i hsz
    simp only [Bool.or_eq_true, decide_eq_true_eq, not_or, Nat.not_lt] at hsz
    split at h
    · cases h
    · rename_i hc
      split at h
      · cases h
      · rename_i hc2
        simp only [Option.some.injEq] at h
        subst h
        simp only [Nat.not_le, ge_iff_le, Nat.not_lt] at hc hc2
        have hrds : rootDirSectors512 512 = 32 := by unfold rootDirSectors512; omega
        have htot : size / 512 < two32 := by unfold two32; omega
        have hspf := spf16_lt (sub32x3 (size / 512) 4 (rootDirSectors512 512) 0 / lookupSpc P.spc16 P.spc16d size)
        have hc' := hc
        dsimp only [mkLayout16] at hc'
        have hfit := nowrap_of_small (size / 512) 4 _ _ _ P.f16CreateGe htot (by omega) hspc.1 hspc.2 h6 hc'
        have hnc0 : sub32x3 (size / 512) 4 (rootDirSectors512 512) 0 / lookupSpc P.spc16 P.spc16d size ≤ 8388608 := by
          rw [sub32x3_nowrap _ _ _ _ (by omega) htot]
          have := Nat.div_le_self (size / 512 - 4 - rootDirSectors512 512 - 0) (lookupSpc P.spc16 P.spc16d size)
          omega
        have hspfpos := spf16_pos _ hnc0
        refine ⟨?_, hc2, hc, rfl⟩
        refine ⟨?_, ?_, ?_, ?_, ?_, ?_, ?_, ?_, ?_, ?_, ?_, ?_, ?_⟩ <;> dsimp only [mkLayout16]
        · exact hspcok
        · exact hspfpos
        · exact hspc.1
        · exact hspc.2
        · omega
        · omega
        · omega
        · omega
        · exact hspf
        · exact htot
        · omega
        · have := Nat.div_mul_le_self size 512; omega
        · rw [sub32x3_nowrap _ _ _ _ hfit htot]
          congr 1
          omega

/-! ### the readers on a FAT12/FAT16 boot sector -/

section OnBoot
variable (is16 : Bool) (L : Layout) (serial : Nat) (label : List Nat) (rd : Dev)
variable (hrd : ∀ i, i < 512 → rd i = bootFat1x is16 L serial label i)
include hrd

theorem boot_u8 (i : Nat) (hi : i < 512) : u8 rd i = (bootFat1x is16 L serial label i).toNat := by
  simp [u8, hrd i hi]

theorem boot_bps : u16 rd 11 = 512 := by
  simp [u16, boot_u8 is16 L serial label rd hrd, bootFat1x]

theorem boot_extsig : u8 rd 38 = 0x29 := by
  simp [boot_u8 is16 L serial label rd hrd, bootFat1x]

theorem boot_sig : bootSigOk rd = true := by
  simp [bootSigOk, boot_u8 is16 L serial label rd hrd, bootFat1x]

theorem boot_byte66 : u8 rd 66 = 0 := by
  simp [boot_u8 is16 L serial label rd hrd, bootFat1x]

theorem boot_magic0 : u32 rd 0 ≠ 0x73717368 := by
  simp [u32, u16, boot_u8 is16 L serial label rd hrd, bootFat1x, strByte, oemName, byteOf_toNat]

theorem boot_bpb (size : Nat) (ok : LayoutOK L size) :
    readBpb rd = { bps := 512, spc := L.spc, reserved := L.reserved, nfats := 2, rootEnts := L.rootEnts,
                   total := L.total, spf := L.spf } := by
  have h1 := ok.spc_lt; have h2 := ok.res_lt; have h3 := ok.re_lt; have h4 := ok.spf_lt
  have h5 := ok.total_lt
  unfold two32 at h5
  have hspc : u8 rd 13 = L.spc := by
    simp [boot_u8 is16 L serial label rd hrd, bootFat1x, byteOf_toNat]; omega
  have hres : u16 rd 14 = L.reserved := by
    simp [u16, boot_u8 is16 L serial label rd hrd, bootFat1x, byteOf_toNat]; omega
  have hnf : u8 rd 16 = 2 := by
    simp [boot_u8 is16 L serial label rd hrd, bootFat1x]
  have hre : u16 rd 17 = L.rootEnts := by
    simp [u16, boot_u8 is16 L serial label rd hrd, bootFat1x, byteOf_toNat]; omega
  have hspf : u16 rd 22 = L.spf := by
    simp [u16, boot_u8 is16 L serial label rd hrd, bootFat1x, byteOf_toNat]; omega
  have ht16 : u16 rd 19 = if L.total ≤ 0xFFFF then L.total else 0 := by
    simp [u16, boot_u8 is16 L serial label rd hrd, bootFat1x, byteOf_toNat]
    split <;> omega
  have ht32 : u32 rd 32 = if L.total ≤ 0xFFFF then 0 else L.total := by
    simp [u32, u16, boot_u8 is16 L serial label rd hrd, bootFat1x, byteOf_toNat]
    split <;> omega
  simp only [readBpb, boot_bps is16 L serial label rd hrd, hspc, hres, hnf, hre, hspf, ht16, ht32]
  congr 1
  by_cases hh : L.total ≤ 0xFFFF
  · simp only [if_pos hh]; simp
  · simp only [if_neg hh]; split <;> omega

end OnBoot

theorem rootDirSectors_512 (b : Bpb) (h : b.bps = 512) : b.rootDirSectors = rootDirSectors512 b.rootEnts := by
  simp [Bpb.rootDirSectors, rootDirSectors512, h]

/-- cluster count the readers compute from the boot sector = the count Create checked -/
theorem boot_count (is16 : Bool) (L : Layout) (serial : Nat) (label : List Nat) (rd : Dev)
    (hrd : ∀ i, i < 512 → rd i = bootFat1x is16 L serial label i) (size : Nat) (ok : LayoutOK L size) :
    (readBpb rd).count = L.count := by
  rw [boot_bpb is16 L serial label rd hrd size ok, ok.count_eq]
  simp only [Bpb.count, Bpb.rootDirSectors, rootDirSectors512]
  have hf := ok.fits
  simp only [rootDirSectors512] at hf
  rw [sub32x3_nowrap _ _ _ _ (by omega) ok.total_lt]
  congr 1

/-- fat12.Read / fat16.Read on a volume whose sector 0 is the boot sector Create wrote and which has
    at least one data cluster (CheckGeometry refuses a volume without data area) -/
theorem fat1x_on_boot (P : Params) (is16 target16 : Bool) (L : Layout) (serial : Nat) (label : List Nat) (rd : Dev)
    (hrd : ∀ i, i < 512 → rd i = bootFat1x is16 L serial label i) (size avail : Nat)
    (ok : LayoutOK L size) (hpos : 0 < L.count) (hav : size ≤ avail) :
    verdictFat1x P target16 rd size avail 512 =
      if (if target16 then (decide (L.count < P.f16ReadLt) || decide (L.count ≥ P.f16ReadGe)) else decide (L.count ≥ P.f12ReadGe))
      then .reject else .accept := by
  have hcount := boot_count is16 L serial label rd hrd size ok
  have hbpb := boot_bpb is16 L serial label rd hrd size ok
  have hf := ok.fits; have hts := ok.total_size; have hrp := ok.res_pos; have hre := ok.re_pos
  have hspc := ok.spc_pos; have hspf := ok.spf_pos
  have hg : 1 ≤ rootDirSectors512 L.rootEnts := by unfold rootDirSectors512; omega
  have hstrict : L.reserved + 2 * L.spf + rootDirSectors512 L.rootEnts < L.total := by
    have hce := ok.count_eq
    rcases Nat.lt_or_ge (L.reserved + 2 * L.spf + rootDirSectors512 L.rootEnts) L.total with h | h
    · exact h
    · exfalso
      have : L.total - L.reserved - 2 * L.spf - rootDirSectors512 L.rootEnts = 0 := by omega
      rw [this, Nat.zero_div] at hce
      omega
  have hread0 : readOk avail 0 512 = true := by
    simp [readOk]; omega
  have hreadFat : readOk avail (L.reserved * 512) (L.spf * 512) = true := by
    simp [readOk]; omega
  have hgeo : checkGeometry 512 L.spc L.reserved 2 L.spf L.rootEnts L.total size = true := by
    have hso := ok.spc_ok
    simp only [spcOk] at hso
    have hm : metaSectors 512 L.reserved 2 L.spf L.rootEnts = L.reserved + 2 * L.spf + rootDirSectors512 L.rootEnts := by
      simp [metaSectors, rootDirSectors512]
    simp only [checkGeometry, hm, hso]
    simp
    exact ⟨⟨⟨by omega, by omega⟩, Or.inr hstrict⟩, Or.inr (Nat.le_trans (Nat.mul_le_mul_right 512 hf) hts)⟩
  unfold verdictFat1x
  simp only [hread0, hcount, boot_extsig is16 L serial label rd hrd, boot_sig is16 L serial label rd hrd]
  rw [hbpb] at hcount ⊢
  simp only [validBps, extSigOk, hreadFat, hgeo]
  have hre' : (L.rootEnts == 0) = false := by simp; omega
  simp [hre']

/-- fat32.Read refuses a FAT12/FAT16 boot sector: the byte where FAT32 keeps its extended boot
    signature (offset 66) is boot code, which Create leaves zero -/
theorem fat32_rejects_boot1x (P : Params) (is16 : Bool) (L : Layout) (serial : Nat) (label : List Nat) (rd : Dev)
    (hrd : ∀ i, i < 512 → rd i = bootFat1x is16 L serial label i) (size avail bs : Nat) (deep : Verdict) :
    verdictFat32 P rd size avail bs deep = .reject := by
  unfold verdictFat32
  have h66 := boot_byte66 is16 L serial label rd hrd
  have h42 : u16 rd 42 = (byteOf (serial / 16777216)).toNat + 256 * (strByte label 0).toNat := by
    simp [u16, boot_u8 is16 L serial label rd hrd, bootFat1x]
  simp only [h66, extSigOk]
  repeat' split
  all_goals first | rfl | simp_all

/-- squashfs.Read refuses it: bytes 0..3 are the jump instruction and "g", not "hsqs" -/
theorem sqfs_rejects_boot1x (is16 : Bool) (L : Layout) (serial : Nat) (label : List Nat) (rd : Dev)
    (hrd : ∀ i, i < 512 → rd i = bootFat1x is16 L serial label i) (avail bs : Nat) (deep : Verdict) :
    verdictSqfs rd avail bs deep = .reject := by
  unfold verdictSqfs
  have := boot_magic0 is16 L serial label rd hrd
  repeat' split
  all_goals first | rfl | simp_all

/-! ### readers on a zeroed boot area -/

theorem u8_zero (rd : Dev) (n i : Nat) (h : ∀ j, j < n → rd j = 0) (hi : i < n) : u8 rd i = 0 := by
  simp [u8, h i hi]

theorem fat1x_rejects_zero_boot (P : Params) (is16 : Bool) (rd : Dev) (size avail bs : Nat)
    (h : ∀ j, j < 13 → rd j = 0) : verdictFat1x P is16 rd size avail bs = .reject := by
  unfold verdictFat1x
  have hb : (readBpb rd).bps = 0 := by
    simp [readBpb, u16, u8_zero rd 13 _ h]
  repeat' split
  all_goals first | rfl | simp_all [validBps]

theorem fat32_rejects_zero_boot (P : Params) (rd : Dev) (size avail bs : Nat) (deep : Verdict)
    (h : ∀ j, j < 13 → rd j = 0) : verdictFat32 P rd size avail bs deep = .reject := by
  unfold verdictFat32
  have hb : u16 rd 11 = 0 := by simp [u16, u8_zero rd 13 _ h]
  repeat' split
  all_goals first | rfl | simp_all [validBps]

theorem sqfs_rejects_zero_boot (rd : Dev) (avail bs : Nat) (deep : Verdict)
    (h : ∀ j, j < 4 → rd j = 0) : verdictSqfs rd avail bs deep = .reject := by
  unfold verdictSqfs
  have hb : u32 rd 0 = 0 := by simp [u32, u16, u8_zero rd 4 _ h]
  repeat' split
  all_goals first | rfl | simp_all

theorem ext4_rejects_zero_sb (rd : Dev) (size avail bs : Nat) (deep : Verdict)
    (h : rd 1080 = 0 ∧ rd 1081 = 0) : verdictExt4 rd size avail bs deep = .reject := by
  unfold verdictExt4
  have hb : u16 rd 1080 = 0 := by simp [u16, u8, h.1, h.2]
  repeat' split
  all_goals first | rfl | simp_all

theorem iso_rejects_zero_id (rd : Dev) (size avail pbs : Nat) (deep : Verdict)
    (h : rd 32769 = 0) : verdictIso rd size avail pbs deep = .reject := by
  unfold verdictIso
  have hb : u8 rd 32769 = 0 := by simp [u8, h]
  repeat' split
  all_goals first | rfl | simp_all

/-- fat12.Read / fat16.Read refuse any boot sector whose root-entry count is zero (FAT32's), and
    do so before the division by sectors-per-cluster -/
theorem fat1x_rejects_rootEnts0 (P : Params) (is16 : Bool) (rd : Dev) (size avail bs : Nat)
    (h : u16 rd 17 = 0) : verdictFat1x P is16 rd size avail bs = .reject := by
  unfold verdictFat1x
  have hb : (readBpb rd).rootEnts = 0 := by simp [readBpb, h]
  repeat' split
  all_goals first | rfl | simp_all

/-- the FAT readers refuse a squashfs superblock: byte 12 is the low byte of the block size, a
    multiple of 256, so the "bytes per sector" they see is below 256 -/
theorem fat1x_rejects_sqfs_sb (P : Params) (is16 : Bool) (rd : Dev) (size avail bs : Nat)
    (h : rd 12 = 0) : verdictFat1x P is16 rd size avail bs = .reject := by
  unfold verdictFat1x
  have hb : (readBpb rd).bps = u8 rd 11 := by simp [readBpb, u16, u8, h]
  have hlt : u8 rd 11 < 256 := by unfold u8; exact (rd 11).toNat_lt
  have hv : validBps (readBpb rd).bps = false := by
    rw [hb]; unfold validBps
    simp only [Bool.or_eq_false_iff, beq_eq_false_iff_ne]
    omega
  repeat' split
  all_goals first | rfl | simp_all

theorem fat32_rejects_sqfs_sb (P : Params) (rd : Dev) (size avail bs : Nat) (deep : Verdict)
    (h : rd 12 = 0) : verdictFat32 P rd size avail bs deep = .reject := by
  unfold verdictFat32
  have hb : u16 rd 11 = u8 rd 11 := by simp [u16, u8, h]
  have hlt : u8 rd 11 < 256 := by unfold u8; exact (rd 11).toNat_lt
  have hv : validBps (u16 rd 11) = false := by
    rw [hb]; unfold validBps
    simp only [Bool.or_eq_false_iff, beq_eq_false_iff_ne]
    omega
  repeat' split
  all_goals first | rfl | simp_all

end Diskfs.Detect
