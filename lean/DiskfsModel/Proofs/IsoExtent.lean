import DiskfsModel.Model.Iso.Extent
import DiskfsModel.Proofs.IsoLayout
namespace Diskfs.Iso

theorem getD_append_at_length (pre x : Bytes) (k : Nat) (d : UInt8) :
    (pre ++ x).getD (pre.length + k) d = x.getD k d := by
  simp [List.getD_eq_getElem?_getD, List.getElem?_append_right]

theorem drop_append_at_length (pre x : Bytes) : (pre ++ x).drop pre.length = x := by simp

/-- when `placeRec` pads, it pads exactly to the next block boundary -/
theorem placeRec_cases (bs pos r : Nat) :
    placeRec bs pos r = pos ∨ placeRec bs pos r = pos + (bs - pos % bs) := by
  unfold placeRec; split <;> simp

/-- parsing the layout of `rs` from position `pre.length` returns `rs`, whatever precedes -/
theorem parse_encSuffix (bs : Nat) (hbs : 0 < bs) (rs : List Bytes) (hr : ∀ r ∈ rs, RecOK bs r)
    (pre : Bytes) (fuel : Nat) (hf : 2 * rs.length < fuel) :
    parseExtent bs fuel pre.length (pre ++ encSuffix bs rs pre.length) = rs := by
  induction rs generalizing pre fuel with
  | nil =>
    cases fuel with
    | zero => omega
    | succ f => simp [parseExtent, encSuffix]
  | cons r rs ih =>
    obtain ⟨h0, h1, h2, h3⟩ := hr r (List.mem_cons_self ..)
    have hrs : ∀ x ∈ rs, RecOK bs x := fun x hx => hr x (List.mem_cons_of_mem _ hx)
    -- the step that reads the record once the position is where the record was placed
    have readRec : ∀ (pre' : Bytes) (f : Nat), 2 * rs.length < f →
        parseExtent bs (f + 1) pre'.length (pre' ++ (r ++ encSuffix bs rs (pre'.length + r.length))) = r :: rs := by
      intro pre' f hf'
      have hlen : pre'.length < (pre' ++ (r ++ encSuffix bs rs (pre'.length + r.length))).length := by
        simp; omega
      have hget : (pre' ++ (r ++ encSuffix bs rs (pre'.length + r.length))).getD pre'.length 0 = r.getD 0 0 := by
        have := getD_append_at_length pre' (r ++ encSuffix bs rs (pre'.length + r.length)) 0 0
        rw [Nat.add_zero] at this
        rw [this]
        simp [List.getD_eq_getElem?_getD, List.getElem?_append_left h0]
      simp only [parseExtent, hlen, if_true, hget, h3]
      rw [if_neg (by omega)]
      congr 1
      · rw [drop_append_at_length]; simp
      · have := ih hrs (pre' ++ r) f hf'
        simp only [List.length_append, List.append_assoc] at this
        exact this
    cases fuel with
    | zero => omega
    | succ f =>
      simp only [List.length_cons] at hf
      rcases placeRec_cases bs pre.length r.length with hp | hp
      · -- no padding
        simp only [encSuffix, hp, Nat.sub_self, zeros, List.replicate_zero, List.nil_append]
        exact readRec pre f (by omega)
      · -- padding: a zero length byte, then the record at the next block boundary
        have hgap : 0 < bs - pre.length % bs := by
          have := Nat.mod_lt pre.length hbs; omega
        simp only [encSuffix, hp, Nat.add_sub_cancel_left]
        cases f with
        | zero => omega
        | succ f =>
          have hlen : pre.length < (pre ++ (zeros (bs - pre.length % bs) ++ (r ++ encSuffix bs rs (pre.length + (bs - pre.length % bs) + r.length)))).length := by
            simp; omega
          have hget : (pre ++ (zeros (bs - pre.length % bs) ++ (r ++ encSuffix bs rs (pre.length + (bs - pre.length % bs) + r.length)))).getD pre.length 0 = 0 := by
            have := getD_append_at_length pre (zeros (bs - pre.length % bs) ++ (r ++ encSuffix bs rs (pre.length + (bs - pre.length % bs) + r.length))) 0 0
            rw [Nat.add_zero] at this
            rw [this]
            obtain ⟨g', hg'⟩ : ∃ g', bs - pre.length % bs = g' + 1 := ⟨_, (Nat.succ_pred_eq_of_pos hgap).symm⟩
            rw [hg']
            simp [zeros, List.replicate_succ]
          rw [parseExtent]
          simp only [hlen, if_true, hget]
          simp only [UInt8.toNat_zero, if_true]
          have := readRec (pre ++ zeros (bs - pre.length % bs)) f (by omega)
          simp only [List.length_append, zeros_length, List.append_assoc] at this
          exact this

end Diskfs.Iso
