/-
  C03, ext4: every WriteAt of File.Write (Model/Ext4/FileIO.lean, the repaired loop) lies inside one extent of
  the file's extent list — an adapter over the write loop for the range theorem of Props/C03.lean.
-/
import DiskfsModel.Proofs.Ext4FileWrite
namespace Diskfs.Ext4

/-- the write lies inside one extent of the list (device bytes, relative to the filesystem start) -/
def InExtent (bs : Nat) (es : List Extent) (w : Int × Bytes) : Prop :=
  ∃ e ∈ es, ((e.start * bs : Nat) : Int) ≤ w.1 ∧ w.1 + (w.2.length : Int) ≤ (((e.start + e.count) * bs : Nat) : Int)

theorem InExtent.cons {bs : Nat} {e : Extent} {es : List Extent} {w : Int × Bytes} (h : InExtent bs es w) :
    InExtent bs (e :: es) w := by
  obtain ⟨e', he', h1⟩ := h
  exact ⟨e', List.mem_cons_of_mem _ he', h1⟩

/-- the write loop (repaired: skip test `≤`, cumulative stop test) over a contiguous extent list that holds
    the whole transfer: every WriteAt it issues lies inside one extent of the list -/
theorem writeLoop_in_extents (bs off0 : Nat) (b : Bytes) (hbs : 0 < bs) :
    ∀ (es : List Extent) (first off written : Nat) (ws : List (Int × Bytes)),
      Contig first es →
      first * bs ≤ off → off0 ≤ off →
      ((off = off0 ∧ written = 0) ∨ (off = first * bs ∧ written < b.length)) →
      written ≤ b.length →
      off + (b.length - written) ≤ first * bs + blockCount es * bs →
      ∃ ws', writeLoop false true bs (off0 / bs) b es off written ws =
          .ok ⟨ws ++ ws', b.length, off + (b.length - written)⟩ ∧
        ∀ w ∈ ws', InExtent bs es w := by
  intro es
  induction es with
  | nil =>
    intro first off written ws _ hbase _ _ hwl henough
    simp only [blockCount, List.map_nil, List.sum_nil, Nat.zero_mul, Nat.add_zero] at henough
    have hz : b.length - written = 0 := by omega
    have hw : written = b.length := by omega
    exact ⟨[], by simp [writeLoop, hw], by simp⟩
  | cons e es ih =>
    intro first off written ws hc hbase hoff0 hdisj hwl henough
    obtain ⟨hfb, hcnt, hrest⟩ := hc
    rw [blockCount_cons] at henough
    have hdm : off0 / bs * bs ≤ off0 := Nat.div_mul_le_self off0 bs
    have hlt : off0 < (off0 / bs + 1) * bs := by
      have := Nat.lt_div_mul_add (a := off0) (b := bs) hbs
      rw [Nat.add_mul]; omega
    have hCpos : 0 < e.count * bs := Nat.mul_pos hcnt hbs
    have hFC : (first + e.count) * bs = first * bs + e.count * bs := Nat.add_mul ..
    have hSC : (e.start + e.count) * bs = e.start * bs + e.count * bs := Nat.add_mul ..
    by_cases hskip : e.fileBlock + e.count ≤ off0 / bs
    · have hle : (first + e.count) * bs ≤ off0 / bs * bs := Nat.mul_le_mul_right bs (by omega)
      have hoff : off = off0 ∧ written = 0 := by
        rcases hdisj with h | h
        · exact h
        · exfalso; omega
      have hbase' : (first + e.count) * bs ≤ off := by omega
      obtain ⟨ws', hr, hin⟩ := ih (first + e.count) off written ws hrest hbase' hoff0 (Or.inl hoff) hwl
        (by rw [hFC]; rw [Nat.add_mul] at henough; omega)
      refine ⟨ws', ?_, fun w hw => (hin w hw).cons⟩
      simp only [writeLoop, skips, hskip, decide_true]
      simpa using hr
    · have hns : off0 / bs < e.fileBlock + e.count := by omega
      have hend : off0 < (first + e.count) * bs := by
        have : (off0 / bs + 1) * bs ≤ (first + e.count) * bs := Nat.mul_le_mul_right bs (by omega)
        omega
      have hsp : off - first * bs < e.count * bs := by
        rcases hdisj with h | h <;> omega
      have h1 : e.fileBlock * bs ≤ off := by rw [hfb]; exact hbase
      have h2 : off - e.fileBlock * bs ≤ e.count * bs := by rw [hfb]; omega
      rw [writeLoop_step true bs (off0 / bs) b e es off written ws hskip h1 h2 hwl]
      simp only [hfb, if_true]
      generalize hsP : off - first * bs = sp at *
      generalize hC : e.count * bs = C at *
      have hdl : (b.drop written).length = b.length - written := by simp
      have hhere : ∀ k, k ≤ C - sp → InExtent bs (e :: es) (((e.start * bs + sp : Nat) : Int), (b.drop written).take k) := by
        intro k hk
        refine ⟨e, List.mem_cons_self .., ?_, ?_⟩
        · simp only; omega
        · have : ((b.drop written).take k).length ≤ k := by rw [List.length_take]; omega
          simp only [hSC]; omega
      by_cases hfit : b.length - written ≤ C - sp
      · have hmin : min (b.length - written) (C - sp) = b.length - written := Nat.min_eq_left hfit
        rw [hmin]
        have hge : written + (b.length - written) ≥ b.length := by omega
        simp only [hge, if_true]
        refine ⟨[(((e.start * bs + sp : Nat) : Int), (b.drop written).take (b.length - written))], ?_, ?_⟩
        · have : written + (b.length - written) = b.length := by omega
          rw [this]
        · intro w hw
          simp only [List.mem_singleton] at hw
          subst hw
          exact hhere _ hfit
      · have hfit' : C - sp < b.length - written := by omega
        have hmin : min (b.length - written) (C - sp) = C - sp := Nat.min_eq_right (by omega)
        rw [hmin]
        have hlt' : ¬ (written + (C - sp) ≥ b.length) := by omega
        simp only [hlt', if_false]
        have hoff' : off + (C - sp) = (first + e.count) * bs := by rw [hFC]; omega
        obtain ⟨ws'', hr, hin⟩ := ih (first + e.count) (off + (C - sp)) (written + (C - sp))
          (ws ++ [(((e.start * bs + sp : Nat) : Int), (b.drop written).take (C - sp))])
          hrest (by omega) (by omega) (Or.inr ⟨hoff', by omega⟩) (by omega)
          (by rw [hoff']; rw [Nat.add_mul, hC] at henough; omega)
        refine ⟨(((e.start * bs + sp : Nat) : Int), (b.drop written).take (C - sp)) :: ws'', ?_, ?_⟩
        · rw [hr]
          simp only [List.append_assoc, List.singleton_append]
          congr 2
          omega
        · intro w hw
          simp only [List.mem_cons] at hw
          rcases hw with hw | hw
          · subst hw; exact hhere _ (Nat.le_refl _)
          · exact (hin w hw).cons

/-- File.Write when the extent list already holds the transfer (what it is after allocateExtents and
    extendExtentTree have run): accepted, and every WriteAt lies inside one extent of the file -/
theorem writeE_in_extents (bs : Nat) (es : List Extent) (size off : Nat) (b : Bytes)
    (hbs : 0 < bs) (hc : Contig 0 es)
    (hsz : size ≤ blockCount es * bs) (hfit : off + b.length ≤ blockCount es * bs) :
    ∃ r, writeE false true bs es size off b = .ok r ∧ ∀ w ∈ r.ws, InExtent bs es w := by
  have hceil := (ceil_le_iff (max size (off + b.length)) bs (blockCount es) hbs).2 (by omega)
  rw [writeE_eq, if_neg (by omega)]
  obtain ⟨ws', hr, hin⟩ := writeLoop_in_extents bs off b hbs es 0 off 0 [] hc (by simp) (Nat.le_refl _)
    (Or.inl ⟨rfl, rfl⟩) (Nat.zero_le _) (by simp; omega)
  rw [hr]
  exact ⟨_, rfl, by simpa using hin⟩

end Diskfs.Ext4
