import DiskfsModel.Model.Iso.Layout
namespace Diskfs.Iso

theorem seqAlloc_inside (s : Nat) (l : List Nat) :
    ∀ e ∈ seqAlloc s l, s ≤ e.1 ∧ e.1 + e.2 ≤ s + l.sum := by
  induction l generalizing s with
  | nil => intro e h; simp [seqAlloc] at h
  | cons b bs ih =>
    intro e h
    simp only [seqAlloc, List.mem_cons] at h
    rcases h with rfl | h
    · simp only [List.sum_cons]; omega
    · have := ih (s + b) e h
      simp only [List.sum_cons]; omega

theorem seqAlloc_pairwise (s : Nat) (l : List Nat) :
    (seqAlloc s l).Pairwise (fun a b => a.1 + a.2 ≤ b.1) := by
  induction l generalizing s with
  | nil => simp [seqAlloc]
  | cons b bs ih =>
    simp only [seqAlloc, List.pairwise_cons]
    refine ⟨?_, ih (s + b)⟩
    intro e he
    exact (seqAlloc_inside (s + b) bs e he).1

theorem seqAlloc_length (s : Nat) (l : List Nat) : (seqAlloc s l).length = l.length := by
  induction l generalizing s with
  | nil => rfl
  | cons b bs ih => simp [seqAlloc, ih]

theorem blocksFor_covers (size bs : Nat) (h : 0 < bs) :
    size ≤ blocksFor size bs * bs ∧ blocksFor size bs * bs < size + bs := by
  unfold blocksFor
  have hd := Nat.div_add_mod size bs
  have hm := Nat.mod_lt size h
  split
  · rw [Nat.add_mul, Nat.one_mul, Nat.mul_comm]
    omega
  · rw [Nat.add_zero, Nat.mul_comm]
    omega

theorem placeRec_ge (bs acc r : Nat) : acc ≤ placeRec bs acc r := by
  unfold placeRec; split <;> omega

/-- a record of at most one block never straddles a block boundary where `placeRec` puts it -/
theorem placeRec_no_cross (bs acc r : Nat) (hbs : 0 < bs) (hr : 0 < r) (hrb : r ≤ bs) :
    placeRec bs acc r / bs = (placeRec bs acc r + r - 1) / bs := by
  unfold placeRec
  split
  · have hd := Nat.div_add_mod acc bs
    have hm := Nat.mod_lt acc hbs
    have e : acc + (bs - acc % bs) = bs * (acc / bs + 1) := by
      rw [Nat.mul_add, Nat.mul_one]; omega
    have key2 : ∀ q y, y < bs → (bs * q + y) / bs = q := by
      intro q y hy
      rw [Nat.mul_add_div hbs, Nat.div_eq_of_lt hy, Nat.add_zero]
    have e2 : bs * (acc / bs + 1) + r - 1 = bs * (acc / bs + 1) + (r - 1) := Nat.add_sub_assoc hr _
    rw [e, e2, key2 _ (r - 1) (by omega)]
    have := key2 (acc / bs + 1) 0 hbs
    rw [Nat.add_zero] at this
    exact this
  · rename_i hn
    have h1 : (acc + r - 1) / bs ≤ (acc + r) / bs := Nat.div_le_div_right (by omega)
    have h2 : acc / bs ≤ (acc + r - 1) / bs := Nat.div_le_div_right (by omega)
    omega

/-- every record of a directory extent lies inside one block -/
theorem dirOffsets_no_cross (bs : Nat) (hbs : 0 < bs) (rs : List Nat) (acc : Nat)
    (hr : ∀ r ∈ rs, 0 < r ∧ r ≤ bs) :
    ∀ p ∈ dirOffsets bs rs acc, p.1 / bs = (p.1 + p.2 - 1) / bs := by
  induction rs generalizing acc with
  | nil => intro p h; simp [dirOffsets] at h
  | cons r rs ih =>
    intro p h
    simp only [dirOffsets, List.mem_cons] at h
    rcases h with rfl | h
    · exact placeRec_no_cross bs acc r hbs (hr r (List.mem_cons_self ..)).1 (hr r (List.mem_cons_self ..)).2
    · exact ih _ (fun x hx => hr x (List.mem_cons_of_mem _ hx)) p h

/-- records are placed in order without overlap, and the directory size is the end of the last one -/
theorem dirOffsets_ordered (bs : Nat) (rs : List Nat) (acc : Nat) :
    (∀ p ∈ dirOffsets bs rs acc, acc ≤ p.1 ∧ p.1 + p.2 ≤ dirSize bs rs acc) ∧
    (dirOffsets bs rs acc).Pairwise (fun a b => a.1 + a.2 ≤ b.1) ∧ acc ≤ dirSize bs rs acc := by
  induction rs generalizing acc with
  | nil => simp [dirOffsets, dirSize]
  | cons r rs ih =>
    have IH := ih (placeRec bs acc r + r)
    have hg := placeRec_ge bs acc r
    simp only [dirOffsets, dirSize, List.pairwise_cons, List.mem_cons]
    refine ⟨?_, ⟨?_, IH.2.1⟩, by omega⟩
    · intro p hp
      rcases hp with rfl | hp
      · simp only; omega
      · have := IH.1 p hp; omega
    · intro p hp
      have := IH.1 p hp; omega

end Diskfs.Iso
