import DiskfsModel.Proofs.IsoSuspCE
import DiskfsModel.Proofs.IsoSL
namespace Diskfs.Iso

/-! ### one Rock Ridge record: name and link target through NM / SL entries, continuation areas included -/

def IsNM : SEnt → Prop
  | .nm .. => True
  | _ => False

def IsOther : SEnt → Prop
  | .other _ => True
  | _ => False

def IsSL : SEnt → Prop
  | .sl .. => True
  | _ => False

theorem nmEntries_each : ∀ (f : Nat) (n : Bytes), ∀ e ∈ nmEntries f n, ∃ p, parseEnt e = some p ∧ IsNM p := by
  intro f
  induction f with
  | zero => intro n e he; simp [nmEntries] at he
  | succ f ih =>
    intro n e he
    unfold nmEntries at he
    split at he
    · simp at he
    · split at he
      · simp only [List.mem_cons] at he
        rcases he with rfl | he
        · exact ⟨_, parseEnt_nmEntry true _ (by simp [nmMax]; omega), trivial⟩
        · exact ih _ e he
      · simp only [List.mem_singleton] at he
        subst he
        exact ⟨_, parseEnt_nmEntry false n (by omega), trivial⟩

theorem parseAll_each (es : List Bytes) (P : SEnt → Prop) (h : ∀ e ∈ es, ∃ p, parseEnt e = some p ∧ P p) :
    ∃ ps, parseAll es = some ps ∧ ∀ p ∈ ps, P p := by
  induction es with
  | nil => exact ⟨[], rfl, by simp⟩
  | cons x xs ih =>
    obtain ⟨p, hp, hc⟩ := h x (List.mem_cons_self ..)
    obtain ⟨ps, hps, hcs⟩ := ih (fun e he => h e (List.mem_cons_of_mem _ he))
    refine ⟨p :: ps, by simp [parseAll, hp, hps], ?_⟩
    intro q hq
    rcases List.mem_cons.1 hq with rfl | hq
    · exact hc
    · exact hcs q hq

theorem slEntries_each (uni : Bool) (t : Bytes) (hlen : ∀ c ∈ slComps uni t, c.length ≤ 248) :
    ∀ e ∈ slEntries uni t, ∃ p, parseEnt e = some p ∧ IsSL p := by
  have hc : ∀ c ∈ slComps uni t, CompOK c := by
    intro c hcm
    have := splitSlash_ok _ [] (by simp) c hcm
    exact ⟨this.1, this.2, hlen c hcm⟩
  have hitems : ∀ i ∈ slItems uni t, ItemOK i := by
    intro i hi
    simp only [slItems, List.mem_append, List.mem_map] at hi
    rcases hi with hi | ⟨c, hcm, rfl⟩
    · split at hi
      · simp only [List.mem_singleton] at hi; subst hi; trivial
      · simp at hi
    · exact hc c hcm
  intro e he
  unfold slEntries at he
  have h0 : slPack ((slItems uni t).map encItem) [] = slPack ((slItems uni t).map encItem) ((([] : List Item).map encItem).flatten) := rfl
  rw [h0, slPack_packS] at he
  obtain ⟨p, hp, rfl⟩ := List.mem_map.1 he
  have hg := packS_groups (slItems uni t) hitems [] (by simp) (by simp [encLen]) p hp
  exact ⟨_, parseEnt_slEntry p.1 p.2 hg.1 hg.2, trivial⟩

theorem getFilename_skip (pre : List SEnt) (hp : ∀ p ∈ pre, IsOther p) (rest : List SEnt) :
    getFilename (pre ++ rest) = getFilename rest := by
  induction pre with
  | nil => rfl
  | cons p r ih =>
    have := hp p (List.mem_cons_self ..)
    cases p <;> simp only [IsOther] at this
    simp only [List.cons_append, getFilename]
    exact ih (fun q hq => hp q (List.mem_cons_of_mem _ hq))

theorem readLinkGo_skip (pre : List SEnt) (hp : ∀ p ∈ pre, IsOther p ∨ IsNM p) (rest : List SEnt) (t : Bytes) (s : Bool) :
    readLinkGo (pre ++ rest) t s = readLinkGo rest t s := by
  induction pre with
  | nil => rfl
  | cons p r ih =>
    have := hp p (List.mem_cons_self ..)
    have ih' := ih (fun q hq => hp q (List.mem_cons_of_mem _ hq))
    cases p <;> simp only [IsOther, IsNM, or_self, or_false, false_or] at this <;> simp only [List.cons_append, readLinkGo, ih']

/-- **a Rock Ridge record keeps its name and its link target.**  Take the extensions in the order
    `GetFileExtensions` makes them: any entries the reader keeps by signature (`pre`: PX, TF, ...), the NM
    entries of ANY non-empty name, the SL entries of ANY target whose components are at most 248 bytes;
    let `dirEntryExtensionsToBytes` (as found or repaired) spread them over the record's area and
    continuation areas, and let the device return each area at the block its CE entry names.  Then the
    loop of `parseDirEntry` returns entries from which `GetFilename` gives exactly the name and
    `ReadLink` exactly the target the component records spell (the target itself in normal form). -/
theorem rr_record (res uni : Bool) (bs : Nat) (rd : Nat → Nat → Nat → Bytes) (fuel : Nat) (pre : List (List Bytes))
    (name t : Bytes) (maxSize : Nat) (ce : List Nat) (a : Bytes) (more : List Bytes)
    (hpre : ∀ r ∈ pre, ∀ e ∈ r, EntOK e ∧ ∃ p, parseEnt e = some p ∧ IsOther p)
    (hn : name ≠ []) (hlen : ∀ c ∈ slComps uni t, c.length ≤ 248) (hce : ∀ c ∈ ce, c < 2 ^ 32)
    (h : assemble res bs fuel ((pre ++ [nmEntries name.length name, slEntries uni t]).map List.flatten) maxSize ce = some (a :: more))
    (hl : ∀ x ∈ more, x.length < 2 ^ 32) (hrd : RdOK rd ce more) (hm : more.length ≤ maxAreas) :
    ∃ ps, readSusp rd a = some ps ∧ getFilename ps = some name ∧ readLink ps = some (slRender (slItems uni t) []) := by
  have hsl := sl_target_roundtrip uni t hlen
  have hslE := slEntries_each uni t hlen
  have hnmE := nmEntries_each name.length name
  have hraw : RawOK (pre ++ [nmEntries name.length name, slEntries uni t]) := by
    intro r hr e he
    simp only [List.mem_append, List.mem_cons, List.not_mem_nil, or_false] at hr
    rcases hr with hr | rfl | rfl
    · obtain ⟨hok, p, hp, ho⟩ := hpre r hr e he
      refine ⟨hok, p, hp, ?_⟩
      cases p <;> simp only [IsOther] at ho
      rfl
    · obtain ⟨p, hp, ho⟩ := hnmE e he
      refine ⟨nmEntries_ok _ _ e he, p, hp, ?_⟩
      cases p <;> simp only [IsNM] at ho
      rfl
    · obtain ⟨p, hp, ho⟩ := hslE e he
      refine ⟨hsl.1 e he, p, hp, ?_⟩
      cases p <;> simp only [IsSL] at ho
      rfl
  obtain ⟨ps, hps, hread⟩ := readSusp_assemble res bs rd fuel _ maxSize ce a more hraw hce h hl hrd hm
  refine ⟨ps, hread, ?_⟩
  -- what the entries parse to, part by part
  obtain ⟨pp, hpp, hpo⟩ := parseAll_each pre.flatten IsOther (by
    intro e he
    obtain ⟨r, hr, her⟩ := List.mem_flatten.1 he
    exact (hpre r hr e her).2)
  obtain ⟨np, hnp, hget⟩ := getFilename_nmEntries name.length name hn (Nat.le_refl _)
  obtain ⟨np', hnp', hnm⟩ := parseAll_each _ IsNM hnmE
  have hnpe : np' = np := by rw [hnp] at hnp'; exact (Option.some.inj hnp').symm
  subst hnpe
  obtain ⟨sp, hsp, hlink⟩ := hsl.2
  have hflat : (pre ++ [nmEntries name.length name, slEntries uni t]).flatten =
      pre.flatten ++ (nmEntries name.length name ++ slEntries uni t) := by simp
  rw [hflat, parseAll_append, hpp, parseAll_append, hnp, hsp] at hps
  simp only [Option.some.injEq] at hps
  subst hps
  refine ⟨?_, ?_⟩
  · rw [getFilename_skip pp hpo]
    exact hget sp
  · unfold readLink
    rw [readLinkGo_skip pp (fun p hp => Or.inl (hpo p hp)), readLinkGo_skip np' (fun p hp => Or.inr (hnm p hp))]
    exact hlink

/-- the same for an entry that is no symlink: PX, TF, ... and the NM entries of the name only -/
theorem rr_record_name (res : Bool) (bs : Nat) (rd : Nat → Nat → Nat → Bytes) (fuel : Nat) (pre : List (List Bytes))
    (name : Bytes) (maxSize : Nat) (ce : List Nat) (a : Bytes) (more : List Bytes)
    (hpre : ∀ r ∈ pre, ∀ e ∈ r, EntOK e ∧ ∃ p, parseEnt e = some p ∧ IsOther p)
    (hn : name ≠ []) (hce : ∀ c ∈ ce, c < 2 ^ 32)
    (h : assemble res bs fuel ((pre ++ [nmEntries name.length name]).map List.flatten) maxSize ce = some (a :: more))
    (hl : ∀ x ∈ more, x.length < 2 ^ 32) (hrd : RdOK rd ce more) (hm : more.length ≤ maxAreas) :
    ∃ ps, readSusp rd a = some ps ∧ getFilename ps = some name ∧ readLink ps = none := by
  have hnmE := nmEntries_each name.length name
  have hraw : RawOK (pre ++ [nmEntries name.length name]) := by
    intro r hr e he
    simp only [List.mem_append, List.mem_cons, List.not_mem_nil, or_false] at hr
    rcases hr with hr | rfl
    · obtain ⟨hok, p, hp, ho⟩ := hpre r hr e he
      refine ⟨hok, p, hp, ?_⟩
      cases p <;> simp only [IsOther] at ho
      rfl
    · obtain ⟨p, hp, ho⟩ := hnmE e he
      refine ⟨nmEntries_ok _ _ e he, p, hp, ?_⟩
      cases p <;> simp only [IsNM] at ho
      rfl
  obtain ⟨ps, hps, hread⟩ := readSusp_assemble res bs rd fuel _ maxSize ce a more hraw hce h hl hrd hm
  refine ⟨ps, hread, ?_⟩
  obtain ⟨pp, hpp, hpo⟩ := parseAll_each pre.flatten IsOther (by
    intro e he
    obtain ⟨r, hr, her⟩ := List.mem_flatten.1 he
    exact (hpre r hr e her).2)
  obtain ⟨np, hnp, hget⟩ := getFilename_nmEntries name.length name hn (Nat.le_refl _)
  obtain ⟨np', hnp', hnm⟩ := parseAll_each _ IsNM hnmE
  have hnpe : np' = np := by rw [hnp] at hnp'; exact (Option.some.inj hnp').symm
  subst hnpe
  have hflat : (pre ++ [nmEntries name.length name]).flatten = pre.flatten ++ nmEntries name.length name := by simp
  rw [hflat, parseAll_append, hpp, hnp] at hps
  simp only [Option.some.injEq] at hps
  subst hps
  refine ⟨?_, ?_⟩
  · rw [getFilename_skip pp hpo]
    simpa using hget []
  · unfold readLink
    have := readLinkGo_skip (pp ++ np') (by
      intro p hp
      rcases List.mem_append.1 hp with hp | hp
      · exact Or.inl (hpo p hp)
      · exact Or.inr (hnm p hp)) [] [] false
    simp only [List.append_nil] at this
    rw [this]
    rfl

end Diskfs.Iso
