/-
  HISTORICAL / AS-FOUND geometry lemmas.  Not imported by any Props file.
  These are about `mkGeom32` (the FAT32 sectors-per-FAT formula before fix 911b8cc) and about the
  FAT12 windows that `Create` refused / accepted before fix 15916a3; they case-split over the rows
  of today's tables (`lookup12/16/32` hard-code the thresholds), which is why the property
  theorems no longer depend on them: those are in Proofs/FatGeomP*.lean (parametric in the tables)
  and Proofs/FatGeomGen.lean (instantiated by `decide`).
-/
import DiskfsModel.Proofs.FatGeomGen
namespace Diskfs.Fat
set_option linter.unusedSimpArgs false

/-! ### cluster-size table lookups as case splits over the rows -/

theorem lookup16 (size : Nat) :
    (size < 33554433 ∧ sizeTableLookup Generated.Fat.fat16_spc_table size = 2) ∨
    (33554433 ≤ size ∧ size < 134217729 ∧ sizeTableLookup Generated.Fat.fat16_spc_table size = 4) ∨
    (134217729 ≤ size ∧ size < 268435457 ∧ sizeTableLookup Generated.Fat.fat16_spc_table size = 8) ∨
    (268435457 ≤ size ∧ size < 536870913 ∧ sizeTableLookup Generated.Fat.fat16_spc_table size = 16) ∨
    (536870913 ≤ size ∧ size < 1073741825 ∧ sizeTableLookup Generated.Fat.fat16_spc_table size = 32) ∨
    (1073741825 ≤ size ∧ sizeTableLookup Generated.Fat.fat16_spc_table size = 64) := by
  by_cases h1 : size < 33554433
  · simp [sizeTableLookup, Generated.Fat.fat16_spc_table, List.find?, h1]
  by_cases h2 : size < 134217729
  · simp [sizeTableLookup, Generated.Fat.fat16_spc_table, List.find?, h1, h2]; omega
  by_cases h3 : size < 268435457
  · simp [sizeTableLookup, Generated.Fat.fat16_spc_table, List.find?, h1, h2, h3]; omega
  by_cases h4 : size < 536870913
  · simp [sizeTableLookup, Generated.Fat.fat16_spc_table, List.find?, h1, h2, h3, h4]; omega
  by_cases h5 : size < 1073741825
  · simp [sizeTableLookup, Generated.Fat.fat16_spc_table, List.find?, h1, h2, h3, h4, h5]; omega
  · simp [sizeTableLookup, Generated.Fat.fat16_spc_table, List.find?, h1, h2, h3, h4, h5]; omega


/-! ### FAT12 -/

theorem lookup12 (size : Nat) :
    (size < 2097153 ∧ sizeTableLookup Generated.Fat.fat12_spc_table size = 1) ∨
    (2097153 ≤ size ∧ size < 4194305 ∧ sizeTableLookup Generated.Fat.fat12_spc_table size = 2) ∨
    (4194305 ≤ size ∧ size < 8388608 ∧ sizeTableLookup Generated.Fat.fat12_spc_table size = 4) ∨
    (8388608 ≤ size ∧ size < 16777217 ∧ sizeTableLookup Generated.Fat.fat12_spc_table size = 8) ∨
    (16777217 ≤ size ∧ size < 33554433 ∧ sizeTableLookup Generated.Fat.fat12_spc_table size = 16) ∨
    (33554433 ≤ size ∧ size < 67108865 ∧ sizeTableLookup Generated.Fat.fat12_spc_table size = 32) ∨
    (67108865 ≤ size ∧ sizeTableLookup Generated.Fat.fat12_spc_table size = 64) := by
  by_cases h1 : size < 2097153
  · simp [sizeTableLookup, Generated.Fat.fat12_spc_table, List.find?, h1]
  by_cases h2 : size < 4194305
  · simp [sizeTableLookup, Generated.Fat.fat12_spc_table, List.find?, h1, h2]; omega
  by_cases h3 : size < 8388608
  · simp [sizeTableLookup, Generated.Fat.fat12_spc_table, List.find?, h1, h2, h3]; omega
  by_cases h4 : size < 16777217
  · simp [sizeTableLookup, Generated.Fat.fat12_spc_table, List.find?, h1, h2, h3, h4]; omega
  by_cases h5 : size < 33554433
  · simp [sizeTableLookup, Generated.Fat.fat12_spc_table, List.find?, h1, h2, h3, h4, h5]; omega
  by_cases h6 : size < 67108865
  · simp [sizeTableLookup, Generated.Fat.fat12_spc_table, List.find?, h1, h2, h3, h4, h5, h6]; omega
  · simp [sizeTableLookup, Generated.Fat.fat12_spc_table, List.find?, h1, h2, h3, h4, h5, h6]; omega

/-- below 5120 bytes FAT12 Create always fails (the uint32 data-sector count wraps and the
    cluster-count check rejects it) -/
theorem mkGeom12_tiny_none (size : Nat) (hs : size < 5120) :
    mkGeom12 Generated.Fat.fat12_spc_table size = none := by
  unfold mkGeom12
  by_cases h1 : size > 128 * MB
  · rw [if_pos h1]
  rw [if_neg h1]
  by_cases h2 : size < 512 * 4
  · rw [if_pos h2]
  rw [if_neg h2]
  have hk : size ≤ 512 * KB := by simp only [KB]; omega
  have hl : sizeTableLookup Generated.Fat.fat12_spc_table size = 1 := by
    rcases lookup12 size with ⟨_, hl⟩ | ⟨_, _, _⟩ | ⟨_, _, _⟩ | ⟨_, _, _⟩ | ⟨_, _, _⟩ | ⟨_, _, _⟩ | ⟨_, _⟩ <;>
      first | exact hl | omega
  simp only [if_pos hk, hl]
  rw [if_pos]
  have hT1 : 4 ≤ size / 512 := by omega
  have hT2 : size / 512 ≤ 9 := by omega
  generalize size / 512 = ts at *
  by_cases h7 : ts ≤ 7
  · have hs := u16_lt (sub32 (u32 (u32 (u32 ((sub32 (sub32 (u32 ts) 1) ((112 * 32 + 511) / 512) / u8 1 + 2) * 3) / 2 + 1) + 512)) 1 / 512)
    generalize u16 (sub32 (u32 (u32 (u32 ((sub32 (sub32 (u32 ts) 1) ((112 * 32 + 511) / 512) / u8 1 + 2) * 3) / 2 + 1) + 512)) 1 / 512) = s at *
    simp only [u8, u32, sub32, Nat.reduceMod, Nat.reduceMul, Nat.reduceAdd, Nat.reduceDiv]
    omega
  · have h89 : ts = 8 ∨ ts = 9 := by omega
    rcases h89 with rfl | rfl <;> decide

/-- `mkGeom12` as it was before "fat12.Create refuses a size that leaves no data cluster" -/
def mkGeom12NoZeroCheck (tbl : List (Nat × Nat)) (size : Nat) : Option Geom :=
  if size > 128 * MB then none
  else if size < 512 * 4 then none
  else
    let ts := u32 (size / 512)
    let spc := u8 (sizeTableLookup tbl size)
    let rootEntries := if size ≤ 512 * KB then 112 else 224
    let rds := (rootEntries * 32 + 511) / 512
    let ds := sub32 (sub32 ts 1) rds
    let nc := ds / spc
    let spf := u16 (sub32 (u32 (u32 (u32 ((nc + 2) * 3) / 2 + 1) + 512)) 1 / 512)
    let ds2 := sub32 (sub32 (sub32 ts 1) rds) (u32 (2 * spf))
    let nc2 := ds2 / spc
    if nc2 ≥ 4085 then none
    else some ⟨.f12, 512, spc, 1, spf, rootEntries, ts⟩

/-- historical: without the zero-cluster check, 5120 bytes (10 sectors) gave a volume with no data cluster -/
theorem cex_mkGeom12_tiny :
    (mkGeom12NoZeroCheck Generated.Fat.fat12_spc_table 5120).map Geom.clusters = some 0 := by decide

/-- the 10-sector window 5120 ≤ size < 5632 is now refused -/
theorem mkGeom12_window_refused (size : Nat) (h1 : 5120 ≤ size) (h2 : size < 5632) :
    mkGeom12 Generated.Fat.fat12_spc_table size = none := by
  have hk : size ≤ 512 * KB := by simp only [KB]; omega
  have hl : sizeTableLookup Generated.Fat.fat12_spc_table size = 1 := by
    rcases lookup12 size with ⟨_, hl⟩ | ⟨_, _, _⟩ | ⟨_, _, _⟩ | ⟨_, _, _⟩ | ⟨_, _, _⟩ | ⟨_, _, _⟩ | ⟨_, _⟩ <;>
      first | exact hl | omega
  have hts : size / 512 = 10 := by omega
  unfold mkGeom12
  rw [if_neg (by simp only [MB]; omega), if_neg (by omega)]
  simp only [hl, hts, if_pos hk]
  decide

/-! ### FAT32 -/

theorem lookup32 (size : Nat) :
    (size < 272629761 ∧ sizeTableLookup Generated.Fat.fat32_clusterBytes_table size = 512) ∨
    (272629761 ≤ size ∧ size < 8589934593 ∧ sizeTableLookup Generated.Fat.fat32_clusterBytes_table size = 4096) ∨
    (8589934593 ≤ size ∧ size < 17179869185 ∧ sizeTableLookup Generated.Fat.fat32_clusterBytes_table size = 8192) ∨
    (17179869185 ≤ size ∧ size < 34359738369 ∧ sizeTableLookup Generated.Fat.fat32_clusterBytes_table size = 16384) ∨
    (34359738369 ≤ size ∧ sizeTableLookup Generated.Fat.fat32_clusterBytes_table size = 32768) := by
  by_cases h1 : size < 272629761
  · simp [sizeTableLookup, Generated.Fat.fat32_clusterBytes_table, List.find?, h1]
  by_cases h2 : size < 8589934593
  · simp [sizeTableLookup, Generated.Fat.fat32_clusterBytes_table, List.find?, h1, h2]; omega
  by_cases h3 : size < 17179869185
  · simp [sizeTableLookup, Generated.Fat.fat32_clusterBytes_table, List.find?, h1, h2, h3]; omega
  by_cases h4 : size < 34359738369
  · simp [sizeTableLookup, Generated.Fat.fat32_clusterBytes_table, List.find?, h1, h2, h3, h4]; omega
  · simp [sizeTableLookup, Generated.Fat.fat32_clusterBytes_table, List.find?, h1, h2, h3, h4]; omega

theorem spf32_eq (d x : Nat) (hd : 0 < d) (hd2 : d ≤ 40000) (hx : x ≤ 536993790)
    (hlt : 4 * x + d - 1 < 65536 * d) :
    u16 (sub32 (u32 (u32 (4 * x) + d)) 1 / d) = (4 * x + d - 1) / d := by
  rw [u32_of_lt (x := 4 * x) (by omega), u32_of_lt (x := 4 * x + d) (by omega),
    sub32_of_le (by omega) (by omega), u16_of_lt]
  exact (Nat.div_lt_iff_lt_mul hd).mpr hlt

set_option hygiene false in
macro "geom32_block" B:num : tactic => `(tactic| (
  have hT0 : size / $B < 4294967296 := by omega
  rw [u32_of_lt hT0] at c1 c2 c3 ⊢
  have hT1 : $B * (size / $B) ≤ size := by omega
  have hT2 : size < $B * (size / $B) + $B := by omega
  have hT3 : 32 ≤ size / $B := by omega
  generalize size / $B = ts at *
  rcases lookup32 size with ⟨hr2, hl⟩ | ⟨hr1, hr2, hl⟩ | ⟨hr1, hr2, hl⟩ | ⟨hr1, hr2, hl⟩ | ⟨hr1, hl⟩ <;>
  ( rw [hl] at c1 c2 c3 ⊢
    simp only [u8, Nat.reduceDiv, Nat.reduceMod, Nat.reduceEqDiff, ↓reduceIte] at c1 c2 c3 ⊢
    generalize hd : u32 (u32 _ * _ + 8) = d at c1 c2 c3 ⊢
    simp only [u32, Nat.reduceMod, Nat.reduceMul, Nat.reduceAdd] at hd
    rw [sub32_of_le hT3 (by omega)] at c1 c2 c3 ⊢
    rw [spf32_eq d (ts - 32) (by omega) (by omega) (by omega) (by omega)] at c1 c2 c3 ⊢
    subst hd
    simp only [u32] at c2
    simp only [KB] at c3
    refine ⟨?_, ?_, ?_, ?_, ?_, ?_, ?_⟩ <;>
      (try simp only [Geom.rootSectors, Geom.dataSectors, Geom.clusters, Geom.fatEntries, Geom.dataStart]) <;>
      first | trivial | omega )))

theorem mkGeom32_wf_weak (size bs : Nat) (g : Geom)
    (hmax : size ≤ 274940837375 ∨ bs = 4096)
    (h : mkGeom32 Generated.Fat.fat32_clusterBytes_table size bs = some g) :
    g.totalSectors * g.bps ≤ size ∧ size < g.totalSectors * g.bps + g.bps ∧
    g.reserved + 2 * g.fatSectors + g.rootSectors < g.totalSectors ∧
    0 < g.clusters ∧ g.clusters ≤ g.fatEntries ∧
    g.dataStart + g.clusters * g.spc * g.bps ≤ size ∧ g.kind = .f32 := by
  unfold mkGeom32 at h
  simp only [ite_none_eq_some, Option.some.injEq] at h
  obtain ⟨hbs, hhi, hlo, c1, c2, c3, rfl⟩ := h
  simp only [fat32MaxSize] at hhi
  have hb : ∃ b, (if bs = 0 then 512 else bs) = b ∧ ((b = 512 ∧ bs ≠ 4096) ∨ (b = 4096 ∧ bs = 4096)) := by
    by_cases h0 : bs = 0
    · exact ⟨512, if_pos h0, Or.inl ⟨rfl, by omega⟩⟩
    · refine ⟨bs, if_neg h0, ?_⟩; omega
  obtain ⟨b, hb, hb'⟩ := hb
  rw [hb] at hlo c1 c2 c3 ⊢
  rcases hb' with ⟨rfl, hne⟩ | ⟨rfl, rfl⟩
  · geom32_block 512
  · geom32_block 4096

/-- FINDING. The intended statement
      `size ≤ 256 * GB → mkGeom32 … size bs = some g → g.WF size ∧ g.kind = .f32`
    is FALSE: `sectorsPerFat = ⌈4·(ts−32) / (bs·spc+8)⌉` gives every data cluster a FAT entry but
    forgets the two reserved entries, so `fat_holds` (clusters + 2 ≤ fatEntries) fails for ordinary
    sizes (see `cex_mkGeom32_fat_short*` below).  With that one field assumed the rest holds, and
    `mkGeom32_wf_weak` above shows that unconditionally `clusters ≤ fatEntries`.
    The size bound is exact for 512-byte sectors (`cex_mkGeom32_bound_tight`); with 4096-byte sectors
    the uint16 never wraps below `fat32MaxSize`. -/
theorem mkGeom32_wf (size bs : Nat) (g : Geom)
    (hmax : size ≤ 274940837375 ∨ bs = 4096)
    (h : mkGeom32 Generated.Fat.fat32_clusterBytes_table size bs = some g)
    (hfat : g.clusters + 2 ≤ g.fatEntries) :
    g.WF size ∧ g.kind = .f32 := by
  obtain ⟨h1, h2, h3, h4, _, h6, h7⟩ := mkGeom32_wf_weak size bs g hmax h
  exact ⟨⟨h1, h2, h3, h4, hfat, h6⟩, h7⟩

/-- the statement with the bound as asked (256 GiB < 274940837375) -/
theorem mkGeom32_wf_256 (size bs : Nat) (g : Geom) (hmax : size ≤ 256 * GB)
    (h : mkGeom32 Generated.Fat.fat32_clusterBytes_table size bs = some g)
    (hfat : g.clusters + 2 ≤ g.fatEntries) :
    g.WF size ∧ g.kind = .f32 :=
  mkGeom32_wf size bs g (Or.inl (by simp only [GB] at hmax; omega)) h hfat

/-- the bound in `mkGeom32_wf` is the exact one: one byte more and `sectorsPerFat` wraps to 0 -/
theorem cex_mkGeom32_bound_tight :
    (mkGeom32 Generated.Fat.fat32_clusterBytes_table 274940837376 512).map
      (fun g => (g.fatSectors, decide (g.fatEntries < g.clusters + 2))) = some (0, true) := by decide


end Diskfs.Fat
