import DiskfsModel.Model.Fat.Geom
import DiskfsModel.Generated.Fat
namespace Diskfs.Fat
set_option linter.unusedSimpArgs false

/-! ### cluster-size table lookups as case splits over the rows -/

theorem lookup16 (size : Nat) :
    (size < 33554433 ∧ sizeTableLookup Generated.Fat.fat16_spc_table size = 2) ∨
    (33554433 ≤ size ∧ size < 134217729 ∧ sizeTableLookup Generated.Fat.fat16_spc_table size = 4) ∨
    (134217729 ≤ size ∧ size < 268435457 ∧ sizeTableLookup Generated.Fat.fat16_spc_table size = 8) ∨
    (268435457 ≤ size ∧ size < 536870913 ∧ sizeTableLookup Generated.Fat.fat16_spc_table size = 16) ∨
    (536870913 ≤ size ∧ size < 1073741825 ∧ sizeTableLookup Generated.Fat.fat16_spc_table size = 32) ∨
    (1073741825 ≤ size ∧ sizeTableLookup Generated.Fat.fat16_spc_table size = 64) := by
  by_cases h1 : size < 33554433
  · simp [sizeTableLookup, Generated.Fat.fat16_spc_table, List.find?, h1]
  by_cases h2 : size < 134217729
  · simp [sizeTableLookup, Generated.Fat.fat16_spc_table, List.find?, h1, h2]; omega
  by_cases h3 : size < 268435457
  · simp [sizeTableLookup, Generated.Fat.fat16_spc_table, List.find?, h1, h2, h3]; omega
  by_cases h4 : size < 536870913
  · simp [sizeTableLookup, Generated.Fat.fat16_spc_table, List.find?, h1, h2, h3, h4]; omega
  by_cases h5 : size < 1073741825
  · simp [sizeTableLookup, Generated.Fat.fat16_spc_table, List.find?, h1, h2, h3, h4, h5]; omega
  · simp [sizeTableLookup, Generated.Fat.fat16_spc_table, List.find?, h1, h2, h3, h4, h5]; omega


theorem u32_of_lt {x : Nat} (h : x < 4294967296) : u32 x = x := by
  unfold u32; exact Nat.mod_eq_of_lt h
theorem u16_of_lt {x : Nat} (h : x < 65536) : u16 x = x := by
  unfold u16; exact Nat.mod_eq_of_lt h
theorem sub32_of_le {a b : Nat} (hb : b ≤ a) (ha : a < 4294967296) : sub32 a b = a - b := by
  unfold sub32; omega

theorem ite_none_eq_some {α : Type} {c : Prop} [Decidable c] {x : Option α} {g : α} :
    (if c then none else x) = some g ↔ ¬ c ∧ x = some g := by
  split <;> simp [*]

theorem u16_lt (x : Nat) : u16 x < 65536 := by unfold u16; omega

theorem mkGeom16_wf (size : Nat) (g : Geom)
    (h : mkGeom16 Generated.Fat.fat16_spc_table size = some g) :
    g.WF size ∧ g.kind = .f16 ∧ 4085 ≤ g.clusters ∧ g.clusters < 65525 := by
  unfold mkGeom16 at h
  have hrds : (512 * 32 + 511) / 512 = 32 := by decide
  simp only [hrds, GB, ite_none_eq_some, Option.some.injEq] at h
  obtain ⟨hhi, hlo, c1, c2, rfl⟩ := h
  have hts : u32 (size / 512) = size / 512 := u32_of_lt (by omega)
  rw [hts] at c1 c2 ⊢
  have hT1 : 512 * (size / 512) ≤ size := by omega
  have hT2 : size < 512 * (size / 512) + 512 := by omega
  have hT3 : 8 ≤ size / 512 := by omega
  have hT4 : size / 512 ≤ 4194304 := by omega
  generalize size / 512 = ts at *
  rcases lookup16 size with ⟨hb, hl⟩ | ⟨ha, hb, hl⟩ | ⟨ha, hb, hl⟩ | ⟨ha, hb, hl⟩ | ⟨ha, hb, hl⟩ | ⟨ha, hl⟩ <;>
  ( rw [hl] at c1 c2 ⊢
    simp only [u8, Nat.reduceMod] at c1 c2 ⊢
    by_cases h36 : ts < 36
    · exfalso
      have hs := u16_lt (sub32 (u32 (u32 ((sub32 (sub32 ts 4) 32 / 2 + 2) * 2) + 512)) 1 / 512)
      generalize u16 (sub32 (u32 (u32 ((sub32 (sub32 ts 4) 32 / 2 + 2) * 2) + 512)) 1 / 512) = s at *
      simp only [u32, sub32] at c1
      omega
    · have e1 : sub32 (sub32 ts 4) 32 = ts - 36 := by simp only [sub32]; omega
      rw [e1] at c1 c2 ⊢
      have e2 : ∀ nc, nc ≤ 4194304 →
          u16 (sub32 (u32 (u32 ((nc + 2) * 2) + 512)) 1 / 512) = (nc * 2 + 515) / 512 := by
        intro nc hnc
        simp only [u16, u32, sub32]; omega
      rw [e2 _ (by omega)] at c1 c2 ⊢
      have hspf : (ts - 36) / 512 ≤ ((ts - 36) / 2 * 2 + 515) / 512 := by omega
      generalize hS : ((ts - 36) / _ * 2 + 515) / 512 = spf at *
      have hspf1 : 1 ≤ spf := by omega
      have hspf2 : spf ≤ 8193 := by omega
      have e3 : u32 (2 * spf) = 2 * spf := u32_of_lt (by omega)
      rw [e3] at c1 c2
      by_cases hw : 2 * spf ≤ ts - 36
      · have e4 : sub32 (ts - 36) (2 * spf) = ts - 36 - 2 * spf := by simp only [sub32]; omega
        rw [e4] at c1 c2
        refine ⟨⟨?_, ?_, ?_, ?_, ?_, ?_⟩, ?_, ?_, ?_⟩ <;>
          simp only [Geom.rootSectors, Geom.dataSectors, Geom.clusters, Geom.fatEntries, Geom.dataStart] <;> omega
      · exfalso
        simp only [sub32] at c1
        omega )


/-! ### FAT12 -/

theorem lookup12 (size : Nat) :
    (size < 2097153 ∧ sizeTableLookup Generated.Fat.fat12_spc_table size = 1) ∨
    (2097153 ≤ size ∧ size < 4194305 ∧ sizeTableLookup Generated.Fat.fat12_spc_table size = 2) ∨
    (4194305 ≤ size ∧ size < 8388608 ∧ sizeTableLookup Generated.Fat.fat12_spc_table size = 4) ∨
    (8388608 ≤ size ∧ size < 16777217 ∧ sizeTableLookup Generated.Fat.fat12_spc_table size = 8) ∨
    (16777217 ≤ size ∧ size < 33554433 ∧ sizeTableLookup Generated.Fat.fat12_spc_table size = 16) ∨
    (33554433 ≤ size ∧ size < 67108865 ∧ sizeTableLookup Generated.Fat.fat12_spc_table size = 32) ∨
    (67108865 ≤ size ∧ sizeTableLookup Generated.Fat.fat12_spc_table size = 64) := by
  by_cases h1 : size < 2097153
  · simp [sizeTableLookup, Generated.Fat.fat12_spc_table, List.find?, h1]
  by_cases h2 : size < 4194305
  · simp [sizeTableLookup, Generated.Fat.fat12_spc_table, List.find?, h1, h2]; omega
  by_cases h3 : size < 8388608
  · simp [sizeTableLookup, Generated.Fat.fat12_spc_table, List.find?, h1, h2, h3]; omega
  by_cases h4 : size < 16777217
  · simp [sizeTableLookup, Generated.Fat.fat12_spc_table, List.find?, h1, h2, h3, h4]; omega
  by_cases h5 : size < 33554433
  · simp [sizeTableLookup, Generated.Fat.fat12_spc_table, List.find?, h1, h2, h3, h4, h5]; omega
  by_cases h6 : size < 67108865
  · simp [sizeTableLookup, Generated.Fat.fat12_spc_table, List.find?, h1, h2, h3, h4, h5, h6]; omega
  · simp [sizeTableLookup, Generated.Fat.fat12_spc_table, List.find?, h1, h2, h3, h4, h5, h6]; omega

/-- below 5120 bytes FAT12 Create always fails (the uint32 data-sector count wraps and the
    cluster-count check rejects it) -/
theorem mkGeom12_tiny_none (size : Nat) (hs : size < 5120) :
    mkGeom12 Generated.Fat.fat12_spc_table size = none := by
  unfold mkGeom12
  by_cases h1 : size > 128 * MB
  · rw [if_pos h1]
  rw [if_neg h1]
  by_cases h2 : size < 512 * 4
  · rw [if_pos h2]
  rw [if_neg h2]
  have hk : size ≤ 512 * KB := by simp only [KB]; omega
  have hl : sizeTableLookup Generated.Fat.fat12_spc_table size = 1 := by
    rcases lookup12 size with ⟨_, hl⟩ | ⟨_, _, _⟩ | ⟨_, _, _⟩ | ⟨_, _, _⟩ | ⟨_, _, _⟩ | ⟨_, _, _⟩ | ⟨_, _⟩ <;>
      first | exact hl | omega
  simp only [if_pos hk, hl]
  rw [if_pos]
  have hT1 : 4 ≤ size / 512 := by omega
  have hT2 : size / 512 ≤ 9 := by omega
  generalize size / 512 = ts at *
  by_cases h7 : ts ≤ 7
  · have hs := u16_lt (sub32 (u32 (u32 (u32 ((sub32 (sub32 (u32 ts) 1) ((112 * 32 + 511) / 512) / u8 1 + 2) * 3) / 2 + 1) + 512)) 1 / 512)
    generalize u16 (sub32 (u32 (u32 (u32 ((sub32 (sub32 (u32 ts) 1) ((112 * 32 + 511) / 512) / u8 1 + 2) * 3) / 2 + 1) + 512)) 1 / 512) = s at *
    simp only [u8, u32, sub32, Nat.reduceMod, Nat.reduceMul, Nat.reduceAdd, Nat.reduceDiv]
    omega
  · have h89 : ts = 8 ∨ ts = 9 := by omega
    rcases h89 with rfl | rfl <;> decide

/-- `mkGeom12` as it was before "fat12.Create refuses a size that leaves no data cluster" -/
def mkGeom12NoZeroCheck (tbl : List (Nat × Nat)) (size : Nat) : Option Geom :=
  if size > 128 * MB then none
  else if size < 512 * 4 then none
  else
    let ts := u32 (size / 512)
    let spc := u8 (sizeTableLookup tbl size)
    let rootEntries := if size ≤ 512 * KB then 112 else 224
    let rds := (rootEntries * 32 + 511) / 512
    let ds := sub32 (sub32 ts 1) rds
    let nc := ds / spc
    let spf := u16 (sub32 (u32 (u32 (u32 ((nc + 2) * 3) / 2 + 1) + 512)) 1 / 512)
    let ds2 := sub32 (sub32 (sub32 ts 1) rds) (u32 (2 * spf))
    let nc2 := ds2 / spc
    if nc2 ≥ 4085 then none
    else some ⟨.f12, 512, spc, 1, spf, rootEntries, ts⟩

/-- historical: without the zero-cluster check, 5120 bytes (10 sectors) gave a volume with no data cluster -/
theorem cex_mkGeom12_tiny :
    (mkGeom12NoZeroCheck Generated.Fat.fat12_spc_table 5120).map Geom.clusters = some 0 := by decide

/-- the 10-sector window 5120 ≤ size < 5632 is now refused -/
theorem mkGeom12_window_refused (size : Nat) (h1 : 5120 ≤ size) (h2 : size < 5632) :
    mkGeom12 Generated.Fat.fat12_spc_table size = none := by
  have hk : size ≤ 512 * KB := by simp only [KB]; omega
  have hl : sizeTableLookup Generated.Fat.fat12_spc_table size = 1 := by
    rcases lookup12 size with ⟨_, hl⟩ | ⟨_, _, _⟩ | ⟨_, _, _⟩ | ⟨_, _, _⟩ | ⟨_, _, _⟩ | ⟨_, _, _⟩ | ⟨_, _⟩ <;>
      first | exact hl | omega
  have hts : size / 512 = 10 := by omega
  unfold mkGeom12
  rw [if_neg (by simp only [MB]; omega), if_neg (by omega)]
  simp only [hl, hts, if_pos hk]
  decide

theorem mkGeom12_wf_of_ge (size : Nat) (g : Geom) (hmin : 5632 ≤ size)
    (h : mkGeom12 Generated.Fat.fat12_spc_table size = some g) :
    g.WF size ∧ g.kind = .f12 ∧ g.clusters < 4085 := by
  unfold mkGeom12 at h
  simp only [ite_none_eq_some, Option.some.injEq] at h
  obtain ⟨hhi, hlo, c1, -, rfl⟩ := h
  simp only [MB] at hhi
  have hts : u32 (size / 512) = size / 512 := u32_of_lt (by omega)
  rw [hts] at c1 ⊢
  have hT1 : 512 * (size / 512) ≤ size := by omega
  have hT2 : size < 512 * (size / 512) + 512 := by omega
  have hT3 : 11 ≤ size / 512 := by omega
  have hT4 : size / 512 ≤ 262144 := by omega
  have hT5 : 524288 < size → 1024 ≤ size / 512 := by omega
  generalize size / 512 = ts at *
  have hre : ∃ re, (if size ≤ 512 * KB then 112 else 224) = re ∧
      ((re = 112 ∧ size ≤ 524288) ∨ (re = 224 ∧ 524288 < size)) := by
    by_cases hk : size ≤ 512 * KB
    all_goals have hk' := hk
    all_goals simp only [KB] at hk'
    · exact ⟨112, if_pos hk, Or.inl ⟨rfl, by omega⟩⟩
    · exact ⟨224, if_neg hk, Or.inr ⟨rfl, by omega⟩⟩
  obtain ⟨re, hre, hre'⟩ := hre
  rw [hre] at c1 ⊢
  rcases hre' with ⟨rfl, hk⟩ | ⟨rfl, hk⟩ <;>
  rcases lookup12 size with ⟨hb, hl⟩ | ⟨ha, hb, hl⟩ | ⟨ha, hb, hl⟩ | ⟨ha, hb, hl⟩ | ⟨ha, hb, hl⟩ | ⟨ha, hb, hl⟩ | ⟨ha, hl⟩ <;>
  first
  | omega
  | ( rw [hl] at c1 ⊢
      simp only [u8, Nat.reduceMod, Nat.reduceMul, Nat.reduceAdd, Nat.reduceDiv] at c1 ⊢
      have e1 : ∀ r, r ≤ 14 → 1 + r ≤ ts → sub32 (sub32 ts 1) r = ts - 1 - r := by
        intro r h1 h2; simp only [sub32]; omega
      rw [e1 _ (by omega) (by omega)] at c1 ⊢
      generalize hD : ts - 1 - _ = D at c1 ⊢
      have e2 : ∀ nc, nc ≤ 262144 →
          u16 (sub32 (u32 (u32 (u32 ((nc + 2) * 3) / 2 + 1) + 512)) 1 / 512)
            = ((nc + 2) * 3 / 2 + 512) / 512 := by
        intro nc hnc
        rw [u32_of_lt (x := (nc + 2) * 3) (by omega), u32_of_lt (x := (nc + 2) * 3 / 2 + 1) (by omega),
          u32_of_lt (x := (nc + 2) * 3 / 2 + 1 + 512) (by omega), sub32_of_le (by omega) (by omega),
          u16_of_lt (by omega)]
        omega
      rw [e2 _ (by omega)] at c1 ⊢
      have e5 : ∀ nc s, ((nc + 2) * 3 / 2 + 512) / 512 = s → nc + 2 ≤ s * 512 * 2 / 3 := by
        intro nc s hs; omega
      generalize hS : ((_ / _ + 2) * 3 / 2 + 512) / 512 = spf at *
      have hfat := e5 _ _ hS
      have hspf1 : 1 ≤ spf := by omega
      have hspf2 : spf ≤ 769 := by omega
      have e3 : u32 (2 * spf) = 2 * spf := u32_of_lt (by omega)
      rw [e3] at c1
      by_cases hw : 2 * spf ≤ D
      · have e4 := sub32_of_le hw (by omega)
        rw [e4] at c1
        refine ⟨⟨?_, ?_, ?_, ?_, ?_, ?_⟩, ?_, ?_⟩ <;>
          simp only [Geom.rootSectors, Geom.dataSectors, Geom.clusters, Geom.fatEntries, Geom.dataStart] <;> omega
      · exfalso
        simp only [sub32] at c1
        omega )

/-- FAT12 geometry is well formed for every size `Create` accepts (no lower bound needed any more:
    below 5632 bytes `Create` refuses) -/
theorem mkGeom12_wf (size : Nat) (g : Geom)
    (h : mkGeom12 Generated.Fat.fat12_spc_table size = some g) :
    g.WF size ∧ g.kind = .f12 ∧ g.clusters < 4085 := by
  by_cases hs : size < 5120
  · rw [mkGeom12_tiny_none size hs] at h; cases h
  by_cases hw : size < 5632
  · rw [mkGeom12_window_refused size (by omega) hw] at h; cases h
  · exact mkGeom12_wf_of_ge size g (by omega) h

/-! ### FAT32 -/

theorem lookup32 (size : Nat) :
    (size < 272629761 ∧ sizeTableLookup Generated.Fat.fat32_clusterBytes_table size = 512) ∨
    (272629761 ≤ size ∧ size < 8589934593 ∧ sizeTableLookup Generated.Fat.fat32_clusterBytes_table size = 4096) ∨
    (8589934593 ≤ size ∧ size < 17179869185 ∧ sizeTableLookup Generated.Fat.fat32_clusterBytes_table size = 8192) ∨
    (17179869185 ≤ size ∧ size < 34359738369 ∧ sizeTableLookup Generated.Fat.fat32_clusterBytes_table size = 16384) ∨
    (34359738369 ≤ size ∧ sizeTableLookup Generated.Fat.fat32_clusterBytes_table size = 32768) := by
  by_cases h1 : size < 272629761
  · simp [sizeTableLookup, Generated.Fat.fat32_clusterBytes_table, List.find?, h1]
  by_cases h2 : size < 8589934593
  · simp [sizeTableLookup, Generated.Fat.fat32_clusterBytes_table, List.find?, h1, h2]; omega
  by_cases h3 : size < 17179869185
  · simp [sizeTableLookup, Generated.Fat.fat32_clusterBytes_table, List.find?, h1, h2, h3]; omega
  by_cases h4 : size < 34359738369
  · simp [sizeTableLookup, Generated.Fat.fat32_clusterBytes_table, List.find?, h1, h2, h3, h4]; omega
  · simp [sizeTableLookup, Generated.Fat.fat32_clusterBytes_table, List.find?, h1, h2, h3, h4]; omega

theorem spf32_eq (d x : Nat) (hd : 0 < d) (hd2 : d ≤ 40000) (hx : x ≤ 536993790)
    (hlt : 4 * x + d - 1 < 65536 * d) :
    u16 (sub32 (u32 (u32 (4 * x) + d)) 1 / d) = (4 * x + d - 1) / d := by
  rw [u32_of_lt (x := 4 * x) (by omega), u32_of_lt (x := 4 * x + d) (by omega),
    sub32_of_le (by omega) (by omega), u16_of_lt]
  exact (Nat.div_lt_iff_lt_mul hd).mpr hlt

set_option hygiene false in
macro "geom32_block" B:num : tactic => `(tactic| (
  have hT0 : size / $B < 4294967296 := by omega
  rw [u32_of_lt hT0] at c1 c2 c3 ⊢
  have hT1 : $B * (size / $B) ≤ size := by omega
  have hT2 : size < $B * (size / $B) + $B := by omega
  have hT3 : 32 ≤ size / $B := by omega
  generalize size / $B = ts at *
  rcases lookup32 size with ⟨hr2, hl⟩ | ⟨hr1, hr2, hl⟩ | ⟨hr1, hr2, hl⟩ | ⟨hr1, hr2, hl⟩ | ⟨hr1, hl⟩ <;>
  ( rw [hl] at c1 c2 c3 ⊢
    simp only [u8, Nat.reduceDiv, Nat.reduceMod, Nat.reduceEqDiff, ↓reduceIte] at c1 c2 c3 ⊢
    generalize hd : u32 (u32 _ * _ + 8) = d at c1 c2 c3 ⊢
    simp only [u32, Nat.reduceMod, Nat.reduceMul, Nat.reduceAdd] at hd
    rw [sub32_of_le hT3 (by omega)] at c1 c2 c3 ⊢
    rw [spf32_eq d (ts - 32) (by omega) (by omega) (by omega) (by omega)] at c1 c2 c3 ⊢
    subst hd
    simp only [u32] at c2
    simp only [KB] at c3
    refine ⟨?_, ?_, ?_, ?_, ?_, ?_, ?_⟩ <;>
      (try simp only [Geom.rootSectors, Geom.dataSectors, Geom.clusters, Geom.fatEntries, Geom.dataStart]) <;>
      first | trivial | omega )))

theorem mkGeom32_wf_weak (size bs : Nat) (g : Geom)
    (hmax : size ≤ 274940837375 ∨ bs = 4096)
    (h : mkGeom32 Generated.Fat.fat32_clusterBytes_table size bs = some g) :
    g.totalSectors * g.bps ≤ size ∧ size < g.totalSectors * g.bps + g.bps ∧
    g.reserved + 2 * g.fatSectors + g.rootSectors < g.totalSectors ∧
    0 < g.clusters ∧ g.clusters ≤ g.fatEntries ∧
    g.dataStart + g.clusters * g.spc * g.bps ≤ size ∧ g.kind = .f32 := by
  unfold mkGeom32 at h
  simp only [ite_none_eq_some, Option.some.injEq] at h
  obtain ⟨hbs, hhi, hlo, c1, c2, c3, rfl⟩ := h
  simp only [fat32MaxSize] at hhi
  have hb : ∃ b, (if bs = 0 then 512 else bs) = b ∧ ((b = 512 ∧ bs ≠ 4096) ∨ (b = 4096 ∧ bs = 4096)) := by
    by_cases h0 : bs = 0
    · exact ⟨512, if_pos h0, Or.inl ⟨rfl, by omega⟩⟩
    · refine ⟨bs, if_neg h0, ?_⟩; omega
  obtain ⟨b, hb, hb'⟩ := hb
  rw [hb] at hlo c1 c2 c3 ⊢
  rcases hb' with ⟨rfl, hne⟩ | ⟨rfl, rfl⟩
  · geom32_block 512
  · geom32_block 4096

/-- FINDING. The intended statement
      `size ≤ 256 * GB → mkGeom32 … size bs = some g → g.WF size ∧ g.kind = .f32`
    is FALSE: `sectorsPerFat = ⌈4·(ts−32) / (bs·spc+8)⌉` gives every data cluster a FAT entry but
    forgets the two reserved entries, so `fat_holds` (clusters + 2 ≤ fatEntries) fails for ordinary
    sizes (see `cex_mkGeom32_fat_short*` below).  With that one field assumed the rest holds, and
    `mkGeom32_wf_weak` above shows that unconditionally `clusters ≤ fatEntries`.
    The size bound is exact for 512-byte sectors (`cex_mkGeom32_bound_tight`); with 4096-byte sectors
    the uint16 never wraps below `fat32MaxSize`. -/
theorem mkGeom32_wf (size bs : Nat) (g : Geom)
    (hmax : size ≤ 274940837375 ∨ bs = 4096)
    (h : mkGeom32 Generated.Fat.fat32_clusterBytes_table size bs = some g)
    (hfat : g.clusters + 2 ≤ g.fatEntries) :
    g.WF size ∧ g.kind = .f32 := by
  obtain ⟨h1, h2, h3, h4, _, h6, h7⟩ := mkGeom32_wf_weak size bs g hmax h
  exact ⟨⟨h1, h2, h3, h4, hfat, h6⟩, h7⟩

/-- the statement with the bound as asked (256 GiB < 274940837375) -/
theorem mkGeom32_wf_256 (size bs : Nat) (g : Geom) (hmax : size ≤ 256 * GB)
    (h : mkGeom32 Generated.Fat.fat32_clusterBytes_table size bs = some g)
    (hfat : g.clusters + 2 ≤ g.fatEntries) :
    g.WF size ∧ g.kind = .f32 :=
  mkGeom32_wf size bs g (Or.inl (by simp only [GB] at hmax; omega)) h hfat

/-- smallest 512-byte-sector size with a short FAT: 161 sectors, 1 FAT sector = 128 entries,
    127 clusters (129 entries needed) -/
theorem cex_mkGeom32_fat_short :
    (mkGeom32 Generated.Fat.fat32_clusterBytes_table 82432 512).map
      (fun g => (g.fatSectors, g.fatEntries, g.clusters)) = some (1, 128, 127) := by decide

/-- same with 4096-byte sectors: 1057 sectors, 1024 entries, 1023 clusters -/
theorem cex_mkGeom32_fat_short_4k :
    (mkGeom32 Generated.Fat.fat32_clusterBytes_table 4329472 4096).map
      (fun g => (g.fatSectors, g.fatEntries, g.clusters)) = some (1, 1024, 1023) := by decide

/-- not isolated: for every k in 1..4095 all 512 sizes with 32 + 130·k sectors (512-byte sectors, one
    sector per cluster, i.e. up to 260 MiB) get a FAT of k sectors = 128·k entries for 128·k clusters -/
theorem mkGeom32_fat_short_family (k r : Nat) (hk1 : 1 ≤ k) (hk2 : k ≤ 4095) (hr : r < 512) :
    mkGeom32 Generated.Fat.fat32_clusterBytes_table ((32 + 130 * k) * 512 + r) 512
      = some ⟨.f32, 512, 1, 32, k, 0, 32 + 130 * k⟩ := by
  have hl : sizeTableLookup Generated.Fat.fat32_clusterBytes_table ((32 + 130 * k) * 512 + r) = 512 := by
    rcases lookup32 ((32 + 130 * k) * 512 + r) with ⟨_, hl⟩ | ⟨_, _, _⟩ | ⟨_, _, _⟩ | ⟨_, _, _⟩ | ⟨_, _⟩ <;>
      first | exact hl | omega
  have hts : ((32 + 130 * k) * 512 + r) / 512 = 32 + 130 * k := by omega
  unfold mkGeom32
  simp only [ite_none_eq_some, hl, hts, Option.some.injEq, u8, Nat.reduceDiv, Nat.reduceMod,
    Nat.reduceEqDiff, ↓reduceIte]
  have e0 : u32 (32 + 130 * k) = 32 + 130 * k := u32_of_lt (by omega)
  have ed : u32 (u32 512 * 1 + 8) = 520 := by decide
  rw [e0, ed, sub32_of_le (a := 32 + 130 * k) (b := 32) (by omega) (by omega),
    spf32_eq 520 (32 + 130 * k - 32) (by omega) (by omega) (by omega) (by omega)]
  have es : (4 * (32 + 130 * k - 32) + 520 - 1) / 520 = k := by omega
  rw [es]
  refine ⟨by decide, by simp only [fat32MaxSize]; omega, by omega, by omega, ?_, ?_, rfl⟩
  · simp only [u32]; omega
  · simp only [KB]; omega

theorem mkGeom32_fat_short_family' (k r : Nat) (hk1 : 1 ≤ k) (hk2 : k ≤ 4095) (hr : r < 512) :
    (mkGeom32 Generated.Fat.fat32_clusterBytes_table ((32 + 130 * k) * 512 + r) 512).map
      (fun g => (g.fatEntries, g.clusters)) = some (128 * k, 128 * k) := by
  rw [mkGeom32_fat_short_family k r hk1 hk2 hr]
  simp only [Option.map, Geom.fatEntries, Geom.clusters, Geom.dataSectors, Geom.rootSectors,
    Option.some.injEq, Prod.mk.injEq]
  omega
/-- above 256 GiB (512-byte sectors) the uint16 `sectorsPerFat` wraps -/
theorem cex_mkGeom32_300GiB :
    (mkGeom32 Generated.Fat.fat32_clusterBytes_table (300 * GB) 512).map
      (fun g => decide (g.fatEntries < g.clusters + 2)) = some true := by decide

/-- the bound in `mkGeom32_wf` is the exact one: one byte more and `sectorsPerFat` wraps to 0 -/
theorem cex_mkGeom32_bound_tight :
    (mkGeom32 Generated.Fat.fat32_clusterBytes_table 274940837376 512).map
      (fun g => (g.fatSectors, decide (g.fatEntries < g.clusters + 2))) = some (0, true) := by decide

/-! ### the repaired FAT32 sizing (`mkGeom32Fixed` in the model): `8·spc` added to the numerator,
     i.e. two more entries -/

theorem spf32fix_eq (d x e : Nat) (hd : 0 < d) (hd2 : d ≤ 40000) (he : e ≤ 512) (hx : x ≤ 536993790)
    (hlt : 4 * x + e + d - 1 < 65536 * d) :
    u16 (sub32 (u32 (u32 (u32 (4 * x) + e) + d)) 1 / d) = (4 * x + e + d - 1) / d := by
  rw [u32_of_lt (x := 4 * x) (by omega), u32_of_lt (x := 4 * x + e) (by omega),
    u32_of_lt (x := 4 * x + e + d) (by omega), sub32_of_le (by omega) (by omega), u16_of_lt]
  exact (Nat.div_lt_iff_lt_mul hd).mpr hlt

set_option hygiene false in
macro "geom32fix_block" B:num : tactic => `(tactic| (
  have hT0 : size / $B < 4294967296 := by omega
  rw [u32_of_lt hT0] at c1 c2 c3 ⊢
  have hT1 : $B * (size / $B) ≤ size := by omega
  have hT2 : size < $B * (size / $B) + $B := by omega
  have hT3 : 32 ≤ size / $B := by omega
  generalize size / $B = ts at *
  rcases lookup32 size with ⟨hr2, hl⟩ | ⟨hr1, hr2, hl⟩ | ⟨hr1, hr2, hl⟩ | ⟨hr1, hr2, hl⟩ | ⟨hr1, hl⟩ <;>
  ( rw [hl] at c1 c2 c3 ⊢
    simp only [u8, Nat.reduceDiv, Nat.reduceMod, Nat.reduceEqDiff, ↓reduceIte] at c1 c2 c3 ⊢
    generalize hd : u32 (u32 _ * _ + 8) = d at c1 c2 c3 ⊢
    simp only [u32, Nat.reduceMod, Nat.reduceMul, Nat.reduceAdd] at hd
    generalize he : u32 (8 * _) = e at c1 c2 c3 ⊢
    simp only [u32, Nat.reduceMod, Nat.reduceMul] at he
    rw [sub32_of_le hT3 (by omega)] at c1 c2 c3 ⊢
    rw [spf32fix_eq d (ts - 32) e (by omega) (by omega) (by omega) (by omega) (by omega)] at c1 c2 c3 ⊢
    subst hd
    subst he
    simp only [u32] at c2
    simp only [KB] at c3
    refine ⟨⟨?_, ?_, ?_, ?_, ?_, ?_⟩, ?_⟩ <;>
      (try simp only [Geom.rootSectors, Geom.dataSectors, Geom.clusters, Geom.fatEntries, Geom.dataStart]) <;>
      first | trivial | omega )))

/-- with the repaired formula the full `WF` (including `fat_holds`) holds.  The bound for 512-byte
    sectors is again the exact one (`mkGeom32Fixed_bound_tight`): 274940771839 = 256.06 GiB, slightly
    below the bound of the old formula because the FAT is up to one sector longer. -/
theorem mkGeom32Fixed_wf (size bs : Nat) (g : Geom)
    (hmax : size ≤ 274940771839 ∨ bs = 4096)
    (h : mkGeom32Fixed Generated.Fat.fat32_clusterBytes_table size bs = some g) :
    g.WF size ∧ g.kind = .f32 := by
  unfold mkGeom32Fixed at h
  simp only [ite_none_eq_some, Option.some.injEq] at h
  obtain ⟨hbs, hhi, hlo, c1, c2, c3, rfl⟩ := h
  simp only [fat32MaxSize] at hhi
  have hb : ∃ b, (if bs = 0 then 512 else bs) = b ∧ ((b = 512 ∧ bs ≠ 4096) ∨ (b = 4096 ∧ bs = 4096)) := by
    by_cases h0 : bs = 0
    · exact ⟨512, if_pos h0, Or.inl ⟨rfl, by omega⟩⟩
    · refine ⟨bs, if_neg h0, ?_⟩; omega
  obtain ⟨b, hb, hb'⟩ := hb
  rw [hb] at hlo c1 c2 c3 ⊢
  rcases hb' with ⟨rfl, hne⟩ | ⟨rfl, rfl⟩
  · geom32fix_block 512
  · geom32fix_block 4096

theorem mkGeom32Fixed_bound_tight :
    (mkGeom32Fixed Generated.Fat.fat32_clusterBytes_table 274940771840 512).map
      (fun g => (g.fatSectors, decide (g.fatEntries < g.clusters + 2))) = some (0, true) := by decide

/-- the two sizes that were short before are fine now -/
theorem mkGeom32Fixed_values :
    (mkGeom32Fixed Generated.Fat.fat32_clusterBytes_table 82432 512).map
      (fun g => (g.fatSectors, g.fatEntries, g.clusters)) = some (2, 256, 125) := by decide

/-! ### the FAT sizing used before "fix: fat12/fat16: size the FAT for the two reserved entries" -/

def mkGeom12Old (tbl : List (Nat × Nat)) (size : Nat) : Option Geom :=
  if size > 128 * MB then none
  else if size < 512 * 4 then none
  else
    let ts := u32 (size / 512)
    let spc := u8 (sizeTableLookup tbl size)
    let rootEntries := if size ≤ 512 * KB then 112 else 224
    let rds := (rootEntries * 32 + 511) / 512
    let ds := sub32 (sub32 ts 1) rds
    let nc := ds / spc
    let spf := u16 (sub32 (u32 (u32 (u32 (nc * 3) / 2) + 512)) 1 / 512)
    let ds2 := sub32 (sub32 (sub32 ts 1) rds) (u32 (2 * spf))
    let nc2 := ds2 / spc
    if nc2 ≥ 4085 then none
    else some ⟨.f12, 512, spc, 1, spf, rootEntries, ts⟩

/-- 32 MiB + 512: the old sizing gives 2048 FAT entries for 2047 clusters (2049 needed) -/
theorem cex_fatsize_old :
    (mkGeom12Old Generated.Fat.fat12_spc_table 33554944).map
      (fun g => decide (g.fatEntries < g.clusters + 2)) = some true := by decide

theorem cex_fatsize_old_values :
    (mkGeom12Old Generated.Fat.fat12_spc_table 33554944).map
      (fun g => (g.fatEntries, g.clusters + 2)) = some (2048, 2049) := by decide

/-- the current sizing at the same size -/
theorem fatsize_new_values :
    (mkGeom12 Generated.Fat.fat12_spc_table 33554944).map
      (fun g => (g.fatEntries, g.clusters + 2)) = some (2389, 2049) := by decide

end Diskfs.Fat
