/-
  Lemmas about writeDirectory's growth / relocation step (Model/Ext4/DirGrow.lean) on the accounting machine.
-/
import DiskfsModel.Model.Ext4.DirGrow
import DiskfsModel.Proofs.Ext4Alloc
namespace Diskfs.Ext4.DirGrow
open Diskfs.Ext4 Diskfs.Ext4.Alloc

/-! ### blocks of extent lists -/

theorem run_length : ∀ (c fb st : Nat), (run fb st c).length = c := by
  intro c
  induction c with
  | zero => intro fb st; rfl
  | succ c ih => intro fb st; simp [run, ih]

theorem run_add (b : Nat) : ∀ (a fb st : Nat), run fb st (a + b) = run fb st a ++ run (fb + a) (st + a) b := by
  intro a
  induction a with
  | zero => intro fb st; simp [run]
  | succ a ih =>
    intro fb st
    have e : a + 1 + b = (a + b) + 1 := by omega
    rw [e]
    simp only [run, List.cons_append]
    rw [ih (fb + 1) (st + 1)]
    have e1 : fb + 1 + a = fb + (a + 1) := by omega
    have e2 : st + 1 + a = st + (a + 1) := by omega
    rw [e1, e2]

theorem blocksOf_cons (e : Extent) (es : List Extent) :
    blocksOf (e :: es) = run e.fileBlock e.start e.count ++ blocksOf es := by
  simp [blocksOf]

theorem blocksOf_append (a b : List Extent) : blocksOf (a ++ b) = blocksOf a ++ blocksOf b := by
  simp [blocksOf]

theorem blockCount_cons (e : Extent) (es : List Extent) : blockCount (e :: es) = e.count + blockCount es := by
  simp [blockCount]

theorem blockCount_append (a b : List Extent) : blockCount (a ++ b) = blockCount a + blockCount b := by
  simp [blockCount]

theorem blocksOf_length : ∀ (es : List Extent), (blocksOf es).length = blockCount es := by
  intro es
  induction es with
  | nil => rfl
  | cons e es ih => simp [blocksOf_cons, blockCount_cons, run_length, ih]

theorem diskBlocks_length (es : List Extent) : (diskBlocks es).length = blockCount es := by
  simp [diskBlocks, blocksOf_length]

theorem diskBlocks_append (a b : List Extent) : diskBlocks (a ++ b) = diskBlocks a ++ diskBlocks b := by
  simp [diskBlocks, blocksOf_append]

/-! ### mergeExtents -/

theorem mergeLoop_blocks : ∀ (rest : List Extent) (cur : Extent), cur.count + blockCount rest < 65536 →
    blocksOf (mergeLoop cur rest) = blocksOf (cur :: rest) := by
  intro rest
  induction rest with
  | nil => intro cur _; rfl
  | cons next rest ih =>
    intro cur h
    rw [blockCount_cons] at h
    simp only [mergeLoop]
    split
    · rename_i hadj
      have hm : (cur.count + next.count) % 65536 = cur.count + next.count := Nat.mod_eq_of_lt (by omega)
      rw [ih _ (by simp only [hm]; omega)]
      simp only [blocksOf_cons, hm]
      rw [run_add, hadj.1, hadj.2, List.append_assoc]
    · simp only [blocksOf_cons, ih next (by omega)]

theorem insertE_perm (e : Extent) : ∀ xs, (insertE e xs).Perm (e :: xs)
  | [] => .refl _
  | x :: xs => by
    simp only [insertE]
    split
    · exact .refl _
    · exact ((insertE_perm e xs).cons x).trans (.swap e x xs)

theorem sortE_perm : ∀ es, (sortE es).Perm es
  | [] => .refl _
  | e :: es => (insertE_perm e (sortE es)).trans ((sortE_perm es).cons e)

/-- sorted by file block -/
def SortedFB (es : List Extent) : Prop := es.Pairwise fun a b => a.fileBlock ≤ b.fileBlock

theorem sortE_of_sorted : ∀ es, SortedFB es → sortE es = es
  | [], _ => rfl
  | e :: es, h => by
    have h' := List.pairwise_cons.1 h
    rw [sortE, sortE_of_sorted es h'.2]
    cases es with
    | nil => rfl
    | cons x xs => simp [insertE, h'.1 x (by simp)]

theorem blocksOf_perm {a b : List Extent} (p : a.Perm b) : (blocksOf a).Perm (blocksOf b) :=
  p.flatMap_right _

theorem blockCount_perm {a b : List Extent} (p : a.Perm b) : blockCount a = blockCount b := by
  rw [← blocksOf_length, ← blocksOf_length]; exact (blocksOf_perm p).length_eq

/-- mergeExtents keeps every (file block, disk block) pair, in file order, and the number of blocks -/
theorem mergeExtents_blocks (es : List Extent) (h : blockCount es < 65536) :
    blocksOf (mergeExtents es) = blocksOf (sortE es) ∧ (blocksOf (mergeExtents es)).Perm (blocksOf es) ∧
    blockCount (mergeExtents es) = blockCount es := by
  have key : blocksOf (mergeExtents es) = blocksOf (sortE es) := by
    unfold mergeExtents
    split
    · rename_i hl
      match es, hl with
      | [], _ => rfl
      | [a], _ => rfl
      | _ :: _ :: _, hl => simp at hl; omega
    · cases hs : sortE es with
      | nil => rfl
      | cons e rest =>
        have hc := blockCount_perm (sortE_perm es)
        rw [hs, blockCount_cons] at hc
        exact mergeLoop_blocks rest e (by omega)
  refine ⟨key, ?_, ?_⟩
  · rw [key]; exact blocksOf_perm (sortE_perm es)
  · rw [← blocksOf_length, key, blocksOf_length]; exact blockCount_perm (sortE_perm es)

/-! ### contiguous file blocks -/

theorem contigFrom_append : ∀ (a b : List Extent) (k : Nat),
    contigFrom k (a ++ b) ↔ contigFrom k a ∧ contigFrom (k + blockCount a) b := by
  intro a
  induction a with
  | nil => intro b k; simp [contigFrom, blockCount]
  | cons e a ih =>
    intro b k
    simp only [List.cons_append, contigFrom, ih, blockCount_cons, Nat.add_assoc, and_assoc]

theorem contigFrom_ge : ∀ (es : List Extent) (k : Nat), contigFrom k es → ∀ e ∈ es, k ≤ e.fileBlock := by
  intro es
  induction es with
  | nil => intro k _ e he; simp at he
  | cons x xs ih =>
    intro k h e he
    simp only [contigFrom] at h
    rcases List.mem_cons.1 he with he | he
    · subst he; omega
    · have := ih _ h.2 e he; omega

theorem contigFrom_sorted : ∀ (es : List Extent) (k : Nat), contigFrom k es → SortedFB es := by
  intro es
  induction es with
  | nil => intro _ _; exact List.Pairwise.nil
  | cons x xs ih =>
    intro k h
    simp only [contigFrom] at h
    refine List.pairwise_cons.2 ⟨?_, ih _ h.2⟩
    intro e he
    have := contigFrom_ge xs _ h.2 e he
    omega

theorem extentsOfRuns_contig (geo : Geom) : ∀ (rs : List Run) (fb : Nat), contigFrom fb (extentsOfRuns geo fb rs) := by
  intro rs
  induction rs with
  | nil => intro _; trivial
  | cons r rs ih => intro fb; exact ⟨rfl, ih _⟩

theorem extentsOfRuns_count (geo : Geom) : ∀ (rs : List Run) (fb : Nat),
    blockCount (extentsOfRuns geo fb rs) = (rs.map (·.2.2)).sum := by
  intro rs
  induction rs with
  | nil => intro _; rfl
  | cons r rs ih => intro fb; simp [extentsOfRuns, blockCount_cons, ih]

theorem extentsOfRuns_length (geo : Geom) : ∀ (rs : List Run) (fb : Nat), (extentsOfRuns geo fb rs).length = rs.length := by
  intro rs
  induction rs with
  | nil => intro _; rfl
  | cons r rs ih => intro fb; simp [extentsOfRuns, ih]

/-! ### the allocator calls -/

theorem foldl_markRun_sb : ∀ (l : List Run) (t : Acc), (l.foldl markRun t).sbFreeBlocks = t.sbFreeBlocks := by
  intro l
  induction l with
  | nil => intro t; rfl
  | cons r l ih => intro t; simp only [List.foldl_cons]; rw [ih]; rfl

/-- an accepted allocateExtents call: the invariant survives, the superblock counter goes down by exactly `n`, the
    extents returned hold `n` blocks, numbered on from `allocated` -/
theorem allocCall_spec (geo : Geom) (pol : Acc → Nat → Option (List Run)) (s : Acc) (allocated n : Nat)
    (s1 : Acc) (ex : List Extent) (h : allocCall geo pol s allocated n = some (s1, ex)) :
    (AccInv s → AccInv s1) ∧ s1.sbFreeBlocks + n = s.sbFreeBlocks ∧ blockCount ex = n ∧ contigFrom allocated ex := by
  unfold allocCall at h
  cases hp : pol s n with
  | none => simp [hp] at h
  | some rs =>
    simp only [hp] at h
    cases hr : allocExtents s n (some rs) with
    | refused t => simp [hr] at h
    | ok s' =>
      simp only [hr, Option.some.injEq, Prod.mk.injEq] at h
      obtain ⟨h1, h2⟩ := h
      subst h1; subst h2
      have hinv : AccInv s → AccInv s' := fun hi => by
        have := allocExtents_inv s n (some rs) hi
        rw [hr] at this; exact this
      unfold allocExtents at hr
      split at hr
      · cases hr
      · rename_i hfree
        simp only at hr
        split at hr
        · rename_i hc
          simp only [Bool.and_eq_true, beq_iff_eq] at hc
          cases hr
          refine ⟨hinv, ?_, ?_, extentsOfRuns_contig geo rs allocated⟩
          · simp only [foldl_markRun_sb]; omega
          · rw [extentsOfRuns_count]; exact hc.2
        · cases hr

theorem allocCall_none_or (geo : Geom) (pol : Acc → Nat → Option (List Run)) (s : Acc) (allocated n : Nat) :
    allocCall geo pol s allocated n = none ∨ ∃ s1 ex, allocCall geo pol s allocated n = some (s1, ex) := by
  cases h : allocCall geo pol s allocated n with
  | none => exact Or.inl rfl
  | some p => exact Or.inr ⟨p.1, p.2, rfl⟩

theorem deallocBlocks_sb (fixed : Bool) (geo : Geom) : ∀ (bs : List Nat) (s : Acc),
    (deallocBlocks fixed geo s bs).sbFreeBlocks = s.sbFreeBlocks + bs.length := by
  intro bs
  induction bs with
  | nil => intro s; rfl
  | cons b bs ih =>
    intro s
    simp only [deallocBlocks, List.foldl_cons, List.length_cons] at ih ⊢
    rw [ih]; simp only [deallocBlock]; omega

/-! ### writeDirectory -/

/-- the invariant `counters = bitmaps` survives writeDirectory in every branch, the refused ones included -/
theorem writeDir_inv (geo : Geom) (pol : Acc → Nat → Option (List Run)) (bs : Nat) (s : Acc) (old : List Extent)
    (nbytes : Nat) (h : AccInv s) : AccInv (writeDir geo pol bs s old nbytes).state := by
  unfold writeDir
  simp only
  split
  · exact h
  split
  · exact h
  split
  · exact h
  rename_i s1 extra h1
  have i1 := (allocCall_spec geo pol s _ _ s1 extra h1).1 h
  split
  · exact i1
  split
  · exact i1
  rename_i s2 fresh h2
  have i2 := (allocCall_spec geo pol s1 _ _ s2 fresh h2).1 i1
  split
  · exact i2
  split
  · rename_i s3 h3
    have := freeBlocksOp_inv geo s2 (diskBlocks (mergeExtents (old ++ extra))) i2
    rw [h3] at this; exact this
  · exact i2

/-- what is left behind is told by the result kind: unchanged / padded / refused before anything was taken -/
theorem writeDir_unchanged (geo : Geom) (pol : Acc → Nat → Option (List Run)) (bs : Nat) (s : Acc) (old : List Extent)
    (nbytes : Nat)
    (h : (writeDir geo pol bs s old nbytes).kind = .padded ∨ (writeDir geo pol bs s old nbytes).kind = .inplace ∨
         (writeDir geo pol bs s old nbytes).kind = .refusedExtra) :
    (writeDir geo pol bs s old nbytes).state = s ∧ (writeDir geo pol bs s old nbytes).extents = old ∧
    (writeDir geo pol bs s old nbytes).orphans = [] := by
  generalize hw : writeDir geo pol bs s old nbytes = out at h ⊢
  unfold writeDir at hw
  simp only at hw
  split at hw
  · subst hw; exact ⟨rfl, rfl, rfl⟩
  split at hw
  · subst hw; exact ⟨rfl, rfl, rfl⟩
  split at hw
  · subst hw; exact ⟨rfl, rfl, rfl⟩
  split at hw
  · subst hw; simp at h
  split at hw
  · subst hw; simp at h
  split at hw
  · subst hw; simp at h
  split at hw
  · subst hw; simp at h
  · subst hw; simp at h

/-- growth: the extra blocks come from one accepted allocateExtents call, the directory owns the old blocks and
    the extra ones (the same (file block, disk block) pairs, in file order), the free counter goes down by exactly
    the number of extra blocks, nothing is orphaned -/
theorem writeDir_grown (geo : Geom) (pol : Acc → Nat → Option (List Run)) (bs : Nat) (s : Acc) (old : List Extent)
    (nbytes : Nat) (hreq : requiredBlocks bs nbytes < 65536)
    (h : (writeDir geo pol bs s old nbytes).kind = .grown) :
    ∃ s1 extra, allocCall geo pol s (blockCount old) (requiredBlocks bs nbytes - blockCount old) = some (s1, extra) ∧
      blockCount old < requiredBlocks bs nbytes ∧
      (writeDir geo pol bs s old nbytes).state = s1 ∧
      (writeDir geo pol bs s old nbytes).extents = mergeExtents (old ++ extra) ∧
      (writeDir geo pol bs s old nbytes).extents.length ≤ 4 ∧
      (writeDir geo pol bs s old nbytes).orphans = [] ∧
      blockCount (writeDir geo pol bs s old nbytes).extents = requiredBlocks bs nbytes ∧
      s1.sbFreeBlocks + (requiredBlocks bs nbytes - blockCount old) = s.sbFreeBlocks ∧
      blocksOf (writeDir geo pol bs s old nbytes).extents = blocksOf (sortE (old ++ extra)) ∧
      (contigFrom 0 old → blocksOf (writeDir geo pol bs s old nbytes).extents = blocksOf old ++ blocksOf extra) := by
  generalize hw : writeDir geo pol bs s old nbytes = out at h ⊢
  unfold writeDir at hw
  simp only at hw
  split at hw
  · subst hw; simp at h
  rename_i hlt
  split at hw
  · subst hw; simp at h
  rename_i hne
  split at hw
  · subst hw; simp at h
  rename_i s1 extra h1
  obtain ⟨_, hsb, hcnt, hcontig⟩ := allocCall_spec geo pol s _ _ s1 extra h1
  have hgt : blockCount old < requiredBlocks bs nbytes := by omega
  have htot : blockCount (old ++ extra) = requiredBlocks bs nbytes := by rw [blockCount_append, hcnt]; omega
  split at hw
  · rename_i hlen
    subst hw
    obtain ⟨m1, _, m3⟩ := mergeExtents_blocks (old ++ extra) (by omega)
    refine ⟨s1, extra, h1, hgt, rfl, rfl, hlen, rfl, by simp only [m3, htot], hsb, m1, ?_⟩
    intro hc
    have hsorted : SortedFB (old ++ extra) :=
      contigFrom_sorted _ 0 ((contigFrom_append old extra 0).2 ⟨hc, by simpa using hcontig⟩)
    simp only [m1, sortE_of_sorted _ hsorted, blocksOf_append]
  split at hw
  · subst hw; simp at h
  split at hw
  · subst hw; simp at h
  split at hw
  · subst hw; simp at h
  · subst hw; simp at h

/-- relocation: two accepted allocateExtents calls (the extra blocks, then `required` fresh ones numbered from file
    block 0, at most 4 extents), then the blocks of `mergeExtents(old ++ extra)` - the old blocks and the extra
    ones just taken, each once - are released; the directory owns exactly the fresh blocks, the free counter has
    changed by exactly (old count - new count), nothing is orphaned -/
theorem writeDir_relocated (geo : Geom) (pol : Acc → Nat → Option (List Run)) (bs : Nat) (s : Acc) (old : List Extent)
    (nbytes : Nat) (hreq : requiredBlocks bs nbytes < 65536)
    (h : (writeDir geo pol bs s old nbytes).kind = .relocated) :
    ∃ s1 extra s2 fresh,
      allocCall geo pol s (blockCount old) (requiredBlocks bs nbytes - blockCount old) = some (s1, extra) ∧
      allocCall geo pol s1 0 (requiredBlocks bs nbytes) = some (s2, fresh) ∧
      4 < (mergeExtents (old ++ extra)).length ∧
      (writeDir geo pol bs s old nbytes).extents = fresh ∧ fresh.length ≤ 4 ∧ contigFrom 0 fresh ∧
      blockCount fresh = requiredBlocks bs nbytes ∧
      (writeDir geo pol bs s old nbytes).orphans = [] ∧
      blocksMarkedD geo s2 (diskBlocks (mergeExtents (old ++ extra))) = true ∧
      (writeDir geo pol bs s old nbytes).state = deallocBlocks true geo s2 (diskBlocks (mergeExtents (old ++ extra))) ∧
      (diskBlocks (mergeExtents (old ++ extra))).Perm (diskBlocks old ++ diskBlocks extra) ∧
      (writeDir geo pol bs s old nbytes).state.sbFreeBlocks + requiredBlocks bs nbytes = s.sbFreeBlocks + blockCount old := by
  generalize hw : writeDir geo pol bs s old nbytes = out at h ⊢
  unfold writeDir at hw
  simp only at hw
  split at hw
  · subst hw; simp at h
  rename_i hlt
  split at hw
  · subst hw; simp at h
  rename_i hne
  split at hw
  · subst hw; simp at h
  rename_i s1 extra h1
  obtain ⟨_, hsb1, hcnt1, _⟩ := allocCall_spec geo pol s _ _ s1 extra h1
  have htot : blockCount (old ++ extra) = requiredBlocks bs nbytes := by rw [blockCount_append, hcnt1]; omega
  split at hw
  · subst hw; simp at h
  rename_i hlen
  split at hw
  · subst hw; simp at h
  rename_i s2 fresh h2
  obtain ⟨_, hsb2, hcnt2, hcontig2⟩ := allocCall_spec geo pol s1 _ _ s2 fresh h2
  split at hw
  · subst hw; simp at h
  rename_i hfl
  split at hw
  · rename_i s3 h3
    subst hw
    obtain ⟨_, m2, m3⟩ := mergeExtents_blocks (old ++ extra) (by omega)
    unfold freeBlocksOp at h3
    split at h3
    · rename_i hmark
      cases h3
      refine ⟨s1, extra, s2, fresh, h1, h2, by omega, rfl, by omega, hcontig2, hcnt2, rfl, hmark, rfl, ?_, ?_⟩
      · have := (m2.map (·.2))
        simpa [diskBlocks, blocksOf_append] using this
      · simp only [deallocBlocks_sb, diskBlocks_length, m3, htot]
        omega
    · cases h3
  · subst hw; simp at h

/-- refused after the extra blocks were taken (the fresh allocation found no room): the directory still lists
    the old extents, the extra blocks stay marked and out of the counters - `required - have` > 0 orphans -/
theorem writeDir_refusedFresh (geo : Geom) (pol : Acc → Nat → Option (List Run)) (bs : Nat) (s : Acc) (old : List Extent)
    (nbytes : Nat) (h : (writeDir geo pol bs s old nbytes).kind = .refusedFresh) :
    ∃ s1 extra, allocCall geo pol s (blockCount old) (requiredBlocks bs nbytes - blockCount old) = some (s1, extra) ∧
      allocCall geo pol s1 0 (requiredBlocks bs nbytes) = none ∧
      (writeDir geo pol bs s old nbytes).state = s1 ∧ (writeDir geo pol bs s old nbytes).extents = old ∧
      (writeDir geo pol bs s old nbytes).orphans = diskBlocks extra ∧
      0 < (writeDir geo pol bs s old nbytes).orphans.length ∧
      (writeDir geo pol bs s old nbytes).state.sbFreeBlocks + (writeDir geo pol bs s old nbytes).orphans.length = s.sbFreeBlocks := by
  generalize hw : writeDir geo pol bs s old nbytes = out at h ⊢
  unfold writeDir at hw
  simp only at hw
  split at hw
  · subst hw; simp at h
  rename_i hlt
  split at hw
  · subst hw; simp at h
  rename_i hne
  split at hw
  · subst hw; simp at h
  rename_i s1 extra h1
  obtain ⟨_, hsb1, hcnt1, _⟩ := allocCall_spec geo pol s _ _ s1 extra h1
  split at hw
  · subst hw; simp at h
  split at hw
  · rename_i h2
    subst hw
    refine ⟨s1, extra, h1, h2, rfl, rfl, rfl, ?_, ?_⟩
    · simp only [diskBlocks_length, hcnt1]; omega
    · simp only [diskBlocks_length, hcnt1]; exact hsb1
  split at hw
  · subst hw; simp at h
  split at hw
  · subst hw; simp at h
  · subst hw; simp at h

/-- refused after BOTH allocations (the fresh one came in more than 4 extents): the directory still lists the old
    extents, the extra and the fresh blocks stay marked and out of the counters -/
theorem writeDir_refusedMany (geo : Geom) (pol : Acc → Nat → Option (List Run)) (bs : Nat) (s : Acc) (old : List Extent)
    (nbytes : Nat) (h : (writeDir geo pol bs s old nbytes).kind = .refusedMany) :
    ∃ s1 extra s2 fresh,
      allocCall geo pol s (blockCount old) (requiredBlocks bs nbytes - blockCount old) = some (s1, extra) ∧
      allocCall geo pol s1 0 (requiredBlocks bs nbytes) = some (s2, fresh) ∧ 4 < fresh.length ∧
      (writeDir geo pol bs s old nbytes).state = s2 ∧ (writeDir geo pol bs s old nbytes).extents = old ∧
      (writeDir geo pol bs s old nbytes).orphans = diskBlocks extra ++ diskBlocks fresh ∧
      (writeDir geo pol bs s old nbytes).orphans.length = 2 * requiredBlocks bs nbytes - blockCount old ∧
      (writeDir geo pol bs s old nbytes).state.sbFreeBlocks + (writeDir geo pol bs s old nbytes).orphans.length = s.sbFreeBlocks := by
  generalize hw : writeDir geo pol bs s old nbytes = out at h ⊢
  unfold writeDir at hw
  simp only at hw
  split at hw
  · subst hw; simp at h
  rename_i hlt
  split at hw
  · subst hw; simp at h
  rename_i hne
  split at hw
  · subst hw; simp at h
  rename_i s1 extra h1
  obtain ⟨_, hsb1, hcnt1, _⟩ := allocCall_spec geo pol s _ _ s1 extra h1
  split at hw
  · subst hw; simp at h
  split at hw
  · subst hw; simp at h
  rename_i s2 fresh h2
  obtain ⟨_, hsb2, hcnt2, _⟩ := allocCall_spec geo pol s1 _ _ s2 fresh h2
  split at hw
  · rename_i hfl
    subst hw
    refine ⟨s1, extra, s2, fresh, h1, h2, hfl, rfl, rfl, rfl, ?_, ?_⟩
    · simp only [List.length_append, diskBlocks_length, hcnt1, hcnt2]; omega
    · simp only [List.length_append, diskBlocks_length, hcnt1, hcnt2]; omega
  split at hw
  · subst hw; simp at h
  · subst hw; simp at h

/-! ### witnesses and non-vacuity

  One group of 16 blocks (1 KiB geometry: block b is bit b-1).  The directory owns blocks 2, 4, 6, 8 (four extents),
  the blocks between them and block 9 belong to others, block 10 is free, blocks 11..16 are free (`xState false`)
  or in use (`xState true`: one free block in all). -/

def xGeo : Geom := ⟨1, 16, 8⟩
def xOld : List Extent := [⟨0, 2, 1⟩, ⟨1, 4, 1⟩, ⟨2, 6, 1⟩, ⟨3, 8, 1⟩]
def xBits (full : Bool) : Bits := [true, true, true, true, true, true, true, true, true, false] ++ List.replicate 6 full
def xState (full : Bool) : Acc :=
  ⟨[{ bbm := xBits full, ibm := [], freeBlocks := if full then 1 else 7, freeInodes := 0, usedDirs := 0 }],
   if full then 1 else 7, 0⟩

/-- finding ext4-dir-relocate-refused-leaks-blocks (candidate): the directory needs a fifth block, the only free
    block (10) is not adjacent to its last one, so the fifth extent triggers the relocation; the fresh allocation of
    5 blocks finds no room and writeDirectory returns the error - block 10 stays marked and out of the counters, the
    directory still lists its four old extents: `counters = bitmaps` holds, but the block has no owner. -/
theorem cex_ext4_dir_relocate_leak :
    AccInv (xState true) ∧ blocksMarkedD xGeo (xState true) (diskBlocks xOld) = true ∧
    (writeDir xGeo fastPol 1024 (xState true) xOld 5120).kind = .refusedFresh ∧
    (writeDir xGeo fastPol 1024 (xState true) xOld 5120).extents = xOld ∧
    (writeDir xGeo fastPol 1024 (xState true) xOld 5120).orphans = [10] ∧
    blockMarked xGeo (writeDir xGeo fastPol 1024 (xState true) xOld 5120).state 10 = true ∧
    blockMarked xGeo (xState true) 10 = false ∧
    (writeDir xGeo fastPol 1024 (xState true) xOld 5120).state.sbFreeBlocks = 0 ∧
    AccInv (writeDir xGeo fastPol 1024 (xState true) xOld 5120).state := by decide

/-- the same call with room behind block 10: relocated to blocks 11..15, blocks 2, 4, 6, 8 and 10 released -/
example : writeDir xGeo fastPol 1024 (xState false) xOld 5120 =
    ⟨.relocated, [⟨0, 11, 5⟩],
     ⟨[{ bbm := [true, false, true, false, true, false, true, false, true, false, true, true, true, true, true, false],
         ibm := [], freeBlocks := 6, freeInodes := 0, usedDirs := 0 }], 6, 0⟩, []⟩ := by decide
example : requiredBlocks 1024 5120 < 65536 ∧ (writeDir xGeo fastPol 1024 (xState false) xOld 5120).kind = .relocated := by decide
/-- growth: three extents and a fourth block that is not adjacent -/
example : writeDir xGeo fastPol 1024 (xState false) (xOld.take 3) 4096 =
    ⟨.grown, [⟨0, 2, 1⟩, ⟨1, 4, 1⟩, ⟨2, 6, 1⟩, ⟨3, 10, 1⟩],
     ⟨[{ bbm := xBits true |>.take 10 |>.set 9 true |> (· ++ List.replicate 6 false),
         ibm := [], freeBlocks := 6, freeInodes := 0, usedDirs := 0 }], 6, 0⟩, []⟩ := by decide
example : (writeDir xGeo fastPol 1024 (xState false) (xOld.take 3) 4096).kind = .grown ∧ contigFrom 0 (xOld.take 3) := by decide
/-- growth by an adjacent block: merged into the last extent -/
example : (writeDir xGeo fastPol 1024 (xState false) [⟨0, 8, 1⟩, ⟨1, 9, 1⟩] 3000).extents = [⟨0, 8, 3⟩] := by decide
example : (writeDir xGeo fastPol 1024 (xState false) xOld 4096).kind = .inplace ∧
    (writeDir xGeo fastPol 1024 (xState false) xOld 3000).kind = .padded ∧
    (writeDir xGeo fastPol 1024 (xState true) xOld 6000).kind = .refusedExtra := by decide
/-- a policy that answers the fresh request with five single blocks: refused after BOTH allocations -/
def manyPol (_ : Acc) (n : Nat) : Option (List Run) :=
  if n = 1 then some [(0, 9, 1)] else some [(0, 10, 1), (0, 11, 1), (0, 12, 1), (0, 13, 1), (0, 14, 1)]
example : (writeDir xGeo manyPol 1024 (xState false) xOld 5120).kind = .refusedMany ∧
    (writeDir xGeo manyPol 1024 (xState false) xOld 5120).orphans = [10, 11, 12, 13, 14, 15] ∧
    (writeDir xGeo manyPol 1024 (xState false) xOld 5120).state.sbFreeBlocks = 1 ∧
    AccInv (writeDir xGeo manyPol 1024 (xState false) xOld 5120).state := by decide
/-- mergeExtents: sorts by file block, merges only when file AND disk blocks are adjacent; the uint16 wrap -/
example : mergeExtents [⟨2, 12, 1⟩, ⟨0, 10, 2⟩, ⟨3, 20, 1⟩, ⟨4, 21, 2⟩] = [⟨0, 10, 3⟩, ⟨3, 20, 3⟩] := by decide
example : mergeExtents [⟨0, 10, 2⟩, ⟨3, 12, 1⟩] = [⟨0, 10, 2⟩, ⟨3, 12, 1⟩] ∧ blockCount [⟨0, 10, 2⟩, ⟨3, 12, 1⟩] < 65536 := by decide
example : mergeExtents [⟨0, 10, 40000⟩, ⟨40000, 40010, 40000⟩] = [⟨0, 10, 14464⟩] := by decide

end Diskfs.Ext4.DirGrow
