/-
  C19 helper lemmas: the ext4 attribute setters on the whole inode record (Model/Ext4/InodeAttrBytes.lean).
-/
import DiskfsModel.Model.Ext4.InodeAttrBytes
import DiskfsModel.Proofs.MetaCodec
namespace Diskfs.Ext4.InodeCodec
open Diskfs

theorem put_getElem? (b : Bytes) (off : Nat) (d : Bytes) (h : off + d.length ≤ b.length) (i : Nat) :
    (put b off d)[i]? = if off ≤ i ∧ i < off + d.length then d[i - off]? else b[i]? := by
  unfold put
  have ht : d.take (b.length - off) = d := List.take_of_length_le (by omega)
  rw [ht]
  by_cases h1 : i < off
  · have : ¬ (off ≤ i ∧ i < off + d.length) := by omega
    rw [if_neg this, List.append_assoc, List.getElem?_append_left (by simp; omega), List.getElem?_take]
    simp [h1]
  · by_cases h2 : i < off + d.length
    · rw [if_pos ⟨by omega, h2⟩, List.append_assoc, List.getElem?_append_right (by simp; omega)]
      have hl : (List.take off b).length = off := by simp; omega
      rw [hl, List.getElem?_append_left (by omega)]
    · have : ¬ (off ≤ i ∧ i < off + d.length) := by omega
      rw [if_neg this, List.getElem?_append_right (by simp; omega)]
      have hl : (List.take off b ++ d).length = off + d.length := by simp; omega
      rw [hl, List.getElem?_drop]
      congr 1
      omega

theorem slice_getElem? (b : Bytes) (lo hi k : Nat) :
    (slice b lo hi)[k]? = if k < hi - lo then b[lo + k]? else none := by
  unfold slice
  rw [List.getElem?_take]
  split
  · rw [List.getElem?_drop]
  · rfl

theorem putWord_length (b : Bytes) (off width v : Nat) (h : off + width ≤ b.length) :
    (putWord b off width v).length = b.length :=
  put_length b off _ (by simpa using h)

/-- frame, byte level: a byte outside the field is not touched -/
theorem putWord_frame (b : Bytes) (off width v i : Nat) (h : off + width ≤ b.length)
    (hi : i < off ∨ off + width ≤ i) : (putWord b off width v)[i]? = b[i]? := by
  unfold putWord
  rw [put_getElem? b off _ (by simpa using h)]
  have : ¬ (off ≤ i ∧ i < off + (leEnc width v).length) := by simp; omega
  rw [if_neg this]

/-- the field reads back what was written -/
theorem getWord_putWord_same (b : Bytes) (off width v : Nat) (h : off + width ≤ b.length) :
    getWord (putWord b off width v) off width = v % 256 ^ width := by
  unfold getWord
  have : slice (putWord b off width v) off (off + width) = leEnc width v := by
    apply List.ext_getElem?
    intro k
    rw [slice_getElem?]
    unfold putWord
    by_cases hk : k < width
    · have h1 : k < off + width - off := by omega
      rw [if_pos h1, put_getElem? b off _ (by simpa using h)]
      have : off ≤ off + k ∧ off + k < off + (leEnc width v).length := by simp; omega
      rw [if_pos this]
      congr 1
      omega
    · have h1 : ¬ k < off + width - off := by omega
      rw [if_neg h1]
      exact (List.getElem?_eq_none (by simp; omega)).symm
  rw [this, leDec_leEnc]

/-- frame, word level: a field that does not overlap reads what it read before -/
theorem getWord_putWord_other (b : Bytes) (off width v o2 w2 : Nat) (h : off + width ≤ b.length)
    (hd : o2 + w2 ≤ off ∨ off + width ≤ o2) :
    getWord (putWord b off width v) o2 w2 = getWord b o2 w2 := by
  unfold getWord
  congr 1
  apply List.ext_getElem?
  intro k
  rw [slice_getElem?, slice_getElem?]
  split
  · exact putWord_frame b off width v (o2 + k) h (by omega)
  · rfl

theorem getWord_lt (b : Bytes) (off width : Nat) : getWord b off width < 256 ^ width := by
  unfold getWord
  have h1 := leDec_lt (slice b off (off + width))
  have h2 : (slice b off (off + width)).length ≤ width := by
    unfold slice
    simp
    omega
  exact Nat.lt_of_lt_of_le h1 (Nat.pow_le_pow_right (by decide) h2)

/-! ### the setters on the record -/

theorem wordsOf_chmodBytes (b : Bytes) (perm : Nat) (h : RecordWF b) :
    wordsOf (chmodBytes b perm) = { wordsOf b with mode := (getWord b 0x0 2 / 4096 * 4096 + perm) % 65536 } := by
  unfold RecordWF at h
  unfold chmodBytes wordsOf
  simp (disch := omega) only [getWord_putWord_other, getWord_putWord_same]
  simp

theorem wordsOf_chownBytes (b : Bytes) (uid gid : Option Nat) (h : RecordWF b) :
    wordsOf (chownBytes b uid gid) = { wordsOf b with
      uidLo := (uid.getD (attrsOf b).uid) % 65536, uidHi := (uid.getD (attrsOf b).uid) / 65536 % 65536,
      gidLo := (gid.getD (attrsOf b).gid) % 65536, gidHi := (gid.getD (attrsOf b).gid) / 65536 % 65536 } := by
  unfold RecordWF at h
  unfold chownBytes
  generalize uid.getD (attrsOf b).uid = u
  generalize gid.getD (attrsOf b).gid = g
  have l1 := putWord_length b 0x2 2 (u % 65536) (by omega)
  have l2 := putWord_length _ 0x78 2 (u / 65536 % 65536) (by omega : 0x78 + 2 ≤ (putWord b 0x2 2 (u % 65536)).length)
  have l3 := putWord_length _ 0x18 2 (g % 65536)
    (by omega : 0x18 + 2 ≤ (putWord (putWord b 0x2 2 (u % 65536)) 0x78 2 (u / 65536 % 65536)).length)
  unfold wordsOf
  simp (disch := omega) only [getWord_putWord_other, getWord_putWord_same]
  simp

theorem wordsOf_chtimesBytes (b : Bytes) (cr at' mt : Ts) (h : RecordWF b) :
    wordsOf (chtimesBytes b cr at' mt) = { wordsOf b with
      crtimeLo := tsLo cr % 4294967296, crtimeExtra := tsExtra cr % 4294967296,
      atimeLo := tsLo at' % 4294967296, atimeExtra := tsExtra at' % 4294967296,
      mtimeLo := tsLo mt % 4294967296, mtimeExtra := tsExtra mt % 4294967296 } := by
  unfold RecordWF at h
  unfold chtimesBytes
  have l1 := putWord_length b 0x8 4 (tsLo at') (by omega)
  have l2 := putWord_length _ 0x8c 4 (tsExtra at') (by omega : 0x8c + 4 ≤ (putWord b 0x8 4 (tsLo at')).length)
  have l3 := putWord_length _ 0x10 4 (tsLo mt)
    (by omega : 0x10 + 4 ≤ (putWord (putWord b 0x8 4 (tsLo at')) 0x8c 4 (tsExtra at')).length)
  have l4 := putWord_length _ 0x88 4 (tsExtra mt)
    (by omega : 0x88 + 4 ≤ (putWord (putWord (putWord b 0x8 4 (tsLo at')) 0x8c 4 (tsExtra at')) 0x10 4 (tsLo mt)).length)
  have l5 := putWord_length _ 0x90 4 (tsLo cr)
    (by omega : 0x90 + 4 ≤ (putWord (putWord (putWord (putWord b 0x8 4 (tsLo at')) 0x8c 4 (tsExtra at')) 0x10 4 (tsLo mt))
      0x88 4 (tsExtra mt)).length)
  unfold wordsOf
  simp (disch := omega) only [getWord_putWord_other, getWord_putWord_same]

theorem tsLo_lt (t : Ts) : tsLo t < 4294967296 := by unfold tsLo; omega
theorem tsExtra_lt (t : Ts) : tsExtra t < 4294967296 := by unfold tsExtra; omega

/-- Chmod on the record is Chmod on the attributes -/
theorem attrsOf_chmodBytes (b : Bytes) (perm : Nat) (h : RecordWF b) (hp : perm < 4096) :
    attrsOf (chmodBytes b perm) = chmod (attrsOf b) perm := by
  unfold attrsOf
  rw [wordsOf_chmodBytes b perm h]
  have hm : getWord b 0x0 2 < 65536 := getWord_lt b 0x0 2
  have e : (wordsOf b).mode = getWord b 0x0 2 := rfl
  simp only [dec, chmod, Attrs.mk.injEq, e, and_true]
  constructor <;> omega

theorem attrsOf_chownBytes (b : Bytes) (uid gid : Option Nat) (h : RecordWF b)
    (hu : ∀ x, uid = some x → x < 4294967296) (hg : ∀ x, gid = some x → x < 4294967296) :
    attrsOf (chownBytes b uid gid) = chown (attrsOf b) uid gid := by
  have h1 : getWord b 0x2 2 < 65536 := getWord_lt b 0x2 2
  have h2 : getWord b 0x78 2 < 65536 := getWord_lt b 0x78 2
  have h3 : getWord b 0x18 2 < 65536 := getWord_lt b 0x18 2
  have h4 : getWord b 0x7a 2 < 65536 := getWord_lt b 0x7a 2
  have hU : uid.getD (attrsOf b).uid < 4294967296 := by
    cases uid with
    | none => simp only [Option.getD_none, attrsOf, dec, wordsOf]; omega
    | some x => exact hu x rfl
  have hG : gid.getD (attrsOf b).gid < 4294967296 := by
    cases gid with
    | none => simp only [Option.getD_none, attrsOf, dec, wordsOf]; omega
    | some x => exact hg x rfl
  rw [show attrsOf (chownBytes b uid gid) = dec (wordsOf (chownBytes b uid gid)) from rfl, wordsOf_chownBytes b uid gid h]
  unfold chown
  generalize uid.getD (attrsOf b).uid = u at hU ⊢
  generalize gid.getD (attrsOf b).gid = g at hG ⊢
  simp only [attrsOf, dec, Attrs.mk.injEq, true_and, and_true]
  constructor <;> omega

theorem attrsOf_chtimesBytes (b : Bytes) (cr at' mt : Ts) (h : RecordWF b)
    (hc : TsWF cr) (ha : TsWF at') (hm : TsWF mt) :
    attrsOf (chtimesBytes b cr at' mt) = chtimes (attrsOf b) cr at' mt := by
  rw [show attrsOf (chtimesBytes b cr at' mt) = dec (wordsOf (chtimesBytes b cr at' mt)) from rfl,
    wordsOf_chtimesBytes b cr at' mt h]
  simp only [chtimes, attrsOf, dec, Nat.mod_eq_of_lt (tsLo_lt _), Nat.mod_eq_of_lt (tsExtra_lt _),
    ts_roundtrip_aux _ hc, ts_roundtrip_aux _ ha, ts_roundtrip_aux _ hm]

/-- byte-level frame of the three setters: every byte of the record outside the setter's words is the byte
    that was there (the type nibble shares the mode word with the permission bits; it is kept by `attrsOf_chmodBytes`) -/
theorem chmodBytes_frame (b : Bytes) (perm i : Nat) (h : RecordWF b) (hi : 2 ≤ i) :
    (chmodBytes b perm)[i]? = b[i]? := by
  unfold RecordWF at h
  exact putWord_frame b 0x0 2 _ i (by omega) (by omega)

theorem chownBytes_frame (b : Bytes) (uid gid : Option Nat) (i : Nat) (h : RecordWF b)
    (hi : i < 0x2 ∨ (0x4 ≤ i ∧ i < 0x18) ∨ (0x1a ≤ i ∧ i < 0x78) ∨ 0x7c ≤ i) :
    (chownBytes b uid gid)[i]? = b[i]? := by
  unfold RecordWF at h
  unfold chownBytes
  generalize uid.getD (attrsOf b).uid = u
  generalize gid.getD (attrsOf b).gid = g
  have l1 := putWord_length b 0x2 2 (u % 65536) (by omega)
  have l2 := putWord_length _ 0x78 2 (u / 65536 % 65536) (by omega : 0x78 + 2 ≤ (putWord b 0x2 2 (u % 65536)).length)
  have l3 := putWord_length _ 0x18 2 (g % 65536)
    (by omega : 0x18 + 2 ≤ (putWord (putWord b 0x2 2 (u % 65536)) 0x78 2 (u / 65536 % 65536)).length)
  rw [putWord_frame _ 0x7a 2 _ i (by omega) (by omega), putWord_frame _ 0x18 2 _ i (by omega) (by omega),
    putWord_frame _ 0x78 2 _ i (by omega) (by omega), putWord_frame _ 0x2 2 _ i (by omega) (by omega)]

theorem chtimesBytes_frame (b : Bytes) (cr at' mt : Ts) (i : Nat) (h : RecordWF b)
    (hi : i < 0x8 ∨ (0xc ≤ i ∧ i < 0x10) ∨ (0x14 ≤ i ∧ i < 0x88) ∨ 0x98 ≤ i) :
    (chtimesBytes b cr at' mt)[i]? = b[i]? := by
  unfold RecordWF at h
  unfold chtimesBytes
  have l1 := putWord_length b 0x8 4 (tsLo at') (by omega)
  have l2 := putWord_length _ 0x8c 4 (tsExtra at') (by omega : 0x8c + 4 ≤ (putWord b 0x8 4 (tsLo at')).length)
  have l3 := putWord_length _ 0x10 4 (tsLo mt)
    (by omega : 0x10 + 4 ≤ (putWord (putWord b 0x8 4 (tsLo at')) 0x8c 4 (tsExtra at')).length)
  have l4 := putWord_length _ 0x88 4 (tsExtra mt)
    (by omega : 0x88 + 4 ≤ (putWord (putWord (putWord b 0x8 4 (tsLo at')) 0x8c 4 (tsExtra at')) 0x10 4 (tsLo mt)).length)
  have l5 := putWord_length _ 0x90 4 (tsLo cr)
    (by omega : 0x90 + 4 ≤ (putWord (putWord (putWord (putWord b 0x8 4 (tsLo at')) 0x8c 4 (tsExtra at')) 0x10 4 (tsLo mt))
      0x88 4 (tsExtra mt)).length)
  rw [putWord_frame _ 0x94 4 _ i (by omega) (by omega), putWord_frame _ 0x90 4 _ i (by omega) (by omega),
    putWord_frame _ 0x88 4 _ i (by omega) (by omega), putWord_frame _ 0x10 4 _ i (by omega) (by omega),
    putWord_frame _ 0x8c 4 _ i (by omega) (by omega), putWord_frame _ 0x8 4 _ i (by omega) (by omega)]

end Diskfs.Ext4.InodeCodec
