/-
  C20 helper lemmas: the checksum verification decisions of the Go reader (Model/Ext4/CsumMirror.lean) against
  the SPEC reader's (ImageSpec.openFs / gdRead / dirTailOk), as functions of the bytes.
-/
import DiskfsModel.Model.Ext4.CsumMirror
import DiskfsModel.Proofs.Ext4InodeDecode
namespace Diskfs.Ext4.InodeDec
open Diskfs Diskfs.Ext4.Reader Diskfs.Ext4.Spec

/-- crc over a range of the image with positions skipped = crc32c of those bytes with the positions cleared -/
theorem crcRange_mapIdx (i : Img) (zero : Nat → Bool) (o n : Nat) (c : UInt32) :
    i.crcRange zero o n c = crc32c c ((i.bytes o n).mapIdx fun k x => if zero (o + k) then 0 else x) := by
  rw [crcRange_eq]
  congr 1
  apply List.ext_getElem?
  intro k
  rw [List.getElem?_mapIdx]
  by_cases hk : k < n
  · rw [List.getElem?_map, List.getElem?_range hk, bytes_getElem? i o n k hk]
    simp
  · rw [List.getElem?_eq_none (by simp; omega), List.getElem?_eq_none (by rw [bytes_length]; omega)]
    rfl

theorem take_bytes (i : Img) (o n m : Nat) (h : m ≤ n) : (i.bytes o n).take m = i.bytes o m := by
  have := slice_bytes i o n 0 m (by omega)
  simpa [slice] using this

theorem sb_csum_gen (i : Img) (o n m : Nat) (c : UInt32) (hm : m + 4 ≤ n) :
    ((i.crcRange (fun _ => false) o m c).toNat == i.u32 (o + m)) =
      ((crc32c c ((i.bytes o n).take m)).toNat == le32 (i.bytes o n) m) := by
  rw [crcRange_mapIdx, take_bytes i o n m (by omega), le32_bytes i o n m hm]
  congr 3
  apply List.ext_getElem?
  intro k
  rw [List.getElem?_mapIdx]
  cases (i.bytes o m)[k]? <;> simp

/-- superblock: the SPEC reader's check is the mirror's -/
theorem sb_csum_eq (i : Img) :
    ((i.crcRange (fun _ => false) 1024 0x3fc 0xFFFFFFFF).toNat == i.u32 (1024 + 0x3fc)) =
      goSbCsumOk (i.bytes 1024 1024) :=
  sb_csum_gen i 1024 1024 0x3fc 0xFFFFFFFF (by decide)

/-- group descriptor: the SPEC reader's check over the image is the format's check over the descriptor bytes -/
theorem gd_csum_spec (img : Img) (g : Geo) (seed : UInt32) (grp : Nat) (h32 : 0x20 ≤ g.gdSize) :
    (gdRead img g seed grp).2 = specGdCsumOk seed grp (img.bytes (g.gdOff grp) g.gdSize) := by
  unfold gdRead specGdCsumOk
  simp only []
  rw [crcRange_mapIdx, le16_bytes img (g.gdOff grp) g.gdSize 0x1e (by omega)]
  congr 4
  unfold clearGd
  apply List.ext_getElem?
  intro k
  rw [List.getElem?_mapIdx, List.getElem?_mapIdx]
  cases (img.bytes (g.gdOff grp) g.gdSize)[k]? <;> simp

theorem leEnc4_small (n : Nat) (h : n < 65536) : leEnc 4 n = leEnc 2 (n % 65536) ++ [0, 0] := by
  have h1 : n % 65536 = n := Nat.mod_eq_of_lt h
  have h2 : n / 256 / 256 = 0 := by omega
  simp [leEnc, h1, h2]

/-- … and the Go reader's check is the format's for the two descriptor sizes mke2fs makes and group numbers
    below 65536 (the Go code puts the group number into the checksum as 16 bits) -/
theorem gd_csum_mirror (seed : UInt32) (grp gdSize : Nat) (raw : Bytes) (hl : raw.length = gdSize)
    (hs : gdSize = 32 ∨ gdSize = 64) (hg : grp < 65536) :
    goGdCsumOk seed grp gdSize raw = specGdCsumOk seed grp raw := by
  unfold goGdCsumOk specGdCsumOk le32Bytes
  rw [leEnc4_small grp hg]
  have : (if gdSize = 64 then raw.take 64 else raw.take 32) = raw := by
    rcases hs with h | h
    · rw [if_neg (by omega)]; exact List.take_of_length_le (by omega)
    · rw [if_pos h]; exact List.take_of_length_le (by omega)
  simp only [this]

/-- directory leaf: where the block ends in the checksum tail, the SPEC reader's check is the Go reader's -/
theorem dir_csum_eq (f : Fs) (d : Inode) (blk : Bytes) (h12 : 12 ≤ f.bs)
    (ht : le32 blk (f.bs - 12) = 0 ∧ le16 blk (f.bs - 12 + 4) = 12 ∧ u8 blk (f.bs - 12 + 6) = 0 ∧
      u8 blk (f.bs - 12 + 7) = 0xde) :
    dirTailOk f d blk = some (goDirCsumOk f.seed d.num d.gen f.bs blk) := by
  unfold dirTailOk goDirCsumOk
  simp only []
  rw [if_pos ht]
  have : f.bs - 12 + 8 = f.bs - 4 := by omega
  rw [this]

/-- the checksum seed: the Go reader takes s_checksum_seed whenever it is not zero, the format whenever the
    csum_seed feature is set; the same seed exactly when the field is non-zero with the feature and zero without -/
theorem seed_eq (feat : Bool) (sb : Bytes) (h : feat = true ↔ le32 sb 0x270 ≠ 0) : goSeed sb = specSeed feat sb := by
  unfold goSeed specSeed
  cases feat with
  | true => have := h.1 rfl; simp [this]
  | false =>
    have : le32 sb 0x270 = 0 := by
      by_cases hz : le32 sb 0x270 = 0
      · exact hz
      · exact absurd (h.2 hz) (by simp)
    simp [this]

end Diskfs.Ext4.InodeDec
