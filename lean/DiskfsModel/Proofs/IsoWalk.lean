import DiskfsModel.Proofs.IsoCompose
namespace Diskfs.Iso

/-! ### what the depth-first listing contains -/

/-- `c₁, c₂, …`: each a child of the one before (the first a child of `d`), all but the last directories -/
def PTree.Chain (t : PTree) : Nat → List Nat → Prop
  | _, [] => True
  | d, c :: r => c ∈ t.kids d ∧ (r ≠ [] → (t.ent c).isDir = true) ∧ t.Chain c r

/-- the identifiers along a chain -/
def PTree.names (t : PTree) (l : List Nat) : List Bytes := l.map fun c => (t.ent c).name

/-- every entry reached by a chain of at most `fuel` steps below `d` is listed, under the path made of the
    identifiers along the chain -/
theorem walk_contains (t : PTree) : ∀ (chain : List Nat) (fuel : Nat) (pre : List Bytes) (d : Nat) (hne : chain ≠ []),
    t.Chain d chain → chain.length ≤ fuel →
    t.reOf (pre ++ t.names chain.dropLast) (chain.getLast hne) ∈ t.walk fuel pre d := by
  intro chain
  induction chain with
  | nil => intro _ _ _ h; exact absurd rfl h
  | cons c r ih =>
    intro fuel pre d hne hch hlen
    cases fuel with
    | zero => simp at hlen
    | succ f =>
      obtain ⟨hc, hdir, hrest⟩ := hch
      simp only [PTree.walk, List.mem_flatMap]
      refine ⟨c, hc, ?_⟩
      cases r with
      | nil =>
        simp only [List.dropLast_singleton, PTree.names, List.map_nil, List.append_nil, List.getLast_singleton]
        exact List.mem_cons_self ..
      | cons c2 r2 =>
        have hd := hdir (by simp)
        have := ih f (pre ++ [(t.ent c).name]) c (by simp) hrest (by simp at hlen ⊢; omega)
        rw [if_pos hd]
        apply List.mem_cons_of_mem
        simp only [List.dropLast_cons_cons, PTree.names, List.map_cons, List.getLast_cons_cons] at this ⊢
        rw [List.append_assoc] at this
        exact this

/-- a chain in the workspace: each entry a child of the one before, all but the last directories -/
def WTree.Chain (w : WTree) : Nat → List Nat → Prop
  | _, [] => True
  | d, c :: r => c ∈ w.kids d ∧ (r ≠ [] → w.isDir c = true) ∧ w.Chain c r

theorem chain_ptree (w : WTree) (fin : Nat → Nat → Nm) (loc size : Nat → Nat) :
    ∀ (l : List Nat) (d : Nat), w.Chain d l → (w.ptree fin loc size).Chain d l := by
  intro l
  induction l with
  | nil => intro _ _; trivial
  | cons c r ih => intro d h; exact ⟨h.1, h.2.1, ih c h.2.2⟩

/-- **every file and directory of the workspace is in the reader's listing, under the path of its mapped
    names, with its bytes** -/
theorem compose_lists (w : WTree) (order : Nat → List Nm) (fin : Nat → Nat → Nm) (bs : Nat) (o : Order)
    (sysId volId tail : Bytes) (hbs : 2048 ≤ bs) (hbs16 : bs < 2 ^ 16) (hok : w.OK o) (hr : w.Resolved order fin)
    (hlim : w.total fin bs o * bs < 2 ^ 32) (hs : sysId.length = 32) (hv : volId.length = 32) (ht : tail.length = 1858)
    (d0 : Dev) (fuel : Nat) (hfit : w.Fits fuel 0) (chain : List Nat) (hne : chain ≠ []) (hch : w.Chain 0 chain)
    (hl : chain.length ≤ fuel) :
    ∃ es, readImageP ((w.image fin bs o sysId volId tail).imageOn d0) (16 * bs) fuel =
        some ((w.image fin bs o sysId volId tail).pvd, es) ∧
      ({ path := chain.map (w.ident fin), isDir := w.isDir (chain.getLast hne), loc := w.loc fin bs o (chain.getLast hne),
         size := w.size fin bs (chain.getLast hne),
         data := if w.isDir (chain.getLast hne) then [] else w.content (chain.getLast hne) } : RE) ∈ es := by
  refine ⟨_, compose_reader w order fin bs o sysId volId tail hbs hbs16 hok hr hlim hs hv ht d0 fuel hfit, ?_⟩
  have := walk_contains (w.ptree fin (w.loc fin bs o) (w.size fin bs)) chain fuel [] 0 hne
    (chain_ptree w fin _ _ chain 0 hch) hl
  have hp : chain.map (w.ident fin) = [] ++ (w.ptree fin (w.loc fin bs o) (w.size fin bs)).names chain.dropLast ++
      [((w.ptree fin (w.loc fin bs o) (w.size fin bs)).ent (chain.getLast hne)).name] := by
    have : chain = chain.dropLast ++ [chain.getLast hne] := (List.dropLast_concat_getLast hne).symm
    conv => lhs; rw [this]
    simp [PTree.names, WTree.ptree, WTree.pent]
  rw [hp]
  exact this

end Diskfs.Iso
