/-
  Flat (byte-offset) view of what `Table.Write` emits for a fresh table on a disk that holds both
  copies: the exact write list with natural-number offsets, the geometry `initTable` computes, and
  what each of the five regions of the resulting device holds — for EVERY prior device content.
  Helper for Props/C02 (gpt_written_valid, gpt_write_idempotent) and Props/C09 (flat refinement).
-/
import DiskfsModel.Proofs.GptWhole
set_option linter.unusedSimpArgs false
set_option linter.unusedVariables false
namespace Diskfs.Gpt

/-! ### pairwise disjoint write lists: every write is still readable at the end -/

/-- two writes touch disjoint byte ranges -/
def Disj (a b : Wr) : Prop := a.off + a.data.length ≤ b.off ∨ b.off + b.data.length ≤ a.off

theorem readAt_applyWrs_mem (d : Dev) (ws : List Wr) (hp : ws.Pairwise Disj) (w : Wr) (hw : w ∈ ws) :
    readAt (applyWrs d ws) w.off w.data.length = w.data := by
  induction ws generalizing d with
  | nil => cases hw
  | cons x xs ih =>
    have hcons : applyWrs d (x :: xs) = applyWrs (applyWr d x) xs := rfl
    rw [hcons]
    rw [List.pairwise_cons] at hp
    rcases List.mem_cons.1 hw with h | h
    · subst h
      rw [readAt_applyWrs_disjoint _ xs _ _ (fun y hy => hp.1 y hy)]
      exact readAt_applyWr_same d w
    · exact ih _ hp.2 h

/-! ### the entry array is always 128 × 128 bytes -/

theorem slotBytes_length (c : Cfg) (ps : List Part) (es i : Nat) (b : Bytes) (h : slotBytes c ps es i = .ok b) :
    b.length = es := by
  unfold slotBytes at h
  split at h
  · simp only [Res.ok.injEq] at h; subst h; simp
  · obtain ⟨e, _, hs⟩ := bind_ok_inv _ _ _ h
    simp only [Res.pure_eq, Res.ok.injEq] at hs
    subst hs
    simp only [padTo, List.length_append, List.length_take, zeros_length]
    omega

theorem slotsFrom_length (c : Cfg) (ps : List Part) (es : Nat) :
    ∀ (is : List Nat) (b : Bytes), slotsFrom c ps es is = .ok b → b.length = es * is.length := by
  intro is
  induction is with
  | nil => intro b h; simp only [slotsFrom, Res.ok.injEq] at h; subst h; simp
  | cons i is ih =>
    intro b h
    simp only [slotsFrom] at h
    obtain ⟨s, hs, h2⟩ := bind_ok_inv _ _ _ h
    obtain ⟨rest, hrest, h3⟩ := bind_ok_inv _ _ _ h2
    simp only [Res.pure_eq, Res.ok.injEq] at h3
    subst h3
    rw [List.length_append, slotBytes_length c ps es i s hs, ih rest hrest, List.length_cons]
    rw [Nat.mul_succ]; omega

/-! ### geometry of a fresh table -/

/-- what `initTable` computes for a fresh table on a disk that holds both copies (no uint64 wrap) -/
theorem initTable_geo (t0 : Table) (size : Nat) (hf : Fresh t0) (hl : t0.lss = 512 ∨ t0.lss = 4096)
    (hsz : size < two63) (hmin : (2 * (16384 / t0.lss) + 3) * t0.lss ≤ size) :
    (initTable t0 size).lss = t0.lss ∧ (initTable t0 size).primaryHeader = 1 ∧ (initTable t0 size).arrCount = 128 ∧
    (initTable t0 size).entSize = 128 ∧ (initTable t0 size).guid = t0.guid ∧ (initTable t0 size).parts = t0.parts ∧
    (initTable t0 size).pmbr = t0.pmbr ∧
    (initTable t0 size).secondaryHeader = size / t0.lss - 1 ∧
    (initTable t0 size).firstData = 2 + 16384 / t0.lss ∧
    (initTable t0 size).lastData = size / t0.lss - 1 - 16384 / t0.lss - 1 ∧
    partSectors (initTable t0 size) = 16384 / t0.lss ∧
    arraySector (initTable t0 size) true = 2 ∧
    arraySector (initTable t0 size) false = size / t0.lss - 1 - 16384 / t0.lss := by
  unfold arraySector partSectors initTable
  simp only [hf.ac, hf.es, hf.ph, hf.sh, hf.fd, hf.ld, if_true]
  rcases hl with h | h
  all_goals
    simp only [h, ite_self, Bool.false_eq_true, if_false, show (4096 : Nat) ≠ 0 by decide,
      show (512 : Nat) ≠ 0 by decide] at hmin ⊢
    simp only [u64, u64sub, two64, two63] at *
    refine ⟨trivial, trivial, trivial, trivial, trivial, trivial, trivial, ?_, ?_, ?_, ?_, ?_, ?_⟩ <;>
      first | omega | trivial

/-- the four GPT writes in program order, with natural-number byte offsets -/
def coreWrs (crc : Bytes → Nat) (ti : Table) (lss size : Nat) (arr : Bytes) : List Wr :=
  [⟨(size / lss - 1 - 16384 / lss) * lss, arr⟩, ⟨(size / lss - 1) * lss, hdrEnc crc ti false arr⟩,
   ⟨2 * lss, arr⟩, ⟨lss, hdrEnc crc ti true arr⟩]

/-- the protective-MBR write, if the table asks for one -/
def pmWrs (c : Cfg) (ti : Table) : List Wr := if ti.pmbr then [⟨446, pmbrEnc c ti⟩] else []

theorem toI64_mul_nat (a b : Nat) (h : a * b < two63) : toI64 ((a : Int) * (b : Int)) = ((a * b : Nat) : Int) := by
  rw [← Int.natCast_mul]
  exact toI64_of_lt _ h

/-- the write list of a fresh table, exactly -/
theorem write_fresh_exact (c : Cfg) (crc : Bytes → Nat) (t0 : Table) (size : Nat) (ws : List Wr) (t : Table)
    (hf : Fresh t0) (hl : t0.lss = 512 ∨ t0.lss = 4096) (hsz : size < two63)
    (hmin : (2 * (16384 / t0.lss) + 3) * t0.lss ≤ size)
    (hw : write c crc t0 size = .ok (ws, t)) :
    ∃ arr ps, arrEnc c (initTable t0 size) = .ok (arr, ps) ∧ arr.length = 16384 ∧
      t = { initTable t0 size with parts := ps } ∧
      ws = (if c.pmbrLast then coreWrs crc (initTable t0 size) t0.lss size arr ++ pmWrs c (initTable t0 size)
            else pmWrs c (initTable t0 size) ++ coreWrs crc (initTable t0 size) t0.lss size arr) := by
  obtain ⟨il, iph, iac, ies, igu, ipa, ipm, ish, ifd, ild, ips, ia1, ia2⟩ := initTable_geo t0 size hf hl hsz hmin
  unfold write at hw
  simp only [hf.init, Bool.false_eq_true, if_false] at hw
  generalize hti : initTable t0 size = ti at *
  have hlpos : 0 < t0.lss := by rcases hl with h | h <;> omega
  have hdiv : size / t0.lss * t0.lss ≤ size := Nat.div_mul_le_self size t0.lss
  have hq : 2 * (16384 / t0.lss) + 3 ≤ size / t0.lss := (Nat.le_div_iff_mul_le hlpos).2 hmin
  split at hw
  · simp at hw
  · split at hw
    · simp at hw
    · simp at hw
    · rename_i arr ps harr
      have hlen : arr.length = 16384 := by
        unfold arrEnc at harr
        split at harr
        · simp at harr
        · obtain ⟨b, hb, hpair⟩ := bind_ok_inv _ _ _ harr
          simp only [Res.pure_eq, Res.ok.injEq, Prod.mk.injEq] at hpair
          rw [← hpair.1, slotsFrom_length c _ _ _ b hb, ies, iac]
          simp
      -- the offsets, without wrap
      have b1 : (size / t0.lss - 1 - 16384 / t0.lss) * t0.lss < two63 := by
        have : (size / t0.lss - 1 - 16384 / t0.lss) * t0.lss ≤ size / t0.lss * t0.lss :=
          Nat.mul_le_mul_right _ (by omega)
        omega
      have b2 : (size / t0.lss - 1) * t0.lss < two63 := by
        have : (size / t0.lss - 1) * t0.lss ≤ size / t0.lss * t0.lss := Nat.mul_le_mul_right _ (by omega)
        omega
      have b3 : 2 * t0.lss < two63 := by
        simp only [two63]; rcases hl with h | h <;> omega
      have o1 : toI64 ((ti.lss : Int) * toI64 ((arraySector ti false : Nat) : Int)) =
          (((size / t0.lss - 1 - 16384 / t0.lss) * t0.lss : Nat) : Int) := by
        rw [ia2, il, toI64_of_lt _ (by
          have : size / t0.lss - 1 - 16384 / t0.lss ≤ (size / t0.lss - 1 - 16384 / t0.lss) * t0.lss :=
            Nat.le_mul_of_pos_right _ hlpos
          omega), toI64_mul_nat _ _ (by rw [Nat.mul_comm]; exact b1), Nat.mul_comm]
      have o2 : toI64 (toI64 ((ti.secondaryHeader : Nat) : Int) * (ti.lss : Int)) =
          (((size / t0.lss - 1) * t0.lss : Nat) : Int) := by
        rw [ish, il, toI64_of_lt _ (by
          have : size / t0.lss - 1 ≤ (size / t0.lss - 1) * t0.lss := Nat.le_mul_of_pos_right _ hlpos
          omega), toI64_mul_nat _ _ b2]
      have o3 : toI64 ((ti.lss : Int) * toI64 ((arraySector ti true : Nat) : Int)) = ((2 * t0.lss : Nat) : Int) := by
        rw [ia1, il, toI64_of_lt _ (by simp only [two63]; omega), toI64_mul_nat _ _ (by rw [Nat.mul_comm]; exact b3), Nat.mul_comm]
      rw [o1, o2, o3] at hw
      split at hw
      · rename_i hneg
        rcases hneg with h | h | h <;> exact absurd h (Int.not_lt.2 (Int.natCast_nonneg _))
      · simp only [Res.ok.injEq, Prod.mk.injEq, Int.toNat_natCast] at hw
        obtain ⟨h1, h2⟩ := hw
        refine ⟨arr, ps, harr, hlen, h2.symm, ?_⟩
        rw [← h1]
        simp only [coreWrs, pmWrs, il]

/-- the repaired Write (`minDiskCheck`) accepts a fresh table only on a disk of at least 2·p+3 sectors
    (LBA 0, two headers, two arrays): the premise `hmin` of the theorems below is exactly what it demands -/
theorem write_ok_min_size (c : Cfg) (crc : Bytes → Nat) (t0 : Table) (size : Nat) (ws : List Wr) (t : Table)
    (hf : Fresh t0) (hl : t0.lss = 512 ∨ t0.lss = 4096) (hsz : size < two63) (hc : c.minDiskCheck = true)
    (hw : write c crc t0 size = .ok (ws, t)) :
    (2 * (16384 / t0.lss) + 3) * t0.lss ≤ size := by
  have hlpos : 0 < t0.lss := by rcases hl with h | h <;> omega
  apply Classical.byContradiction
  intro hlt
  have hq : size / t0.lss < 2 * (16384 / t0.lss) + 3 := (Nat.div_lt_iff_lt_mul hlpos).2 (by omega)
  have hp : 16384 / t0.lss ≤ 32 := by rcases hl with h | h <;> simp [h]
  unfold write at hw
  simp only [hf.init, Bool.false_eq_true, if_false, hc, Bool.true_and, decide_eq_true_eq] at hw
  have hph : (initTable t0 size).primaryHeader = 1 := by unfold initTable; simp only [hf.ph, if_true]
  have hlss : (initTable t0 size).lss = t0.lss := by
    unfold initTable; rcases hl with h | h <;> simp [h]
  have hps : partSectors (initTable t0 size) = 16384 / t0.lss := by
    unfold partSectors initTable
    simp only [hf.ac, hf.es, if_true]
    rcases hl with h | h <;> simp [h, u64, two64]
  have hsh : (initTable t0 size).secondaryHeader = u64sub (size / t0.lss) 1 := by
    unfold initTable
    simp only [hf.sh, if_true]
    have : u64 size = size := by simp only [u64, two64, two63] at *; omega
    rw [this]
    rcases hl with h | h <;> simp [h]
  generalize initTable t0 size = ti at *
  by_cases h0 : size / t0.lss = 0
  · rw [h0] at hsh
    have hv : ti.secondaryHeader = 18446744073709551615 := by rw [hsh]; decide
    split at hw
    · cases hw
    · split at hw
      · cases hw
      · cases hw
      · split at hw
        · cases hw
        · rename_i hneg
          apply hneg
          right; left
          rw [hv, hlss]
          rcases hl with h | h <;> rw [h] <;> decide
  · have hv : ti.secondaryHeader = size / t0.lss - 1 := by
      rw [hsh]
      generalize size / t0.lss = q at *
      have hq64 : q < two64 := by simp only [two64]; omega
      unfold u64sub
      rw [Nat.mod_eq_of_lt hq64, show (1 % two64) = 1 from rfl]
      have e : q + two64 - 1 = (q - 1) + two64 := by omega
      rw [e, Nat.add_mod_right, Nat.mod_eq_of_lt (by omega)]
    rw [if_pos (by rw [hv, hph, hps]; omega)] at hw
    cases hw

end Diskfs.Gpt
