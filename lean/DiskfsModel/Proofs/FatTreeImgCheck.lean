/-
  C08 over the PARSED entries: in the bytes of the volume (`image`) every directory entry found by
  parsing - at every level, from the root - has a chain of in-range clusters that ends in an
  end-of-chain mark and is long enough for the size the entry records (`reopenCheck`).
  Same induction as `reopen_kids` (Proofs/FatTreeImg.lean).
  Core Lean only.
-/
import DiskfsModel.Proofs.FatTreeImg
namespace Diskfs.Fat

section check
variable {eqn : Spec.Name → Spec.Name → Bool} {X : ImgParams} {g : TGeom} {fuel : Nat} {m : CMap} {D d : Dev}

theorem checkLvl_cons_real (depth : Nat) (e : DirEntry) (es : List DirEntry) (h : isRealEntry e = true) :
    checkLvl g fuel m D (depth + 1) (e :: es) =
      ((entryChainOkB g fuel m e &&
        (if e.isDir then
          match walk g.f.kind g.f.max m fuel e.cluster with
          | .ok c => checkLvl g fuel m D depth (parseDir (chainBytes D g.f.io c))
          | _ => false
        else true)) && checkLvl g fuel m D (depth + 1) es) := by
  show ((e :: es).filter isRealEntry).all _ = _
  rw [List.filter_cons_of_pos h, List.all_cons]
  rfl

theorem checkLvl_skip (depth : Nat) (pre es : List DirEntry) (h : ∀ e ∈ pre, isRealEntry e = false) :
    checkLvl g fuel m D depth (pre ++ es) = checkLvl g fuel m D depth es := by
  cases depth with
  | zero => rfl
  | succ depth =>
    have : pre.filter isRealEntry = [] := by
      rw [List.filter_eq_nil_iff]
      intro a ha
      rw [h a ha]; simp
    simp [checkLvl, List.filter_append, this]

theorem entry_ok_of_chain (hg : TGeomOk g) {e : DirEntry} {c : List Nat}
    (hch : ChainOk g.f.kind g.f.lim m c) (hlen : c.length ≤ fuel) (hcl : e.cluster = c.headD 0)
    (hsz : e.size ≤ c.length * g.f.io.bpc) : entryChainOkB g fuel m e = true := by
  unfold entryChainOkB
  rw [hcl, walk_complete (fuel := fuel) hg.lim hg.max hch hlen]
  simp only [Bool.and_eq_true, decide_eq_true_eq]
  exact ⟨(chainOkB_iff c).2 hch, hsz⟩

mutual
theorem check_node (hX : ImgParamsOk X g) (hg : TGeomOk g) (t : TNode) (par depth : Nat) (hpar : par < 4294967296)
    (hok : t.ImgOk X g) (hwf : t.WF eqn g)
    (h : SubOk X g fuel m D d t.owners (t.jobs X g.f.io.bpc par) t.fileOwners) :
    (entryChainOkB g fuel m (entOf X t) &&
      (if (entOf X t).isDir then
        match walk g.f.kind g.f.max m fuel (entOf X t).cluster with
        | .ok c => checkLvl g fuel m D depth (parseDir (chainBytes D g.f.io c))
        | _ => false
      else true)) = true := by
  cases t with
  | file n c sz =>
    rw [imgOk_file] at hok
    rw [wf_file] at hwf
    obtain ⟨hch, hlen⟩ := h.chains c (by rw [owners_file]; exact List.mem_cons_self)
    have hdir : (entOf X (.file n c sz)).isDir = false := (mkEnt_isDir hok.1 _ _).1
    have hcov : sz ≤ c.length * g.f.io.bpc := by
      have h1 := clusterCount_covers sz g.f.io.bpc hg.bpc
      have h2 : clusterCount g.f.io.bpc sz ≤ c.length := by rw [hwf]; exact Nat.le_max_left _ _
      exact Nat.le_trans h1 (Nat.mul_le_mul_right _ h2)
    rw [entry_ok_of_chain hg hch hlen rfl hcov, hdir]
    simp
  | dir n c ks =>
    rw [imgOk_dir] at hok
    rw [wf_dir] at hwf
    obtain ⟨hch, hlen⟩ := h.chains c (by rw [owners_dir]; exact List.mem_cons_self)
    have hw := walk_complete (fuel := fuel) hg.lim hg.max hch hlen
    have hwc : walk g.f.kind g.f.max m fuel (entOf X (.dir n c ks)).cluster = .ok c := hw
    have hdir : (entOf X (.dir n c ks)).isDir = true := (mkEnt_isDir hok.1 _ _).2
    have hhead := chainOk_head hch
    have hh32 : c.headD 0 < 4294967296 := Nat.lt_of_lt_of_le hhead.2 hX.lim32
    have hjob := h.dirs (c, serDir g.f.io.bpc (dots X (c.headD 0) par ++ ks.map (entOf X)))
      (by rw [jobs_dir]; exact List.mem_cons_self)
    simp only at hjob
    have hsub : SubOk X g fuel m D d (kidsOwners ks) (kidsJobs X g.f.io.bpc (c.headD 0) ks) (kidsFileOwners ks) :=
      ⟨fun o ho => h.chains o (by rw [owners_dir]; exact List.mem_cons_of_mem _ ho),
       fun j hj => h.dirs j (by rw [jobs_dir]; exact List.mem_cons_of_mem _ hj),
       fun o ho => h.files o (by rw [fileOwners_dir]; exact ho)⟩
    have hwfall : ∀ e ∈ dots X (c.headD 0) par ++ ks.map (entOf X), e.WF := by
      intro e he
      rcases List.mem_append.1 he with he | he
      · exact dots_wf hX.dot _ _ hh32 hpar e he
      · exact kids_ent_wf hX ks hok.2 (fun o ho => (hsub.chains o ho).1) e he
    have hsz : (entOf X (.dir n c ks)).size ≤ c.length * g.f.io.bpc := Nat.zero_le _
    rw [entry_ok_of_chain hg hch hlen rfl hsz, hdir, hwc]
    simp only [if_true, Bool.true_and, hjob]
    rw [dir_parse_ser _ _ hwfall hg.bpc, checkLvl_skip _ _ _ (dots_skip X _ _)]
    exact check_kids hX hg ks (c.headD 0) depth hh32 hok.2 hwf hsub
theorem check_kids (hX : ImgParamsOk X g) (hg : TGeomOk g) (ks : List TNode) (par depth : Nat) (hpar : par < 4294967296)
    (hok : kidsImgOk X g ks) (hwf : kidsWF eqn g ks)
    (h : SubOk X g fuel m D d (kidsOwners ks) (kidsJobs X g.f.io.bpc par ks) (kidsFileOwners ks)) :
    checkLvl g fuel m D depth (ks.map (entOf X)) = true := by
  cases ks with
  | nil => cases depth <;> simp [checkLvl]
  | cons t ks =>
    cases depth with
    | zero => rfl
    | succ depth' =>
      rw [kidsImgOk_cons] at hok
      rw [kidsWF_cons] at hwf
      have hreal : isRealEntry (entOf X t) = true := by
        cases t with
        | file n c sz => exact mkEnt_real ((imgOk_file X g n c sz).1 hok.1).1 0 _ _ (Or.inl rfl)
        | dir n c ks' => exact mkEnt_real ((imgOk_dir X g n c ks').1 hok.1).1 16 _ _ (Or.inr rfl)
      have h1 : SubOk X g fuel m D d t.owners (t.jobs X g.f.io.bpc par) t.fileOwners :=
        ⟨fun o ho => h.chains o (by rw [kidsOwners_cons]; exact List.mem_append_left _ ho),
         fun j hj => h.dirs j (by rw [kidsJobs_cons]; exact List.mem_append_left _ hj),
         fun o ho => h.files o (by rw [kidsFileOwners_cons]; exact List.mem_append_left _ ho)⟩
      have h2 : SubOk X g fuel m D d (kidsOwners ks) (kidsJobs X g.f.io.bpc par ks) (kidsFileOwners ks) :=
        ⟨fun o ho => h.chains o (by rw [kidsOwners_cons]; exact List.mem_append_right _ ho),
         fun j hj => h.dirs j (by rw [kidsJobs_cons]; exact List.mem_append_right _ hj),
         fun o ho => h.files o (by rw [kidsFileOwners_cons]; exact List.mem_append_right _ ho)⟩
      rw [List.map_cons, checkLvl_cons_real _ _ _ hreal, check_node hX hg t par depth' hpar hok.1 hwf.1 h1,
        check_kids hX hg ks par (depth' + 1) hpar hok.2 hwf.2.2 h2]
      rfl
end

end check

/-- **the raw check passes on the image**, to any depth -/
theorem reopenCheck_image {eqn : Spec.Name → Spec.Name → Bool} {X : ImgParams} {g : TGeom} {fuel depth : Nat} {s : DirSt}
    (hX : ImgParamsOk X g) (hg : TGeomOk g) (hfuel : g.f.lim - 2 ≤ fuel)
    (h : TInv eqn g s) (hfit : TFit g s) (hok : kidsImgOk X g s.kids) :
    reopenCheck g fuel depth s.m (image X g s) (s.chain.headD 0) = true := by
  have hInv := h.table
  have hcf := inv_chain_fuel hInv hfuel
  obtain ⟨hdirs, hfiles, hfixed⟩ := image_facts hX hg hfuel h hfit hok
  have hsub : SubOk X g fuel s.m (image X g s) s.d (kidsOwners s.kids)
      (kidsJobs X g.f.io.bpc (rootParOf X s) s.kids) (kidsFileOwners s.kids) :=
    ⟨fun o ho => hcf o (List.mem_append_right _ ho),
     fun j hj => hdirs j (by unfold rootJobs; exact List.mem_append_right _ hj),
     hfiles⟩
  have hkids := check_kids (eqn := eqn) hX hg s.kids (rootParOf X s) depth hX.par hok h.wf hsub
  have hwfall : ∀ e ∈ rootEntries X s, e.WF := by
    intro e he
    unfold rootEntries at he
    rcases List.mem_append.1 he with he | he
    · exact hX.pre_wf e he
    · exact kids_ent_wf hX s.kids hok (fun o ho => (hcf o (List.mem_append_right _ ho)).1) e he
  unfold reopenCheck
  rw [← hkids]
  cases hc : s.chain with
  | nil =>
    have hread : rootBytes g fuel s.m (image X g s) ((([] : List Nat)).headD 0) = fixedImg g.rootCap (rootEntries X s) := by
      unfold rootBytes
      rw [if_pos (by rfl)]
      exact hfixed hc
    rw [hread, parseDir_fixedImg _ _ hwfall]
    unfold rootEntries
    rw [checkLvl_skip _ _ _ hX.pre_skip]
  | cons c cs =>
    have hmem : (c :: cs) ∈ chainOwner s.chain ++ kidsOwners s.kids := by
      rw [hc, chainOwner_cons]; exact List.mem_append_left _ List.mem_cons_self
    obtain ⟨hch, hlen⟩ := hcf _ hmem
    have hw := walk_complete (fuel := fuel) hg.lim hg.max hch hlen
    have hc2 : 2 ≤ c := (chainOk_head hch).1
    have hjob := hdirs (c :: cs, serDir g.f.io.bpc (rootEntries X s)) (by
      unfold rootJobs
      rw [hc, chainOwner_cons]
      exact List.mem_append_left _ List.mem_cons_self)
    have hread : rootBytes g fuel s.m (image X g s) ((c :: cs).headD 0) = serDir g.f.io.bpc (rootEntries X s) := by
      unfold rootBytes
      rw [if_neg (by simp only [List.headD_cons]; omega), hw]
      exact hjob
    rw [hread, dir_parse_ser _ _ hwfall hg.bpc]
    unfold rootEntries
    rw [checkLvl_skip _ _ _ hX.pre_skip]

end Diskfs.Fat
