/-
  Liveness side of the N-thread machine of Model/Lru.lean: no reachable state is a deadlock, every
  step decreases a measure (so every schedule makes boundedly many moves and completion is always
  reachable), and the threads' programs are conserved (what a thread has returned, is doing and
  still has to do is always its original program).
-/
import DiskfsModel.Proofs.LruInv
namespace Diskfs.Lru

/-! ### no deadlock -/

/-- program counters whose next action needs no lock -/
def freeToMove : Pc → Bool
  | .idle | .gLockBlock .. => false
  | _ => true

theorem step_isSome_free {disk : Pos → Data} {slack : Nat} {s : Sys} {t : Tid} {th : Thread}
    (hp : s.panicked = false) (ht : s.threads[t]? = some th) (hf : freeToMove th.pc = true) :
    (step disk slack s t).isSome = true := by
  unfold step
  rw [if_neg (by rw [hp]; exact Bool.false_ne_true)]
  simp only [ht]
  obtain ⟨prog, pc, rets⟩ := th
  cases pc with
  | idle => cases hf
  | gLockBlock => cases hf
  | gFind p ok => simp only; split <;> rfl
  | gCheck p ok b => simp only; split <;> rfl
  | gFetch p ok b => simp only; split <;> rfl
  | sSet n => simp only; split <;> rfl
  | _ => rfl

theorem step_isSome_idle {disk : Pos → Data} {slack : Nat} {s : Sys} {t : Tid} {th : Thread}
    (hp : s.panicked = false) (ht : s.threads[t]? = some th) (hpc : th.pc = .idle) (hprog : th.prog ≠ [])
    (hco : s.cacheOwner = none) : (step disk slack s t).isSome = true := by
  unfold step
  rw [if_neg (by rw [hp]; exact Bool.false_ne_true)]
  simp only [ht]
  obtain ⟨prog, pc, rets⟩ := th
  cases hpc
  cases prog with
  | nil => exact absurd rfl hprog
  | cons op rest => simp [hco]

theorem step_isSome_lockBlock {disk : Pos → Data} {slack : Nat} {s : Sys} {t : Tid} {th : Thread}
    {p : Pos} {ok : Bool} {b : Nat} {blk : Block}
    (hp : s.panicked = false) (ht : s.threads[t]? = some th) (hpc : th.pc = .gLockBlock p ok b)
    (hb : s.blocks[b]? = some blk) (ho : blk.owner = none) : (step disk slack s t).isSome = true := by
  unfold step
  rw [if_neg (by rw [hp]; exact Bool.false_ne_true)]
  simp only [ht]
  obtain ⟨prog, pc, rets⟩ := th
  cases hpc
  simp [hb, ho]

theorem holdsBlock_free {pc : Pc} {b : Nat} (h : holdsBlock pc = some b) : freeToMove pc = true := by
  cases pc <;> first | rfl | cases h

theorem holdsCache_cases {pc : Pc} (h : holdsCache pc = true) :
    freeToMove pc = true ∨ ∃ p ok b, pc = .gLockBlock p ok b := by
  cases pc <;> first | exact Or.inl rfl | exact Or.inr ⟨_, _, _, rfl⟩ | cases h

/-- A state satisfying the invariant in which not every thread has finished has a thread that can
    move.  The holder of the cache lock either needs no lock for its next action, or waits for a
    block lock whose holder is past its last lock acquisition. -/
theorem no_deadlock_inv {disk : Pos → Data} {slack : Nat} {s : Sys} (h : Inv disk s) (hnd : allDone s = false) :
    ∃ t, (step disk slack s t).isSome = true := by
  cases hco : s.cacheOwner with
  | some t0 =>
    obtain ⟨th0, ht0, hc0⟩ := h.cown2 t0 hco
    rcases holdsCache_cases hc0 with hf | ⟨p, ok, b, hpc⟩
    · exact ⟨t0, step_isSome_free h.nopanic ht0 hf⟩
    · obtain ⟨blk, hb, _⟩ := h.tref t0 th0 p b ht0 (by rw [hpc]; rfl)
      cases ho : blk.owner with
      | none => exact ⟨t0, step_isSome_lockBlock h.nopanic ht0 hpc hb ho⟩
      | some t1 =>
        obtain ⟨th1, ht1, hb1⟩ := h.bown2 b blk t1 hb ho
        exact ⟨t1, step_isSome_free h.nopanic ht1 (holdsBlock_free hb1)⟩
  | none =>
    have : ∃ th ∈ s.threads, Thread.done th = false := by
      simp only [allDone] at hnd
      have := (List.all_eq_false.1 hnd)
      obtain ⟨th, hm, hd⟩ := this
      exact ⟨th, hm, by simpa using hd⟩
    obtain ⟨th, hm, hd⟩ := this
    obtain ⟨t, hlt, hget⟩ := List.getElem_of_mem hm
    have ht : s.threads[t]? = some th := by rw [List.getElem?_eq_getElem hlt, hget]
    by_cases hf : freeToMove th.pc = true
    · exact ⟨t, step_isSome_free h.nopanic ht hf⟩
    · have hidle : th.pc = .idle := by
        cases hpc : th.pc with
        | idle => rfl
        | gLockBlock p ok b =>
          have := h.cown1 t th ht (by rw [hpc]; rfl)
          rw [hco] at this; cases this
        | _ => rw [hpc] at hf; exact absurd rfl hf
      have hprog : th.prog ≠ [] := by
        intro e
        simp [Thread.done, hidle, e] at hd
      exact ⟨t, step_isSome_idle h.nopanic ht hidle hprog hco⟩

/-! ### what a step does to the thread list: one thread moves forward in its own program -/

def pcRank : Pc → Nat
  | .idle => 0
  | .gFind .. => 7
  | .gLockBlock .. => 6
  | .gUnlockCache .. => 5
  | .gCheck .. => 4
  | .gFetch .. => 3
  | .gStore .. => 2
  | .gUnlockBlock .. => 1
  | .sSet _ => 2
  | .sUnlock _ => 1

/-- upper bound on the number of further steps of a thread -/
def Thread.measure (th : Thread) : Nat := 8 * th.prog.length + pcRank th.pc

def measure (s : Sys) : Nat := (s.threads.map Thread.measure).sum

/-- the thread's whole program: returned calls, the call in progress, calls not yet started -/
def Thread.all (th : Thread) : List Op := th.rets.map Prod.fst ++ (curOp th.pc).toList ++ th.prog

theorem step_thread {disk : Pos → Data} {slack : Nat} {s s' : Sys} {t : Tid}
    (h : Inv disk s) (hstep : step disk slack s t = some s') :
    ∃ th th1, s.threads[t]? = some th ∧ s'.threads = s.threads.set t th1 ∧
      th1.measure < th.measure ∧ th1.all = th.all := by
  unfold step at hstep
  rw [if_neg (by rw [h.nopanic]; exact Bool.false_ne_true)] at hstep
  cases ht : s.threads[t]? with
  | none => simp [ht] at hstep
  | some th =>
    simp only [ht] at hstep
    obtain ⟨prog, pc, rets⟩ := th
    cases pc with
    | idle =>
      cases prog with
      | nil => simp at hstep
      | cons op rest =>
        simp only at hstep
        split at hstep
        · cases Option.some.inj hstep
          cases op with
          | get p ok => exact ⟨_, _, rfl, rfl, by simp [Thread.measure, pcRank]; omega, by simp [Thread.all, curOp]⟩
          | setMax n => exact ⟨_, _, rfl, rfl, by simp [Thread.measure, pcRank]; omega, by simp [Thread.all, curOp]⟩
        · cases hstep
    | gFind p ok =>
      simp only at hstep
      obtain ⟨c', r, isNew, hfa, _⟩ := findOrAdd_spec slack s.maxBlocks s.c p s.blocks.length h.cinv
      rw [hfa] at hstep
      cases Option.some.inj hstep
      exact ⟨_, _, rfl, rfl, by simp [Thread.measure, pcRank], by simp [Thread.all, curOp]⟩
    | gLockBlock p ok b =>
      simp only at hstep
      cases hb : s.blocks[b]? with
      | none => simp [hb] at hstep
      | some blk =>
        simp only [hb] at hstep
        split at hstep
        · cases Option.some.inj hstep
          exact ⟨_, _, rfl, rfl, by simp [Thread.measure, pcRank], by simp [Thread.all, curOp]⟩
        · cases hstep
    | gUnlockCache p ok b =>
      cases Option.some.inj hstep
      exact ⟨_, _, rfl, rfl, by simp [Thread.measure, pcRank], by simp [Thread.all, curOp]⟩
    | gCheck p ok b =>
      simp only at hstep
      split at hstep <;> cases Option.some.inj hstep <;>
        exact ⟨_, _, rfl, rfl, by simp [Thread.measure, pcRank], by simp [Thread.all, curOp]⟩
    | gFetch p ok b =>
      simp only at hstep
      split at hstep <;> cases Option.some.inj hstep <;>
        exact ⟨_, _, rfl, rfl, by simp [Thread.measure, pcRank], by simp [Thread.all, curOp]⟩
    | gStore p ok b d =>
      simp only at hstep
      cases Option.some.inj hstep
      refine ⟨_, ⟨prog, .gUnlockBlock p ok b (.miss d), rets⟩, rfl, ?_, by simp [Thread.measure, pcRank], by simp [Thread.all, curOp]⟩
      split <;> rfl
    | gUnlockBlock p ok b r =>
      simp only at hstep
      cases Option.some.inj hstep
      refine ⟨_, ⟨prog, .idle, rets ++ [(.get p ok, r)]⟩, rfl, ?_, by simp [Thread.measure, pcRank], by simp [Thread.all, curOp]⟩
      split <;> rfl
    | sSet n =>
      simp only at hstep
      obtain ⟨c', hrun, _⟩ := trim_spec n s.c h.cinv
      rw [hrun] at hstep
      cases Option.some.inj hstep
      exact ⟨_, _, rfl, rfl, by simp [Thread.measure, pcRank], by simp [Thread.all, curOp]⟩
    | sUnlock n =>
      cases Option.some.inj hstep
      exact ⟨_, _, rfl, rfl, by simp [Thread.measure, pcRank], by simp [Thread.all, curOp]⟩

theorem sum_set_lt {α} (f : α → Nat) : ∀ (l : List α) (i : Nat) (a b : α), l[i]? = some a → f b < f a →
    ((l.set i b).map f).sum < (l.map f).sum
  | [], i, a, b, h, _ => by simp at h
  | x :: l, 0, a, b, h, hlt => by
    simp at h; subst h
    simp only [List.set_cons_zero, List.map_cons, List.sum_cons]; omega
  | x :: l, i + 1, a, b, h, hlt => by
    simp only [List.getElem?_cons_succ] at h
    have := sum_set_lt f l i a b h hlt
    simp only [List.set_cons_succ, List.map_cons, List.sum_cons]; omega

theorem set_same {α} : ∀ (l : List α) (i : Nat) (a : α), l[i]? = some a → l.set i a = l
  | [], _, _, h => by simp at h
  | x :: l, 0, a, h => by simp at h; subst h; rfl
  | x :: l, i + 1, a, h => by
    simp only [List.getElem?_cons_succ] at h
    simp only [List.set_cons_succ, set_same l i a h]

theorem step_measure {disk : Pos → Data} {slack : Nat} {s s' : Sys} {t : Tid}
    (h : Inv disk s) (hstep : step disk slack s t = some s') : measure s' < measure s := by
  obtain ⟨th, th1, ht, hset, hlt, _⟩ := step_thread h hstep
  unfold measure
  rw [hset]
  exact sum_set_lt Thread.measure s.threads t th th1 ht hlt

theorem step_all {disk : Pos → Data} {slack : Nat} {s s' : Sys} {t : Tid}
    (h : Inv disk s) (hstep : step disk slack s t = some s') :
    s'.threads.map Thread.all = s.threads.map Thread.all := by
  obtain ⟨th, th1, ht, hset, _, hall⟩ := step_thread h hstep
  rw [hset, List.map_set, hall]
  exact set_same _ _ _ (by rw [List.getElem?_map, ht]; rfl)

theorem run_all {disk : Pos → Data} {slack : Nat} (hs : 1 ≤ slack) :
    ∀ (sched : List Tid) (s : Sys), Inv disk s →
      (run disk slack s sched).threads.map Thread.all = s.threads.map Thread.all
  | [], _, _ => rfl
  | t :: sched, s, h => by
    simp only [run, List.foldl_cons]
    cases hst : step disk slack s t with
    | none => exact run_all hs sched s h
    | some s' =>
      have := run_all hs sched s' (step_inv hs h hst)
      simp only [run] at this
      simp only [Option.getD_some, this, step_all h hst]

theorem init_all (maxBlocks : Int) (progs : List (List Op)) : (init maxBlocks progs).threads.map Thread.all = progs := by
  simp only [init, List.map_map]
  have : (Thread.all ∘ fun p => (⟨p, Pc.idle, []⟩ : Thread)) = id := by
    funext p; simp [Thread.all, curOp]
  rw [this, List.map_id]

/-- number of moves actually made along a schedule -/
def moves (disk : Pos → Data) (slack : Nat) : Sys → List Tid → Nat
  | _, [] => 0
  | s, t :: sched =>
    match step disk slack s t with
    | none => moves disk slack s sched
    | some s' => moves disk slack s' sched + 1

theorem moves_bounded {disk : Pos → Data} {slack : Nat} (hs : 1 ≤ slack) :
    ∀ (sched : List Tid) (s : Sys), Inv disk s →
      moves disk slack s sched + measure (run disk slack s sched) ≤ measure s
  | [], _, _ => by simp [moves, run]
  | t :: sched, s, h => by
    simp only [run, List.foldl_cons, moves]
    cases hst : step disk slack s t with
    | none => exact moves_bounded hs sched s h
    | some s' =>
      have h1 := moves_bounded hs sched s' (step_inv hs h hst)
      have h2 := step_measure h hst
      simp only [run] at h1
      simp only [Option.getD_some]
      omega

theorem exists_completion {disk : Pos → Data} {slack : Nat} (hs : 1 ≤ slack) :
    ∀ (n : Nat) (s : Sys), Inv disk s → measure s ≤ n →
      ∃ sched, sched.length ≤ n ∧ allDone (run disk slack s sched) = true
  | 0, s, h, hm => by
    cases hd : allDone s with
    | true => exact ⟨[], Nat.le_refl _, hd⟩
    | false =>
      obtain ⟨t, ht⟩ := no_deadlock_inv (slack := slack) h hd
      obtain ⟨s', hs'⟩ := Option.isSome_iff_exists.1 ht
      have := step_measure h hs'
      omega
  | n + 1, s, h, hm => by
    cases hd : allDone s with
    | true => exact ⟨[], Nat.zero_le _, hd⟩
    | false =>
      obtain ⟨t, ht⟩ := no_deadlock_inv (slack := slack) h hd
      obtain ⟨s', hs'⟩ := Option.isSome_iff_exists.1 ht
      have hlt := step_measure h hs'
      obtain ⟨sched, hl, hdone⟩ := exists_completion hs n s' (step_inv hs h hs') (by omega)
      refine ⟨t :: sched, by simp; omega, ?_⟩
      simpa [run, hs'] using hdone

/-- a single thread runs to completion on its own -/
theorem single_completion {disk : Pos → Data} {slack : Nat} (hs : 1 ≤ slack) :
    ∀ (n : Nat) (s : Sys), Inv disk s → s.threads.length = 1 → measure s ≤ n →
      allDone (run disk slack s (List.replicate n 0)) = true
  | 0, s, h, _, hm => by
    cases hd : allDone s with
    | true => simpa [run] using hd
    | false =>
      obtain ⟨t, ht⟩ := no_deadlock_inv (slack := slack) h hd
      obtain ⟨s', hs'⟩ := Option.isSome_iff_exists.1 ht
      have := step_measure h hs'
      omega
  | n + 1, s, h, hl, hm => by
    simp only [List.replicate_succ, run, List.foldl_cons]
    cases hst : step disk slack s 0 with
    | some s' =>
      have hlt := step_measure h hst
      obtain ⟨_, th1, _, hset, _, _⟩ := step_thread h hst
      have := single_completion hs n s' (step_inv hs h hst) (by rw [hset, List.length_set]; exact hl) (by omega)
      simpa [run] using this
    | none =>
      cases hd : allDone s with
      | false =>
        obtain ⟨t, ht⟩ := no_deadlock_inv (slack := slack) h hd
        obtain ⟨s', hs'⟩ := Option.isSome_iff_exists.1 ht
        obtain ⟨th, _, hth, _⟩ := step_thread h hs'
        have : t = 0 := by
          have hlt : t < s.threads.length := by
            rcases List.getElem?_eq_some_iff.1 hth with ⟨hi, _⟩; exact hi
          rw [hl] at hlt
          exact Nat.lt_one_iff.1 hlt
        subst this
        rw [hst] at hs'; cases hs'
      | true =>
        -- finished: further scheduling changes nothing
        have hstay : ∀ k, run disk slack s (List.replicate k 0) = s := by
          intro k
          induction k with
          | zero => rfl
          | succ k ih => simp only [List.replicate_succ, run, List.foldl_cons, hst, Option.getD_none]; exact ih
        have := hstay n
        simp only [run] at this
        simp only [Option.getD_none, this, hd]

end Diskfs.Lru
