/-
  C15 helper lemmas: the GPT / MBR readers as total functions — panic freedom,
  allocation bounds, provenance of returned partitions.
-/
import DiskfsModel.Proofs.GptTable
import DiskfsModel.Model.Mbr
set_option linter.unusedSimpArgs false
set_option linter.unusedVariables false
namespace Diskfs.Gpt

theorem put_length' (b : Bytes) (off : Nat) (d : Bytes) (h : off + d.length ≤ b.length) :
    (put b off d).length = b.length := put_length b off d h

/-- readGPTHeader never panics on a sector of at least 92 bytes -/
theorem readHeader_no_panic (crc : Bytes → Nat) (g : Bytes) (h : 92 ≤ g.length) :
    (readHeader crc g).isPanic = false := by
  have hp : (put g 16 (zeros 4)).length = g.length := put_length _ _ _ (by simp; omega)
  unfold readHeader
  rw [sl_ok _ 0 8 _ (by omega) (by omega), sl_ok _ 8 12 _ (by omega) (by omega), sl_ok _ 12 16 _ (by omega) (by omega),
    sl_ok _ 16 20 _ (by omega) (by omega), sl_ok _ 20 24 _ (by omega) (by omega), sl_ok _ 24 32 _ (by omega) (by omega),
    sl_ok _ 32 40 _ (by omega) (by omega), sl_ok _ 40 48 _ (by omega) (by omega), sl_ok _ 48 56 _ (by omega) (by omega),
    sl_ok _ 56 72 _ (by omega) (by omega), sl_ok _ 72 80 _ (by omega) (by omega), sl_ok _ 80 84 _ (by omega) (by omega),
    sl_ok _ 84 88 _ (by omega) (by omega), sl_ok _ 88 92 _ (by omega) (by omega)]
  rw [sl_ok _ 0 92 _ (by omega) (by omega)]
  simp only [Res.ok_bind]
  repeat' split
  all_goals rfl

theorem readArr_no_panic (b : Bytes) (es lss : Nat) : (readArr b es lss).isPanic = false := by
  unfold readArr
  repeat' split
  all_goals rfl

/-- loadEntries with the bound check: no panic, and whatever is allocated fits the device and the cap -/
theorem loadEntries_fixed (c : Cfg) (hc : c.arrayBounded = true) (crc : Bytes → Nat) (d : Dev) (devSize : Nat)
    (t : Table) (lss : Nat) :
    (loadEntries c crc d devSize t lss).1.isPanic = false ∧
    ∀ a ∈ (loadEntries c crc d devSize t lss).2, 0 ≤ a ∧ a ≤ (devSize : Int) ∧ a ≤ maxArrayBytes := by
  unfold loadEntries
  simp only [hc, Bool.true_and]
  generalize toI64 (toI64 ↑t.firstLBA * ↑lss) = start
  generalize toI64 (↑t.arrCount * ↑t.entSize) = size
  by_cases hb : (decide (start < 0) || decide (size < 0) || decide (size > maxArrayBytes) || decide (start + size > (devSize : Int))) = true
  · simp [hb, Res.isPanic]
  · simp only [hb, Bool.false_eq_true, if_false]
    simp only [Bool.or_eq_true, decide_eq_true_eq, not_or, Int.not_lt] at hb
    obtain ⟨⟨⟨h1, h2⟩, h3⟩, h4⟩ := hb
    have h3' : size ≤ maxArrayBytes := by omega
    have hm : ¬ (size < 0 ∨ size > maxAlloc) := by
      simp only [maxArrayBytes, maxAlloc] at *
      omega
    simp only [hm, if_false]
    have hbound : ∀ a ∈ [size], 0 ≤ a ∧ a ≤ (devSize : Int) ∧ a ≤ maxArrayBytes := by
      intro a ha
      simp only [List.mem_singleton] at ha
      subst ha
      exact ⟨h2, by omega, h3'⟩
    have hnp := readArr_no_panic (readAt d start.toNat size.toNat) t.entSize lss
    repeat' split
    all_goals first
      | exact ⟨rfl, hbound⟩
      | (refine ⟨?_, hbound⟩; simp [Res.isPanic]; done)
      | (exfalso; rename_i hr; rw [hr] at hnp; simp [Res.isPanic] at hnp)

theorem slice_length' (b : Bytes) (lo hi : Nat) (h1 : lo ≤ hi) (h2 : hi ≤ b.length) :
    (slice b lo hi).length = hi - lo := slice_length b lo hi h1 h2

/-- bound used for every allocation request of the repaired reader -/
def AllocOk (devSize lss : Nat) (a : Int) : Prop := 0 ≤ a ∧ a ≤ (devSize : Int) + 2 * (lss : Int)

theorem readPrimary_fixed (c : Cfg) (hc : c.arrayBounded = true) (crc : Bytes → Nat) (d : Dev) (devSize lss : Nat)
    (hlss : 92 ≤ lss) :
    (readPrimary c crc d devSize lss).1.isPanic = false ∧
    ∀ a ∈ (readPrimary c crc d devSize lss).2, AllocOk devSize lss a := by
  unfold readPrimary
  simp only
  have ha0 : AllocOk devSize lss ((lss * 2 : Nat) : Int) := by
    simp only [AllocOk]; omega
  split
  · exact ⟨rfl, by intro a ha; simp only [List.mem_singleton] at ha; subst ha; exact ha0⟩
  · rw [sl_ok _ lss (lss * 2) _ (by omega) (by simp)]
    simp only
    have hg : 92 ≤ (slice (readAt d 0 (lss * 2)) lss (lss * 2)).length := by
      rw [slice_length' _ _ _ (by omega) (by simp)]; omega
    have hnp := readHeader_no_panic crc _ hg
    split
    · rename_i s hr; rw [hr] at hnp; simp [Res.isPanic] at hnp
    · exact ⟨rfl, by intro a ha; simp only [List.mem_singleton] at ha; subst ha; exact ha0⟩
    · rename_i h hr
      have hl := loadEntries_fixed c hc crc d devSize
        (tableOfHdr h lss (readPMBR ((readAt d 0 (lss * 2)).take lss) (pmbrSectors c h.altLBA))) lss
      refine ⟨hl.1, ?_⟩
      intro a ha
      simp only [List.mem_cons] at ha
      rcases ha with ha | ha
      · subst ha; exact ha0
      · have := hl.2 a ha
        simp only [AllocOk]; omega

theorem readBackup_fixed (c : Cfg) (hc : c.arrayBounded = true) (crc : Bytes → Nat) (d : Dev) (devSize lss secLBA : Nat)
    (hlss : 92 ≤ lss) :
    (readBackup c crc d devSize lss secLBA).1.isPanic = false ∧
    ∀ a ∈ (readBackup c crc d devSize lss secLBA).2, AllocOk devSize lss a := by
  unfold readBackup
  simp only
  have ha0 : AllocOk devSize lss (lss : Int) := by
    simp only [AllocOk]; omega
  split
  · exact ⟨rfl, by intro a ha; simp only [List.mem_singleton] at ha; subst ha; exact ha0⟩
  · have hnp := readHeader_no_panic crc
      (readAt d (toI64 ((secLBA : Int) * (lss : Int))).toNat lss) (by simp; omega)
    split
    · rename_i s hr; rw [hr] at hnp; simp [Res.isPanic] at hnp
    · exact ⟨rfl, by intro a ha; simp only [List.mem_singleton] at ha; subst ha; exact ha0⟩
    · rename_i h hr
      split
      · exact ⟨rfl, by intro a ha; simp only [List.mem_singleton] at ha; subst ha; exact ha0⟩
      · generalize htt : tableOfHdr _ lss _ = tt
        have hl := loadEntries_fixed c hc crc d devSize tt lss
        constructor
        · cases hle : (loadEntries c crc d devSize tt lss).1 with
          | ok t => rfl
          | err e => rfl
          | panic s => have := hl.1; rw [hle] at this; simp [Res.isPanic] at this
        · intro a ha
          simp only [List.mem_cons] at ha
          rcases ha with ha | ha | ha
          · subst ha; exact ha0
          · subst ha; exact ha0
          · have := hl.2 a ha
            simp only [AllocOk]; omega

/-- gpt.Read with the entry-array bound check never panics, whatever the device holds, and every
    `make([]byte, n)` it issues has 0 ≤ n ≤ device size + 2 sectors -/
theorem read_fixed (c : Cfg) (hc : c.arrayBounded = true) (crc : Bytes → Nat) (d : Dev) (devSize lss : Nat)
    (hlss : 92 ≤ lss) :
    (read c crc d devSize lss).1.isPanic = false ∧
    ∀ a ∈ (read c crc d devSize lss).2, AllocOk devSize lss a := by
  unfold read
  have hp := readPrimary_fixed c hc crc d devSize lss hlss
  split
  · rename_i t al heq; rw [heq] at hp; exact ⟨rfl, hp.2⟩
  · rename_i s al heq; rw [heq] at hp; simp [Res.isPanic] at hp
  · rename_i al heq; rw [heq] at hp; exact ⟨rfl, hp.2⟩
  · rename_i al heq; rw [heq] at hp
    split
    · exact ⟨rfl, hp.2⟩
    · have hb := readBackup_fixed c hc crc d devSize lss (u64sub (devSize / lss) 1) hlss
      generalize readBackup c crc d devSize lss (u64sub (devSize / lss) 1) = rb at hb ⊢
      obtain ⟨r, al2⟩ := rb
      cases r with
      | ok t =>
        exact ⟨rfl, by intro a ha; rcases List.mem_append.1 ha with h | h; exact hp.2 a h; exact hb.2 a h⟩
      | err e =>
        exact ⟨rfl, by intro a ha; rcases List.mem_append.1 ha with h | h; exact hp.2 a h; exact hb.2 a h⟩
      | panic s => simp [Res.isPanic] at hb

/-! ### provenance of the returned partitions -/

theorem slice_readAt (d : Dev) (o n lo hi : Nat) (h1 : lo ≤ hi) (h2 : hi ≤ n) :
    slice (readAt d o n) lo hi = readAt d (o + lo) (hi - lo) := by
  have e : n = lo + ((hi - lo) + (n - hi)) := by omega
  rw [e, readAt_append, readAt_append]
  rw [slice_append_skip _ _ _ _ (by simp)]
  simp only [readAt_length, Nat.sub_self]
  have : hi - lo = (readAt d (o + lo) (hi - lo)).length := by simp
  rw [slice_append_hit _ _ _ (by simp)]

/-- `t` was loaded from a CRC-valid array: some byte range inside the device has the CRC32 that the
    header `h` records, `h` itself passed readGPTHeader (signature, revision, size, header CRC32) on a
    sector read from the device, and `t.parts` is the decoding of exactly those bytes -/
def FromValidArray (crc : Bytes → Nat) (d : Dev) (devSize lss : Nat) (t : Table) : Prop :=
  ∃ (hoff off len : Nat) (h : Hdr),
    readHeader crc (readAt d hoff lss) = .ok h ∧
    off + len ≤ devSize ∧ crc (readAt d off len) = h.arrCrc ∧
    readArr (readAt d off len) h.entSize lss = .ok t.parts

theorem loadEntries_ok (c : Cfg) (crc : Bytes → Nat) (d : Dev) (devSize : Nat) (t t' : Table) (lss : Nat)
    (h : (loadEntries c crc d devSize t lss).1 = .ok t') :
    ∃ off len, off + len ≤ devSize ∧ crc (readAt d off len) = t.arrCrc ∧
      readArr (readAt d off len) t.entSize lss = .ok t'.parts := by
  unfold loadEntries at h
  simp only at h
  generalize toI64 (toI64 ↑t.firstLBA * ↑lss) = start at h
  generalize toI64 (↑t.arrCount * ↑t.entSize) = size at h
  split at h
  · simp at h
  · split at h
    · simp at h
    · rename_i hsz
      split at h
      · simp at h
      · rename_i hst
        split at h
        · simp at h
        · rename_i hdev
          split at h
          · simp at h
          · rename_i hcrc
            split at h
            · rename_i ps hr
              simp only [Res.ok.injEq] at h
              subst h
              refine ⟨start.toNat, size.toNat, ?_, ?_, ?_⟩
              · omega
              · simp only [ne_eq, Decidable.not_not] at hcrc; exact hcrc.symm
              · exact hr
            · simp at h
            · simp at h

theorem tableOfHdr_fields (h : Hdr) (lss : Nat) (pm : Bool) :
    (tableOfHdr h lss pm).arrCrc = h.arrCrc ∧ (tableOfHdr h lss pm).entSize = h.entSize := ⟨rfl, rfl⟩

theorem readPrimary_ok (c : Cfg) (crc : Bytes → Nat) (d : Dev) (devSize lss : Nat) (t : Table)
    (h : (readPrimary c crc d devSize lss).1 = .ok t) : FromValidArray crc d devSize lss t := by
  unfold readPrimary at h
  simp only at h
  split at h
  · simp at h
  · rw [sl_ok _ lss (lss * 2) _ (by omega) (by simp)] at h
    simp only at h
    rw [slice_readAt d 0 (lss * 2) lss (lss * 2) (by omega) (by omega)] at h
    split at h
    · simp at h
    · simp at h
    · rename_i hd hr
      have := loadEntries_ok c crc d devSize _ t lss h
      obtain ⟨off, len, h1, h2, h3⟩ := this
      refine ⟨0 + lss, off, len, hd, ?_, h1, h2, h3⟩
      have e : lss * 2 - lss = lss := by omega
      rw [e] at hr
      exact hr

theorem readBackup_ok (c : Cfg) (crc : Bytes → Nat) (d : Dev) (devSize lss secLBA : Nat) (t : Table)
    (h : (readBackup c crc d devSize lss secLBA).1 = .ok t) : FromValidArray crc d devSize lss t := by
  unfold readBackup at h
  simp only at h
  split at h
  · simp at h
  · split at h
    · simp at h
    · simp at h
    · rename_i hd hr
      split at h
      · simp at h
      · generalize htt : tableOfHdr _ lss _ = tt at h
        cases hle : (loadEntries c crc d devSize tt lss).1 with
        | ok t2 =>
          rw [hle] at h
          simp only [Res.ok.injEq] at h
          subst h
          obtain ⟨off, len, h1, h2, h3⟩ := loadEntries_ok c crc d devSize tt t2 lss hle
          subst htt
          exact ⟨_, off, len, hd, hr, h1, h2, h3⟩
        | err e => rw [hle] at h; simp at h
        | panic s => rw [hle] at h; simp at h

/-- any table gpt.Read returns lists only partitions decoded from CRC-valid data (as found and repaired alike) -/
theorem read_ok (c : Cfg) (crc : Bytes → Nat) (d : Dev) (devSize lss : Nat) (t : Table)
    (h : (read c crc d devSize lss).1 = .ok t) :
    ∃ t0, FromValidArray crc d devSize lss t0 ∧ t.parts = t0.parts := by
  unfold read at h
  split at h
  · rename_i t1 al heq
    simp only [Res.ok.injEq] at h; subst h
    exact ⟨t1, readPrimary_ok c crc d devSize lss t1 (by rw [heq]), rfl⟩
  · simp at h
  · simp at h
  · split at h
    · simp at h
    · generalize hrb : readBackup c crc d devSize lss (u64sub (devSize / lss) 1) = rb at h
      obtain ⟨r, al2⟩ := rb
      cases r with
      | ok t2 =>
        simp only [backupResult, Res.ok.injEq] at h
        subst h
        exact ⟨t2, readBackup_ok c crc d devSize lss _ t2 (by rw [hrb]), rfl⟩
      | err e => simp [backupResult] at h
      | panic s => simp [backupResult] at h

/-! ### as found: the entry-array size is not checked (counterexamples) -/

/-- header fields of the witness: 2^32-1 entries of 128 bytes -/
def cexHuge : Hdr := { myLBA := 1, altLBA := 2047, firstData := 34, lastData := 2014, guid := [], arrLBA := 2,
                       count := 4294967295, entSize := 128, arrCrc := 0 }
/-- 2^32-1 entries of 2^32-1 bytes: the product is negative as a Go int -/
def cexNeg : Hdr := { cexHuge with entSize := 4294967295 }

/-- as found, a 1 MiB device whose (CRC-valid) header says 2^32-1 entries makes loadEntries ask for 512 GiB -/
theorem cex_alloc_unbounded (crc : Bytes → Nat) (d : Dev) (pm : Bool) :
    (loadEntries Cfg.asFound crc d 1048576 (tableOfHdr cexHuge 512 pm) 512).2 = [549755813760] := by
  simp [loadEntries, tableOfHdr, cexHuge, Cfg.asFound, toI64, two64, two63, maxAlloc]

/-- as found, entry count = entry size = 2^32-1 makes `make` panic -/
theorem cex_negative_panics (crc : Bytes → Nat) (d : Dev) (pm : Bool) :
    (loadEntries Cfg.asFound crc d 1048576 (tableOfHdr cexNeg 512 pm) 512).1.isPanic = true := by
  simp [loadEntries, tableOfHdr, cexNeg, cexHuge, Cfg.asFound, toI64, two64, two63, maxAlloc, Res.isPanic]

/-- repaired, both headers are refused before anything is allocated -/
theorem cex_repaired (crc : Bytes → Nat) (d : Dev) (pm : Bool) :
    loadEntries Cfg.fixed crc d 1048576 (tableOfHdr cexHuge 512 pm) 512 = (.err true, []) ∧
    loadEntries Cfg.fixed crc d 1048576 (tableOfHdr cexNeg 512 pm) 512 = (.err true, []) := by
  constructor
  · simp [loadEntries, tableOfHdr, cexHuge, Cfg.fixed, toI64, two64, two63, maxAlloc, maxArrayBytes]
  · simp [loadEntries, tableOfHdr, cexNeg, cexHuge, Cfg.fixed, toI64, two64, two63, maxAlloc, maxArrayBytes]

end Diskfs.Gpt
