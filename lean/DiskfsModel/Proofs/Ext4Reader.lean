/-
  Helper lemmas for Props/C20.lean (ext4 reader cores).
-/
import DiskfsModel.Model.Ext4.Reader
namespace Diskfs.Ext4.Reader

/-! ### extent lists and trees -/

/-- every extent of the list lies inside `[lo, hi)` -/
def extsIn (es : List Extent) (lo hi : Nat) : Prop :=
  ∀ e ∈ es, lo ≤ e.fileBlock ∧ e.fileBlock + e.count ≤ hi

theorem extsIn_append {a b : List Extent} {lo hi : Nat} :
    extsIn (a ++ b) lo hi ↔ extsIn a lo hi ∧ extsIn b lo hi := by
  unfold extsIn
  constructor
  · intro h
    exact ⟨fun e he => h e (List.mem_append_left _ he), fun e he => h e (List.mem_append_right _ he)⟩
  · intro ⟨h1, h2⟩ e he
    rcases List.mem_append.1 he with h | h
    · exact h1 e h
    · exact h2 e h

theorem extsIn_mono {es : List Extent} {lo hi lo' hi' : Nat} (h : extsIn es lo hi)
    (h1 : lo' ≤ lo) (h2 : hi ≤ hi') : extsIn es lo' hi' := by
  intro e he
  have := h e he
  omega

theorem leafLookup_none_of_outside {es : List Extent} {lo hi lb : Nat} (h : extsIn es lo hi)
    (hlb : lb < lo ∨ hi ≤ lb) : leafLookup es lb = none := by
  unfold leafLookup
  have : es.find? (fun e => decide (e.fileBlock ≤ lb ∧ lb < e.fileBlock + e.count)) = none := by
    rw [List.find?_eq_none]
    intro e he
    have := h e he
    simp only [decide_eq_true_eq]
    omega
  rw [this]

theorem leafLookup_append (a b : List Extent) (lb : Nat) :
    leafLookup (a ++ b) lb = (leafLookup a lb).orElse (fun _ => leafLookup b lb) := by
  unfold leafLookup
  rw [List.find?_append]
  cases h : a.find? (fun e => decide (e.fileBlock ≤ lb ∧ lb < e.fileBlock + e.count)) <;> simp

/-- children carry ascending keys and each child satisfies `P` on its key interval -/
def childrenWF {α : Type} (P : α → Nat → Nat → Prop) : List (Nat × α) → Nat → Prop
  | [], _ => True
  | [(k, t)], hi => P t k hi
  | (k, t) :: (k', t') :: rest, hi => k < k' ∧ P t k k' ∧ childrenWF P ((k', t') :: rest) hi

/-- all extents below a well-formed child list start at or after the first key -/
theorem children_lower {α : Type} (M : α → List Extent) (P : α → Nat → Nat → Prop)
    (hP : ∀ a lo hi, P a lo hi → extsIn (M a) lo hi) :
    ∀ (cs : List (Nat × α)) (k : Nat) (t : α) (hi : Nat), childrenWF P ((k, t) :: cs) hi →
      ∀ e ∈ ((k, t) :: cs).flatMap (fun c => M c.2), k ≤ e.fileBlock := by
  intro cs
  induction cs with
  | nil =>
    intro k t hi hwf e he
    simp only [List.flatMap_cons, List.flatMap_nil, List.append_nil] at he
    exact ((hP t k hi hwf) e he).1
  | cons c rest ih =>
    intro k t hi hwf e he
    obtain ⟨k', t'⟩ := c
    obtain ⟨hlt, hpt, hrest⟩ := hwf
    simp only [List.flatMap_cons] at he
    rcases List.mem_append.1 he with h | h
    · exact ((hP t k k' hpt) e h).1
    · have := ih k' t' hi hrest e (by simpa [List.flatMap_cons] using h)
      omega

/-- looking a block up in the concatenation of the children's lists = descending by key -/
theorem childLookup_flat {α : Type} (M : α → List Extent) (look : α → Nat → Option Nat)
    (P : α → Nat → Nat → Prop)
    (hP : ∀ a lo hi, P a lo hi → extsIn (M a) lo hi) (lb : Nat)
    (hlook : ∀ a lo hi, P a lo hi → leafLookup (M a) lb = look a lb) :
    ∀ (cs : List (Nat × α)) (hi : Nat), childrenWF P cs hi →
      leafLookup (cs.flatMap fun c => M c.2) lb = childLookup look cs lb := by
  intro cs
  induction cs with
  | nil => intro hi _; simp [leafLookup, childLookup]
  | cons c rest ih =>
    intro hi hwf
    obtain ⟨k, t⟩ := c
    cases rest with
    | nil =>
      simp only [List.flatMap_cons, List.flatMap_nil, List.append_nil, childLookup]
      have hin := hP t k hi hwf
      split
      · exact hlook t k hi hwf
      · exact leafLookup_none_of_outside hin (by omega)
    | cons c' rest' =>
      obtain ⟨k', t'⟩ := c'
      obtain ⟨hlt, hpt, hrest⟩ := hwf
      have hin := hP t k k' hpt
      have hlow := children_lower M P hP rest' k' t' hi hrest
      rw [List.flatMap_cons, leafLookup_append]
      simp only [childLookup]
      split
      · -- lb ∈ [k, k'): the remaining children cannot contain it
        rename_i hc
        have hnone : leafLookup (((k', t') :: rest').flatMap fun c => M c.2) lb = none := by
          unfold leafLookup
          have : (((k', t') :: rest').flatMap fun c => M c.2).find?
              (fun e => decide (e.fileBlock ≤ lb ∧ lb < e.fileBlock + e.count)) = none := by
            rw [List.find?_eq_none]
            intro e he
            have := hlow e he
            simp only [decide_eq_true_eq]
            omega
          rw [this]
        rw [hnone, ← hlook t k k' hpt]
        cases leafLookup (M t) lb <;> rfl
      · rename_i hc
        have hnone : leafLookup (M t) lb = none := leafLookup_none_of_outside hin (by omega)
        rw [hnone]
        simpa using ih hi hrest

/-- well-formed tree: leaf extents inside the node's interval; index keys ascending, first key not
    below the interval, every child well-formed on its key interval -/
def TreeWF : (d : Nat) → TreeD d → Nat → Nat → Prop
  | 0, es, lo, hi => extsIn es lo hi
  | _ + 1, Sum.inl es, lo, hi => extsIn es lo hi
  | d + 1, Sum.inr cs, lo, hi =>
    (∀ c ∈ cs, lo ≤ c.1) ∧ (∀ c ∈ cs, c.1 ≤ hi) ∧ childrenWF (TreeWF d) cs hi

theorem childrenWF_extsIn {α : Type} (M : α → List Extent) (P : α → Nat → Nat → Prop)
    (hP : ∀ a lo hi, P a lo hi → extsIn (M a) lo hi) :
    ∀ (cs : List (Nat × α)) (lo hi : Nat), (∀ c ∈ cs, lo ≤ c.1) → (∀ c ∈ cs, c.1 ≤ hi) →
      childrenWF P cs hi → extsIn (cs.flatMap fun c => M c.2) lo hi := by
  intro cs
  induction cs with
  | nil => intro lo hi _ _ _ e he; simp at he
  | cons c rest ih =>
    intro lo hi hlo hhi hwf
    obtain ⟨k, t⟩ := c
    have hk : lo ≤ k := hlo (k, t) (List.mem_cons_self ..)
    cases rest with
    | nil =>
      simp only [List.flatMap_cons, List.flatMap_nil, List.append_nil]
      exact extsIn_mono (hP t k hi hwf) hk (Nat.le_refl _)
    | cons c' rest' =>
      obtain ⟨k', t'⟩ := c'
      obtain ⟨hlt, hpt, hrest⟩ := hwf
      rw [List.flatMap_cons, extsIn_append]
      have hk' : k' ≤ hi := hhi (k', t') (List.mem_cons_of_mem _ (List.mem_cons_self ..))
      refine ⟨extsIn_mono (hP t k k' hpt) hk hk', ?_⟩
      exact ih lo hi (fun c hc => hlo c (List.mem_cons_of_mem _ hc))
        (fun c hc => hhi c (List.mem_cons_of_mem _ hc)) hrest

theorem treeWF_extsIn : ∀ (d : Nat) (t : TreeD d) (lo hi : Nat), TreeWF d t lo hi →
    extsIn (mirrorBlocks d t) lo hi := by
  intro d
  induction d with
  | zero => intro t lo hi h; exact h
  | succ d ih =>
    intro t lo hi h
    cases t with
    | inl es => exact h
    | inr cs =>
      obtain ⟨hlo, hhi, hwf⟩ := h
      exact childrenWF_extsIn (mirrorBlocks d) (TreeWF d) ih cs lo hi hlo hhi hwf

theorem flatten_lookup : ∀ (d : Nat) (t : TreeD d) (lo hi lb : Nat), TreeWF d t lo hi →
    leafLookup (mirrorBlocks d t) lb = specLookup d t lb := by
  intro d
  induction d with
  | zero => intro t lo hi lb _; rfl
  | succ d ih =>
    intro t lo hi lb h
    cases t with
    | inl es => rfl
    | inr cs =>
      obtain ⟨_, _, hwf⟩ := h
      exact childLookup_flat (mirrorBlocks d) (specLookup d) (TreeWF d) (treeWF_extsIn d) lb
        (fun a lo hi hp => ih a lo hi lb hp) cs hi hwf

/-! ### directory entries: encode / rec_len walk -/


theorem hasLen_iff (b : Bytes) (n : Nat) : hasLen b n = true ↔ n ≤ b.length := by
  cases n with
  | zero => simp [hasLen]
  | succ k =>
    simp only [hasLen, Bool.not_eq_true', List.isEmpty_eq_false_iff]
    rw [ne_eq, List.drop_eq_nil_iff]
    omega

theorem slice_mid (a b c : Bytes) : slice (a ++ b ++ c) a.length (a.length + b.length) = b := by
  simp [slice]

theorem slice_mid' (a b c : Bytes) (lo hi : Nat) (h1 : lo = a.length) (h2 : hi = a.length + b.length) :
    slice (a ++ b ++ c) lo hi = b := by
  subst h1; subst h2; exact slice_mid a b c

theorem getD_mid (a : Bytes) (x : UInt8) (c : Bytes) (i : Nat) (h : i = a.length) :
    (a ++ x :: c).getD i 0 = x := by
  subst h; simp [List.getD_eq_getElem?_getD]

/-- on-disk form of one entry with record length `rl` -/
def encEnt (e : DirEnt) (rl : Nat) : Bytes :=
  leEnc 4 e.inode ++ leEnc 2 rl ++ [UInt8.ofNat e.name.length, UInt8.ofNat e.ftype] ++ e.name ++
    zeros (rl - 8 - e.name.length)

def encEntries : List (DirEnt × Nat) → Bytes
  | [] => []
  | (e, rl) :: rest => encEnt e rl ++ encEntries rest

def EntWF (cfg : Cfg) (p : DirEnt × Nat) : Prop :=
  p.1.inode < 4294967296 ∧ p.1.ftype < 256 ∧
  p.1.name.length < (if cfg.dirNameLenWide then 256 else 248) ∧
  12 ≤ p.2 ∧ 8 + p.1.name.length ≤ p.2 ∧ p.2 < 65536

theorem encEnt_length (e : DirEnt) (rl : Nat) (h : 8 + e.name.length ≤ rl) : (encEnt e rl).length = rl := by
  simp [encEnt]; omega

theorem parseEntries_enc (cfg : Cfg) : ∀ (es : List (DirEnt × Nat)) (fuel : Nat),
    (∀ p ∈ es, EntWF cfg p) → es.length < fuel →
    parseEntries cfg fuel (encEntries es) = .ok (es.map Prod.fst) := by
  intro es
  induction es with
  | nil =>
    intro fuel _ hf
    cases fuel with
    | zero => omega
    | succ f => simp [parseEntries, encEntries]
  | cons p rest ih =>
    intro fuel hwf hf
    obtain ⟨e, rl⟩ := p
    cases fuel with
    | zero => simp at hf
    | succ f =>
      have hp := hwf (e, rl) (List.mem_cons_self ..)
      obtain ⟨hino, hft, hnl, h12, hrl, h16⟩ := hp
      simp only at hino hft hnl h12 hrl h16
      have hnl256 : e.name.length < 256 := by split at hnl <;> omega
      have hlen := encEnt_length e rl hrl
      have ihr := ih f (fun q hq => hwf q (List.mem_cons_of_mem _ hq)) (by simp at hf; omega)
      -- the buffer
      have hr : encEntries ((e, rl) :: rest) = encEnt e rl ++ encEntries rest := rfl
      have hrlen : rl ≤ (encEntries ((e, rl) :: rest)).length := by rw [hr]; simp [hlen]
      -- fields
      have e1 : le32 (encEntries ((e, rl) :: rest)) 0 = e.inode := by
        unfold le32
        have : encEntries ((e, rl) :: rest) = [] ++ leEnc 4 e.inode ++ (leEnc 2 rl ++ [UInt8.ofNat e.name.length, UInt8.ofNat e.ftype] ++ e.name ++ zeros (rl - 8 - e.name.length) ++ encEntries rest) := by
          simp [hr, encEnt]
        rw [this, slice_mid' [] (leEnc 4 e.inode) _ 0 (0+4) (by simp) (by simp)]
        exact leDec_leEnc_of_lt 4 _ (by simpa using hino)
      have e2 : le16 (encEntries ((e, rl) :: rest)) 4 = rl := by
        unfold le16
        have : encEntries ((e, rl) :: rest) = leEnc 4 e.inode ++ leEnc 2 rl ++ ([UInt8.ofNat e.name.length, UInt8.ofNat e.ftype] ++ e.name ++ zeros (rl - 8 - e.name.length) ++ encEntries rest) := by
          simp [hr, encEnt]
        rw [this, slice_mid' (leEnc 4 e.inode) (leEnc 2 rl) _ 4 (4+2) (by simp) (by simp)]
        exact leDec_leEnc_of_lt 2 _ (by simpa using h16)
      have e3 : u8 (encEntries ((e, rl) :: rest)) 6 = e.name.length := by
        unfold u8
        have : encEntries ((e, rl) :: rest) = (leEnc 4 e.inode ++ leEnc 2 rl) ++ UInt8.ofNat e.name.length :: ([UInt8.ofNat e.ftype] ++ e.name ++ zeros (rl - 8 - e.name.length) ++ encEntries rest) := by
          simp [hr, encEnt]
        rw [this, getD_mid _ _ _ 6 (by simp)]
        simp [UInt8.toNat_ofNat']; omega
      have e4 : u8 (encEntries ((e, rl) :: rest)) 7 = e.ftype := by
        unfold u8
        have : encEntries ((e, rl) :: rest) = (leEnc 4 e.inode ++ leEnc 2 rl ++ [UInt8.ofNat e.name.length]) ++ UInt8.ofNat e.ftype :: (e.name ++ zeros (rl - 8 - e.name.length) ++ encEntries rest) := by
          simp [hr, encEnt]
        rw [this, getD_mid _ _ _ 7 (by simp)]
        simp [UInt8.toNat_ofNat']; omega
      have e5 : slice (encEntries ((e, rl) :: rest)) 8 (8 + e.name.length) = e.name := by
        have : encEntries ((e, rl) :: rest) = (leEnc 4 e.inode ++ leEnc 2 rl ++ [UInt8.ofNat e.name.length, UInt8.ofNat e.ftype]) ++ e.name ++ (zeros (rl - 8 - e.name.length) ++ encEntries rest) := by
          simp [hr, encEnt]
        rw [this]
        exact slice_mid' _ _ _ 8 _ (by simp) (by simp)
      have e6 : (encEntries ((e, rl) :: rest)).drop rl = encEntries rest := by
        rw [hr, List.drop_append, List.drop_of_length_le (by omega), hlen, Nat.sub_self]; simp
      have hne : (encEntries ((e, rl) :: rest)).isEmpty = false := by
        rw [List.isEmpty_eq_false_iff]; intro h; rw [h] at hrlen; simp at hrlen; omega
      have hhi : (if cfg.dirNameLenWide then 8 + e.name.length else (8 + e.name.length) % 256) = 8 + e.name.length := by
        split
        · rfl
        · rename_i hw; simp [hw] at hnl; omega
      have hl6 : hasLen (encEntries ((e, rl) :: rest)) 6 = true := (hasLen_iff _ _).2 (by omega)
      have hlr : hasLen (encEntries ((e, rl) :: rest)) rl = true := (hasLen_iff _ _).2 hrlen
      have hlh : hasLen (encEntries ((e, rl) :: rest)) (8 + e.name.length) = true := (hasLen_iff _ _).2 (by omega)
      rw [parseEntries]
      simp only [hne, hl6, e2, hlr, e3, hhi, hlh, e1, e4, e5, e6, ihr]
      have n1 : ¬ rl < 12 := by omega
      have n2 : ¬ 8 + e.name.length < 8 := by omega
      simp only [Bool.false_eq_true, Bool.not_true, ↓reduceIte, n1, n2, List.map_cons]

/-! ### hash tree = its leaf blocks -/


theorem mapRes_ok_cons {α β : Type} (f : α → Res β) (a : α) (as : List α) (ys : List β) :
    mapRes f (a :: as) = .ok ys ↔ ∃ b bs, f a = .ok b ∧ mapRes f as = .ok bs ∧ ys = b :: bs := by
  simp only [mapRes]
  cases hfa : f a with
  | ok b =>
    cases hm : mapRes f as with
    | ok bs =>
      simp only [Res.ok.injEq]
      constructor
      · intro h; exact ⟨b, bs, rfl, rfl, h.symm⟩
      · rintro ⟨b', bs', hb, hbs, rfl⟩; rw [hb, hbs]
    | err => simp
    | panic => simp
    | diverge => simp
  | err => simp
  | panic => simp
  | diverge => simp

theorem concatRes_nil {α β : Type} (f : α → Res (List β)) : concatRes f [] = .ok [] := rfl

theorem concatRes_ok_cons {α β : Type} (f : α → Res (List β)) (a : α) (as : List α) (es : List β) :
    concatRes f (a :: as) = .ok es ↔ ∃ e1 e2, f a = .ok e1 ∧ concatRes f as = .ok e2 ∧ es = e1 ++ e2 := by
  unfold concatRes
  constructor
  · intro h
    cases hm : mapRes f (a :: as) with
    | ok ys =>
      rw [hm] at h
      obtain ⟨b, bs, hb, hbs, rfl⟩ := (mapRes_ok_cons f a as ys).1 hm
      simp only [Res.map, Res.ok.injEq] at h
      exact ⟨b, bs.flatten, hb, by rw [hbs]; rfl, by rw [← h]; simp⟩
    | err => rw [hm] at h; simp [Res.map] at h
    | panic => rw [hm] at h; simp [Res.map] at h
    | diverge => rw [hm] at h; simp [Res.map] at h
  · rintro ⟨e1, e2, h1, h2, rfl⟩
    cases hm : mapRes f as with
    | ok bs =>
      rw [hm] at h2
      simp only [Res.map, Res.ok.injEq] at h2
      have : mapRes f (a :: as) = .ok (e1 :: bs) := (mapRes_ok_cons f a as _).2 ⟨e1, bs, h1, hm, rfl⟩
      rw [this]; simp [Res.map, h2]
    | err => rw [hm] at h2; simp [Res.map] at h2
    | panic => rw [hm] at h2; simp [Res.map] at h2
    | diverge => rw [hm] at h2; simp [Res.map] at h2

theorem concatRes_append_ok {α β : Type} (f : α → Res (List β)) :
    ∀ (xs ys : List α) (e1 e2 : List β), concatRes f xs = .ok e1 → concatRes f ys = .ok e2 →
      concatRes f (xs ++ ys) = .ok (e1 ++ e2) := by
  intro xs
  induction xs with
  | nil =>
    intro ys e1 e2 h1 h2
    rw [concatRes_nil] at h1
    simp only [Res.ok.injEq] at h1
    subst h1; simpa using h2
  | cons x xs ih =>
    intro ys e1 e2 h1 h2
    obtain ⟨a, b, ha, hb, rfl⟩ := (concatRes_ok_cons f x xs e1).1 h1
    rw [List.cons_append]
    exact (concatRes_ok_cons f x (xs ++ ys) _).2 ⟨a, b ++ e2, ha, ih ys b e2 hb h2, by simp⟩

theorem bind_ok {α β : Type} (r : Res α) (f : α → Res β) (b : β) :
    r.bind f = .ok b ↔ ∃ a, r = .ok a ∧ f a = .ok b := by
  cases r <;> simp [Res.bind]

/-- a successful hash-tree walk returns the concatenation of the linear parses of the leaf blocks it reaches -/
theorem parseHashed_leaves (cfg : Cfg) (csum : Bool) (bs : Nat) (data : Bytes) :
    ∀ (d : Nat) (blks : List Nat) (es : List DirEnt), parseHashed cfg csum bs data d blks = .ok es →
      ∃ L, leafBlocks bs data d blks = .ok L ∧ concatRes (leafAt cfg csum bs data) L = .ok es := by
  intro d
  induction d with
  | zero => intro blks es h; exact ⟨blks, rfl, h⟩
  | succ d ih =>
    intro blks
    induction blks with
    | nil =>
      intro es h
      refine ⟨[], rfl, ?_⟩
      simpa [parseHashed, concatRes_nil] using h
    | cons blk rest ihr =>
      intro es h
      simp only [parseHashed] at h
      obtain ⟨e1, e2, h1, h2, rfl⟩ := (concatRes_ok_cons _ blk rest es).1 h
      obtain ⟨cs, hcs, hp⟩ := (bind_ok _ _ _).1 h1
      obtain ⟨L1, hL1, hc1⟩ := ih cs e1 hp
      obtain ⟨L2, hL2, hc2⟩ := ihr e2 (by simpa [parseHashed] using h2)
      refine ⟨L1 ++ L2, ?_, concatRes_append_ok _ L1 L2 e1 e2 hc1 hc2⟩
      simp only [leafBlocks]
      refine (concatRes_ok_cons _ blk rest _).2 ⟨L1, L2, ?_, by simpa [leafBlocks] using hL2, rfl⟩
      exact (bind_ok _ _ _).2 ⟨cs, hcs, hL1⟩

/-- successful concatenations over permuted inputs are permutations of each other -/
theorem concatRes_perm {α β : Type} (f : α → Res (List β)) (L L' : List α) (es es' : List β)
    (h : concatRes f L = .ok es) (h' : concatRes f L' = .ok es') (hp : L.Perm L') : es.Perm es' := by
  let P : α → List β := fun x => match f x with | .ok y => y | _ => []
  have key : ∀ (M : List α) (r : List β), concatRes f M = .ok r → r = M.flatMap P := by
    intro M
    induction M with
    | nil => intro r hr; rw [concatRes_nil] at hr; simp only [Res.ok.injEq] at hr; simp [← hr]
    | cons x xs ih =>
      intro r hr
      obtain ⟨a, b, ha, hb, rfl⟩ := (concatRes_ok_cons f x xs r).1 hr
      rw [List.flatMap_cons, ← ih b hb]
      have : P x = a := by simp [P, ha]
      rw [this]
  rw [key L es h, key L' es' h']
  exact List.Perm.flatMap_right P hp


end Diskfs.Ext4.Reader
