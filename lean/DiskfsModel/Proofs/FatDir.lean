import DiskfsModel.Model.Fat.DirCodec
/-
  Machine-checked facts about the FAT directory-entry codec of `Model/Fat/DirCodec.lean`
  (mirror of filesystem/fat12/directoryentry.go).  Core Lean only.
-/
set_option linter.unusedSimpArgs false
namespace Diskfs.Fat

theorem date_roundtrip (y mo d : Nat) (h1 : 1980 ≤ y) (h2 : y ≤ 2107) (h3 : mo < 16) (h4 : d < 32) :
    unpackDate (packDate y mo d) = (y, mo, d) := by
  unfold unpackDate packDate
  refine Prod.ext ?_ (Prod.ext ?_ ?_) <;> simp only [] <;> omega

theorem time_roundtrip (h mi s : Nat) (h1 : h < 32) (h2 : mi < 64) (h3 : s < 64) :
    unpackTime (packTime h mi s) = (h, mi, s / 2 * 2) := by
  unfold unpackTime packTime
  refine Prod.ext ?_ (Prod.ext ?_ ?_) <;> simp only [] <;> omega

theorem cex_date_2108 : (unpackDate (packDate 2108 1 1)).1 ≠ 2108 := by decide

theorem padTo_length (n : Nat) (l : List Nat) : (padTo n l).length = n := by
  unfold padTo
  simp only [List.length_take, List.length_append, List.length_replicate]
  omega

theorem natsToBytes_length (l : List Nat) : (natsToBytes l).length = l.length := by
  simp [natsToBytes]

theorem dosBytes_length (e : DirEntry) : (dosBytes e).length = 32 := by
  simp [dosBytes, natsToBytes_length, padTo_length]

/-! ### 8.3 entry round trip -/

theorem bytesToNats_natsToBytes (l : List Nat) (h : ∀ c ∈ l, c < 256) :
    bytesToNats (natsToBytes l) = l := by
  induction l with
  | nil => rfl
  | cons a l ih =>
    simp only [bytesToNats, natsToBytes, List.map_cons, List.map_map] at *
    rw [ih (fun c hc => h c (List.mem_cons_of_mem _ hc))]
    have := h a (List.mem_cons_self ..)
    rw [UInt8.toNat_ofNat', Nat.mod_eq_of_lt (by omega)]

theorem padTo_eq (n : Nat) (l : List Nat) (h : l.length ≤ n) :
    padTo n l = l ++ List.replicate (n - l.length) 32 := by
  unfold padTo
  apply List.take_of_length_le
  simp; omega

theorem dropWhile_replicate_append (k : Nat) (r : List Nat) (h : r.head? ≠ some 32) :
    (List.replicate k 32 ++ r).dropWhile (· = 32) = r := by
  induction k with
  | zero =>
    cases r with
    | nil => rfl
    | cons a r =>
      have : a ≠ 32 := fun h' => h (by simp [h'])
      simp [List.dropWhile_cons, this]
  | succ k ih => simp [List.replicate_succ, List.dropWhile_cons, ih]

theorem stripSpaces_append_replicate (l : List Nat) (k : Nat) (h : l.getLast? ≠ some 32) :
    stripSpaces (l ++ List.replicate k 32) = l := by
  unfold stripSpaces
  rw [List.reverse_append, List.reverse_replicate, dropWhile_replicate_append _ _ (by rwa [List.head?_reverse]),
    List.reverse_reverse]

theorem strip_pad (n : Nat) (l : List Nat) (hl : l.length ≤ n) (hc : ∀ c ∈ l, c < 256)
    (hs : l.getLast? ≠ some 32) : stripSpaces (bytesToNats (natsToBytes (padTo n l))) = l := by
  rw [padTo_eq n l hl, bytesToNats_natsToBytes, stripSpaces_append_replicate _ _ hs]
  intro c hc'
  rw [List.mem_append] at hc'
  rcases hc' with h | h
  · exact hc c h
  · rw [List.mem_replicate] at h; omega

theorem parseDos_dosBytes (e : DirEntry) (lfn : Name) (h : e.WF) :
    parseDos (dosBytes e) lfn = { e with long := lfn } := by
  obtain ⟨hsl, hel, hsc, hec, _, hs32, he32, _, _, hattr, _, hlc, hct, hcd, had, hmt, hmd, hcl, hsz, _⟩ := h
  have f0 : (dosBytes e).take 8 = natsToBytes (padTo 8 e.short) := by
    simp [dosBytes, List.take_append, List.drop_append, padTo_length, natsToBytes_length, List.drop_of_length_le, List.take_of_length_le]
  have f1 : ((dosBytes e).drop 8).take 3 = natsToBytes (padTo 3 e.ext) := by
    simp [dosBytes, List.take_append, List.drop_append, padTo_length, natsToBytes_length, List.drop_of_length_le, List.take_of_length_le]
  have f2 : (dosBytes e).getD 11 0 = UInt8.ofNat e.attr := by
    simp [dosBytes, List.getD_eq_getElem?_getD, padTo_length, natsToBytes_length]
  have f3 : (dosBytes e).getD 12 0 = UInt8.ofNat e.lcase := by
    simp [dosBytes, List.getD_eq_getElem?_getD, padTo_length, natsToBytes_length]
  have f4 : ((dosBytes e).drop 14).take 2 = leEnc 2 e.cTime := by
    simp [dosBytes, List.take_append, List.drop_append, padTo_length, natsToBytes_length, List.drop_of_length_le, List.take_of_length_le]
  have f5 : ((dosBytes e).drop 16).take 2 = leEnc 2 e.cDate := by
    simp [dosBytes, List.take_append, List.drop_append, padTo_length, natsToBytes_length, List.drop_of_length_le, List.take_of_length_le]
  have f6 : ((dosBytes e).drop 18).take 2 = leEnc 2 e.aDate := by
    simp [dosBytes, List.take_append, List.drop_append, padTo_length, natsToBytes_length, List.drop_of_length_le, List.take_of_length_le]
  have f7 : ((dosBytes e).drop 20).take 2 = leEnc 2 (e.cluster / 65536) := by
    simp [dosBytes, List.take_append, List.drop_append, padTo_length, natsToBytes_length, List.drop_of_length_le, List.take_of_length_le]
  have f8 : ((dosBytes e).drop 22).take 2 = leEnc 2 e.mTime := by
    simp [dosBytes, List.take_append, List.drop_append, padTo_length, natsToBytes_length, List.drop_of_length_le, List.take_of_length_le]
  have f9 : ((dosBytes e).drop 24).take 2 = leEnc 2 e.mDate := by
    simp [dosBytes, List.take_append, List.drop_append, padTo_length, natsToBytes_length, List.drop_of_length_le, List.take_of_length_le]
  have f10 : ((dosBytes e).drop 26).take 2 = leEnc 2 (e.cluster % 65536) := by
    simp [dosBytes, List.take_append, List.drop_append, padTo_length, natsToBytes_length, List.drop_of_length_le, List.take_of_length_le]
  have f11 : ((dosBytes e).drop 28).take 4 = leEnc 4 e.size := by
    simp [dosBytes, List.take_append, List.drop_append, padTo_length, natsToBytes_length, List.drop_of_length_le, List.take_of_length_le]
  unfold parseDos parseDos.byteAtD
  rw [f0, f1, f2, f3, f4, f5, f6, f7, f8, f9, f10, f11]
  rw [strip_pad 8 _ hsl hsc hs32, strip_pad 3 _ hel hec he32]
  rw [leDec_leEnc_of_lt 2 _ hct, leDec_leEnc_of_lt 2 _ hcd, leDec_leEnc_of_lt 2 _ had,
    leDec_leEnc_of_lt 2 _ hmt, leDec_leEnc_of_lt 2 _ hmd, leDec_leEnc_of_lt 4 _ hsz,
    leDec_leEnc_of_lt 2 (e.cluster % 65536) (by omega), leDec_leEnc_of_lt 2 (e.cluster / 65536) (by omega)]
  rw [UInt8.toNat_ofNat', UInt8.toNat_ofNat']
  have a1 : e.attr % 2 ^ 8 % 64 = e.attr := by omega
  have a2 : e.lcase % 2 ^ 8 / 8 % 4 * 8 = e.lcase := by omega
  have a3 : e.cluster % 65536 + 65536 * (e.cluster / 65536) = e.cluster := by omega
  rw [a1, a2, a3]

/-! ### `uniqueShortName` always returns a fresh name -/

theorem natDigits_eq (n : Nat) : natDigits n = (Nat.toDigits 10 n).map Char.toNat := by
  unfold natDigits
  rw [Nat.toString_eq_repr, Nat.toList_repr]

theorem natDigits_inj {a b : Nat} (h : natDigits a = natDigits b) : a = b := by
  rw [natDigits_eq, natDigits_eq] at h
  have h' : Nat.toDigits 10 a = Nat.toDigits 10 b :=
    (List.map_inj_right (fun x y hxy => Char.toNat_inj.mp hxy)).mp h
  have := congrArg (fun l => Nat.ofDigitChars 10 l 0) h'
  simpa [Nat.ofDigitChars_ten_toDigits] using this

theorem natDigits_ne_tilde (n : Nat) : 126 ∉ natDigits n := by
  rw [natDigits_eq]
  intro h
  rw [List.mem_map] at h
  obtain ⟨c, hc, hc2⟩ := h
  have := Nat.isDigit_of_mem_toDigits (by decide) (by decide) hc
  unfold Char.isDigit at this
  simp at this
  have h3 : c.val.toNat = 126 := hc2
  have := this.2
  rw [UInt32.le_iff_toNat_le] at this
  simp at this
  omega

/-- the text after the last `~` determines the suffix -/
theorem tilde_suffix_inj (P P' D D' : List Nat) (hD : 126 ∉ D) (hD' : 126 ∉ D')
    (h : P ++ 126 :: D = P' ++ 126 :: D') : D = D' := by
  induction P generalizing P' with
  | nil =>
    cases P' with
    | nil => simpa using h
    | cons a P'' =>
      simp only [List.nil_append, List.cons_append, List.cons.injEq] at h
      exact absurd (h.2 ▸ (by simp : (126:Nat) ∈ P'' ++ 126 :: D')) hD
  | cons a P ih =>
    cases P' with
    | nil =>
      simp only [List.nil_append, List.cons_append, List.cons.injEq] at h
      exact absurd (h.2 ▸ (by simp : (126:Nat) ∈ P ++ 126 :: D)) hD'
    | cons a' P'' =>
      simp only [List.cons_append, List.cons.injEq] at h
      exact ih P'' h.2

theorem tailCandidate_inj (stem : Name) {c c' : Nat} (h : tailCandidate stem c = tailCandidate stem c') :
    c = c' := by
  unfold tailCandidate at h
  exact natDigits_inj (tilde_suffix_inj _ _ _ _ (natDigits_ne_tilde c) (natDigits_ne_tilde c') h)

/-- pigeonhole: an injective image of a duplicate-free list inside `l'` is no longer than `l'` -/
theorem pigeonhole {β : Type} [DecidableEq β] (f : Nat → β) (hf : ∀ a b, f a = f b → a = b)
    (l : List Nat) (hnd : l.Nodup) (l' : List β) (hs : ∀ x ∈ l, f x ∈ l') : l.length ≤ l'.length := by
  induction l generalizing l' with
  | nil => simp
  | cons a l ih =>
    rw [List.nodup_cons] at hnd
    have ha : f a ∈ l' := hs a (List.mem_cons_self ..)
    have h1 := ih hnd.2 (l'.erase (f a)) (fun x hx => by
      rw [List.mem_erase_of_ne]
      · exact hs x (List.mem_cons_of_mem _ hx)
      · intro h
        exact hnd.1 (hf _ _ h ▸ hx))
    rw [List.length_erase_of_mem ha] at h1
    have := List.length_pos_of_mem ha
    simp only [List.length_cons]
    omega

theorem uniqueShort_fresh (stem ext : Name) (existing : List Name) :
    (uniqueShortName stem ext existing ++ ext) ∉ existing := by
  unfold uniqueShortName
  split
  · rename_i c hc
    have := List.find?_some hc
    simpa using this
  · rename_i hnone
    exfalso
    rw [List.find?_eq_none] at hnone
    have := pigeonhole (fun c => tailCandidate stem c ++ ext)
      (fun a b h => tailCandidate_inj stem (List.append_cancel_right h))
      (List.range' 1 (existing.length + 1)) (List.nodup_range' ..) existing
      (fun x hx => by
        have := hnone x hx
        simpa using this)
    rw [List.length_range'] at this
    omega

/-! ### long-file-name slots -/

theorem unitsBytes_length (u : List Nat) : (unitsBytes u).length = 2 * u.length := by
  unfold unitsBytes
  induction u with
  | nil => rfl
  | cons a u ih => simp [List.flatMap_cons, ih]; omega

theorem lfnSlot_length (seq cks : Nat) (u : List Nat) (h : u.length = 13) :
    (lfnSlot seq cks u).length = 32 := by
  unfold lfnSlot
  simp only [List.length_append, unitsBytes_length, List.length_take, List.length_drop, List.length_cons,
    List.length_nil, h]
  omega

theorem list13 (u : List Nat) (h : u.length = 13) :
    ∃ a0 a1 a2 a3 a4 a5 a6 a7 a8 a9 a10 a11 a12, u = [a0, a1, a2, a3, a4, a5, a6, a7, a8, a9, a10, a11, a12] := by
  rcases u with _ | ⟨a0, _ | ⟨a1, _ | ⟨a2, _ | ⟨a3, _ | ⟨a4, _ | ⟨a5, _ | ⟨a6, _ | ⟨a7, _ | ⟨a8, _ | ⟨a9, _ | ⟨a10,
    _ | ⟨a11, _ | ⟨a12, _ | ⟨a13, t⟩⟩⟩⟩⟩⟩⟩⟩⟩⟩⟩⟩⟩⟩ <;> simp at h
  exact ⟨a0, a1, a2, a3, a4, a5, a6, a7, a8, a9, a10, a11, a12, rfl⟩

theorem unit_dec (a : Nat) (h : a < 65536) :
    (UInt8.ofNat (a % 256)).toNat + 256 * ((UInt8.ofNat (a / 256 % 256)).toNat + 0) = a := by
  rw [UInt8.toNat_ofNat', UInt8.toNat_ofNat']; omega

theorem lfnSlotUnits_lfnSlot (seq cks : Nat) (u : List Nat) (h : u.length = 13) (hu : ∀ x ∈ u, x < 65536) :
    lfnSlotUnits (lfnSlot seq cks u) = u.takeWhile (· ≠ 0) := by
  obtain ⟨a0, a1, a2, a3, a4, a5, a6, a7, a8, a9, a10, a11, a12, rfl⟩ := list13 u h
  have hr : List.range 13 = [0, 1, 2, 3, 4, 5, 6, 7, 8, 9, 10, 11, 12] := by decide
  unfold lfnSlotUnits lfnSlot unitsBytes
  rw [hr]
  simp only [List.take, List.drop, List.flatMap_cons, List.flatMap_nil, leEnc, List.append_nil, List.cons_append,
    List.nil_append, List.map_cons, List.map_nil, leDec, Nat.mul_zero]
  simp only [List.mem_cons, List.not_mem_nil, or_false, forall_eq_or_imp, forall_eq] at hu
  obtain ⟨h0, h1, h2, h3, h4, h5, h6, h7, h8, h9, h10, h11, h12⟩ := hu
  rw [unit_dec a0 h0, unit_dec a1 h1, unit_dec a2 h2, unit_dec a3 h3, unit_dec a4 h4, unit_dec a5 h5,
    unit_dec a6 h6, unit_dec a7 h7, unit_dec a8 h8, unit_dec a9 h9, unit_dec a10 h10, unit_dec a11 h11,
    unit_dec a12 h12]

theorem lfnUnits_length (long : Name) (slots : Nat) : (lfnUnits long slots).length = slots * 13 := by
  simp [lfnUnits]

theorem flatMap_length_of_mem {α : Type} (w : Nat) (f : α → Bytes) (l : List α)
    (hf : ∀ a ∈ l, (f a).length = w) : (l.flatMap f).length = l.length * w := by
  induction l with
  | nil => simp
  | cons a l ih =>
    rw [List.flatMap_cons, List.length_append, ih (fun x hx => hf x (List.mem_cons_of_mem _ hx)),
      hf a (List.mem_cons_self ..), List.length_cons, Nat.add_mul, Nat.one_mul, Nat.add_comm]

theorem lfnChunk_length (long : Name) (slots j : Nat) (hj : j < slots) :
    (((lfnUnits long slots).drop (j * 13)).take 13).length = 13 := by
  rw [List.length_take, List.length_drop, lfnUnits_length]
  have : (j + 1) * 13 ≤ slots * 13 := Nat.mul_le_mul_right 13 hj
  omega

theorem lfnBytes_length (long : Name) (short ext : List Nat) :
    (lfnBytes long short ext).length = 32 * calculateSlots long := by
  unfold lfnBytes
  simp only []
  rw [flatMap_length_of_mem 32]
  · simp [Nat.mul_comm]
  · intro j hj
    rw [List.mem_reverse, List.mem_range] at hj
    exact lfnSlot_length _ _ _ (lfnChunk_length long _ j hj)

/-! ### parser over serialised entries -/

theorem parseSlots_step (fuel : Nat) (s rest : Bytes) (lfn : Name) (hs : s.length = 32) :
    parseSlots (fuel + 1) (s ++ rest) lfn =
      if (s.getD 0 0).toNat = 0 then []
      else if (s.getD 0 0).toNat = 0xE5 then parseSlots fuel rest lfn
      else if (s.getD 11 0).toNat = 0x0F then
        parseSlots fuel rest (lfnSlotUnits s ++ (if (s.getD 0 0).toNat / 64 % 2 = 1 then [] else lfn))
      else parseDos s lfn :: parseSlots fuel rest [] := by
  rw [parseSlots]
  have h1 : ¬ ((s ++ rest).length < 32) := by rw [List.length_append]; omega
  have h2 : (s ++ rest).take 32 = s := by rw [← hs, List.take_left']; rfl
  have h3 : (s ++ rest).drop 32 = rest := by rw [← hs, List.drop_left']; rfl
  rw [if_neg h1]
  simp only [h2, h3]

theorem parse_dos_step (fuel : Nat) (e : DirEntry) (rest : Bytes) (lfn : Name) (h : e.WF) :
    parseSlots (fuel + 1) (dosBytes e ++ rest) lfn = { e with long := lfn } :: parseSlots fuel rest [] := by
  rw [parseSlots_step _ _ _ _ (dosBytes_length e), parseDos_dosBytes e lfn h]
  obtain ⟨hsl, _, hsc, _, hne, _, _, hh0, hhe5, hattr, hattr15, _⟩ := h
  have f2 : (dosBytes e).getD 11 0 = UInt8.ofNat e.attr := by
    simp [dosBytes, List.getD_eq_getElem?_getD, padTo_length, natsToBytes_length]
  obtain ⟨a, t, hst⟩ := List.exists_cons_of_ne_nil hne
  have f0 : (dosBytes e).getD 0 0 = UInt8.ofNat a := by
    simp [dosBytes, hst, padTo, natsToBytes]
  have ha : a < 256 := hsc a (by simp [hst])
  have ha0 : a ≠ 0 := fun h' => hh0 (by simp [hst, h'])
  have hae5 : a ≠ 0xE5 := fun h' => hhe5 (by simp [hst, h'])
  rw [f0, f2, UInt8.toNat_ofNat', UInt8.toNat_ofNat']
  rw [if_neg (by omega), if_neg (by omega), if_neg (by omega)]

theorem parse_lfn_step (fuel seq cks : Nat) (u : List Nat) (rest : Bytes) (lfn : Name)
    (hu : u.length = 13) (h0 : 0 < seq) (h1 : seq < 128) :
    parseSlots (fuel + 1) (lfnSlot seq cks u ++ rest) lfn =
      parseSlots fuel rest (lfnSlotUnits (lfnSlot seq cks u) ++ (if seq / 64 % 2 = 1 then [] else lfn)) := by
  rw [parseSlots_step _ _ _ _ (lfnSlot_length seq cks u hu)]
  have g0 : (lfnSlot seq cks u).getD 0 0 = UInt8.ofNat seq := by
    simp [lfnSlot]
  have g11 : (lfnSlot seq cks u).getD 11 0 = 0x0F := by
    obtain ⟨a0, a1, a2, a3, a4, a5, a6, a7, a8, a9, a10, a11, a12, rfl⟩ := list13 u hu
    simp [lfnSlot, unitsBytes, leEnc]
  rw [g0, g11, UInt8.toNat_ofNat']
  have : seq % 2 ^ 8 = seq := by omega
  rw [this, if_neg (by omega), if_neg (by omega), if_pos (by decide)]

def lfnPad (n : Nat) : List Nat := (List.range n).map fun i => if i = 0 then 0 else 0xFFFF

theorem lfnPad_head (n : Nat) : lfnPad n = [] ∨ (lfnPad n).head? = some 0 := by
  cases n with
  | zero => left; rfl
  | succ n => right; simp [lfnPad, List.range_succ_eq_map]

theorem lfnUnits_eq (long : Name) (slots : Nat) (hl : ∀ r ∈ long, r < 65536) (hs : long.length ≤ slots * 13) :
    lfnUnits long slots = long ++ lfnPad (slots * 13 - long.length) := by
  apply List.ext_getElem
  · simp [lfnUnits, lfnPad]; omega
  · intro i h1 h2
    simp only [lfnUnits, List.getElem_map, List.getElem_range]
    by_cases hi : i < long.length
    · rw [if_pos hi, List.getElem_append_left hi]
      have : long.getD i 0 = long[i] := by simp [List.getD_eq_getElem?_getD, hi]
      rw [this, Nat.mod_eq_of_lt (hl _ (List.getElem_mem hi))]
    · rw [if_neg hi, List.getElem_append_right (by omega)]
      simp only [lfnPad, List.getElem_map, List.getElem_range]
      by_cases h : i = long.length
      · simp [h]
      · rw [if_neg h, if_neg (by omega)]

theorem takeWhile_append_pad {l pad : List Nat} (h : ∀ r ∈ l, r ≠ 0) (hp : pad = [] ∨ pad.head? = some 0) :
    (l ++ pad).takeWhile (· ≠ 0) = l := by
  induction l with
  | nil =>
    rcases hp with rfl | hp
    · rfl
    · cases pad with
      | nil => rfl
      | cons a t =>
        simp at hp
        simp [hp]
  | cons a l ih =>
    have ha : a ≠ 0 := h a (List.mem_cons_self ..)
    rw [List.cons_append, List.takeWhile_cons, if_pos (by simpa using ha),
      ih (fun r hr => h r (List.mem_cons_of_mem _ hr))]

theorem takeWhile_all {l : List Nat} (h : ∀ r ∈ l, r ≠ 0) : l.takeWhile (· ≠ 0) = l := by
  have := takeWhile_append_pad (pad := []) h (Or.inl rfl)
  rwa [List.append_nil] at this

/-- cutting `name ++ pad` into 13-unit chunks, truncating each at the first zero and gluing the
    pieces together gives the name back -/
theorem chunks_concat (s : Nat) (long pad : List Nat) (hl : ∀ r ∈ long, r ≠ 0)
    (hp : pad = [] ∨ pad.head? = some 0) (hlen : (long ++ pad).length = s * 13) (hpl : pad.length < 13) :
    (List.range s).flatMap (fun j => (((long ++ pad).drop (j * 13)).take 13).takeWhile (· ≠ 0)) = long := by
  induction s generalizing long with
  | zero =>
    simp at hlen
    simp [hlen.1]
  | succ s ih =>
    rw [List.range_succ_eq_map, List.flatMap_cons, List.flatMap_map]
    simp only [Nat.zero_mul, List.drop_zero]
    rw [List.length_append] at hlen
    by_cases h13 : 13 ≤ long.length
    · have e1 : (long ++ pad).take 13 = long.take 13 := List.take_append_of_le_length h13
      have e2 : ∀ j, (long ++ pad).drop ((j + 1) * 13) = (long.drop 13 ++ pad).drop (j * 13) := by
        intro j
        rw [Nat.add_mul, Nat.one_mul, Nat.add_comm, ← List.drop_drop, List.drop_append_of_le_length h13]
      simp only [e1, e2]
      rw [ih (long.drop 13) (fun r hr => hl r (List.mem_of_mem_drop hr))
        (by rw [List.length_append, List.length_drop]; omega)]
      rw [takeWhile_all (fun r hr => hl r (List.mem_of_mem_take hr)), List.take_append_drop]
    · have hs : s = 0 := by omega
      subst hs
      simp only [List.range_zero, List.flatMap_nil, List.append_nil]
      rw [List.take_of_length_le (by rw [List.length_append]; omega)]
      exact takeWhile_append_pad hl hp

theorem lfnUnits_lt (long : Name) (slots : Nat) : ∀ x ∈ lfnUnits long slots, x < 65536 := by
  intro x hx
  simp only [lfnUnits, List.mem_map, List.mem_range] at hx
  obtain ⟨i, _, rfl⟩ := hx
  split
  · exact Nat.mod_lt _ (by decide)
  · split <;> decide

theorem lfnChunk_lt (long : Name) (slots j : Nat) :
    ∀ x ∈ ((lfnUnits long slots).drop (j * 13)).take 13, x < 65536 :=
  fun x hx => lfnUnits_lt long slots x (List.mem_of_mem_drop (List.mem_of_mem_take hx))

/-- the unflagged slots `k-1 … 0` prepend their units to the accumulator -/
theorem parse_lfn_run (long : Name) (slots cks : Nat) (hs : slots < 64) (rest : Bytes) (fuel : Nat)
    (k : Nat) (hk : k < slots) (acc : Name) :
    parseSlots (fuel + k)
      (((List.range k).reverse.flatMap fun j =>
        lfnSlot (if j + 1 = slots then (j + 1) + 64 else j + 1) cks (((lfnUnits long slots).drop (j * 13)).take 13))
        ++ rest) acc =
    parseSlots fuel rest
      (((List.range k).flatMap fun j => (((lfnUnits long slots).drop (j * 13)).take 13).takeWhile (· ≠ 0)) ++ acc) := by
  induction k generalizing acc with
  | zero => simp
  | succ k ih =>
    rw [List.range_succ, List.reverse_append, List.reverse_singleton, List.singleton_append, List.flatMap_cons,
      List.append_assoc, if_neg (by omega), ← Nat.add_assoc,
      parse_lfn_step _ (k + 1) _ _ _ _ (lfnChunk_length long slots k (by omega)) (by omega) (by omega),
      lfnSlotUnits_lfnSlot _ _ _ (lfnChunk_length long slots k (by omega)) (lfnChunk_lt long slots k),
      if_neg (by omega), ih (by omega)]
    rw [List.flatMap_append, List.flatMap_singleton, List.append_assoc]

theorem parse_lfnBytes (long : Name) (short ext : List Nat) (hne : long ≠ [])
    (hl : ∀ r ∈ long, 0 < r ∧ r < 65536) (hlen : long.length ≤ 255)
    (hslots : calculateSlots long = (long.length + 12) / 13) (rest : Bytes) (fuel : Nat) (acc : Name) :
    parseSlots (fuel + calculateSlots long) (lfnBytes long short ext ++ rest) acc =
      parseSlots fuel rest long := by
  unfold lfnBytes
  simp only []
  have hpos : 0 < long.length := List.length_pos_iff.mpr hne
  obtain ⟨s, hs⟩ : ∃ s, calculateSlots long = s + 1 := ⟨calculateSlots long - 1, by omega⟩
  have hs64 : s + 1 < 64 := by omega
  rw [hs] at hslots ⊢
  rw [List.range_succ, List.reverse_append, List.reverse_singleton, List.singleton_append, List.flatMap_cons,
    List.append_assoc, if_pos rfl, ← Nat.add_assoc,
    parse_lfn_step _ (s + 1 + 64) _ _ _ _ (lfnChunk_length long (s + 1) s (by omega)) (by omega) (by omega),
    lfnSlotUnits_lfnSlot _ _ _ (lfnChunk_length long (s + 1) s (by omega)) (lfnChunk_lt long (s + 1) s),
    if_pos (by omega), parse_lfn_run long (s + 1) _ hs64 rest fuel s (by omega), List.append_nil]
  congr 1
  have := chunks_concat (s + 1) long (lfnPad ((s + 1) * 13 - long.length)) (fun r hr => by have := hl r hr; omega)
    (lfnPad_head _) (by simp [lfnPad]; omega) (by simp [lfnPad]; omega)
  rw [← lfnUnits_eq long (s + 1) (fun r hr => (hl r hr).2) (by omega), List.range_succ, List.flatMap_append,
    List.flatMap_singleton] at this
  exact this

theorem parse_ser_entry (e : DirEntry) (fuel : Nat) (rest : Bytes) (h : e.WF) :
    parseSlots (fuel + calculateSlots e.long + 1) (serEntry e ++ rest) [] = e :: parseSlots fuel rest [] := by
  unfold serEntry
  by_cases hl : e.long = []
  · have hc : calculateSlots e.long = 0 := by rw [hl]; decide
    rw [if_pos hl, List.nil_append, hc, Nat.add_zero, parse_dos_step _ e rest [] h]
    congr 1
    cases e
    simp only at hl
    subst hl
    rfl
  · rw [if_neg hl, List.append_assoc]
    have hwf := h
    obtain ⟨_, _, _, _, _, _, _, _, _, _, _, _, _, _, _, _, _, _, _, hr, hlen, hslots⟩ := hwf
    have : fuel + calculateSlots e.long + 1 = (fuel + 1) + calculateSlots e.long := by omega
    rw [this, parse_lfnBytes e.long e.short e.ext hl hr hlen hslots, parse_dos_step _ e rest e.long h]

/-- total number of 32-byte slots of a list of entries -/
def slotCount (es : List DirEntry) : Nat := (es.map fun e => calculateSlots e.long + 1).sum

theorem serEntry_length (e : DirEntry) : (serEntry e).length = 32 * (calculateSlots e.long + 1) := by
  unfold serEntry
  split
  · rename_i h
    rw [h]
    simp [dosBytes_length]
    decide
  · rw [List.length_append, lfnBytes_length, dosBytes_length]; omega

theorem serEntries_length (es : List DirEntry) : (es.flatMap serEntry).length = 32 * slotCount es := by
  induction es with
  | nil => rfl
  | cons e es ih =>
    simp only [List.flatMap_cons, List.length_append, ih, serEntry_length, slotCount, List.map_cons, List.sum_cons]
    omega

theorem parse_ser_entries (es : List DirEntry) (h : ∀ e ∈ es, e.WF) (fuel : Nat) (rest : Bytes) :
    parseSlots (fuel + slotCount es) (es.flatMap serEntry ++ rest) [] = es ++ parseSlots fuel rest [] := by
  induction es with
  | nil => rfl
  | cons e es ih =>
    have : fuel + slotCount (e :: es) = (fuel + slotCount es) + calculateSlots e.long + 1 := by
      simp only [slotCount, List.map_cons, List.sum_cons]; omega
    rw [this, List.flatMap_cons, List.append_assoc, parse_ser_entry e _ _ (h e (List.mem_cons_self ..)),
      ih (fun e he => h e (List.mem_cons_of_mem _ he))]
    rfl

theorem parseSlots_zeros (fuel n : Nat) (lfn : Name) : parseSlots fuel (zeros n) lfn = [] := by
  cases fuel with
  | zero => rfl
  | succ fuel =>
    rw [parseSlots]
    split
    · rfl
    · rename_i h
      have : ((zeros n).take 32).getD 0 0 = 0 := by
        simp only [zeros] at *
        simp [List.getD_eq_getElem?_getD, List.getElem?_replicate]
        split <;> rfl
      simp only [this]
      rfl

theorem dir_parse_ser (bpc : Nat) (es : List DirEntry) (h : ∀ e ∈ es, e.WF) (_hb : 0 < bpc) :
    parseDir (serDir bpc es) = es := by
  unfold parseDir serDir
  simp only []
  split
  · have := parse_ser_entries es h 0 []
    rw [serEntries_length, Nat.mul_div_cancel_left _ (by decide : 0 < 32)]
    simp only [Nat.zero_add, List.append_nil] at this
    rw [this]
    simp [parseSlots]
  · rw [List.length_append, serEntries_length, zeros_length]
    have : (32 * slotCount es + (bpc - 32 * slotCount es % bpc)) / 32
        = (bpc - 32 * slotCount es % bpc) / 32 + slotCount es := by omega
    rw [this, parse_ser_entries es h, parseSlots_zeros, List.append_nil]

end Diskfs.Fat
