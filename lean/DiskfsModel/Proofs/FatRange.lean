/-
  C03, FAT clause: every WriteAt of the modelled FAT operations lies inside the byte range
  [start, start+size) the volume was given.
    fstepW_eq            the write-logging step is `fstep` plus a log (same state, same verdict)
    Layout.lim_le        the scan limit of allocateSpace never exceeds (size - dataStart)/bpc + 2
    cluster_in_range     a cluster number in [2, lim) maps inside the volume
    wr*_in_range         boot sector(s), FAT copies, FSInfo, root region, directory clusters
    fstepW_in_range      every write of every operation, accepted or refused
    frunW_in_range       … of every history (induction over the op list)
    ofGeom_wf            the layout `Create` derives from a well-formed geometry is well formed
  Core Lean only.
-/
import DiskfsModel.Model.Fat.Emit
import DiskfsModel.Proofs.FatFlatFs
import DiskfsModel.Proofs.FatGeomGen
namespace Diskfs.Fat

/-! ### the logging step is the step -/

theorem fstepW_eq (eqn : Spec.Name → Spec.Name → Bool) (L : Layout) (fuel : Nat) (s : FState) (op : FOp) :
    ((fstepW eqn L fuel s op).s, (fstepW eqn L fuel s op).ok) = fstep eqn L.fgeom fuel s op := by
  cases op with
  | create n =>
    simp only [fstepW, fstep]
    cases ffind eqn s.files n with
    | some f => rfl
    | none =>
      simp only []
      cases (falloc L.fgeom fuel s.m 1 0).res <;> rfl
  | writeAt n off data =>
    simp only [fstepW, fstep]
    cases ffind eqn s.files n with
    | none => rfl
    | some f =>
      simp only []
      by_cases hz : data.length = 0
      · simp only [if_pos hz]
      · simp only [if_neg hz]
        cases (falloc L.fgeom fuel s.m (Nat.max f.size (off + data.length)) (f.chain.headD 0)).res with
        | none => rfl
        | some l' =>
          simp only []
          show _ = (match writeH true L.io l' f.size off data with | none => _ | some ws => _)
          cases writeH true L.io l' f.size off data <;> rfl
  | truncate n =>
    simp only [fstepW, fstep]
    cases ffind eqn s.files n with
    | none => rfl
    | some f =>
      simp only []
      by_cases hz : f.size = 0
      · simp only [if_pos hz]
      · simp only [if_neg hz]
        cases (falloc L.fgeom fuel s.m 1 (f.chain.headD 0)).res <;> rfl
  | remove n =>
    simp only [fstepW, fstep]
    cases ffind eqn s.files n with
    | none => rfl
    | some f =>
      simp only []
      show _ = (if (freeChain L.kind L.max fuel s.m (f.chain.headD 0)).2 = true then _ else _)
      by_cases hr : (freeChain L.kind L.max fuel s.m (f.chain.headD 0)).2 = true
      · simp only [if_pos hr]; rfl
      · simp only [if_neg hr]
  | rename o n =>
    simp only [fstepW, fstep]
    cases ffind eqn s.files o with
    | none => rfl
    | some f =>
      simp only []
      by_cases hon : eqn o n = true
      · simp only [if_pos hon]
      · simp only [if_neg hon]
        cases ffind eqn s.files n with
        | none => rfl
        | some t =>
          simp only []
          show _ = (if (freeChain L.kind L.max fuel s.m (t.chain.headD 0)).2 = true then _ else _)
          by_cases hr : (freeChain L.kind L.max fuel s.m (t.chain.headD 0)).2 = true
          · simp only [if_pos hr]; rfl
          · simp only [if_neg hr]

theorem fstepW_s (eqn : Spec.Name → Spec.Name → Bool) (L : Layout) (fuel : Nat) (s : FState) (op : FOp) :
    (fstepW eqn L fuel s op).s = (fstep eqn L.fgeom fuel s op).1 := by
  rw [← fstepW_eq]

theorem fstepW_ok (eqn : Spec.Name → Spec.Name → Bool) (L : Layout) (fuel : Nat) (s : FState) (op : FOp) :
    (fstepW eqn L fuel s op).ok = (fstep eqn L.fgeom fuel s op).2 := by
  rw [← fstepW_eq]

/-! ### the allocator bound -/

theorem Layout.lim_le_max (L : Layout) : L.lim ≤ L.max := by
  unfold Layout.lim
  split <;> omega

/-- `scanLimit ≤ (size − dataStart) / bytesPerCluster + 2`: this is what `dataClusterLimit` is for -/
theorem Layout.lim_le (L : Layout) (h : L.WF) : L.lim ≤ (L.size - L.dataStart) / L.bpc + 2 := by
  have hb := h.bpc_pos
  have hd := h.data_lt
  have hc : ¬(L.bpc = 0 ∨ L.size ≤ L.dataStart) := by omega
  unfold Layout.lim Layout.dataClusterLimit
  simp only [if_neg hc]
  generalize (L.size - L.dataStart) / L.bpc = q
  split <;> split <;> omega

/-- a cluster number the allocator can hand out (and hence every cluster of every chain of a
    sound table) maps inside the volume -/
theorem Layout.cluster_in_range (L : Layout) (h : L.WF) (c : Nat) (h2 : 2 ≤ c) (hc : c < L.lim) :
    L.start ≤ clusterOff L.io c ∧ clusterOff L.io c + L.bpc ≤ L.start + L.size := by
  have hl := L.lim_le h
  have hd := h.data_lt
  have hq : (L.size - L.dataStart) / L.bpc * L.bpc ≤ L.size - L.dataStart := Nat.div_mul_le_self ..
  have h1 : (c - 2 + 1) * L.bpc ≤ (L.size - L.dataStart) / L.bpc * L.bpc :=
    Nat.mul_le_mul_right _ (by omega)
  rw [Nat.add_mul, Nat.one_mul] at h1
  simp only [clusterOff, Layout.io]
  omega

/-! ### the emission primitives stay inside the range -/

theorem Layout.wrBoot_in_range (L : Layout) (h : L.WF) : ∀ w ∈ L.wrBoot, L.InRange w := by
  have hb := h.boot
  have h1 := h.fat1_le; have h2 := h.fat2_le; have h3 := h.root_le; have h4 := h.data_lt
  intro w hw
  unfold Layout.wrBoot at hw
  unfold Layout.InRange
  cases hk : L.kind <;> simp only [hk] at hw hb
  · simp only [List.mem_singleton] at hw; subst hw; simp only [zeros_length]; omega
  · simp only [List.mem_singleton] at hw; subst hw; simp only [zeros_length]; omega
  · rw [Nat.add_mul] at hb
    rcases List.mem_cons.1 hw with rfl | hw
    · simp only [zeros_length]
      have : L.bps ≤ 2 * L.bps := by omega
      omega
    · split at hw
      · simp only [List.mem_singleton] at hw; subst hw; simp only [zeros_length]; omega
      · simp at hw

theorem Layout.wrFsis_in_range (L : Layout) (h : L.WF) : ∀ w ∈ L.wrFsis, L.InRange w := by
  have hb := h.boot
  have h1 := h.fat1_le; have h2 := h.fat2_le; have h3 := h.root_le; have h4 := h.data_lt
  intro w hw
  unfold Layout.wrFsis at hw
  unfold Layout.InRange
  cases hk : L.kind <;> simp only [hk] at hw hb
  · simp at hw
  · simp at hw
  · rw [Nat.add_mul, Nat.add_mul, Nat.one_mul] at hb
    rcases List.mem_cons.1 hw with rfl | hw
    · simp only [zeros_length]; omega
    · split at hw
      · simp only [List.mem_singleton] at hw; subst hw
        simp only [zeros_length]
        rw [Nat.add_mul, Nat.one_mul]; omega
      · simp at hw

theorem Layout.wrFat_in_range (L : Layout) (h : L.WF) : ∀ w ∈ L.wrFat, L.InRange w := by
  have h1 := h.fat1_le; have h2 := h.fat2_le; have h3 := h.root_le; have h4 := h.data_lt
  intro w hw
  unfold Layout.wrFat at hw
  rcases List.mem_append.1 hw with hw | hw
  · unfold Layout.InRange
    simp only [List.mem_cons, List.not_mem_nil, or_false] at hw
    rcases hw with rfl | rfl <;> simp only [zeros_length] <;> omega
  · exact L.wrFsis_in_range h w hw

theorem Layout.wrRoot_in_range (L : Layout) (h : L.WF) : ∀ w ∈ L.wrRoot, L.InRange w := by
  have h3 := h.root_le; have h4 := h.data_lt
  intro w hw
  unfold Layout.wrRoot at hw
  unfold Layout.InRange
  simp only [List.mem_singleton] at hw; subst hw; simp only [zeros_length]; omega

theorem Layout.wrDirChain_in_range (L : Layout) (h : L.WF) (chain : List Nat)
    (hc : ∀ c ∈ chain, 2 ≤ c ∧ c < L.lim) : ∀ w ∈ L.wrDirChain chain, L.InRange w := by
  intro w hw
  unfold Layout.wrDirChain at hw
  obtain ⟨c, hcm, rfl⟩ := List.mem_map.1 hw
  have := L.cluster_in_range h c (hc c hcm).1 (hc c hcm).2
  unfold Layout.InRange
  simp only [zeros_length]; omega

/-- file data: writes that stay inside clusters of a chain below the scan limit -/
theorem Layout.data_in_range (L : Layout) (h : L.WF) (chain : List Nat) (ws : List Wr)
    (hc : ∀ c ∈ chain, 2 ≤ c ∧ c < L.lim)
    (hws : ∀ w ∈ ws, w.data.length = 0 ∨ ∃ c ∈ chain, InCluster L.io c w) :
    ∀ w ∈ ws, w.data.length = 0 ∨ L.InRange w := by
  intro w hw
  rcases hws w hw with h0 | ⟨c, hcm, hin⟩
  · exact Or.inl h0
  · right
    have := L.cluster_in_range h c (hc c hcm).1 (hc c hcm).2
    unfold InCluster at hin
    unfold Layout.InRange
    simp only [Layout.io] at hin this
    omega

/-- `Create`: needs cluster 2 to exist when the root directory is a chain (FAT32) -/
theorem Layout.createWrites_in_range (L : Layout) (h : L.WF) (hroot : 0 < L.rootBytes ∨ 2 < L.lim) :
    ∀ w ∈ L.createWrites, L.InRange w := by
  have hdir : ∀ w ∈ L.wrRootDir, L.InRange w := by
    unfold Layout.wrRootDir
    split
    · exact L.wrRoot_in_range h
    · rename_i hz
      apply L.wrDirChain_in_range h
      intro c hc
      simp only [List.mem_singleton] at hc; subst hc
      omega
  intro w hw
  unfold Layout.createWrites at hw
  simp only [List.mem_append] at hw
  rcases hw with (((hw | hw) | hw) | hw) | hw
  · exact L.wrBoot_in_range h w hw
  · exact L.wrFat_in_range h w hw
  · split at hw
    · exact L.wrRoot_in_range h w hw
    · rename_i hz
      simp only [List.mem_singleton] at hw; subst hw
      have := L.cluster_in_range h 2 (by omega) (by omega)
      simp only [clusterOff, Layout.io] at this
      unfold Layout.InRange
      simp only [zeros_length]; omega
  · exact L.wrBoot_in_range h w hw
  · exact hdir w hw

/-! ### every operation, accepted or refused -/

section ops
variable {eqn : Spec.Name → Spec.Name → Bool} {g : FGeom} {fuel : Nat}

/-- the chain a write goes through lies below the scan limit -/
theorem write_chain_lt_lim {s : FState} {n : Spec.Name} {f : FFile} {off : Nat} {data : Bytes} {l' : List Nat}
    (hb : 0 < g.io.bpc) (hlim : LimOk g.kind g.lim) (hmax : g.lim ≤ g.max) (hfuel : g.lim - 2 ≤ fuel)
    (he : EqnOk eqn) (h : FInv eqn g s) (hf : ffind eqn s.files n = some f)
    (hres : (falloc g fuel s.m (Nat.max f.size (off + data.length)) (f.chain.headD 0)).res = some l') :
    ∀ c ∈ l', 2 ≤ c ∧ c < g.lim := by
  obtain ⟨pre, post, hsplit, hfn, hpre, hpost⟩ := ffind_split he h.distinct hf
  obtain ⟨m, d, files⟩ := s
  simp only at hsplit hres h ⊢
  subst hsplit
  have hhead := finv_head h
  have hfl := chain_fuel hfuel h
  have hcovf := h.covers f (by simp)
  rw [nat_max_eq] at hcovf
  have hm1 := clusterCount_mono (bpc := g.io.bpc) (a := f.size)
    (b := Nat.max f.size (off + data.length)) hb (Nat.le_max_left ..)
  unfold falloc at hres
  by_cases hgrow : f.chain.length ≤ clusterCount g.io.bpc (Nat.max f.size (off + data.length))
  · obtain ⟨hinv, _, _⟩ := alloc_grow_inv hhead (firstFit_spec _) hlim hmax hb hfl hgrow hres
    exact chainOk_mem (hinv.chains l' (List.mem_cons_self ..))
  · obtain ⟨hr, _⟩ := alloc_shrink_inv (pick := firstFit g.lim)
      (size := Nat.max f.size (off + data.length)) hhead hlim hmax hb hfl (by unfold clusterCount at hgrow; omega)
    rw [hr] at hres
    cases hres
    exact chainOk_mem (hhead.chains _ (List.mem_cons_self ..))

end ops

/-- **every write of one operation**, accepted or refused, lies inside [start, start+size)
    (zero-length WriteAt calls, which the Go loop issues for the clusters behind the payload, excepted) -/
theorem fstepW_in_range (eqn : Spec.Name → Spec.Name → Bool) (L : Layout) (fuel : Nat) (s : FState) (op : FOp)
    (hL : L.WF) (he : EqnOk eqn) (hlim : LimOk L.kind L.lim) (hfuel : L.lim - 2 ≤ fuel)
    (h : FInv eqn L.fgeom s) :
    ∀ w ∈ (fstepW eqn L fuel s op).ws, w.data.length = 0 ∨ L.InRange w := by
  have hFat : ∀ w ∈ L.wrFat, w.data.length = 0 ∨ L.InRange w := fun w hw => Or.inr (L.wrFat_in_range hL w hw)
  have hRoot : ∀ w ∈ L.wrRoot, w.data.length = 0 ∨ L.InRange w := fun w hw => Or.inr (L.wrRoot_in_range hL w hw)
  have hNil : ∀ w ∈ ([] : List Wr), w.data.length = 0 ∨ L.InRange w := fun w hw => by simp at hw
  have hApp : ∀ a b : List Wr, (∀ w ∈ a, w.data.length = 0 ∨ L.InRange w) →
      (∀ w ∈ b, w.data.length = 0 ∨ L.InRange w) → ∀ w ∈ a ++ b, w.data.length = 0 ∨ L.InRange w := by
    intro a b ha hb w hw
    rcases List.mem_append.1 hw with hw | hw
    · exact ha w hw
    · exact hb w hw
  have hIte : ∀ (c : Prop) [Decidable c] (a b : List Wr), (∀ w ∈ a, w.data.length = 0 ∨ L.InRange w) →
      (∀ w ∈ b, w.data.length = 0 ∨ L.InRange w) → ∀ w ∈ (if c then a else b), w.data.length = 0 ∨ L.InRange w := by
    intro c _ a b ha hb
    split
    · exact ha
    · exact hb
  cases op with
  | create n =>
    simp only [fstepW]
    cases ffind eqn s.files n with
    | some f => exact hNil
    | none =>
      simp only []
      cases (falloc L.fgeom fuel s.m 1 0).res with
      | none => exact hNil
      | some l => exact hApp _ _ hFat hRoot
  | writeAt n off data =>
    simp only [fstepW]
    cases hf : ffind eqn s.files n with
    | none => exact hNil
    | some f =>
      simp only []
      by_cases hz : data.length = 0
      · simp only [if_pos hz]; exact hNil
      · simp only [if_neg hz]
        cases hres : (falloc L.fgeom fuel s.m (Nat.max f.size (off + data.length)) (f.chain.headD 0)).res with
        | none => exact hNil
        | some l' =>
          simp only []
          have hwf := hIte ((falloc L.fgeom fuel s.m (Nat.max f.size (off + data.length)) (f.chain.headD 0)).wrote = true)
            L.wrFat [] hFat hNil
          cases hws : writeH true L.io l' f.size off data with
          | none => exact hwf
          | some ws =>
            simp only []
            have hch := write_chain_lt_lim (g := L.fgeom) hL.bpc_pos hlim L.lim_le_max hfuel he h hf hres
            have hin := writeH_in_chain' L.io l' f.size off data ws hL.bpc_pos hws
            exact hApp _ _ (hApp _ _ hwf (L.data_in_range hL l' ws hch hin)) hRoot
  | truncate n =>
    simp only [fstepW]
    cases ffind eqn s.files n with
    | none => exact hNil
    | some f =>
      simp only []
      by_cases hz : f.size = 0
      · simp only [if_pos hz]; exact hNil
      · simp only [if_neg hz]
        cases (falloc L.fgeom fuel s.m 1 (f.chain.headD 0)).res with
        | none => exact hRoot
        | some l' => exact hApp _ _ hRoot (hIte _ _ _ hFat hNil)
  | remove n =>
    simp only [fstepW]
    cases ffind eqn s.files n with
    | none => exact hNil
    | some f =>
      simp only []
      split
      · exact hApp _ _ hRoot (hIte _ _ _ hNil hFat)
      · exact hRoot
  | rename o n =>
    simp only [fstepW]
    cases ffind eqn s.files o with
    | none => exact hNil
    | some f =>
      simp only []
      split
      · exact hRoot
      · cases ffind eqn s.files n with
        | none => exact hRoot
        | some t =>
          simp only []
          split
          · exact hApp _ _ hRoot (hIte _ _ _ hNil hFat)
          · exact hRoot

/-- **every write of every history** (induction over the op list): the invariant is carried along by
    `fstep_inv`, refused operations included -/
theorem frunW_in_range (eqn : Spec.Name → Spec.Name → Bool) (L : Layout) (fuel : Nat) (ops : List FOp) (s : FState)
    (hL : L.WF) (he : EqnOk eqn) (hlim : LimOk L.kind L.lim) (hfuel : L.lim - 2 ≤ fuel)
    (h : FInv eqn L.fgeom s) :
    FInv eqn L.fgeom (frunW eqn L fuel s ops).1 ∧
    ∀ w ∈ (frunW eqn L fuel s ops).2, w.data.length = 0 ∨ L.InRange w := by
  have gen : ∀ (ops : List FOp) (s : FState) (acc : List Wr), FInv eqn L.fgeom s →
      (∀ w ∈ acc, w.data.length = 0 ∨ L.InRange w) →
      FInv eqn L.fgeom (ops.foldl (fun a op => let r := fstepW eqn L fuel a.1 op; (r.s, a.2 ++ r.ws)) (s, acc)).1 ∧
      ∀ w ∈ (ops.foldl (fun a op => let r := fstepW eqn L fuel a.1 op; (r.s, a.2 ++ r.ws)) (s, acc)).2,
        w.data.length = 0 ∨ L.InRange w := by
    intro ops
    induction ops with
    | nil => intro s acc h hacc; exact ⟨h, hacc⟩
    | cons op rest ih =>
      intro s acc h hacc
      simp only [List.foldl_cons]
      apply ih
      · rw [fstepW_s]
        exact fstep_inv he hL.bpc_pos hlim L.lim_le_max hfuel s op h
      · intro w hw
        rcases List.mem_append.1 hw with hw | hw
        · exact hacc w hw
        · exact fstepW_in_range eqn L fuel s op hL he hlim hfuel h w hw
  exact gen ops s [] h (fun w hw => by simp at hw)

/-! ### the layout `Create` derives from a well-formed geometry -/

/-- reserved-area premise per kind: FAT12/16 keep at least the boot sector, FAT32 the boot sector,
    FSInfo and their backups at sectors 6 and 7 (the three `Create`s use 1, 4 and 32) -/
def Geom.ReservedOk (g : Geom) : Prop :=
  match g.kind with
  | .f32 => 8 ≤ g.reserved
  | _ => 1 ≤ g.reserved ∧ 512 ≤ g.bps

theorem Layout.ofGeom_wf (g : Geom) (start size : Nat) (h : g.WF size) (hr : g.ReservedOk) (hs : 0 < g.spc)
    (hbps : 0 < g.bps) : (Layout.ofGeom g start size).WF := by
  have hroot : g.rootEntries * 32 ≤ g.rootSectors * g.bps := by
    unfold Geom.rootSectors
    have := Nat.div_add_mod (g.rootEntries * 32 + g.bps - 1) g.bps
    have hm := Nat.mod_lt (g.rootEntries * 32 + g.bps - 1) hbps
    rw [Nat.mul_comm ((g.rootEntries * 32 + g.bps - 1) / g.bps) g.bps]
    omega
  have hmeta : (g.reserved + 2 * g.fatSectors + g.rootSectors + 1) * g.bps ≤ g.totalSectors * g.bps :=
    Nat.mul_le_mul_right _ h.meta_fits
  refine ⟨Nat.mul_pos hs hbps, ?_, ?_, ?_, ?_, ?_⟩
  · simp only [Layout.ofGeom]
    unfold Geom.ReservedOk at hr
    cases hk : g.kind <;> simp only [hk] at hr ⊢
    · calc 512 ≤ 1 * g.bps := by omega
        _ ≤ g.reserved * g.bps := Nat.mul_le_mul_right _ hr.1
    · calc 512 ≤ 1 * g.bps := by omega
        _ ≤ g.reserved * g.bps := Nat.mul_le_mul_right _ hr.1
    · exact ⟨Nat.mul_le_mul_right _ hr, Nat.mul_le_mul_right _ (by omega)⟩
  · simp only [Layout.ofGeom]; omega
  · simp only [Layout.ofGeom]; omega
  · simp only [Layout.ofGeom]; omega
  · simp only [Layout.ofGeom]
    have ht := h.total_le
    simp only [Nat.add_mul, Nat.one_mul] at hmeta
    have : 2 * g.fatSectors * g.bps = g.fatSectors * g.bps + g.fatSectors * g.bps := by
      rw [Nat.mul_assoc, Nat.two_mul]
    omega

/-- the scan limit of a volume laid out from a well-formed geometry is at most data clusters + 2 -/
theorem Layout.ofGeom_lim_le (g : Geom) (start size : Nat) (h : g.WF size) (hs : 0 < g.spc) (hbps : 0 < g.bps)
    (hwf : (Layout.ofGeom g start size).WF) :
    (Layout.ofGeom g start size).lim ≤ g.clusters + 2 := by
  have hl := (Layout.ofGeom g start size).lim_le hwf
  suffices hq : ((Layout.ofGeom g start size).size - (Layout.ofGeom g start size).dataStart) /
      (Layout.ofGeom g start size).bpc ≤ g.clusters by omega
  simp only [Layout.ofGeom]
  -- size − dataStart < (dataSectors + 1)·bps ≤ (clusters + 1)·spc·bps
  have hds : g.dataSectors < (g.clusters + 1) * g.spc := by
    unfold Geom.clusters
    have := Nat.lt_mul_div_succ g.dataSectors hs
    rwa [Nat.mul_comm] at this
  have hmeta := h.meta_fits
  have hgt := h.total_gt
  have hdsdef : g.dataSectors + (g.reserved + 2 * g.fatSectors + g.rootSectors) = g.totalSectors := by
    unfold Geom.dataSectors; omega
  have e1 : g.reserved * g.bps + g.fatSectors * g.bps + g.fatSectors * g.bps + g.rootSectors * g.bps
      = (g.reserved + 2 * g.fatSectors + g.rootSectors) * g.bps := by
    simp only [Nat.add_mul]
    have : 2 * g.fatSectors * g.bps = g.fatSectors * g.bps + g.fatSectors * g.bps := by
      rw [Nat.mul_assoc, Nat.two_mul]
    omega
  rw [e1]
  have hts : g.totalSectors * g.bps
      = g.dataSectors * g.bps + (g.reserved + 2 * g.fatSectors + g.rootSectors) * g.bps := by
    rw [← hdsdef, Nat.add_mul]
  have e2 : (g.dataSectors + 1) * g.bps = g.dataSectors * g.bps + g.bps := by
    rw [Nat.add_mul, Nat.one_mul]
  have h1 : size - (g.reserved + 2 * g.fatSectors + g.rootSectors) * g.bps < (g.dataSectors + 1) * g.bps := by
    rw [e2]; omega
  have h2 : (g.dataSectors + 1) * g.bps ≤ (g.clusters + 1) * g.spc * g.bps :=
    Nat.mul_le_mul_right _ hds
  have h3 : size - (g.reserved + 2 * g.fatSectors + g.rootSectors) * g.bps < (g.clusters + 1) * (g.spc * g.bps) := by
    rw [← Nat.mul_assoc]; omega
  have := (Nat.div_lt_iff_lt_mul (Nat.mul_pos hs hbps)).2 h3
  omega

/-- … and at least that: the scan limit is exactly data clusters + 2 -/
theorem Layout.ofGeom_lim_ge (g : Geom) (start size : Nat) (h : g.WF size)
    (hwf : (Layout.ofGeom g start size).WF) (hmax : g.clusters + 2 ≤ (Layout.ofGeom g start size).max) :
    g.clusters + 2 ≤ (Layout.ofGeom g start size).lim := by
  have hq : g.clusters ≤ ((Layout.ofGeom g start size).size - (Layout.ofGeom g start size).dataStart) /
      (Layout.ofGeom g start size).bpc := by
    rw [Nat.le_div_iff_mul_le hwf.bpc_pos]
    have hd := h.data_in_range
    have hlt := hwf.data_lt
    simp only [Layout.ofGeom] at hlt ⊢
    unfold Geom.dataStart at hd
    have e1 : g.reserved * g.bps + g.fatSectors * g.bps + g.fatSectors * g.bps + g.rootSectors * g.bps
        = (g.reserved + 2 * g.fatSectors + g.rootSectors) * g.bps := by
      simp only [Nat.add_mul]
      have : 2 * g.fatSectors * g.bps = g.fatSectors * g.bps + g.fatSectors * g.bps := by
        rw [Nat.mul_assoc, Nat.two_mul]
      omega
    rw [e1] at hlt ⊢
    rw [← Nat.mul_assoc]
    omega
  have hc : ¬((Layout.ofGeom g start size).bpc = 0 ∨
      (Layout.ofGeom g start size).size ≤ (Layout.ofGeom g start size).dataStart) := by
    have := hwf.bpc_pos; have := hwf.data_lt; omega
  unfold Layout.lim Layout.dataClusterLimit
  simp only [if_neg hc]
  generalize ((Layout.ofGeom g start size).size - (Layout.ofGeom g start size).dataStart) /
      (Layout.ofGeom g start size).bpc = q at hq
  split <;> split <;> omega

theorem Layout.ofGeom_max (g : Geom) (start size : Nat) : (Layout.ofGeom g start size).max = g.fatEntries := by
  unfold Layout.max Geom.fatEntries
  simp only [Layout.ofGeom]
  cases g.kind <;> rfl

/-! ### what the three `Create`s fix: reserved sectors, sector size, kind (for any table) -/

theorem mkGeom12_fields (tbl : List (Nat × Nat)) (size : Nat) (g : Geom) (h : mkGeom12 tbl size = some g) :
    g.kind = .f12 ∧ g.reserved = 1 ∧ g.bps = 512 := by
  unfold mkGeom12 at h
  simp only [ite_none_eq_some, Option.some.injEq] at h
  obtain ⟨_, _, _, _, rfl⟩ := h
  exact ⟨rfl, rfl, rfl⟩

theorem mkGeom16_fields (tbl : List (Nat × Nat)) (size : Nat) (g : Geom) (h : mkGeom16 tbl size = some g) :
    g.kind = .f16 ∧ g.reserved = 4 ∧ g.bps = 512 := by
  unfold mkGeom16 at h
  simp only [ite_none_eq_some, Option.some.injEq] at h
  obtain ⟨_, _, _, _, rfl⟩ := h
  exact ⟨rfl, rfl, rfl⟩

theorem mkGeom32Fixed_fields (tbl : List (Nat × Nat)) (size bs : Nat) (g : Geom)
    (h : mkGeom32Fixed tbl size bs = some g) :
    g.kind = .f32 ∧ g.reserved = 32 ∧ (g.bps = 512 ∨ g.bps = 4096) ∧ g.fatSectors < 65536 ∧ g.rootEntries = 0 := by
  unfold mkGeom32Fixed at h
  simp only [ite_none_eq_some, Option.some.injEq] at h
  obtain ⟨hbs, _, _, _, _, _, rfl⟩ := h
  refine ⟨rfl, rfl, ?_, u16_lt _, rfl⟩
  simp only
  split <;> omega

theorem spc_pos_of_clusters {g : Geom} (h : 0 < g.clusters) : 0 < g.spc := by
  unfold Geom.clusters at h
  rcases Nat.eq_zero_or_pos g.spc with h0 | h0
  · rw [h0, Nat.div_zero] at h; omega
  · exact h0

theorem limOk12 {lim : Nat} (h : lim ≤ 4086) : LimOk .f12 lim := by
  intro c hc
  simp only [Kind.isEOC, decide_eq_false_iff_not]
  omega

theorem limOk16 {lim : Nat} (h : lim ≤ 65526) : LimOk .f16 lim := by
  intro c hc
  simp only [Kind.isEOC, decide_eq_false_iff_not]
  omega

theorem limOk32 {lim : Nat} (h : lim ≤ 67108864) : LimOk .f32 lim := by
  intro c hc
  simp only [Kind.isEOC, decide_eq_false_iff_not]
  omega

end Diskfs.Fat
