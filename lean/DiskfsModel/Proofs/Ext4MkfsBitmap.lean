/-
  Lemmas about the group block bitmaps ext4.Create builds (Model/Ext4/MkfsBitmap.lean): under `Fits` the marked
  bits among a group's real blocks are exactly the prefix of length `overhead`, and the free count of the group
  descriptor is the number of unmarked bits.
-/
import DiskfsModel.Proofs.Ext4Mkfs
import DiskfsModel.Model.Ext4.MkfsBitmap
namespace Diskfs.Ext4.Mkfs

theorem initialFree_eq (l : Layout) (flex : Bool) (g : Nat) :
    initialFree l flex g = blocksInGroup l g - min (overhead l flex g) (blocksInGroup l g) := rfl

theorem perGroupMeta_pos (l : Layout) : 0 < perGroupMeta l := by unfold perGroupMeta; omega

theorem sameFlex_iff (l : Layout) (hf : 0 < l.flexSize) (h g : Nat) :
    (h / l.flexSize == g / l.flexSize) = true ↔ flexOwner l h = flexOwner l g := by
  unfold flexOwner
  simp only [beq_iff_eq]
  constructor
  · intro e; rw [e]
  · intro e; exact Nat.eq_of_mul_eq_mul_right hf e

theorem flexOwner_add (l : Layout) (hf : 0 < l.flexSize) (o k : Nat) (ho : o = flexOwner l o) (hk : k < l.flexSize) :
    flexOwner l (o + k) = o := by
  unfold flexOwner at *
  have h1 : (o / l.flexSize * l.flexSize + k) / l.flexSize = o / l.flexSize := by
    rw [Nat.mul_comm, Nat.mul_add_div hf, Nat.div_eq_of_lt hk, Nat.add_zero]
  rw [← ho] at h1
  rw [h1]; exact ho.symm

/-- without flex_bg: superblock / GDT copy, then the group's own bitmaps and inode table -/
theorem markedBit_noflex (l : Layout) (hfit : Fits l false) (g : Nat) (hg : g < l.groups) (j : Nat)
    (hj : j < blocksInGroup l g) : markedBit l false g j = true ↔ j < overhead l false g := by
  have hb := blocksInGroup_le l g
  have hfo := hfit g hg
  simp only [Bool.false_eq_true, if_false] at hfo
  unfold markedBit overhead inSlot metaBase
  simp only [Bool.false_eq_true, if_false, Bool.or_eq_true, Bool.and_eq_true, decide_eq_true_eq]
  omega

/-- with flex_bg: superblock / GDT copy, then (in the first group of a flex group only) the slots of all its groups -/
theorem markedBit_flex (l : Layout) (hf : 0 < l.flexSize) (hfit : Fits l true) (g : Nat) (hg : g < l.groups) (j : Nat)
    (hj : j < blocksInGroup l g) : markedBit l true g j = true ↔ j < overhead l true g := by
  have hb := blocksInGroup_le l g
  have hp := perGroupMeta_pos l
  have hog := flexOwner_le l g
  unfold markedBit overhead
  simp only [if_true, Bool.or_eq_true, Bool.and_eq_true, decide_eq_true_eq, List.any_eq_true, List.mem_range]
  constructor
  · rintro ((⟨h1, _⟩ | h2) | ⟨_, h, hh, hdiv, hslot⟩)
    · omega
    · omega
    · have hown := (sameFlex_iff l hf h g).1 hdiv
      have hin := flex_slot_inside l hf hfit h hh
      rw [hown] at hin
      unfold inSlot at hslot
      simp only [Bool.and_eq_true, decide_eq_true_eq] at hslot
      have hgo : g = flexOwner l g := by
        apply Classical.byContradiction
        intro hne
        have h1 := groupStart_mono l (flexOwner l g) g (by omega)
        have h2 := blocksInGroup_le l (flexOwner l g)
        omega
      rw [if_pos hgo]
      have hk : h - flexOwner l h + 1 ≤ groupsInFlex l (flexOwner l h) := by
        unfold groupsInFlex
        have := sub_flexOwner_lt l h hf
        have := flexOwner_le l h
        omega
      have hm : (h - flexOwner l h + 1) * perGroupMeta l ≤ groupsInFlex l (flexOwner l h) * perGroupMeta l :=
        Nat.mul_le_mul_right _ hk
      rw [Nat.add_mul] at hm
      unfold metaBase at hslot
      simp only [if_true] at hslot
      rw [hown, ← hgo] at hslot hm
      omega
  · intro hlt
    by_cases hmeta : j < metaBlocks l g
    · left; right; exact hmeta
    · right
      by_cases hgo : g = flexOwner l g
      · rw [if_pos hgo] at hlt
        refine ⟨by omega, g + (j - metaBlocks l g) / perGroupMeta l, ?_, ?_, ?_⟩
        · have : (j - metaBlocks l g) / perGroupMeta l < groupsInFlex l g := by
            apply Nat.div_lt_of_lt_mul
            rw [Nat.mul_comm]; omega
          unfold groupsInFlex at this
          omega
        · have hk : (j - metaBlocks l g) / perGroupMeta l < l.flexSize := by
            have : (j - metaBlocks l g) / perGroupMeta l < groupsInFlex l g := by
              apply Nat.div_lt_of_lt_mul
              rw [Nat.mul_comm]; omega
            unfold groupsInFlex at this
            omega
          rw [sameFlex_iff l hf, flexOwner_add l hf g _ hgo hk]
          exact hgo
        · have hk : (j - metaBlocks l g) / perGroupMeta l < l.flexSize := by
            have : (j - metaBlocks l g) / perGroupMeta l < groupsInFlex l g := by
              apply Nat.div_lt_of_lt_mul
              rw [Nat.mul_comm]; omega
            unfold groupsInFlex at this
            omega
          have ho := flexOwner_add l hf g _ hgo hk
          have h1 := Nat.div_add_mod (j - metaBlocks l g) (perGroupMeta l)
          have h2 := Nat.mod_lt (j - metaBlocks l g) hp
          rw [Nat.mul_comm] at h1
          unfold inSlot metaBase
          simp only [if_true, Bool.and_eq_true, decide_eq_true_eq, ho]
          rw [Nat.add_sub_cancel_left]
          omega
      · rw [if_neg hgo] at hlt
        omega

theorem markedBit_iff (l : Layout) (flex : Bool) (hf : 0 < l.flexSize) (hfit : Fits l flex) (g : Nat) (hg : g < l.groups)
    (j : Nat) (hj : j < blocksInGroup l g) : markedBit l flex g j = true ↔ j < overhead l flex g := by
  cases flex
  · exact markedBit_noflex l hfit g hg j hj
  · exact markedBit_flex l hf hfit g hg j hj

/-- a predicate that is a prefix on [0, n) holds min k n times there -/
theorem filter_prefix_length (p : Nat → Bool) (k : Nat) : ∀ n : Nat, (∀ j, j < n → (p j = true ↔ j < k)) →
    ((List.range n).filter p).length = min k n
  | 0, _ => by simp
  | n + 1, h => by
    have ih := filter_prefix_length p k n (fun j hj => h j (by omega))
    rw [List.range_succ, List.filter_append, List.length_append, ih]
    have hn := h n (by omega)
    by_cases hk : n < k
    · have : p n = true := hn.2 hk
      simp [List.filter, this]; omega
    · have : p n = false := by
        cases hp : p n
        · rfl
        · exact absurd (hn.1 hp) hk
      simp [List.filter, this]; omega

theorem markedCount_eq (l : Layout) (flex : Bool) (hf : 0 < l.flexSize) (hfit : Fits l flex) (g : Nat) (hg : g < l.groups) :
    markedCount l flex g = min (overhead l flex g) (blocksInGroup l g) :=
  filter_prefix_length _ _ _ (fun j hj => markedBit_iff l flex hf hfit g hg j hj)

end Diskfs.Ext4.Mkfs
