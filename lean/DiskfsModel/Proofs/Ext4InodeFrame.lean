/-
  C20 / C19 helper lemmas: frame at the level of the decoded numbers.  Two inode records that agree on a set of
  bytes decode (mirror of inodeFromBytes) to the same value of every field whose bytes lie in that set; hence
  the attribute setters on the record (Model/Ext4/InodeAttrBytes.lean chmodBytes / chownBytes / chtimesBytes)
  change nothing inodeFromBytes decodes but their own fields.
-/
import DiskfsModel.Proofs.Ext4InodeFull
namespace Diskfs.Ext4.InodeDec
open Diskfs Diskfs.Ext4.Reader Diskfs.Ext4.InodeCodec Diskfs.Ext4.Spec

theorem slice_congr (b b' : Bytes) (lo hi : Nat) (h : ∀ i, lo ≤ i → i < hi → b'[i]? = b[i]?) :
    slice b' lo hi = slice b lo hi := by
  apply List.ext_getElem?
  intro k
  rw [slice_getElem?, slice_getElem?]
  by_cases hk : k < hi - lo
  · rw [if_pos hk, if_pos hk, h (lo + k) (by omega) (by omega)]
  · rw [if_neg hk, if_neg hk]

theorem le16_congr (b b' : Bytes) (o : Nat) (h : ∀ i, o ≤ i → i < o + 2 → b'[i]? = b[i]?) : le16 b' o = le16 b o := by
  unfold le16; rw [slice_congr b b' o (o + 2) h]

theorem le32_congr (b b' : Bytes) (o : Nat) (h : ∀ i, o ≤ i → i < o + 4 → b'[i]? = b[i]?) : le32 b' o = le32 b o := by
  unfold le32; rw [slice_congr b b' o (o + 4) h]

theorem pad256_long (b : Bytes) (h : 256 ≤ b.length) : pad256 b = b := by
  unfold pad256; rw [if_neg (by omega)]

/-- frame, at the level of the decoded numbers: two records of the same length (≥ 256) that agree on the bytes
    of `keep` decode to the same value of every field whose bytes lie in `keep` -/
theorem goDecode_frame (guarded huge : Bool) (isz : Nat) (b b' : Bytes) (hl : b'.length = b.length)
    (h256 : 256 ≤ b.length) (keep : Nat → Prop) (hfr : ∀ i, keep i → b'[i]? = b[i]?) :
    let d := goDecode guarded huge isz b
    let d' := goDecode guarded huge isz b'
    ((∀ i, i < 2 → keep i) → d'.mode = d.mode) ∧
    ((∀ i, (2 ≤ i ∧ i < 4) ∨ (0x78 ≤ i ∧ i < 0x7a) → keep i) → d'.uid = d.uid) ∧
    ((∀ i, (0x18 ≤ i ∧ i < 0x1a) ∨ (0x7a ≤ i ∧ i < 0x7c) → keep i) → d'.gid = d.gid) ∧
    ((∀ i, (4 ≤ i ∧ i < 8) ∨ (0x6c ≤ i ∧ i < 0x70) → keep i) → d'.size = d.size) ∧
    ((∀ i, 0x1a ≤ i ∧ i < 0x1c → keep i) → d'.links = d.links) ∧
    ((∀ i, 0x20 ≤ i ∧ i < 0x24 → keep i) → d'.flags = d.flags ∧ d'.fsBlocks = d.fsBlocks) ∧
    ((∀ i, (0x1c ≤ i ∧ i < 0x20) ∨ (0x74 ≤ i ∧ i < 0x76) → keep i) → d'.blocks = d.blocks) ∧
    ((∀ i, 0x64 ≤ i ∧ i < 0x68 → keep i) → d'.gen = d.gen) ∧
    ((∀ i, (0x68 ≤ i ∧ i < 0x6c) ∨ (0x76 ≤ i ∧ i < 0x78) → keep i) → d'.fileAcl = d.fileAcl) ∧
    ((∀ i, (0x24 ≤ i ∧ i < 0x28) ∨ (0x98 ≤ i ∧ i < 0x9c) → keep i) → d'.version = d.version) ∧
    ((∀ i, 0x80 ≤ i ∧ i < 0x82 → keep i) → d'.extra = d.extra) ∧
    ((∀ i, 0x14 ≤ i ∧ i < 0x18 → keep i) → d'.dtime = d.dtime) ∧
    ((∀ i, 0x9c ≤ i ∧ i < 0xa0 → keep i) → d'.project = d.project) ∧
    ((∀ i, (0x8 ≤ i ∧ i < 0xc) ∨ (0x80 ≤ i ∧ i < 0x82) ∨ (0x8c ≤ i ∧ i < 0x90) → keep i) → d'.atime = d.atime) ∧
    ((∀ i, (0xc ≤ i ∧ i < 0x10) ∨ (0x80 ≤ i ∧ i < 0x82) ∨ (0x84 ≤ i ∧ i < 0x88) → keep i) → d'.ctime = d.ctime) ∧
    ((∀ i, (0x10 ≤ i ∧ i < 0x14) ∨ (0x80 ≤ i ∧ i < 0x82) ∨ (0x88 ≤ i ∧ i < 0x8c) → keep i) → d'.mtime = d.mtime) ∧
    ((∀ i, (0x80 ≤ i ∧ i < 0x82) ∨ (0x90 ≤ i ∧ i < 0x98) → keep i) → d'.crtime = d.crtime) ∧
    ((∀ i, 0x28 ≤ i ∧ i < 0x64 → keep i) → d'.iblock = d.iblock) := by
  intro d d'
  have r16 : ∀ o, (∀ i, o ≤ i ∧ i < o + 2 → keep i) → le16 b' o = le16 b o :=
    fun o h => le16_congr b b' o (fun i h1 h2 => hfr i (h i ⟨h1, h2⟩))
  have r32 : ∀ o, (∀ i, o ≤ i ∧ i < o + 4 → keep i) → le32 b' o = le32 b o :=
    fun o h => le32_congr b b' o (fun i h1 h2 => hfr i (h i ⟨h1, h2⟩))
  simp only [d, d', goDecode, goExtraWord, pad256_long b h256, pad256_long b' (by omega)]
  refine ⟨?_, ?_, ?_, ?_, ?_, ?_, ?_, ?_, ?_, ?_, ?_, ?_, ?_, ?_, ?_, ?_, ?_, ?_⟩
  · intro h; exact r16 0 (fun i hi => h i (by omega))
  · intro h; rw [r16 2 (fun i hi => h i (by omega)), r16 0x78 (fun i hi => h i (by omega))]
  · intro h; rw [r16 0x18 (fun i hi => h i (by omega)), r16 0x7a (fun i hi => h i (by omega))]
  · intro h; rw [r32 4 (fun i hi => h i (by omega)), r32 0x6c (fun i hi => h i (by omega))]
  · intro h; exact r16 0x1a (fun i hi => h i (by omega))
  · intro h; rw [r32 0x20 (fun i hi => h i (by omega))]; exact ⟨rfl, rfl⟩
  · intro h; rw [r32 0x1c (fun i hi => h i (by omega)), r16 0x74 (fun i hi => h i (by omega))]
  · intro h; exact r32 0x64 (fun i hi => h i (by omega))
  · intro h; rw [r32 0x68 (fun i hi => h i (by omega)), r16 0x76 (fun i hi => h i (by omega))]
  · intro h; rw [r32 0x24 (fun i hi => h i (by omega)), r32 0x98 (fun i hi => h i (by omega))]
  · intro h; exact r16 0x80 (fun i hi => h i (by omega))
  · intro h; exact r32 0x14 (fun i hi => h i (by omega))
  · intro h; exact r32 0x9c (fun i hi => h i (by omega))
  · intro h; rw [r32 0x8 (fun i hi => h i (by omega)), r16 0x80 (fun i hi => h i (by omega)), r32 0x8c (fun i hi => h i (by omega))]
  · intro h; rw [r32 0xc (fun i hi => h i (by omega)), r16 0x80 (fun i hi => h i (by omega)), r32 0x84 (fun i hi => h i (by omega))]
  · intro h; rw [r32 0x10 (fun i hi => h i (by omega)), r16 0x80 (fun i hi => h i (by omega)), r32 0x88 (fun i hi => h i (by omega))]
  · intro h; rw [r16 0x80 (fun i hi => h i (by omega)), r32 0x90 (fun i hi => h i (by omega)), r32 0x94 (fun i hi => h i (by omega))]
  · intro h; exact slice_congr b b' 0x28 0x64 (fun i h1 h2 => hfr i (h i ⟨h1, h2⟩))

theorem chmodBytes_length (b : Bytes) (perm : Nat) (h : RecordWF b) : (chmodBytes b perm).length = b.length := by
  unfold RecordWF at h
  exact putWord_length b 0 2 _ (by omega)

/-- Chmod on the record: of everything inodeFromBytes decodes, only the mode word can change -/
theorem chmod_frame_decoded (guarded huge : Bool) (isz : Nat) (b : Bytes) (perm : Nat) (h256 : 256 ≤ b.length) :
    let d := goDecode guarded huge isz b
    let d' := goDecode guarded huge isz (chmodBytes b perm)
    d'.uid = d.uid ∧ d'.gid = d.gid ∧ d'.size = d.size ∧ d'.links = d.links ∧ d'.flags = d.flags ∧
    d'.fsBlocks = d.fsBlocks ∧ d'.blocks = d.blocks ∧ d'.gen = d.gen ∧ d'.fileAcl = d.fileAcl ∧
    d'.version = d.version ∧ d'.extra = d.extra ∧ d'.dtime = d.dtime ∧ d'.project = d.project ∧
    d'.atime = d.atime ∧ d'.ctime = d.ctime ∧ d'.mtime = d.mtime ∧ d'.crtime = d.crtime ∧ d'.iblock = d.iblock := by
  have hwf : RecordWF b := by unfold RecordWF; omega
  have F := goDecode_frame guarded huge isz b (chmodBytes b perm) (chmodBytes_length b perm hwf) h256 (fun i => 2 ≤ i)
    (fun i hi => chmodBytes_frame b perm i hwf hi)
  simp only [] at F ⊢
  obtain ⟨_, f2, f3, f4, f5, f6, f7, f8, f9, f10, f11, f12, f13, f14, f15, f16, f17, f18⟩ := F
  exact ⟨f2 (by intro i h; omega), f3 (by intro i h; omega), f4 (by intro i h; omega), f5 (by intro i h; omega),
    (f6 (by intro i h; omega)).1, (f6 (by intro i h; omega)).2, f7 (by intro i h; omega), f8 (by intro i h; omega),
    f9 (by intro i h; omega), f10 (by intro i h; omega), f11 (by intro i h; omega), f12 (by intro i h; omega),
    f13 (by intro i h; omega), f14 (by intro i h; omega), f15 (by intro i h; omega), f16 (by intro i h; omega),
    f17 (by intro i h; omega), f18 (by intro i h; omega)⟩

theorem chownBytes_length (b : Bytes) (uid gid : Option Nat) (h : RecordWF b) :
    (chownBytes b uid gid).length = b.length := by
  unfold RecordWF at h
  unfold chownBytes
  simp only []
  rw [putWord_length _ 0x7a 2 _ (by rw [putWord_length _ 0x18 2 _ (by rw [putWord_length _ 0x78 2 _ (by rw [putWord_length _ 0x2 2 _ (by omega)]; omega), putWord_length _ 0x2 2 _ (by omega)]; omega), putWord_length _ 0x78 2 _ (by rw [putWord_length _ 0x2 2 _ (by omega)]; omega), putWord_length _ 0x2 2 _ (by omega)]; omega),
    putWord_length _ 0x18 2 _ (by rw [putWord_length _ 0x78 2 _ (by rw [putWord_length _ 0x2 2 _ (by omega)]; omega), putWord_length _ 0x2 2 _ (by omega)]; omega),
    putWord_length _ 0x78 2 _ (by rw [putWord_length _ 0x2 2 _ (by omega)]; omega), putWord_length _ 0x2 2 _ (by omega)]

/-- Chown on the record: only the owner and the group can change -/
theorem chown_frame_decoded (guarded huge : Bool) (isz : Nat) (b : Bytes) (uid gid : Option Nat) (h256 : 256 ≤ b.length) :
    let d := goDecode guarded huge isz b
    let d' := goDecode guarded huge isz (chownBytes b uid gid)
    d'.mode = d.mode ∧ d'.size = d.size ∧ d'.links = d.links ∧ d'.flags = d.flags ∧
    d'.fsBlocks = d.fsBlocks ∧ d'.blocks = d.blocks ∧ d'.gen = d.gen ∧ d'.fileAcl = d.fileAcl ∧
    d'.version = d.version ∧ d'.extra = d.extra ∧ d'.dtime = d.dtime ∧ d'.project = d.project ∧
    d'.atime = d.atime ∧ d'.ctime = d.ctime ∧ d'.mtime = d.mtime ∧ d'.crtime = d.crtime ∧ d'.iblock = d.iblock := by
  have hwf : RecordWF b := by unfold RecordWF; omega
  have F := goDecode_frame guarded huge isz b (chownBytes b uid gid) (chownBytes_length b uid gid hwf) h256
    (fun i => i < 0x2 ∨ (0x4 ≤ i ∧ i < 0x18) ∨ (0x1a ≤ i ∧ i < 0x78) ∨ 0x7c ≤ i)
    (fun i hi => chownBytes_frame b uid gid i hwf hi)
  simp only [] at F ⊢
  obtain ⟨f1, _, _, f4, f5, f6, f7, f8, f9, f10, f11, f12, f13, f14, f15, f16, f17, f18⟩ := F
  exact ⟨f1 (by intro i h; omega), f4 (by intro i h; omega), f5 (by intro i h; omega),
    (f6 (by intro i h; omega)).1, (f6 (by intro i h; omega)).2, f7 (by intro i h; omega), f8 (by intro i h; omega),
    f9 (by intro i h; omega), f10 (by intro i h; omega), f11 (by intro i h; omega), f12 (by intro i h; omega),
    f13 (by intro i h; omega), f14 (by intro i h; omega), f15 (by intro i h; omega), f16 (by intro i h; omega),
    f17 (by intro i h; omega), f18 (by intro i h; omega)⟩

theorem chtimesBytes_length (b : Bytes) (cr at' mt : Ts) (h : RecordWF b) :
    (chtimesBytes b cr at' mt).length = b.length := by
  unfold RecordWF at h
  unfold chtimesBytes
  have l1 := putWord_length b 0x8 4 (tsLo at') (by omega)
  have l2 := putWord_length (putWord b 0x8 4 (tsLo at')) 0x8c 4 (tsExtra at') (by omega)
  have l3 := putWord_length (putWord (putWord b 0x8 4 (tsLo at')) 0x8c 4 (tsExtra at')) 0x10 4 (tsLo mt) (by omega)
  have l4 := putWord_length (putWord (putWord (putWord b 0x8 4 (tsLo at')) 0x8c 4 (tsExtra at')) 0x10 4 (tsLo mt))
    0x88 4 (tsExtra mt) (by omega)
  have l5 := putWord_length (putWord (putWord (putWord (putWord b 0x8 4 (tsLo at')) 0x8c 4 (tsExtra at')) 0x10 4 (tsLo mt))
    0x88 4 (tsExtra mt)) 0x90 4 (tsLo cr) (by omega)
  have l6 := putWord_length (putWord (putWord (putWord (putWord (putWord b 0x8 4 (tsLo at')) 0x8c 4 (tsExtra at')) 0x10 4 (tsLo mt))
    0x88 4 (tsExtra mt)) 0x90 4 (tsLo cr)) 0x94 4 (tsExtra cr) (by omega)
  omega

/-- Chtimes on the record: only the access, modification and creation times can change -/
theorem chtimes_frame_decoded (guarded huge : Bool) (isz : Nat) (b : Bytes) (cr at' mt : Ts) (h256 : 256 ≤ b.length) :
    let d := goDecode guarded huge isz b
    let d' := goDecode guarded huge isz (chtimesBytes b cr at' mt)
    d'.mode = d.mode ∧ d'.uid = d.uid ∧ d'.gid = d.gid ∧ d'.size = d.size ∧ d'.links = d.links ∧ d'.flags = d.flags ∧
    d'.fsBlocks = d.fsBlocks ∧ d'.blocks = d.blocks ∧ d'.gen = d.gen ∧ d'.fileAcl = d.fileAcl ∧
    d'.version = d.version ∧ d'.extra = d.extra ∧ d'.dtime = d.dtime ∧ d'.project = d.project ∧
    d'.ctime = d.ctime ∧ d'.iblock = d.iblock := by
  have hwf : RecordWF b := by unfold RecordWF; omega
  have F := goDecode_frame guarded huge isz b (chtimesBytes b cr at' mt) (chtimesBytes_length b cr at' mt hwf) h256
    (fun i => i < 0x8 ∨ (0xc ≤ i ∧ i < 0x10) ∨ (0x14 ≤ i ∧ i < 0x88) ∨ 0x98 ≤ i)
    (fun i hi => chtimesBytes_frame b cr at' mt i hwf hi)
  simp only [] at F ⊢
  obtain ⟨f1, f2, f3, f4, f5, f6, f7, f8, f9, f10, f11, f12, f13, _, f15, _, _, f18⟩ := F
  exact ⟨f1 (by intro i h; omega), f2 (by intro i h; omega), f3 (by intro i h; omega), f4 (by intro i h; omega),
    f5 (by intro i h; omega), (f6 (by intro i h; omega)).1, (f6 (by intro i h; omega)).2, f7 (by intro i h; omega),
    f8 (by intro i h; omega), f9 (by intro i h; omega), f10 (by intro i h; omega), f11 (by intro i h; omega),
    f12 (by intro i h; omega), f13 (by intro i h; omega), f15 (by intro i h; omega), f18 (by intro i h; omega)⟩

end Diskfs.Ext4.InodeDec
