/-
  FAT32 geometry (repaired sectors-per-FAT formula, the one in the tree), parametric in the
  cluster-size table (see Proofs/FatGeomP.lean).  The case split is over the allowed cluster sizes
  (512 … 32768 bytes) and the two sector sizes, never over rows of a particular table; what the
  proof needs of the row a size lands on is `row32Ok` (the uint16 sectors-per-FAT cannot wrap for
  the sizes the row serves).
-/
import DiskfsModel.Proofs.FatGeomP
namespace Diskfs.Fat
set_option linter.unusedSimpArgs false

theorem spf32fix_eq (d x e : Nat) (hd : 0 < d) (hd2 : d ≤ 40000) (he : e ≤ 512) (hx : x ≤ 536993790)
    (hlt : 4 * x + e + d - 1 < 65536 * d) :
    u16 (sub32 (u32 (u32 (u32 (4 * x) + e) + d)) 1 / d) = (4 * x + e + d - 1) / d := by
  rw [u32_of_lt (x := 4 * x) (by omega), u32_of_lt (x := 4 * x + e) (by omega),
    u32_of_lt (x := 4 * x + e + d) (by omega), sub32_of_le (by omega) (by omega), u16_of_lt]
  exact (Nat.div_lt_iff_lt_mul hd).mpr hlt

set_option hygiene false in
macro "geom32p_block" B:num : tactic => `(tactic| (
  have hT0 : size / $B < 4294967296 := by omega
  rw [u32_of_lt hT0] at c1 c2 c3 ⊢
  have hT1 : $B * (size / $B) ≤ size := by omega
  have hT2 : size < $B * (size / $B) + $B := by omega
  have hT3 : 32 ≤ size / $B := by omega
  have hT6 : size / $B ≤ top / $B := Nat.div_le_div_right hle
  generalize size / $B = ts at *
  generalize top / $B = tt at *
  simp only [u8, Nat.reduceDiv, Nat.reduceMod, Nat.reduceEqDiff, ↓reduceIte] at c1 c2 c3 ⊢
  simp only [Nat.reduceDiv, Nat.reduceMod, Nat.reduceEqDiff, ↓reduceIte, Nat.reduceMul, Nat.reduceAdd] at hnw
  generalize hd : u32 (u32 _ * _ + 8) = d at c1 c2 c3 ⊢
  simp only [u32, Nat.reduceMod, Nat.reduceMul, Nat.reduceAdd] at hd
  generalize he : u32 (8 * _) = e at c1 c2 c3 ⊢
  simp only [u32, Nat.reduceMod, Nat.reduceMul] at he
  rw [sub32_of_le hT3 (by omega)] at c1 c2 c3 ⊢
  rw [spf32fix_eq d (ts - 32) e (by omega) (by omega) (by omega) (by omega) (by omega)] at c1 c2 c3 ⊢
  subst hd
  subst he
  simp only [u32] at c2
  simp only [KB] at c3
  refine ⟨⟨?_, ?_, ?_, ?_, ?_, ?_⟩, ?_⟩ <;>
    (try simp only [Geom.rootSectors, Geom.dataSectors, Geom.clusters, Geom.fatEntries, Geom.dataStart]) <;>
    first | trivial | omega ))

set_option maxHeartbeats 2000000 in
theorem mkGeom32Fixed_wf_tbl (tbl : List (Nat × Nat)) (hT : ClusterTableWF32 tbl = true)
    (size bs : Nat) (g : Geom) (hmax : size ≤ 274940771839 ∨ bs = 4096)
    (h : mkGeom32Fixed tbl size bs = some g) :
    g.WF size ∧ g.kind = .f32 := by
  have hT' : ClusterTableWF clusterBytesAllowed tbl = true ∧ tbl.all row32Ok = true := by
    unfold ClusterTableWF32 at hT
    simpa only [Bool.and_eq_true] using hT
  obtain ⟨r, hr, hl, hb0, hv⟩ := lookup_row _ tbl size hT'.1
  have hrow : row32Ok r = true := (List.all_eq_true.1 hT'.2) r hr
  unfold mkGeom32Fixed at h
  simp only [ite_none_eq_some, Option.some.injEq] at h
  obtain ⟨hbs, hhi, hlo, c1, c2, c3, rfl⟩ := h
  simp only [fat32MaxSize] at hhi
  rw [hl] at c1 c2 c3 ⊢
  obtain ⟨b0, v⟩ := r
  simp only at hb0 hv hrow c1 c2 c3 ⊢
  unfold row32Ok at hrow
  simp only [List.all_cons, List.all_nil, Bool.and_true, Bool.and_eq_true, decide_eq_true_eq, fat32Cap,
    fat32MaxSize, Nat.reduceEqDiff, ↓reduceIte] at hrow
  obtain ⟨hnw512, hnw4096⟩ := hrow
  simp only [clusterBytesAllowed, List.mem_cons, List.not_mem_nil, or_false] at hv
  have hb : ∃ b, (if bs = 0 then 512 else bs) = b ∧ ((b = 512 ∧ bs ≠ 4096) ∨ (b = 4096 ∧ bs = 4096)) := by
    by_cases h0 : bs = 0
    · exact ⟨512, if_pos h0, Or.inl ⟨rfl, by omega⟩⟩
    · refine ⟨bs, if_neg h0, ?_⟩; omega
  obtain ⟨b, hb, hb'⟩ := hb
  rw [hb] at hlo c1 c2 c3 ⊢
  rcases hb' with ⟨rfl, hne⟩ | ⟨rfl, rfl⟩
  · clear hnw4096
    have hle : size ≤ (if b0 = 0 then 274940771839 else min (b0 - 1) 274940771839) := by
      split <;> omega
    generalize (if b0 = 0 then 274940771839 else min (b0 - 1) 274940771839) = top at hle hnw512
    have hnw := hnw512
    clear hnw512
    rcases hv with rfl | rfl | rfl | rfl | rfl | rfl | rfl <;> geom32p_block 512
  · clear hnw512
    have hle : size ≤ (if b0 = 0 then 2198754099200 else min (b0 - 1) 2198754099200) := by
      split <;> omega
    generalize (if b0 = 0 then 2198754099200 else min (b0 - 1) 2198754099200) = top at hle hnw4096
    have hnw := hnw4096
    clear hnw4096
    rcases hv with rfl | rfl | rfl | rfl | rfl | rfl | rfl <;> geom32p_block 4096

end Diskfs.Fat
